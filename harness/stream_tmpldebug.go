package main

import (
	"fmt"
	"os"
	"strings"
)

// Stream `tmpl-debug` (not part of any check): prints generated templates with their result to
// stderr, for tuning the generator. VERIF_DEBUG_MODE selects valid|parse-err|render-err|all,
// VERIF_DEBUG_RES a substring the result must contain (e.g. "err syntax").
func init() {
	streams["tmpl-debug"] = func(r *Run) {
		mode, want := os.Getenv("VERIF_DEBUG_MODE"), os.Getenv("VERIF_DEBUG_RES")
		n := 0
		for i := 0; i < 7000 && n < 40; i++ {
			g := NewRNG(r.Seed, fmt.Sprint("robust/tmpl/", i))
			o := DefaultTmplOpts()
			o.MaxDepth = 1 + g.Intn(4)
			o.MaxLoopNest = 1 + g.Intn(3)
			o.MaxNodes = 3 + g.Intn(10)
			o.TrimPct = []int{0, 5, 12, 30, 60}[g.Intn(5)]
			cfg := engineCfg{Strict: g.Chance(o.StrictPct)}
			sc := GenSchema(g, o)
			if g.Chance(15) {
				cfg.FS = GenIncludes(g, o, sc)
				o.Includes = cfg.FS
			}
			env := GenEnv(g, o, sc)
			src, info := GenTemplateFor(g, o, sc)
			if mode != "" && mode != "all" && info.Mode != mode {
				continue
			}
			oc := runCaseTimed(cfg, src, RealiseEnv(env), caseHardLimit)
			if want != "" && !strings.Contains(oc.Res, want) {
				continue
			}
			n++
			fmt.Fprintf(os.Stderr, "---- #%d mode=%s strict=%v errs=%v\n%s\n=> %s %s\n", i, info.Mode, cfg.Strict, info.Errs, src, resultSummary(oc.Res), oc.Panic)
			if e, err := cfg.newEngine().ParseAndRender([]byte(src), RealiseEnv(env)); err != nil {
				fmt.Fprintf(os.Stderr, "   error text: %s\n", err)
			} else {
				_ = e
			}
		}
	}
}
