package main

// Stream `scope` (C12): assign/capture bind for the rest of the render; loop variables are
// restored. Every case is a `render` case line.
//
// Specs:
//   s/<seed>/<i>   a program interleaving assign, capture, for/tablerow (shadowing outer names and
//                  forloop), if, case and include, with a probe of every name after every
//                  construct; oracle: the reference environment interpreter of ref_prog.go
//   q/<seed>/<i>   capture equivalence: a generated self-contained fragment F and
//                  {% capture zzq %}F{% endcapture %}{{ zzq }} render the same (or fail alike)
//   k/<j>          hand-written scoping situations

import (
	"fmt"
	"sort"
)

var scopeStream = ctlStream{Name: "scope", Prop: "C12"}

func init() {
	scopeStream.Build = buildScope
	scopeStream.register(runScopeStream)
}

// fixedScopeProgs: the situations the property text names, one by one.
func fixedScopeProgs() [][]pnode {
	pr := func(names ...string) []pnode {
		var out []pnode
		for _, n := range names {
			out = append(out, pText{"|"}, pPrint{pv(n)})
		}
		return out
	}
	cat := func(xs ...[]pnode) []pnode {
		var out []pnode
		for _, x := range xs {
			out = append(out, x...)
		}
		return out
	}
	one := func(n pnode) []pnode { return []pnode{n} }
	loop := func(v string, coll pexpr, body []pnode) pnode { return pFor{Var: v, Coll: coll, Body: body} }
	brk := pIf{Br: []pBranch{{condTruth(pf("forloop", "first")), []pnode{pBreak{}}}}}
	return [][]pnode{
		// assign inside a block is visible after it
		cat(one(pIf{Br: []pBranch{{condTruth(litBool(true)), one(pAssign{"a", litInt(5)})}}}), pr("a")),
		// assign in an iteration is visible in later iterations and after the loop
		cat(one(loop("i", eRange{litInt(1), litInt(3)}, cat(pr("a"), one(pAssign{"a", pv("i")})))), pr("a", "i")),
		// the loop variable is restored after a normal exit and after break
		cat(one(pAssign{"i", litStr("outer")}), one(loop("i", eRange{litInt(1), litInt(2)}, pr("i"))), pr("i")),
		cat(one(pAssign{"i", litStr("outer")}), one(loop("i", eRange{litInt(1), litInt(2)}, cat(pr("i"), one(brk)))), pr("i")),
		// forloop is restored after a nested loop, normally and by break
		one(loop("i", eRange{litInt(1), litInt(2)}, cat(one(pPrint{pf("forloop", "index")}), one(loop("k", eRange{litInt(1), litInt(3)}, cat(one(pPrint{pf("forloop", "length")}), one(brk)))), one(pPrint{pf("forloop", "length")}), pr("k")))),
		// a nested loop over the same name restores the outer value
		one(loop("i", eRange{litInt(1), litInt(2)}, cat(one(loop("i", eRange{litInt(7), litInt(8)}, pr("i"))), pr("i"), one(pText{";"})))),
		// capture holds exactly the rendered text, which is not output
		cat(one(pCapture{"c", cat(one(pText{"x"}), one(loop("i", eRange{litInt(1), litInt(3)}, one(pPrint{pv("i")}))))}), one(pText{"["}), pr("c"), one(pText{"]"})),
		// an assignment inside a capture persists; a capture inside a loop is seen by later iterations
		cat(one(pCapture{"c", one(pAssign{"a", litInt(1)})}), pr("a", "c")),
		cat(one(loop("i", eRange{litInt(1), litInt(3)}, cat(pr("c"), one(pCapture{"c", cat(one(pPrint{pv("c")}), one(pPrint{pv("i")}))})))), pr("c")),
		// a loop over a user variable called forloop, and a loop variable called forloop
		cat(one(pAssign{"forloop", litStr("user")}), one(loop("i", eRange{litInt(1), litInt(2)}, one(pPrint{pf("forloop", "index")}))), pr("forloop")),
		cat(one(pAssign{"forloop", litStr("user")}), one(loop("forloop", eRange{litInt(1), litInt(2)}, one(pPrint{pf("forloop", "index")}))), pr("forloop")),
		// a variable assigned the forloop record holds the values of that moment in later iterations, in a nested loop and after the loop
		cat(one(loop("i", eRange{litInt(1), litInt(3)}, cat(one(pIf{Br: []pBranch{{condTruth(pf("forloop", "first")), one(pAssign{"a", pv("forloop")})}}}),
			one(pPrint{pf("a", "index")}), one(pPrint{pf("a", "rindex")}), one(pPrint{pf("a", "first")}), one(pPrint{pf("a", "last")}), one(pText{";"})))),
			one(pPrint{pf("a", "index")}), one(pPrint{pf("a", "length")})),
		one(loop("i", eRange{litInt(1), litInt(2)}, cat(one(pAssign{"a", pv("forloop")}), one(loop("k", eRange{litInt(1), litInt(3)},
			cat(one(pPrint{pf("a", "index")}), one(pPrint{pf("forloop", "index")}), one(pAssign{"b", pv("forloop")})))),
			one(pPrint{pf("b", "index")}), one(pPrint{pf("a", "index")}), one(pText{";"})))),
		// tablerow restores too
		cat(one(pAssign{"i", litStr("outer")}), one(pFor{Tablerow: true, Var: "i", Coll: eRange{litInt(1), litInt(2)}, Body: pr("i")}), pr("i")),
		// an empty loop with else leaves everything alone
		cat(one(pAssign{"i", litStr("outer")}), one(pFor{Var: "i", Coll: pv("nl"), Body: pr("i"), HasElse: true, Else: one(pAssign{"a", litInt(9)})}), pr("i", "a")),
	}
}

func buildScope(spec string) *ctlCase {
	f := specFields(spec)
	switch {
	case f[0] == "k" && len(f) == 2:
		progs := fixedScopeProgs()
		prog := progs[atoi(f[1])]
		env := map[string]*V{"nl": VNil()}
		exp, _ := refResult(prog, env, nil)
		return &ctlCase{Src: progSrc(prog), Env: env, Expect: exp, Clause: "scoping-situation", Kind: "fixed"}
	case f[0] == "s" && len(f) == 3:
		g := NewRNG(atou(f[1]), "scope/prog/"+f[2])
		p := genProgram(g, pgScope)
		p.budget = 12
		prog := append(p.probe(), p.seq(5)...)
		c := &ctlCase{Env: p.env, Clause: "probe-values", Kind: "program"}
		if len(p.fileOrder) > 0 {
			names := append([]string{}, p.fileOrder...)
			sort.Strings(names)
			for _, n := range names {
				c.Cfg.FS = append(c.Cfg.FS, [2]string{n, progSrc(p.files[n])})
			}
			c.Path, c.Line = mainTemplateName, 1
		}
		c.Src = progSrc(prog)
		exp, in := refResult(prog, p.env, p.files)
		c.Expect = exp
		for n := range p.notes {
			c.Notes = append(c.Notes, n)
		}
		if in.unknown != "" {
			c.Notes = append(c.Notes, "no-claim="+in.unknown)
		}
		for k := range in.events {
			c.Notes = append(c.Notes, "event="+k)
		}
		return c
	case f[0] == "q" && len(f) == 3:
		g := NewRNG(atou(f[1]), "scope/capeq/"+f[2])
		o := DefaultTmplOpts()
		o.MaxDepth = 1 + g.Intn(4)
		o.MaxLoopNest = 1 + g.Intn(3)
		o.MaxNodes = 2 + g.Intn(8)
		o.TrimPct = []int{0, 5, 12, 30}[g.Intn(4)]
		sc := GenSchema(g, o)
		env := GenEnv(g, o, sc)
		frag := GenFragment(g, o, sc)
		c := &ctlCase{Env: env, Src: frag, Partner: "{% capture zzq %}" + frag + "{% endcapture %}{{ zzq }}", PClause: "capture-equivalence", Kind: "capture-equivalence"}
		c.Cfg.Strict = g.Chance(5)
		return c
	}
	return nil
}

func runScopeStream(r *Run) {
	s := scopeStream
	do := func(spec string) {
		if r.Mine() {
			s.exec(r, spec)
		}
	}
	for j := range fixedScopeProgs() {
		do(fmt.Sprintf("k/%d", j))
	}
	ns, nq := 20000, 10000
	if r.Tier == "thorough" {
		ns, nq = 200000, 100000
	}
	for i := 0; i < ns; i++ {
		do(fmt.Sprintf("s/%d/%d", r.Seed, i))
	}
	for i := 0; i < nq; i++ {
		do(fmt.Sprintf("q/%d/%d", r.Seed, i))
	}
}
