package main

// Shared machinery of the streams `cond` (C10), `loops` (C11) and `scope` (C12).
//
// Every case is an ordinary `render` case line (so the Lean model answers it), built from a short
// SPEC string. The spec is carried inside the template itself as a trailing comment block
//
//	{% comment %}@<stream> <spec>{% endcomment %}
//
// (a comment renders nothing), so that a single case line can be replayed: the replayer rebuilds
// the case from the spec — exhaustive cases from their coordinates, random cases from
// (seed, index) through a private RNG — checks that it got the same source and environment, and
// evaluates the same oracle again on the real implementation's result.

import (
	"fmt"
	"os"
	"strings"
)

// condUniverse: the boundary-value universe plus representations whose Liquid value is nil or
// false behind a drop or a pointer.
func condUniverse() []*V {
	u := fullUniverse()
	u = append(u, VDrop(VBool(false)), VDrop(VBool(true)), VPtr(VBool(false)), VPtr(VNil()), VDrop(VDrop(VNil())), VAnys(VBool(false)), VAnys(VNil(), VNil()))
	return u
}

// A ctlCase is one generated case with its oracle.
type ctlCase struct {
	Cfg     engineCfg
	Path    string
	Line    int
	Src     string // template source without the spec comment
	Env     map[string]*V
	Expect  string // "ok <hex>" | "err" | "" (the reference makes no claim)
	Clause  string // clause reported when Expect is not met
	Partner string // non-empty: a second template that must render to the same result (same cfg and env)
	PClause string // clause reported when the two results differ
	Kind    string // histogram key
	Notes   []string
}

func specComment(stream, spec string) string {
	return "{% comment %}@" + stream + " " + spec + "{% endcomment %}"
}

// extractSpec finds the spec of a case source.
func extractSpec(stream, src string) (spec string, ok bool) {
	const end = "{% endcomment %}"
	if !strings.HasSuffix(src, end) {
		return "", false
	}
	open := "{% comment %}@" + stream + " "
	i := strings.LastIndex(src, open)
	if i < 0 {
		return "", false
	}
	return src[i+len(open) : len(src)-len(end)], true
}

// swapped returns the case seen from its partner template (spec suffix "~b").
func (c *ctlCase) swapped() *ctlCase {
	d := *c
	d.Src, d.Partner = c.Partner, c.Src
	return &d
}

// resKind: "ok", "err <kind>", "panic".
func resKind(res string) string {
	f := strings.Fields(res)
	if len(f) >= 2 && f[0] == "err" {
		return "err " + f[1]
	}
	if len(f) >= 1 {
		return f[0]
	}
	return res
}

// sameOutcome: equal outputs, or errors of the same kind.
func sameOutcome(a, b string) bool {
	if strings.HasPrefix(a, "ok ") || strings.HasPrefix(b, "ok ") {
		return a == b
	}
	return resKind(a) == resKind(b)
}

// ctlJudge evaluates the oracle of a case on the implementation's result(s).
func ctlJudge(r *Run, prop, caseLine string, c *ctlCase, res, partnerRes string) {
	if res == "panic" { // a panic is a C01 matter (reported there by the robust and render streams), not one of this property
		r.Count("oracle=panic-not-judged")
		return
	}
	switch {
	case c.Expect == "":
		r.Count("oracle=no-claim")
	case c.Expect == "err":
		r.Count("oracle=expect-err")
		if !strings.HasPrefix(res, "err ") {
			r.Violate(prop, c.Clause, caseLine, fmt.Sprintf("template %q: the reference expects an error, the implementation gives %s", c.Src, resultSummary(res)))
		}
	default:
		r.Count("oracle=expect-output")
		if res != c.Expect {
			r.Violate(prop, c.Clause, caseLine, fmt.Sprintf("template %q: expected %s, got %s", c.Src, resultSummary(c.Expect), resultSummary(res)))
		}
	}
	if c.Partner != "" {
		r.Count("oracle=pair")
		if !sameOutcome(res, partnerRes) {
			r.Violate(prop, c.PClause, caseLine, fmt.Sprintf("%q renders %s but %q renders %s", c.Src, resultSummary(res), c.Partner, resultSummary(partnerRes)))
		}
	}
}

// A ctlStream ties a stream name to its property and case builder.
type ctlStream struct {
	Name, Prop string
	Build      func(spec string) *ctlCase // nil: the spec is not understood
}

func (s ctlStream) safeBuild(spec string) (c *ctlCase) {
	defer func() {
		if rec := recover(); rec != nil {
			c = nil
		}
	}()
	return s.Build(spec)
}

func (s ctlStream) render(c *ctlCase, src string) string {
	return renderImpl(c.Cfg, c.Path, c.Line, src, RealiseEnv(c.Env))
}

// exec runs one case of the stream (the caller has already consulted r.Mine()): one case line,
// or two for a pair.
func (s ctlStream) exec(r *Run, spec string) {
	if only := os.Getenv("VERIF_CTL_ONLY"); only != "" && !strings.HasPrefix(spec, only) { // debugging aid
		return
	}
	c := s.Build(spec)
	if c == nil {
		panic("stream " + s.Name + ": bad spec " + spec)
	}
	// stream `loops`: half of the cases are sent (and rendered) with the entries of every map of the environment in a
	// pseudo-random order, drawn from a private RNG of the case. The Go maps are the same; the reference's expectation
	// was computed from the canonical order; the model has to sort where the code sorts.
	if s.Name == "loops" {
		if gs := NewRNG(r.Seed, "loops/shuffle/"+spec); gs.Chance(50) {
			for _, v := range c.Env {
				if hasMultiMap(v) {
					r.Count("entries=shuffled")
					break
				}
			}
			c.Env = ShuffledEnv(c.Env, gs)
		}
	}
	full := c.Src + specComment(s.Name, spec)
	cl := renderCaseLine(c.Cfg, c.Path, c.Line, full, c.Env)
	res := s.render(c, full)
	pres := ""
	var pfull, pcl string
	if c.Partner != "" {
		pfull = c.Partner + specComment(s.Name, spec+"~b")
		pcl = renderCaseLine(c.Cfg, c.Path, c.Line, pfull, c.Env)
		pres = s.render(c, pfull)
	}
	ctlJudge(r, s.Prop, cl, c, res, pres)
	r.Count("gen=" + c.Kind)
	for _, n := range c.Notes {
		r.Count(n)
	}
	r.Count("res=" + resKind(res))
	if strings.HasPrefix(res, "ok ") && len(res) > 3 {
		r.Nontrivial(spec)
	}
	r.Emit(cl, res)
	if c.Partner != "" {
		if c.Expect != "" { // the expectation holds for both templates of a pair
			d := c.swapped()
			d.Partner = ""
			ctlJudge(r, s.Prop, pcl, d, pres, "")
		}
		r.Emit(pcl, pres)
	}
}

// replay re-runs one case line and, when its spec rebuilds to the same case, the oracle.
func (s ctlStream) replay(r *Run, f []string) string {
	if len(f) != 6 || f[0] != "render" {
		return "bad-case"
	}
	var line int
	fmt.Sscan(f[3], &line)
	cfg, path, src := parseEngineCfg(f[1]), unhexField(f[2]), unhexField(f[4])
	env := DecEnv(f[5])
	res := renderImpl(cfg, path, line, src, RealiseEnv(env))
	spec, ok := extractSpec(s.Name, src)
	if !ok {
		r.Count("replay=no-spec")
		return res
	}
	swap := strings.HasSuffix(spec, "~b")
	c := s.safeBuild(strings.TrimSuffix(spec, "~b"))
	if c == nil {
		r.Count("replay=bad-spec")
		return res
	}
	if swap {
		c = c.swapped()
	}
	if c.Src+specComment(s.Name, spec) != src || EncEnv(c.Env) != EncEnv(CanonEnv(env)) || c.Cfg.Enc() != f[1] || c.Path != path || c.Line != line {
		r.Count("replay=spec-does-not-rebuild-this-case") // an edited case: no oracle
		return res
	}
	pres := ""
	if c.Partner != "" {
		pres = s.render(c, c.Partner)
	}
	ctlJudge(r, s.Prop, strings.Join(f, " "), c, res, pres)
	return res
}

func (s ctlStream) register(run func(r *Run)) {
	streams[s.Name] = run
	replayers[s.Name] = s.replay
}

// specInts parses the '/'-separated fields of a spec.
func specFields(spec string) []string { return strings.Split(spec, "/") }

func atoi(s string) int {
	var n int
	if _, err := fmt.Sscan(s, &n); err != nil {
		panic("bad number " + s)
	}
	return n
}

func atou(s string) uint64 {
	var n uint64
	if _, err := fmt.Sscan(s, &n); err != nil {
		panic("bad number " + s)
	}
	return n
}

// poisonConds: expressions whose evaluation always fails.
var poisonConds = []string{`1 | divided_by: 0`, `1 | nofilter`, `pz | divided_by: 0`, `"a" | plus: 1`, `(1.."a")`, `1 | modulo: 0`, `pz | upcase: 1, 2`}

// poisonWhen: a when value (an `expr`, no filters) whose evaluation always fails.
const poisonWhen = `("a"..2)`
