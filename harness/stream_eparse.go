package main

import (
	"encoding/hex"
	"fmt"
	"strings"

	"github.com/osteele/liquid/expressions"
)

func init() {
	streams["eparse"] = eparseStream
	replayers["eparse"] = func(r *Run, f []string) string { return eparseCase(f[1], unhexField(f[2])) }
}

var selectors = map[string]string{
	"assign": expressions.AssignStatementSelector, "cycle": expressions.CycleStatementSelector,
	"loop": expressions.LoopStatementSelector, "when": expressions.WhenStatementSelector,
}

func flagC(b bool, c string) string {
	if b {
		return c
	}
	return "-"
}

// eparseCase runs the real ragel lexer + yacc parser and prints what is observable of the result.
func eparseCase(kind, src string) string {
	return guard(func() string {
		if kind == "e" {
			_, err := expressions.Parse(src)
			if err != nil {
				return "err"
			}
			return "ok"
		}
		st, err := expressions.ParseStatement(selectors[kind], src)
		if err != nil {
			return "err"
		}
		switch kind {
		case "assign":
			if st.Assignment.ValueFn == nil {
				return "err-nostmt"
			}
			return "ok " + hexField(st.Assignment.Variable)
		case "cycle":
			if len(st.Cycle.Values) == 0 {
				return "err-nostmt"
			}
			vs := make([]string, len(st.Cycle.Values))
			for i, v := range st.Cycle.Values {
				vs[i] = "s" + hex.EncodeToString([]byte(v))
			}
			return "ok " + hexField(st.Cycle.Group) + " " + strings.Join(vs, ",")
		case "loop":
			if st.Loop.Expr == nil {
				return "err-nostmt"
			}
			return fmt.Sprintf("ok %s %s%s%s%s", hexField(st.Loop.Variable), flagC(st.Loop.Reversed, "r"), flagC(st.Loop.Limit != nil, "l"),
				flagC(st.Loop.Offset != nil, "o"), flagC(st.Loop.Cols != nil, "c"))
		case "when":
			if len(st.When.Exprs) == 0 {
				return "err-nostmt"
			}
			return fmt.Sprintf("ok %d", len(st.When.Exprs))
		}
		return "?"
	})
}

func eparseStream(r *Run) {
	g := NewRNG(r.Seed, "eparse")
	kinds := []string{"e", "e", "e", "assign", "cycle", "loop", "when"}
	emit := func(kind, src string) {
		if !r.Mine() {
			return
		}
		cl := fmt.Sprintf("eparse %s %s", kind, hexField(src))
		res := eparseCase(kind, src)
		r.Count("kind=" + kind)
		r.Count("res=" + strings.Fields(res)[0])
		if strings.HasPrefix(res, "ok") {
			r.Nontrivial(cl)
		}
		if res == "panic" {
			r.Violate("C01", "expression-parser-panics", cl, lastPanic)
		}
		r.Emit(cl, res)
	}
	for _, c := range corpusLines("eparse") {
		if f := strings.Fields(c); len(f) == 3 {
			emit(f[1], unhexField(f[2]))
		}
	}
	// exhaustive token soups of length <= 3 (quick) / 4 (thorough) over a reduced alphabet
	small := []string{"a", "1", "\"s\"", "(", ")", "[", "]", "..", ".x", "|", "f:", ",", "==", "<", "and", "contains", "in", "=", " ", "%loop ", "-", "1.5", "'"}
	depth := 3
	if r.Tier == "thorough" {
		depth = 4
	}
	var rec func(prefix string, n int)
	rec = func(prefix string, n int) {
		emit("e", prefix)
		if n == 0 {
			return
		}
		for _, a := range small {
			rec(prefix+a, n-1)
		}
	}
	rec("", depth)
	n := 30000
	if r.Tier == "thorough" {
		n = 400000
	}
	for i := 0; i < n; i++ {
		k := g.Pick(kinds)
		emit(k, genExprSource(g, k))
	}
}
