package main

// Stream `cmp` (property C09): comparison, contains and boolean operators.
//
// Case lines (values use the value codec; a form letter says how an operand reaches the
// operator: `v` = a bound variable `a`, `e` = the element `wa[0]` of a bound one-element array,
// which skips ctx.Get's ToLiquid and so exercises the dropWrapper):
//
//	rel <fa><fb> <a> <b>   ->  ok <== != < > <= >= of (a,b)>|<the same of (b,a)>   each T/F/E/P
//	con <fa><fb> <a> <b>   ->  ok <a contains b>|<b contains a>
//	tru <f> <a>            ->  ok <T/F of `a and true`>
//	expr <cond> <v0> ...   ->  ok <value of the condition>      cond: v<d> e<d> <op>AB &AB |AB
//
// Every operator is evaluated by the real parser and grammar actions through
// expressions.EvaluateString / Parse+Evaluate. The oracle works on the real results only.

import (
	"fmt"
	"math"
	"math/big"
	"strings"

	"github.com/osteele/liquid"
	"github.com/osteele/liquid/expressions"
)

func init() {
	streams["cmp"] = cmpStream
	replayers["cmp"] = func(r *Run, f []string) string {
		switch f[0] {
		case "rel":
			return relCase(r, f[1], ParseV(f[2]), ParseV(f[3]))
		case "con":
			return conCase(r, f[1], ParseV(f[2]), ParseV(f[3]))
		case "tru":
			return truCase(r, f[1], ParseV(f[2]))
		case "expr":
			vs := make([]*V, len(f)-2)
			for i := range vs {
				vs[i] = ParseV(f[i+2])
			}
			return exprCase(r, f[1], vs)
		}
		return "bad-op"
	}
}

var cmpCfg = expressions.NewConfig()

// compiled operator expressions: the real parser runs once per operator and operand form,
// the real grammar actions run on every evaluation.
var cmpExprCache = map[string]expressions.Expression{}

func cmpExpr(src string) expressions.Expression {
	if e, ok := cmpExprCache[src]; ok {
		return e
	}
	e, err := expressions.Parse(src)
	if err != nil {
		panic("harness: cannot parse " + src + ": " + err.Error())
	}
	cmpExprCache[src] = e
	return e
}

// evalTF evaluates a boolean expression on the real code: T, F, E (error), P (panic),
// or ? (a non-boolean result, which no operator may produce).
func evalTF(src string, b map[string]any) (res byte, detail string) {
	defer func() {
		if rec := recover(); rec != nil {
			res, detail = 'P', firstLine(fmt.Sprint(rec))
		}
	}()
	v, err := cmpExpr(src).Evaluate(expressions.NewContext(b, cmpCfg))
	if err != nil {
		return 'E', firstLine(err.Error())
	}
	switch v {
	case true:
		return 'T', ""
	case false:
		return 'F', ""
	}
	return '?', fmt.Sprintf("%T", v)
}


func operandSrc(form byte, name string) string {
	if form == 'e' {
		return "w" + name + "[0]"
	}
	return name
}

func pairBindings(a, b *V) map[string]any {
	ra, rb := a.Realise(), b.Realise()
	return map[string]any{"a": ra, "b": rb, "wa": []any{ra}, "wb": []any{rb}}
}

var relOpsSrc = []string{"==", "!=", "<", ">", "<=", ">="}

const (
	iEq = iota
	iNe
	iLt
	iGt
	iLe
	iGe
)

// ---- the documented rules, as an independent reference (not the Lean model) ---------------

// strip removes what an operand loses before the operator sees it: drops and pointers.
func strip(v *V) *V {
	for {
		switch v.Kind {
		case 'D', 'P':
			v = v.In
		case 'N':
			return VNil()
		default:
			return v
		}
	}
}

// element is the view values.Equal has of a nested value: ToLiquid (a drop that yields a drop is resolved in turn).
func element(v *V) *V {
	for v.Kind == 'D' {
		v = v.In
	}
	return v
}

func specKind(v *V) string {
	switch v.Kind {
	case 'n':
		return "nil"
	case 't', 'f':
		return "bool"
	case 'i', 'd':
		return "number"
	case 's':
		return "string"
	case 'L', 'A', 'b':
		return "array"
	case 'M', 'K':
		return "map"
	}
	return "other"
}

func isDocKind(k string) bool { return k != "other" }

// numCmp compares two numbers as the README describes: integers exactly, an integer and a
// float after conversion of the integer to float64 (the join type). exact reports whether
// that conversion was exact, i.e. whether the comparison is "by numeric value".
func numCmp(a, b *V) (c int, exact bool) {
	if a.Kind == 'i' && b.Kind == 'i' {
		return a.I.Cmp(b.I), true
	}
	exact = true
	conv := func(v *V) *big.Rat {
		if v.Kind == 'd' {
			return v.rat()
		}
		f, acc := new(big.Float).SetInt(v.I).Float64()
		if acc != big.Exact {
			exact = false
		}
		return new(big.Rat).SetFloat64(f)
	}
	return conv(a).Cmp(conv(b)), exact
}

func bytesOf(v *V) []*V {
	out := make([]*V, len(v.S))
	for i := 0; i < len(v.S); i++ {
		out[i] = VInt(6, int64(v.S[i]))
	}
	return out
}

func elemsOf(v *V) []*V {
	if v.Kind == 'b' {
		return bytesOf(v)
	}
	return v.Xs
}

func entriesOf(v *V) [][2]*V {
	if v.Kind == 'K' {
		out := make([][2]*V, len(v.Fs))
		for i, f := range v.Fs {
			out[i] = SKV(f.Name, f.V)
		}
		return out
	}
	return v.KVs
}

func keyTypeOf(v *V) string {
	if v.Kind == 'K' {
		return "s"
	}
	return v.KTy.Enc()
}

// specEq is equality by the documented rules on stripped operands. ok is false where the
// rules say nothing (structs, nested pointers, ordered maps, ranges, ...).
func specEq(a, b *V) (eq bool, ok bool) {
	ka, kb := specKind(a), specKind(b)
	if !isDocKind(ka) || !isDocKind(kb) {
		return false, false
	}
	if ka != kb {
		return false, true
	}
	switch ka {
	case "nil":
		return true, true
	case "bool":
		return a.Kind == b.Kind, true
	case "number":
		c, _ := numCmp(a, b)
		return c == 0, true
	case "string":
		return a.S == b.S, true
	case "array":
		xs, ys := elemsOf(a), elemsOf(b)
		if len(xs) != len(ys) {
			return false, true
		}
		all := true
		for i := range xs {
			e, ok := specEq(element(xs[i]), element(ys[i]))
			if ok && !e {
				return false, true
			}
			if !ok {
				all = false
			}
		}
		return true, all
	case "map":
		ea, eb := entriesOf(a), entriesOf(b)
		if keyTypeOf(a) != keyTypeOf(b) {
			// maps of different key types: only the empty/non-empty disagreement is documented
			return false, len(ea) != len(eb)
		}
		if len(ea) != len(eb) {
			return false, true
		}
		all := true
		for _, kv := range ea {
			var other *V
			for _, kw := range eb {
				if kv[0].Enc() == kw[0].Enc() {
					other = kw[1]
				}
			}
			if other == nil {
				return false, true
			}
			e, ok := specEq(element(kv[1]), element(other))
			if ok && !e {
				return false, true
			}
			if !ok {
				all = false
			}
		}
		return true, all
	}
	return false, false
}

// plain reports whether a value tree is built from the documented kinds only (through drops
// at any level and pointers at the top), so that reflexivity is claimed for it.
func plain(v *V, top bool) bool {
	switch v.Kind {
	case 'n', 't', 'f', 'i', 'd', 's', 'b', 'R', 'U':
		return true
	case 'N':
		return top
	case 'D':
		return plain(v.In, top) && (top || v.In.Kind != 'D')
	case 'P':
		return top && plain(v.In, top)
	case 'L', 'A':
		for _, x := range v.Xs {
			if !plain(x, false) {
				return false
			}
		}
		return true
	case 'M', 'S':
		for _, kv := range v.KVs {
			if !plain(kv[0], false) || !plain(kv[1], false) {
				return false
			}
		}
		return true
	case 'K':
		for _, f := range v.Fs {
			if !plain(f.V, false) {
				return false
			}
		}
		return true
	}
	return false
}

// ---- rel ----------------------------------------------------------------------------------

func relCase(r *Run, forms string, a, b *V) string {
	caseLine := "rel " + forms + " " + a.Enc() + " " + b.Enc()
	bind := pairBindings(a, b)
	sa, sb := operandSrc(forms[0], "a"), operandSrc(forms[1], "b")
	var fwd, rev [6]byte
	bad := ""
	for i, op := range relOpsSrc {
		var d string
		fwd[i], d = evalTF(sa+" "+op+" "+sb, bind)
		if d != "" && bad == "" {
			bad = fmt.Sprintf("%s %s %s: %c %s", sa, op, sb, fwd[i], d)
		}
		rev[i], d = evalTF(sb+" "+op+" "+sa, bind)
		if d != "" && bad == "" {
			bad = fmt.Sprintf("%s %s %s: %c %s", sb, op, sa, rev[i], d)
		}
	}
	res := "ok " + string(fwd[:]) + "|" + string(rev[:])
	viol := func(clause, detail string) { r.Violate("C09", clause, caseLine, detail+" ["+res+"]") }
	if bad != "" {
		viol("operator-never-fails", bad)
		return res
	}
	t := func(c byte) bool { return c == 'T' }
	for _, d := range []struct {
		name string
		x, y [6]byte
	}{{"(a,b)", fwd, rev}, {"(b,a)", rev, fwd}} {
		if t(d.x[iNe]) != !t(d.x[iEq]) {
			viol("ne-is-not-eq", d.name)
		}
		if t(d.x[iGt]) != t(d.y[iLt]) {
			viol("gt-is-swapped-lt", d.name)
		}
		if t(d.x[iLe]) != (t(d.x[iLt]) || t(d.x[iEq])) {
			viol("le-is-lt-or-eq", d.name)
		}
		if t(d.x[iGe]) != (t(d.x[iGt]) || t(d.x[iEq])) {
			viol("ge-is-gt-or-eq", d.name)
		}
	}
	if t(fwd[iEq]) != t(rev[iEq]) {
		viol("eq-symmetric", "a == b differs from b == a")
	}
	// (an array element is resolved by the dropWrapper / ValueOf exactly like a variable)
	pa, pb := strip(a), strip(b)
	ka, kb := specKind(pa), specKind(pb)
	same := a.Enc() == b.Enc()
	if same && plain(a, true) && !t(fwd[iEq]) {
		viol("eq-reflexive", "x == x is false")
	}
	if ka == "nil" || kb == "nil" {
		if isDocKind(ka) && isDocKind(kb) && t(fwd[iEq]) != (ka == kb) {
			viol("nil-equals-only-nil", ka+" vs "+kb)
		}
		if t(fwd[iLt]) || t(fwd[iGt]) {
			viol("ordering-with-nil-false", ka+" vs "+kb)
		}
	}
	if isDocKind(ka) && isDocKind(kb) && ka != kb {
		if t(fwd[iEq]) {
			viol("unlike-kinds-never-equal", ka+" vs "+kb)
		}
		if t(fwd[iLt]) || t(fwd[iGt]) {
			viol("unlike-kinds-unordered", ka+" vs "+kb)
		}
	}
	if ka == "number" && kb == "number" {
		c, exact := numCmp(pa, pb)
		clause := "numbers-by-value"
		if !exact {
			clause = "numbers-by-join-type"
		}
		if t(fwd[iEq]) != (c == 0) || t(fwd[iLt]) != (c < 0) || t(fwd[iGt]) != (c > 0) {
			viol(clause, fmt.Sprintf("numeric comparison is %d", c))
		}
		r.Count(fmt.Sprintf("numbers exact=%v", exact))
	}
	if ka == "string" && kb == "string" {
		if t(fwd[iEq]) != (pa.S == pb.S) || t(fwd[iLt]) != (pa.S < pb.S) || t(fwd[iGt]) != (pa.S > pb.S) {
			viol("strings-lexical", "")
		}
	}
	if e, ok := specEq(pa, pb); ok {
		if t(fwd[iEq]) != e {
			viol("equality-by-value-rules", fmt.Sprintf("documented rules give %v", e))
		}
		r.Count("speceq=" + fmt.Sprint(e))
	} else {
		r.Count("speceq=n/a")
	}
	r.Count("kinds " + ka + "," + kb)
	if t(fwd[iEq]) || t(fwd[iLt]) || t(fwd[iGt]) {
		r.Nontrivial(caseLine)
	}
	return res
}

// ---- contains -------------------------------------------------------------------------------

func conCase(r *Run, forms string, a, b *V) string {
	caseLine := "con " + forms + " " + a.Enc() + " " + b.Enc()
	bind := pairBindings(a, b)
	sa, sb := operandSrc(forms[0], "a"), operandSrc(forms[1], "b")
	fwd, d1 := evalTF(sa+" contains "+sb, bind)
	rev, d2 := evalTF(sb+" contains "+sa, bind)
	res := "ok " + string(fwd) + "|" + string(rev)
	viol := func(clause, detail string) { r.Violate("C09", clause, caseLine, detail+" ["+res+"]") }
	if d1 != "" || d2 != "" {
		viol("operator-never-fails", sa+" contains "+sb+": "+d1+" / reverse: "+d2)
		return res
	}
	check := func(h, n *V, hs, ns string, got byte) {
		ph, pn := strip(h), strip(n)
		switch specKind(ph) {
		case "string":
			if pn.Kind == 's' && (got == 'T') != strings.Contains(ph.S, pn.S) {
				viol("contains-substring", hs+" contains "+ns)
			}
		case "array":
			if ph.Kind == 'b' {
				return
			}
			// (an element that is a pointer, or a drop yielding a drop, is resolved further by
			// indexing than by the one ToLiquid of Equal: outside the documented kinds)
			for _, x := range ph.Xs {
				if !plain(x, false) {
					return
				}
			}
			// membership by ==, evaluated by the real == on each element
			any := false
			for i := range ph.Xs {
				c, d := evalTF(fmt.Sprintf("%s[%d] == %s", hs, i, ns), bind)
				if d != "" {
					viol("operator-never-fails", fmt.Sprintf("%s[%d] == %s: %s", hs, i, ns, d))
					return
				}
				any = any || c == 'T'
			}
			if (got == 'T') != any {
				viol("contains-array-member", fmt.Sprintf("%s contains %s is %c, some element == needle is %v", hs, ns, got, any))
			}
		case "map":
			if keyTypeOf(ph) == "s" && pn.Kind == 's' {
				has := false
				for _, kv := range entriesOf(ph) {
					has = has || kv[0].S == pn.S
				}
				if (got == 'T') != has {
					viol("contains-map-key", hs+" contains "+ns)
				}
			}
			// any key type, scalar needle: "contains tests map key" - the map has the key exactly when looking
			// the needle up finds an entry (maps of the universe hold no nil values, so a found entry is non-nil)
			if pn.Kind == 's' || pn.Kind == 'i' || pn.Kind == 'd' || pn.Kind == 't' || pn.Kind == 'f' {
				nilVal := false
				for _, kv := range entriesOf(ph) {
					nilVal = nilVal || strip(kv[1]).Kind == 'n'
				}
				if !nilVal && ph.Kind == 'M' {
					found, d := evalTF(fmt.Sprintf("%s[%s] != nil", hs, ns), bind)
					if d == "" && (got == 'T') != (found == 'T') {
						viol("contains-map-key-agrees-with-lookup", fmt.Sprintf("%s contains %s is %c, but %s[%s] != nil is %c", hs, ns, got, hs, ns, found))
					}
				}
			}
		case "nil", "bool", "number":
			if got == 'T' {
				viol("contains-scalar-false", hs+" contains "+ns)
			}
		}
	}
	check(a, b, sa, sb, fwd)
	check(b, a, sb, sa, rev)
	r.Count("con kinds " + specKind(strip(a)) + "," + specKind(strip(b)))
	if fwd == 'T' || rev == 'T' {
		r.Nontrivial(caseLine)
	}
	return res
}

// ---- truthiness -------------------------------------------------------------------------------

var cmpEngine = liquid.NewEngine()

func truCase(r *Run, form string, a *V) string {
	caseLine := "tru " + form + " " + a.Enc()
	ra := a.Realise()
	bind := map[string]any{"a": ra, "wa": []any{ra}}
	sa := operandSrc(form[0], "a")
	got, d := evalTF(sa+" and true", bind)
	res := "ok " + string(got)
	viol := func(clause, detail string) { r.Violate("C09", clause, caseLine, detail+" ["+res+"]") }
	if d != "" {
		viol("operator-never-fails", sa+" and true: "+d)
		return res
	}
	pa := strip(a)
	want := !(pa.Kind == 'n' || pa.Kind == 'f')
	if (got == 'T') != want {
		viol("and-or-truthiness", fmt.Sprintf("%s and true is %c, operand kind %s", sa, got, specKind(pa)))
	}
	// the same through `or`, and through a real {% if %}
	if o, d := evalTF(sa+" or false", bind); d != "" || (o == 'T') != want {
		viol("and-or-truthiness", fmt.Sprintf("%s or false is %c %s", sa, o, d))
	}
	out := guard(func() string {
		s, err := cmpEngine.ParseAndRenderString("{% if "+sa+" %}T{% else %}F{% endif %}", map[string]any{"a": ra, "wa": []any{ra}})
		if err != nil {
			return "E " + firstLine(err.Error())
		}
		return s
	})
	if out != map[bool]string{true: "T", false: "F"}[want] {
		viol("if-truthiness", "{% if "+sa+" %} rendered "+out)
	}
	r.Count("tru " + specKind(pa) + "=" + string(got))
	return res
}

// ---- conditions -------------------------------------------------------------------------------

type cexpr struct {
	op   byte // v e = ! < > l g c & |
	i    int
	a, b *cexpr
}

func (c *cexpr) enc() string {
	switch c.op {
	case 'v', 'e':
		return fmt.Sprintf("%c%d", c.op, c.i)
	}
	return string(c.op) + c.a.enc() + c.b.enc()
}

func decCexpr(s string, p *int) *cexpr {
	c := s[*p]
	*p++
	switch c {
	case 'v', 'e':
		d := int(s[*p] - '0')
		*p++
		return &cexpr{op: c, i: d}
	}
	a := decCexpr(s, p)
	b := decCexpr(s, p)
	return &cexpr{op: c, a: a, b: b}
}

var opText = map[byte]string{'=': "==", '!': "!=", '<': "<", '>': ">", 'l': "<=", 'g': ">=", 'c': "contains", '&': "and", '|': "or"}

func (c *cexpr) isAtom() bool  { return c.op == 'v' || c.op == 'e' }
func (c *cexpr) isLogic() bool { return c.op == '&' || c.op == '|' }

// src renders the condition with the parentheses the grammar needs and no others:
// operands of a relational operator are `expr` (a variable or a parenthesised cond), the
// right operand of and/or is a `rel`, the left operand is a `cond`.
func (c *cexpr) src() string {
	atom := func(x *cexpr) string {
		if x.isAtom() {
			return x.src()
		}
		return "(" + x.src() + ")"
	}
	switch {
	case c.op == 'v':
		return fmt.Sprintf("x%d", c.i)
	case c.op == 'e':
		return fmt.Sprintf("w%d[0]", c.i)
	case c.isLogic():
		right := c.b.src()
		if c.b.isLogic() {
			right = "(" + right + ")"
		}
		return c.a.src() + " " + opText[c.op] + " " + right
	}
	return atom(c.a) + " " + opText[c.op] + " " + atom(c.b)
}

// specEval evaluates the condition bottom-up with the real operators at the leaves (each
// relational node is evaluated on its own by the real code) and the documented and/or rule.
func (c *cexpr) realLeaves(bind map[string]any, sub map[*cexpr]any) (val any, fail string) {
	defer func() {
		if rec := recover(); rec != nil {
			val, fail = nil, "panic: "+firstLine(fmt.Sprint(rec))
		}
	}()
	truth := func(v any) bool { return v != nil && v != false }
	switch {
	case c.isAtom():
		v, err := expressions.EvaluateString(c.src(), expressions.NewContext(bind, cmpCfg))
		if err != nil {
			return nil, "error: " + firstLine(err.Error())
		}
		return v, ""
	case c.isLogic():
		x, f := c.a.realLeaves(bind, sub)
		if f != "" {
			return nil, f
		}
		if c.op == '&' && !truth(x) {
			return false, ""
		}
		if c.op == '|' && truth(x) {
			return true, ""
		}
		y, f := c.b.realLeaves(bind, sub)
		if f != "" {
			return nil, f
		}
		return truth(y), ""
	}
	// relational node: bind the operand values to fresh names and run the real operator
	x, f := c.a.realLeaves(bind, sub)
	if f != "" {
		return nil, f
	}
	y, f := c.b.realLeaves(bind, sub)
	if f != "" {
		return nil, f
	}
	v, err := expressions.EvaluateString("p "+opText[c.op]+" q", expressions.NewContext(map[string]any{"p": x, "q": y}, cmpCfg))
	if err != nil {
		return nil, "error: " + firstLine(err.Error())
	}
	return v, ""
}

func exprCase(r *Run, enc string, vs []*V) string {
	parts := make([]string, len(vs))
	for i, v := range vs {
		parts[i] = v.Enc()
	}
	caseLine := "expr " + enc + " " + strings.Join(parts, " ")
	p := 0
	c := decCexpr(enc, &p)
	bind := map[string]any{}
	for i, v := range vs {
		x := v.Realise()
		bind[fmt.Sprintf("x%d", i)] = x
		bind[fmt.Sprintf("w%d", i)] = []any{x}
	}
	src := c.src()
	var got any
	res := guard(func() string {
		v, err := expressions.EvaluateString(src, expressions.NewContext(bind, cmpCfg))
		if err != nil {
			lastPanic = err.Error()
			return "err"
		}
		got = v
		return "ok " + Reify(v).Enc()
	})
	if res == "panic" || res == "err" {
		r.Violate("C09", "operator-never-fails", caseLine, src+": "+res+" "+firstLine(lastPanic))
		return res
	}
	want, fail := c.realLeaves(bind, nil)
	if fail != "" {
		r.Violate("C09", "operator-never-fails", caseLine, src+": sub-expression "+fail)
	} else if !c.isAtom() && got != want {
		r.Violate("C09", "and-or-left-assoc-truthiness", caseLine, fmt.Sprintf("%s evaluates to %v, composing its parts gives %v", src, got, want))
	}
	r.Count("expr result=" + fmt.Sprint(got == true))
	r.Nontrivial(enc)
	return res
}

func randomCexpr(g *RNG, depth, nvars int) *cexpr {
	atom := func() *cexpr {
		if depth > 0 && g.Chance(25) {
			return randomCexpr(g, depth-1, nvars)
		}
		op := byte('v')
		if g.Chance(20) {
			op = 'e'
		}
		return &cexpr{op: op, i: g.Intn(nvars)}
	}
	rel := func() *cexpr {
		if g.Chance(35) {
			return atom()
		}
		return &cexpr{op: "=!<>lgc"[g.Intn(7)], a: atom(), b: atom()}
	}
	c := rel()
	for n := g.Intn(4); n > 0; n-- {
		op := byte('&')
		if g.Bool() {
			op = '|'
		}
		right := rel()
		if depth > 0 && g.Chance(15) {
			right = randomCexpr(g, depth-1, nvars) // will be parenthesised when it is and/or
		}
		c = &cexpr{op: op, a: c, b: right}
	}
	return c
}

// ---- universe and generation ---------------------------------------------------------------

// cmpUniverse: gen_val.go's universe plus every integer width at 0, 1, -1, min and max and a
// few representation variants of equal values.
func cmpUniverse() []*V {
	out := fullUniverse()
	seen := map[string]bool{}
	for _, v := range out {
		seen[v.Enc()] = true
	}
	add := func(v *V) {
		if !seen[v.Enc()] {
			seen[v.Enc()] = true
			out = append(out, v)
		}
	}
	bits := []uint{64, 8, 16, 32, 64, 64, 8, 16, 32, 64}
	for k := 0; k < 10; k++ {
		add(VInt(k, 0))
		add(VInt(k, 1))
		if k < 5 {
			add(VInt(k, -1))
			add(VBig(k, new(big.Int).Neg(new(big.Int).Lsh(big.NewInt(1), bits[k]-1))))
			add(VBig(k, new(big.Int).Sub(new(big.Int).Lsh(big.NewInt(1), bits[k]-1), big.NewInt(1))))
		} else {
			add(VBig(k, new(big.Int).Sub(new(big.Int).Lsh(big.NewInt(1), bits[k]), big.NewInt(1))))
		}
	}
	add(VBig(9, new(big.Int).Lsh(big.NewInt(1), 63)))                                     // MaxInt64+1
	add(VBig(9, new(big.Int).Add(new(big.Int).Lsh(big.NewInt(1), 53), big.NewInt(1))))    // 2^53+1 unsigned
	add(VBig(9, new(big.Int).Sub(new(big.Int).Lsh(big.NewInt(1), 64), big.NewInt(1025)))) // rounds to 2^64-2048
	add(VFlt(1, math.Ldexp(1, 63)))
	add(VFlt(1, math.Ldexp(1, 64)))
	add(VFlt(1, -math.Ldexp(1, 63)))
	add(VFlt(1, float64(1<<53)+2))
	add(VFlt(1, 127))
	add(VFlt(0, 255))
	i := func(n int64) *V { return VInt(0, n) }
	add(VAnys(VFlt(1, 1)))
	add(VAnys(VInt(6, 1), VInt(4, 2)))
	add(VSlice(TInt(1), VInt(1, 1)))
	add(VArr(TInt(0), i(1), i(2)))
	add(VAnys(VStrMap(SKV("a", i(1)))))
	add(VStrMap(SKV("a", VFlt(1, 1))))
	add(VStrMap(SKV("a", VNil()), SKV("b", i(1)))) // a key whose value is nil is still a key (contains), and still equal to itself
	add(VStrMap(SKV("a", VAnys(i(1)))))
	add(VStrMap(SKV("b", i(1))))
	add(VMap(TStr, TAny))
	add(VMap(TInt(0), TAny))
	add(VMap(TAny, TAny, KV(VStr("a"), i(1))))
	add(VMap(TAny, TAny, KV(i(1), VStr("x")), KV(VStr("1"), VStr("y"))))
	add(VStrMap(SKV("m", VStrMap(SKV("a", i(1))))))
	add(VMapSlice(SKV("a", VFlt(1, 1)), SKV("b", i(2))))
	add(VMapSlice(SKV("a", VAnys(i(1)))))
	add(VMapSlice(KV(VAnys(i(1)), i(1))))
	add(VDrop(VDrop(i(1))))
	add(VDrop(VBool(false)))
	add(VDrop(VMapSlice(SKV("a", i(1)))))
	add(VPtr(VDrop(i(1))))
	add(VPtr(VNil()))
	add(VPtr(VAnys(i(1))))
	add(VPtr(VStrMap(SKV("a", i(1)))))
	add(VAnys(VPtr(i(1))))
	add(VAnys(VNilPtr()))
	add(VStruct(Field{"a", VAnys(i(1))}))
	add(VTime(0))
	add(VTime(86400))
	return out
}

// variant returns a value that the documented rules consider equal to v (another width, a
// typed container, a drop or a pointer), or a near miss.
func variant(g *RNG, v *V, depth int) *V {
	switch v.Kind {
	case 'i':
		switch g.Intn(4) {
		case 0:
			for try := 0; try < 4; try++ {
				k := g.Intn(10)
				w := VBig(k, v.I)
				if intFits(k, v.I) {
					return w
				}
			}
		case 1:
			if f, acc := new(big.Float).SetInt(v.I).Float64(); acc == big.Exact || g.Chance(50) {
				return VFlt(1, f)
			}
		case 2:
			return VBig(v.IK, new(big.Int).Add(v.I, big.NewInt(int64(g.Intn(3)-1)))) // may leave the width's range: fixed below
		}
	case 'd':
		if v.Den.IsInt64() && v.Den.Int64() == 1 && v.Num.IsInt64() && g.Chance(60) {
			return VInt([]int{0, 4, 3}[g.Intn(3)], v.Num.Int64())
		}
	case 'L':
		if depth > 0 {
			xs := make([]*V, len(v.Xs))
			for i, x := range v.Xs {
				xs[i] = variant(g, x, depth-1)
			}
			if g.Chance(30) && len(xs) > 0 {
				return VArr(TAny, xs...)
			}
			return VAnys(xs...)
		}
	case 'M':
		if depth > 0 && v.KTy.C == 's' {
			kvs := make([][2]*V, len(v.KVs))
			for i, kv := range v.KVs {
				kvs[i] = KV(kv[0], variant(g, kv[1], depth-1))
			}
			if g.Chance(15) && len(kvs) > 0 {
				kvs = kvs[1:]
			}
			return VStrMap(kvs...)
		}
	case 'S':
		if depth > 0 {
			kvs := make([][2]*V, len(v.KVs))
			for i, kv := range v.KVs {
				kvs[i] = KV(kv[0], variant(g, kv[1], depth-1))
			}
			return VMapSlice(kvs...)
		}
	}
	switch g.Intn(6) {
	case 0:
		return VDrop(v)
	case 1:
		if depth == 3 {
			return VPtr(v)
		}
	}
	return v
}

func intFits(k int, n *big.Int) bool {
	bits := []uint{64, 8, 16, 32, 64, 64, 8, 16, 32, 64}[k]
	if k >= 5 {
		return n.Sign() >= 0 && n.BitLen() <= int(bits)
	}
	lo := new(big.Int).Neg(new(big.Int).Lsh(big.NewInt(1), bits-1))
	hi := new(big.Int).Sub(new(big.Int).Lsh(big.NewInt(1), bits-1), big.NewInt(1))
	return n.Cmp(lo) >= 0 && n.Cmp(hi) <= 0
}

// wellFormed rejects generated values whose integers do not fit their width.
func wellFormed(v *V) bool {
	switch v.Kind {
	case 'i':
		return intFits(v.IK, v.I)
	case 'L', 'A':
		for _, x := range v.Xs {
			if !wellFormed(x) {
				return false
			}
		}
	case 'M', 'S':
		for _, kv := range v.KVs {
			if !wellFormed(kv[0]) || !wellFormed(kv[1]) {
				return false
			}
		}
	case 'D', 'P':
		return wellFormed(v.In)
	}
	return true
}

func cmpStream(r *Run) {
	if r.Shard == 0 {
		cmpUintptrFamily(r)
		cmpAliasedFamily(r)
	}
	// (NewRNG(seed) and NewRNG(seed+1) yield the same sequence shifted by one draw, so the seed
	// is hashed first to make the runs of different seeds independent)
	g := NewRNG(hashString(fmt.Sprintf("cmp-seed-%d", r.Seed)), "cmp")
	u := cmpUniverse()
	r.Stats.Notes["universe"] = fmt.Sprint(len(u))
	pair := func(forms string, a, b *V) {
		if !r.Mine() {
			return
		}
		r.Emit("rel "+forms+" "+a.Enc()+" "+b.Enc(), relCase(r, forms, a, b))
		r.Emit("con "+forms+" "+a.Enc()+" "+b.Enc(), conCase(r, forms, a, b))
	}
	// 1. every unordered pair of the universe (each case runs both orders), as variables
	for i := range u {
		for j := i; j < len(u); j++ {
			pair("vv", u[i], u[j])
		}
	}
	// 2. the universe against itself and a few partners as array elements (dropWrapper path)
	for i := range u {
		pair("ee", u[i], u[i])
		pair("ev", u[i], u[(i*7+3)%len(u)])
		pair("ve", u[i], u[(i*11+5)%len(u)])
	}
	// 3. truthiness of every universe value, both forms
	for _, v := range u {
		for _, f := range []string{"v", "e"} {
			if r.Mine() {
				r.Emit("tru "+f+" "+v.Enc(), truCase(r, f, v))
			}
		}
	}
	// 4. random value trees: independent pairs, and a tree against a variant of itself
	n, ne := 4000, 3000
	if r.Tier == "thorough" {
		n, ne = 60000, 40000
	}
	forms := []string{"vv", "vv", "vv", "ee", "ev", "ve"}
	for k := 0; k < n; k++ {
		a := randomVal(g, 3)
		var b *V
		switch g.Intn(3) {
		case 0:
			b = randomVal(g, 3)
		default:
			b = variant(g, a, 3)
		}
		f := forms[g.Intn(len(forms))]
		if !wellFormed(a) || !wellFormed(b) {
			r.Mine()
			continue
		}
		pair(f, a, b)
		if k%8 == 0 && r.Mine() {
			r.Emit("tru "+f[:1]+" "+a.Enc(), truCase(r, f[:1], a))
		}
	}
	// 5. random conditions over three bound values
	for k := 0; k < ne; k++ {
		nv := 3
		vs := make([]*V, nv)
		for i := range vs {
			if g.Chance(50) {
				vs[i] = u[g.Intn(len(u))]
			} else {
				vs[i] = randomVal(g, 2)
			}
		}
		if g.Chance(40) {
			vs[1] = variant(g, vs[0], 2)
			if !wellFormed(vs[1]) {
				vs[1] = vs[0]
			}
		}
		c := randomCexpr(g, 2, nv)
		if c.isAtom() { // keep the result a boolean
			c = &cexpr{op: "&|"[g.Intn(2)], a: c, b: &cexpr{op: 'v', i: g.Intn(nv)}}
		}
		if !r.Mine() {
			continue
		}
		r.Emit("expr "+c.enc()+" "+vs[0].Enc()+" "+vs[1].Enc()+" "+vs[2].Enc(), exprCase(r, c.enc(), vs))
	}
}
