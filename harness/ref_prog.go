package main

// A small structured template language (the control-flow and scoping tags only) with a source
// printer and an independent REFERENCE INTERPRETER. The streams `cond` (C10), `loops` (C11) and
// `scope` (C12) generate programs in this language, render their source with the real engine and
// compare the output with the reference's. The reference knows nothing about the Lean model or
// the library: it is the oracle of those properties, written from their statements:
//
//   * truthiness: every value except nil and false is truthy (a drop or pointer stands for the
//     value it presents; a nil pointer is nil);
//   * if/elsif/else: the first branch whose condition is truthy, later conditions not evaluated;
//     unless: the first condition negated; case: the first when clause listing an equal value;
//   * for/tablerow: items of the collection, reversed, offset, limit, else iff nothing selected,
//     forloop fields, break/continue of the innermost loop, cycle counters per loop execution and
//     group, tablerow decoration;
//   * assign/capture bind in one flat environment for the rest of the render; a loop restores its
//     variable and forloop; an included file starts from a copy of the environment.

import (
	"fmt"
	"math/big"
	"sort"
	"strings"
)

// ---- expressions ---------------------------------------------------------------------------

type pexpr interface{ src() string }

type eLit struct { // a literal with its source text
	V *V
	S string
}
type psel struct { // .Field or [Idx]
	Field string
	Idx   int
	IsIdx bool
}
type ePath struct { // x, x.f, x[0]
	Name string
	Sel  []psel
}
type eRange struct{ A, B pexpr } // (a..b)
type ePlus struct {              // e | plus: n   (int receiver; the result is a whole float64)
	E pexpr
	N int64
}
type eRaw struct{ S string } // source text the reference cannot evaluate (always an error when reached: "poison")

func (e eLit) src() string { return e.S }
func (e ePath) src() string {
	s := e.Name
	for _, x := range e.Sel {
		if x.IsIdx {
			s += fmt.Sprintf("[%d]", x.Idx)
		} else {
			s += "." + x.Field
		}
	}
	return s
}
func (e eRange) src() string { return "(" + e.A.src() + ".." + e.B.src() + ")" }
func (e ePlus) src() string  { return fmt.Sprintf("%s | plus: %d", e.E.src(), e.N) }
func (e eRaw) src() string   { return e.S }

func litInt(n int64) eLit   { return eLit{VInt(0, n), fmt.Sprint(n)} }
func litStr(s string) eLit  { return eLit{VStr(s), `"` + s + `"`} }
func litBool(b bool) eLit   { return eLit{VBool(b), fmt.Sprint(b)} }
func litNil() eLit          { return eLit{VNil(), "nil"} }
func pv(name string) ePath  { return ePath{Name: name} }
func pf(name, f string) ePath {
	return ePath{Name: name, Sel: []psel{{Field: f}}}
}
func pidx(name string, i int) ePath {
	return ePath{Name: name, Sel: []psel{{Idx: i, IsIdx: true}}}
}

// ---- conditions ----------------------------------------------------------------------------

const (
	ckTruth  = iota // truthiness of a plain expression (variable, path, literal)
	ckCmp           // integer comparison A Op B
	ckFixed         // opaque source text whose outcome was measured by a probe render (Val)
	ckPoison        // an expression that fails whenever it is evaluated
)

type pcond struct {
	Kind int
	E    pexpr  // ckTruth
	A, B pexpr  // ckCmp
	Op   string // ckCmp
	Src  string // ckFixed, ckPoison
	Val  int    // ckFixed: 1 true, 0 false, -1 evaluation fails, -2 not measurable
}

func (c *pcond) src() string {
	switch c.Kind {
	case ckTruth:
		return c.E.src()
	case ckCmp:
		return c.A.src() + " " + c.Op + " " + c.B.src()
	}
	return c.Src
}

func condTruth(e pexpr) *pcond            { return &pcond{Kind: ckTruth, E: e} }
func condCmp(a pexpr, op string, b pexpr) *pcond { return &pcond{Kind: ckCmp, A: a, Op: op, B: b} }
func condPoison(s string) *pcond          { return &pcond{Kind: ckPoison, Src: s} }

// ---- nodes ---------------------------------------------------------------------------------

type pnode interface{}

type pText struct{ S string }
type pPrint struct{ E pexpr }
type pAssign struct {
	Name string
	E    pexpr
}
type pCapture struct {
	Name string
	Body []pnode
}
type pBranch struct {
	C    *pcond // nil: else
	Body []pnode
}
type pIf struct {
	Unless bool
	Br     []pBranch // Br[0].C != nil; `unless` is followed by else branches only
}
type pWhen struct {
	Vals []pexpr // nil: else
	Body []pnode
}
type pCase struct {
	Subj  pexpr
	Whens []pWhen
}
type pFor struct {
	Tablerow             bool
	Var                  string
	Coll                 pexpr
	Reversed             bool
	Offset, Limit, Cols  pexpr    // nil: absent
	Order                []string // textual order of the modifiers present ("reversed","offset","limit","cols")
	Body                 []pnode
	HasElse              bool
	Else                 []pnode
}
type pBreak struct{}
type pContinue struct{}
type pCycle struct {
	Group *string
	Vals  []string
}
type pInclude struct{ File string }

// ---- source printer ------------------------------------------------------------------------

func progSrc(nodes []pnode) string {
	var sb strings.Builder
	writeProg(&sb, nodes)
	return sb.String()
}

func qstr(s string) string { return `"` + s + `"` }

func writeProg(sb *strings.Builder, nodes []pnode) {
	for _, n := range nodes {
		switch n := n.(type) {
		case pText:
			sb.WriteString(n.S)
		case pPrint:
			sb.WriteString("{{ " + n.E.src() + " }}")
		case pAssign:
			sb.WriteString("{% assign " + n.Name + " = " + n.E.src() + " %}")
		case pCapture:
			sb.WriteString("{% capture " + n.Name + " %}")
			writeProg(sb, n.Body)
			sb.WriteString("{% endcapture %}")
		case pIf:
			name := "if"
			if n.Unless {
				name = "unless"
			}
			for i, b := range n.Br {
				switch {
				case i == 0:
					sb.WriteString("{% " + name + " " + b.C.src() + " %}")
				case b.C == nil:
					sb.WriteString("{% else %}")
				default:
					sb.WriteString("{% elsif " + b.C.src() + " %}")
				}
				writeProg(sb, b.Body)
			}
			sb.WriteString("{% end" + name + " %}")
		case pCase:
			sb.WriteString("{% case " + n.Subj.src() + " %}")
			for _, w := range n.Whens {
				if w.Vals == nil {
					sb.WriteString("{% else %}")
				} else {
					vs := make([]string, len(w.Vals))
					for i, v := range w.Vals {
						vs[i] = v.src()
					}
					sb.WriteString("{% when " + strings.Join(vs, ", ") + " %}")
				}
				writeProg(sb, w.Body)
			}
			sb.WriteString("{% endcase %}")
		case pFor:
			name := "for"
			if n.Tablerow {
				name = "tablerow"
			}
			sb.WriteString("{% " + name + " " + n.Var + " in " + n.Coll.src())
			for _, m := range n.Order {
				switch m {
				case "reversed":
					sb.WriteString(" reversed")
				case "offset":
					sb.WriteString(" offset: " + n.Offset.src())
				case "limit":
					sb.WriteString(" limit: " + n.Limit.src())
				case "cols":
					sb.WriteString(" cols: " + n.Cols.src())
				}
			}
			sb.WriteString(" %}")
			writeProg(sb, n.Body)
			if n.HasElse {
				sb.WriteString("{% else %}")
				writeProg(sb, n.Else)
			}
			sb.WriteString("{% end" + name + " %}")
		case pBreak:
			sb.WriteString("{% break %}")
		case pContinue:
			sb.WriteString("{% continue %}")
		case pCycle:
			sb.WriteString("{% cycle ")
			if n.Group != nil {
				sb.WriteString(qstr(*n.Group) + ": ")
			}
			vs := make([]string, len(n.Vals))
			for i, v := range n.Vals {
				vs[i] = qstr(v)
			}
			sb.WriteString(strings.Join(vs, ", ") + " %}")
		case pInclude:
			sb.WriteString("{% include " + qstr(n.File) + " %}")
		default:
			panic(fmt.Sprintf("writeProg: unknown node %T", n))
		}
	}
}

// ---- reference values ----------------------------------------------------------------------

// liquidV is the value a drop or pointer presents (nil pointer: nil).
func liquidV(v *V) *V {
	for v != nil {
		switch v.Kind {
		case 'D', 'P':
			v = v.In
			continue
		case 'N':
			return VNil()
		}
		break
	}
	if v == nil {
		return VNil()
	}
	return v
}

// refTruthy: the truthiness table of C10.
func refTruthy(v *V) bool {
	v = liquidV(v)
	return !(v.Kind == 'n' || v.Kind == 'f')
}

// refPrint: how the reference expects a value to print; ok=false when it does not claim to know
// (floats that are not whole, maps, ranges, ...).
func refPrint(v *V) (string, bool) {
	v = liquidV(v)
	switch v.Kind {
	case 'n':
		return "", true
	case 't':
		return "true", true
	case 'f':
		return "false", true
	case 'i':
		return v.I.String(), true
	case 'd':
		if v.Den.Cmp(big.NewInt(1)) == 0 && v.Num.BitLen() < 50 {
			return v.Num.String(), true
		}
		return "", false
	case 's':
		return v.S, true
	case 'L', 'A':
		var sb strings.Builder
		for _, x := range v.Xs {
			s, ok := refPrint(x)
			if !ok {
				return "", false
			}
			sb.WriteString(s)
		}
		return sb.String(), true
	}
	return "", false
}

// simpleClass: 0 nil, 1 bool, 2 number (signed integer of magnitude < 2^53, or float), 3 string,
// -1 anything else (the reference makes no claim about equality).
func simpleClass(v *V) int {
	switch v.Kind {
	case 'n':
		return 0
	case 't', 'f':
		return 1
	case 'i':
		if v.IK <= 4 && v.I.BitLen() <= 53 {
			return 2
		}
	case 'd':
		return 2
	case 's':
		return 3
	}
	return -1
}

// refRat: the exact value of a number as the implementation holds it (float32 is rounded).
func refRat(v *V) *big.Rat {
	if v.Kind == 'i' {
		return new(big.Rat).SetInt(v.I)
	}
	switch f := v.Realise().(type) {
	case float32:
		return new(big.Rat).SetFloat64(float64(f))
	case float64:
		return new(big.Rat).SetFloat64(f)
	}
	panic("refRat")
}

// refEqual: == on simple values of the same class; ok=false when either side is not simple.
func refEqual(a, b *V) (eq bool, ok bool) {
	ca, cb := simpleClass(a), simpleClass(b)
	if ca < 0 || cb < 0 {
		return false, false
	}
	if ca != cb {
		return false, true
	}
	switch ca {
	case 0:
		return true, true
	case 1:
		return a.Kind == b.Kind, true
	case 2:
		return refRat(a).Cmp(refRat(b)) == 0, true
	}
	return a.S == b.S, true
}

func goInt(v *V) (int64, bool) {
	if v != nil && v.Kind == 'i' && v.IK == 0 {
		return v.I.Int64(), true
	}
	return 0, false
}

// refItems: the items a loop over v visits (before the modifiers); non-iterable: none.
func refItems(v *V) []*V {
	v = liquidV(v)
	switch v.Kind {
	case 'L', 'A':
		return append([]*V(nil), v.Xs...)
	case 'R':
		var out []*V
		for i := v.A; i <= v.B; i++ {
			out = append(out, VInt(0, i))
		}
		return out
	case 'M': // [key, value] pairs, each key once, in sorted key order
		kvs := append([][2]*V(nil), v.KVs...)
		sort.SliceStable(kvs, func(i, j int) bool {
			a, b := kvs[i][0], kvs[j][0]
			if a.Kind == 's' && b.Kind == 's' {
				return a.S < b.S
			}
			if a.Kind == 'i' && b.Kind == 'i' {
				return a.I.Cmp(b.I) < 0
			}
			return keyLess(a, b)
		})
		out := make([]*V, len(kvs))
		for i, kv := range kvs {
			out[i] = VAnys(kv[0], kv[1])
		}
		return out
	case 'S':
		out := make([]*V, len(v.KVs))
		for i, kv := range v.KVs {
			out[i] = VAnys(kv[0], kv[1])
		}
		return out
	case 'K':
		keys := make([]string, len(v.Fs))
		for i, f := range v.Fs {
			keys[i] = f.Name
		}
		sort.Strings(keys)
		out := make([]*V, len(keys))
		for i, k := range keys {
			out[i] = VStr(k)
		}
		return out
	}
	return nil
}

// ---- the interpreter -----------------------------------------------------------------------

type rstatus int

const (
	sDone rstatus = iota
	sBrk
	sCont
	sErr
)

type refInterp struct {
	env     map[string]*V
	frames  []map[string]int // cycle counters of the loop executions in progress (innermost last)
	fs      map[string][]pnode
	unknown string // non-empty: the reference met something it makes no claim about
	steps   int
	// coverage notes
	maxLoopDepth int
	events       map[string]int
}

func newRefInterp(env map[string]*V, fs map[string][]pnode) *refInterp {
	e := make(map[string]*V, len(env))
	for k, v := range env {
		e[k] = v
	}
	return &refInterp{env: e, fs: fs, events: map[string]int{}}
}

func (in *refInterp) giveUp(why string) {
	if in.unknown == "" {
		in.unknown = why
	}
}

func (in *refInterp) get(name string) *V {
	if v, ok := in.env[name]; ok && v != nil {
		return v
	}
	return VNil()
}

// eval returns the value of an expression; err=true when evaluation fails.
func (in *refInterp) eval(e pexpr) (v *V, err bool) {
	switch e := e.(type) {
	case eLit:
		return e.V, false
	case ePath:
		v := in.get(e.Name)
		for _, s := range e.Sel {
			v = liquidV(v)
			switch {
			case s.IsIdx:
				if (v.Kind == 'L' || v.Kind == 'A') && s.Idx >= 0 && s.Idx < len(v.Xs) {
					v = v.Xs[s.Idx]
				} else if v.Kind == 'L' || v.Kind == 'A' || v.Kind == 'n' {
					v = VNil()
				} else {
					in.giveUp("index of a non-array")
					return VNil(), false
				}
			case v.Kind == 'M' && v.KTy.C == 's':
				found := VNil()
				for _, kv := range v.KVs {
					if kv[0].S == s.Field {
						found = kv[1]
					}
				}
				if found.Kind == 'n' && s.Field == "size" {
					found = VInt(0, int64(len(v.KVs)))
				}
				v = found
			case v.Kind == 'L' || v.Kind == 'A':
				switch s.Field {
				case "size":
					v = VInt(0, int64(len(v.Xs)))
				case "first":
					if len(v.Xs) > 0 {
						v = v.Xs[0]
					} else {
						v = VNil()
					}
				case "last":
					if len(v.Xs) > 0 {
						v = v.Xs[len(v.Xs)-1]
					} else {
						v = VNil()
					}
				default:
					v = VNil()
				}
			case v.Kind == 'n' || v.Kind == 'i' || v.Kind == 't' || v.Kind == 'f':
				v = VNil()
			case v.Kind == 's' && s.Field != "size":
				v = VNil()
			default:
				in.giveUp("property of " + string(v.Kind))
				return VNil(), false
			}
		}
		return v, false
	case eRange:
		a, ea := in.eval(e.A)
		b, eb := in.eval(e.B)
		if ea || eb {
			return nil, true
		}
		x, ok1 := goInt(a)
		y, ok2 := goInt(b)
		if !ok1 || !ok2 {
			return nil, true // range endpoints must be integers
		}
		return VRange(x, y), false
	case ePlus:
		v, er := in.eval(e.E)
		if er {
			return nil, true
		}
		x, ok := goInt(v)
		if !ok {
			in.giveUp("plus on a non-int")
			return VNil(), false
		}
		return VFlt(1, float64(x+e.N)), false
	case eRaw:
		return nil, true
	}
	panic(fmt.Sprintf("eval: %T", e))
}

func (in *refInterp) cond(c *pcond) (truth bool, err bool) {
	switch c.Kind {
	case ckTruth:
		v, er := in.eval(c.E)
		if er {
			return false, true
		}
		return refTruthy(v), false
	case ckCmp:
		a, ea := in.eval(c.A)
		b, eb := in.eval(c.B)
		if ea || eb {
			return false, true
		}
		x, ok1 := goInt(a)
		y, ok2 := goInt(b)
		if !ok1 || !ok2 {
			in.giveUp("comparison of non-ints")
			return false, false
		}
		switch c.Op {
		case "==":
			return x == y, false
		case "!=":
			return x != y, false
		case "<":
			return x < y, false
		case ">":
			return x > y, false
		case "<=":
			return x <= y, false
		case ">=":
			return x >= y, false
		}
		panic("cmp op")
	case ckFixed:
		switch c.Val {
		case 1:
			return true, false
		case 0:
			return false, false
		case -1:
			return false, true
		}
		in.giveUp("condition not measurable")
		return false, false
	case ckPoison:
		return false, true
	}
	panic("cond kind")
}

// modInt evaluates a loop modifier: it must be a Go int.
func (in *refInterp) modInt(e pexpr) (n int64, err bool) {
	v, er := in.eval(e)
	if er {
		return 0, true
	}
	x, ok := goInt(v)
	if !ok {
		return 0, true
	}
	return x, false
}

func (in *refInterp) run(nodes []pnode, w *strings.Builder) rstatus {
	for _, n := range nodes {
		if st := in.node(n, w); st != sDone {
			return st
		}
	}
	return sDone
}

func (in *refInterp) node(n pnode, w *strings.Builder) rstatus {
	in.steps++
	if in.steps > 200000 || w.Len() > 1<<20 {
		in.giveUp("too many steps or too much output")
		return sErr
	}
	switch n := n.(type) {
	case pText:
		w.WriteString(n.S)
	case pPrint:
		v, er := in.eval(n.E)
		if er {
			return sErr
		}
		s, ok := refPrint(v)
		if !ok {
			in.giveUp("print of " + string(liquidV(v).Kind))
		}
		w.WriteString(s)
	case pAssign:
		v, er := in.eval(n.E)
		if er {
			return sErr
		}
		in.env[n.Name] = v
	case pCapture:
		var b strings.Builder
		if st := in.run(n.Body, &b); st != sDone {
			return st
		}
		in.env[n.Name] = VStr(b.String())
	case pIf:
		for i, b := range n.Br {
			t := true
			if b.C != nil {
				var er bool
				t, er = in.cond(b.C)
				if er {
					return sErr
				}
				if n.Unless && i == 0 {
					t = !t
				}
			}
			if t {
				in.events[fmt.Sprintf("branch%d", i+1)]++
				return in.run(b.Body, w)
			}
		}
		in.events["branch-none"]++
	case pCase:
		subj, er := in.eval(n.Subj)
		if er {
			return sErr
		}
		for _, wh := range n.Whens {
			if wh.Vals == nil {
				return in.run(wh.Body, w)
			}
			for _, ve := range wh.Vals {
				v, er := in.eval(ve)
				if er {
					return sErr
				}
				eq, ok := refEqual(liquidV(subj), liquidV(v))
				if !ok {
					in.giveUp("equality of non-simple values")
				}
				if eq {
					return in.run(wh.Body, w)
				}
			}
		}
	case pFor:
		return in.loop(n, w)
	case pBreak:
		return sBrk
	case pContinue:
		return sCont
	case pCycle:
		if len(in.frames) == 0 {
			return sErr
		}
		fr := in.frames[len(in.frames)-1]
		g := ""
		if n.Group != nil {
			g = *n.Group
		}
		k := fr[g]
		fr[g] = k + 1
		w.WriteString(n.Vals[k%len(n.Vals)])
		in.events["cycle"]++
	case pInclude:
		body, ok := in.fs[n.File]
		if !ok {
			return sErr
		}
		sub := newRefInterp(in.env, in.fs) // the included file starts from a copy of the environment
		sub.frames = in.frames
		sub.steps = in.steps
		var b strings.Builder
		st := sub.run(body, &b)
		in.steps = sub.steps
		if sub.unknown != "" {
			in.giveUp(sub.unknown)
		}
		if st == sErr {
			return sErr
		}
		if st != sDone {
			in.giveUp("break/continue escapes an included file")
			return sErr
		}
		w.WriteString(b.String())
		in.events["include"]++
	default:
		panic(fmt.Sprintf("node: %T", n))
	}
	return sDone
}

func (in *refInterp) loop(n pFor, w *strings.Builder) rstatus {
	cv, er := in.eval(n.Coll)
	if er {
		return sErr
	}
	items := refItems(cv)
	if k := liquidV(cv).Kind; k == 'b' || k == 'T' || k == 'U' || k == 'X' {
		in.giveUp("loop over " + string(k))
	}
	if n.Reversed {
		for i, j := 0, len(items)-1; i < j; i, j = i+1, j-1 {
			items[i], items[j] = items[j], items[i]
		}
	}
	if n.Offset != nil {
		o, er := in.modInt(n.Offset)
		if er {
			return sErr
		}
		if o > 0 { // a negative offset means absent
			if o > int64(len(items)) {
				o = int64(len(items))
			}
			items = items[o:]
		}
	}
	if n.Limit != nil {
		l, er := in.modInt(n.Limit)
		if er {
			return sErr
		}
		if l >= 0 && l < int64(len(items)) { // a negative limit means absent
			items = items[:l]
		}
	}
	if len(items) == 0 && n.HasElse {
		in.events["else"]++
		return in.run(n.Else, w)
	}
	cols := int64(1) << 31
	if n.Tablerow && n.Cols != nil {
		c, er := in.modInt(n.Cols)
		if er {
			return sErr
		}
		if c > 0 {
			cols = c
		}
	}
	oldVar, hadVar := in.env[n.Var]
	oldFor, hadFor := in.env["forloop"]
	restore := func() {
		// the loop variable and forloop get back the values they had before the loop
		if hadFor {
			in.env["forloop"] = oldFor
		} else {
			delete(in.env, "forloop")
		}
		if hadVar {
			in.env[n.Var] = oldVar
		} else {
			delete(in.env, n.Var)
		}
		if n.Var == "forloop" {
			if hadFor {
				in.env["forloop"] = oldFor
			} else {
				delete(in.env, "forloop")
			}
		}
	}
	in.frames = append(in.frames, map[string]int{})
	if len(in.frames) > in.maxLoopDepth {
		in.maxLoopDepth = len(in.frames)
	}
	defer func() { in.frames = in.frames[:len(in.frames)-1] }()
	l := len(items)
	for i, it := range items {
		in.env[n.Var] = it
		in.env["forloop"] = VStrMap(
			SKV("first", VBool(i == 0)), SKV("last", VBool(i == l-1)),
			SKV("index", VInt(0, int64(i+1))), SKV("index0", VInt(0, int64(i))),
			SKV("rindex", VInt(0, int64(l-i))), SKV("rindex0", VInt(0, int64(l-i-1))),
			SKV("length", VInt(0, int64(l))),
			SKV(".cycles", VStrMap())) // the record has an eighth, hidden entry (the cycle positions): a loop over a saved record visits it too
		if n.Tablerow {
			row, col := int64(i)/cols, int64(i)%cols
			if col == 0 {
				fmt.Fprintf(w, `<tr class="row%d">`, row+1)
			}
			fmt.Fprintf(w, `<td class="col%d">`, col+1)
		}
		st := in.run(n.Body, w)
		if st == sErr {
			restore()
			return sErr
		}
		if n.Tablerow { // the cell (and a finished row) is closed even when the body ended by break/continue
			w.WriteString("</td>")
			if (int64(i)+1)%cols == 0 || i+1 == l {
				w.WriteString("</tr>")
			}
		}
		if st == sBrk {
			in.events["break"]++
			break
		}
		if st == sCont {
			in.events["continue"]++
		}
	}
	restore()
	return sDone
}

// refResult runs a whole program: "ok <hex>", "err", or "" when the reference makes no claim.
func refResult(prog []pnode, env map[string]*V, fs map[string][]pnode) (string, *refInterp) {
	in := newRefInterp(env, fs)
	var w strings.Builder
	st := in.run(prog, &w)
	if in.unknown != "" {
		return "", in
	}
	if st != sDone {
		return "err", in
	}
	return canonOK([]byte(w.String())), in
}
