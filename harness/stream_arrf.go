package main

// C15 — array filters compute their documented function and never modify their input.
// Stream `arrf`. Case lines (all answered by the generic ops of the Lean driver):
//
//	filter <namehex> <recv> <arg>*            x | name: a0, …   (every array filter but the sorts)
//	sortc  <namehex> <recv> <key>?            x | sort[: key], x | sort_natural[: key]. A result of at most 12
//	                                          elements is compared EXACTLY, `ok <enc>`: sort.Sort is an insertion
//	                                          sort there (pdqsort: `if length <= 12 { insertionSort(…) }`), so the
//	                                          list is determined for every comparator, a strict weak order or not
//	                                          (numbers next to strings or nil, integers beyond 2^53 next to floats).
//	                                          A longer result is compared in CANONICAL FORM,
//	                                          `ok K:<k1>,<k2>,… M:<e1>,<e2>,…` — the sort keys of the result in
//	                                          order (exact number `#n/d`, string `s<hex>`, nil `n`, bool `t`/`f`,
//	                                          unordered `?`; for sort_natural the sort text) and the multiset of
//	                                          the elements (encodings, sorted): pdqsort is unstable, so the
//	                                          order of ties is not compared; key sequence + multiset is what
//	                                          "a sorted permutation" determines.
//	numf <x> (<namehex> <arg|->)+             a chain x | f1: a1 | f2 …: value and rendering
//	render <cfg> - 0 <src> <env>              {{ a | f | join: ',' }}␞{{ a | join: ',' }} through the engine (sampled)
//
// Every case (1) evaluates the filter on the real code with expressions.EvaluateString (the result
// line), (2) renders `{{ a | f: … | join: ',' }}␞{{ a | join: ',' }}` with liquid.NewEngine() and
// checks that the second half is what `{{ a | join: ',' }}` gives alone, and (3) compares the Go
// value that was passed in with an untouched second realisation (reflect.DeepEqual): a filter must
// not write to the caller's array.
//
// ORACLE (independent of the model; reference implementations over the value trees below):
// sort: permutation of the input; on homogeneous arrays (all numbers / all strings) non-decreasing in
// the exact numeric / bytewise order; by key: entries without the key (or holding nil) first, then
// non-decreasing keys. sort_natural: permutation, non-decreasing upper-cased text. reverse, uniq
// (first occurrences, Go interface equality: 1 ≠ 1.0), compact, concat, first, last, size, join
// (fmt.Sprint of the non-nil elements), map (property lookup) against the references; a receiver
// that is not an array is an error, never a panic; every representation of the same contents
// ([]any, typed slice, fixed array, range, MapSlice, map in key order) gives the same result.

import (
	"fmt"
	"math/big"
	"reflect"
	"sort"
	"strings"
	"sync"

	"github.com/osteele/liquid/expressions"
)

func init() {
	streams["arrf"] = arrfStream
	replayers["arrf"] = func(r *Run, f []string) string {
		switch f[0] {
		case "filter", "sortc":
			// a case line may carry the entries of its maps in any order (shuffledLine); the oracles read the value trees in
			// the codec's canonical order, the Go values are the same
			args := []*V{}
			for _, a := range f[3:] {
				args = append(args, ParseV(a).Canon())
			}
			return arrfCase(r, strings.Join(f, " "), unhexField(f[1]), ParseV(f[2]).Canon(), args, nil)
		case "numf":
			x, steps := parseNumfLine(f)
			x = x.Canon()
			for i := range steps {
				steps[i].Arg = steps[i].Arg.Canon()
			}
			return chainCase(r, strings.Join(f, " "), x, steps)
		case "render":
			return replayers["render"](r, f)
		case "special":
			return arrfSpecial(r, f[1])
		}
		return "bad-op"
	}
}

const recSep = "\x1e"

var sortFilterNames = map[string]bool{"sort": true, "sort_natural": true}

// arrayParamFilters: filters whose receiver parameter is []any (size takes any)
var arrayParamFilters = map[string]bool{"compact": true, "concat": true, "join": true, "map": true, "reverse": true, "sort": true,
	"sort_natural": true, "first": true, "last": true, "uniq": true}

// returnsArray: filters whose result is an array (so `| join: ','` can follow)
var returnsArray = map[string]bool{"compact": true, "concat": true, "map": true, "reverse": true, "sort": true, "sort_natural": true, "uniq": true}

// hasMultiMap: some map (or keyed map) in v has two or more entries
func hasMultiMap(v *V) bool {
	if v == nil {
		return false
	}
	if (v.Kind == 'M' && len(v.KVs) > 1) || (v.Kind == 'K' && len(v.Fs) > 1) {
		return true
	}
	for _, x := range v.Xs {
		if hasMultiMap(x) {
			return true
		}
	}
	for _, kv := range v.KVs {
		if hasMultiMap(kv[0]) || hasMultiMap(kv[1]) {
			return true
		}
	}
	for _, f := range v.Fs {
		if hasMultiMap(f.V) {
			return true
		}
	}
	return hasMultiMap(v.In)
}

// shuffledLine: the case line of (name, recv, args) — for every second case that holds a map of two or more entries,
// with the entries of every map in a pseudo-random order (drawn from an RNG of the run's seed and the case, so the
// choice is the same in every shard and in a replay). The Go values and the oracles are those of the canonical trees;
// only the model sees the order of the line.
func shuffledLine(r *Run, mk func(recv *V, args []*V) string, recv *V, args []*V) string {
	line := mk(recv, args)
	multi := hasMultiMap(recv)
	for _, a := range args {
		multi = multi || hasMultiMap(a)
	}
	if !multi {
		return line
	}
	gs := NewRNG(r.Seed, "arrf/shuffle/"+line)
	if !gs.Chance(50) {
		return line
	}
	as := make([]*V, len(args))
	for i, a := range args {
		as[i] = a.Shuffled(gs)
	}
	return mk(recv.Shuffled(gs), as)
}

func arrfLine(name string, recv *V, args []*V) string {
	line := filterCaseLine(name, recv, args)
	if sortFilterNames[name] {
		line = "sortc" + strings.TrimPrefix(line, "filter")
	}
	return line
}

// ---- reference semantics over value trees ------------------------------------------------

// vToLiquid: values.ToLiquid — a drop that yields a drop is resolved in turn (fixes/nested-drops-resolved).
func vToLiquid(v *V) *V {
	for {
		switch {
		case v.Kind == 'D':
			v = v.In
		case v.Kind == 'P' && v.In.Kind == 'D':
			v = v.In.In
		default:
			return v
		}
	}
}

// vResolveDrops: values.ResolveDrops — the drops at every depth of slices, arrays and maps (and of the values
// of an ordered map) are the values they yield; struct fields and pointer targets are left alone.
func vResolveDrops(v *V) *V {
	v = vToLiquid(v)
	switch v.Kind {
	case 'L', 'A':
		c := *v
		c.Xs = make([]*V, len(v.Xs))
		for i, x := range v.Xs {
			c.Xs[i] = vResolveDrops(x)
		}
		return &c
	case 'M', 'S':
		c := *v
		c.KVs = make([][2]*V, len(v.KVs))
		for i, kv := range v.KVs {
			c.KVs[i] = [2]*V{kv[0], vResolveDrops(kv[1])}
		}
		return &c
	case 'K':
		c := *v
		c.Fs = make([]Field, len(v.Fs))
		for i, f := range v.Fs {
			c.Fs[i] = f
			c.Fs[i].V = vResolveDrops(f.V)
		}
		return &c
	}
	return v
}

// vUniqForm: what uniq compares of an element — slices, fixed arrays and []byte as the generic slice of their
// elements, maps as the generic map with the same key type, the drops inside them resolved, at every depth;
// scalars, structs and the items of an ordered map as they are.
func vUniqForm(v *V) *V {
	v = vToLiquid(v)
	switch v.Kind {
	case 'L', 'A':
		xs := make([]*V, len(v.Xs))
		for i, x := range v.Xs {
			xs[i] = vUniqForm(x)
		}
		return VAnys(xs...)
	case 'b':
		xs := make([]*V, len(v.S))
		for i := range xs {
			xs[i] = VBig(6, big.NewInt(int64(v.S[i])))
		}
		return VAnys(xs...)
	case 'S':
		if len(v.KVs) == 0 {
			return VAnys()
		}
	case 'M':
		kvs := make([][2]*V, len(v.KVs))
		for i, kv := range v.KVs {
			kvs[i] = [2]*V{kv[0], vUniqForm(kv[1])}
		}
		return VMap(v.KTy, TAny, kvs...)
	case 'K':
		kvs := make([][2]*V, len(v.Fs))
		for i, f := range v.Fs {
			kvs[i] = SKV(f.Name, vUniqForm(f.V))
		}
		return VMap(TStr, TAny, kvs...)
	}
	return v
}

func vIsNil(v *V) bool { return v.Kind == 'n' }

// refElems: the elements an array filter must see for a receiver; ok=false: not an array.
func refElems(recv *V) ([]*V, bool) {
	recv = vToLiquid(recv)
	var xs []*V
	switch recv.Kind {
	case 'n':
		return []*V{}, true
	case 'L', 'A':
		xs = recv.Xs
	case 'R':
		if recv.B >= recv.A && uint64(recv.B)-uint64(recv.A) > 1000000 {
			return nil, false // too long to spell out: no expectation
		}
		for i := recv.A; i <= recv.B; i++ {
			xs = append(xs, VInt(0, i))
			if i == recv.B { // recv.B may be the largest int64: i++ would wrap around
				break
			}
		}
		return xs, true
	case 'S', 'M':
		for _, kv := range recv.KVs {
			xs = append(xs, kv[1])
		}
	case 'b':
		for _, c := range []byte(recv.S) {
			xs = append(xs, VInt(6, int64(c)))
		}
		return xs, true
	default:
		return nil, false
	}
	out := make([]*V, len(xs))
	for i, x := range xs {
		out[i] = vToLiquid(x)
	}
	return out, true
}

func hasPointer(v *V) bool {
	switch v.Kind {
	case 'P', 'U':
		return true
	case 'D':
		return hasPointer(v.In)
	}
	for _, x := range v.Xs {
		if hasPointer(x) {
			return true
		}
	}
	for _, kv := range v.KVs {
		if hasPointer(kv[0]) || hasPointer(kv[1]) {
			return true
		}
	}
	for _, f := range v.Fs {
		if hasPointer(f.V) {
			return true
		}
	}
	return false
}

func encs(xs []*V) []string {
	out := make([]string, len(xs))
	for i, x := range xs {
		out[i] = x.Enc()
	}
	return out
}

func sortedEncs(xs []*V) []string {
	out := encs(xs)
	sort.Strings(out)
	return out
}

func sameList(a, b []*V) bool { return strings.Join(encs(a), ",") == strings.Join(encs(b), ",") }

// refProp: `obj.key` for the plain shapes the oracle covers; ok=false: no expectation.
func refProp(obj *V, key string) (*V, bool) {
	obj = vToLiquid(obj)
	switch obj.Kind {
	case 'n', 't', 'f', 'i', 'd':
		return VNil(), true
	case 's':
		if key == "size" {
			return VInt(0, int64(len(obj.S))), true
		}
		return VNil(), true
	case 'M':
		if obj.KTy.C != 's' {
			return nil, false
		}
		for _, kv := range obj.KVs {
			if kv[0].Kind == 's' && kv[0].S == key {
				if kv[1].Kind == 'D' || kv[1].Kind == 'P' || kv[1].Kind == 'N' {
					return nil, false
				}
				return kv[1], true
			}
		}
		if key == "size" {
			return VInt(0, int64(len(obj.KVs))), true
		}
		return VNil(), true
	case 'L', 'A':
		switch key {
		case "size":
			return VInt(0, int64(len(obj.Xs))), true
		case "first", "last":
			return nil, false
		}
		return VNil(), true
	}
	return nil, false
}

type ordClass int

const (
	ocNone ordClass = iota
	ocNum
	ocStr
)

// classOf: all numbers (exactly comparable: ints, or floats with ints inside ±2^53) or all strings
func classOf(xs []*V) ordClass {
	if len(xs) == 0 {
		return ocNone
	}
	num, str, ints := true, true, true
	small := true
	for _, x := range xs {
		x = vToLiquid(x)
		if x.Kind != 'i' && x.Kind != 'd' {
			num = false
		}
		if x.Kind != 'i' {
			ints = false
		} else if x.I.BitLen() > 53 {
			small = false
		}
		if x.Kind != 's' {
			str = false
		}
	}
	switch {
	case num && (ints || small):
		return ocNum
	case str:
		return ocStr
	}
	return ocNone
}

// refLeq: a <= b in the reference order of class c
func refLeq(c ordClass, a, b *V) bool {
	a, b = vToLiquid(a), vToLiquid(b)
	if c == ocNum {
		return a.rat().Cmp(b.rat()) <= 0
	}
	return a.S <= b.S
}

// refSortKey: the key `sort: key` orders an element by (nil when absent)
func refSortKey(x *V, key string) *V {
	x = vToLiquid(x)
	if x.Kind == 'M' && x.KTy.C == 's' {
		for _, kv := range x.KVs {
			if kv[0].Kind == 's' && kv[0].S == key {
				return kv[1]
			}
		}
	}
	return VNil()
}

// sprintRef: how the library prints a value in Go syntax, fmt.Sprint(values.ResolveDrops(v))
func sprintRef(v *V) string { return fmt.Sprint(vResolveDrops(v).Realise()) }

// ---- canonical form of a sort result -------------------------------------------------------

func canonKeyV(v *V) string {
	v = vToLiquid(v)
	switch v.Kind {
	case 'n':
		return "n"
	case 't', 'f':
		return string(v.Kind)
	case 'i', 'd':
		q := v.rat()
		return "#" + q.Num().String() + "/" + q.Denom().String()
	case 's':
		return "s" + fmt.Sprintf("%x", v.S)
	}
	return "?"
}

func natTextV(v *V, key *V) string {
	if key == nil || vIsNil(key) {
		if vIsNil(v) {
			return ""
		}
		return strings.ToUpper(sprintRef(v))
	}
	k := refSortKey(v, sprintRef(vToLiquid(key)))
	if v.Kind == 'M' && k.Kind == 's' { // no ToLiquid on the element here: Convert resolved it
		return strings.ToLower(k.S)
	}
	return ""
}

// maxInsertion: up to this length sort.Sort is insertionSort (const maxInsertion of pdqsort)
const maxInsertion = 12

// canonSort: result line of a sort case from the real result value — the list itself up to 12 elements,
// the canonical form beyond
func canonSort(name string, out any, key *V) string {
	rv := Reify(out)
	if rv.Kind != 'L' || rv.Ty.C != 'a' {
		return "ok-not-array " + rv.Enc()
	}
	if len(rv.Xs) <= maxInsertion {
		return "ok " + rv.Enc()
	}
	keys := make([]string, len(rv.Xs))
	for i, y := range rv.Xs {
		switch {
		case name == "sort" && (key == nil || vIsNil(key)):
			keys[i] = canonKeyV(y)
		case name == "sort":
			keys[i] = canonKeyV(refSortKey(y, sprintRef(vToLiquid(key))))
		default:
			keys[i] = "s" + fmt.Sprintf("%x", natTextV(y, key))
		}
	}
	return "ok K:" + strings.Join(keys, ",") + " M:" + strings.Join(sortedEncs(rv.Xs), ",")
}

// ---- running one case on the real code -------------------------------------------------------

func evalOn(src string, bindings map[string]any) (out any, err error, panicked bool) {
	defer func() {
		if r := recover(); r != nil {
			panicked = true
			lastPanic = fmt.Sprint(r)
		}
	}()
	out, err = expressions.EvaluateString(src, expressions.NewContext(bindings, stdFilterConfig))
	return
}

func renderOn(src string, bindings map[string]any) (text string, err error, panicked bool) {
	defer func() {
		if r := recover(); r != nil {
			panicked = true
			lastPanic = fmt.Sprint(r)
		}
	}()
	t, serr := stdEngine.ParseAndRenderString(src, bindings)
	if serr != nil {
		return "", serr, false
	}
	return t, nil, false
}

// bindingsFor realises the receiver and the arguments with spare capacity behind every slice (filled with a
// sentinel) and remembers a deep snapshot (contents, lengths, capacities, spare region) for `unchanged`.
func bindingsFor(recvName string, recv *V, args []*V) map[string]any {
	rz := &realiser{spare: 2}
	b := map[string]any{recvName: rz.val(recv)}
	for i, a := range args {
		b[fmt.Sprintf("a%d", i)] = rz.val(a)
	}
	return b
}

// bindingsForChecked: bindingsFor, remembered for a later call of `unchanged`
func bindingsForChecked(recvName string, recv *V, args []*V) map[string]any {
	b := bindingsFor(recvName, recv, args)
	boundSnapshots.Store(reflect.ValueOf(b).Pointer(), snapshot(b))
	return b
}

var boundSnapshots sync.Map

// unchanged: the bound values still equal an untouched second realisation, and nothing reachable from them
// (the spare capacity of the caller's slices included) has been written
func unchanged(recvName string, b map[string]any, recv *V, args []*V) bool {
	fresh := bindingsFor(recvName, recv, args)
	before, ok := boundSnapshots.LoadAndDelete(reflect.ValueOf(b).Pointer())
	return reflect.DeepEqual(b, fresh) && (!ok || before.(string) == snapshot(b))
}

// arrfCase runs one filter case (line kinds `filter` and `sortc`), evaluates the oracle, returns the result line.
// base (optional): the result line of the []any representation of the same contents.
func arrfCase(r *Run, line, name string, recv *V, args []*V, base *string) string {
	// (1) the value
	b := bindingsForChecked("x", recv, args)
	out, err, panicked := evalOn(filterExprSource(name, len(args)), b)
	var res string
	switch {
	case panicked:
		res = "panic"
	case err != nil:
		res = "err " + filterCauseKind(err)
	case sortFilterNames[name]:
		var key *V
		if len(args) > 0 {
			key = args[0]
		}
		res = guard(func() string { return canonSort(name, out, key) })
	default:
		res = guard(func() string { return "ok " + Reify(out).Enc() })
	}
	if panicked {
		r.Violate("C15", "panic", line, firstLine(lastPanic))
		return res
	}
	if !hasPointer(recv) && !unchanged("x", b, recv, args) {
		r.Violate("C15", "input-modified", line, "the Go value bound to x (or an argument) differs from an untouched copy after the filter ran")
	}
	// (2) the engine: result and input side by side
	arrfRenderCheck(r, line, name, recv, args)
	// (3) the documented function
	arrfOracle(r, line, name, recv, args, out, err)
	if base != nil && !hasPointer(recv) && *base != res { // a pointer prints as its address
		r.Violate("C15", "representations-disagree", line, fmt.Sprintf("[]any with the same contents gives %s, this representation %s", short(*base, 300), short(res, 300)))
	}
	return res
}

func arrfRenderCheck(r *Run, line, name string, recv *V, args []*V) {
	if hasPointer(recv) {
		return
	}
	expr := strings.Replace(filterExprSource(name, len(args)), "x", "a", 1)
	if returnsArray[name] {
		expr += " | join: ','"
	}
	alone, err0, p0 := renderOn("{{ a | join: ',' }}", bindingsFor("a", recv, args))
	b := bindingsForChecked("a", recv, args)
	both, err1, p1 := renderOn("{{ "+expr+" }}"+recSep+"{{ a | join: ',' }}", b)
	if p0 || p1 {
		r.Violate("C15", "panic", line, "engine render: "+firstLine(lastPanic))
		return
	}
	if !unchanged("a", b, recv, args) {
		r.Violate("C15", "input-modified", line, "the Go value bound to a differs from an untouched copy after rendering {{ "+expr+" }}")
	}
	if err0 != nil || err1 != nil {
		return
	}
	i := strings.LastIndex(both, recSep)
	if i < 0 || both[i+len(recSep):] != alone {
		r.Violate("C15", "input-changed-after-filter", line, fmt.Sprintf("{{ a | join: ',' }} gives %q alone but %q after {{ %s }}", alone, both[i+len(recSep):], expr))
	}
}

func arrfOracle(r *Run, line, name string, recv *V, args []*V, out any, err error) {
	viol := func(clause, detail string) { r.Violate("C15", clause, line, detail) }
	xs, isArr := refElems(recv)
	if name == "size" {
		if err != nil {
			viol("size", "size returned an error: "+err.Error())
			return
		}
		rc := vToLiquid(recv)
		if isArr && rc.Kind != 'M' && rc.Kind != 'n' { // the size of a map is documented to be 0
			if got := Reify(out); got.Kind != 'i' || got.I.Int64() != int64(len(xs)) {
				viol("size", fmt.Sprintf("%d elements, size = %s", len(xs), got.Enc()))
			}
		}
		return
	}
	if !arrayParamFilters[name] {
		return
	}
	nparams := map[string]int{"compact": 0, "concat": 1, "join": 1, "map": 1, "reverse": 0, "sort": 1, "sort_natural": 1, "first": 0, "last": 0, "uniq": 0}[name]
	if len(args) > nparams {
		if err == nil {
			viol("too-many-arguments-accepted", fmt.Sprintf("%s takes %d argument(s), %d given, no error", name, nparams, len(args)))
		}
		return
	}
	if !isArr {
		switch vToLiquid(recv).Kind {
		case 's', 'i', 'd', 't', 'f':
			if err == nil {
				viol("non-array-receiver-accepted", fmt.Sprintf("receiver %s is not an array; result %s", recv.Enc(), Reify(out).Enc()))
			}
		}
		r.Count("oracle=non-array")
		return
	}
	if err != nil {
		// an array receiver: the only legitimate errors come from the arguments (concat with a non-array)
		if name == "concat" && len(args) == 1 {
			if _, ok := refElems(args[0]); !ok {
				r.Count("oracle=bad-argument")
				return
			}
		}
		viol("array-receiver-rejected", fmt.Sprintf("%s on %s: %v", name, short(recv.Enc(), 200), err))
		return
	}
	got := Reify(out)
	gotList := func() ([]*V, bool) {
		if got.Kind != 'L' || got.Ty.C != 'a' {
			viol(name, "the result is not a []any: "+short(got.Enc(), 200))
			return nil, false
		}
		return got.Xs, true
	}
	expectList := func(want []*V) {
		if ys, ok := gotList(); ok && !sameList(ys, want) {
			viol(name, fmt.Sprintf("expected %s, got %s", short(VAnys(want...).Enc(), 300), short(got.Enc(), 300)))
		}
	}
	expectVal := func(want *V) {
		if got.Enc() != want.Enc() {
			viol(name, fmt.Sprintf("expected %s, got %s", short(want.Enc(), 300), short(got.Enc(), 300)))
		}
	}
	r.Count("oracle=" + name)
	switch name {
	case "compact":
		var want []*V
		for _, x := range xs {
			if !vIsNil(x) {
				want = append(want, x)
			}
		}
		expectList(want)
	case "concat":
		ys := []*V{}
		if len(args) == 1 {
			var ok bool
			if ys, ok = refElems(args[0]); !ok {
				viol("concat", "a non-array argument was accepted")
				return
			}
		}
		expectList(append(append([]*V{}, xs...), ys...))
	case "reverse":
		want := make([]*V, len(xs))
		for i, x := range xs {
			want[len(xs)-1-i] = x
		}
		expectList(want)
	case "first", "last":
		want := VNil()
		if len(xs) > 0 {
			want = xs[0]
			if name == "last" {
				want = xs[len(xs)-1]
			}
		}
		if want.Kind == 'D' || want.Kind == 'P' || want.Kind == 'N' { // the result passes through ValueOf().Interface()
			return
		}
		if want.Kind == 'b' { // … which turns a []byte into the string it spells (values/convert.go)
			want = VStr(want.S)
		}
		expectVal(want)
	case "join":
		sep := " "
		if len(args) == 1 {
			switch a := vToLiquid(args[0]); a.Kind {
			case 's':
				sep = a.S
			default:
				return // a separator that is not a string: no expectation
			}
		}
		if hasPointer(recv) {
			return
		}
		var parts []string
		for _, x := range xs {
			if !vIsNil(x) {
				parts = append(parts, sprintRef(x))
			}
		}
		expectVal(VStr(strings.Join(parts, sep)))
	case "map":
		if len(args) != 1 || vToLiquid(args[0]).Kind != 's' {
			return
		}
		want := make([]*V, len(xs))
		for i, x := range xs {
			p, ok := refProp(x, vToLiquid(args[0]).S)
			if !ok {
				return
			}
			want[i] = p
		}
		expectList(want)
	case "uniq":
		if hasPointer(recv) {
			return
		}
		// same element = same dynamic type and contents for scalars, same contents for arrays and maps whatever the
		// Go type that holds them, a drop in them being its value (vUniqForm; fixes/nested-drops-resolved)
		seen := map[string]bool{}
		var want []*V
		for _, x := range xs {
			if e := vUniqForm(x).Enc(); !seen[e] {
				seen[e] = true
				want = append(want, x)
			}
		}
		expectList(want)
	case "sort", "sort_natural":
		ys, ok := gotList()
		if !ok {
			return
		}
		if a, b := strings.Join(sortedEncs(ys), ","), strings.Join(sortedEncs(xs), ","); a != b {
			viol(name+"-permutation", fmt.Sprintf("the result %s is not a permutation of the input %s", short(got.Enc(), 300), short(VAnys(xs...).Enc(), 300)))
			return
		}
		var key *V
		if len(args) == 1 && !vIsNil(args[0]) {
			key = args[0]
		}
		if name == "sort_natural" {
			if hasPointer(recv) {
				return
			}
			for i := 0; i+1 < len(ys); i++ {
				if a, b := natTextV(ys[i], key), natTextV(ys[i+1], key); a > b {
					viol("sort_natural-order", fmt.Sprintf("position %d: text %q before %q in %s", i, a, b, short(got.Enc(), 300)))
					return
				}
			}
			return
		}
		keyOf := func(y *V) *V { return y }
		if key != nil {
			if hasPointer(key) {
				return
			}
			name := sprintRef(vToLiquid(key))
			keyOf = func(y *V) *V { return refSortKey(y, name) }
		}
		var ks, nonNil []*V
		for _, y := range ys {
			k := vToLiquid(keyOf(y))
			ks = append(ks, k)
			if !vIsNil(k) {
				nonNil = append(nonNil, k)
			}
		}
		if key == nil {
			nonNil = ks // a plain sort does not order nil
		}
		c := classOf(nonNil)
		if c == ocNone {
			r.Count("oracle=sort-permutation-only")
			return
		}
		r.Count("oracle=sort-sorted")
		seenNonNil := false
		var prev *V
		for i, k := range ks {
			if vIsNil(k) {
				if seenNonNil {
					viol("sort-nil-keys-first", fmt.Sprintf("position %d lacks the key but follows an entry that has it: %s", i, short(got.Enc(), 300)))
					return
				}
				continue
			}
			seenNonNil = true
			if prev != nil && !refLeq(c, prev, k) {
				viol("sort-order", fmt.Sprintf("position %d: %s before %s in %s", i-1, prev.Enc(), k.Enc(), short(got.Enc(), 300)))
				return
			}
			prev = k
		}
	}
}

// ---- chains ---------------------------------------------------------------------------------

// refStep: the reference result of one step; ok=false: no expectation from here on.
func refStep(name string, cur *V, arg *V) (*V, bool) {
	xs, isArr := refElems(cur)
	if !isArr || hasPointer(cur) {
		return nil, false
	}
	switch name {
	case "compact":
		var out []*V
		for _, x := range xs {
			if !vIsNil(x) {
				out = append(out, x)
			}
		}
		return VAnys(out...), true
	case "concat":
		ys := []*V{}
		if arg != nil {
			var ok bool
			if ys, ok = refElems(arg); !ok {
				return nil, false
			}
		}
		return VAnys(append(append([]*V{}, xs...), ys...)...), true
	case "reverse":
		out := make([]*V, len(xs))
		for i, x := range xs {
			out[len(xs)-1-i] = x
		}
		return VAnys(out...), true
	case "uniq":
		seen := map[string]bool{}
		var out []*V
		for _, x := range xs {
			if e := x.Enc(); !seen[e] {
				seen[e] = true
				out = append(out, x)
			}
		}
		return VAnys(out...), true
	case "first", "last":
		if len(xs) == 0 {
			return VNil(), true
		}
		w := xs[0]
		if name == "last" {
			w = xs[len(xs)-1]
		}
		if w.Kind == 'D' || w.Kind == 'P' || w.Kind == 'N' || w.Kind == 'b' {
			return nil, false
		}
		return w, true
	case "size":
		if vToLiquid(cur).Kind == 'M' {
			return VInt(0, 0), true
		}
		return VInt(0, int64(len(xs))), true
	case "join":
		sep := " "
		if arg != nil {
			if vToLiquid(arg).Kind != 's' {
				return nil, false
			}
			sep = vToLiquid(arg).S
		}
		var parts []string
		for _, x := range xs {
			if !vIsNil(x) {
				parts = append(parts, sprintRef(x))
			}
		}
		return VStr(strings.Join(parts, sep)), true
	case "sort":
		// only where the sorted list is unique: homogeneous, and ties are identical
		if arg != nil && !vIsNil(arg) {
			return nil, false
		}
		c := classOf(xs)
		if c == ocNone && len(xs) > 0 {
			return nil, false
		}
		out := append([]*V{}, xs...)
		sort.SliceStable(out, func(i, j int) bool { return !refLeq(c, out[j], out[i]) })
		for i := 0; i+1 < len(out); i++ {
			if refLeq(c, out[i+1], out[i]) && out[i].Enc() != out[i+1].Enc() {
				return nil, false
			}
		}
		return VAnys(out...), true
	}
	return nil, false
}

func chainCase(r *Run, line string, x *V, steps []numStep) string {
	src, mk := numfSource(steps)
	b := mk(x)
	out, err, panicked := evalOn(src, b)
	text, rerr, p2 := renderOn("{{ "+src+" }}", mk(x))
	var res string
	switch {
	case panicked || p2:
		res = "panic"
	case err != nil:
		res = "err " + filterCauseKind(err)
	default:
		res = guard(func() string { return "ok " + Reify(out).Enc() + " " + hexField(text) })
	}
	if panicked || p2 {
		r.Violate("C15", "panic", line, firstLine(lastPanic))
		return res
	}
	if (err != nil) != (rerr != nil) {
		r.Violate("C15", "evaluate-and-render-disagree", line, fmt.Sprintf("EvaluateString err=%v, render err=%v", err, rerr))
	}
	if !hasPointer(x) && !reflect.DeepEqual(b, mk(x)) {
		r.Violate("C15", "input-modified", line, "a bound Go value differs from an untouched copy after the chain ran")
	}
	// reference pipeline
	cur, ok := x, true
	for _, s := range steps {
		if cur, ok = refStep(s.Name, cur, s.Arg); !ok {
			break
		}
	}
	if ok {
		r.Count("oracle=chain")
		if err != nil {
			r.Violate("C15", "chain", line, fmt.Sprintf("%s: expected %s, got error %v", src, short(cur.Enc(), 300), err))
		} else if got := Reify(out); got.Enc() != cur.Enc() {
			r.Violate("C15", "chain", line, fmt.Sprintf("%s: expected %s, got %s", src, short(cur.Enc(), 300), short(got.Enc(), 300)))
		}
	} else {
		r.Count("oracle=chain-none")
	}
	return res
}

// ---- generation -----------------------------------------------------------------------------

func arrElemUniverse() []*V {
	return []*V{VInt(0, 0), VInt(0, 1), VInt(0, 2), VInt(0, -1), VFlt(1, 1.5), VStr("a"), VStr("b"), VStr("B"), VNil()}
}

// representations of the array with elements xs (the first is always the []any)
func arrReps(xs []*V, all bool) []*V {
	reps := []*V{VAnys(xs...)}
	allKind := func(k byte, ik int) bool {
		for _, x := range xs {
			if x.Kind != k || (k != 's' && x.IK != ik) {
				return false
			}
		}
		return true
	}
	switch {
	case allKind('i', 0):
		reps = append(reps, VSlice(TInt(0), xs...))
		if all && len(xs) > 0 {
			reps = append(reps, VArr(TInt(0), xs...))
		}
	case allKind('d', 1):
		reps = append(reps, VSlice(TFlt(1), xs...))
	case allKind('s', 0):
		reps = append(reps, VSlice(TStr, xs...))
		if all && len(xs) > 0 {
			reps = append(reps, VArr(TStr, xs...))
		}
	}
	reps = append(reps, VArr(TAny, xs...))
	// a run of consecutive ints is a range; the empty array is a range whose end is below its start
	if len(xs) == 0 {
		reps = append(reps, VRange(3, 1))
	} else if allKind('i', 0) {
		run := true
		for i, x := range xs {
			if x.I.Int64() != xs[0].I.Int64()+int64(i) {
				run = false
			}
		}
		if run {
			reps = append(reps, VRange(xs[0].I.Int64(), xs[len(xs)-1].I.Int64()))
		}
	}
	var kvs, kvs2 [][2]*V
	for i, x := range xs {
		kvs = append(kvs, SKV(fmt.Sprintf("k%02d", i), x))
		kvs2 = append(kvs2, SKV(fmt.Sprintf("k%02d", i), x))
	}
	reps = append(reps, VMapSlice(kvs...))
	if len(xs) < 100 {
		reps = append(reps, VStrMap(kvs2...))
	}
	return reps
}

type arrCall struct {
	Name string
	Args []*V
}

func stdArrCalls() []arrCall {
	c := func(name string, args ...*V) arrCall { return arrCall{name, args} }
	return []arrCall{
		c("compact"), c("reverse"), c("first"), c("last"), c("uniq"), c("size"),
		c("concat"), c("concat", VAnys(VInt(0, 1), VStr("a"), VNil())), c("concat", VNil()), c("concat", VRange(1, 2)), c("concat", VSlice(TStr, VStr("z"))),
		c("join"), c("join", VStr(",")), c("join", VStr("")),
		c("map", VStr("k")), c("map", VStr("size")),
		c("sort"), c("sort", VStr("k")), c("sort_natural"), c("sort_natural", VStr("k")),
	}
}

func mapArrCalls() []arrCall {
	c := func(name string, args ...*V) arrCall { return arrCall{name, args} }
	return []arrCall{
		c("sort", VStr("k")), c("sort", VStr("o")), c("sort", VStr("zz")), c("sort", VInt(0, 5)), c("sort"),
		c("sort", VStr("size")), c("sort_natural", VStr("size")), // a key named like the size fallback of property lookup: entries lacking it still go first
		c("sort_natural", VStr("k")), c("sort_natural", VStr("s")), c("sort_natural", VStr("zz")), c("sort_natural", VInt(0, 5)), c("sort_natural", VBool(true)),
		c("sort_natural", VAnys(VInt(0, 1))), c("sort_natural"),
		c("map", VStr("k")), c("map", VStr("o")), c("map", VStr("size")), c("map", VStr("zz")), c("map"), c("map", VInt(0, 5)),
		c("uniq"), c("compact"), c("reverse"), c("first"), c("last"), c("join", VStr(",")), c("size"),
	}
}

func mapElemUniverse() []*V {
	i := func(n int64) *V { return VInt(0, n) }
	return []*V{
		VStrMap(SKV("k", i(1))), VStrMap(SKV("k", i(2))), VStrMap(SKV("k", i(1)), SKV("o", i(7))), VStrMap(SKV("k", VStr("a")), SKV("s", VStr("b"))),
		VStrMap(SKV("k", VStr("B")), SKV("s", VStr("A"))), VStrMap(SKV("k", VNil())), VStrMap(SKV("o", i(3))), VNil(), i(5),
		VStrMap(SKV("size", i(0)), SKV("k", i(3))),
		VMap(TStr, TStr, SKV("k", VStr("b")), SKV("s", VStr("A"))), VMap(TStr, TStr, SKV("k", VStr("A"))), // typed maps as elements: map[string]string
	}
}

func arrfStream(r *Run) {
	g := NewRNG(r.Seed, "arrf")
	thorough := r.Tier == "thorough"
	sample := 0
	// one array in its representations × calls
	runArray := func(xs []*V, calls []arrCall, allReps bool, kind string) {
		reps := arrReps(xs, thorough)
		if !allReps {
			reps = reps[:1]
		}
		for _, c := range calls {
			var base *string
			for ri, rep := range reps {
				if !r.Mine() {
					continue
				}
				line := shuffledLine(r, func(v *V, as []*V) string { return arrfLine(c.Name, v, as) }, rep, c.Args)
				if line != arrfLine(c.Name, rep, c.Args) {
					r.Count("entries=shuffled")
				}
				var res string
				if ri == 0 {
					res = arrfCase(r, line, c.Name, rep, c.Args, nil)
				} else {
					if base == nil { // the []any representation belongs to another shard: recompute (no oracle side effects)
						b := arrfQuiet(c.Name, reps[0], c.Args)
						base = &b
					}
					want := *base
					if c.Name == "size" && rep.Kind == 'M' {
						res = arrfCase(r, line, c.Name, rep, c.Args, nil) // the size of a map is documented to be 0
					} else {
						res = arrfCase(r, line, c.Name, rep, c.Args, &want)
					}
				}
				if ri == 0 {
					b := res
					base = &b
				}
				r.Count("gen=" + kind)
				r.Count("filter=" + c.Name)
				r.Count(fmt.Sprintf("len=%d", len(xs)))
				r.Count("rep=" + repName(rep))
				r.Count("result=" + strings.SplitN(res, " ", 2)[0])
				if strings.HasPrefix(res, "ok") {
					r.Nontrivial(line)
				}
				r.Emit(line, res)
			}
		}
		// sampled: the same through the whole engine, answered by the model's renderer
		sample++
		if sample%7 == 0 && len(xs) <= 8 {
			c := calls[g.Intn(len(calls))]
			rep := reps[g.Intn(len(reps))]
			if r.Mine() {
				env := map[string]*V{"a": rep}
				for i, a := range c.Args {
					env[fmt.Sprintf("a%d", i)] = a
				}
				expr := strings.Replace(filterExprSource(c.Name, len(c.Args)), "x", "a", 1)
				if returnsArray[c.Name] {
					expr += " | join: ','"
				}
				src := "{{ " + expr + " }}" + recSep + "{{ a | join: ',' }}"
				if gs := NewRNG(r.Seed, "arrf/shuffle/render/"+EncEnv(env)+src); gs.Chance(50) {
					env = ShuffledEnv(env, gs)
				}
				cl := renderCaseLine(engineCfg{}, "", 0, src, env)
				res := renderImpl(engineCfg{}, "", 0, src, RealiseEnv(env))
				r.Count("gen=render")
				if res == "panic" {
					r.Violate("C15", "panic", cl, firstLine(lastPanic))
				}
				r.Emit(cl, res)
			}
		}
	}
	// (0) corpus: the inputs of the repaired defects, then Go values the codec cannot spell
	for _, c := range corpusLines("arrf") {
		if f := strings.Fields(c); len(f) >= 2 && r.Mine() {
			r.Count("gen=corpus")
			r.Emit(c, replayers["arrf"](r, f))
		}
	}
	for _, name := range arrfSpecials {
		if r.Mine() {
			r.Count("gen=special")
			r.Emit("special "+name, arrfSpecial(r, name))
		}
	}
	// (1) all arrays of length 0..4 over the nine-element universe
	u := arrElemUniverse()
	calls := stdArrCalls()
	maxLen := 4
	for n := 0; n <= maxLen; n++ {
		total := 1
		for i := 0; i < n; i++ {
			total *= len(u)
		}
		for code := 0; code < total; code++ {
			xs := make([]*V, n)
			c := code
			for i := n - 1; i >= 0; i-- {
				xs[i] = u[c%len(u)]
				c /= len(u)
			}
			runArray(xs, calls, thorough || n <= 3, "exhaustive")
		}
	}
	// (2) arrays of maps with present / absent / nil keys
	mu := mapElemUniverse()
	mcalls := mapArrCalls()
	for n := 0; n <= 3; n++ {
		total := 1
		for i := 0; i < n; i++ {
			total *= len(mu)
		}
		for code := 0; code < total; code++ {
			xs := make([]*V, n)
			c := code
			for i := n - 1; i >= 0; i-- {
				xs[i] = mu[c%len(mu)]
				c /= len(mu)
			}
			runArray(xs, mcalls, thorough || n <= 2, "maps")
		}
	}
	// (3) boundary receivers: nil, non-arrays, maps, ranges, nested arrays, drops, typed containers with nil
	i := func(n int64) *V { return VInt(0, n) }
	boundary := []*V{
		VNil(), VStr("abc"), VStr(""), i(5), VFlt(1, 2.5), VBool(true), VBool(false), VStruct(Field{"a", i(1)}), VTime(0),
		VRange(1, 0), VRange(5, 1), VRange(0, 0), VRange(-2, 2), VRange(1, 13), VRange(1, 10000001), VRange(-9223372036854775807, 9223372036854775807),
		VAnys(VAnys(i(2), i(1)), VAnys(i(1)), VAnys()), VAnys(VAnys(i(1)), VAnys(i(1)), VSlice(TInt(0), i(1))), VAnys(VArr(TAny, VAnys(i(1))), VArr(TAny, VAnys(i(1)))),
		VAnys(VDrop(VStr("x")), VDrop(VStr("y")), VDrop(VStr("x"))), VAnys(VDrop(VNil()), VDrop(i(1))), VAnys(VDrop(VAnys(i(1))), VDrop(VAnys(i(1)))),
		VAnys(VDrop(VDrop(VStr("x"))), VStr("x")), VAnys(VDrop(VStrMap(SKV("k", i(2)))), VStrMap(SKV("k", i(1)))), VDrop(VAnys(i(2), i(1))), VPtr(VAnys(i(2), i(1))),
		VSlice(TAny, VDrop(i(2)), i(1)), VArr(TAny, VDrop(i(2)), VNil(), i(1)), VMapSlice(SKV("a", VDrop(VStr("x"))), SKV("b", VNil()), SKV("c", i(3))),
		VStrMap(SKV("b", VNil()), SKV("a", i(2))), VStrMap(SKV("b", i(1)), SKV("a", i(2)), SKV("c", i(0))), VMap(TInt(0), TStr, KV(i(10), VStr("b")), KV(i(9), VStr("a"))),
		VMap(TStr, TInt(0), SKV("x", i(3)), SKV("y", i(1))), VStrMap(), VMapSlice(), VBytes("ba"), VBytes(""), VKeyed(Field{"k1", i(2)}),
		VBytes("h\xc3\xa9llo \xf0\x9f\x98\x80"), VBytes("\xc3\xa9\xff\xc3"), // a []byte is the typed slice []uint8: one element per BYTE, also where the bytes are well-formed UTF-8
		VAnys(VNilPtr(), VNil(), VNilPtr()), VAnys(VPtr(i(1)), VPtr(i(1))), VAnys(VBool(true), VBool(false), VBool(true)),
		VAnys(VInt(1, 1), VInt(0, 1), VInt(4, 1), VFlt(0, 1), VFlt(1, 1), VInt(6, 1)), VAnys(VInt(4, 1<<53+1), VInt(4, 1<<53), VFlt(1, 1<<53)), VAnys(VInt(4, 1<<62), VInt(9, 1<<62+1), VInt(0, -5)),
		VAnys(VStr("é"), VStr("E"), VStr("e"), VStr("É"), VStr("z"), VStr("_"), VStr("A"), VStr("a")), VAnys(VStr("10"), VStr("9"), i(10), i(9)), VAnys(VRange(1, 2), VRange(1, 2), VRange(1, 3)),
		VAnys(VMapSlice(SKV("k", i(2))), VMapSlice(SKV("k", i(1)))), VAnys(VMap(TInt(0), TAny, KV(i(1), VStr("b"))), VMap(TInt(0), TAny, KV(i(1), VStr("a")))),
		VAnys(VStrMap(SKV("k", VAnys(i(1)))), VStrMap(SKV("k", VAnys(i(1))))), VAnys(VStr(""), VNil(), VStr("")),
		VSlice(TFlt(0), VFlt(0, 2.5), VFlt(0, 1)), VSlice(TInt(7), VInt(7, 3), VInt(7, 1)), VSlice(TBool, VBool(true), VBool(false)),
	}
	bcalls := append(append([]arrCall{}, stdArrCalls()...), arrCall{"first", []*V{i(1)}}, arrCall{"uniq", []*V{i(1)}}, arrCall{"concat", []*V{VStr("s")}}, arrCall{"concat", []*V{i(5)}},
		arrCall{"concat", []*V{VAnys(), VAnys()}}, arrCall{"join", []*V{VNil()}}, arrCall{"join", []*V{i(5)}}, arrCall{"map", []*V{VNil()}}, arrCall{"map", nil},
		arrCall{"sort", []*V{VAnys(i(1))}}, arrCall{"sort", []*V{VStr("k"), VStr("x")}}, arrCall{"join", []*V{VDrop(VStr("-"))}})
	for _, recv := range boundary {
		for _, c := range bcalls {
			if !r.Mine() {
				continue
			}
			line := shuffledLine(r, func(v *V, as []*V) string { return arrfLine(c.Name, v, as) }, recv, c.Args)
			if line != arrfLine(c.Name, recv, c.Args) {
				r.Count("entries=shuffled")
			}
			res := arrfCase(r, line, c.Name, recv, c.Args, nil)
			r.Count("gen=boundary")
			r.Count("filter=" + c.Name)
			r.Count("result=" + strings.SplitN(res, " ", 2)[0])
			if strings.HasPrefix(res, "ok") {
				r.Nontrivial(line)
			}
			r.Emit(line, res)
		}
	}
	// (4) huge arrays
	hugeN := []int{13, 50, 700}
	if thorough {
		hugeN = []int{13, 14, 50, 333, 3000}
	}
	for _, n := range hugeN {
		var ints, strs, mixed, maps, dups []*V
		for k := 0; k < n; k++ {
			ints = append(ints, i(int64(g.Intn(n))-int64(n/3)))
			strs = append(strs, VStr(g.Pick([]string{"a", "B", "c", "ab", "Ab", "", "z", "é"})+fmt.Sprint(g.Intn(n/2+1))))
			switch g.Intn(4) {
			case 0:
				mixed = append(mixed, VFlt(1, float64(g.Intn(9))/2))
			case 1:
				mixed = append(mixed, i(int64(g.Intn(5))))
			case 2:
				mixed = append(mixed, VInt(g.Intn(10), int64(g.Intn(5))))
			default:
				mixed = append(mixed, VFlt(0, float64(g.Intn(5))))
			}
			maps = append(maps, VStrMap(SKV("k", i(int64(g.Intn(6)))), SKV("id", i(int64(k)))))
			dups = append(dups, []*V{i(1), VFlt(1, 1), VStr("1"), VNil(), VStr("a"), VAnys(i(1)), VStrMap(SKV("k", i(1)))}[g.Intn(7)])
		}
		for _, xs := range [][]*V{ints, strs, mixed, maps, dups} {
			runArray(xs, []arrCall{{"sort", nil}, {"sort", []*V{VStr("k")}}, {"sort_natural", nil}, {"sort_natural", []*V{VStr("k")}}, {"uniq", nil}, {"reverse", nil}, {"compact", nil},
				{"join", []*V{VStr(",")}}, {"first", nil}, {"last", nil}, {"size", nil}, {"map", []*V{VStr("k")}}, {"concat", []*V{VAnys(xs[:3]...)}}}, n <= 50, "huge")
		}
	}
	// (5) random arrays to length 8, every call; random chains
	n := 1500
	if thorough {
		n = 25000
	}
	relem := func() *V {
		switch g.Intn(16) {
		case 0, 1, 2:
			return u[g.Intn(len(u))]
		case 3:
			return i(int64(g.Intn(7) - 3))
		case 4:
			return VInt(g.Intn(10), int64(g.Intn(4)))
		case 5:
			return VFlt(g.Intn(2), float64(g.Intn(9)-4)/2)
		case 6:
			return VStr(g.Pick([]string{"", "a", "A", "b", "ab", "aB", "é", "É", "10", "9", "1", " ", "_", "Z", "z"}))
		case 7:
			return VNil()
		case 8:
			return VBool(g.Bool())
		case 9:
			return VAnys(i(int64(g.Intn(3))))
		case 10:
			return VStrMap(SKV("k", []*V{i(1), i(2), VStr("a"), VNil(), VFlt(1, 1.5)}[g.Intn(5)]))
		case 11:
			return VDrop([]*V{i(1), VStr("a"), VNil(), VStrMap(SKV("k", i(1)))}[g.Intn(4)])
		case 12:
			return VMapSlice(SKV("k", i(int64(g.Intn(3)))))
		case 13:
			return VRange(1, int64(g.Intn(3)))
		case 14:
			return randomVal(g, 1)
		default:
			return mu[g.Intn(len(mu))]
		}
	}
	rarr := func() []*V {
		k := g.Intn(9)
		xs := make([]*V, k)
		homo := g.Intn(4)
		for j := range xs {
			switch homo {
			case 0:
				xs[j] = i(int64(g.Intn(5) - 2))
			case 1:
				xs[j] = VStr(g.Pick([]string{"a", "B", "b", "A", "c", "ab", ""}))
			default:
				xs[j] = relem()
			}
		}
		return xs
	}
	all := append(append([]arrCall{}, stdArrCalls()...), mapArrCalls()...)
	for k := 0; k < n; k++ {
		xs := rarr()
		cs := []arrCall{all[g.Intn(len(all))], all[g.Intn(len(all))], all[g.Intn(len(all))]}
		runArray(xs, cs, true, "random")
	}
	// (6) mixed-kind arrays of length 0..13: the comparators are not strict weak orders here (Less answers false
	// across kinds and for nil; integers beyond 2^53 meet floats as float64), and up to 12 elements the result is
	// nevertheless determined — Go's insertion sort — and compared element by element
	bigI := func(k int, s string) *V {
		n, _ := new(big.Int).SetString(s, 10)
		return VBig(k, n)
	}
	mixU := []*V{
		i(0), i(1), i(2), i(-1), i(3), VInt(4, 2), VInt(6, 1), VInt(9, 3), VFlt(1, 1.5), VFlt(1, 1), VFlt(0, 2.5), VFlt(1, -0.5), VFlt(1, 2),
		VStr("a"), VStr("b"), VStr("B"), VStr(""), VStr("1"), VStr("10"), VStr("é"), VNil(), VNil(), VBool(true), VBool(false),
		VStrMap(SKV("k", i(1))), VStrMap(SKV("k", VStr("a"))), VStrMap(), VAnys(i(1)), VAnys(), VRange(1, 2),
		bigI(4, "9007199254740993"), bigI(4, "9007199254740992"), bigI(4, "9007199254740994"), VFlt(1, 9007199254740992), VFlt(1, 9007199254740994),
		bigI(9, "18446744073709551615"), bigI(4, "9223372036854775807"), VFlt(1, 9223372036854775808), bigI(4, "-9007199254740993"), VFlt(1, -9007199254740992),
	}
	mixKeys := []*V{i(1), i(2), i(-1), VFlt(1, 1.5), VFlt(1, 1), VStr("a"), VStr("B"), VStr(""), VNil(), VBool(true), VBool(false), VAnys(i(1)), VStrMap(SKV("k", i(0))),
		bigI(4, "9007199254740993"), bigI(4, "9007199254740992"), VFlt(1, 9007199254740992), bigI(9, "18446744073709551615"), VFlt(1, 18446744073709551616)}
	mixElem := func(family int) *V {
		switch family {
		case 0: // anything
			return mixU[g.Intn(len(mixU))]
		case 1: // numbers, strings and nil
			return mixU[g.Intn(21)]
		case 2: // big integers next to floats
			return mixU[30+g.Intn(10)]
		case 3: // maps with keys of every kind, keyless maps, non-maps
			switch g.Intn(8) {
			case 0:
				return VStrMap(SKV("o", i(int64(g.Intn(3)))))
			case 1:
				return mixU[g.Intn(len(mixU))]
			default:
				return VStrMap(SKV("k", mixKeys[g.Intn(len(mixKeys))]), SKV("id", i(int64(g.Intn(4)))))
			}
		default: // few distinct values: duplicates and ties
			return []*V{i(1), VFlt(1, 1), VStr("1"), VNil(), VStr("a"), VStr("A"), VBool(true), VInt(4, 1), VStrMap(SKV("k", i(1))), VStrMap(SKV("k", VFlt(1, 1)))}[g.Intn(10)]
		}
	}
	mixCalls := []arrCall{{"sort", nil}, {"sort", []*V{VStr("k")}}, {"sort_natural", nil}, {"sort_natural", []*V{VStr("k")}}}
	nmix := 700
	if thorough {
		nmix = 12000
	}
	for k := 0; k < nmix; k++ {
		ln := k % 14 // 0..13
		if g.Chance(30) {
			ln = 9 + g.Intn(5) // the long end: many comparisons across kinds
		}
		family := g.Intn(5)
		xs := make([]*V, ln)
		for j := range xs {
			xs[j] = mixElem(family)
			if j > 0 && g.Chance(15) {
				xs[j] = xs[g.Intn(j)] // a duplicate of an earlier element
			}
		}
		runArray(xs, mixCalls, k%5 == 0, fmt.Sprintf("mixed-%d", family))
	}
	chainNames := []string{"compact", "concat", "reverse", "uniq", "sort", "sort_natural", "first", "last", "size", "join", "map"}
	for k := 0; k < n; k++ {
		xs := rarr()
		reps := arrReps(xs, true)
		x := reps[0]
		if g.Chance(40) {
			x = reps[g.Intn(len(reps))]
		}
		ns := 2 + g.Intn(3)
		steps := make([]numStep, ns)
		for j := range steps {
			name := chainNames[g.Intn(len(chainNames))]
			if j < ns-1 && !returnsArray[name] && g.Chance(85) {
				name = []string{"compact", "concat", "reverse", "uniq", "sort", "sort_natural"}[g.Intn(6)]
			}
			st := numStep{Name: name}
			switch name {
			case "concat":
				st.Arg = VAnys(rarr()...)
				if len(st.Arg.Xs) > 3 {
					st.Arg.Xs = st.Arg.Xs[:3]
				}
			case "join":
				if g.Bool() {
					st.Arg = VStr(g.Pick([]string{",", "", ", ", "-"}))
				}
			case "map":
				st.Arg = VStr(g.Pick([]string{"k", "size", "o"}))
			case "sort", "sort_natural":
				if g.Chance(25) {
					st.Arg = VStr("k")
				}
			}
			steps[j] = st
		}
		if !r.Mine() {
			continue
		}
		line := numfLine(x, steps)
		if gs := NewRNG(r.Seed, "arrf/shuffle/"+line); hasMultiMap(x) && gs.Chance(50) { // as shuffledLine: the model sees the entries in another order
			ss := make([]numStep, len(steps))
			for j, st := range steps {
				ss[j] = numStep{Name: st.Name, Arg: st.Arg.Shuffled(gs)}
			}
			line = numfLine(x.Shuffled(gs), ss)
			r.Count("entries=shuffled")
		}
		res := chainCase(r, line, x, steps)
		r.Count("gen=chain")
		r.Count(fmt.Sprintf("chainlen=%d", ns))
		r.Count("result=" + strings.SplitN(res, " ", 2)[0])
		if strings.HasPrefix(res, "ok") {
			r.Nontrivial(line)
		}
		r.Emit(line, res)
	}
}

// arrfQuiet: the result line of a case without oracle side effects (used for the []any baseline
// when that representation's case belongs to another shard)
func arrfQuiet(name string, recv *V, args []*V) string {
	out, err, panicked := evalOn(filterExprSource(name, len(args)), bindingsFor("x", recv, args))
	switch {
	case panicked:
		return "panic"
	case err != nil:
		return "err " + filterCauseKind(err)
	case sortFilterNames[name]:
		var key *V
		if len(args) > 0 {
			key = args[0]
		}
		return guard(func() string { return canonSort(name, out, key) })
	}
	return guard(func() string { return "ok " + Reify(out).Enc() })
}

func repName(v *V) string {
	switch v.Kind {
	case 'L':
		if v.Ty.C == 'a' {
			return "[]any"
		}
		return "typed-slice"
	case 'A':
		return "fixed-array"
	case 'R':
		return "range"
	case 'S':
		return "MapSlice"
	case 'M':
		return "map"
	}
	return string(v.Kind)
}

// ---- Go values outside the codec ----------------------------------------------------------------

// definedKey is a defined string type: a map[definedKey]any has key kind String, but a plain string
// is not assignable to its key type.
type definedKey string

var arrfSpecials = []string{"sort-defined-string-key", "sort_natural-defined-string-key", "map-defined-string-key"}

// arrfSpecial runs a case on a Go value the value codec has no spelling for. Its result line is the
// constant "bad-op" (what the model driver answers to a `special` line); the oracle does the work.
func arrfSpecial(r *Run, name string) string {
	line := "special " + name
	a := []any{map[definedKey]any{"name": "b"}, map[definedKey]any{"name": "a"}, map[definedKey]any{"other": 1}}
	filter := strings.SplitN(name, "-", 2)[0]
	src := "x | " + filter + ": 'name' | map: 'name' | join: ','"
	if filter == "map" {
		src = "x | map: 'name' | join: ','"
	}
	out, err, panicked := evalOn(src, map[string]any{"x": a})
	switch {
	case panicked:
		r.Violate("C15", "panic", line, "{{ "+src+" }} with x = []any{map[K]any{name: b}, map[K]any{name: a}, map[K]any{other: 1}}, type K string: "+firstLine(lastPanic))
	case err != nil:
		r.Violate("C15", "array-receiver-rejected", line, "{{ "+src+" }} with maps keyed by a defined string type: "+err.Error())
	default:
		want := "a,b"
		if filter == "map" {
			want = "b,a"
		}
		if fmt.Sprint(out) != want {
			r.Violate("C15", filter, line, fmt.Sprintf("{{ %s }} with maps keyed by a defined string type: expected %q, got %q", src, want, fmt.Sprint(out)))
		}
	}
	return "bad-op"
}
