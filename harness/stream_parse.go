package main

// Stream `parse` (property C06): the block parser.
//
//	case   : parse <delims> <srchex>
//	result : ok <tree shape> | err <kind> <line> | panic
//
// REAL code: render.NewConfig + AddStandardFilters + AddStandardTags, then cfg.Parse (parse
// phase only, not compile). The tree shape is printed exactly like AST.shapeList of
// lean/Liquid/Parse.lean.
//
// ORACLE (does not use the model): an independent recursive-descent recogniser of the
// declarative nesting grammar (recognise, below) decides accept/reject; the implementation must
// accept exactly the well-nested sequences whose visible objects are valid expressions. For
// accepted generated templates the rendered output is compared with a reference expansion of the
// recogniser's tree ("content is rendered under exactly the enclosing blocks and clauses").

import (
	"fmt"
	"os"
	"strings"

	"github.com/osteele/liquid"
	"github.com/osteele/liquid/expressions"
	"github.com/osteele/liquid/filters"
	"github.com/osteele/liquid/parser"
	"github.com/osteele/liquid/render"
	"github.com/osteele/liquid/tags"
)

func init() {
	streams["parse"] = parseStream
	replayers["parse"] = func(r *Run, f []string) string {
		return parseCase(r, f[1], unhexField(f[2]), f[0]+" "+f[1]+" "+f[2], nil, false)
	}
}

var parseCfg = func() render.Config {
	cfg := render.NewConfig()
	filters.AddStandardFilters(&cfg)
	tags.AddStandardTags(cfg)
	return cfg
}()

var parseEngine = liquid.NewEngine()

// ---------------------------------------------------------------------------------------------
// printing the real tree

func shapeSeq(sb *strings.Builder, ns []parser.ASTNode) {
	for _, n := range ns {
		shapeNode(sb, n)
		sb.WriteByte(';')
	}
}

func shapeNode(sb *strings.Builder, n parser.ASTNode) {
	switch n := n.(type) {
	case *parser.ASTText:
		fmt.Fprintf(sb, "X%d", n.SourceLoc.LineNo)
	case *parser.ASTObject:
		fmt.Fprintf(sb, "O%d", n.SourceLoc.LineNo)
	case *parser.ASTTag:
		fmt.Fprintf(sb, "T%d:%s", n.SourceLoc.LineNo, hexField(n.Name))
	case *parser.ASTTrim:
		if n.TrimDirection == parser.Left {
			sb.WriteByte('L')
		} else {
			sb.WriteByte('R')
		}
	case *parser.ASTRaw:
		sb.WriteString("W:" + hexField(strings.Join(n.Slices, "")))
	case *parser.ASTBlock:
		fmt.Fprintf(sb, "B%d:%s(", n.SourceLoc.LineNo, hexField(n.Name))
		shapeSeq(sb, n.Body)
		for _, c := range n.Clauses {
			fmt.Fprintf(sb, "|C%d:%s(", c.SourceLoc.LineNo, hexField(c.Name))
			shapeSeq(sb, c.Body)
			// a clause node never has clauses of its own; print them if it ever does, so that a
			// difference shows up
			for range c.Clauses {
				sb.WriteString("|?")
			}
			sb.WriteByte(')')
		}
		sb.WriteByte(')')
	case *parser.ASTSeq:
		sb.WriteString("S(")
		shapeSeq(sb, n.Children)
		sb.WriteByte(')')
	default:
		fmt.Fprintf(sb, "?%T", n)
	}
}

func parseErrKind(err parser.Error) string {
	if err.Cause() != nil {
		return "objSyntax" // WrapError(expressions error, token)
	}
	msg := err.Error()
	switch {
	case strings.Contains(msg, ": unterminated "):
		return "unterminated"
	case strings.Contains(msg, " not inside "):
		return "notInside"
	}
	return "other"
}

// ---------------------------------------------------------------------------------------------
// the declarative grammar, as data of the harness (NOT read from the implementation)

var nestBlocks = map[string][]string{
	"if": {"else", "elsif"}, "unless": {"else"}, "case": {"when", "else"}, "for": {"else"},
	"tablerow": nil, "capture": nil, "comment": nil, "raw": nil,
}
var nestClauses = map[string]bool{"else": true, "elsif": true, "when": true}

type symKind int

const (
	kLeaf symKind = iota
	kOpen
	kEnd
	kClause
	kCommentOpen
	kRawOpen
)

// A sym is one token of the nesting grammar.
type sym struct {
	kind symKind
	name string // block name (open/end), clause name
	src  string // source text
	leaf byte   // for kLeaf: 't' text, 'o' object, 'g' plain tag, 'w' trim marker
	args string // for objects: the expression
}

func admits(block, clause string) bool {
	for _, c := range nestBlocks[block] {
		if c == clause {
			return true
		}
	}
	return false
}

// tagSym classifies a tag by its name.
func tagSym(name, src string) sym {
	switch {
	case name == "comment":
		return sym{kind: kCommentOpen, name: name, src: src}
	case name == "raw":
		return sym{kind: kRawOpen, name: name, src: src}
	case nestClauses[name]:
		return sym{kind: kClause, name: name, src: src}
	}
	if _, ok := nestBlocks[name]; ok {
		return sym{kind: kOpen, name: name, src: src}
	}
	if strings.HasPrefix(name, "end") {
		if _, ok := nestBlocks[name[3:]]; ok {
			return sym{kind: kEnd, name: name[3:], src: src}
		}
	}
	return sym{kind: kLeaf, leaf: 'g', name: name, src: src}
}

func symsOfTokens(toks []parser.Token) []sym {
	out := make([]sym, 0, len(toks))
	for _, t := range toks {
		switch t.Type {
		case parser.TagTokenType:
			out = append(out, tagSym(t.Name, t.Source))
		case parser.ObjTokenType:
			out = append(out, sym{kind: kLeaf, leaf: 'o', src: t.Source, args: t.Args})
		case parser.TextTokenType:
			out = append(out, sym{kind: kLeaf, leaf: 't', src: t.Source})
		default:
			out = append(out, sym{kind: kLeaf, leaf: 'w', src: t.Source})
		}
	}
	return out
}

// reference tree
type refNode struct {
	kind    byte // 't' text, 'o' object, 'g' plain tag, 'w' trim, 'r' raw, 'b' block
	name    string
	src     string
	body    []*refNode
	clauses []refClause
}
type refClause struct {
	name string
	body []*refNode
}

type recogniser struct {
	syms []sym
	pos  int
	objs []string // expressions of the objects outside comment/raw
}

// items := item*   (stops, without consuming, at a clause tag, an end tag or the end of input)
func (p *recogniser) items() ([]*refNode, bool) {
	var out []*refNode
	for p.pos < len(p.syms) {
		s := p.syms[p.pos]
		switch s.kind {
		case kLeaf:
			if s.leaf == 'o' {
				p.objs = append(p.objs, s.args)
			}
			out = append(out, &refNode{kind: s.leaf, name: s.name, src: s.src})
			p.pos++
		case kCommentOpen, kRawOpen:
			// open interior* close, the interior being free of the close tag
			want := "comment"
			if s.kind == kRawOpen {
				want = "raw"
			}
			j := p.pos + 1
			var interior strings.Builder
			for j < len(p.syms) && !(p.syms[j].kind == kEnd && p.syms[j].name == want) {
				interior.WriteString(p.syms[j].src)
				j++
			}
			if j >= len(p.syms) {
				return nil, false
			}
			if s.kind == kRawOpen {
				out = append(out, &refNode{kind: 'r', src: interior.String()})
			}
			p.pos = j + 1
		case kOpen:
			// open_b items (clause_c items)* end_b, every c admitted by b
			p.pos++
			body, ok := p.items()
			if !ok {
				return nil, false
			}
			n := &refNode{kind: 'b', name: s.name, body: body}
			for p.pos < len(p.syms) && p.syms[p.pos].kind == kClause {
				c := p.syms[p.pos]
				if !admits(s.name, c.name) {
					return nil, false
				}
				p.pos++
				cb, ok := p.items()
				if !ok {
					return nil, false
				}
				n.clauses = append(n.clauses, refClause{c.name, cb})
			}
			if p.pos >= len(p.syms) || p.syms[p.pos].kind != kEnd || p.syms[p.pos].name != s.name {
				return nil, false
			}
			p.pos++
			out = append(out, n)
		default: // clause or end tag: the caller decides whether it belongs here
			return out, true
		}
	}
	return out, true
}

// recognise: template := items, followed by the end of input (no end or clause tag stands alone)
func recognise(syms []sym) (tree []*refNode, wellNested bool, objs []string) {
	p := &recogniser{syms: syms}
	tree, ok := p.items()
	if !ok || p.pos != len(syms) {
		return nil, false, nil
	}
	return tree, true, p.objs
}

// ---------------------------------------------------------------------------------------------
// reference expansion for templates over the generated alphabet, with bindings x = 1, a = [1]:
// `if x` renders its body; `unless x` and `case x` render their first clause (else / when 1);
// `for i in a` renders its body once and fails at render time with more than one clause;
// `tablerow` wraps its body in one row and one cell; capture, assign, comment render nothing;
// raw renders its interior verbatim; `{{x}}` renders 1.

var parseBindings = map[string]any{"x": 1, "a": []any{1}}

func refRender(sb *strings.Builder, ns []*refNode) (failed bool) {
	for _, n := range ns {
		switch n.kind {
		case 't', 'r':
			sb.WriteString(n.src)
		case 'o':
			sb.WriteString("1")
		case 'g', 'w':
		case 'b':
			switch n.name {
			case "if":
				if refRender(sb, n.body) {
					return true
				}
			case "unless", "case":
				if len(n.clauses) > 0 && refRender(sb, n.clauses[0].body) {
					return true
				}
			case "for":
				if len(n.clauses) > 1 {
					return true
				}
				if refRender(sb, n.body) {
					return true
				}
			case "tablerow":
				sb.WriteString(`<tr class="row1"><td class="col1">`)
				if refRender(sb, n.body) {
					return true
				}
				sb.WriteString(`</td></tr>`)
			case "capture":
				var tmp strings.Builder
				if refRender(&tmp, n.body) {
					return true
				}
			}
		}
	}
	return false
}

// ---------------------------------------------------------------------------------------------
// one case

// parseCase runs cfg.Parse and evaluates the C06 oracle. syms, when non-nil, is the symbol
// sequence the source was generated from (otherwise the tokens of parser.Scan are classified);
// renderCheck asks for the rendered-output comparison (generated alphabets, default delimiters).
func parseCase(r *Run, delimsF, src, caseLine string, syms []sym, renderCheck bool) string {
	delims := decodeDelims(delimsF)
	loc := parser.SourceLoc{Pathname: "p", LineNo: 1}
	res := guard(func() string {
		cfg := parseCfg
		cfg.Delims = delims
		root, err := cfg.Parse(src, loc)
		if err != nil {
			if root != nil {
				r.Violate("C06", "error-returns-no-tree", caseLine, fmt.Sprintf("template %q: Parse returned both an error and a tree", src))
			}
			return fmt.Sprintf("err %s %d", parseErrKind(err), err.LineNumber())
		}
		var sb strings.Builder
		if seq, ok := root.(*parser.ASTSeq); ok {
			shapeSeq(&sb, seq.Children)
		} else {
			shapeNode(&sb, root)
		}
		if sb.Len() == 0 {
			return "ok -"
		}
		return "ok " + sb.String()
	})
	if res == "panic" {
		r.Violate("C06", "parse-panics", caseLine, "cfg.Parse panicked: "+lastPanic)
		return res
	}
	if syms == nil {
		var toks []parser.Token
		if guard(func() string { toks = parser.Scan(src, loc, delims); return "" }) == "panic" {
			return res
		}
		syms = symsOfTokens(toks)
	}
	tree, wn, objs := recognise(syms)
	objsOK := true
	for _, a := range objs {
		if _, err := expressions.Parse(a); err != nil {
			objsOK = false
		}
	}
	implOK := strings.HasPrefix(res, "ok ")
	if implOK != (wn && objsOK) {
		r.Violate("C06", "accepts-iff-well-nested", caseLine,
			fmt.Sprintf("template %q: implementation says %q, the nesting grammar says well-nested=%v objects-valid=%v", src, res, wn, objsOK))
	}
	if !implOK && renderCheck && hashString(src)%8 == 0 {
		// a rejected template renders nothing (sampled: the engine parses the source a second time)
		var got string
		var gerr error
		if guard(func() string { got, gerr = parseEngine.ParseAndRenderString(src, parseBindings); return "" }) == "panic" {
			r.Violate("C06", "rejected-renders-nothing", caseLine, "ParseAndRenderString panicked: "+lastPanic)
		} else if gerr == nil || got != "" {
			r.Violate("C06", "rejected-renders-nothing", caseLine, fmt.Sprintf("template %q is rejected by Parse but ParseAndRenderString returned %q, error %v", src, got, gerr))
		}
		r.Count("rejected-render-checked")
	}
	if implOK && wn && renderCheck {
		var want strings.Builder
		wantFail := refRender(&want, tree)
		var got string
		var gerr error
		if guard(func() string { got, gerr = parseEngine.ParseAndRenderString(src, parseBindings); return "" }) == "panic" {
			r.Violate("C06", "render-under-enclosing-blocks", caseLine, "render panicked: "+lastPanic)
		} else if (gerr != nil) != wantFail {
			r.Violate("C06", "render-under-enclosing-blocks", caseLine, fmt.Sprintf("template %q: render error %v, reference expects failure=%v", src, gerr, wantFail))
		} else if gerr == nil && got != want.String() {
			r.Violate("C06", "render-under-enclosing-blocks", caseLine, fmt.Sprintf("template %q rendered %q, reference expansion %q", src, got, want.String()))
		}
		r.Count("render-checked")
	}
	return res
}

// ---------------------------------------------------------------------------------------------
// generators

// the 22-symbol alphabet: 8 block opens, their 8 end tags, else, elsif, when, a plain tag, an
// object, text
func alphabet22() []sym {
	var out []sym
	opens := []string{"if x", "unless x", "case x", "for i in a", "tablerow i in a", "capture v", "comment", "raw"}
	for _, o := range opens {
		name := strings.Fields(o)[0]
		out = append(out, tagSym(name, "{%"+o+"%}"))
	}
	for _, o := range opens {
		name := "end" + strings.Fields(o)[0]
		out = append(out, tagSym(name, "{%"+name+"%}"))
	}
	out = append(out, tagSym("else", "{%else%}"), tagSym("elsif", "{%elsif x%}"), tagSym("when", "{%when 1%}"),
		tagSym("assign", "{%assign y = 1%}"),
		sym{kind: kLeaf, leaf: 'o', src: "{{x}}", args: "x"},
		sym{kind: kLeaf, leaf: 't', src: "t"})
	return out
}

// the reduced 12-symbol alphabet: one representative per block class
func alphabet12() []sym {
	var out []sym
	for _, t := range []string{"if x", "endif", "for i in a", "endfor", "comment", "endcomment", "raw", "endraw", "else", "elsif x", "when 1"} {
		out = append(out, tagSym(strings.Fields(t)[0], "{%"+t+"%}"))
	}
	return append(out, sym{kind: kLeaf, leaf: 't', src: "t"})
}

// withMarkers gives every text symbol a distinct marker (no whitespace, so hyphens cannot eat it)
func withMarkers(seq []sym) []sym {
	out := make([]sym, len(seq))
	for i, s := range seq {
		if s.kind == kLeaf && s.leaf == 't' {
			s.src = fmt.Sprintf("t%d.", i)
		}
		out[i] = s
	}
	return out
}

func srcOf(seq []sym) string {
	var sb strings.Builder
	for _, s := range seq {
		sb.WriteString(s.src)
	}
	return sb.String()
}

// enumSeqs calls f for every sequence of exactly n symbols, in odometer order.
func enumSeqs(alpha []sym, n int, f func(seq []sym)) {
	idx := make([]int, n)
	seq := make([]sym, n)
	for i := range seq {
		seq[i] = alpha[0]
	}
	for {
		f(seq)
		i := n - 1
		for i >= 0 {
			idx[i]++
			if idx[i] < len(alpha) {
				seq[i] = alpha[idx[i]]
				break
			}
			idx[i] = 0
			seq[i] = alpha[0]
			i--
		}
		if i < 0 {
			return
		}
	}
}

func hasBlockSyntax(seq []sym) bool {
	for _, s := range seq {
		if s.kind != kLeaf {
			return true
		}
	}
	return false
}

// --- random well-nested templates ---

type nestGen struct {
	g      *RNG
	budget int
}

func (ng *nestGen) tag(body string) string {
	l, rr := "{%", "%}"
	if ng.g.Chance(12) {
		l = "{%-"
	}
	if ng.g.Chance(12) {
		rr = "-%}"
	}
	sp := func() string { return ng.g.Pick([]string{"", " ", " ", "\n", "  ", "\f", "\r\n", "\t"}) } // every byte RE2's \s matches: [\t\n\f\r ]
	return l + sp() + body + sp() + rr
}

func (ng *nestGen) leaf() sym {
	switch ng.g.Intn(10) {
	case 0, 1:
		return sym{kind: kLeaf, leaf: 'o', src: "{{" + ng.g.Pick([]string{"", " "}) + "x" + ng.g.Pick([]string{"", " "}) + "}}", args: "x"}
	case 2:
		return tagSym("assign", ng.tag("assign y = 1"))
	default:
		return sym{kind: kLeaf, leaf: 't', src: "t"}
	}
}

var junkTags = []string{"if x", "endif", "for i in a", "endfor", "else", "elsif x", "when 1", "endcase", "endunless", "comment", "raw", "endcapture", "endtablerow", "assign y = 1", "unknown",
	"endcomment", "endraw"} // the OTHER lexical block's end tag is ordinary interior too

// junk: an arbitrary token soup (for comment/raw interiors) that does not contain `forbidden`
func (ng *nestGen) junk(forbidden string) []sym {
	var out []sym
	for n := ng.g.Intn(5); n > 0; n-- {
		switch ng.g.Intn(5) {
		case 0:
			out = append(out, sym{kind: kLeaf, leaf: 't', src: "t"})
		case 4:
			// an opening delimiter that is not closed inside the interior: bytes like any other (the interior is lexical).
			// With blanks at its edge again: a neighbour's hyphen no longer strips white space at the edge of a raw body
			// (repair verbatim-output-not-trimmed; formerly K-C05-raw-trimmed-by-neighbour-hyphen)
			out = append(out, sym{kind: kLeaf, leaf: 'j', src: ng.g.Pick([]string{"{{ ", "{% q ", "{{", "{%- ", "{{-", "{% q"})}) // 'j': not a text that withMarkers renames
		case 1:
			a := ng.g.Pick([]string{"x", "|", "a b", "a.b | upcase", "1"})
			out = append(out, sym{kind: kLeaf, leaf: 'o', src: "{{" + a + "}}", args: a})
		default:
			t := ng.g.Pick(junkTags)
			if strings.Fields(t)[0] == forbidden {
				continue
			}
			out = append(out, tagSym(strings.Fields(t)[0], ng.tag(t)))
		}
	}
	return out
}

var blockOpens = map[string]string{"if": "if x", "unless": "unless x", "case": "case x", "for": "for i in a", "tablerow": "tablerow i in a", "capture": "capture v"}
var blockNames = []string{"if", "unless", "case", "for", "tablerow", "capture"}
var clauseSrc = map[string]string{"else": "else", "elsif": "elsif x", "when": "when 1"}

func (ng *nestGen) items(depth int) []sym {
	var out []sym
	n := 1 + ng.g.Intn(3)
	for i := 0; i < n && ng.budget > 0; i++ {
		ng.budget--
		k := ng.g.Intn(100)
		switch {
		case depth > 0 && k < 55:
			out = append(out, ng.block(depth)...)
		case k < 62:
			out = append(out, tagSym("comment", ng.tag("comment")))
			out = append(out, ng.junk("endcomment")...)
			out = append(out, tagSym("endcomment", ng.tag("endcomment")))
		case k < 69:
			out = append(out, tagSym("raw", ng.tag("raw")))
			out = append(out, ng.junk("endraw")...)
			out = append(out, tagSym("endraw", ng.tag("endraw")))
		default:
			out = append(out, ng.leaf())
		}
	}
	return out
}

func (ng *nestGen) block(depth int) []sym {
	b := ng.g.Pick(blockNames)
	out := []sym{tagSym(b, ng.tag(blockOpens[b]))}
	out = append(out, ng.items(depth-1)...)
	if cl := nestBlocks[b]; len(cl) > 0 {
		for n := ng.g.Intn(3); n > 0; n-- {
			c := ng.g.Pick(cl)
			out = append(out, tagSym(c, ng.tag(clauseSrc[c])))
			out = append(out, ng.items(depth-1)...)
		}
	}
	return append(out, tagSym("end"+b, ng.tag("end"+b)))
}

// chain: a single spine of nested blocks of the given depth (deep nesting with a small size)
func (ng *nestGen) chain(depth int) []sym {
	if depth == 0 {
		return []sym{ng.leaf()}
	}
	b := ng.g.Pick(blockNames)
	out := []sym{tagSym(b, ng.tag(blockOpens[b]))}
	if ng.g.Chance(30) {
		out = append(out, ng.leaf())
	}
	out = append(out, ng.chain(depth-1)...)
	if cl := nestBlocks[b]; len(cl) > 0 && ng.g.Chance(30) {
		c := ng.g.Pick(cl)
		out = append(out, tagSym(c, ng.tag(clauseSrc[c])), ng.leaf())
	}
	return append(out, tagSym("end"+b, ng.tag("end"+b)))
}

func hasJunkOpener(seq []sym) bool {
	for _, s := range seq {
		if s.kind == kLeaf && s.leaf == 'j' {
			return true
		}
	}
	return false
}

// neighbours: one-edit variants (delete / duplicate / swap with the next tag) at tag positions
func neighbours(g *RNG, seq []sym, max int) [][]sym {
	var tagPos []int
	for i, s := range seq {
		if s.kind != kLeaf {
			tagPos = append(tagPos, i)
		}
	}
	var out [][]sym
	for k := 0; k < max && len(tagPos) > 0; k++ {
		i := tagPos[g.Intn(len(tagPos))]
		cp := append([]sym{}, seq...)
		switch g.Intn(3) {
		case 0: // delete
			cp = append(cp[:i], cp[i+1:]...)
		case 1: // duplicate
			cp = append(cp[:i+1], append([]sym{seq[i]}, cp[i+1:]...)...)
		default: // swap with another tag
			j := tagPos[g.Intn(len(tagPos))]
			cp[i], cp[j] = cp[j], cp[i]
		}
		out = append(out, cp)
	}
	return out
}

func parseStream(r *Run) {
	emitSrc := func(delims []string, src string, syms []sym, renderCheck bool, kind string, stub bool) {
		if !r.Mine() {
			return
		}
		cl := fmt.Sprintf("parse %s %s", encodeDelims(delims), hexField(src))
		res := parseCase(r, encodeDelims(delims), src, cl, syms, renderCheck)
		r.Count("gen=" + kind)
		if false && stub && strings.HasPrefix(res, "err objSyntax") { // the expression model is plugged in: always compare
			// STUB chk in the model driver (Driver.lean: parseChk) accepts every object: cases in
			// which the real expression parser rejects an object are checked by the oracle above
			// but not compared with the model. Remove when the expression model is plugged in.
			r.Count("not-compared:objSyntax(stub chk)")
			return
		}
		f := strings.Fields(res)
		if f[0] == "err" {
			r.Count("verdict=err " + f[1])
		} else {
			r.Count("verdict=" + f[0])
		}
		if syms == nil || hasBlockSyntax(syms) {
			r.Nontrivial(cl)
		}
		r.Emit(cl, res)
	}
	emitSeq := func(seq []sym, kind string) {
		if !r.Mine() {
			return
		}
		ms := withMarkers(seq)
		src := srcOf(ms)
		cl := "parse - " + hexField(src)
		res := parseCase(r, "-", src, cl, ms, true)
		r.Count("gen=" + kind)
		f := strings.Fields(res)
		if f[0] == "err" {
			r.Count("verdict=err " + f[1])
		} else {
			r.Count("verdict=" + f[0])
		}
		if hasBlockSyntax(seq) {
			// enumerated sequences are pairwise distinct: a short key (the source, which determines
			// the sequence) keeps the distinct-count map small
			r.Nontrivial(src)
		}
		r.Emit(cl, res)
	}
	// oracle only (not sent to the model): used for the largest enumeration level
	oracleSeq := func(seq []sym, kind string) {
		if !r.Mine() {
			return
		}
		ms := withMarkers(seq)
		src := srcOf(ms)
		parseCase(r, "-", src, "parse - "+hexField(src), ms, true)
		r.Count("oracle-only:" + kind)
	}

	// corpus first
	for _, c := range corpusLines("parse") {
		f := strings.Fields(c)
		if len(f) == 3 && r.Mine() {
			r.Emit(c, replayers["parse"](r, f))
		}
	}

	// (a) every sequence of <= N tokens over the 22-symbol alphabet
	a22, a12 := alphabet22(), alphabet12()
	n22, n22oracle, n12, n12oracle := 4, 0, 5, 0
	if r.Tier == "thorough" {
		n22, n12, n12oracle = 5, 6, 7
		// 22^6 = 113 379 904 sequences, oracle only: about 40 us of CPU each (roughly 75 CPU-minutes,
		// 5 minutes of wall time on 16 idle cores) -- opt-in
		if os.Getenv("VERIF_C06_FULL") != "" {
			n22oracle = 6
		}
	}
	for n := 0; n <= n22; n++ {
		enumSeqs(a22, n, func(seq []sym) { emitSeq(seq, "exhaustive22") })
	}
	r.Stats.Notes["exhaustive22"] = fmt.Sprintf("all sequences of <= %d tokens over the 22-symbol alphabet, compared with the model", n22)
	// (b) the reduced 12-symbol alphabet, longer
	for n := n22 + 1; n <= n12; n++ {
		enumSeqs(a12, n, func(seq []sym) { emitSeq(seq, "exhaustive12") })
	}
	r.Stats.Notes["exhaustive12"] = fmt.Sprintf("all sequences of %d..%d tokens over the reduced 12-symbol alphabet, compared with the model", n22+1, n12)
	if n22oracle > n22 {
		enumSeqs(a22, n22oracle, func(seq []sym) { oracleSeq(seq, "exhaustive22") })
		r.Stats.Notes["exhaustive22-oracle"] = fmt.Sprintf("all sequences of exactly %d tokens over the 22-symbol alphabet: implementation vs recogniser and render reference only (not sent to the model)", n22oracle)
	}
	if n12oracle > n12 {
		enumSeqs(a12, n12oracle, func(seq []sym) { oracleSeq(seq, "exhaustive12") })
		r.Stats.Notes["exhaustive12-oracle"] = fmt.Sprintf("all sequences of exactly %d tokens over the 12-symbol alphabet: implementation vs recogniser and render reference only", n12oracle)
	}

	// (c) random well-nested templates of depth <= 40 and their one-edit neighbours
	g := NewRNG(r.Seed, "parse")
	nRandom := 400
	if r.Tier == "thorough" {
		nRandom = 6000
	}
	altDelims := []string{"<<", ">>", "<%", "%>"}
	for i := 0; i < nRandom; i++ {
		ng := &nestGen{g: g, budget: 60}
		var seq []sym
		if i%4 == 3 {
			seq = ng.chain(1 + g.Intn(40))
		} else {
			seq = ng.items(1 + g.Intn(6))
		}
		all := append([][]sym{seq}, neighbours(g, seq, 4)...)
		for k, s := range all {
			kind := "random-nested"
			if k > 0 {
				kind = "one-edit"
			}
			ms := withMarkers(s)
			src := srcOf(ms)
			// comment/raw interiors may hold invalid objects: they are invisible to the parser, so
			// the stub chk is harmless for the base template; an edit can expose one, hence stub=true
			if i%10 == 9 {
				alt := strings.NewReplacer("{{", "<<", "}}", ">>", "{%", "<%", "%}", "%>").Replace(src)
				emitSrc(altDelims, alt, nil, false, kind+"-altdelims", true)
			} else if k > 0 && hasJunkOpener(ms) {
				// an edit may move an unclosed opening delimiter out of its raw/comment interior, where it is no longer
				// bytes but the start of a token: the symbol sequence does not describe such a source (model comparison only)
				emitSrc(nil, src, nil, false, kind+"-exposed-opener", true)
			} else {
				emitSrc(nil, src, ms, k == 0, kind, true) // an edit may expose junk: no render reference
			}
		}
	}

	// (d) the repository's own test templates, and mutants
	tpls := harvestTemplates()
	r.Stats.Notes["harvested_templates"] = fmt.Sprint(len(tpls))
	for _, t := range tpls {
		emitSrc(nil, t, nil, false, "harvest", true)
		for k := 0; k < 2; k++ {
			emitSrc(nil, mutate(g, t), nil, false, "mutant", true)
		}
	}
}
