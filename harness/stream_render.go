package main

import (
	"fmt"
	"path/filepath"
	"strings"

	"github.com/osteele/liquid"
)

// The `render` correspondence stream: whole templates through the real engine
// (ParseTemplateLocation + Render) against the Lean model's `run`.
//
//	render <cfg> <pathhex> <line> <srchex> <envenc>  =>  ok <hex> | err <kind> <line> <pathhex> <cause> | panic

func init() {
	streams["render"] = renderStream
	replayers["render"] = func(r *Run, f []string) string {
		var line int
		fmt.Sscan(f[3], &line)
		return renderImpl(parseEngineCfg(f[1]), unhexField(f[2]), line, unhexField(f[4]), RealiseEnv(DecEnv(f[5])))
	}
}

// coarseCause keeps the cause kinds the model distinguishes and folds the rest into "other".
func coarseCause(c string) string {
	if strings.HasPrefix(c, "filterErr:") {
		parts := strings.SplitN(c, ":", 3)
		if len(parts) == 3 {
			return parts[0] + ":" + parts[1] + ":" + coarseCause(parts[2])
		}
	}
	if strings.HasPrefix(c, "other:") {
		t := strings.TrimPrefix(c, "other:")
		if t == "undefinedVariable" || t == "forElse" || t == "notExist" || t == "includeDepth" {
			return c
		}
		if strings.HasPrefix(t, "located:") {
			return "other:located:" + coarseCause(strings.TrimPrefix(t, "located:"))
		}
		return "other"
	}
	return c
}

func canonRenderErr(cfg engineCfg, se liquid.SourceError, parsePhase bool) string {
	if p := sourceErrorProblem(se); p != "" {
		return "err bad-source-error " + p
	}
	return fmt.Sprintf("err %s %d %s %s", errKind(se, parsePhase), se.LineNumber(), hexField(cfg.canonPath(se.Path())), coarseCause(causeKind(se.Cause())))
}

// renderImpl parses src at (path, line) and renders it with env on a fresh engine.
func renderImpl(cfg engineCfg, path string, line int, src string, env map[string]any) string {
	res, _ := protect(func() string {
		e := cfg.newEngine()
		p := path
		if d := cfg.dir(); d != "" {
			p = filepath.Join(d, path)
		}
		tpl, err := e.ParseTemplateLocation([]byte(src), p, line)
		if err != nil {
			return canonRenderErr(cfg, err, true)
		}
		out, err := tpl.Render(env)
		if err != nil {
			if out != nil {
				return "err output-with-error"
			}
			return canonRenderErr(cfg, err, false)
		}
		return canonOK(out)
	})
	return res
}

func renderCaseLine(cfg engineCfg, path string, line int, src string, env map[string]*V) string {
	return fmt.Sprintf("render %s %s %d %s %s", cfg.Enc(), hexField(path), line, hexField(src), EncEnv(env))
}

func renderStream(r *Run) {
	g := NewRNG(r.Seed, "render")
	emit := func(cfg engineCfg, path string, line int, src string, env map[string]*V, kind string) {
		if !r.Mine() {
			return
		}
		cl := renderCaseLine(cfg, path, line, src, env)
		res := renderImpl(cfg, path, line, src, RealiseEnv(env))
		r.Count("gen=" + kind)
		r.Count("res=" + strings.Fields(res)[0])
		if strings.HasPrefix(res, "err ") {
			r.Count("errkind=" + strings.Fields(res)[1])
		}
		if strings.HasPrefix(res, "ok ") && len(res) > 3 {
			r.Nontrivial(cl)
		}
		if res == "panic" {
			r.Violate("C01", "render-panics", cl, lastPanic)
		}
		r.Emit(cl, res)
	}
	for _, c := range corpusLines("render") {
		if f := strings.Fields(c); len(f) == 6 && r.Mine() {
			r.Emit(c, replayers["render"](r, f))
		}
	}
	// the repository's own test templates, with an empty environment and with a generated one
	for _, t := range harvestTemplates() {
		emit(engineCfg{}, "", 0, t, map[string]*V{}, "harvest")
	}
	// times: {{ t }}, the date filter on times and on date strings, times inside containers (stream_filter_date.go)
	for _, tc := range dateTemplateFamily() {
		emit(engineCfg{}, "", 1, tc.src, tc.env, "date-family")
	}
	// small-scope exhaustion: EVERY sequence of at most 3 (thorough: 4) pieces of a 31-piece alphabet covering each
	// standard tag, both hyphen positions, text with edge white space, raw/comment/capture and the loop controls -
	// bare, as the body of a loop, and as the body of a conditional. Most short sequences are ill-nested (error kind
	// and line are compared); the wrapped forms render. Interactions of two constructs that generators rarely put
	// next to each other (a comment after a raw block, a hyphen against a block end, break inside capture) are all here.
	{
		pieces := []string{"a ", " b\n", "{{ x }}", "{{- x -}}", "{{ s }}", "{{ c }}", "{{ i }}", "{{ forloop.index }}",
			"{% if t %}", "{% else %}", "{% elsif f %}", "{% endif %}", "{% unless f %}", "{% endunless %}",
			"{% for i in r %}", "{%- endfor -%}", "{% tablerow i in r cols:2 %}", "{% endtablerow %}",
			"{% raw %}", "{% endraw %}", "{% comment %}", "{% endcomment %}", "{% capture c %}", "{% endcapture %}",
			"{% assign x = 2 %}", "{%- break -%}", "{% continue %}", "{% cycle 'p','q' %}", "{% case x %}", "{% when 1 %}", "{% endcase %}"}
		env := map[string]*V{"x": VInt(0, 1), "s": VStr(" sp "), "t": VBool(true), "f": VBool(false), "r": VAnys(VInt(0, 1), VInt(0, 2), VInt(0, 3))}
		maxLen := 3
		if r.Tier == "thorough" {
			maxLen = 4
		}
		var rec func(prefix string, depth int)
		rec = func(prefix string, depth int) {
			if depth > 0 {
				emit(engineCfg{}, "", 1, prefix, env, "small-scope")
				if depth <= 3 {
					emit(engineCfg{}, "", 1, "{% for i in r %}"+prefix+"{% endfor %}", env, "small-scope-in-loop")
					emit(engineCfg{}, "", 1, "{% if t %}"+prefix+"{% endif %}[{{ c }}]", env, "small-scope-in-if")
				}
			}
			if depth == maxLen {
				return
			}
			for _, p := range pieces {
				rec(prefix+p, depth+1)
			}
		}
		rec("", 0)
	}
	n := 4000
	if r.Tier == "thorough" {
		n = 60000
	}
	o := DefaultTmplOpts()
	for i := 0; i < n; i++ {
		cfg := engineCfg{Strict: g.Chance(8)}
		sc := GenSchema(g, o)
		env := GenEnv(g, o, sc)
		oo := o
		path, line := "", 0
		switch g.Intn(6) {
		case 0:
			path, line = "dir/t.liquid", 1
		case 1:
			path, line = "", g.Intn(5)
		case 2:
			path, line = "t.html", 10+g.Intn(5)
		}
		if g.Chance(15) {
			cfg.FS = GenIncludes(g, o, sc)
			oo.Includes = cfg.FS
			path, line = mainTemplateName, 1
		}
		src, _ := GenTemplateFor(g, oo, sc)
		emit(cfg, path, line, src, env, "generated")
	}
}
