package main

import (
	"bufio"
	"fmt"
	"os"
)

// Stream `ctl-debug` (not part of any check): renders the templates of the file named by
// VERIF_DEBUG_FILE (one per line, `\n` escapes expanded) with an environment that binds u<i> to
// the i-th value of condUniverse and a few fixed names; prints template and result to stderr.
func init() {
	streams["ctl-debug"] = func(r *Run) {
		f, err := os.Open(os.Getenv("VERIF_DEBUG_FILE"))
		if err != nil {
			fmt.Fprintln(os.Stderr, err)
			return
		}
		env := map[string]*V{"arr": VAnys(VInt(0, 1), VInt(0, 2), VInt(0, 3)), "nilv": VNil(), "fv": VBool(false), "s": VStr("str"),
			"m": VStrMap(SKV("b", VInt(0, 2)), SKV("a", VInt(0, 1)))}
		for i, v := range condUniverse() {
			env[fmt.Sprint("u", i)] = v
		}
		sc := bufio.NewScanner(f)
		for sc.Scan() {
			src := sc.Text()
			res := renderImpl(engineCfg{}, "", 0, src, RealiseEnv(env))
			fmt.Fprintf(os.Stderr, "%s\n   => %s\n", src, resultSummary(res))
		}
	}
}
