package main

// The `reps` stream (C18): output depends on a binding's Liquid value, not on its Go
// representation.
//
// A case is a LOGICAL environment (generic values only: nil, bool, Go int, float64, string,
// []any, map[string]any) and a template made of independent statements drawn from a restricted
// grammar, so that the generator knows how every variable is used. From the logical environment
// it derives 5 further environments whose representations are chosen independently at every
// node, each only where C18 names it:
//
//   drop       anywhere (variable, array element, map value), at any depth
//   pointer    at a variable, and at a map value when the map is only used through property /
//              index lookup
//   typed      typed slices ([]int8, []string, []map[string]any, ...), fixed arrays and
//              string-keyed typed maps, when all elements fit the type
//   MapSlice   an ordered YAML map, when the template only does lookup / size on that variable
//   width      every integer width that holds the value (unsigned when >= 0); float32 when the
//              float is exactly representable - in print, compare and arithmetic positions
//   []byte     when the string is only printed or passed to a string filter
//
// All six are rendered on the REAL engine and emitted as `render` lines. ORACLE: every derived
// environment gives the result of the generic one (output bytes, or error kind). On a
// difference the stream isolates the statement and minimises the representation (which
// variable, which feature) and reports that minimal case.

import (
	"fmt"
	"math"
	"math/big"
	"sort"
	"strings"

	"github.com/osteele/liquid"
)

func init() {
	streams["reps"] = repsStream
	replayers["reps"] = func(r *Run, f []string) string {
		if len(f) != 6 || f[0] != "render" {
			return "bad-op"
		}
		var line int
		fmt.Sscan(f[3], &line)
		cfg := parseEngineCfg(f[1])
		path, src, env := unhexField(f[2]), unhexField(f[4]), DecEnv(f[5])
		res := renderImpl(cfg, path, line, src, RealiseEnv(env))
		gen := map[string]*V{}
		for k, v := range env {
			gen[k] = stripRep(v, "all")
		}
		if want := renderImpl(cfg, path, line, src, RealiseEnv(gen)); repCanon(want) != repCanon(res) {
			feats := map[string]bool{}
			for _, v := range env {
				featuresOf(v, feats)
			}
			r.Violate("C18", "rep:"+featList(feats), strings.Join(f, " "), fmt.Sprintf("%q: %s ; generic environment: %s", src, resultSummary(res), resultSummary(want)))
		}
		return res
	}
}

// repCanon: output bytes, or the error kind.
func repCanon(res string) string {
	f := strings.Fields(res)
	if len(f) >= 2 && f[0] == "err" {
		return "err " + f[1]
	}
	return res
}

// ---- representation features -----------------------------------------------------------------

// featuresOf collects the representation features used inside v.
func featuresOf(v *V, out map[string]bool) {
	if v == nil {
		return
	}
	switch v.Kind {
	case 'D':
		out["drop"] = true
	case 'P', 'N':
		out["ptr"] = true
	case 'b':
		out["bytes"] = true
	case 'S':
		out["mapslice"] = true
	case 'A':
		out["array"] = true
		if v.Ty.C != 'a' {
			out["typed"] = true
		}
	case 'L':
		if v.Ty.C != 'a' {
			out["typed"] = true
		}
	case 'M':
		if v.VTy.C != 'a' {
			out["typed"] = true
		}
	case 'i':
		if v.IK >= 5 {
			out["unsigned"] = true
		} else if v.IK != 0 {
			out["width"] = true
		}
	case 'd':
		if v.IK == 0 {
			out["float32"] = true
		}
	}
	for _, x := range v.Xs {
		featuresOf(x, out)
	}
	for _, kv := range v.KVs {
		featuresOf(kv[1], out)
	}
	featuresOf(v.In, out)
}

func featList(m map[string]bool) string {
	var ks []string
	for k := range m {
		ks = append(ks, k)
	}
	sort.Strings(ks)
	if len(ks) == 0 {
		return "none"
	}
	return strings.Join(ks, "+")
}

var repFeatures = []string{"drop", "ptr", "array", "typed", "mapslice", "bytes", "unsigned", "width", "float32"}

// stripRep removes one representation feature ("all": every feature) from v, giving the
// generic representation of the same logical value at those nodes.
func stripRep(v *V, feat string) *V {
	all := feat == "all"
	rec := func(x *V) *V { return stripRep(x, feat) }
	switch v.Kind {
	case 'D':
		if all || feat == "drop" {
			return rec(v.In)
		}
		return VDrop(rec(v.In))
	case 'P':
		if all || feat == "ptr" {
			return rec(v.In)
		}
		return VPtr(rec(v.In))
	case 'N':
		if all || feat == "ptr" {
			return VNil()
		}
		return v
	case 'b':
		if all || feat == "bytes" {
			return VStr(v.S)
		}
		return v
	case 'i':
		if all || (feat == "unsigned" && v.IK >= 5) || (feat == "width" && v.IK < 5) {
			return VBig(0, v.I)
		}
		return v
	case 'd':
		if all || feat == "float32" {
			return &V{Kind: 'd', IK: 1, Num: v.Num, Den: v.Den}
		}
		return v
	case 'L', 'A':
		xs := make([]*V, len(v.Xs))
		for i, x := range v.Xs {
			xs[i] = rec(x)
		}
		kind, ty := v.Kind, v.Ty
		if all || feat == "array" {
			kind = 'L'
		}
		if all || feat == "typed" {
			ty = TAny
		} else if ty.C != 'a' {
			ty = commonType(xs)
		}
		return &V{Kind: kind, Ty: ty, Xs: xs}
	case 'M', 'S':
		kvs := make([][2]*V, len(v.KVs))
		for i, kv := range v.KVs {
			kvs[i] = [2]*V{kv[0], rec(kv[1])}
		}
		if v.Kind == 'S' {
			if all || feat == "mapslice" {
				return VStrMap(kvs...)
			}
			return VMapSlice(kvs...)
		}
		vt := v.VTy
		if all || feat == "typed" {
			vt = TAny
		} else if vt.C != 'a' {
			vals := make([]*V, len(kvs))
			for i, kv := range kvs {
				vals[i] = kv[1]
			}
			vt = commonType(vals)
		}
		return VMap(v.KTy, vt, kvs...)
	}
	return v
}

// typeOfV is the Go type a representation realises to (nil when it has no simple static type).
func typeOfV(v *V) *T {
	switch v.Kind {
	case 't', 'f':
		return TBool
	case 'i':
		return TInt(v.IK)
	case 'd':
		return TFlt(v.IK)
	case 's':
		return TStr
	case 'L':
		return TSlice(v.Ty)
	case 'M':
		return TMap(v.KTy, v.VTy)
	}
	return nil
}

// commonType: the element type all xs realise to, else `any`.
func commonType(xs []*V) *T {
	if len(xs) == 0 {
		return TAny
	}
	t := typeOfV(xs[0])
	if t == nil {
		return TAny
	}
	for _, x := range xs[1:] {
		u := typeOfV(x)
		if u == nil || u.Enc() != t.Enc() {
			return TAny
		}
	}
	return t
}

// ---- deriving representations ------------------------------------------------------------------

type repCtx struct {
	ptrOK    bool // pointer allowed at this node
	valPtrOK bool // pointers allowed at the values of this map (lookup-only map)
	mapSlice bool // MapSlice allowed for this map (lookup / size only)
	bytesOK  bool // []byte allowed for a string here
	widthsOK bool // other numeric widths allowed here
	uniform  bool // all elements of an array get the same representation (uniq)
	noDropIn bool // no drops below this node (the container is printed in Go syntax)
	noDrop   bool
}

var intRanges = [10][2]*big.Int{}

func init() {
	mk := func(lo, hi string) [2]*big.Int {
		a, _ := new(big.Int).SetString(lo, 10)
		b, _ := new(big.Int).SetString(hi, 10)
		return [2]*big.Int{a, b}
	}
	intRanges = [10][2]*big.Int{
		mk("-9223372036854775808", "9223372036854775807"), mk("-128", "127"), mk("-32768", "32767"), mk("-2147483648", "2147483647"), mk("-9223372036854775808", "9223372036854775807"),
		mk("0", "18446744073709551615"), mk("0", "255"), mk("0", "65535"), mk("0", "4294967295"), mk("0", "18446744073709551615"),
	}
}

func repIntFits(k int, n *big.Int) bool {
	return n.Cmp(intRanges[k][0]) >= 0 && n.Cmp(intRanges[k][1]) <= 0
}

func fitsFloat32(v *V) bool {
	f, exact := new(big.Rat).SetFrac(v.Num, v.Den).Float64()
	return exact && float64(float32(f)) == f && !math.IsInf(float64(float32(f)), 0)
}

func widthsHolding(vals []*V) []int {
	var out []int
	for k := 0; k < 10; k++ {
		ok := true
		for _, v := range vals {
			if !repIntFits(k, v.I) {
				ok = false
			}
		}
		if ok {
			out = append(out, k)
		}
	}
	return out
}

type repDeriver struct{ g *RNG }

func (d *repDeriver) scalar(v *V, c repCtx) *V {
	g := d.g
	switch v.Kind {
	case 'i':
		if c.widthsOK && g.Chance(70) {
			ks := widthsHolding([]*V{v})
			return VBig(ks[g.Intn(len(ks))], v.I)
		}
	case 'd':
		if c.widthsOK && g.Chance(50) && fitsFloat32(v) {
			return &V{Kind: 'd', IK: 0, Num: v.Num, Den: v.Den}
		}
	case 's':
		if c.bytesOK && g.Chance(40) {
			return VBytes(v.S)
		}
	}
	return v
}

// derive chooses a representation of the logical value v for a node with context c.
func (d *repDeriver) derive(v *V, c repCtx) *V {
	g := d.g
	var base *V
	switch v.Kind {
	case 'L':
		base = d.array(v, c)
	case 'M':
		base = d.mapv(v, c)
	case 'n':
		if c.ptrOK && g.Chance(15) {
			return VNilPtr()
		}
		base = v
	default:
		base = d.scalar(v, c)
	}
	if base.Kind == 'b' { // a []byte is not wrapped further
		return base
	}
	switch k := g.Intn(100); {
	case k < 22 && !c.noDrop:
		return VDrop(base)
	case k < 40 && c.ptrOK && base.Kind != 'n':
		return VPtr(base)
	}
	return base
}

func (d *repDeriver) array(v *V, c repCtx) *V {
	g := d.g
	ec := repCtx{widthsOK: c.widthsOK, noDrop: c.noDropIn, noDropIn: c.noDropIn}
	n := len(v.Xs)
	kind := byte('L')
	if g.Chance(25) {
		kind = 'A'
	}
	if (c.uniform || g.Chance(45)) && n > 0 {
		// typed: every element gets the same static type
		same := true
		for _, x := range v.Xs {
			if x.Kind != v.Xs[0].Kind && !(x.Kind == 't' && v.Xs[0].Kind == 'f') && !(x.Kind == 'f' && v.Xs[0].Kind == 't') {
				same = false
			}
		}
		if same {
			xs := make([]*V, n)
			var ty *T
			switch v.Xs[0].Kind {
			case 'i':
				k := 0
				if c.widthsOK {
					ks := widthsHolding(v.Xs)
					k = ks[g.Intn(len(ks))]
					if k == 6 { // []uint8 is []byte in Go: a different Liquid value
						k = 7
					}
				}
				for i, x := range v.Xs {
					xs[i] = VBig(k, x.I)
				}
				ty = TInt(k)
			case 'd':
				k := 1
				all32 := true
				for _, x := range v.Xs {
					all32 = all32 && fitsFloat32(x)
				}
				if c.widthsOK && all32 && g.Bool() {
					k = 0
				}
				for i, x := range v.Xs {
					xs[i] = &V{Kind: 'd', IK: k, Num: x.Num, Den: x.Den}
				}
				ty = TFlt(k)
			case 's':
				copy(xs, v.Xs)
				ty = TStr
			case 't', 'f':
				copy(xs, v.Xs)
				ty = TBool
			case 'M':
				for i, x := range v.Xs {
					xs[i] = d.mapv(x, repCtx{noDropIn: c.noDropIn, widthsOK: c.widthsOK})
					if xs[i].VTy.C != 'a' { // keep the element type uniform: []map[string]any
						xs[i] = stripRep(xs[i], "typed")
					}
				}
				ty = TMap(TStr, TAny)
			case 'L':
				for i, x := range v.Xs {
					xs[i] = stripRep(stripRep(d.array(x, ec), "typed"), "array")
				}
				ty = TSlice(TAny)
			}
			if ty != nil && !(c.uniform && !g.Chance(60)) {
				return &V{Kind: kind, Ty: ty, Xs: xs}
			}
			if ty != nil && c.uniform { // same element representation, generic container
				return &V{Kind: kind, Ty: TAny, Xs: xs}
			}
		}
	}
	xs := make([]*V, n)
	for i, x := range v.Xs {
		if c.uniform {
			xs[i] = x
		} else {
			xs[i] = d.derive(x, ec)
		}
	}
	return &V{Kind: kind, Ty: TAny, Xs: xs}
}

func (d *repDeriver) mapv(v *V, c repCtx) *V {
	g := d.g
	vc := repCtx{ptrOK: c.valPtrOK, widthsOK: c.widthsOK, noDrop: c.noDropIn, noDropIn: c.noDropIn}
	kvs := make([][2]*V, len(v.KVs))
	if g.Chance(35) && len(v.KVs) > 0 {
		// typed map: all values of one static type
		vals := make([]*V, len(v.KVs))
		for i, kv := range v.KVs {
			vals[i] = kv[1]
		}
		arr := d.array(VAnys(vals...), repCtx{uniform: true, widthsOK: c.widthsOK, noDropIn: true})
		if arr.Ty.C != 'a' {
			for i, kv := range v.KVs {
				kvs[i] = [2]*V{kv[0], arr.Xs[i]}
			}
			return VMap(TStr, arr.Ty, kvs...)
		}
	}
	for i, kv := range v.KVs {
		kvs[i] = [2]*V{kv[0], d.derive(kv[1], vc)}
	}
	if c.mapSlice && g.Chance(40) {
		return VMapSlice(kvs...)
	}
	return VStrMap(kvs...)
}

// ---- logical environments and statements -------------------------------------------------------

type repVar struct {
	name string
	kind string // int float str bool nil arrI arrF arrS arrM arrO arrA map map2
	val  *V
	ctx  repCtx
}

type repStmt struct {
	id   string // pattern identifier (for deduplication and histograms)
	src  string
	vars []string
	cmp  bool // a comparison / contains / case position (D14 tagging)
}

var repInts = []int64{0, 1, 2, 3, 7, -1, -5, 100, 127, 128, 255, 256, -128, -129, 65535, 70000, 2147483647, 2147483648, 4294967295, 5000000000}
var repFloats = []float64{0.5, 1.5, 2.25, -0.75, 3, 100, -2, 0.125, 1e10, 0.1, 2.5}
var repStrs = []string{"hello", "Hello World", "a,b,c", "", "é!", "x y", "<b>&", "10", "abc", "  pad "}

type repGen struct {
	g     *RNG
	vars  []*repVar
	stmts []repStmt
}

func (t *repGen) lit(v *V) string {
	switch v.Kind {
	case 'i':
		return v.I.String()
	case 'd':
		f, _ := new(big.Rat).SetFrac(v.Num, v.Den).Float64()
		s := fmt.Sprintf("%v", f)
		if !strings.Contains(s, ".") && !strings.Contains(s, "e") {
			s += ".0"
		}
		if strings.Contains(s, "e") {
			s = fmt.Sprintf("%.1f", f)
		}
		return s
	case 's':
		return "\"" + v.S + "\""
	case 't':
		return "true"
	case 'f':
		return "false"
	}
	return "nil"
}

func (t *repGen) numLitNear(v *V) string {
	g := t.g
	if v.Kind == 'i' {
		switch g.Intn(6) {
		case 0:
			return v.I.String()
		case 1:
			return new(big.Int).Add(v.I, big.NewInt(1)).String()
		case 2:
			return new(big.Int).Sub(v.I, big.NewInt(1)).String()
		case 3:
			return g.Pick([]string{"0", "1", "2", "-1"})
		case 4:
			return v.I.String() + ".0"
		default:
			return g.Pick([]string{"2.5", "0.5", "100", "255", "256"})
		}
	}
	if g.Chance(40) {
		return t.lit(v)
	}
	return g.Pick([]string{"0", "1", "2", "0.5", "2.25", "3", "-1", "1.5"})
}

func (t *repGen) add(id, src string, cmp bool, vars ...string) {
	t.stmts = append(t.stmts, repStmt{id: id, src: src, vars: vars, cmp: cmp})
}

func (t *repGen) ofKind(kinds ...string) *repVar {
	var c []*repVar
	for _, v := range t.vars {
		for _, k := range kinds {
			if v.kind == k {
				c = append(c, v)
			}
		}
	}
	if len(c) == 0 {
		return nil
	}
	return c[t.g.Intn(len(c))]
}

func ifElse(cond string) string { return "{% if " + cond + " %}T{% else %}F{% endif %}" }

var cmpOpsAll = []string{"==", "!=", "<", ">", "<=", ">="}

func nonZero(v *V) bool {
	if v.Kind == 'i' {
		return v.I.Sign() != 0
	}
	return v.Num.Sign() != 0
}

// numStmt: a statement about the number x (an expression: a variable, m.k, a loop variable).
func (t *repGen) numStmt(x string, val *V, vars ...string) {
	g := t.g
	switch g.Intn(13) {
	case 0:
		t.add("num-print", "{{ "+x+" }}", false, vars...)
	case 1, 2:
		op := g.Pick(cmpOpsAll)
		t.add("num-cmp-lit"+op, ifElse(x+" "+op+" "+t.numLitNear(val)), true, vars...)
	case 3:
		op := g.Pick(cmpOpsAll)
		t.add("num-cmp-lit-rev"+op, ifElse(t.numLitNear(val)+" "+op+" "+x), true, vars...)
	case 4:
		if y := t.ofKind("int", "float"); y != nil {
			op := g.Pick(cmpOpsAll)
			t.add("num-cmp-var"+op, ifElse(x+" "+op+" "+y.name), true, append(vars, y.name)...)
		}
	case 5:
		f := g.Pick([]string{"plus", "minus", "times"})
		t.add("num-arith-recv-"+f, "{{ "+x+" | "+f+": "+g.Pick([]string{"1", "2", "0.5", "-3", "10"})+" }}", false, vars...)
	case 6:
		f := g.Pick([]string{"plus", "minus", "times"})
		t.add("num-arith-arg-"+f, "{{ "+g.Pick([]string{"1", "7", "2.5", "-4"})+" | "+f+": "+x+" }}", false, vars...)
	case 7:
		f := g.Pick([]string{"divided_by", "modulo"})
		t.add("num-"+f+"-recv", "{{ "+x+" | "+f+": "+g.Pick([]string{"2", "3", "2.0", "-4", "0.5"})+" }}", false, vars...)
	case 8:
		if nonZero(val) {
			f := g.Pick([]string{"divided_by", "modulo"})
			t.add("num-"+f+"-arg", "{{ "+g.Pick([]string{"7", "100", "7.5", "-9"})+" | "+f+": "+x+" }}", false, vars...)
		}
	case 9:
		f := g.Pick([]string{"abs", "round", "ceil", "floor", "round: 1"})
		t.add("num-"+strings.Fields(f)[0], "{{ "+x+" | "+f+" }}", false, vars...)
	case 10:
		t.add("num-cond", "{% if "+x+" %}T{% else %}F{% endif %}{% unless "+x+" %}U{% endunless %}", false, vars...)
	case 11:
		t.add("num-case", "{% case "+x+" %}{% when "+t.numLitNear(val)+" %}A{% when "+t.lit(val)+", 1 %}B{% else %}C{% endcase %}", true, vars...)
	default:
		if y := t.ofKind("int", "float"); y != nil {
			f := g.Pick([]string{"plus", "minus", "times"})
			t.add("num-arith-var-"+f, "{{ "+x+" | "+f+": "+y.name+" }}", false, append(vars, y.name)...)
		}
	}
}

var strFilters0 = []string{"upcase", "downcase", "capitalize", "strip", "lstrip", "rstrip", "escape", "url_encode", "strip_html", "newline_to_br", "strip_newlines", "escape_once"}

// strPrintStmt: x is only printed or passed to a string filter.
func (t *repGen) strPrintStmt(x string, vars ...string) {
	g := t.g
	switch g.Intn(6) {
	case 0:
		t.add("str-print", "[{{ "+x+" }}]", false, vars...)
	case 1, 2:
		f := g.Pick(strFilters0)
		t.add("str-filter-"+f, "{{ "+x+" | "+f+" }}", false, vars...)
	case 3:
		f := g.Pick([]string{"append: \"!\"", "prepend: \"<\"", "replace: \"l\", \"L\"", "remove: \"a\"", "split: \",\" | join: \"+\"", "truncate: 7", "truncatewords: 1", "replace_first: \"a\", \"A\"", "remove_first: \"b\""})
		t.add("str-filter-"+strings.SplitN(f, ":", 2)[0], "{{ "+x+" | "+f+" }}", false, vars...)
	case 4:
		f := g.Pick([]string{"\"pre-\" | append: ", "\"-post\" | prepend: ", "\"a-b-c\" | replace: \"-\", ", "\"a,b\" | split: \",\" | join: "})
		t.add("str-filter-arg", "{{ "+f+x+" }}", false, vars...)
	default:
		t.add("str-print-chain", "{{ "+x+" | upcase | append: \".\" | size }}", false, vars...)
	}
}

func (t *repGen) strGeneralStmt(x string, val *V, vars ...string) {
	g := t.g
	switch g.Intn(8) {
	case 0:
		op := g.Pick(cmpOpsAll)
		t.add("str-cmp"+op, ifElse(x+" "+op+" "+g.Pick([]string{t.lit(val), "\"m\"", "\"\"", "\"hello\""})), true, vars...)
	case 1:
		t.add("str-contains", ifElse(x+" contains "+g.Pick([]string{"\"l\"", "\"e\"", "\"\"", "\"zz\"", "\",\""})), true, vars...)
	case 2:
		t.add("str-needle", ifElse(g.Pick([]string{"\"say hello\"", "\"abc,a,b,c\""})+" contains "+x), true, vars...)
	case 3:
		t.add("str-cond", "{% if "+x+" %}T{% else %}F{% endif %}", false, vars...)
	case 4:
		t.add("str-case", "{% case "+x+" %}{% when "+t.lit(val)+" %}A{% when \"hello\" %}B{% else %}C{% endcase %}", true, vars...)
	case 5:
		// `size` takes any value (array length / rune count / 0): not a string-receiver filter
		t.add("str-size", "{{ "+x+".size }}{{ "+x+" | size }}", false, vars...)
	case 6:
		t.add("str-default", "{{ "+x+" | default: \"dflt\" }}", false, vars...)
	default:
		if y := t.ofKind("str"); y != nil && !y.ctx.bytesOK {
			t.add("str-cmp-var", ifElse(x+" == "+y.name), true, append(vars, y.name)...)
		}
	}
}

func (t *repGen) stmtFor(v *repVar) {
	g := t.g
	x := v.name
	switch v.kind {
	case "int", "float":
		t.numStmt(x, v.val, x)
	case "str":
		if v.ctx.bytesOK || g.Chance(40) {
			t.strPrintStmt(x, x)
		} else {
			t.strGeneralStmt(x, v.val, x)
		}
	case "bool", "nil":
		switch g.Intn(5) {
		case 0:
			t.add("bn-print", "[{{ "+x+" }}]", false, x)
		case 1:
			t.add("bn-cond", "{% if "+x+" %}T{% else %}F{% endif %}", false, x)
		case 2:
			t.add("bn-cmp", ifElse(x+" == "+g.Pick([]string{"true", "false", "nil"})), true, x)
		case 3:
			t.add("bn-default", "{{ "+x+" | default: \"d\" }}", false, x)
		default:
			t.add("bn-and", ifElse(x+" and true")+ifElse(x+" or false"), false, x)
		}
	case "arrI", "arrF", "arrS", "arrM":
		t.arrStmt(v)
	case "arrO":
		switch g.Intn(6) {
		case 0:
			t.add("arrO-loop", "{% for o in "+x+" %}{{ o.name }}:{{ o.n }};{% endfor %}", false, x)
		case 1:
			t.add("arrO-map", "{{ "+x+" | map: \"name\" | join: \",\" }}", false, x)
		case 2:
			t.add("arrO-sort-key", "{{ "+x+" | sort: \"n\" | map: \"name\" | join: \",\" }}", true, x)
		case 3:
			t.add("arrO-index", "{{ "+x+"[0].name }}{{ "+x+".last.n }}{{ "+x+"[1][\"name\"] }}", false, x)
		case 4:
			t.add("arrO-loop-cmp", "{% for o in "+x+" %}{% if o.n > 1 %}{{ o.name }}{% endif %}{% endfor %}", true, x)
		default:
			t.add("arrO-size", "{{ "+x+".size }}{{ "+x+" | size }}{{ "+x+" | map: \"n\" | join }}", false, x)
		}
	case "arrOS":
		switch g.Intn(6) {
		case 0:
			t.add("arrOS-sort-natural-key", "{{ "+x+" | sort_natural: \"name\" | map: \"name\" | join: \",\" }}", false, x)
		case 1:
			t.add("arrOS-sort-key", "{{ "+x+" | sort: \"name\" | map: \"name\" | join: \",\" }}", false, x)
		case 2:
			t.add("arrOS-map", "{{ "+x+" | map: \"tag\" | join: \",\" }}|{{ "+x+" | map: \"tag\" | uniq | size }}", false, x)
		case 3:
			t.add("arrOS-loop", "{% for o in "+x+" %}{{ o.name }}:{{ o.tag | upcase }};{% endfor %}", false, x)
		case 4:
			t.add("arrOS-sort-natural-key-first", "{% assign so = "+x+" | sort_natural: \"tag\" %}{{ so.first.tag }}{{ so.last.tag }}{{ so | size }}", false, x)
		default:
			t.add("arrOS-index-cmp", "{{ "+x+"[0].name }}{% if "+x+"[1].name == \"Bob\" %}B{% endif %}{% if "+x+".last.tag contains \"z\" %}Z{% endif %}", false, x)
		}
	case "arrA":
		switch g.Intn(4) {
		case 0:
			t.add("arrA-loop", "{% for r in "+x+" %}{{ r | join: \"-\" }};{% endfor %}", false, x)
		case 1:
			t.add("arrA-index", "{{ "+x+"[1][0] }}{{ "+x+".first.last }}{{ "+x+"[0].size }}", false, x)
		case 2:
			t.add("arrA-print", "{{ "+x+" }}", false, x)
		default:
			t.add("arrA-nested-loop", "{% for r in "+x+" %}{% for e in r %}{{ e }},{% endfor %}|{% endfor %}", false, x)
		}
	case "map":
		t.mapStmt(v)
	case "map2":
		switch g.Intn(5) {
		case 0:
			t.add("map2-list-index", "{{ "+x+".list[0] }}{{ "+x+".list.size }}{{ "+x+"[\"list\"].last }}", false, x)
		case 1:
			t.add("map2-list-join", "{{ "+x+".list | join: \",\" }}", false, x)
		case 2:
			t.add("map2-inner", "{{ "+x+".inner.k }}{{ "+x+".inner[\"j\"] }}{{ "+x+".inner.size }}", false, x)
		case 3:
			t.add("map2-list-loop", "{% for e in "+x+".list %}<{{ e }}>{% endfor %}", false, x)
		default:
			t.add("map2-cmp", ifElse(x+".inner.k == 1")+ifElse(x+".list contains 2"), true, x)
		}
	}
}

func (t *repGen) arrStmt(v *repVar) {
	g := t.g
	x := v.name
	numeric := v.kind == "arrI" || v.kind == "arrF"
	el := func() *V { return v.val.Xs[g.Intn(len(v.val.Xs))] }
	switch k := g.Intn(16); {
	case k == 0:
		t.add("arr-print", "{{ "+x+" }}", false, x)
	case k == 1:
		t.add("arr-join", "{{ "+x+" | join: \",\" }}", false, x)
	case k == 2:
		f := g.Pick([]string{"first", "last", "size", "reverse | join: \" \"", "sort | join: \" \"", "compact | join", "join"})
		t.add("arr-filter-"+strings.Fields(f)[0], "{{ "+x+" | "+f+" }}", strings.HasPrefix(f, "sort"), x)
	case k == 3 && v.ctx.uniform:
		t.add("arr-uniq", "{{ "+x+" | uniq | join: \",\" }}", false, x)
	case k == 4:
		t.add("arr-index", "{{ "+x+"[0] }}|{{ "+x+"[1] }}|{{ "+x+"[-1] }}|{{ "+x+".first }}|{{ "+x+".last }}|{{ "+x+".size }}|{{ "+x+"[9] }}", false, x)
	case k == 5:
		t.add("arr-loop", "{% for e in "+x+" %}[{{ e }}]{% endfor %}", false, x)
	case k == 6:
		t.add("arr-loop-mods", "{% for e in "+x+" "+g.Pick([]string{"reversed", "limit: 2", "offset: 1", "limit: 1 offset: 1"})+" %}{{ forloop.index }}={{ e }},{% endfor %}", false, x)
	case k == 7 && numeric:
		t.add("arr-loop-arith", "{% for e in "+x+" %}{{ e | plus: 1 }} {{ e | times: 2 }};{% endfor %}", false, x)
	case k == 8 && len(v.val.Xs) > 0:
		op := g.Pick(cmpOpsAll)
		t.add("arr-loop-cmp"+op, "{% for e in "+x+" %}{% if e "+op+" "+t.lit(el())+" %}y{% else %}n{% endif %}{% endfor %}", true, x)
	case k == 9 && len(v.val.Xs) > 0:
		t.add("arr-contains", ifElse(x+" contains "+t.lit(el()))+ifElse(x+" contains "+g.Pick([]string{"99", "\"zz\"", "nil"})), true, x)
	case k == 10:
		if y := t.ofKind(v.kind); y != nil {
			t.add("arr-eq", ifElse(x+" == "+y.name), true, x, y.name)
		}
	case k == 11:
		t.add("arr-cond", "{% if "+x+" %}T{% else %}F{% endif %}{{ "+x+" | default: \"empty\" | size }}", false, x)
	case k == 12:
		if y := t.ofKind("arrI", "arrS", "arrF", "arrM"); y != nil {
			t.add("arr-concat", "{{ "+x+" | concat: "+y.name+" | join: \",\" }}", false, x, y.name)
		}
	case k == 13 && numeric:
		t.add("arr-first-arith", "{{ "+x+" | first | plus: 1 }}{{ "+x+" | last | minus: 1 }}{{ "+x+"[0] | times: 3 }}", false, x)
	case k == 14 && !numeric:
		t.add("arr-join-strfilter", "{{ "+x+" | join: \" \" | upcase }}{{ "+x+" | first | append: \"!\" }}", false, x)
	case k == 15:
		t.add("arr-tablerow", "{% tablerow e in "+x+" cols: 2 %}{{ e }}{% endtablerow %}", false, x)
	default:
		if y := t.ofKind("int", "float", "str"); y != nil && len(v.val.Xs) > 0 && !y.ctx.bytesOK {
			t.add("arr-contains-var", ifElse(x+" contains "+y.name), true, x, y.name)
		}
	}
}

func (t *repGen) mapStmt(v *repVar) {
	g := t.g
	x := v.name
	if len(v.val.KVs) == 0 {
		t.add("map-empty", "{{ "+x+".size }}{{ "+x+".k }}", false, x)
		return
	}
	kv := v.val.KVs[g.Intn(len(v.val.KVs))]
	key, val := kv[0].S, kv[1]
	acc := x + "." + key
	if g.Bool() {
		acc = x + "[\"" + key + "\"]"
	}
	if v.ctx.mapSlice || g.Chance(60) {
		// lookup and size
		switch g.Intn(6) {
		case 0:
			t.add("map-lookup-print", "[{{ "+acc+" }}]", false, x)
		case 1:
			t.add("map-size", "{{ "+x+".size }}", false, x)
		case 2:
			t.add("map-missing", "[{{ "+x+".nokey }}{{ "+x+"[\"zz\"] }}]", false, x)
		case 3:
			t.add("map-lookup-cond", "{% if "+acc+" %}T{% else %}F{% endif %}", false, x)
		default:
			switch val.Kind {
			case 'i', 'd':
				t.numStmt(acc, val, x)
			case 's':
				t.strGeneralStmt(acc, val, x)
			default:
				t.add("map-lookup-default", "{{ "+acc+" | default: \"d\" }}", false, x)
			}
		}
		return
	}
	switch g.Intn(5) {
	case 0:
		t.add("map-loop", "{% for p in "+x+" %}{{ p[0] }}={{ p[1] }};{% endfor %}", false, x)
	case 1:
		t.add("map-contains-key", ifElse(x+" contains \""+key+"\"")+ifElse(x+" contains \"zz\""), true, x)
	case 2:
		t.add("map-cond", "{% if "+x+" %}T{% else %}F{% endif %}", false, x)
	case 3:
		t.add("map-loop-first", "{% for p in "+x+" limit: 1 %}{{ p.first }}:{{ p.last }}{% endfor %}", false, x)
	default:
		t.add("map-size-filter", "{{ "+x+" | size }}", false, x)
	}
}

// genRepCase builds a logical environment and a template of independent statements.
func genRepCase(g *RNG) *repGen {
	t := &repGen{g: g}
	i := func(n int64) *V { return VInt(0, n) }
	rint := func() *V { return i(repInts[g.Intn(len(repInts))]) }
	rsmall := func() *V { return i(int64(g.Intn(9) - 2)) }
	rflt := func() *V { return VFlt(1, repFloats[g.Intn(len(repFloats))]) }
	rstr := func() *V { return VStr(repStrs[g.Intn(len(repStrs))]) }
	add := func(name, kind string, val *V, c repCtx) {
		t.vars = append(t.vars, &repVar{name: name, kind: kind, val: val, ctx: c})
	}
	num := repCtx{ptrOK: true, widthsOK: true}
	add("i1", "int", rint(), num)
	add("i2", "int", rsmall(), num)
	if g.Bool() {
		add("i3", "int", rint(), num)
	}
	add("f1", "float", rflt(), num)
	add("s1", "str", rstr(), repCtx{ptrOK: true, bytesOK: true}) // only printed / string-filtered
	add("s2", "str", rstr(), repCtx{ptrOK: true})
	add("b1", "bool", VBool(g.Bool()), repCtx{ptrOK: true})
	if g.Bool() {
		add("z", "nil", VNil(), repCtx{ptrOK: true})
	}
	arr := func(n int, f func() *V) *V {
		xs := make([]*V, n)
		for k := range xs {
			xs[k] = f()
		}
		return VAnys(xs...)
	}
	add("ai", "arrI", arr(1+g.Intn(4), func() *V {
		if g.Chance(30) {
			return rint()
		}
		return rsmall()
	}), repCtx{ptrOK: true, widthsOK: true, uniform: g.Chance(35)})
	if g.Bool() {
		add("ai2", "arrI", arr(g.Intn(4), rsmall), repCtx{ptrOK: true, widthsOK: true, uniform: g.Chance(35)})
	}
	if g.Bool() {
		add("af", "arrF", arr(1+g.Intn(3), rflt), repCtx{ptrOK: true, widthsOK: true, uniform: g.Chance(35)})
	}
	add("as", "arrS", arr(1+g.Intn(4), rstr), repCtx{ptrOK: true, uniform: g.Chance(35)})
	if g.Bool() {
		add("am", "arrM", arr(1+g.Intn(4), func() *V {
			switch g.Intn(5) {
			case 0:
				return rstr()
			case 1:
				return rflt()
			case 2:
				return VBool(g.Bool())
			case 3:
				return VNil()
			}
			return rsmall()
		}), repCtx{ptrOK: true, widthsOK: true})
	}
	if g.Bool() {
		add("ao", "arrO", arr(2+g.Intn(2), func() *V {
			return VStrMap(SKV("name", VStr(g.Pick([]string{"ann", "bob", "cy", "Di"}))), SKV("n", rsmall()))
		}), repCtx{ptrOK: true, widthsOK: true})
	}
	if g.Bool() {
		// objects whose values are all strings: the typed representation map[string]string fits
		add("aos", "arrOS", arr(2+g.Intn(3), func() *V {
			return VStrMap(SKV("name", VStr(g.Pick([]string{"ann", "Bob", "cy", "Di", "eve", "Al"}))), SKV("tag", VStr(g.Pick([]string{"x", "Y", "z"}))))
		}), repCtx{ptrOK: true})
	}
	if g.Bool() {
		add("aa", "arrA", arr(2+g.Intn(2), func() *V { return arr(1+g.Intn(3), rsmall) }), repCtx{ptrOK: true, widthsOK: true})
	}
	mk := func(n int) *V {
		var kvs [][2]*V
		for k, key := range []string{"k", "j", "name", "q"}[:n] {
			var v *V
			switch (k + g.Intn(3)) % 4 {
			case 0:
				v = rsmall()
			case 1:
				v = rstr()
			case 2:
				v = rflt()
			default:
				v = VBool(g.Bool())
			}
			if g.Chance(10) {
				v = VNil()
			}
			kvs = append(kvs, SKV(key, v))
		}
		return VStrMap(kvs...)
	}
	lookupOnly := g.Chance(50)
	add("m1", "map", mk(g.Intn(5)), repCtx{ptrOK: true, widthsOK: true, valPtrOK: lookupOnly, mapSlice: lookupOnly})
	if g.Bool() {
		add("m3", "map", VStrMap(SKV("k", rsmall()), SKV("j", rsmall()), SKV("q", rint())), repCtx{ptrOK: true, widthsOK: true, valPtrOK: lookupOnly, mapSlice: lookupOnly})
	}
	if g.Bool() {
		add("m2", "map2", VStrMap(SKV("list", arr(1+g.Intn(3), rsmall)), SKV("inner", VStrMap(SKV("k", rsmall()), SKV("j", rstr())))), repCtx{ptrOK: true, widthsOK: true, valPtrOK: true, mapSlice: true})
	}
	n := 6 + g.Intn(10)
	for k := 0; k < n*3 && len(t.stmts) < n; k++ {
		t.stmtFor(t.vars[g.Intn(len(t.vars))])
	}
	return t
}

func (t *repGen) logicalEnv() map[string]*V {
	env := map[string]*V{}
	for _, v := range t.vars {
		env[v.name] = v.val
	}
	return env
}

func (t *repGen) deriveEnv(g *RNG) map[string]*V {
	d := &repDeriver{g: g}
	env := map[string]*V{}
	for _, v := range t.vars {
		env[v.name] = d.derive(v.val, v.ctx)
	}
	return env
}

func (t *repGen) source() string {
	var sb strings.Builder
	for k, s := range t.stmts {
		fmt.Fprintf(&sb, "S%d:%s\n", k, s.src)
	}
	return sb.String()
}

// ---- the stream ----------------------------------------------------------------------------------

func restrictEnv(env map[string]*V, vars []string) map[string]*V {
	out := map[string]*V{}
	for _, k := range vars {
		if v, ok := env[k]; ok {
			out[k] = v
		}
	}
	return out
}

// isolate reports, for an environment whose whole-template result differs from the generic
// one, the statements that differ, each with a minimised representation.
func (t *repGen) isolate(r *Run, gen, env map[string]*V, seen map[string]bool) int {
	found := 0
	for _, s := range t.stmts {
		ge, re := restrictEnv(gen, s.vars), restrictEnv(env, s.vars)
		want := repCanon(renderImpl(engineCfg{}, "", 0, s.src, RealiseEnv(ge)))
		differs := func(e map[string]*V) bool {
			return repCanon(renderImpl(engineCfg{}, "", 0, s.src, RealiseEnv(e))) != want
		}
		if !differs(re) {
			continue
		}
		found++
		// minimise: variables back to generic, then features
		for _, k := range s.vars {
			save := re[k]
			re[k] = ge[k]
			if !differs(re) {
				re[k] = save
			}
		}
		for _, k := range s.vars {
			for _, f := range repFeatures {
				save := re[k]
				re[k] = stripRep(re[k], f)
				if !differs(re) {
					re[k] = save
				}
			}
		}
		feats := map[string]bool{}
		for _, k := range s.vars {
			featuresOf(re[k], feats)
		}
		clause := "rep:" + featList(feats)
		if s.cmp && clause == "rep:unsigned" {
			clause = "unsigned-compare"
		}
		key := clause + "/" + s.id
		if seen[key] {
			continue
		}
		seen[key] = true
		r.Count("violation:" + key)
		got := renderImpl(engineCfg{}, "", 0, s.src, RealiseEnv(re))
		cl := renderCaseLine(engineCfg{}, "", 0, s.src, re)
		r.Violate("C18", clause, cl, fmt.Sprintf("%q with %s: %s ; with the generic %s: %s", s.src, EncEnv(re), resultSummary(got), EncEnv(ge), resultSummary(want)))
	}
	return found
}

// modelFollowsArrayNilPatch: fixes/array-nil-element.patch changes values.Convert (a nil element of
// a fixed array survives the conversion to []any). Until the Lean model of Convert follows that
// patch (corpus/render/array-nil-element.case is the minimal disagreement) the cases that depend
// on it are still run and judged by the oracle but not handed to the model. Set to true then.
const modelFollowsArrayNilPatch = true

func liquidNil(v *V) bool {
	for v.Kind == 'D' || v.Kind == 'P' {
		v = v.In
	}
	return v.Kind == 'n' || v.Kind == 'N'
}

// hasNilInFixedArray: some [N]any array inside v has an element whose Liquid value is nil.
func hasNilInFixedArray(v *V) bool {
	if v == nil {
		return false
	}
	if v.Kind == 'A' && v.Ty.C == 'a' {
		for _, x := range v.Xs {
			if liquidNil(x) {
				return true
			}
		}
	}
	for _, x := range v.Xs {
		if hasNilInFixedArray(x) {
			return true
		}
	}
	for _, kv := range v.KVs {
		if hasNilInFixedArray(kv[1]) {
			return true
		}
	}
	return hasNilInFixedArray(v.In)
}

func repsStream(r *Run) {
	for _, c := range corpusLines("reps") {
		if f := strings.Fields(c); len(f) == 6 && r.Mine() {
			r.Emit(c, replayers["reps"](r, f))
		}
	}
	if r.Shard == 0 {
		repsNestedDropFamily(r)
	}
	n := 5000
	if r.Tier == "thorough" {
		n = 80000
	}
	seen := map[string]bool{}
	for i := 0; i < n; i++ {
		if !r.Mine() {
			continue
		}
		g := NewRNG(r.Seed, fmt.Sprintf("reps-case-%d", i))
		t := genRepCase(g)
		gen := t.logicalEnv()
		for _, s := range t.stmts {
			r.Count("stmt=" + s.id)
		}
		envs := make([]map[string]*V, 5)
		for k := range envs {
			envs[k] = t.deriveEnv(g)
			feats := map[string]bool{}
			for _, v := range envs[k] {
				featuresOf(v, feats)
			}
			for f := range feats {
				r.Count("feature=" + f)
			}
		}
		// The statements are independent, so the template is emitted in two parts: the statements
		// without filters and comparisons, and the others (the parts of the model that a case
		// needs decide whether the model can answer it).
		for part := 0; part < 2; part++ {
			var stmts []repStmt
			for _, st := range t.stmts {
				if st.plain() == (part == 0) {
					stmts = append(stmts, st)
				}
			}
			if len(stmts) == 0 {
				continue
			}
			pt := &repGen{vars: t.vars, stmts: stmts}
			src := pt.source()
			used := map[string]bool{}
			for _, st := range stmts {
				for _, v := range st.vars {
					used[v] = true
				}
			}
			var names []string
			for _, v := range t.vars {
				if used[v.name] {
					names = append(names, v.name)
				}
			}
			genP := restrictEnv(gen, names)
			clGen := renderCaseLine(engineCfg{}, "", 0, src, genP)
			resGen := renderImpl(engineCfg{}, "", 0, src, RealiseEnv(genP))
			r.Emit(clGen, resGen)
			r.Count(fmt.Sprintf("part%d-res=%s", part, resKind(resGen)))
			for k := 0; k < 5; k++ {
				env := restrictEnv(envs[k], names)
				cl := renderCaseLine(engineCfg{}, "", 0, src, env)
				res := renderImpl(engineCfg{}, "", 0, src, RealiseEnv(env))
				if repCanon(res) != repCanon(resGen) {
					if pt.isolate(r, genP, env, seen) == 0 && !seen["whole"] {
						seen["whole"] = true
						feats := map[string]bool{}
						for _, v := range env {
							featuresOf(v, feats)
						}
						r.Violate("C18", "rep:"+featList(feats), cl, fmt.Sprintf("%q: %s ; generic environment: %s (no single statement differs)", src, resultSummary(res), resultSummary(resGen)))
					}
				}
				if !modelFollowsArrayNilPatch {
					pending := false
					for _, v := range env {
						pending = pending || hasNilInFixedArray(v)
					}
					if pending {
						r.Count("oracle-only(model pending array-nil-element)")
						continue
					}
				}
				r.Nontrivial(cl)
				r.Emit(cl, res)
			}
		}
	}
}

// plain: the statement uses neither a filter nor a comparison.
func (s repStmt) plain() bool {
	return !s.cmp && !strings.Contains(s.src, "|") && !strings.Contains(s.src, "tablerow") && !strings.Contains(s.src, " contains ")
}

// repsNestedDropFamily: the places where the whole-template theorem of C18 (run_std_rep_independent_partial)
// needed a side condition, run on the real engine as pairs (representation variant, generic twin) that C18 says
// render alike. Each pair that differs is reported with a fixed case name, so that a deviation that is recorded
// in known_findings.json is printed as KNOWN-FINDING and any other one as a VIOLATION. Implementation only.
func repsNestedDropFamily(r *Run) {
	type pair struct {
		name, src string
		variant   map[string]any
		generic   map[string]any
	}
	d := func(v any) any { return dropV{v} }
	pairs := []pair{
		// a drop inside a map that is printed as a whole (fmt.Sprint shows the drop's Go struct)
		{"drop-in-printed-map", "{{ m }}", map[string]any{"m": map[string]any{"a": d(1)}}, map[string]any{"m": map[string]any{"a": 1}}},
		// a drop inside an array that is converted to a string parameter
		{"drop-in-array-to-string", `{{ a | append: "" }}`, map[string]any{"a": []any{d(1)}}, map[string]any{"a": []any{1}}},
		// a drop that yields a drop, nested in an array, under values.Equal
		{"drop-of-drop-in-array-equal", "{% case a %}{% when b %}eq{% else %}ne{% endcase %}", map[string]any{"a": []any{d(d(1))}, "b": []any{1}}, map[string]any{"a": []any{1}, "b": []any{1}}},
		// uniq compares elements by Go equality of their dynamic types: a typed slice element is not its generic twin
		{"uniq-typed-nested-slice", "{{ a | uniq | size }}", map[string]any{"a": []any{[]int{1}, []any{1}}}, map[string]any{"a": []any{[]any{1}, []any{1}}}},
		// controls that must agree (they do): drops at variables, in arrays under loops, joins, comparisons, typed containers
		{"control-drop-in-array-join", "{{ a | join: ',' }}|{% for x in a %}{{ x }}{% endfor %}|{{ a.first }}", map[string]any{"a": []any{d(1), d("b")}}, map[string]any{"a": []any{1, "b"}}},
		{"control-drop-in-map-lookup", "{{ m.a }}|{% if m.a == 1 %}T{% endif %}|{{ m.a | plus: 1 }}", map[string]any{"m": map[string]any{"a": d(1)}}, map[string]any{"m": map[string]any{"a": 1}}},
		{"control-typed-containers", "{{ a | join: ',' }}|{{ a | reverse | first }}|{{ m.k }}|{{ a | sort | last }}", map[string]any{"a": []int{3, 1, 2}, "m": map[string]int{"k": 7}}, map[string]any{"a": []any{3, 1, 2}, "m": map[string]any{"k": 7}}},
	}
	for _, p := range pairs {
		render := func(b map[string]any) string {
			return guard(func() string {
				out, err := liquid.NewEngine().ParseAndRenderString(p.src, b)
				if err != nil {
					return "err " + err.Error()
				}
				return "ok " + out
			})
		}
		got, want := render(p.variant), render(p.generic)
		r.Count("nested-drop-family")
		if got != want {
			r.Violate("C18", "rep:nested", "reps-nested "+p.name+" "+hexField(p.src),
				fmt.Sprintf("%q renders %q with the representation variant and %q with its generic twin", p.src, got, want))
		}
	}
}
