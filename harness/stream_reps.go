package main

// The `reps` stream (C18): output depends on a binding's Liquid value, not on its Go
// representation.
//
// A case is a LOGICAL environment (generic values only: nil, bool, Go int, float64, string,
// []any, map[string]any) and a template made of independent statements drawn from a restricted
// grammar, so that the generator knows how every variable is used. From the logical environment
// it derives 5 further environments whose representations are chosen independently at every
// node, each only where C18 names it:
//
//   drop       anywhere (variable, array element, map value), at any depth, also inside a container that is
//              printed in Go syntax (`{{ m }}`, an array converted to a string, a joined nested array, the needle
//              of a string `contains`, a sort_natural key); now and then a drop that yields a drop (that yields
//              a drop)
//   pointer    at a variable, and at a map value when the map is only used through property /
//              index lookup
//   typed      typed slices ([]int8, []string, []map[string]any, ...), fixed arrays and
//              string-keyed typed maps, when all elements fit the type; under uniq the arrays nested in an
//              array are typed, generic, fixed or behind drops independently of each other
//   MapSlice   an ordered YAML map, when the template only does lookup / size on that variable
//   width      every integer width that holds the value (unsigned when >= 0); float32 when the
//              float is exactly representable - in print, compare and arithmetic positions; under uniq
//              all scalars of the array get one width (uniq tells int8(1) from 1, by design)
//   []byte     when the string is only printed or passed to a string filter
//
// All six are rendered on the REAL engine and emitted as `render` lines. ORACLE: every derived
// environment gives the result of the generic one (output bytes, or error kind). On a
// difference the stream isolates the statement and minimises the representation (which
// variable, which feature) and reports that minimal case.
//
// Nested drops: the library once printed a drop nested in a map or an array as the Go struct that it is
// (`{{ m }}` with m = {"a": Drop(1)} rendered map[a:{1}]), resolved a drop that yields a drop one level only,
// and let uniq tell []int{1} from []any{1}; the generator kept drops out of those places and a fixed family
// reported the four deviations as known findings. fixes/nested-drops-resolved.patch repaired the library
// (values.ToLiquid to a fixpoint, values.ResolveDrops before every fmt.Sprint, uniq by contents): the generator
// now puts drops there, and the fixed family (repsNestedDropFamily, shard 0, real engine only) is a table of
// (variant, generic twin) rows that must all agree. Not covered, because they show the Go representation by
// design: the filters json, inspect and type.

import (
	"fmt"
	"math"
	"math/big"
	"reflect"
	"sort"
	"strings"
)

func init() {
	streams["reps"] = repsStream
	replayers["reps"] = func(r *Run, f []string) string {
		if len(f) != 6 || f[0] != "render" {
			return "bad-op"
		}
		var line int
		fmt.Sscan(f[3], &line)
		cfg := parseEngineCfg(f[1])
		path, src, env := unhexField(f[2]), unhexField(f[4]), DecEnv(f[5])
		res := renderImpl(cfg, path, line, src, RealiseEnv(env))
		gen := map[string]*V{}
		for k, v := range env {
			gen[k] = stripRep(v, "all")
		}
		if want := renderImpl(cfg, path, line, src, RealiseEnv(gen)); repCanon(want) != repCanon(res) {
			feats := map[string]bool{}
			for _, v := range env {
				featuresOf(v, feats)
			}
			r.Violate("C18", "rep:"+featList(feats), strings.Join(f, " "), fmt.Sprintf("%q: %s ; generic environment: %s", src, resultSummary(res), resultSummary(want)))
		}
		return res
	}
}

// repCanon: output bytes, or the error kind.
func repCanon(res string) string {
	f := strings.Fields(res)
	if len(f) >= 2 && f[0] == "err" {
		return "err " + f[1]
	}
	return res
}

// ---- representation features -----------------------------------------------------------------

// featuresOf collects the representation features used inside v.
func featuresOf(v *V, out map[string]bool) {
	if v == nil {
		return
	}
	switch v.Kind {
	case 'D':
		out["drop"] = true
	case 'P', 'N':
		out["ptr"] = true
	case 'b':
		out["bytes"] = true
	case 'S':
		out["mapslice"] = true
	case 'A':
		out["array"] = true
		if v.Ty.C != 'a' {
			out["typed"] = true
		}
	case 'L':
		if v.Ty.C != 'a' {
			out["typed"] = true
		}
	case 'M':
		if v.VTy.C != 'a' {
			out["typed"] = true
		}
	case 'i':
		if v.IK >= 5 {
			out["unsigned"] = true
		} else if v.IK != 0 {
			out["width"] = true
		}
	case 'd':
		if v.IK == 0 {
			out["float32"] = true
		}
	}
	for _, x := range v.Xs {
		featuresOf(x, out)
	}
	for _, kv := range v.KVs {
		featuresOf(kv[1], out)
	}
	featuresOf(v.In, out)
}

func featList(m map[string]bool) string {
	var ks []string
	for k := range m {
		ks = append(ks, k)
	}
	sort.Strings(ks)
	if len(ks) == 0 {
		return "none"
	}
	return strings.Join(ks, "+")
}

var repFeatures = []string{"drop", "ptr", "array", "typed", "mapslice", "bytes", "unsigned", "width", "float32"}

// stripRep removes one representation feature ("all": every feature) from v, giving the
// generic representation of the same logical value at those nodes.
func stripRep(v *V, feat string) *V {
	all := feat == "all"
	rec := func(x *V) *V { return stripRep(x, feat) }
	switch v.Kind {
	case 'D':
		if all || feat == "drop" {
			return rec(v.In)
		}
		return VDrop(rec(v.In))
	case 'P':
		if all || feat == "ptr" {
			return rec(v.In)
		}
		return VPtr(rec(v.In))
	case 'N':
		if all || feat == "ptr" {
			return VNil()
		}
		return v
	case 'b':
		if all || feat == "bytes" {
			return VStr(v.S)
		}
		return v
	case 'i':
		if all || (feat == "unsigned" && v.IK >= 5) || (feat == "width" && v.IK < 5) {
			return VBig(0, v.I)
		}
		return v
	case 'd':
		if all || feat == "float32" {
			return &V{Kind: 'd', IK: 1, Num: v.Num, Den: v.Den}
		}
		return v
	case 'L', 'A':
		xs := make([]*V, len(v.Xs))
		for i, x := range v.Xs {
			xs[i] = rec(x)
		}
		kind, ty := v.Kind, v.Ty
		if all || feat == "array" {
			kind = 'L'
		}
		if all || feat == "typed" {
			ty = TAny
		} else if ty.C != 'a' {
			ty = commonType(xs)
		}
		return &V{Kind: kind, Ty: ty, Xs: xs}
	case 'M', 'S':
		kvs := make([][2]*V, len(v.KVs))
		for i, kv := range v.KVs {
			kvs[i] = [2]*V{kv[0], rec(kv[1])}
		}
		if v.Kind == 'S' {
			if all || feat == "mapslice" {
				return VStrMap(kvs...)
			}
			return VMapSlice(kvs...)
		}
		vt := v.VTy
		if all || feat == "typed" {
			vt = TAny
		} else if vt.C != 'a' {
			vals := make([]*V, len(kvs))
			for i, kv := range kvs {
				vals[i] = kv[1]
			}
			vt = commonType(vals)
		}
		return VMap(v.KTy, vt, kvs...)
	}
	return v
}

// typeOfV is the Go type a representation realises to (nil when it has no simple static type).
func typeOfV(v *V) *T {
	switch v.Kind {
	case 't', 'f':
		return TBool
	case 'i':
		return TInt(v.IK)
	case 'd':
		return TFlt(v.IK)
	case 's':
		return TStr
	case 'L':
		return TSlice(v.Ty)
	case 'M':
		return TMap(v.KTy, v.VTy)
	}
	return nil
}

// commonType: the element type all xs realise to, else `any`.
func commonType(xs []*V) *T {
	if len(xs) == 0 {
		return TAny
	}
	t := typeOfV(xs[0])
	if t == nil {
		return TAny
	}
	for _, x := range xs[1:] {
		u := typeOfV(x)
		if u == nil || u.Enc() != t.Enc() {
			return TAny
		}
	}
	return t
}

// ---- deriving representations ------------------------------------------------------------------

type repCtx struct {
	ptrOK    bool // pointer allowed at this node
	valPtrOK bool // pointers allowed at the values of this map (lookup-only map)
	mapSlice bool // MapSlice allowed for this map (lookup / size only)
	bytesOK  bool // []byte allowed for a string here
	widthsOK bool // other numeric widths allowed here
	uniform  bool // all scalars of an array get the same width (uniq tells int8(1) from 1); containers and drops vary
}

var intRanges = [10][2]*big.Int{}

func init() {
	mk := func(lo, hi string) [2]*big.Int {
		a, _ := new(big.Int).SetString(lo, 10)
		b, _ := new(big.Int).SetString(hi, 10)
		return [2]*big.Int{a, b}
	}
	intRanges = [10][2]*big.Int{
		mk("-9223372036854775808", "9223372036854775807"), mk("-128", "127"), mk("-32768", "32767"), mk("-2147483648", "2147483647"), mk("-9223372036854775808", "9223372036854775807"),
		mk("0", "18446744073709551615"), mk("0", "255"), mk("0", "65535"), mk("0", "4294967295"), mk("0", "18446744073709551615"),
	}
}

func repIntFits(k int, n *big.Int) bool {
	return n.Cmp(intRanges[k][0]) >= 0 && n.Cmp(intRanges[k][1]) <= 0
}

func fitsFloat32(v *V) bool {
	f, exact := new(big.Rat).SetFrac(v.Num, v.Den).Float64()
	return exact && float64(float32(f)) == f && !math.IsInf(float64(float32(f)), 0)
}

func widthsHolding(vals []*V) []int {
	var out []int
	for k := 0; k < 10; k++ {
		ok := true
		for _, v := range vals {
			if !repIntFits(k, v.I) {
				ok = false
			}
		}
		if ok {
			out = append(out, k)
		}
	}
	return out
}

type repDeriver struct{ g *RNG }

func (d *repDeriver) scalar(v *V, c repCtx) *V {
	g := d.g
	switch v.Kind {
	case 'i':
		if c.widthsOK && g.Chance(70) {
			ks := widthsHolding([]*V{v})
			return VBig(ks[g.Intn(len(ks))], v.I)
		}
	case 'd':
		if c.widthsOK && g.Chance(50) && fitsFloat32(v) {
			return &V{Kind: 'd', IK: 0, Num: v.Num, Den: v.Den}
		}
	case 's':
		if c.bytesOK && g.Chance(40) {
			return VBytes(v.S)
		}
	}
	return v
}

// derive chooses a representation of the logical value v for a node with context c.
func (d *repDeriver) derive(v *V, c repCtx) *V {
	g := d.g
	var base *V
	switch v.Kind {
	case 'L':
		base = d.array(v, c)
	case 'M':
		base = d.mapv(v, c)
	case 'n':
		if c.ptrOK && g.Chance(15) {
			return VNilPtr()
		}
		base = v
	default:
		base = d.scalar(v, c)
	}
	if base.Kind == 'b' { // a []byte is not wrapped further
		return base
	}
	switch k := g.Intn(100); {
	case k < 22:
		// a drop, now and then one that yields a drop (that yields a drop): ToLiquid resolves them all
		switch g.Intn(10) {
		case 0:
			return VDrop(VDrop(VDrop(base)))
		case 1, 2:
			return VDrop(VDrop(base))
		}
		return VDrop(base)
	case k < 40 && c.ptrOK && base.Kind != 'n':
		return VPtr(base)
	}
	return base
}

func (d *repDeriver) array(v *V, c repCtx) *V {
	g := d.g
	ec := repCtx{widthsOK: c.widthsOK}
	n := len(v.Xs)
	kind := byte('L')
	if g.Chance(25) {
		kind = 'A'
	}
	if c.uniform && n > 0 && v.Xs[0].Kind == 'L' {
		// arrays nested in an array under uniq are compared by what they hold, whatever the Go type that holds it:
		// each is derived on its own (typed, generic, fixed, behind drops); the scalars keep the generic width
		xs := make([]*V, n)
		for i, x := range v.Xs {
			xs[i] = d.derive(x, repCtx{})
		}
		return &V{Kind: kind, Ty: TAny, Xs: xs}
	}
	if (c.uniform || g.Chance(45)) && n > 0 {
		// typed: every element gets the same static type
		same := true
		for _, x := range v.Xs {
			if x.Kind != v.Xs[0].Kind && !(x.Kind == 't' && v.Xs[0].Kind == 'f') && !(x.Kind == 'f' && v.Xs[0].Kind == 't') {
				same = false
			}
		}
		if same {
			xs := make([]*V, n)
			var ty *T
			switch v.Xs[0].Kind {
			case 'i':
				k := 0
				if c.widthsOK {
					ks := widthsHolding(v.Xs)
					k = ks[g.Intn(len(ks))]
					if k == 6 { // []uint8 is []byte in Go: a different Liquid value
						k = 7
					}
				}
				for i, x := range v.Xs {
					xs[i] = VBig(k, x.I)
				}
				ty = TInt(k)
			case 'd':
				k := 1
				all32 := true
				for _, x := range v.Xs {
					all32 = all32 && fitsFloat32(x)
				}
				if c.widthsOK && all32 && g.Bool() {
					k = 0
				}
				for i, x := range v.Xs {
					xs[i] = &V{Kind: 'd', IK: k, Num: x.Num, Den: x.Den}
				}
				ty = TFlt(k)
			case 's':
				copy(xs, v.Xs)
				ty = TStr
			case 't', 'f':
				copy(xs, v.Xs)
				ty = TBool
			case 'M':
				for i, x := range v.Xs {
					xs[i] = d.mapv(x, repCtx{widthsOK: c.widthsOK})
					if xs[i].VTy.C != 'a' { // keep the element type uniform: []map[string]any
						xs[i] = stripRep(xs[i], "typed")
					}
				}
				ty = TMap(TStr, TAny)
			case 'L':
				for i, x := range v.Xs {
					xs[i] = stripRep(stripRep(d.array(x, ec), "typed"), "array")
				}
				ty = TSlice(TAny)
			}
			if ty != nil && !(c.uniform && !g.Chance(60)) {
				return &V{Kind: kind, Ty: ty, Xs: xs}
			}
			if ty != nil && c.uniform { // same scalar representation, generic container: an element may be a drop
				for i := range xs {
					xs[i] = d.dropSome(xs[i])
				}
				return &V{Kind: kind, Ty: TAny, Xs: xs}
			}
		}
	}
	xs := make([]*V, n)
	for i, x := range v.Xs {
		if c.uniform {
			xs[i] = d.dropSome(x)
		} else {
			xs[i] = d.derive(x, ec)
		}
	}
	return &V{Kind: kind, Ty: TAny, Xs: xs}
}

// dropSome wraps a value in a drop (or a drop of a drop) now and then.
func (d *repDeriver) dropSome(v *V) *V {
	switch k := d.g.Intn(100); {
	case k < 5:
		return VDrop(VDrop(v))
	case k < 22:
		return VDrop(v)
	}
	return v
}

func (d *repDeriver) mapv(v *V, c repCtx) *V {
	g := d.g
	vc := repCtx{ptrOK: c.valPtrOK, widthsOK: c.widthsOK}
	kvs := make([][2]*V, len(v.KVs))
	if g.Chance(35) && len(v.KVs) > 0 {
		// typed map: all values of one static type
		vals := make([]*V, len(v.KVs))
		for i, kv := range v.KVs {
			vals[i] = kv[1]
		}
		arr := d.array(VAnys(vals...), repCtx{uniform: true, widthsOK: c.widthsOK})
		if arr.Ty.C != 'a' {
			for i, kv := range v.KVs {
				kvs[i] = [2]*V{kv[0], arr.Xs[i]}
			}
			return VMap(TStr, arr.Ty, kvs...)
		}
	}
	for i, kv := range v.KVs {
		kvs[i] = [2]*V{kv[0], d.derive(kv[1], vc)}
	}
	if c.mapSlice && g.Chance(40) {
		return VMapSlice(kvs...)
	}
	return VStrMap(kvs...)
}

// ---- logical environments and statements -------------------------------------------------------

type repVar struct {
	name string
	kind string // int float str bool nil arrI arrF arrS arrM arrO arrA map map2
	val  *V
	ctx  repCtx
}

type repStmt struct {
	id   string // pattern identifier (for deduplication and histograms)
	src  string
	vars []string
	cmp  bool // a comparison / contains / case position (D14 tagging)
}

var repInts = []int64{0, 1, 2, 3, 7, -1, -5, 100, 127, 128, 255, 256, -128, -129, 65535, 70000, 2147483647, 2147483648, 4294967295, 5000000000}
var repFloats = []float64{0.5, 1.5, 2.25, -0.75, 3, 100, -2, 0.125, 1e10, 0.1, 2.5}
var repStrs = []string{"hello", "Hello World", "a,b,c", "", "é!", "x y", "<b>&", "10", "abc", "  pad "}

type repGen struct {
	g     *RNG
	vars  []*repVar
	stmts []repStmt
}

func (t *repGen) lit(v *V) string {
	switch v.Kind {
	case 'i':
		return v.I.String()
	case 'd':
		f, _ := new(big.Rat).SetFrac(v.Num, v.Den).Float64()
		s := fmt.Sprintf("%v", f)
		if !strings.Contains(s, ".") && !strings.Contains(s, "e") {
			s += ".0"
		}
		if strings.Contains(s, "e") {
			s = fmt.Sprintf("%.1f", f)
		}
		return s
	case 's':
		return "\"" + v.S + "\""
	case 't':
		return "true"
	case 'f':
		return "false"
	}
	return "nil"
}

func (t *repGen) numLitNear(v *V) string {
	g := t.g
	if v.Kind == 'i' {
		switch g.Intn(6) {
		case 0:
			return v.I.String()
		case 1:
			return new(big.Int).Add(v.I, big.NewInt(1)).String()
		case 2:
			return new(big.Int).Sub(v.I, big.NewInt(1)).String()
		case 3:
			return g.Pick([]string{"0", "1", "2", "-1"})
		case 4:
			return v.I.String() + ".0"
		default:
			return g.Pick([]string{"2.5", "0.5", "100", "255", "256"})
		}
	}
	if g.Chance(40) {
		return t.lit(v)
	}
	return g.Pick([]string{"0", "1", "2", "0.5", "2.25", "3", "-1", "1.5"})
}

func (t *repGen) add(id, src string, cmp bool, vars ...string) {
	t.stmts = append(t.stmts, repStmt{id: id, src: src, vars: vars, cmp: cmp})
}

func (t *repGen) ofKind(kinds ...string) *repVar {
	var c []*repVar
	for _, v := range t.vars {
		for _, k := range kinds {
			if v.kind == k {
				c = append(c, v)
			}
		}
	}
	if len(c) == 0 {
		return nil
	}
	return c[t.g.Intn(len(c))]
}

func ifElse(cond string) string { return "{% if " + cond + " %}T{% else %}F{% endif %}" }

var cmpOpsAll = []string{"==", "!=", "<", ">", "<=", ">="}

func nonZero(v *V) bool {
	if v.Kind == 'i' {
		return v.I.Sign() != 0
	}
	return v.Num.Sign() != 0
}

// numStmt: a statement about the number x (an expression: a variable, m.k, a loop variable).
func (t *repGen) numStmt(x string, val *V, vars ...string) {
	g := t.g
	switch g.Intn(13) {
	case 0:
		t.add("num-print", "{{ "+x+" }}", false, vars...)
	case 1, 2:
		op := g.Pick(cmpOpsAll)
		t.add("num-cmp-lit"+op, ifElse(x+" "+op+" "+t.numLitNear(val)), true, vars...)
	case 3:
		op := g.Pick(cmpOpsAll)
		t.add("num-cmp-lit-rev"+op, ifElse(t.numLitNear(val)+" "+op+" "+x), true, vars...)
	case 4:
		if y := t.ofKind("int", "float"); y != nil {
			op := g.Pick(cmpOpsAll)
			t.add("num-cmp-var"+op, ifElse(x+" "+op+" "+y.name), true, append(vars, y.name)...)
		}
	case 5:
		f := g.Pick([]string{"plus", "minus", "times"})
		t.add("num-arith-recv-"+f, "{{ "+x+" | "+f+": "+g.Pick([]string{"1", "2", "0.5", "-3", "10"})+" }}", false, vars...)
	case 6:
		f := g.Pick([]string{"plus", "minus", "times"})
		t.add("num-arith-arg-"+f, "{{ "+g.Pick([]string{"1", "7", "2.5", "-4"})+" | "+f+": "+x+" }}", false, vars...)
	case 7:
		f := g.Pick([]string{"divided_by", "modulo"})
		t.add("num-"+f+"-recv", "{{ "+x+" | "+f+": "+g.Pick([]string{"2", "3", "2.0", "-4", "0.5"})+" }}", false, vars...)
	case 8:
		if nonZero(val) {
			f := g.Pick([]string{"divided_by", "modulo"})
			t.add("num-"+f+"-arg", "{{ "+g.Pick([]string{"7", "100", "7.5", "-9"})+" | "+f+": "+x+" }}", false, vars...)
		}
	case 9:
		f := g.Pick([]string{"abs", "round", "ceil", "floor", "round: 1"})
		t.add("num-"+strings.Fields(f)[0], "{{ "+x+" | "+f+" }}", false, vars...)
	case 10:
		t.add("num-cond", "{% if "+x+" %}T{% else %}F{% endif %}{% unless "+x+" %}U{% endunless %}", false, vars...)
	case 11:
		t.add("num-case", "{% case "+x+" %}{% when "+t.numLitNear(val)+" %}A{% when "+t.lit(val)+", 1 %}B{% else %}C{% endcase %}", true, vars...)
	default:
		if y := t.ofKind("int", "float"); y != nil {
			f := g.Pick([]string{"plus", "minus", "times"})
			t.add("num-arith-var-"+f, "{{ "+x+" | "+f+": "+y.name+" }}", false, append(vars, y.name)...)
		}
	}
}

var strFilters0 = []string{"upcase", "downcase", "capitalize", "strip", "lstrip", "rstrip", "escape", "url_encode", "strip_html", "newline_to_br", "strip_newlines", "escape_once"}

// strPrintStmt: x is only printed or passed to a string filter.
func (t *repGen) strPrintStmt(x string, vars ...string) {
	g := t.g
	switch g.Intn(6) {
	case 0:
		t.add("str-print", "[{{ "+x+" }}]", false, vars...)
	case 1, 2:
		f := g.Pick(strFilters0)
		t.add("str-filter-"+f, "{{ "+x+" | "+f+" }}", false, vars...)
	case 3:
		f := g.Pick([]string{"append: \"!\"", "prepend: \"<\"", "replace: \"l\", \"L\"", "remove: \"a\"", "split: \",\" | join: \"+\"", "truncate: 7", "truncatewords: 1", "replace_first: \"a\", \"A\"", "remove_first: \"b\""})
		t.add("str-filter-"+strings.SplitN(f, ":", 2)[0], "{{ "+x+" | "+f+" }}", false, vars...)
	case 4:
		f := g.Pick([]string{"\"pre-\" | append: ", "\"-post\" | prepend: ", "\"a-b-c\" | replace: \"-\", ", "\"a,b\" | split: \",\" | join: "})
		t.add("str-filter-arg", "{{ "+f+x+" }}", false, vars...)
	default:
		t.add("str-print-chain", "{{ "+x+" | upcase | append: \".\" | size }}", false, vars...)
	}
}

func (t *repGen) strGeneralStmt(x string, val *V, vars ...string) {
	g := t.g
	switch g.Intn(8) {
	case 0:
		op := g.Pick(cmpOpsAll)
		t.add("str-cmp"+op, ifElse(x+" "+op+" "+g.Pick([]string{t.lit(val), "\"m\"", "\"\"", "\"hello\""})), true, vars...)
	case 1:
		t.add("str-contains", ifElse(x+" contains "+g.Pick([]string{"\"l\"", "\"e\"", "\"\"", "\"zz\"", "\",\""})), true, vars...)
	case 2:
		t.add("str-needle", ifElse(g.Pick([]string{"\"say hello\"", "\"abc,a,b,c\""})+" contains "+x), true, vars...)
	case 3:
		t.add("str-cond", "{% if "+x+" %}T{% else %}F{% endif %}", false, vars...)
	case 4:
		t.add("str-case", "{% case "+x+" %}{% when "+t.lit(val)+" %}A{% when \"hello\" %}B{% else %}C{% endcase %}", true, vars...)
	case 5:
		// `size` takes any value (array length / rune count / 0): not a string-receiver filter
		t.add("str-size", "{{ "+x+".size }}{{ "+x+" | size }}", false, vars...)
	case 6:
		t.add("str-default", "{{ "+x+" | default: \"dflt\" }}", false, vars...)
	default:
		if y := t.ofKind("str"); y != nil && !y.ctx.bytesOK {
			t.add("str-cmp-var", ifElse(x+" == "+y.name), true, append(vars, y.name)...)
		}
	}
}

func (t *repGen) stmtFor(v *repVar) {
	g := t.g
	x := v.name
	switch v.kind {
	case "int", "float":
		t.numStmt(x, v.val, x)
	case "str":
		if v.ctx.bytesOK || g.Chance(40) {
			t.strPrintStmt(x, x)
		} else {
			t.strGeneralStmt(x, v.val, x)
		}
	case "bool", "nil":
		switch g.Intn(5) {
		case 0:
			t.add("bn-print", "[{{ "+x+" }}]", false, x)
		case 1:
			t.add("bn-cond", "{% if "+x+" %}T{% else %}F{% endif %}", false, x)
		case 2:
			t.add("bn-cmp", ifElse(x+" == "+g.Pick([]string{"true", "false", "nil"})), true, x)
		case 3:
			t.add("bn-default", "{{ "+x+" | default: \"d\" }}", false, x)
		default:
			t.add("bn-and", ifElse(x+" and true")+ifElse(x+" or false"), false, x)
		}
	case "arrI", "arrF", "arrS", "arrM":
		t.arrStmt(v)
	case "arrO":
		switch g.Intn(6) {
		case 0:
			t.add("arrO-loop", "{% for o in "+x+" %}{{ o.name }}:{{ o.n }};{% endfor %}", false, x)
		case 1:
			t.add("arrO-map", "{{ "+x+" | map: \"name\" | join: \",\" }}", false, x)
		case 2:
			t.add("arrO-sort-key", "{{ "+x+" | sort: \"n\" | map: \"name\" | join: \",\" }}", true, x)
		case 3:
			t.add("arrO-index", "{{ "+x+"[0].name }}{{ "+x+".last.n }}{{ "+x+"[1][\"name\"] }}", false, x)
		case 4:
			t.add("arrO-loop-cmp", "{% for o in "+x+" %}{% if o.n > 1 %}{{ o.name }}{% endif %}{% endfor %}", true, x)
		default:
			t.add("arrO-size", "{{ "+x+".size }}{{ "+x+" | size }}{{ "+x+" | map: \"n\" | join }}", false, x)
		}
	case "arrOS":
		switch g.Intn(6) {
		case 0:
			t.add("arrOS-sort-natural-key", "{{ "+x+" | sort_natural: \"name\" | map: \"name\" | join: \",\" }}", false, x)
		case 1:
			t.add("arrOS-sort-key", "{{ "+x+" | sort: \"name\" | map: \"name\" | join: \",\" }}", false, x)
		case 2:
			t.add("arrOS-map", "{{ "+x+" | map: \"tag\" | join: \",\" }}|{{ "+x+" | map: \"tag\" | uniq | size }}", false, x)
		case 3:
			t.add("arrOS-loop", "{% for o in "+x+" %}{{ o.name }}:{{ o.tag | upcase }};{% endfor %}", false, x)
		case 4:
			t.add("arrOS-sort-natural-key-first", "{% assign so = "+x+" | sort_natural: \"tag\" %}{{ so.first.tag }}{{ so.last.tag }}{{ so | size }}", false, x)
		default:
			t.add("arrOS-index-cmp", "{{ "+x+"[0].name }}{% if "+x+"[1].name == \"Bob\" %}B{% endif %}{% if "+x+".last.tag contains \"z\" %}Z{% endif %}", false, x)
		}
	case "arrA":
		switch k := g.Intn(10); {
		case k < 4:
			t.arrAStmt(v)
		case k == 4:
			// the inner arrays are printed in Go syntax (fmt.Sprint), with the drops inside them resolved
			t.add("arrA-join", "{{ "+x+" | join: \";\" }}", false, x)
		case k == 5:
			t.add("arrA-to-string", "{{ "+x+" | append: \"\" }}|{{ \"<\" | append: "+x+" }}", false, x)
		case k == 6:
			t.add("arrA-sort-natural", "{{ "+x+" | sort_natural | join: \";\" }}", false, x)
		case k == 7:
			t.add("arrA-needle", ifElse(t.goLit(v.val)+" contains "+x)+ifElse(t.goLit(v.val)+" contains "+x+"[0]")+ifElse("\"[[]]\" contains "+x+".last"), true, x)
		case k == 8 && v.ctx.uniform:
			t.add("arrA-uniq", "{{ "+x+" | uniq | size }}|{{ "+x+" | uniq | join: \";\" }}", false, x)
		case k == 9:
			t.add("arrA-eq", ifElse(x+"[0] == "+x+".last")+ifElse(x+" contains "+x+"[0]")+"{% case "+x+"[0] %}{% when "+x+"[1] %}A{% else %}B{% endcase %}", true, x)
		}
	case "mapP":
		// a map with containers inside that is printed, as a whole and in parts
		switch g.Intn(8) {
		case 0:
			t.add("mapP-print", "{{ "+x+" }}", false, x)
		case 1:
			t.add("mapP-to-string", "{{ "+x+" | append: \"\" }}", false, x)
		case 2:
			t.add("mapP-loop", "{% for p in "+x+" %}{{ p[0] }}={{ p[1] }};{% endfor %}", false, x)
		case 3:
			t.add("mapP-join", "{{ "+x+" | join: \";\" }}", false, x)
		case 4:
			t.add("mapP-parts", "{{ "+x+".inner }}|{{ "+x+".list }}|{{ "+x+".rows }}|{{ "+x+"[\"inner\"].k }}{{ "+x+".rows[0][0] }}", false, x)
		case 5:
			t.add("mapP-needle", ifElse(t.goLit(v.val)+" contains "+x)+ifElse(t.goLit(v.val)+" contains "+x+".inner")+ifElse(t.goLit(v.val)+" contains "+x+".rows"), true, x)
		case 6:
			t.add("mapP-parts-to-string", "{{ "+x+".inner | append: \"\" }}|{{ "+x+".rows | join: \";\" }}|{{ "+x+".list | append: \"\" }}", false, x)
		default:
			t.add("mapP-eq", ifElse(x+".rows[0] == "+x+".list")+ifElse(x+".rows contains "+x+".list")+ifElse(x+" == "+x), true, x)
		}
	case "map":
		t.mapStmt(v)
	case "map2":
		switch g.Intn(5) {
		case 0:
			t.add("map2-list-index", "{{ "+x+".list[0] }}{{ "+x+".list.size }}{{ "+x+"[\"list\"].last }}", false, x)
		case 1:
			t.add("map2-list-join", "{{ "+x+".list | join: \",\" }}", false, x)
		case 2:
			t.add("map2-inner", "{{ "+x+".inner.k }}{{ "+x+".inner[\"j\"] }}{{ "+x+".inner.size }}", false, x)
		case 3:
			t.add("map2-list-loop", "{% for e in "+x+".list %}<{{ e }}>{% endfor %}", false, x)
		default:
			t.add("map2-cmp", ifElse(x+".inner.k == 1")+ifElse(x+".list contains 2"), true, x)
		}
	}
}

func (t *repGen) arrAStmt(v *repVar) {
	x := v.name
	switch t.g.Intn(4) {
	case 0:
		t.add("arrA-loop", "{% for r in "+x+" %}{{ r | join: \"-\" }};{% endfor %}", false, x)
	case 1:
		t.add("arrA-index", "{{ "+x+"[1][0] }}{{ "+x+".first.last }}{{ "+x+"[0].size }}", false, x)
	case 2:
		t.add("arrA-print", "{{ "+x+" }}", false, x)
	default:
		t.add("arrA-nested-loop", "{% for r in "+x+" %}{% for e in r %}{{ e }},{% endfor %}|{% endfor %}", false, x)
	}
}

// goLit: a string literal that holds what the (generic) value prints as in Go syntax, the text that a container
// converted to a string gives.
func (t *repGen) goLit(v *V) string { return "\"<" + fmt.Sprint(v.Realise()) + ">\"" }

func (t *repGen) arrStmt(v *repVar) {
	g := t.g
	x := v.name
	numeric := v.kind == "arrI" || v.kind == "arrF"
	el := func() *V { return v.val.Xs[g.Intn(len(v.val.Xs))] }
	switch k := g.Intn(19); {
	case k == 16:
		// the array converted to a string is printed in Go syntax (fmt.Sprint), with the drops inside it resolved
		t.add("arr-to-string", "{{ "+x+" | append: \"\" }}|{{ \"<\" | append: "+x+" }}", false, x)
	case k == 17:
		t.add("arr-needle", ifElse(t.goLit(v.val)+" contains "+x), true, x)
	case k == 18:
		t.add("arr-sort-natural", "{{ "+x+" | sort_natural | join: \",\" }}", false, x)
	case k == 0:
		t.add("arr-print", "{{ "+x+" }}", false, x)
	case k == 1:
		t.add("arr-join", "{{ "+x+" | join: \",\" }}", false, x)
	case k == 2:
		f := g.Pick([]string{"first", "last", "size", "reverse | join: \" \"", "sort | join: \" \"", "compact | join", "join"})
		t.add("arr-filter-"+strings.Fields(f)[0], "{{ "+x+" | "+f+" }}", strings.HasPrefix(f, "sort"), x)
	case k == 3 && v.ctx.uniform:
		t.add("arr-uniq", "{{ "+x+" | uniq | join: \",\" }}", false, x)
	case k == 4:
		t.add("arr-index", "{{ "+x+"[0] }}|{{ "+x+"[1] }}|{{ "+x+"[-1] }}|{{ "+x+".first }}|{{ "+x+".last }}|{{ "+x+".size }}|{{ "+x+"[9] }}", false, x)
	case k == 5:
		t.add("arr-loop", "{% for e in "+x+" %}[{{ e }}]{% endfor %}", false, x)
	case k == 6:
		t.add("arr-loop-mods", "{% for e in "+x+" "+g.Pick([]string{"reversed", "limit: 2", "offset: 1", "limit: 1 offset: 1"})+" %}{{ forloop.index }}={{ e }},{% endfor %}", false, x)
	case k == 7 && numeric:
		t.add("arr-loop-arith", "{% for e in "+x+" %}{{ e | plus: 1 }} {{ e | times: 2 }};{% endfor %}", false, x)
	case k == 8 && len(v.val.Xs) > 0:
		op := g.Pick(cmpOpsAll)
		t.add("arr-loop-cmp"+op, "{% for e in "+x+" %}{% if e "+op+" "+t.lit(el())+" %}y{% else %}n{% endif %}{% endfor %}", true, x)
	case k == 9 && len(v.val.Xs) > 0:
		t.add("arr-contains", ifElse(x+" contains "+t.lit(el()))+ifElse(x+" contains "+g.Pick([]string{"99", "\"zz\"", "nil"})), true, x)
	case k == 10:
		if y := t.ofKind(v.kind); y != nil {
			t.add("arr-eq", ifElse(x+" == "+y.name), true, x, y.name)
		}
	case k == 11:
		t.add("arr-cond", "{% if "+x+" %}T{% else %}F{% endif %}{{ "+x+" | default: \"empty\" | size }}", false, x)
	case k == 12:
		if y := t.ofKind("arrI", "arrS", "arrF", "arrM"); y != nil {
			t.add("arr-concat", "{{ "+x+" | concat: "+y.name+" | join: \",\" }}", false, x, y.name)
		}
	case k == 13 && numeric:
		t.add("arr-first-arith", "{{ "+x+" | first | plus: 1 }}{{ "+x+" | last | minus: 1 }}{{ "+x+"[0] | times: 3 }}", false, x)
	case k == 14 && !numeric:
		t.add("arr-join-strfilter", "{{ "+x+" | join: \" \" | upcase }}{{ "+x+" | first | append: \"!\" }}", false, x)
	case k == 15:
		t.add("arr-tablerow", "{% tablerow e in "+x+" cols: 2 %}{{ e }}{% endtablerow %}", false, x)
	default:
		if y := t.ofKind("int", "float", "str"); y != nil && len(v.val.Xs) > 0 && !y.ctx.bytesOK {
			t.add("arr-contains-var", ifElse(x+" contains "+y.name), true, x, y.name)
		}
	}
}

func (t *repGen) mapStmt(v *repVar) {
	g := t.g
	x := v.name
	if len(v.val.KVs) == 0 {
		t.add("map-empty", "{{ "+x+".size }}{{ "+x+".k }}", false, x)
		return
	}
	kv := v.val.KVs[g.Intn(len(v.val.KVs))]
	key, val := kv[0].S, kv[1]
	acc := x + "." + key
	if g.Bool() {
		acc = x + "[\"" + key + "\"]"
	}
	if v.ctx.mapSlice || g.Chance(60) {
		// lookup and size
		switch g.Intn(6) {
		case 0:
			t.add("map-lookup-print", "[{{ "+acc+" }}]", false, x)
		case 1:
			t.add("map-size", "{{ "+x+".size }}", false, x)
		case 2:
			t.add("map-missing", "[{{ "+x+".nokey }}{{ "+x+"[\"zz\"] }}]", false, x)
		case 3:
			t.add("map-lookup-cond", "{% if "+acc+" %}T{% else %}F{% endif %}", false, x)
		default:
			switch val.Kind {
			case 'i', 'd':
				t.numStmt(acc, val, x)
			case 's':
				t.strGeneralStmt(acc, val, x)
			default:
				t.add("map-lookup-default", "{{ "+acc+" | default: \"d\" }}", false, x)
			}
		}
		return
	}
	switch g.Intn(8) {
	case 5:
		// the map is printed in Go syntax (fmt.Sprint), with the drops inside it resolved
		t.add("map-print", "{{ "+x+" }}", false, x)
	case 6:
		t.add("map-to-string", "{{ "+x+" | append: \"\" }}|{{ "+x+" | join: \",\" }}", false, x)
	case 7:
		t.add("map-needle", ifElse(t.goLit(v.val)+" contains "+x), true, x)
	case 0:
		t.add("map-loop", "{% for p in "+x+" %}{{ p[0] }}={{ p[1] }};{% endfor %}", false, x)
	case 1:
		t.add("map-contains-key", ifElse(x+" contains \""+key+"\"")+ifElse(x+" contains \"zz\""), true, x)
	case 2:
		t.add("map-cond", "{% if "+x+" %}T{% else %}F{% endif %}", false, x)
	case 3:
		t.add("map-loop-first", "{% for p in "+x+" limit: 1 %}{{ p.first }}:{{ p.last }}{% endfor %}", false, x)
	default:
		t.add("map-size-filter", "{{ "+x+" | size }}", false, x)
	}
}

// genRepCase builds a logical environment and a template of independent statements.
func genRepCase(g *RNG) *repGen {
	t := &repGen{g: g}
	i := func(n int64) *V { return VInt(0, n) }
	rint := func() *V { return i(repInts[g.Intn(len(repInts))]) }
	rsmall := func() *V { return i(int64(g.Intn(9) - 2)) }
	rflt := func() *V { return VFlt(1, repFloats[g.Intn(len(repFloats))]) }
	rstr := func() *V { return VStr(repStrs[g.Intn(len(repStrs))]) }
	add := func(name, kind string, val *V, c repCtx) {
		t.vars = append(t.vars, &repVar{name: name, kind: kind, val: val, ctx: c})
	}
	num := repCtx{ptrOK: true, widthsOK: true}
	add("i1", "int", rint(), num)
	add("i2", "int", rsmall(), num)
	if g.Bool() {
		add("i3", "int", rint(), num)
	}
	add("f1", "float", rflt(), num)
	add("s1", "str", rstr(), repCtx{ptrOK: true, bytesOK: true}) // only printed / string-filtered
	add("s2", "str", rstr(), repCtx{ptrOK: true})
	add("b1", "bool", VBool(g.Bool()), repCtx{ptrOK: true})
	if g.Bool() {
		add("z", "nil", VNil(), repCtx{ptrOK: true})
	}
	arr := func(n int, f func() *V) *V {
		xs := make([]*V, n)
		for k := range xs {
			xs[k] = f()
		}
		return VAnys(xs...)
	}
	add("ai", "arrI", arr(1+g.Intn(4), func() *V {
		if g.Chance(30) {
			return rint()
		}
		return rsmall()
	}), repCtx{ptrOK: true, widthsOK: true, uniform: g.Chance(35)})
	if g.Bool() {
		add("ai2", "arrI", arr(g.Intn(4), rsmall), repCtx{ptrOK: true, widthsOK: true, uniform: g.Chance(35)})
	}
	if g.Bool() {
		add("af", "arrF", arr(1+g.Intn(3), rflt), repCtx{ptrOK: true, widthsOK: true, uniform: g.Chance(35)})
	}
	add("as", "arrS", arr(1+g.Intn(4), rstr), repCtx{ptrOK: true, uniform: g.Chance(35)})
	if g.Bool() {
		add("am", "arrM", arr(1+g.Intn(4), func() *V {
			switch g.Intn(5) {
			case 0:
				return rstr()
			case 1:
				return rflt()
			case 2:
				return VBool(g.Bool())
			case 3:
				return VNil()
			}
			return rsmall()
		}), repCtx{ptrOK: true, widthsOK: true})
	}
	if g.Bool() {
		add("ao", "arrO", arr(2+g.Intn(2), func() *V {
			return VStrMap(SKV("name", VStr(g.Pick([]string{"ann", "bob", "cy", "Di"}))), SKV("n", rsmall()))
		}), repCtx{ptrOK: true, widthsOK: true})
	}
	if g.Bool() {
		// objects whose values are all strings: the typed representation map[string]string fits
		add("aos", "arrOS", arr(2+g.Intn(3), func() *V {
			return VStrMap(SKV("name", VStr(g.Pick([]string{"ann", "Bob", "cy", "Di", "eve", "Al"}))), SKV("tag", VStr(g.Pick([]string{"x", "Y", "z"}))))
		}), repCtx{ptrOK: true})
	}
	if g.Bool() {
		aa := arr(2+g.Intn(2), func() *V { return arr(1+g.Intn(3), rsmall) })
		if g.Chance(40) { // an inner array twice, for uniq
			aa.Xs[len(aa.Xs)-1] = aa.Xs[0]
		}
		add("aa", "arrA", aa, repCtx{ptrOK: true, widthsOK: true, uniform: g.Chance(35)})
	}
	mk := func(n int) *V {
		var kvs [][2]*V
		for k, key := range []string{"k", "j", "name", "q"}[:n] {
			var v *V
			switch (k + g.Intn(3)) % 4 {
			case 0:
				v = rsmall()
			case 1:
				v = rstr()
			case 2:
				v = rflt()
			default:
				v = VBool(g.Bool())
			}
			if g.Chance(10) {
				v = VNil()
			}
			kvs = append(kvs, SKV(key, v))
		}
		return VStrMap(kvs...)
	}
	lookupOnly := g.Chance(50)
	add("m1", "map", mk(g.Intn(5)), repCtx{ptrOK: true, widthsOK: true, valPtrOK: lookupOnly, mapSlice: lookupOnly})
	if g.Bool() {
		add("m3", "map", VStrMap(SKV("k", rsmall()), SKV("j", rsmall()), SKV("q", rint())), repCtx{ptrOK: true, widthsOK: true, valPtrOK: lookupOnly, mapSlice: lookupOnly})
	}
	if g.Bool() {
		add("m2", "map2", VStrMap(SKV("list", arr(1+g.Intn(3), rsmall)), SKV("inner", VStrMap(SKV("k", rsmall()), SKV("j", rstr())))), repCtx{ptrOK: true, widthsOK: true, valPtrOK: true, mapSlice: true})
	}
	if g.Bool() {
		list := arr(1+g.Intn(3), rsmall)
		add("mp", "mapP", VStrMap(SKV("list", list), SKV("inner", VStrMap(SKV("k", rsmall()), SKV("j", rstr()))),
			SKV("rows", VAnys(list, arr(g.Intn(3), rstr))), SKV("v", rflt())), repCtx{ptrOK: true, widthsOK: true})
	}
	n := 6 + g.Intn(10)
	for k := 0; k < n*3 && len(t.stmts) < n; k++ {
		t.stmtFor(t.vars[g.Intn(len(t.vars))])
	}
	return t
}

func (t *repGen) logicalEnv() map[string]*V {
	env := map[string]*V{}
	for _, v := range t.vars {
		env[v.name] = v.val
	}
	return env
}

func (t *repGen) deriveEnv(g *RNG) map[string]*V {
	d := &repDeriver{g: g}
	env := map[string]*V{}
	for _, v := range t.vars {
		env[v.name] = d.derive(v.val, v.ctx)
	}
	return env
}

func (t *repGen) source() string {
	var sb strings.Builder
	for k, s := range t.stmts {
		fmt.Fprintf(&sb, "S%d:%s\n", k, s.src)
	}
	return sb.String()
}

// ---- the stream ----------------------------------------------------------------------------------

func restrictEnv(env map[string]*V, vars []string) map[string]*V {
	out := map[string]*V{}
	for _, k := range vars {
		if v, ok := env[k]; ok {
			out[k] = v
		}
	}
	return out
}

// isolate reports, for an environment whose whole-template result differs from the generic
// one, the statements that differ, each with a minimised representation.
func (t *repGen) isolate(r *Run, gen, env map[string]*V, seen map[string]bool) int {
	found := 0
	for _, s := range t.stmts {
		ge, re := restrictEnv(gen, s.vars), restrictEnv(env, s.vars)
		want := repCanon(renderImpl(engineCfg{}, "", 0, s.src, RealiseEnv(ge)))
		differs := func(e map[string]*V) bool {
			return repCanon(renderImpl(engineCfg{}, "", 0, s.src, RealiseEnv(e))) != want
		}
		if !differs(re) {
			continue
		}
		found++
		// minimise: variables back to generic, then features
		for _, k := range s.vars {
			save := re[k]
			re[k] = ge[k]
			if !differs(re) {
				re[k] = save
			}
		}
		for _, k := range s.vars {
			for _, f := range repFeatures {
				save := re[k]
				re[k] = stripRep(re[k], f)
				if !differs(re) {
					re[k] = save
				}
			}
		}
		feats := map[string]bool{}
		for _, k := range s.vars {
			featuresOf(re[k], feats)
		}
		clause := "rep:" + featList(feats)
		if s.cmp && clause == "rep:unsigned" {
			clause = "unsigned-compare"
		}
		key := clause + "/" + s.id
		if seen[key] {
			continue
		}
		seen[key] = true
		r.Count("violation:" + key)
		got := renderImpl(engineCfg{}, "", 0, s.src, RealiseEnv(re))
		cl := renderCaseLine(engineCfg{}, "", 0, s.src, re)
		r.Violate("C18", clause, cl, fmt.Sprintf("%q with %s: %s ; with the generic %s: %s", s.src, EncEnv(re), resultSummary(got), EncEnv(ge), resultSummary(want)))
	}
	return found
}

// modelFollowsArrayNilPatch: fixes/array-nil-element.patch changes values.Convert (a nil element of
// a fixed array survives the conversion to []any). Until the Lean model of Convert follows that
// patch (corpus/render/array-nil-element.case is the minimal disagreement) the cases that depend
// on it are still run and judged by the oracle but not handed to the model. Set to true then.
const modelFollowsArrayNilPatch = true

func liquidNil(v *V) bool {
	for v.Kind == 'D' || v.Kind == 'P' {
		v = v.In
	}
	return v.Kind == 'n' || v.Kind == 'N'
}

// hasNilInFixedArray: some [N]any array inside v has an element whose Liquid value is nil.
func hasNilInFixedArray(v *V) bool {
	if v == nil {
		return false
	}
	if v.Kind == 'A' && v.Ty.C == 'a' {
		for _, x := range v.Xs {
			if liquidNil(x) {
				return true
			}
		}
	}
	for _, x := range v.Xs {
		if hasNilInFixedArray(x) {
			return true
		}
	}
	for _, kv := range v.KVs {
		if hasNilInFixedArray(kv[1]) {
			return true
		}
	}
	return hasNilInFixedArray(v.In)
}

func repsStream(r *Run) {
	for _, c := range corpusLines("reps") {
		if f := strings.Fields(c); len(f) == 6 && r.Mine() {
			r.Emit(c, replayers["reps"](r, f))
		}
	}
	if r.Shard == 0 {
		repsNestedDropFamily(r)
		repsKindedDropFamily(r)
	}
	n := 5000
	if r.Tier == "thorough" {
		n = 80000
	}
	seen := map[string]bool{}
	for i := 0; i < n; i++ {
		if !r.Mine() {
			continue
		}
		g := NewRNG(r.Seed, fmt.Sprintf("reps-case-%d", i))
		t := genRepCase(g)
		gen := t.logicalEnv()
		for _, s := range t.stmts {
			r.Count("stmt=" + s.id)
		}
		envs := make([]map[string]*V, 5)
		for k := range envs {
			envs[k] = t.deriveEnv(g)
			feats := map[string]bool{}
			for _, v := range envs[k] {
				featuresOf(v, feats)
			}
			for f := range feats {
				r.Count("feature=" + f)
			}
		}
		// The statements are independent, so the template is emitted in two parts: the statements
		// without filters and comparisons, and the others (the parts of the model that a case
		// needs decide whether the model can answer it).
		for part := 0; part < 2; part++ {
			var stmts []repStmt
			for _, st := range t.stmts {
				if st.plain() == (part == 0) {
					stmts = append(stmts, st)
				}
			}
			if len(stmts) == 0 {
				continue
			}
			pt := &repGen{vars: t.vars, stmts: stmts}
			src := pt.source()
			used := map[string]bool{}
			for _, st := range stmts {
				for _, v := range st.vars {
					used[v] = true
				}
			}
			var names []string
			for _, v := range t.vars {
				if used[v.name] {
					names = append(names, v.name)
				}
			}
			genP := restrictEnv(gen, names)
			clGen := renderCaseLine(engineCfg{}, "", 0, src, genP)
			resGen := renderImpl(engineCfg{}, "", 0, src, RealiseEnv(genP))
			r.Emit(clGen, resGen)
			r.Count(fmt.Sprintf("part%d-res=%s", part, resKind(resGen)))
			for k := 0; k < 5; k++ {
				env := restrictEnv(envs[k], names)
				cl := renderCaseLine(engineCfg{}, "", 0, src, env)
				res := renderImpl(engineCfg{}, "", 0, src, RealiseEnv(env))
				if repCanon(res) != repCanon(resGen) {
					if pt.isolate(r, genP, env, seen) == 0 && !seen["whole"] {
						seen["whole"] = true
						feats := map[string]bool{}
						for _, v := range env {
							featuresOf(v, feats)
						}
						r.Violate("C18", "rep:"+featList(feats), cl, fmt.Sprintf("%q: %s ; generic environment: %s (no single statement differs)", src, resultSummary(res), resultSummary(resGen)))
					}
				}
				if !modelFollowsArrayNilPatch {
					pending := false
					for _, v := range env {
						pending = pending || hasNilInFixedArray(v)
					}
					if pending {
						r.Count("oracle-only(model pending array-nil-element)")
						continue
					}
				}
				r.Nontrivial(cl)
				r.Emit(cl, res)
			}
		}
	}
}

// plain: the statement uses neither a filter nor a comparison.
func (s repStmt) plain() bool {
	return !s.cmp && !strings.Contains(s.src, "|") && !strings.Contains(s.src, "tablerow") && !strings.Contains(s.src, " contains ")
}

// repsNestedDropFamily: the places where the whole-template theorem of C18 once needed a side condition (a drop
// nested below the top of a value that is printed in Go syntax or compared; a drop that yields a drop; a typed
// container nested in an array under uniq), run on the real engine. They were deviations of the library (a drop in
// a printed map rendered as the Go struct `{1}`, a drop of a drop in an array was unequal to its value, uniq told
// []int{1} from []any{1}) and are repaired by fixes/nested-drops-resolved.patch: values.ToLiquid resolves a drop
// that yields a drop, values.ResolveDrops resolves the drops at every depth before every fmt.Sprint, uniq compares
// arrays and maps by what they hold. Every row of the family MUST AGREE now; there is no KNOWN-FINDING any more.
// Seven rows (sort-key-*, sort-natural-key-name-holds-drop and two controls) are the deviations of sort by a key that
// fixes/sort-key-drops.patch repaired: the entry under the key goes through ToLiquid before the nil test, and the name of
// the key is fmt.Sprint(values.ResolveDrops(key)).
// Seventeen rows sort-natural-* put drops where sort_natural looks: among its elements (drops of strings, of drops, of
// nil), under the key of its map elements, in the key argument; they agreed when they were added (the congruence of
// sort_natural for drops nested in containers is ArrF.sortNatural_respects_gen, Proofs/RepEqSort.lean).
//
// A row is (name, template, variant bindings). ORACLE: the variant renders exactly what its generic twin renders,
// where the twin is made from the variant by genericTwin: the drop wrappers removed and every slice, array and map
// turned into []any / map[K]any, at every depth (scalars are left as they are: uniq still tells int8(1) from 1).
// The rows are the seven named pairs of the first version of the family, a few lookups through nested drops, and
// the product of the shapes (nestedArrayShapes, nestedMapShapes) with every printing and comparison path
// (nestedArrayPaths, nestedMapPaths), named `<shape>/<path>`. A row that differs is reported under the fixed case
// name `reps-nested <name>` as a C18 violation. Implementation only (shard 0).
//
// Left out of the paths on purpose: the filters json, inspect and type show the Go representation by design
// (`{{ m | json }}` with m = {"a": dropV{1}} is {"a":{}}, the JSON of a struct without exported fields, against
// {"a":1}; type names the Go type), so C18 does not speak of them.
func repsNestedDropFamily(r *Run) {
	for _, p := range nestedRows() {
		render := func(b map[string]any) string { return renderImpl(engineCfg{}, "", 0, p.src, b) }
		generic := map[string]any{}
		for k, v := range p.variant {
			generic[k] = genericTwin(v)
		}
		got, want := render(p.variant), render(generic)
		r.Count("nested-drop-family")
		if repCanon(got) != repCanon(want) {
			r.Violate("C18", "rep:nested", "reps-nested "+p.name+" "+hexField(p.src),
				fmt.Sprintf("%q renders %s with the representation variant and %s with its generic twin", p.src, resultSummary(got), resultSummary(want)))
		}
	}
}

type nestedRow struct {
	name, src string
	variant   map[string]any
}

// sortNaturalLongRow: 20 elements (beyond the insertion sort of sort.Sort) with distinct sort texts, every second or
// third of them a drop or a drop of a drop; with keyed = true the elements are maps {"k": text, "n": index} with the
// entry under "k" a drop / a drop of a drop, every third element itself a drop (no two elements tie: Go's order of ties
// beyond 12 elements is not specified)
func sortNaturalLongRow(keyed bool) []any {
	out := []any{}
	for i := 0; i < 20; i++ {
		var x any = fmt.Sprintf("s%02d", (i*7)%20)
		switch i % 4 {
		case 1:
			x = dropV{x}
		case 2:
			x = dropV{dropV{x}}
		}
		if keyed {
			x = map[string]any{"k": x, "n": fmt.Sprint(i)}
			if i%3 == 0 {
				x = dropV{x}
			}
		}
		out = append(out, x)
	}
	return out
}

// genericTwin: the same Liquid value in the generic representation - no drop wrapper, every slice and array a
// []any, every map a map[K]any - at every depth. Scalars, strings and []byte are returned as they are.
func genericTwin(v any) any {
	for {
		d, ok := v.(dropV)
		if !ok {
			break
		}
		v = d.v
	}
	if v == nil {
		return nil
	}
	anyT := reflect.TypeOf([]any{}).Elem()
	rv := reflect.ValueOf(v)
	switch rv.Kind() {
	case reflect.Slice, reflect.Array:
		if rv.Type().Elem().Kind() == reflect.Uint8 {
			return v
		}
		out := make([]any, rv.Len())
		for i := range out {
			out[i] = genericTwin(rv.Index(i).Interface())
		}
		return out
	case reflect.Map:
		out := reflect.MakeMapWithSize(reflect.MapOf(rv.Type().Key(), anyT), rv.Len())
		for it := rv.MapRange(); it.Next(); {
			if e := genericTwin(it.Value().Interface()); e == nil {
				out.SetMapIndex(it.Key(), reflect.Zero(anyT))
			} else {
				out.SetMapIndex(it.Key(), reflect.ValueOf(e))
			}
		}
		return out.Interface()
	}
	return v
}

type nestedShape struct {
	name string
	val  any
}

func nestedArrayShapes() []nestedShape {
	d := func(v any) any { return dropV{v} }
	type l = []any
	type m = map[string]any
	return []nestedShape{
		// drops in arrays, at depth 1, 2 and 3
		{"arr-drop-d1", l{d(1), d("b"), 2}},
		{"arr-drop-d2", l{l{d(1), 2}, l{d("x")}, l{}}},
		{"arr-drop-d3", l{l{l{d(1), d("y")}, 2}, l{l{d(2.5)}}}},
		{"arr-drop-every-depth", d(l{d(l{d(l{d(1)}), d(2)}), d(3)})},
		{"arr-drop-nil", l{l{d(nil), 1}, d(nil), l{d(d(nil))}}},
		// a drop that yields a drop (that yields a drop)
		{"arr-drop-of-drop", l{d(d(1)), d(d("b")), 1}},
		{"arr-drop-of-drop-d2", l{l{d(d(1)), 1}, d(d(l{d(d("x"))}))}},
		{"arr-drop3", l{d(d(d(1))), l{d(d(d("x")))}, d(d(d(l{1})))}},
		{"arr-drop3-top", d(d(d(l{d(d(d(1))), 2})))},
		// maps inside arrays: drops as map values
		{"arr-map-drop-value", l{m{"k": d(1)}, m{"k": d("x")}, m{"k": 1}}},
		{"arr-drop-map-drop-value", l{d(m{"k": d(d(1))}), m{"k": l{d(2)}}}},
		{"arr-map-arr-drop", l{m{"k": l{d(1), l{d(2)}}}, m{"k": l{1, l{2}}}}},
		// typed containers nested in arrays (the elements of uniq)
		{"arr-typed-slices", l{[]int{1}, l{1}, []int{1, 2}, [1]int{1}, l{d(1)}}},
		{"arr-typed-strings", l{[]string{"a"}, l{"a"}, l{d("a")}, [1]string{"a"}, []string{"b"}}},
		{"arr-typed-nested-d2", l{l{[]int{1}}, l{l{1}}, [][]int{{1}}, l{l{d(d(1))}}, []any{[]float64{1}}}},
		{"arr-typed-maps", l{map[string]int{"k": 1}, m{"k": 1}, m{"k": d(1)}, d(map[string]int{"k": 1}), m{"k": 2}}},
		{"arr-typed-map-of-slices", l{map[string][]int{"k": {1}}, m{"k": l{1}}, m{"k": l{d(1)}}, map[string][]any{"k": {d(d(1))}}}},
		{"arr-typed-slice-of-maps", l{[]map[string]any{{"k": d(1)}}, l{m{"k": 1}}, []map[string]int{{"k": 1}}}},
		{"arr-of-drops-typed", []dropV{{1}, {dropV{"b"}}, {1}}},
	}
}

// nestedArrayPaths: a is the shape, b its generic twin, e the generic twin of its first element, s a string that
// holds what b prints as, c a second array.
var nestedArrayPaths = [][2]string{
	{"print", "{{ a }}"},
	{"join", "{{ a | join: ',' }}"},
	{"to-string", `{{ a | append: "" }}|{{ "" | append: a }}|{{ a | upcase }}`},
	{"first", "{{ a | first }}|{{ a.first }}|{{ a.first.first }}"},
	{"last", "{{ a | last }}|{{ a.last }}|{{ a.last.last }}"},
	{"for", "{% for x in a %}{{ x }};{% endfor %}"},
	{"for-for", "{% for x in a %}{% for y in x %}{{ y }},{% endfor %};{% endfor %}"},
	{"tablerow", "{% tablerow x in a %}{{ x }}{% endtablerow %}"},
	{"assign-capture", "{% assign v = a %}{{ v }}|{% capture w %}{{ a }}{% endcapture %}{{ w }}"},
	{"eq", "{% if a == b %}T{% else %}F{% endif %}{% if b == a %}T{% else %}F{% endif %}{% if a[0] == e %}T{% else %}F{% endif %}"},
	{"ne", "{% if a != b %}T{% else %}F{% endif %}{% if b != a %}T{% else %}F{% endif %}{% unless a[0] != e %}U{% endunless %}"},
	{"order", "{% if a < b %}T{% else %}F{% endif %}{% if a[0] <= e %}T{% else %}F{% endif %}{% if a[0] >= e %}T{% else %}F{% endif %}"},
	{"contains-element", "{% if a contains e %}T{% else %}F{% endif %}{% if b contains a[0] %}T{% else %}F{% endif %}{% if a contains a[0] %}T{% else %}F{% endif %}"},
	{"needle", "{% if s contains a %}T{% else %}F{% endif %}{% if s contains a[0] %}T{% else %}F{% endif %}{% if s contains a.last %}T{% else %}F{% endif %}"},
	{"case-when", "{% case a %}{% when b %}eq{% else %}ne{% endcase %}{% case e %}{% when a[0] %}eq{% else %}ne{% endcase %}{% case a[0] %}{% when 0, e %}eq{% else %}ne{% endcase %}"},
	{"sort", "{{ a | sort | join: ',' }}"},
	{"sort-natural", "{{ a | sort_natural | join: ',' }}"},
	{"sort-key", "{{ a | sort: 'k' | join: ',' }}|{{ a | sort_natural: 'k' | join: ',' }}"},
	{"uniq", "{{ a | uniq | size }}|{{ a | uniq | join: ',' }}"},
	{"compact", "{{ a | compact | join: ',' }}|{{ a | compact | size }}"},
	{"concat", "{{ a | concat: c | join: ',' }}|{{ c | concat: a | uniq | size }}|{{ a | concat: b | uniq | size }}"},
	{"reverse", "{{ a | reverse | join: ',' }}|{{ a | reverse | first }}"},
	{"map", "{{ a | map: 'k' | join: ',' }}|{{ a | map: 'k' | uniq | size }}"},
	{"size", "{{ a | size }}|{{ a.size }}|{{ a[0].size }}|{{ a[0] | size }}"},
	{"index", "{{ a[0] }}|{{ a[0][0] }}|{{ a[0][0][0] }}|{{ a[-1] }}|{{ a[1][0] }}|{{ a[0].k }}|{{ a[0].k[1][0] }}|{{ a[0]['k'] }}"},
	{"truth-default", "{% if a[0] %}T{% else %}F{% endif %}{{ a[0] | default: 'dflt' }}|{{ a[1] | default: 'dflt' }}"},
	{"string-filters", "{{ a | escape }}|{{ a | strip_html }}|{{ a | url_encode }}|{{ a | replace: '1', '2' }}|{{ a | truncate: 9 }}|{{ a | remove: '[' }}|{{ a | capitalize }}|{{ a | strip }}|{{ a | split: ' ' | first }}"},
	{"string-args", "{{ 'x' | prepend: a }}|{{ 'a-b' | replace: '-', a }}|{{ s | remove: a }}|{{ s | split: a | join: '#' }}|{{ s | replace_first: a, 'R' }}"},
	{"default", "{{ a | default: 'x' }}|{{ nil | default: a }}|{{ a[0] | default: a }}"},
	{"for-modifiers", "{% for x in a limit: 1 %}{{ x }}{% endfor %}|{% for x in a reversed %}{{ x }};{% endfor %}|{% for x in a offset: 1 %}{{ x }};{% endfor %}|{% for x in a[0] %}{{ x }};{% else %}E{% endfor %}"},
	{"conditions", "{% if a %}T{% endif %}{% if a[0] and a[1] %}T{% else %}F{% endif %}{% unless a.last %}U{% endunless %}"},
	{"assign-filter", "{% assign v = a | first %}{{ v }}|{% assign w = a | reverse %}{{ w | first }}|{{ w[0] }}|{% if w[0] == a.last %}T{% else %}F{% endif %}"},
	{"contains-scalar", "{% if a contains '1' %}T{% else %}F{% endif %}{% if a contains 1 %}T{% else %}F{% endif %}{% if a[0] contains 1 %}T{% else %}F{% endif %}{% if a contains nil %}T{% else %}F{% endif %}"},
	{"case-when-literals", "{% case a[0] %}{% when 1 %}one{% when 'a' %}a{% when e %}e{% else %}other{% endcase %}"},
	{"concat-uniq", "{{ a | concat: a | uniq | size }}|{{ b | concat: a | uniq | size }}|{{ a | concat: b | uniq | join: ';' }}|{{ a | reverse | concat: b | uniq | size }}"},
	{"concat-sort", "{{ a | concat: b | sort | join: ';' }}|{{ a | concat: c | sort_natural | join: ';' }}|{{ c | concat: a | sort | join: ';' }}"},
	{"tablerow-cols", "{% tablerow x in a cols: 2 limit: 3 %}{{ x }}{% endtablerow %}"},
	{"index-variable", "{% assign i = 0 %}{{ a[i] }}|{{ a[i][i] }}|{% assign k = 'k' %}{{ a[0][k] }}"},
}

func nestedMapShapes() []nestedShape {
	d := func(v any) any { return dropV{v} }
	type l = []any
	type m = map[string]any
	return []nestedShape{
		// drops as map values, at depth 1, 2 and 3
		{"map-drop-value", m{"a": d(1), "b": d("x"), "c": 2}},
		{"map-drop-d2", m{"a": m{"b": d(1), "c": d("x")}, "z": d(nil)}},
		{"map-drop-d3", m{"a": m{"b": m{"c": d(1)}, "c": d(2.5)}}},
		{"map-drop-every-depth", d(m{"a": d(m{"b": d(m{"c": d(1)})})})},
		// a drop that yields a drop (that yields a drop)
		{"map-drop-of-drop", m{"a": d(d(1)), "b": m{"b": d(d("x"))}}},
		{"map-drop3", d(d(d(m{"a": d(d(d(1))), "b": d(d(d(m{"b": d(d(d("x")))})))})))},
		// arrays inside maps
		{"map-arr-drop", m{"a": l{d(1), d("x")}, "b": l{l{d(2)}}}},
		{"map-drop-arr-drop-map", m{"a": d(l{d(m{"b": d(1)}), d(d(2))})}},
		// typed containers
		{"map-typed-values", m{"a": []int{1, 2}, "b": map[string]int{"b": 1}, "c": [1]string{"x"}}},
		{"map-typed-of-drops", map[string]dropV{"a": {1}, "b": {dropV{"x"}}}},
		{"map-typed-of-slices", map[string][]any{"a": {d(1)}, "b": {l{d(d(2))}}}},
		{"map-int-keys", map[int]any{1: d(1), 2: l{d("x")}}},
	}
}

// nestedMapPaths: m is the shape, n its generic twin, s a string that holds what n prints as.
var nestedMapPaths = [][2]string{
	{"print", "{{ m }}"},
	{"to-string", `{{ m | append: "" }}|{{ "" | append: m }}|{{ m | downcase }}`},
	{"join", "{{ m | join: ',' }}"},
	{"for", "{% for p in m %}{{ p[0] }}={{ p[1] }};{% endfor %}"},
	{"for-pair", "{% for p in m %}{{ p }};{{ p | join: '=' }};{% endfor %}"},
	{"assign-capture", "{% assign v = m %}{{ v }}|{% capture w %}{{ m }}{% endcapture %}{{ w }}"},
	{"eq", "{% if m == n %}T{% else %}F{% endif %}{% if n == m %}T{% else %}F{% endif %}{% if m.a == n.a %}T{% else %}F{% endif %}"},
	{"ne", "{% if m != n %}T{% else %}F{% endif %}{% if n.a != m.a %}T{% else %}F{% endif %}"},
	{"case-when", "{% case m %}{% when n %}eq{% else %}ne{% endcase %}{% case n.a %}{% when m.a %}eq{% else %}ne{% endcase %}"},
	{"contains", "{% if m contains 'a' %}T{% else %}F{% endif %}{% if m.a contains 'b' %}T{% else %}F{% endif %}{% if m.a contains 1 %}T{% else %}F{% endif %}"},
	{"needle", "{% if s contains m %}T{% else %}F{% endif %}{% if s contains m.a %}T{% else %}F{% endif %}{% if s contains m.b %}T{% else %}F{% endif %}"},
	{"size", "{{ m | size }}|{{ m.size }}|{{ m.a.size }}|{{ m.a | size }}"},
	{"lookup", "{{ m.a }}|{{ m.a.b }}|{{ m.a.b.c }}|{{ m['a']['b'] }}|{{ m.a[0] }}|{{ m.a[0].b }}|{{ m.b.b }}|{{ m.b[0][0] }}|{{ m[1] }}|{{ m[2][0] }}"},
	{"lookup-to-string", "{{ m.a | append: '' }}|{{ m.b | append: '' }}|{{ m.a.b | append: '' }}|{{ m.a[0] | append: '' }}|{{ m[2] | append: '' }}"},
	{"lookup-array-filters", "{{ m.b | join: ',' }}|{{ m.a | join: ',' }}|{{ m.a | first }}|{{ m.a | sort | last }}|{{ m.a | uniq | size }}|{{ m.a | reverse | join: ',' }}"},
	{"lookup-arith-a", "{{ m.a | plus: 1 }}|{{ 2 | times: m.a }}|{% if m.a > 0 %}T{% else %}F{% endif %}"},
	{"lookup-arith-ab", "{{ m.a.b | plus: 1 }}|{{ 2 | times: m.a.b }}|{% if m.a.b > 0 %}T{% else %}F{% endif %}"},
	{"lookup-arith-abc", "{{ m.a.b.c | plus: 1 }}|{{ 2 | times: m.a.b.c }}|{% if m.a.b.c > 0 %}T{% else %}F{% endif %}"},
	{"values", "{{ m | sort | join: ',' }}|{{ m | uniq | size }}|{{ m | compact | size }}|{{ m | reverse | join: ',' }}|{{ m | first }}|{{ m | last }}"},
	{"truth-default", "{% if m.a %}T{% else %}F{% endif %}{% if m.z %}T{% else %}F{% endif %}{{ m.z | default: 'dflt' }}|{{ m.a | default: 'dflt' }}"},
	{"string-filters", "{{ m | escape }}|{{ m | url_encode }}|{{ m | replace: '1', '2' }}|{{ m | truncate: 9 }}|{{ m | capitalize }}|{{ m | split: ' ' | last }}"},
	{"string-args", "{{ 'x' | prepend: m }}|{{ s | remove: m }}|{{ s | split: m | join: '#' }}|{{ 'x' | append: m.a }}|{{ s | remove: m.a }}"},
	{"default", "{{ m | default: 'x' }}|{{ nil | default: m }}|{{ m.zz | default: m.a }}"},
	{"for-modifiers", "{% for p in m limit: 1 %}{{ p }}{% endfor %}|{% for p in m reversed %}{{ p[1] }};{% endfor %}|{% for x in m.a %}{{ x }};{% else %}E{% endfor %}|{% for x in m.b %}{{ x }};{% endfor %}"},
	{"values-sorted", "{{ m | sort | first }}|{{ m | sort_natural | join: ';' }}|{{ m | map: 'b' | join: ';' }}|{{ m | concat: m | uniq | size }}"},
	{"conditions", "{% if m %}T{% endif %}{% if m.a and m.b %}T{% else %}F{% endif %}{% unless m.z %}U{% endunless %}{% if m.a == nil %}N{% endif %}{% if m.z == nil %}N{% endif %}"},
	{"key-variable", "{% assign k = 'a' %}{{ m[k] }}|{{ m[k].b }}|{% assign j = 'b' %}{{ m[k][j] }}|{{ m[j][j] }}"},
	{"assign", "{% assign v = m.a %}{{ v }}|{{ v.b }}|{{ v[0] }}|{% if v == n.a %}T{% else %}F{% endif %}|{% capture c %}{{ m.a }}{% endcapture %}{{ c | size }}"},
}

func nestedRows() []nestedRow {
	d := func(v any) any { return dropV{v} }
	type l = []any
	type m = map[string]any
	type b = map[string]any
	rows := []nestedRow{
		// the four deviations that fixes/nested-drops-resolved.patch repaired, under the names they were reported with:
		// a drop inside a map that is printed as a whole (fmt.Sprint showed the drop's Go struct)
		{"drop-in-printed-map", "{{ m }}", b{"m": m{"a": d(1)}}},
		// a drop inside an array that is converted to a string parameter
		{"drop-in-array-to-string", `{{ a | append: "" }}`, b{"a": l{d(1)}}},
		// a drop that yields a drop, nested in an array, under values.Equal
		{"drop-of-drop-in-array-equal", "{% case a %}{% when b %}eq{% else %}ne{% endcase %}", b{"a": l{d(d(1))}, "b": l{1}}},
		// uniq compared elements by Go equality of their dynamic types: a typed slice element was not its generic twin
		{"uniq-typed-nested-slice", "{{ a | uniq | size }}", b{"a": l{[]int{1}, l{1}}}},
		// the controls of the first version: drops at variables, in arrays under loops, joins, comparisons, typed containers
		{"control-drop-in-array-join", "{{ a | join: ',' }}|{% for x in a %}{{ x }}{% endfor %}|{{ a.first }}", b{"a": l{d(1), d("b")}}},
		{"control-drop-in-map-lookup", "{{ m.a }}|{% if m.a == 1 %}T{% endif %}|{{ m.a | plus: 1 }}", b{"m": m{"a": d(1)}}},
		{"control-typed-containers", "{{ a | join: ',' }}|{{ a | reverse | first }}|{{ m.k }}|{{ a | sort | last }}", b{"a": []int{3, 1, 2}, "m": map[string]int{"k": 7}}},
		// scalars under uniq are still told apart by Go's ==, with and without the wrappers (both sides render 3)
		{"control-uniq-scalar-widths", "{{ a | uniq | size }}", b{"a": l{d(1), d(d(int8(1))), 1.0, d(1), l{d(1)}, l{int8(1)}}}},
		// property and index lookup through nested drops
		{"lookup-property-through-drops", "{{ m.a.b }}|{{ m.a.b.c }}|{{ m['a'].b['c'] }}|{{ m.a.b.c | plus: 1 }}|{{ m.a.b.size }}", b{"m": d(m{"a": d(d(m{"b": d(m{"c": d(d(d(1)))})}))})}},
		{"lookup-index-through-drops", "{{ a[0][0] }}|{{ a[0][1][0] }}|{{ a.first.last.first }}|{{ a[0][0] | plus: 1 }}|{{ a[0][1] | size }}", b{"a": d(l{d(d(l{d(1), d(l{d(d(d(2)))})}))})}},
		{"lookup-mixed-through-drops", "{{ m.a[0].b[1] }}|{{ m.a.first.b.last }}|{{ m.a[0].b | join: ',' }}|{% for x in m.a[0].b %}{{ x }};{% endfor %}", b{"m": m{"a": d(l{d(m{"b": d(l{d(1), d(d(2))})})})}}},
		{"lookup-five-drops-in-a-row", "{{ a[0] }}|{{ a[1].k }}|{{ a | size }}", b{"a": l{d(d(d(d(d(1))))), d(d(d(d(m{"k": d(d(d(d("v"))))}))))}}},
		// the two deviations that fixes/sort-key-drops.patch repaired: sort by a key tested the entry for nil before ToLiquid
		// (a drop that yields nil was not sorted first), and sort / sort_natural named their key by fmt.Sprint of the raw
		// argument (a key that is an array or a map holding a drop printed the drop's Go struct and named no entry)
		{"sort-key-drop-nil-entry", `{{ a | sort: "k" | map: "n" | join }}`, b{"a": l{m{"k": 1, "n": "x"}, m{"k": d(nil), "n": "y"}, m{"k": d(0), "n": "z"}}}},
		{"sort-key-drop-of-drop-nil-entry", `{{ a | sort: "k" | map: "n" | join }}`, b{"a": l{m{"k": d(2), "n": "x"}, d(m{"k": d(d(nil)), "n": "y"}), m{"k": 1, "n": "z"}}}},
		{"sort-key-name-holds-drop", `{{ a | sort: k | map: "n" | join }}`, b{"a": l{m{"[1]": 2, "n": "x"}, m{"[1]": 1, "n": "y"}}, "k": l{d(1)}}},
		{"sort-key-name-map-holds-drop", `{{ a | sort: k | map: "n" | join }}`, b{"a": l{m{"map[a:1]": 2, "n": "x"}, m{"map[a:1]": 1, "n": "y"}}, "k": m{"a": d(d(1))}}},
		{"sort-natural-key-name-holds-drop", `{{ a | sort_natural: k | map: "n" | join }}`, b{"a": l{m{"[1]": "b", "n": "x"}, m{"[1]": "a", "n": "y"}}, "k": l{d(1)}}},
		// controls (agree with and without the repair): drops as entries that are not nil, sort_natural by a key with a drop that yields nil
		{"control-sort-key-drop-entries", `{{ a | sort: "k" | map: "n" | join }}`, b{"a": l{m{"k": d(2), "n": "x"}, m{"k": 1, "n": "y"}, d(m{"k": d(d(3)), "n": "z"})}}},
		{"control-sort-natural-key-drop-entries", `{{ a | sort_natural: "k" | map: "n" | join }}`, b{"a": l{m{"k": "b", "n": "x"}, m{"k": d(nil), "n": "y"}, m{"k": d("A"), "n": "z"}}}},
		// sort_natural on values with nested drops (Proofs/RepEqSort.lean ArrF.sortNatural_respects_gen; the first two rows are
		// the evaluated statements sort_natural_elements_drops_evaluated / sort_natural_key_entries_drops_evaluated of
		// Proofs/C18.lean): elements that are drops of strings, drops of drops, drops that yield nil; maps whose entry under
		// the key is a drop, a drop of a drop, Drop(nil), something that is no string; elements that are drops of maps; mixed
		// with plain strings and nil; the key argument a drop, a drop of a drop, Drop(nil), an array holding drops
		{"sort-natural-elements-drops", `{{ a | sort_natural | join: "," }}`, b{"a": l{d("b"), "C", d(d("a")), nil, d(nil), "B"}}},
		{"sort-natural-key-entries-drops", `{{ a | sort_natural: k | map: "n" | join }}`, b{"a": l{m{"k": d("b"), "n": "1"}, m{"k": d(nil), "n": "2"}, d(m{"k": d(d("A")), "n": "3"}), m{"n": "4"}, m{"k": "C", "n": "5"}}, "k": d("k")}},
		{"sort-natural-drop-nil-elements", `{{ a | sort_natural | join: "," }}|{% assign s = a | sort_natural %}{{ s.first }}/{{ s.last }}/{{ s | size }}`, b{"a": l{"b", d(nil), "a", nil, d(d(nil)), d("")}}},
		{"sort-natural-nested-arrays", `{{ a | sort_natural | join: ";" }}`, b{"a": l{l{d("b")}, l{d(d("A"))}, "[c]", d(l{d(1), d(nil)}), nil}}},
		{"sort-natural-nested-maps", `{{ a | sort_natural | join: ";" }}`, b{"a": l{m{"x": d("b")}, m{"x": d(d("A"))}, "map[x:a]", d(m{"x": d(nil)})}}},
		{"sort-natural-numbers-and-drops", `{{ a | sort_natural | join: "," }}`, b{"a": l{d(10), 9, d(d(1.5)), "1", d(true), nil}}},
		{"sort-natural-typed-elements", `{{ a | sort_natural | join: ";" }}`, b{"a": l{[]int{2}, d([]string{"a"}), [1]any{d("A")}, l{d(2)}}}},
		{"sort-natural-outer-drop", `{{ a | sort_natural | join: "," }}|{{ t | sort_natural | join: "," }}`, b{"a": d(l{d("b"), "a", d(d("C"))}), "t": d([]string{"b", "a", "C"})}},
		{"sort-natural-key-nil-entries", `{{ a | sort_natural: "k" | map: "n" | join }}`, b{"a": l{m{"k": "b", "n": "1"}, m{"k": d(nil), "n": "2"}, m{"k": nil, "n": "3"}, m{"n": "4"}, m{"k": d(d(nil)), "n": "5"}, m{"k": d("A"), "n": "6"}}}},
		{"sort-natural-key-mixed-strings-nil", `{{ a | sort_natural: "k" | join: ";" }}`, b{"a": l{m{"k": d("b")}, "zz", nil, d(nil), d("yy"), m{"k": d(d("a"))}, d(m{"k": "C"})}}},
		{"sort-natural-key-entry-no-string", `{{ a | sort_natural: "k" | map: "n" | join }}`, b{"a": l{m{"k": d(2), "n": "1"}, m{"k": d("a"), "n": "2"}, m{"k": d(l{"x"}), "n": "3"}, m{"k": "B", "n": "4"}}}},
		{"sort-natural-key-typed-maps", `{{ a | sort_natural: "k" | map: "n" | join }}`, b{"a": l{map[string]string{"k": "b", "n": "1"}, d(map[string]any{"k": d("a"), "n": "2"}), map[string]any{"k": d(d("C")), "n": "3"}}}},
		{"sort-natural-key-is-drop-of-drop", `{{ a | sort_natural: k | map: "n" | join }}`, b{"a": l{m{"k": d("b"), "n": "1"}, m{"k": "a", "n": "2"}}, "k": d(d("k"))}},
		{"sort-natural-key-is-drop-nil", `{{ a | sort_natural: k | join }}`, b{"a": l{d("b"), "a", d(d("C"))}, "k": d(nil)}},
		{"sort-natural-key-array-of-drops", `{{ a | sort_natural: k | map: "n" | join }}`, b{"a": l{m{"[1 x]": d("b"), "n": "1"}, m{"[1 x]": "a", "n": "2"}}, "k": l{d(1), d(d("x"))}}},
		{"sort-natural-20-elements", `{{ a | sort_natural | join: "," }}|{{ c | sort_natural: "k" | map: "n" | join: "," }}`, b{"a": sortNaturalLongRow(false), "c": sortNaturalLongRow(true)}},
		{"sort-natural-loop-and-lookup", `{% assign s = a | sort_natural %}{% for x in s %}{{ x }}{% if x == "a" %}!{% endif %}{% endfor %}|{{ s[0] | upcase }}{{ s[0].size }}`, b{"a": l{d("b"), d(d("a")), "C"}}},
	}
	for _, sh := range nestedArrayShapes() {
		twin := genericTwin(sh.val).([]any)
		bind := b{"a": sh.val, "b": twin, "e": twin[0], "s": "<" + fmt.Sprint(twin) + ">", "c": l{d(9), l{d(d(9))}}}
		for _, p := range nestedArrayPaths {
			rows = append(rows, nestedRow{sh.name + "/" + p[0], p[1], bind})
		}
	}
	for _, sh := range nestedMapShapes() {
		twin := genericTwin(sh.val)
		bind := b{"m": sh.val, "n": twin, "s": "<" + fmt.Sprint(twin) + ">"}
		for _, p := range nestedMapPaths {
			rows = append(rows, nestedRow{sh.name + "/" + p[0], p[1], bind})
		}
	}
	return rows
}
