package main

// Helpers shared by the whole-engine streams (robust/C01, determ/C02, immut/C03 and the later
// `render` correspondence stream): engine configuration codec, canonical result lines, error
// classification, per-case deadline.
//
// Canonical result of one ParseAndRender (DESIGN 5.1):
//
//	ok <hex output>
//	err <kind> <line> <pathhex> <cause-kind>
//	panic
//	timeout                      (only from renderCaseTimed; never compared with the model)
//
// <kind>  : a classification of the SourceError as a whole (by Go type of Cause() where there is
//           one, else by which constructor of the library produced it):
//           syntax | undefinedFilter | filterErr | typeErr | interp | brk | cont | strictUndefined |
//           undefinedTag | unterminated | notInside | cycleOutside | loopMod | forElse |
//           includeArg | includeIO | includeDepth | io | other
// <cause-kind> : the `Cause` enum of lean/Liquid/Basic.lean, by the dynamic Go type of Cause():
//           none | syntax | typeErr | interp | undefinedFilter:<namehex> |
//           filterErr:<namehex>:<inner cause-kind> | parity | divZero | io | brk | cont | other:<tag>
// <line>  : LineNumber();  <pathhex> : Path() with the scratch include directory stripped.

import (
	"bytes"
	"crypto/sha1"
	"encoding/hex"
	"errors"
	"fmt"
	"hash/fnv"
	"io/fs"
	"os"
	"path/filepath"
	"reflect"
	"runtime/debug"
	"sort"
	"strings"
	"sync"
	"time"

	"github.com/osteele/liquid"
	"github.com/osteele/liquid/expressions"
	"github.com/osteele/liquid/values"
	yaml "gopkg.in/yaml.v2"
)

// engineCfg is the engine configuration of a case: strict-variables flag, delimiters, and an
// optional file-system layout for {% include %} (name -> source).
type engineCfg struct {
	Strict bool
	Delims []string    // nil = defaults, else 4 strings
	FS     [][2]string // include files (name, source); nil = none
}

// Enc prints the configuration as one protocol field: <strict 0|1>/<delims|->/<fs|->,
// delims = 4 comma-separated hex fields, fs = comma-separated <namehex>:<srchex>.
func (c engineCfg) Enc() string {
	s := "0"
	if c.Strict {
		s = "1"
	}
	fsF := "-"
	if len(c.FS) > 0 {
		parts := make([]string, len(c.FS))
		for i, f := range c.FS {
			parts[i] = hexField(f[0]) + ":" + hexField(f[1])
		}
		fsF = strings.Join(parts, ",")
	}
	return s + "/" + encodeDelims(c.Delims) + "/" + fsF
}

func parseEngineCfg(f string) engineCfg {
	parts := strings.Split(f, "/")
	if len(parts) != 3 {
		panic("bad engine cfg " + f)
	}
	c := engineCfg{Strict: parts[0] == "1", Delims: decodeDelims(parts[1])}
	if parts[2] != "-" {
		for _, p := range strings.Split(parts[2], ",") {
			kv := strings.SplitN(p, ":", 2)
			c.FS = append(c.FS, [2]string{unhexField(kv[0]), unhexField(kv[1])})
		}
	}
	return c
}

// workDir is the scratch directory of this run (VERIF_WORK, set by ./check, else a private
// temporary directory).
var workDir = sync.OnceValue(func() string {
	if p := os.Getenv("VERIF_WORK"); p != "" {
		if err := os.MkdirAll(p, 0o755); err == nil {
			return p
		}
	}
	p, err := os.MkdirTemp("", "verif-work-")
	if err != nil {
		panic(err)
	}
	return p
})

var fsDirs sync.Map // hash -> dir

// dir materialises the include layout on disk (once per distinct layout) and returns the
// directory; "" when the configuration has no layout.
func (c engineCfg) dir() string {
	if len(c.FS) == 0 {
		return ""
	}
	h := sha1.New()
	for _, f := range c.FS {
		fmt.Fprintf(h, "%d:%s%d:%s", len(f[0]), f[0], len(f[1]), f[1])
	}
	key := hex.EncodeToString(h.Sum(nil))[:16]
	if d, ok := fsDirs.Load(key); ok {
		return d.(string)
	}
	d := filepath.Join(workDir(), fmt.Sprintf("fs-%s-%d", key, os.Getpid()))
	if err := os.MkdirAll(d, 0o755); err != nil {
		panic(err)
	}
	for _, f := range c.FS {
		p := filepath.Join(d, filepath.FromSlash(f[0]))
		os.MkdirAll(filepath.Dir(p), 0o755)
		if err := os.WriteFile(p, []byte(f[1]), 0o644); err != nil {
			panic(err)
		}
	}
	fsDirs.Store(key, d)
	return d
}

const mainTemplateName = "main.liquid"

func (c engineCfg) newEngine() *liquid.Engine {
	e := liquid.NewEngine()
	if c.Strict {
		e.StrictVariables()
	}
	if len(c.Delims) == 4 {
		e.Delims(c.Delims[0], c.Delims[1], c.Delims[2], c.Delims[3])
	}
	return e
}

// parse parses src on e: with an include layout the template is located at <dir>/main.liquid
// line 1 (so that relative includes resolve), otherwise it has no location (ParseTemplate).
func (c engineCfg) parse(e *liquid.Engine, src string) (*liquid.Template, liquid.SourceError) {
	if d := c.dir(); d != "" {
		return e.ParseTemplateLocation([]byte(src), filepath.Join(d, mainTemplateName), 1)
	}
	return e.ParseTemplate([]byte(src))
}

// canonPath strips the scratch directory from an error path.
func (c engineCfg) canonPath(p string) string {
	if d := c.dir(); d != "" && strings.HasPrefix(p, d) {
		return strings.TrimPrefix(strings.TrimPrefix(p, d), string(filepath.Separator))
	}
	return p
}

// includeDepthMsg: the first words of the error rendererContext.RenderFile returns when includes are nested
// deeper than maxIncludeDepth (render/context.go)
const includeDepthMsg = "include nesting too deep"

var (
	errBreakMsg    = "break outside a loop"
	errContinueMsg = "continue outside a loop"
)

func goTypeTag(err error) string {
	t := fmt.Sprintf("%T", err)
	t = strings.NewReplacer(" ", "", "*", "", "/", ".").Replace(t)
	if t == "errors.errorString" || t == "fmt.wrapError" {
		// identify plain errors by the first words of their text (they have no type)
		w := strings.Fields(err.Error())
		if len(w) > 3 {
			w = w[:3]
		}
		return "msg." + strings.Map(func(r rune) rune {
			if r >= 'a' && r <= 'z' || r >= 'A' && r <= 'Z' || r >= '0' && r <= '9' {
				return r
			}
			return '_'
		}, strings.Join(w, "_"))
	}
	return t
}

// causeKind maps an error value to the Cause enum by its dynamic Go type.
func causeKind(err error) string {
	if err == nil {
		return "none"
	}
	switch e := err.(type) {
	case expressions.SyntaxError:
		return "syntax"
	case values.TypeError:
		return "typeErr"
	case expressions.InterpreterError:
		return "interp"
	case expressions.UndefinedFilter:
		return "undefinedFilter:" + hexField(string(e))
	case expressions.FilterError:
		return "filterErr:" + hexField(e.FilterName) + ":" + causeKind(e.Err)
	case *values.CallParityError:
		return "parity"
	case *fs.PathError:
		if errors.Is(e, fs.ErrNotExist) {
			return "other:notExist"
		}
		return "io"
	}
	switch err.Error() {
	case "division by zero":
		return "divZero"
	case errBreakMsg:
		return "brk"
	case errContinueMsg:
		return "cont"
	case "undefined variable":
		return "other:undefinedVariable"
	case "for loops accept at most one else clause":
		return "other:forElse"
	}
	if strings.HasPrefix(err.Error(), includeDepthMsg) { // RenderFile at depth >= maxIncludeDepth (a plain fmt.Errorf error)
		if _, located := err.(liquid.SourceError); !located {
			return "other:includeDepth"
		}
	}
	if se, ok := err.(liquid.SourceError); ok { // a located error as a cause (nested include)
		return "other:located:" + causeKind(se.Cause())
	}
	return "other:" + goTypeTag(err)
}

// errKind classifies a SourceError as a whole. parsePhase: the error came out of parsing (a
// cause-less parse error that is none of the block parser's own is a plain tag's compile error,
// i.e. the text of an expressions.SyntaxError re-made with Errorf).
func errKind(se liquid.SourceError, parsePhase bool) string {
	c := se.Cause()
	if c != nil {
		ck := causeKind(c)
		switch {
		case ck == "syntax", ck == "typeErr", ck == "interp", ck == "brk", ck == "cont", ck == "io":
			return ck
		case strings.HasPrefix(ck, "undefinedFilter:"):
			return "undefinedFilter"
		case strings.HasPrefix(ck, "filterErr:"):
			return "filterErr"
		case ck == "other:undefinedVariable":
			return "strictUndefined"
		case ck == "other:forElse":
			return "forElse"
		case ck == "other:notExist":
			return "includeIO"
		case ck == "other:includeDepth":
			return "includeDepth"
		}
		return "other"
	}
	// Errorf-made errors carry no cause: classify by the constructor's fixed text.
	msg := se.Error()
	switch {
	case strings.Contains(msg, ": undefined tag "):
		return "undefinedTag"
	case strings.Contains(msg, ": unterminated "):
		return "unterminated"
	case strings.Contains(msg, " not inside "):
		return "notInside"
	case strings.Contains(msg, ": cycle must be within a forloop"):
		return "cycleOutside"
	case strings.Contains(msg, ": loop offset must be"), strings.Contains(msg, ": loop limit must be"), strings.Contains(msg, ": loop cols must be"):
		return "loopMod"
	case strings.Contains(msg, ": include requires a string argument"):
		return "includeArg"
	case strings.Contains(msg, ": syntax error in "), strings.Contains(msg, ": undefined loop modifier "), strings.Contains(msg, ": expected a string for "):
		return "syntax" // a plain tag's compile error (assign, cycle): re-made with Errorf, cause lost
	}
	if parsePhase {
		return "syntax"
	}
	return "other"
}

// sourceErrorProblem checks that a returned error is a usable non-nil SourceError: not a typed
// nil, its four methods do not panic, and its text is not empty. Returns "" if fine.
func sourceErrorProblem(se liquid.SourceError) (problem string) {
	defer func() {
		if r := recover(); r != nil {
			problem = fmt.Sprint("SourceError method panicked: ", r)
		}
	}()
	rv := reflect.ValueOf(se)
	if !rv.IsValid() {
		return "nil SourceError"
	}
	if (rv.Kind() == reflect.Ptr || rv.Kind() == reflect.Interface || rv.Kind() == reflect.Map) && rv.IsNil() {
		return "typed-nil SourceError of type " + rv.Type().String()
	}
	if se.Error() == "" {
		return "SourceError with empty text"
	}
	_ = se.Path()
	_ = se.Cause()
	if se.LineNumber() < 0 {
		return fmt.Sprint("negative LineNumber ", se.LineNumber())
	}
	return ""
}

// canonErr prints the canonical error result.
func (c engineCfg) canonErr(se liquid.SourceError, parsePhase bool) string {
	return fmt.Sprintf("err %s %d %s %s", errKind(se, parsePhase), se.LineNumber(), hexField(c.canonPath(se.Path())), coarseCause(causeKind(se.Cause())))
}

func canonOK(out []byte) string { return "ok " + hexField(string(out)) }

// caseOutcome is everything a whole-engine stream wants to know about one run.
type caseOutcome struct {
	Res      string        // canonical result line
	Panic    string        // panic value and the first repository frame, when Res == "panic"
	BadErr   string        // non-empty when an error was returned that is not a usable SourceError
	Elapsed  time.Duration // wall time of the run
	TimedOut bool          // the run did not return within the hard limit (its goroutine is abandoned)
	ParseOK  bool          // the source parsed
	Out      []byte
	OutLen   int
}

// repoFrame extracts the innermost stack frame inside the library from a stack trace.
func repoFrame(stack []byte) string {
	lines := strings.Split(string(stack), "\n")
	for i := 0; i+1 < len(lines); i++ {
		if strings.HasPrefix(lines[i], "github.com/osteele/liquid") && strings.HasPrefix(lines[i+1], "\t") &&
			!strings.Contains(lines[i], "expressions.expression.Evaluate") && !strings.Contains(lines[i], "expressions.parse.func") {
			loc := strings.TrimSpace(lines[i+1])
			if j := strings.Index(loc, " +0x"); j >= 0 {
				loc = loc[:j]
			}
			fn := lines[i]
			if j := strings.LastIndex(fn, "("); j >= 0 && !strings.HasSuffix(fn[:j], ")") {
				fn = fn[:j]
			}
			return fn[strings.LastIndex(fn, "/")+1:] + " " + filepath.Base(loc)
		}
	}
	return ""
}

// panicSignature normalises a panic description so that equal defects share a signature:
// digit runs and quoted texts are replaced.
func panicSignature(msg string) string {
	var sb strings.Builder
	inDigits := false
	quote := byte(0)
	for i := 0; i < len(msg); i++ {
		ch := msg[i]
		if quote != 0 {
			if ch == quote {
				quote = 0
			}
			continue
		}
		if (ch == '`' || ch == '"') && strings.IndexByte(msg[i+1:], ch) >= 0 {
			quote = ch
			sb.WriteString("<q>")
			continue
		}
		if ch >= '0' && ch <= '9' {
			if !inDigits {
				sb.WriteByte('N')
			}
			inDigits = true
			continue
		}
		inDigits = false
		sb.WriteByte(ch)
	}
	out := sb.String()
	if i := strings.Index(out, "interface {} is "); i >= 0 { // the dynamic type varies with the input
		if j := strings.Index(out[i:], ", not "); j >= 0 {
			out = out[:i] + "interface {} is T" + out[i+j:]
		}
	}
	if i := strings.Index(out, "value of type "); i >= 0 {
		if j := strings.Index(out[i:], " is not assignable"); j >= 0 {
			out = out[:i] + "value of type T" + out[i+j:]
		}
	}
	if i := strings.Index(out, "uncomparable type "); i >= 0 {
		if j := strings.Index(out[i:], " @ "); j >= 0 {
			out = out[:i] + "uncomparable type T" + out[i+j:]
		}
	}
	if i := strings.Index(out, " @ "); i >= 0 { // keep the frame exact
		if j := strings.Index(msg, " @ "); j >= 0 {
			out = out[:i] + msg[j:]
		}
	}
	return out
}

// protect runs f, converting a panic into ("panic", message + innermost library frame).
func protect(f func() string) (res, panicMsg string) {
	defer func() {
		if r := recover(); r != nil {
			res = "panic"
			msg := fmt.Sprint(r)
			if i := strings.Index(msg, "\nOriginal stacktrace"); i >= 0 { // expressions.rethrownError
				if fr := repoFrame([]byte(msg[i:])); fr != "" {
					panicMsg = firstLine(msg) + " @ " + fr
					return
				}
			}
			panicMsg = firstLine(msg) + " @ " + repoFrame(debug.Stack())
		}
	}()
	return f(), ""
}

func firstLine(s string) string {
	if i := strings.IndexByte(s, '\n'); i >= 0 {
		s = s[:i]
	}
	if len(s) > 300 {
		s = s[:300] + "..."
	}
	return s
}

// runCase parses and renders once on a fresh engine (no deadline).
func runCase(cfg engineCfg, src string, env map[string]any) (o caseOutcome) {
	t0 := time.Now()
	o.Res, o.Panic = protect(func() string {
		e := cfg.newEngine()
		var out []byte
		var err liquid.SourceError
		if cfg.dir() == "" {
			// the one-call entry point; parse success is observed separately below
			out, err = e.ParseAndRender([]byte(src), env)
			if err == nil {
				o.ParseOK = true
			} else if _, perr := e.ParseTemplate([]byte(src)); perr == nil {
				o.ParseOK = true
			}
		} else {
			var tpl *liquid.Template
			tpl, err = cfg.parse(e, src)
			if err == nil {
				o.ParseOK = true
				out, err = tpl.Render(env)
			}
		}
		if err != nil {
			if p := sourceErrorProblem(err); p != "" {
				o.BadErr = p
				return "err other 0 - none"
			}
			if out != nil {
				o.BadErr = "an error was returned together with output"
			}
			return cfg.canonErr(err, !o.ParseOK)
		}
		o.Out, o.OutLen = out, len(out)
		return canonOK(out)
	})
	o.Elapsed = time.Since(t0)
	return o
}

// runCaseTimed is runCase under a hard wall-clock limit. On a miss the goroutine is abandoned
// (Go cannot kill it) and TimedOut is set.
func runCaseTimed(cfg engineCfg, src string, env map[string]any, limit time.Duration) caseOutcome {
	ch := make(chan caseOutcome, 1)
	go func() { ch <- runCase(cfg, src, env) }()
	t := time.NewTimer(limit)
	defer t.Stop()
	select {
	case o := <-ch:
		return o
	case <-t.C:
		return caseOutcome{Res: "timeout", TimedOut: true, Elapsed: limit}
	}
}

// renderCase: the canonical result of parsing and rendering src with env on a fresh engine,
// under recover and a per-case deadline.
func renderCase(cfg engineCfg, src string, env map[string]any) string {
	return runCaseTimed(cfg, src, env, caseHardLimit).Res
}

const caseHardLimit = 8 * time.Second

// ---- time budget ("in time proportional to the loops and ranges the template spells out") ----

// spelledCost over-approximates the number of node visits a template asks for: source and
// environment size times, for every loop tag or range (at most four, they may nest), the
// largest collection the template or the environment spells out: the length of a literal range
// (a..b), the largest integer literal when a range has a computed endpoint, the largest
// slice/map/string of the environment.
func spelledCost(src string, envSize int, maxColl int) float64 {
	L := float64(maxColl)
	if L < 8 {
		L = 8
	}
	isDigit := func(c byte) bool { return c >= '0' && c <= '9' }
	// integer literal ending at i (exclusive) / starting at i, skipping blanks
	litBefore := func(i int) (float64, bool) {
		for i > 0 && (src[i-1] == ' ' || src[i-1] == '\t') {
			i--
		}
		j := i
		for j > 0 && isDigit(src[j-1]) {
			j--
		}
		if j == i {
			return 0, false
		}
		v := 0.0
		for k := j; k < i; k++ {
			v = v*10 + float64(src[k]-'0')
		}
		if j > 0 && src[j-1] == '-' {
			v = -v
		}
		return v, true
	}
	litAfter := func(i int) (float64, bool) {
		for i < len(src) && (src[i] == ' ' || src[i] == '\t') {
			i++
		}
		neg := false
		if i < len(src) && src[i] == '-' {
			neg = true
			i++
		}
		j := i
		v := 0.0
		for j < len(src) && isDigit(src[j]) {
			v = v*10 + float64(src[j]-'0')
			j++
		}
		if j == i {
			return 0, false
		}
		if neg {
			v = -v
		}
		return v, true
	}
	ranges, computed := 0, false
	for i := 0; i+1 < len(src); i++ {
		if src[i] == '.' && src[i+1] == '.' {
			ranges++
			a, okA := litBefore(i)
			b, okB := litAfter(i + 2)
			if okA && okB {
				if n := b - a + 1; n > L {
					L = n
				}
			} else {
				computed = true
			}
			i++
		}
	}
	if computed { // an endpoint is a variable or a property: any integer literal may be a bound
		cur, digits := 0.0, 0
		for i := 0; i <= len(src); i++ {
			if i < len(src) && isDigit(src[i]) {
				cur = cur*10 + float64(src[i]-'0')
				digits++
				continue
			}
			if digits > 0 && cur > L {
				L = cur
			}
			cur, digits = 0, 0
		}
	}
	if L > 1e12 {
		L = 1e12
	}
	nest := strings.Count(src, "for") + strings.Count(src, "tablerow") + ranges
	if nest > 4 {
		nest = 4
	}
	cost := float64(len(src) + envSize + 64)
	for i := 0; i < nest; i++ {
		cost *= L
	}
	return cost
}

// caseBudget is the nominal time allowed for a case of the given cost; the oracle reports only a
// 50-fold overshoot that repeats.
func caseBudget(cost float64) time.Duration {
	if cost > 1e11 {
		return caseHardLimit
	}
	d := 2*time.Millisecond + time.Duration(cost*200)*time.Nanosecond // 0.2 µs per unit
	if d > caseHardLimit {
		d = caseHardLimit
	}
	return d
}

// maxCollection is the largest slice/map/range length inside an environment.
func maxCollection(env map[string]*V) int {
	m := 0
	var walk func(v *V)
	walk = func(v *V) {
		if v == nil {
			return
		}
		for _, n := range []int{len(v.Xs), len(v.KVs), len(v.Fs), len(v.S)} {
			if n > m {
				m = n
			}
		}
		if v.Kind == 'R' && v.B-v.A+1 > int64(m) && v.B-v.A < 1<<30 {
			m = int(v.B - v.A + 1)
		}
		for _, x := range v.Xs {
			walk(x)
		}
		for _, kv := range v.KVs {
			walk(kv[0])
			walk(kv[1])
		}
		for _, f := range v.Fs {
			walk(f.V)
		}
		walk(v.In)
	}
	for _, v := range env {
		walk(v)
	}
	return m
}

// ---- environments -------------------------------------------------------------------------

// RealiseEnv turns a logical environment into the real Go bindings handed to the engine.
func RealiseEnv(env map[string]*V) map[string]any {
	h := fnv.New32a()
	h.Write([]byte(EncEnv(env)))
	nilPtrFlavor.Store(int32(h.Sum32() % nilPtrFlavors))
	out := make(map[string]any, len(env))
	for _, k := range sortedKeys(env) {
		out[k] = env[k].Realise()
	}
	return out
}

// EncEnv is the canonical single-field encoding of an environment: a string-keyed map
// `Msa{...}` (entries in key order).
func EncEnv(env map[string]*V) string { return envV(env).Enc() }

func envV(env map[string]*V) *V {
	kvs := make([][2]*V, 0, len(env))
	for _, k := range sortedKeys(env) {
		kvs = append(kvs, SKV(k, env[k]))
	}
	return VStrMap(kvs...)
}

// DecEnv is the inverse of EncEnv.
func DecEnv(enc string) map[string]*V {
	v := ParseV(enc)
	if v.Kind != 'M' {
		panic("environment is not a map: " + enc)
	}
	out := map[string]*V{}
	for _, kv := range v.KVs {
		out[kv[0].S] = kv[1]
	}
	return out
}

func sortedKeys[T any](m map[string]T) []string {
	ks := make([]string, 0, len(m))
	for k := range m {
		ks = append(ks, k)
	}
	sort.Strings(ks)
	return ks
}

// realiseOrdered is Realise with a caller-chosen insertion order for every Go map that is
// built (perm(n) returns a permutation of 0..n-1), and optional spare capacity behind every
// slice (filled with a sentinel so that a write through the spare capacity is visible).
type realiser struct {
	perm  func(n int) []int
	spare int
}

var spareSentinel = "\x00SPARE\x00"

func (rz *realiser) order(n int) []int {
	if rz.perm == nil {
		p := make([]int, n)
		for i := range p {
			p[i] = i
		}
		return p
	}
	return rz.perm(n)
}

func (rz *realiser) val(v *V) any {
	switch v.Kind {
	case 'L':
		if v.Ty.C == 'y' {
			panic("unsupported")
		}
		et := v.Ty.RType()
		s := reflect.MakeSlice(reflect.SliceOf(et), len(v.Xs), len(v.Xs)+rz.spare)
		for i, x := range v.Xs {
			setElem(s.Index(i), rz.val(x))
		}
		if rz.spare > 0 {
			full := s.Slice(0, s.Cap())
			for i := len(v.Xs); i < full.Len(); i++ {
				fillSpare(full.Index(i))
			}
		}
		return s.Interface()
	case 'A':
		a := reflect.New(reflect.ArrayOf(len(v.Xs), v.Ty.RType())).Elem()
		for i, x := range v.Xs {
			setElem(a.Index(i), rz.val(x))
		}
		return a.Interface()
	case 'M':
		m := reflect.MakeMap(reflect.MapOf(v.KTy.RType(), v.VTy.RType()))
		for _, i := range rz.order(len(v.KVs)) {
			kv := v.KVs[i]
			k := reflect.New(v.KTy.RType()).Elem()
			setElem(k, rz.val(kv[0]))
			e := reflect.New(v.VTy.RType()).Elem()
			setElem(e, rz.val(kv[1]))
			m.SetMapIndex(k, e)
		}
		return m.Interface()
	case 'S':
		ms := yaml.MapSlice{}
		for _, kv := range v.KVs {
			ms = append(ms, yaml.MapItem{Key: rz.val(kv[0]), Value: rz.val(kv[1])})
		}
		return ms
	case 'K':
		m := map[string]any{}
		for _, i := range rz.order(len(v.Fs)) {
			m[v.Fs[i].Name] = rz.val(v.Fs[i].V)
		}
		return liquid.IterationKeyedMap(m)
	case 'P':
		x := rz.val(v.In)
		if x == nil {
			var a any
			return &a
		}
		p := reflect.New(reflect.TypeOf(x))
		p.Elem().Set(reflect.ValueOf(x))
		return p.Interface()
	case 'D':
		return dropV{rz.val(v.In)}
	case 'T':
		fields := make([]reflect.StructField, len(v.Fs))
		for i, f := range v.Fs {
			fields[i] = reflect.StructField{Name: fmt.Sprintf("F%d", i), Type: anyType, Tag: reflect.StructTag(fmt.Sprintf(`liquid:"%s"`, f.Name))}
		}
		s := reflect.New(reflect.StructOf(fields)).Elem()
		for i, f := range v.Fs {
			setElem(s.Field(i), rz.val(f.V))
		}
		return s.Interface()
	}
	return v.Realise()
}

func fillSpare(dst reflect.Value) {
	switch dst.Kind() {
	case reflect.Interface:
		dst.Set(reflect.ValueOf(spareSentinel))
	case reflect.String:
		dst.SetString(spareSentinel)
	case reflect.Int, reflect.Int8, reflect.Int16, reflect.Int32, reflect.Int64:
		dst.SetInt(-77)
	case reflect.Uint, reflect.Uint8, reflect.Uint16, reflect.Uint32, reflect.Uint64:
		dst.SetUint(77)
	case reflect.Float32, reflect.Float64:
		dst.SetFloat(-77.5)
	}
}

func (rz *realiser) env(env map[string]*V) map[string]any {
	keys := sortedKeys(env)
	out := make(map[string]any, len(env))
	for _, i := range rz.order(len(keys)) {
		out[keys[i]] = rz.val(env[keys[i]])
	}
	return out
}

// ---- small helpers ------------------------------------------------------------------------

func isEnvFree(env map[string]*V) bool { return len(env) == 0 }

func short(s string, n int) string {
	if len(s) > n {
		return s[:n] + fmt.Sprintf("...(%d bytes)", len(s))
	}
	return s
}

func resultSummary(res string) string {
	f := strings.Fields(res)
	if len(f) >= 2 && f[0] == "ok" {
		return "ok " + fmt.Sprintf("%q", short(unhexField(f[1]), 200))
	}
	return res
}

var _ = bytes.Equal
