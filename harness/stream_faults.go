package main

// Stream `faults` (property C20): a failing output writer stops the render with an error, never
// a panic.
//
// Case line:   writes <cfg> <pathhex> <line> <srchex> <envenc>
// Result line: ok <calls> <flocs>                                  fault-free FRender succeeded
//              err <kind> <line> <pathhex> <cause> <calls> <flocs> the render failed by itself after <calls>
//              err <kind> <line> <pathhex> <cause>         the source does not parse
//              panic
// <calls> = the underlying Write calls of `tpl.FRender(recordingWriter, env)` in order, each
// `w<hex>` (an EMPTY call is `w`), comma-separated; `-` = no call. The Lean driver answers the
// same line from the interaction tree of the model (`Prog.calls`), so the sequences are compared
// call by call. <flocs> = for every explored call index k, where the error of the run whose writer fails
// (once, accepting nothing) at call k is located: `<line>p` (the error names a path) or `<line>-`,
// comma-separated, `-` = no call; the model answers with the error its tree ends with when call k fails.
//
// The ORACLE is independent of the model. For the template parsed at (path, line) and rendered
// with FRender, and again for Engine.ParseAndFRender of the same source (whose fault-free calls are
// emitted as a second case line with no path and line 0 when there is no include layout), and for EVERY k from 0 to
// the number of calls of the fault-free run, four faulty writers are run on the real code:
// {fail once at call k then succeed, fail from call k on} x {accept 0 bytes, accept a strict prefix
// (half) of that call's bytes}, each returning an error. Flagged (C20): a panic; a nil error; an
// error that is not a usable SourceError or whose Cause() is not the writer's error; ANY Write
// call made after the failing one; accepted bytes that are not a prefix of the fault-free output.
// The thorough tier adds "short write without error" (n < len(p), nil), where only a panic is
// flagged and what happens is counted.
//
// Every engine of this stream has the custom tags xecho/xval/xfail and the custom blocks
// xwrap/xdrop registered through Engine.RegisterTag/RegisterBlock. Templates that use them are
// run through the oracle only (the model has no custom tags; no case line is emitted for them).

import (
	"bytes"
	"encoding/hex"
	"errors"
	"fmt"
	"io"
	"path/filepath"
	"reflect"
	"regexp"
	"strings"

	"github.com/osteele/liquid"
	"github.com/osteele/liquid/render"
)

func init() {
	streams["faults"] = faultsStream
	replayers["faults"] = func(r *Run, f []string) string {
		if len(f) != 6 || f[0] != "writes" {
			return "bad-case"
		}
		var line int
		fmt.Sscan(f[3], &line)
		fc := faultCase{cfg: parseEngineCfg(f[1]), path: unhexField(f[2]), line: line, src: unhexField(f[4]), env: DecEnv(f[5])}
		res, _ := fc.run(r, "replay")
		return res
	}
}

// ---- the engine of this stream --------------------------------------------------------------

var customTagRE = regexp.MustCompile(`\{%-?\s*(?:end)?(?:xecho|xval|xfail|xwrap|xdrop)\b`)

func usesCustomTags(src string) bool { return customTagRE.MatchString(src) }

var errCustomTag = errors.New("xfail: this tag always fails")

func faultEngine(cfg engineCfg) *liquid.Engine {
	e := cfg.newEngine()
	e.RegisterTag("xecho", func(c render.Context) (string, error) { return "<" + c.TagArgs() + ">", nil })
	e.RegisterTag("xval", func(c render.Context) (string, error) {
		v, err := c.EvaluateString(c.TagArgs())
		if err != nil {
			return "", err
		}
		return fmt.Sprint(v), nil
	})
	e.RegisterTag("xfail", func(c render.Context) (string, error) { return "", errCustomTag })
	e.RegisterBlock("xwrap", func(c render.Context) (string, error) {
		s, err := c.InnerString()
		if err != nil {
			return "", err
		}
		return "[" + s + "]", nil
	})
	e.RegisterBlock("xdrop", func(c render.Context) (string, error) { return "", nil })
	return e
}

// ---- writers --------------------------------------------------------------------------------

// The error a failing writer returns is the caller's: a pointer (errors.New, *os.PathError), but just as well a value of a
// slice or struct type that Go can neither hash nor compare (go/scanner.ErrorList, a validation error list). The renderer
// must hand it on without looking inside: a `==` against a sentinel is safe (different dynamic types are unequal), a
// map lookup keyed by the error or a `==` between two such values panics.
type faultErr struct{ k int }

func (e *faultErr) Error() string { return fmt.Sprintf("injected failure of Write call %d", e.k) }
func (e *faultErr) faultK() int   { return e.k }

type faultErrList []*faultErr // unhashable, uncomparable

func (e faultErrList) Error() string { return "list: " + e[0].Error() }
func (e faultErrList) faultK() int   { return e[0].k }

type faultErrStruct struct { // a struct holding a slice: unhashable, uncomparable
	k    int
	more []string
}

func (e faultErrStruct) Error() string {
	return fmt.Sprintf("injected failure (struct) of Write call %d", e.k)
}
func (e faultErrStruct) faultK() int { return e.k }

type faultIdent interface {
	error
	faultK() int
}

// newFaultErr: the error of the writer that fails at call k; the dynamic type rotates with k
func newFaultErr(k int) error {
	switch k % 4 {
	case 3:
		// the standard library's own sentinel, returned by bufio.Writer and io.MultiWriter as a genuine failure after a
		// partial accept: not to be mistaken for bytes.Buffer's report of a short write and retried
		return io.ErrShortWrite
	case 1:
		return faultErrList{&faultErr{k}}
	case 2:
		return faultErrStruct{k, []string{"x"}}
	}
	return &faultErr{k}
}

type faultPlan struct {
	k     int  // index of the first failing Write call
	once  bool // only call k fails (later calls succeed); false = every call from k on fails
	half  bool // the failing call accepts half of its bytes (a strict prefix); false = none
	short bool // "short write without error": n < len(p) with a nil error
}

func (p faultPlan) String() string {
	s := fmt.Sprintf("k=%d", p.k)
	if p.once {
		s += " fail-once"
	} else {
		s += " fail-from"
	}
	if p.half {
		s += " accept-half"
	} else {
		s += " accept-0"
	}
	if p.short {
		s += " short-write-nil-error"
	}
	return s
}

type faultyWriter struct {
	plan     faultPlan
	err      error
	ncalls   int
	failed   bool   // call k was reached
	accepted []byte // bytes accepted up to and including the failing call
	after    int    // calls made after the failing one
	afterB   []byte // first call made after the failing one
}

func (w *faultyWriter) Write(p []byte) (int, error) {
	i := w.ncalls
	w.ncalls++
	if i < w.plan.k {
		w.accepted = append(w.accepted, p...)
		return len(p), nil
	}
	if i > w.plan.k {
		if w.after == 0 {
			w.afterB = append([]byte(nil), p...)
		}
		w.after++
		if w.plan.once {
			return len(p), nil
		}
	}
	if i == w.plan.k {
		w.failed = true
	}
	n := 0
	if w.plan.half {
		n = len(p) / 2
	}
	if i == w.plan.k {
		w.accepted = append(w.accepted, p[:n]...)
	}
	if w.plan.short {
		if len(p) == 0 {
			return 0, nil
		}
		return n, nil
	}
	return n, w.err
}

// causeIsWriterError: Cause() is, or wraps, the error the writer returned.
func causeIsWriterError(se liquid.SourceError, fe error) bool {
	var c error = se.Cause()
	for depth := 0; c != nil && depth < 20; depth++ {
		// never `c == fe`: comparing two values of an uncomparable dynamic type panics
		if fi, ok := c.(faultIdent); ok {
			if fj, ok := fe.(faultIdent); ok && fi.faultK() == fj.faultK() && reflect.TypeOf(c) == reflect.TypeOf(fe) {
				return true
			}
		}
		if errors.Is(c, fe) { // errors.Is checks comparability itself
			return true
		}
		cc, ok := c.(interface{ Cause() error })
		if !ok {
			return false
		}
		c = cc.Cause()
	}
	return false
}

// ---- one case -------------------------------------------------------------------------------

type faultCase struct {
	cfg  engineCfg
	path string
	line int
	src  string
	env  map[string]*V
}

func (fc faultCase) caseLine() string {
	return fmt.Sprintf("writes %s %s %d %s %s", fc.cfg.Enc(), hexField(fc.path), fc.line, hexField(fc.src), EncEnv(fc.env))
}

func showWriteCalls(calls [][]byte) string {
	if len(calls) == 0 {
		return "-"
	}
	parts := make([]string, len(calls))
	for i, c := range calls {
		parts[i] = "w" + hex.EncodeToString(c)
	}
	return strings.Join(parts, ",")
}

// faultEntry is one way of rendering the case to a writer: it returns the canonical error form
// ("" = success) and the error.
type faultEntry struct {
	name string
	run  func(w io.Writer) (liquid.SourceError, bool) // error, and whether it came from parsing
}

const faultCallCap = 1200 // beyond this many calls only the first and last faultCallCap/2 indices are explored

// baseline runs the entry against a recording writer.
func (fc faultCase) baseline(en faultEntry) (res string, calls [][]byte, parseErr bool, panicMsg string) {
	rw := &recWriter{}
	res, panicMsg = protect(func() string {
		se, pe := en.run(rw)
		if se == nil {
			return "ok " + showWriteCalls(rw.calls)
		}
		parseErr = pe
		if pe {
			return canonRenderErr(fc.cfg, se, true)
		}
		return canonRenderErr(fc.cfg, se, false) + " " + showWriteCalls(rw.calls)
	})
	return res, rw.calls, parseErr, panicMsg
}

// faultLoc is where the error of one single-fault run is located: `<line>p` (it names a path) or
// `<line>-`; `!` = no usable SourceError. The model answers the same from its interaction tree.
func faultLoc(se liquid.SourceError) string {
	if se == nil || sourceErrorProblem(se) != "" {
		return "!"
	}
	if se.Path() != "" {
		return fmt.Sprintf("%dp", se.LineNumber())
	}
	return fmt.Sprintf("%d-", se.LineNumber())
}

func showFaultLocs(locs []string) string {
	if len(locs) == 0 {
		return "-"
	}
	return strings.Join(locs, ",")
}

// explore runs every fault plan of one entry and evaluates the oracle. It returns, for every explored
// call index, where the error of the run that fails (once, accepting nothing) at that call is located.
func (fc faultCase) explore(r *Run, cl string, en faultEntry, base string, calls [][]byte) (locs []string) {
	full := bytes.Join(calls, nil)
	n := len(calls)
	baseOK := strings.HasPrefix(base, "ok ")
	viol := func(clause string, plan faultPlan, detail string) {
		r.Violate("C20", clause, cl, fmt.Sprintf("entry=%s %s of %d calls: %s", en.name, plan, n, detail))
	}
	for k := 0; k <= n; k++ {
		if n > faultCallCap && k >= faultCallCap/2 && k < n-faultCallCap/2 {
			r.Count("capped-k")
			continue
		}
		var plans []faultPlan
		for _, once := range []bool{true, false} {
			for _, half := range []bool{false, true} {
				plans = append(plans, faultPlan{k: k, once: once, half: half})
				if r.Tier == "thorough" {
					plans = append(plans, faultPlan{k: k, once: once, half: half, short: true})
				}
			}
		}
		if k == n {
			plans = plans[:1] // the writer is never asked to fail: the run must repeat the fault-free one
		}
		locK := ""
		for pi, plan := range plans {
			fw := &faultyWriter{plan: plan, err: newFaultErr(k)}
			var se liquid.SourceError
			res, pmsg := protect(func() string {
				se, _ = en.run(fw)
				return ""
			})
			r.Count("fault-runs")
			if res == "panic" {
				viol("panic", plan, pmsg)
				if pi == 0 && k < n {
					locK = "!"
				}
				continue
			}
			if k < n && !plan.short {
				if pi == 0 {
					locK = faultLoc(se)
				} else if l := faultLoc(se); l != locK {
					// the location must not depend on how much the failing call accepted or on later calls
					r.Count("fault-loc-differs-between-plans")
					r.Notef("fault-loc-differs-between-plans", "%s: entry=%s %s: %s, first plan: %s", short(cl, 300), en.name, plan, l, locK)
				}
			}
			if k == n {
				if fw.ncalls != n || (se == nil) != baseOK {
					// not a breach of this property (it is C02's business), but the basis of the oracle is gone
					r.Count("fault-free-run-not-repeatable")
					r.Notef("fault-free-run-not-repeatable", "%s: entry=%s second run made %d calls, err=%v; first run: %s", short(cl, 300), en.name, fw.ncalls, se, short(base, 200))
				}
				continue
			}
			if !fw.failed {
				r.Count("fault-free-run-not-repeatable")
				r.Notef("fault-free-run-not-repeatable", "%s: entry=%s %s: only %d calls were made, err=%v", short(cl, 300), en.name, plan, fw.ncalls, se)
				continue
			}
			if plan.short {
				// io.ErrShortWrite semantics belong to the caller of Write: only recorded
				switch {
				case se == nil:
					r.Count("short-write=>nil-error")
				case errors.Is(se.Cause(), io.ErrShortWrite):
					r.Count("short-write=>ErrShortWrite")
				default:
					r.Count("short-write=>other-error")
				}
				continue
			}
			switch {
			case se == nil:
				viol("nil-error", plan, fmt.Sprintf("success reported although Write call %d returned an error (%d calls made)", k, fw.ncalls))
				continue
			case sourceErrorProblem(se) != "":
				viol("not-a-source-error", plan, sourceErrorProblem(se))
				continue
			case !causeIsWriterError(se, fw.err):
				viol("cause-is-not-the-writer-error", plan, fmt.Sprintf("Cause() = %T %v; error: %v", se.Cause(), se.Cause(), se))
			}
			if fw.after > 0 {
				viol("write-after-failure", plan, fmt.Sprintf("%d further Write call(s) after the failing one, the first with %q; returned error: %v", fw.after, short(string(fw.afterB), 80), se))
			}
			if !bytes.HasPrefix(full, fw.accepted) {
				viol("accepted-not-a-prefix", plan, fmt.Sprintf("accepted %q, fault-free output %q", short(string(fw.accepted), 200), short(string(full), 200)))
			}
		}
		if k < n {
			locs = append(locs, locK)
		}
	}
	return locs
}

// run executes the case: FRender of the template parsed at (path, line), which is what the result
// line reports, and ParseAndFRender of the same source; both under every fault plan.
func (fc faultCase) run(r *Run, class string) (resA, resB string) {
	cl := fc.caseLine()
	p := fc.path
	if d := fc.cfg.dir(); d != "" {
		p = filepath.Join(d, fc.path)
	}
	// entry A: ParseTemplateLocation once, FRender per run
	var tpl *liquid.Template
	var perr liquid.SourceError
	pres, pmsg := protect(func() string {
		tpl, perr = faultEngine(fc.cfg).ParseTemplateLocation([]byte(fc.src), p, fc.line)
		return ""
	})
	if pres == "panic" {
		r.Count("parse-panic")
		r.Notef("parse-panic", "%s: %s", short(cl, 300), pmsg)
		return "panic", ""
	}
	entryA := faultEntry{"ParseTemplateLocation+FRender", func(w io.Writer) (liquid.SourceError, bool) {
		if perr != nil {
			return perr, true
		}
		return tpl.FRender(w, RealiseEnv(fc.env)), false
	}}
	engB := faultEngine(fc.cfg)
	entryB := faultEntry{"ParseAndFRender", func(w io.Writer) (liquid.SourceError, bool) {
		se := engB.ParseAndFRender(w, []byte(fc.src), RealiseEnv(fc.env))
		return se, se != nil && perr != nil
	}}
	var callsA [][]byte
	var parseErrA bool
	var panA string
	resA, callsA, parseErrA, panA = fc.baseline(entryA)
	r.Count(class + ":res=" + strings.Fields(resA)[0])
	switch {
	case resA == "panic":
		r.Count("baseline-panic")
		r.Notef("baseline-panic", "%s: %s", short(cl, 300), panA)
	case parseErrA:
		r.Count("parse-error")
	default:
		r.Count(fmt.Sprintf("calls=%s", bucket(len(callsA))))
		for _, c := range callsA {
			if len(c) == 0 {
				r.Count("empty-call")
				break
			}
		}
		resA += " " + showFaultLocs(fc.explore(r, cl, entryA, resA, callsA))
		var callsB [][]byte
		var parseErrB bool
		resB, callsB, parseErrB, _ = fc.baseline(entryB)
		if resB != "panic" {
			locsB := fc.explore(r, cl, entryB, resB, callsB)
			if !parseErrB {
				resB += " " + showFaultLocs(locsB)
			}
		}
	}
	return resA, resB
}

func bucket(n int) string {
	switch {
	case n == 0:
		return "0"
	case n <= 2:
		return "1-2"
	case n <= 8:
		return "3-8"
	case n <= 32:
		return "9-32"
	case n <= 128:
		return "33-128"
	}
	return ">128"
}

// Notef keeps one free-text note per key (first occurrence).
func (r *Run) Notef(key, format string, a ...any) {
	if _, ok := r.Stats.Notes[key]; !ok {
		r.Stats.Notes[key] = fmt.Sprintf(format, a...)
	}
}

// ---- the fixed family -----------------------------------------------------------------------

func faultBigArray() *V {
	var xs []*V
	for j := 0; j < 400; j++ {
		xs = append(xs, VStr(fmt.Sprintf("%03d", j)+strings.Repeat("x", 97)))
	}
	return VSlice(TStr, xs...)
}

func faultFamilyEnv() map[string]*V {
	i := func(x int64) *V { return VInt(0, x) }
	return map[string]*V{
		"nums":  VAnys(i(1), i(2), i(3)),
		"five":  VAnys(i(1), i(2), i(3), i(4), i(5)),
		"words": VSlice(TStr, VStr("a"), VStr(" b "), VStr("")),
		"s":     VStr("hello"),
		"sp":    VStr("  padded  "),
		"empty": VStr(""),
		"n":     i(2),
		"flag":  VBool(true),
		"nilv":  VNil(),
		"m":     VStrMap(SKV("a", i(1)), SKV("b", VStr("x"))),
		"inc":   VStr("inc.html"),
		"none":  VAnys(),
		"big":   faultBigArray(), // prints 40 KB: an implementation that gathers an array's text in chunks must stop at the first failed chunk
	}
}

var faultFamilyFS = [][2]string{
	{"inc.html", "<{{ s }}>"},
	{"trim.html", " \n {{- n -}} \n x "},
	{"loop.html", "{% for i in nums %}{{ i }};{% endfor %}"},
	{"sub/deep.html", "[{% include \"inc.html\" %}]"},
	{"bad.html", "a\n{{ 1 | }}\n"},
	{"fail.html", "line1\n{{ 1 | nofilter }}"},
}

// faultFamily: each tag and each trim position at least once.
var faultFamily = []string{
	"", "hello", "  hello  ", " \n ", "a{{ s }}b", "{{ s }}", "{{ nilv }}", "{{ empty }}", "{{ nums }}", "{{ words }}x", "{{ m.a }}{{ m.b }}",
	// trim markers on objects
	"a  {{- s }}  b", "a  {{ s -}}  b", "a  {{- s -}}  b", " {{- s -}} ", "{{- s -}}", "{{- '' -}}  x", "{{ 1 -}}{{ nil }}  x", "{{ 1 -}}{{ '' }}  x",
	"a \n{{- nilv -}}\n b", "  {{- sp -}}  ", "a {{- 1 -}} {{- 2 -}} b", "{{ sp -}}{{ sp }}", " {{- nums -}} ", "x {{ s -}}", "x {{- s }}", "  {{-  }}",
	// trim markers on tags
	"a {%- if flag -%} b {%- endif -%} c", "a {%- if nilv -%} b {%- else -%} c {%- endif -%} d", "a {%- assign q = 1 -%} b{{ q }}", "a {% assign q = 1 -%} b", "a {%- assign q = 1 %} b",
	"a {%- comment -%} zz {%- endcomment -%} b", "a {% comment %} zz {% endcomment %} b",
	// raw
	"a {% raw %} {{ x }} {% endraw %} b", "a {%- raw -%} x {{ y }} {%- endraw -%} b", "{% raw %}{% endraw %}", "{% raw %}{{ a }}{% b %}{%- c -%}{% endraw %}", "x {%- raw %} y {% endraw -%} z",
	"{% raw %} {{- y -}} {% endraw %}",
	// a neighbour's hyphen next to a value or a raw body with white space at its edges (written through WriteVerbatim: flushed at once)
	"{{ s -}}{{ sp }}{{- s }}", "{{ s -}}{{ words }}{{- s }}", "{{ s -}}{% raw %}  y  {% endraw %}{{- s }}", "a {{ s -}}{{ empty }}{{ sp }} b", "a {{ s -}}{{ nilv }}{{ sp }}{{ nilv }}{{- s }} b",
	"{% for i in nums -%}{{ sp }}{%- endfor %}", "{% capture c -%}{{ sp }}{%- endcapture %}{{ s -}}{{ c }}{{- s }}", "x {% if flag -%}{% raw %} r {% endraw %}{%- endif %} y",
	// an array whose printed form is larger than any plausible scratch buffer
	"a {{ big }} b", "{% for i in (1..2) %}{{ big | join: '' }}{% endfor %}",
	// if / unless / case
	"{% if flag %}yes{% else %}no{% endif %}", "{% if nilv %}yes{% elsif n == 2 %}two{% else %}no{% endif %}!", "{% unless flag %}a{% else %}b{% endunless %}", "{% unless nilv %} a {% endunless %}",
	"{% case n %}{% when 1 %}one{% when 2, 3 %}two{% else %}other{% endcase %}", "{% case s %}ignored{% when 'x' %}x{% else %}{{ s }}{% endcase %}", "{% if flag %}{% endif %}", "{% if flag %}{% if n %}{{ n }}{% endif %}x{% endif %}",
	// for
	"{% for i in nums %}{{ i }},{% endfor %}", "{% for i in nums %}{{ i }}{% else %}none{% endfor %}", "{% for i in none %}{{ i }}{% else %}none{% endfor %}", "{% for i in nilv %}x{% endfor %}",
	"{% for i in five reversed limit: 3 offset: 1 %}{{ i }} {% endfor %}", "{% for i in (1..3) %}{{ forloop.index }}/{{ forloop.length }} {% endfor %}",
	"{% for i in nums %}{% if i == 2 %}{% break %}{% endif %}{{ i }}{% endfor %}!", "{% for i in nums %}{% if i == 2 %}{% continue %}{% endif %}{{ i }}{% endfor %}!",
	"{% for i in nums %}[{% for j in nums %}{% if j == 2 %}{% continue %}{% endif %}{% if i == 3 %}{% break %}{% endif %}{{ i }}{{ j }} {% endfor %}]{% endfor %}",
	"{% for i in nums %}{% for j in nums %}{{ j }}{% break %}z{% endfor %}{% continue %}y{% endfor %}", "{% for i in nums -%} {{ i }} {%- endfor %}", "{%- for i in nums %} {{ i -}} {% endfor -%} x",
	"{% for i in nums %} {%- break -%} {% endfor %}", "{% for kv in m %}{{ kv[0] }}={{ kv[1] }};{% endfor %}", "{% for i in nums %}{% endfor %}", "{% for i in nums %}\n{% endfor %}",
	// tablerow
	"{% tablerow i in nums %}{{ i }}{% endtablerow %}", "{% tablerow i in five cols:2 %}{{ i }}{% endtablerow %}", "{% tablerow i in five cols: 2 limit: 3 offset: 1 %}{{ i }}{% endtablerow %}",
	"{% tablerow i in none %}x{% endtablerow %}", "{% tablerow i in nilv cols: 2 %}x{% endtablerow %}", "{% tablerow i in nums cols:2 -%} {{ i }} {%- endtablerow %}", "a {%- tablerow i in nums cols: 3 -%} b {%- endtablerow -%} c",
	"{% tablerow i in nums cols:2 %}{% if i == 2 %}{% break %}{% endif %}{{ i }}{% endtablerow %}!", "{% tablerow i in nums %}{% if i == 2 %}{% continue %}{% endif %}{{ i }}{% endtablerow %}!",
	"{% tablerow i in nums cols:2 %}{% for j in nums %}{% if j == 2 %}{% break %}{% endif %}{{ j }}{% endfor %}{% endtablerow %}", "{% tablerow i in nums cols: 2 %}{% tablerow j in nums cols: 1 %}{{ j }}{% endtablerow %}{% endtablerow %}",
	"{% for i in nums %}{% tablerow j in nums cols:2 %}{{ i }}{{ j }}{% endtablerow %}{% endfor %}", "{% tablerow i in nums %}{% endtablerow %}", "{% tablerow i in five cols: 5 %}{% cycle 'a', 'b' %}{% endtablerow %}",
	"{% tablerow i in nums cols: 2 %}{% capture c %}{{ i }}{% endcapture %}{{ c }}{{ c }}{% endtablerow %}", "{% tablerow i in (1..4) cols: n %} {{- i -}} {% endtablerow %}",
	// cycle
	"{% for i in (1..4) %}{% cycle 'a', 'b' %}{% endfor %}", "{% for i in (1..4) %}{% cycle 'g': 'a', 'b' %}{% cycle 'h': '1', '2', '3' %}{% endfor %}", "{% for i in (1..3) %} {%- cycle '', 'x' -%} {% endfor %}",
	// capture / assign
	"{% capture c %}a{{ s }}b{% endcapture %}[{{ c }}]", "{% capture c %}{% for i in nums %}{{ i }},{% endfor %}{% endcapture %}{{ c }}{{ c }}", "a {%- capture c -%} x {{ s }} y {%- endcapture -%} b{{ c }}",
	"x{% capture c %} {{- s -}} {% endcapture %}y{{ c }}", "{% capture c %}{% endcapture %}{{ c }}|", "a {{ s -}} {% capture c %}  z{% endcapture %}  b{{ c }}", "{% assign q = s | upcase %}{{ q }}{{ q }}",
	"{% for i in nums %}{% capture c %}{{ i }}{% break %}{% endcapture %}{{ c }}{% endfor %}",
	// include
	"{% include 'inc.html' %}", "a {%- include 'inc.html' -%} b", "{% include inc %}|{% include 'trim.html' %}|", "{% for i in nums %}{% include 'inc.html' %}{% endfor %}", "a{% include 'loop.html' %}b{% include 'sub/deep.html' %}c",
	"x {{ s -}} {% include 'trim.html' %} y", "{% capture c %}{% include 'loop.html' %}{% endcapture %}{{ c }}",
	// renders that fail by themselves after some output
	"abc{{ s }}{% include 'nope.html' %}def", "ab{{ s }}cd{{ 1 | nofilter }}ef", "{% for i in nums %}{{ i }}{{ i | divided_by: 0 }}{% endfor %}", "a{% include 'bad.html' %}b", "a{{ s }}b{% include 'fail.html' %}c",
	"a {%- if flag -%} b{{ s }}c{% break %}d{% endif %}", "{% tablerow i in nums cols:2 %}{{ i }}{{ 'x' | plus: 1 }}{% endtablerow %}", "a{{ s }}{% cycle 'a' %}", "{% if %}", "a{{ 1 | }}", "a{% for i in nums %}",
	"{% for i in nums limit: s %}x{% endfor %}", "a{{ s }}b{% tablerow i in nums cols: s %}x{% endtablerow %}",
	// engine-registered custom tags and blocks
	"{% xecho a b %}", "a{% xecho %}b", "a {%- xecho q -%} b", "{% xval n | plus: 1 %}{% xval s %}", "a{% xwrap %}b{{ s }}c{% endxwrap %}d", "a {%- xwrap -%} b {{ s }} c {%- endxwrap -%} d",
	"{% for i in nums %}{% xecho z %}{% xwrap %}{{ i }}{% endxwrap %}{% endfor %}", "{% xfail %}", "a{{ s }}b{% xfail %}c", "a{{ s }}{% xwrap %}x{% xfail %}y{% endxwrap %}z", "{% xdrop %}a{{ s }}{% endxdrop %}|",
	"{% tablerow i in nums cols:2 %}{% xval i %}{% endtablerow %}", "{% xwrap %}{% tablerow i in nums cols:2 %}{{ i }}{% endtablerow %}{% endxwrap %}", "{% capture c %}{% xecho in %}{% endcapture %}{{ c }}{{ c }}",
	"{% xwrap %}{% xwrap %}{{ s }}{% endxwrap %}{% endxwrap %}", "{% for i in nums %}{% xwrap %}{{ i }}{% break %}{% endxwrap %}{% endfor %}", "{% xval 1 | nofilter %}", "a {{ s -}} {% xecho t %} b",
}

// ---- generation -----------------------------------------------------------------------------

// weave builds a template from error-free fragments wrapped in constructs this property cares
// about: tablerow with cols, loops with break/continue, capture, trim markers, raw, include and
// (when custom) the engine-registered tags and blocks.
func weave(g *RNG, o TmplOpts, sc Schema, custom bool, fs [][2]string) string {
	var sb strings.Builder
	trim := func() (string, string) {
		l, r := "{%", "%}"
		if g.Chance(o.TrimPct) {
			l = "{%-"
		}
		if g.Chance(o.TrimPct) {
			r = "-%}"
		}
		return l, r
	}
	tg := func(s string) string {
		l, r := trim()
		return l + " " + s + " " + r
	}
	fo := o
	fo.MaxNodes, fo.MaxDepth = 3, 2
	frag := func() string { return GenFragment(g, fo, sc) }
	n := 2 + g.Intn(4)
	for i := 0; i < n; i++ {
		k := g.Intn(12)
		if custom && g.Chance(50) {
			k = 12 + g.Intn(6)
		}
		switch k {
		case 0, 1:
			sb.WriteString(tg(fmt.Sprintf("tablerow zi in (1..%d) cols: %d", 1+g.Intn(5), g.Intn(4))) + frag() + tg("endtablerow"))
		case 2:
			sb.WriteString(tg("tablerow zi in (1..4) cols: 2") + frag() + tg("if zi == 3") + tg(g.Pick([]string{"break", "continue"})) + tg("endif") + frag() + tg("endtablerow"))
		case 3:
			sb.WriteString(tg("for zi in (1..3)") + tg("for zj in (1..3)") + frag() + tg("if zj == 2") + tg(g.Pick([]string{"break", "continue"})) + tg("endif") + "{{ zi }}{{ zj }}" + tg("endfor") +
				tg("if zi == 2") + tg(g.Pick([]string{"break", "continue"})) + tg("endif") + frag() + tg("endfor"))
		case 4:
			sb.WriteString(tg("capture zc") + frag() + tg("endcapture") + g.Pick([]string{"{{ zc }}", "{{- zc -}}", "{{ zc | size }}", ""}))
		case 5:
			sb.WriteString(tg("raw") + g.Pick([]string{" {{ x }} ", "{% if %}", " {{- y -}} ", "", "  a  ", "{%- z -%}"}) + tg("endraw"))
		case 6:
			sb.WriteString(tg("for zi in (1..4)") + tg("cycle 'a', 'b', 'c'") + frag() + tg("endfor"))
		case 7:
			if len(fs) > 0 {
				sb.WriteString(tg("include '" + fs[g.Intn(intMin2(3, len(fs)))][0] + "'"))
			} else {
				sb.WriteString(frag())
			}
		case 8:
			sb.WriteString(g.Pick([]string{"  ", " \n", "x ", " y", "\n\n"}) + g.Pick([]string{"{{- zi -}}", "{{- 1 }}", "{{ 'a' -}}", "{{- nil -}}", "{{- '' }}", "{{ ' b ' -}}"}) + g.Pick([]string{"  ", " \n", " z", ""}))
		case 9:
			sb.WriteString(tg("if true") + frag() + tg("else") + frag() + tg("endif"))
		case 12:
			sb.WriteString(tg("xecho " + g.Pick([]string{"", "a", "a b", "  "})))
		case 13:
			sb.WriteString(tg("xwrap") + frag() + tg("endxwrap"))
		case 14:
			sb.WriteString(tg("xval " + g.Pick([]string{"1", "'s'", "zi", "1 | plus: 2", "nil"})))
		case 15:
			sb.WriteString(tg("xdrop") + frag() + tg("endxdrop"))
		case 16:
			sb.WriteString(tg("tablerow zi in (1..3) cols: 2") + tg("xwrap") + frag() + tg("endxwrap") + tg("xecho t") + tg("endtablerow"))
		case 17:
			if g.Chance(25) {
				sb.WriteString(frag() + tg("xfail"))
			} else {
				sb.WriteString(tg("for zi in (1..2)") + tg("xwrap") + "{{ zi }}" + tg("endxwrap") + tg("endfor"))
			}
		default:
			sb.WriteString(frag())
		}
	}
	return sb.String()
}

func intMin2(a, b int) int {
	if a < b {
		return a
	}
	return b
}

func faultsStream(r *Run) {
	g := NewRNG(r.Seed, "faults")
	do := func(fc faultCase, class string) {
		if !r.Mine() {
			return
		}
		res, resB := fc.run(r, class)
		cl := fc.caseLine()
		r.Count("gen=" + class)
		if usesCustomTags(fc.src) {
			r.Count("custom-tags(oracle only)")
			return
		}
		if strings.HasPrefix(res, "ok w") {
			r.Nontrivial(cl)
		}
		r.Emit(cl, res)
		if len(fc.cfg.FS) == 0 && (fc.path != "" || fc.line != 0) && resB != "" {
			// ParseAndFRender = the same source parsed without a location
			fb := fc
			fb.path, fb.line = "", 0
			r.Emit(fb.caseLine(), resB)
		}
	}
	for _, c := range corpusLines("faults") {
		if f := strings.Fields(c); len(f) == 6 && r.Mine() {
			r.Emit(c, replayers["faults"](r, f))
		}
	}
	// the fixed family, with and without a location
	for _, src := range faultFamily {
		fs := [][2]string(nil)
		path, line := "", 0
		if strings.Contains(src, "include") {
			fs, path, line = faultFamilyFS, mainTemplateName, 1
		}
		do(faultCase{engineCfg{FS: fs}, path, line, src, faultFamilyEnv()}, "family")
		if fs == nil {
			do(faultCase{engineCfg{}, "dir/t.liquid", 3, src, faultFamilyEnv()}, "family")
		}
	}
	n := 300
	if r.Tier == "thorough" {
		n = 5000
	}
	for i := 0; i < n; i++ {
		o := DefaultTmplOpts()
		o.MaxDepth = 1 + g.Intn(4)
		o.MaxLoopNest = 1 + g.Intn(3)
		o.MaxNodes = 3 + g.Intn(9)
		o.TrimPct = []int{0, 5, 12, 30, 60}[g.Intn(5)]
		o.ValidPct = 85
		cfg := engineCfg{Strict: g.Chance(6)}
		sc := GenSchema(g, o)
		path, line := "", 0
		switch g.Intn(4) {
		case 0:
			path, line = "dir/t.liquid", 1
		case 1:
			path, line = "", 1+g.Intn(5)
		}
		if g.Chance(25) {
			cfg.FS = GenIncludes(g, o, sc)
			o.Includes = cfg.FS
			path, line = mainTemplateName, 1
		}
		env := GenEnv(g, o, sc)
		var src, class string
		switch k := g.Intn(10); {
		case k < 6:
			src, _ = GenTemplateFor(g, o, sc)
			class = "generated"
		case k < 8:
			src = weave(g, o, sc, false, cfg.FS)
			class = "woven"
		default:
			src = weave(g, o, sc, true, cfg.FS)
			class = "woven-custom"
		}
		do(faultCase{cfg, path, line, src, env}, class)
	}
}
