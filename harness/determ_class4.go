package main

import (
	"fmt"

	"github.com/osteele/liquid"
)

type dkStruct struct {
	A string
	B string
}

// determClass4KeysFamily (implementation only: the codec has no array- or struct-keyed maps): maps whose keys are
// arrays or structs — ordered by their printed form — with DIFFERENT keys that print alike ([2]string{"a b","c"} and
// {"a","b c"} are both [a b c]). Every construct that walks the map must give the same bytes in every render.
func determClass4KeysFamily(r *Run) {
	maps := []any{
		map[[2]string]any{{"a b", "c"}: 1, {"a", "b c"}: 2, {"a", "b"}: 3},
		map[any]any{[2]any{1, "1"}: "x", [2]any{"1", 1}: "y", "k": "z", 7: "w"},
		map[dkStruct]int{{"a b", "c"}: 1, {"a", "b c"}: 2, {"", "a b c"}: 3, {"a b c", ""}: 4},
		map[[1]any]string{{"1"}: "s", {1}: "i", {1.0}: "f", {true}: "b"},
	}
	tmpls := []string{"{% for p in m %}{{ p[1] }}{% endfor %}", "{{ m | join }}", "{{ m | first }}|{{ m | last }}", "{% tablerow p in m cols: 2 %}{{ p[1] }}{% endtablerow %}",
		"{{ m | reverse | join }}|{{ m | map: 'x' | size }}", "{% for p in m reversed limit: 2 %}{{ p | join: '=' }};{% endfor %}"}
	for mi, m := range maps {
		for _, src := range tmpls {
			seen := map[string]int{}
			first := ""
			for i := 0; i < 60; i++ {
				res := guard(func() string {
					out, err := liquid.NewEngine().ParseAndRenderString(src, liquid.Bindings{"m": m})
					if err != nil {
						return "err " + err.Error()
					}
					return "ok " + out
				})
				if i == 0 {
					first = res
				}
				seen[res]++
			}
			r.Count("class4-keys")
			if len(seen) > 1 {
				r.Violate("C02", "repeat-render", fmt.Sprint("determ-class4-keys ", mi, " ", hexField(src)),
					fmt.Sprintf("60 renders gave %d different results, e.g. %q and others: %v   source: %q", len(seen), first, seen, src))
			}
		}
	}
}
