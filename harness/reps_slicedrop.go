package main

import (
	"fmt"

	"github.com/osteele/liquid"
)

// Drops whose Go type is itself a slice, a map or a string (the codec's drop is a struct): a defined type with a ToLiquid
// method is a drop whatever its kind.
type rsTagList []string

func (t rsTagList) ToLiquid() any {
	s := ""
	for i, x := range t {
		if i > 0 {
			s += "+"
		}
		s += x
	}
	return s
}

type rsAttrs map[string]int

func (a rsAttrs) ToLiquid() any { return len(a) }

type rsName string

func (n rsName) ToLiquid() any { return []any{string(n), len(n)} }

// repsKindedDropFamily (implementation only): "Output depends on a binding's Liquid value, not on its Go representation":
// a container whose ELEMENT TYPE is such a drop type ([]TagList, [2]TagList, [][]TagList, map[string]TagList, …) renders
// exactly as the generic container holding the drops' Liquid values does, on every path that prints, compares or walks it.
func repsKindedDropFamily(r *Run) {
	tl := func(xs ...string) rsTagList { return rsTagList(xs) }
	type pair struct{ typed, plain any }
	pairs := []pair{
		{[]rsTagList{tl("a", "b"), tl("c")}, []any{"a+b", "c"}},
		{[2]rsTagList{tl("a", "b"), tl()}, []any{"a+b", ""}},
		{[][]rsTagList{{tl("a", "b")}, {tl("c"), tl("d")}}, []any{[]any{"a+b"}, []any{"c", "d"}}},
		{map[string]rsTagList{"k": tl("a", "b"), "j": tl("z")}, map[string]any{"k": "a+b", "j": "z"}},
		{map[string][]rsTagList{"k": {tl("a", "b")}}, map[string]any{"k": []any{"a+b"}}},
		{[]rsAttrs{{"x": 1, "y": 2}, {}}, []any{2, 0}},
		{map[string]rsAttrs{"m": {"x": 1}}, map[string]any{"m": 1}},
		{[]rsName{"ab", "c"}, []any{[]any{"ab", 2}, []any{"c", 1}}},
		{[]any{tl("a", "b"), []rsTagList{tl("c")}}, []any{"a+b", []any{"c"}}},
		{tl("a", "b"), "a+b"},
	}
	forms := []string{"{{ v }}", "{{ v | join: ',' }}", "{{ v | append: '' }}|{{ '' | append: v }}", "{{ v | first }}|{{ v | last }}|{{ v | size }}|{{ v.size }}|{{ v[0] }}|{{ v.k }}|{{ v.m }}",
		"{% for x in v %}{{ x }};{% endfor %}", "{% if v contains 'a+b' %}T{% else %}F{% endif %}{% if 'xa+bx' contains v %}T{% else %}F{% endif %}",
		"{% if v == w %}T{% else %}F{% endif %}{% if w == v %}T{% else %}F{% endif %}{% case v %}{% when w %}W{% else %}E{% endcase %}",
		"{{ v | sort | join: ',' }}|{{ v | sort_natural | join: ',' }}|{{ v | uniq | join: ',' }}|{{ v | reverse | join: ',' }}|{{ v | compact | size }}",
		"{{ v | concat: v | join: ',' }}|{{ v | map: 'x' | size }}", "{% assign a = v %}{{ a }}{% capture c %}{{ v }}{% endcapture %}{{ c | size }}", "{{ v | upcase }}|{{ v | size }}|{{ v | split: '+' | size }}"}
	for pi, p := range pairs {
		for _, f := range forms {
			render := func(v any) string {
				return guard(func() string {
					out, err := liquid.NewEngine().ParseAndRenderString(f, liquid.Bindings{"v": v, "w": p.plain})
					if err != nil {
						return "err"
					}
					return "ok " + out
				})
			}
			got, want := render(p.typed), render(p.plain)
			r.Count("kinded-drops")
			if got != want {
				r.Violate("C18", "rep:kinded-drop", fmt.Sprint("reps-kinded-drop ", pi, " ", hexField(f)),
					fmt.Sprintf("%T renders %q; its Liquid value %v renders %q   source: %q", p.typed, got, p.plain, want, f))
			}
		}
	}
}
