package main

import (
	"fmt"
	"strings"

	"github.com/osteele/liquid"
)

// Stream `exprs` (property C08): expressions — lookup laws against a reference table, filter
// pipelines against their assign-decomposed form, whitespace (newlines included) between the parts
// of a tag or object, unknown filters / too many arguments, strict variables. Every case is an
// ordinary `render` line (so the model is compared too); the oracles below only use the real
// implementation's results.

func init() {
	streams["exprs"] = exprsStream
	replayers["exprs"] = replayers["render"]
}

func exprsStream(r *Run) {
	g := NewRNG(r.Seed, "exprs")
	run := func(cfg engineCfg, src string, env map[string]*V, kind string) string {
		cl := renderCaseLine(cfg, "", 0, src, env)
		res := renderImpl(cfg, "", 0, src, RealiseEnv(env))
		r.Count("kind=" + kind)
		r.Count("res=" + strings.Fields(res)[0])
		if strings.HasPrefix(res, "ok ") {
			r.Nontrivial(cl)
		}
		r.Emit(cl, res)
		return res
	}
	okOut := func(res string) (string, bool) {
		if strings.HasPrefix(res, "ok ") {
			return unhexField(strings.TrimPrefix(res, "ok ")), true
		}
		return "", false
	}
	i := func(n int64) *V { return VInt(0, n) }

	// ---- 1. array indexing: (length 0..5) x (index -7..7, non-integers) x {literal, variable} ----
	for n := 0; n <= 5; n++ {
		xs := make([]*V, n)
		for k := range xs {
			xs[k] = VStr(fmt.Sprintf("e%d", k))
		}
		env := map[string]*V{"a": VAnys(xs...), "t": VSlice(TStr, xs...)}
		for _, arrName := range []string{"a", "t"} {
			for idx := -7; idx <= 7; idx++ {
				want := ""
				j := idx
				if j < 0 {
					j += n
				}
				if j >= 0 && j < n {
					want = fmt.Sprintf("e%d", j)
				}
				for _, form := range []string{"lit", "var"} {
					if !r.Mine() {
						continue
					}
					e2 := map[string]*V{"a": env["a"], "t": env["t"], "i": i(int64(idx))}
					src := fmt.Sprintf("[{{ %s[%d] }}]", arrName, idx)
					if form == "var" {
						src = fmt.Sprintf("[{{ %s[i] }}]", arrName)
					}
					res := run(engineCfg{}, src, e2, "index")
					if out, ok := okOut(res); !ok || out != "["+want+"]" {
						r.Violate("C08", "array-index", renderCaseLine(engineCfg{}, "", 0, src, e2), fmt.Sprintf("len=%d idx=%d want [%s] got %s", n, idx, want, res))
					}
				}
			}
			// non-numeric indices yield nil
			for _, bad := range []string{`"1"`, "nil", "true", `"first"`, "a"} {
				if !r.Mine() {
					continue
				}
				src := fmt.Sprintf("[{{ %s[%s] }}]", arrName, bad)
				res := run(engineCfg{}, src, env, "index-nonint")
				if out, ok := okOut(res); !ok || out != "[]" {
					r.Violate("C08", "non-numeric-index-is-nil", renderCaseLine(engineCfg{}, "", 0, src, env), res)
				}
			}
			// first / last / size
			if r.Mine() {
				src := fmt.Sprintf("{{ %s.first }}|{{ %s.last }}|{{ %s.size }}", arrName, arrName, arrName)
				want := fmt.Sprintf("||%d", n)
				if n > 0 {
					want = fmt.Sprintf("e0|e%d|%d", n-1, n)
				}
				res := run(engineCfg{}, src, env, "first-last-size")
				if out, ok := okOut(res); !ok || out != want {
					r.Violate("C08", "first-last-size", renderCaseLine(engineCfg{}, "", 0, src, env), fmt.Sprintf("want %q got %s", want, res))
				}
			}
		}
	}

	// ---- 2. maps: a.b == a["b"]; size fallback and shadowing; missing keys; nil / scalar receivers ----
	maps := []*V{
		VStrMap(), VStrMap(SKV("b", VStr("vb"))), VStrMap(SKV("b", VStr("vb")), SKV("c", i(3))),
		VStrMap(SKV("size", VStr("shadow")), SKV("b", VStr("vb"))), VStrMap(SKV("b", VNil())),
		VStrMap(SKV("size", VNil()), SKV("b", VStr("vb"))), VStrMap(SKV("size", VNil())),
		VMap(TStr, TStr, SKV("b", VStr("vb"))),
	}
	for _, m := range maps {
		env := map[string]*V{"m": m, "k": VStr("b"), "z": VNil(), "n": i(5), "s": VStr("str")}
		entry := func(k string) (string, bool) {
			for _, kv := range m.KVs {
				if kv[0].S == k {
					if kv[1].Kind == 's' {
						return kv[1].S, true
					}
					if kv[1].Kind == 'i' {
						return kv[1].I.String(), true
					}
					return "", true
				}
			}
			return "", false
		}
		for _, key := range []string{"b", "c", "missing", "size"} {
			if !r.Mine() {
				continue
			}
			src := fmt.Sprintf(`[{{ m.%s }}][{{ m["%s"] }}]`, key, key)
			v, has := entry(key)
			wantDot, wantIdx := v, v
			if !has && key == "size" {
				wantDot = fmt.Sprint(len(m.KVs)) // m.size falls back to the entry count; m["size"] does not
			}
			res := run(engineCfg{}, src, env, "map-lookup")
			if out, ok := okOut(res); !ok || out != "["+wantDot+"]["+wantIdx+"]" {
				r.Violate("C08", "map-property-and-index", renderCaseLine(engineCfg{}, "", 0, src, env), fmt.Sprintf("want [%s][%s] got %s", wantDot, wantIdx, res))
			}
		}
		if r.Mine() {
			src := `[{{ m[k] }}][{{ z.b }}][{{ z[0] }}][{{ n.b }}][{{ n[0] }}][{{ s.b }}][{{ undefined_name }}][{{ undefined_name.x.y }}]`
			v, _ := entry("b")
			res := run(engineCfg{}, src, env, "nil-steps")
			if out, ok := okOut(res); !ok || out != "["+v+"][][][][][][][]" {
				r.Violate("C08", "inapplicable-step-is-nil", renderCaseLine(engineCfg{}, "", 0, src, env), res)
			}
		}
	}

	// ---- 0. literals denote themselves: integer and float literals are decimal whatever their spelling
	// (leading zeros are not an octal prefix), strings are their bytes, true/false/nil ----
	{
		arr := make([]*V, 12)
		for k := range arr {
			arr[k] = VStr(fmt.Sprintf("e%d", k))
		}
		env := map[string]*V{"a": VAnys(arr...)}
		for _, c := range [][2]string{
			{"{{ 0 }}", "0"}, {"{{ 7 }}", "7"}, {"{{ 010 }}", "10"}, {"{{ 007 }}", "7"}, {"{{ 08 }}", "8"}, {"{{ 09 }}", "9"}, {"{{ 00 }}", "0"}, {"{{ 0100 }}", "100"},
			{"{{ -012 }}", "-12"}, {"{{ -0 }}", "0"}, {"{{ 0777 }}", "777"}, {"{{ 0019 }}", "19"}, {"{{ 1.50 }}", "1.5"}, {"{{ 010.5 }}", "10.5"}, {"{{ 007.25 }}", "7.25"},
			{"{{ -01.5 }}", "-1.5"}, {"{{ 2.0 }}", "2"}, {"{{ 'a\\n' }}", "a\\n"}, {`{{ "x'y" }}`, "x'y"}, {`{{ 'x"y' }}`, `x"y`}, {"{{ true }}|{{ false }}|{{ nil }}", "true|false|"},
			{"{{ a[010] }}", "e10"}, {"{{ a[08] }}", "e8"}, {"{{ a[-011] }}", "e1"}, {"{{ 010 | plus: 011 }}", "21"}, {"{% if 010 == 10 %}T{% else %}F{% endif %}", "T"},
			{"{% if 017 > 16 %}T{% else %}F{% endif %}", "T"}, {"{% for i in (08..010) %}{{ i }},{% endfor %}", "8,9,10,"}, {"{% assign z = 0012 %}{{ z }}", "12"},
			{"{{ 'abcdefghijkl' | slice: 010, 01 }}", "k"}, {"{{ 'abc' | append: 010 }}", "abc10"}, {"{% case 010 %}{% when 8 %}eight{% when 10 %}ten{% endcase %}", "ten"},
		} {
			if !r.Mine() {
				continue
			}
			res := run(engineCfg{}, c[0], env, "literals")
			if out, ok := okOut(res); !ok || out != c[1] {
				r.Violate("C08", "literal-denotes-itself", renderCaseLine(engineCfg{}, "", 0, c[0], env), fmt.Sprintf("%s: want %q got %s", c[0], c[1], res))
			}
		}
	}

	// ---- 0b. every integer literal denotes itself: powers of two, their neighbours, table sizes (no value is special)
	{
		env := map[string]*V{}
		seen := map[int64]bool{}
		var ns []int64
		add := func(n int64) {
			if !seen[n] {
				seen[n] = true
				ns = append(ns, n)
			}
		}
		for e := uint(0); e < 63; e++ {
			for d := int64(-2); d <= 2; d++ {
				add(int64(1)<<e + d)
				add(-(int64(1)<<e + d))
			}
		}
		for n := int64(0); n <= 2100; n++ {
			add(n)
		}
		for _, n := range ns {
			if !r.Mine() {
				continue
			}
			src := fmt.Sprintf("{{ %d }}|{%% assign v = %d %%}{{ v }}|{%% if %d == v %%}T{%% endif %%}", n, n, n)
			want := fmt.Sprintf("%d|%d|T", n, n)
			if n > -(1<<53) && n < 1<<53 { // arithmetic goes through float64: exact up to 2^53 (C17)
				src += fmt.Sprintf("|{{ %d | plus: 0 }}", n)
				want += fmt.Sprintf("|%d", n)
			}
			res := run(engineCfg{}, src, env, "int-literals")
			if out, ok := okOut(res); !ok || out != want {
				r.Violate("C08", "literal-denotes-itself", renderCaseLine(engineCfg{}, "", 0, src, env), fmt.Sprintf("%s: want %q got %s", src, want, res))
			}
		}
		// the size of an array or map of exactly n entries, for the same table sizes
		for _, n := range []int{255, 256, 257, 1023, 1024, 1025, 2047, 2048} {
			if !r.Mine() {
				continue
			}
			src := fmt.Sprintf("{{ (1..%d) | size }}|{{ (1..%d) | last }}|{%% assign a = (0..%d) | reverse %%}{{ a[0] }}|{{ a.size }}", n, n, n)
			want := fmt.Sprintf("%d|%d|%d|%d", n, n, n, n+1)
			res := run(engineCfg{}, src, env, "int-literals")
			if out, ok := okOut(res); !ok || out != want {
				r.Violate("C08", "literal-denotes-itself", renderCaseLine(engineCfg{}, "", 0, src, env), fmt.Sprintf("%s: want %q got %s", src, want, res))
			}
		}
		// the same literals rendered one after the other in ONE process (the sharded loop below spreads them over sixteen):
		// what a literal denotes does not depend on which sources were parsed before (implementation only)
		if r.Shard == 0 {
			lits := []string{"a b", "a  b", "a\nb", "a\tb", "a \t b", " a b", "a b ", "a\r\nb", "ab", "a   b"}
			for round := 0; round < 2; round++ {
				for _, lit := range lits {
					for _, src := range []string{"{{ \"" + lit + "\" }}", "{% assign m = '" + lit + "' %}{{ m }}", "{{ 'x' | append: \"" + lit + "\" }}"} {
						got := guard(func() string {
							out, err := liquid.NewEngine().ParseAndRenderString(src, map[string]any{})
							if err != nil {
								return "err"
							}
							return out
						})
						want := lit
						if strings.Contains(src, "append") {
							want = "x" + lit
						}
						r.Count("string-literal-history")
						if got != want {
							r.Violate("C08", "literal-denotes-itself", "exprs-literal-history "+hexField(src), fmt.Sprintf("%q renders %q, want %q (after other literals were parsed in this process)", src, got, want))
						}
					}
				}
			}
		}
		// string literals that differ only in the white space INSIDE them, parsed one after the other in one process
		for _, lit := range []string{"a b", "a  b", "a\nb", "a\tb", "a \t b", " a b", "a b ", "a\r\nb", "ab"} {
			if !r.Mine() {
				continue
			}
			src := "{{ \"" + lit + "\" }}|{{ '" + lit + "' | size }}|{% assign m = \"" + lit + "\" %}{{ m }}"
			want := lit + "|" + fmt.Sprint(len(lit)) + "|" + lit
			res := run(engineCfg{}, src, env, "string-literal-whitespace")
			if out, ok := okOut(res); !ok || out != want {
				r.Violate("C08", "literal-denotes-itself", renderCaseLine(engineCfg{}, "", 0, src, env), fmt.Sprintf("%q: want %q got %s", src, want, res))
			}
		}
	}

	// ---- 2a. maps whose key type is a DEFINED string type (type Section string): a.b, a["b"], a[k] read the entry,
	// size falls back to the entry count, a missing key is nil. Built directly as Go values (the value codec has
	// no defined key types), so these cases are judged by the oracle alone (no case line for the model). ----
	if r.Shard == 0 {
		definedKeyMapsFamily(r)
	}

	// ---- 2b. a string-keyed map has no entry for an integer: m[65] is a missing key, not the entry "A"
	// (Go's int -> string conversion makes a one-rune string) ----
	{
		env := map[string]*V{"m": VStrMap(SKV("A", VStr("va")), SKV("b", VStr("vb")), SKV("é", VStr("ve"))),
			"tm": VMap(TStr, TStr, SKV("A", VStr("va"))), "k": VKeyed(Field{"A", VStr("va")}),
			"i": i(65), "i8": VInt(1, 65), "u": VInt(5, 98), "i64": VInt(4, 233)}
		for _, src := range []string{"[{{ m[65] }}]", "[{{ m[98] }}]", "[{{ m[233] }}]", "[{{ m[i] }}]", "[{{ m[i8] }}]", "[{{ m[u] }}]", "[{{ m[i64] }}]",
			"[{{ tm[65] }}]", "[{{ tm[i] }}]", "[{{ k[65] }}]", "[{{ k[i] }}]", "{% if m[65] %}T{% else %}F{% endif %}"} {
			if !r.Mine() {
				continue
			}
			want := "[]"
			if strings.HasPrefix(src, "{%") {
				want = "F"
			}
			res := run(engineCfg{}, src, env, "int-index-of-string-map")
			if out, ok := okOut(res); !ok || out != want {
				r.Violate("C08", "missing-key-is-nil", renderCaseLine(engineCfg{}, "", 0, src, env), fmt.Sprintf("want %s got %s", want, res))
			}
		}
	}

	// ---- 3. strict variables: only an object's FINAL value ----
	if r.Mine() {
		env := map[string]*V{"x": VStr("v")}
		for _, c := range []struct {
			src string
			err bool
		}{{"{{ nope }}", true}, {"{{ x }}", false}, {"{{ nope | default: 1 }}", false}, {"{% if nope %}a{% endif %}b", false}, {"{{ x.y }}", true}} {
			res := run(engineCfg{Strict: true}, c.src, env, "strict")
			if strings.HasPrefix(res, "err ") != c.err {
				r.Violate("C08", "strict-variables-final-value-only", renderCaseLine(engineCfg{Strict: true}, "", 0, c.src, env), res)
			}
		}
	}

	// ---- 4. unknown filter / too many arguments are errors ----
	for _, src := range []string{"{{ 1 | nofilter }}", "{{ 1 | nofilter: 2 }}", "{{ 'a' | upcase: 1, 2, 3 }}", "{{ 1 | plus: 1, 2 }}", "{{ 'a' | append: 'b', 'c' }}", "{{ x | size: 1 }}"} {
		if !r.Mine() {
			continue
		}
		res := run(engineCfg{}, src, map[string]*V{"x": VAnys()}, "filter-errors")
		if !strings.HasPrefix(res, "err ") {
			r.Violate("C08", "unknown-filter-or-too-many-args-is-error", renderCaseLine(engineCfg{}, "", 0, src, map[string]*V{"x": VAnys()}), res)
		}
	}

	// ---- 4b. a filter argument may itself be a parenthesised pipeline: nested applications must not disturb the
	// outer pipeline (each pair: the nested form, and the same steps taken one at a time through assign) ----
	{
		env := map[string]*V{"x": VStr("ab"), "y": VStr("Cd"), "z": VStr("eF"), "nums": VAnys(VInt(0, 1), VInt(0, 2))}
		pairs := [][2]string{
			{"{{ x | upcase | append: (y | append: z) }}", "{% assign t1 = y | append: z %}{% assign t0 = x | upcase %}{{ t0 | append: t1 }}"},
			{"{{ x | append: (y | upcase) | append: (z | downcase) }}", "{% assign t1 = y | upcase %}{% assign t2 = z | downcase %}{{ x | append: t1 | append: t2 }}"},
			{"{{ x | upcase | replace: (y | slice: 0, 1 | downcase | upcase | replace: 'C', 'A'), (z | upcase) }}", "{% assign t1 = y | slice: 0, 1 | downcase | upcase | replace: 'C', 'A' %}{% assign t2 = z | upcase %}{% assign t0 = x | upcase %}{{ t0 | replace: t1, t2 }}"},
			{"{{ x | append: y | prepend: (z | append: (x | upcase)) }}", "{% assign t2 = x | upcase %}{% assign t1 = z | append: t2 %}{{ x | append: y | prepend: t1 }}"},
			{"{{ (x | append: y) | upcase | append: (z | size) }}", "{% assign t0 = x | append: y %}{% assign t1 = z | size %}{{ t0 | upcase | append: t1 }}"},
			{"{{ x | upcase | append: (y | append: (z | append: x)) | downcase }}", "{% assign t2 = z | append: x %}{% assign t1 = y | append: t2 %}{{ x | upcase | append: t1 | downcase }}"},
			{"{{ nums | join: (y | upcase) | append: (z | downcase) | split: (y | upcase) | size }}", "{% assign t1 = y | upcase %}{% assign t2 = z | downcase %}{{ nums | join: t1 | append: t2 | split: t1 | size }}"},
			{"{% if (x | append: (y | downcase)) contains 'bc' %}T{% else %}F{% endif %}{% assign q = x | upcase | append: (y | append: z) %}{{ q }}", "{% assign t1 = y | downcase %}{% assign t0 = x | append: t1 %}{% if t0 contains 'bc' %}T{% else %}F{% endif %}{% assign t2 = y | append: z %}{% assign q = x | upcase | append: t2 %}{{ q }}"},
		}
		for _, pr := range pairs {
			if !r.Mine() {
				continue
			}
			r1 := run(engineCfg{}, pr[0], env, "nested-pipeline")
			r2 := run(engineCfg{}, pr[1], env, "nested-pipeline-assign")
			if r1 != r2 {
				r.Violate("C08", "pipeline-equals-assign-decomposition", renderCaseLine(engineCfg{}, "", 0, pr[0], env), fmt.Sprintf("%q => %s ; stepwise %q => %s", pr[0], r1, pr[1], r2))
			}
		}
	}

	// ---- 5. generated pipelines: x | f: a | g  ==  assign t = x | f: a ; {{ t | g }}  and whitespace variants ----
	n := 2500
	if r.Tier == "thorough" {
		n = 40000
	}
	o := DefaultTmplOpts()
	o.ValidPct = 100
	wsKinds := []string{" ", "  ", "\t", "\n", "\r\n", " \n "}
	for k := 0; k < n; k++ {
		if !r.Mine() {
			// keep the RNG in step across shards
			_ = GenSchema(g, o)
			continue
		}
		sc := GenSchema(g, o)
		env := GenEnv(g, o, sc)
		c := newGctx(g, o, sc)
		c.mode = modeValid
		base := c.filtered(kAny, 2)
		// (a) whitespace: replace every space outside string literals by another whitespace run
		variant := respace(g, base, wsKinds)
		src1 := "[{{ " + base + " }}]"
		src2 := "[{{" + g.Pick(wsKinds) + variant + g.Pick(wsKinds) + "}}]"
		r1 := run(engineCfg{}, src1, env, "pipeline")
		r2 := run(engineCfg{}, src2, env, "pipeline-ws")
		if canonNoLine(r1) != canonNoLine(r2) {
			r.Violate("C08", "whitespace-between-parts-changes-meaning", renderCaseLine(engineCfg{}, "", 0, src2, env), fmt.Sprintf("base %q => %s ; variant => %s", src1, r1, r2))
		}
		// (b) assign decomposition at the last top-level pipe
		if cut := lastTopLevelPipe(base); cut > 0 {
			head, tail := strings.TrimSpace(base[:cut]), strings.TrimSpace(base[cut+1:])
			src3 := "{% assign zz_t = " + head + " %}[{{ zz_t | " + tail + " }}]"
			r3 := run(engineCfg{}, src3, env, "pipeline-assign")
			if _, ok := okOut(r1); ok && r1 != r3 {
				r.Violate("C08", "pipeline-equals-assign-decomposition", renderCaseLine(engineCfg{}, "", 0, src3, env), fmt.Sprintf("%q => %s ; decomposed => %s", src1, r1, r3))
			}
		}
		// (c) the same whitespace law inside a tag
		src4 := "{% assign zz_u = " + base + " %}[{{ zz_u }}]"
		src5 := "{%" + g.Pick(wsKinds) + "assign" + g.Pick(wsKinds) + "zz_u" + g.Pick(wsKinds) + "=" + g.Pick(wsKinds) + variant + g.Pick(wsKinds) + "%}[{{ zz_u }}]"
		r4 := run(engineCfg{}, src4, env, "tag")
		r5 := run(engineCfg{}, src5, env, "tag-ws")
		if canonNoLine(r4) != canonNoLine(r5) {
			r.Violate("C08", "whitespace-between-parts-changes-meaning", renderCaseLine(engineCfg{}, "", 0, src5, env), fmt.Sprintf("base %q => %s ; variant => %s", src4, r4, r5))
		}
	}
}

// canonNoLine drops the line number of an error result (a newline inside a tag moves later lines,
// never the tag's own first line; the templates here are single constructs, so only the kind matters).
func canonNoLine(res string) string {
	f := strings.Fields(res)
	if len(f) >= 5 && f[0] == "err" {
		return f[0] + " " + f[1] + " " + f[4]
	}
	return res
}

// respace replaces each run of spaces outside quotes by a random whitespace run.
func respace(g *RNG, s string, kinds []string) string {
	var sb strings.Builder
	var quote byte
	for k := 0; k < len(s); k++ {
		ch := s[k]
		switch {
		case quote != 0:
			sb.WriteByte(ch)
			if ch == quote {
				quote = 0
			}
		case ch == '"' || ch == '\'':
			quote = ch
			sb.WriteByte(ch)
		case ch == ' ':
			for k+1 < len(s) && s[k+1] == ' ' {
				k++
			}
			sb.WriteString(g.Pick(kinds))
		default:
			sb.WriteByte(ch)
		}
	}
	return sb.String()
}

// lastTopLevelPipe finds the last '|' that is outside quotes, brackets and parentheses.
func lastTopLevelPipe(s string) int {
	depth, last := 0, -1
	var quote byte
	for k := 0; k < len(s); k++ {
		ch := s[k]
		switch {
		case quote != 0:
			if ch == quote {
				quote = 0
			}
		case ch == '"' || ch == '\'':
			quote = ch
		case ch == '(' || ch == '[':
			depth++
		case ch == ')' || ch == ']':
			depth--
		case ch == '|' && depth == 0:
			last = k
		}
	}
	return last
}

type exprsSection string
type exprsLevel int

// definedKeyMapsFamily: see section 2a of exprsStream.
func definedKeyMapsFamily(r *Run) {
	type tc struct {
		src, want string
	}
	envs := []map[string]any{
		{"m": map[exprsSection]any{"intro": "I", "body": 3, "end": nil}, "k": "body", "dk": exprsSection("intro")},
		{"m": map[exprsSection]string{"intro": "I", "body": "3"}, "k": "body", "dk": exprsSection("intro")},
		{"m": &map[exprsSection]any{"intro": "I", "body": 3}, "k": "body", "dk": exprsSection("intro")},
		{"m": map[string]any{"intro": "I", "body": 3}, "k": exprsSection("body"), "dk": exprsSection("intro")},
		{"m": []any{map[exprsSection]any{"intro": "I", "body": 3}}, "k": "body", "dk": exprsSection("intro"), "nested": true},
	}
	cases := []tc{
		{"[{{ m.intro }}][{{ m[\"intro\"] }}][{{ m.body }}][{{ m[k] }}][{{ m[dk] }}]", "[I][I][3][3][I]"},
		{"[{{ m.missing }}][{{ m[\"missing\"] }}][{{ m.size }}]", "[][][SIZE]"},
		{"{% if m.intro == \"I\" %}T{% else %}F{% endif %}{% if m contains \"body\" %}T{% else %}F{% endif %}", "TT"},
		{"{% assign t = m.intro | append: \"!\" %}{{ t }}", "I!"},
	}
	for ei, env := range envs {
		for _, c := range cases {
			src, want := c.src, c.want
			n := 2
			if mm, ok := env["m"].(map[exprsSection]any); ok {
				n = len(mm)
			}
			want = strings.ReplaceAll(want, "SIZE", fmt.Sprint(n))
			if env["nested"] == true {
				src = strings.ReplaceAll(strings.ReplaceAll(src, "m.", "m[0]."), "m[", "m[0][")
				src = strings.ReplaceAll(src, "m[0][0].", "m[0].")
				src = strings.ReplaceAll(src, "m contains", "m[0] contains")
			}
			b := map[string]any{}
			for k, v := range env {
				if k != "nested" {
					b[k] = v
				}
			}
			res := guard(func() string {
				out, err := liquid.NewEngine().ParseAndRenderString(src, b)
				if err != nil {
					return "err " + err.Error()
				}
				return "ok " + out
			})
			r.Count("defined-key-maps")
			if res != "ok "+want {
				r.Violate("C08", "map-property-and-index", fmt.Sprintf("exprs-defined-key-map %d %s", ei, hexField(src)),
					fmt.Sprintf("bindings %T: %q renders %s, want %q", env["m"], src, res, want))
			}
		}
	}
}
