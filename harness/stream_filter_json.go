package main

// The value filters json / inspect / type in the `filter` stream (model: lean/Liquid/Filters/Json.lean).
//
// Cases: every value of the boundary universe (gen_val.go) as receiver, a fixed family of encoding/json edge cases
// (jsonEdgeFamily), over-arity calls, random value trees with random strings and floats.
//
// Oracle on the REAL result, independent of the model (a panic is reported as a C01 violation, a dependence on the map
// insertion order as a C02 violation - the configuration of C17, which runs the stream, lists both under "also" - the
// other clauses under the property that runs the stream):
//   * no panic;
//   * the text `json` (and `inspect`, when json.Marshal accepts the value) returns parses back with encoding/json to the
//     expected logical value of the receiver (jsonLogical: the value tree read as JSON data - numbers exactly, floats
//     to the same float, strings with invalid bytes replaced by U+FFFD, []byte as base64, maps as objects ...), for the kinds
//     where that is well defined;
//   * the text is identical for 4 insertion orders of every Go map in the receiver.

import (
	"bytes"
	"encoding/base64"
	"encoding/json"
	"fmt"
	"math"
	"math/big"
	"os"
	"strconv"
	"strings"
	"time"

	"github.com/osteele/liquid/expressions"
)

var jsonFilterNames = []string{"json", "inspect", "type"}

// propUnderCheck: the property whose check runs this process (VERIF_PROP is set by ./check).
func propUnderCheck(dflt string) string {
	if p := os.Getenv("VERIF_PROP"); p != "" {
		return p
	}
	return dflt
}

// filterEvalWith is filterEval with the Go values built by rz (map insertion orders).
func filterEvalWith(rz *realiser, name string, recv *V, args []*V) (out any, err error, panicked bool) {
	defer func() {
		if r := recover(); r != nil {
			panicked = true
			lastPanic = fmt.Sprint(r)
		}
	}()
	bindings := map[string]any{"x": rz.val(recv)}
	for i, a := range args {
		bindings[fmt.Sprintf("a%d", i)] = rz.val(a)
	}
	out, err = expressions.EvaluateString(filterExprSource(name, len(args)), expressions.NewContext(bindings, stdFilterConfig))
	return
}

// ---- expected logical value ----------------------------------------------------------------

type jsonFloatSpec struct {
	bits int
	f    float64
}

// jsonTop: what the expression evaluator hands to the filter: drops resolved (recursively), pointers followed.
func jsonTop(v *V) *V {
	for v.Kind == 'P' || v.Kind == 'D' {
		v = v.In
	}
	return v
}

// jsonLogical reads a value tree (below the top level: drops are Go structs without exported fields) as JSON data.
// ok=false: not well defined (json.Marshal rejects it, or the Go value is not determined by the tree).
func jsonLogical(v *V) (any, bool) {
	switch v.Kind {
	case 'n', 'N':
		return nil, true
	case 't':
		return true, true
	case 'f':
		return false, true
	case 'i':
		return new(big.Int).Set(v.I), true
	case 'd':
		f, _ := new(big.Rat).SetFrac(v.Num, v.Den).Float64()
		if v.IK == 0 {
			return jsonFloatSpec{32, float64(float32(f))}, true
		}
		return jsonFloatSpec{64, f}, true
	case 's':
		return string([]rune(v.S)), true // every invalid byte is one U+FFFD
	case 'b':
		return base64.StdEncoding.EncodeToString([]byte(v.S)), true
	case 'L', 'A':
		if v.Kind == 'L' && v.Ty.C == 'i' && v.Ty.K == 6 {
			return nil, false // []uint8 is []byte
		}
		out := []any{}
		for _, x := range v.Xs {
			if x.Kind == 'n' && v.Ty.C != 'a' {
				return nil, false // zero value of the element type
			}
			e, ok := jsonLogical(x)
			if !ok {
				return nil, false
			}
			out = append(out, e)
		}
		return out, true
	case 'M':
		if v.KTy.C != 's' && v.KTy.C != 'i' {
			return nil, false
		}
		out := map[string]any{}
		for _, kv := range v.KVs {
			var key string
			switch kv[0].Kind {
			case 's':
				key = string([]rune(kv[0].S))
			case 'i':
				key = kv[0].I.String()
			default:
				return nil, false
			}
			if kv[1].Kind == 'n' && v.VTy.C != 'a' {
				return nil, false
			}
			e, ok := jsonLogical(kv[1])
			if !ok {
				return nil, false
			}
			if _, dup := out[key]; dup {
				return nil, false // two byte strings that differ only in invalid bytes
			}
			out[key] = e
		}
		return out, true
	case 'S':
		out := []any{}
		for _, kv := range v.KVs {
			k, ok1 := jsonLogical(kv[0])
			e, ok2 := jsonLogical(kv[1])
			if !ok1 || !ok2 {
				return nil, false
			}
			out = append(out, map[string]any{"Key": k, "Value": e})
		}
		return out, true
	case 'K', 'T':
		out := map[string]any{}
		for i, f := range v.Fs {
			e, ok := jsonLogical(f.V)
			if !ok {
				return nil, false
			}
			key := string([]rune(f.Name))
			if v.Kind == 'T' {
				key = fmt.Sprintf("F%d", i) // the Go field names of the struct types Realise builds
			}
			if _, dup := out[key]; dup {
				return nil, false
			}
			out[key] = e
		}
		return out, true
	case 'R', 'D':
		return map[string]any{}, true // structs without exported fields
	case 'P':
		return jsonLogical(v.In)
	case 'U':
		t := time.Unix(v.A, 0).UTC()
		if t.Year() < 0 || t.Year() > 9999 {
			return nil, false
		}
		return t.Format(time.RFC3339), true
	}
	return nil, false
}

func jsonSame(got, want any) bool {
	switch w := want.(type) {
	case nil:
		return got == nil
	case bool:
		g, ok := got.(bool)
		return ok && g == w
	case *big.Int:
		g, ok := got.(json.Number)
		if !ok {
			return false
		}
		n, ok := new(big.Int).SetString(string(g), 10)
		return ok && n.Cmp(w) == 0
	case jsonFloatSpec:
		g, ok := got.(json.Number)
		if !ok {
			return false
		}
		f, err := strconv.ParseFloat(string(g), w.bits)
		return err == nil && f == w.f && !(f == 0 && math.Signbit(f) != math.Signbit(w.f))
	case string:
		g, ok := got.(string)
		return ok && g == w
	case []any:
		g, ok := got.([]any)
		if !ok || len(g) != len(w) {
			return false
		}
		for i := range w {
			if !jsonSame(g[i], w[i]) {
				return false
			}
		}
		return true
	case map[string]any:
		g, ok := got.(map[string]any)
		if !ok || len(g) != len(w) {
			return false
		}
		for k, x := range w {
			y, ok := g[k]
			if !ok || !jsonSame(y, x) {
				return false
			}
		}
		return true
	}
	return false
}

func jsonParse(s string) (any, error) {
	dec := json.NewDecoder(strings.NewReader(s))
	dec.UseNumber()
	var v any
	if err := dec.Decode(&v); err != nil {
		return nil, err
	}
	if dec.More() {
		return nil, fmt.Errorf("trailing data")
	}
	return v, nil
}

// jsonFilterCase: one `filter` case of json/inspect/type on the real code, with the oracle; the result line is the one
// filterCase gives.
func jsonFilterCase(r *Run, line, name string, recv *V, args []*V, g *RNG) string {
	prop := propUnderCheck("C17")
	out, err, panicked := filterEval(name, recv, args)
	switch {
	case panicked:
		r.Violate("C01", "panic", line, lastPanic) // C17's configuration lists C01 and C02 under "also"
		return "panic"
	case err != nil:
		return "err " + filterCauseKind(err)
	}
	res := guard(func() string { return "ok " + Reify(out).Enc() })
	if name == "type" || len(args) > 0 {
		return res
	}
	text, isText := out.(string)
	if !isText {
		r.Violate(prop, "json-result-not-text", line, fmt.Sprintf("%s returned a %T", name, out))
		return res
	}
	if want, ok := jsonLogical(jsonTop(recv)); ok {
		r.Count("json-oracle=parse-back")
		got, perr := jsonParse(text)
		switch {
		case perr != nil:
			r.Violate(prop, "json-does-not-parse", line, fmt.Sprintf("%s printed %q: %v", name, short(text, 300), perr))
		case !jsonSame(got, want):
			r.Violate(prop, "json-parses-to-another-value", line, fmt.Sprintf("%s printed %q", name, short(text, 300)))
		}
		if bytes.ContainsAny([]byte(text), "<>&") || strings.Contains(text, "\u2028") || strings.Contains(text, "\u2029") {
			r.Violate(prop, "json-unescaped-html", line, fmt.Sprintf("%s printed %q", name, short(text, 300)))
		}
	} else {
		r.Count("json-oracle=no-logical-value")
	}
	// the 4 insertion orders of every map in the receiver
	n := 0
	orders := []func(n int) []int{
		func(n int) []int {
			p := make([]int, n)
			for i := range p {
				p[i] = n - 1 - i
			}
			return p
		},
		func(n int) []int { return shufflePerm(g, n) },
		func(n int) []int { return shufflePerm(g, n) },
	}
	for _, o := range orders {
		out2, err2, panicked2 := filterEvalWith(&realiser{perm: o}, name, recv, args)
		n++
		if panicked2 || err2 != nil || fmt.Sprint(out2) != text {
			r.Violate("C02", "json-depends-on-map-insertion-order", line,
				fmt.Sprintf("%s printed %q for the maps built in key order and %q (err %v, panic %v) for another insertion order", name, short(text, 300), short(fmt.Sprint(out2), 300), err2, panicked2))
			break
		}
	}
	return res
}

func shufflePerm(g *RNG, n int) []int {
	p := make([]int, n)
	for i := range p {
		p[i] = i
	}
	for i := n - 1; i > 0; i-- {
		j := g.Intn(i + 1)
		p[i], p[j] = p[j], p[i]
	}
	return p
}

// ---- the fixed family ------------------------------------------------------------------------

func jsonEdgeFamily() []*V {
	i := func(n int64) *V { return VInt(0, n) }
	s := VStr
	out := []*V{}
	// strings
	for _, x := range []string{"<", ">", "&", "<script>alert('x' & \"y\")</script>", "\"", "\\", "\"\\\"", "a\"b\\c/d'e", "/", "'",
		"\x00", "\x01\x02\x1e\x1f", "\x7f", "\b\f\n\r\t", "\x0b", " \x1f ", "\u2028", "\u2029", "a\u2028b\u2029c", "\u2027\u202a", "\ufffd", "\ufeff",
		"\xff", "a\xffb", "\xc3", "a\xc3", "\xc3(", "\xe2\x80", "\xe2\x80\xa8", "\xe2\x80\xa9", "\xe2\x80\xaa", "\xed\xa0\x80", "\xed\x9f\xbf", "\xf4\x90\x80\x80", "\xf4\x8f\xbf\xbf",
		"\xc0\x80", "\xc1\xbf", "\xc2\x80", "\xe0\x80\x80", "\xe0\xa0\x80", "\xf0\x80\x80\x80", "\xf0\x90\x80\x80", "\xf5\x80\x80\x80", "\x80", "\xbf\xbf", "é😀\xff<",
		"é", "😀", "日本語", strings.Repeat("<&>\"\\\n\xff\u2028é", 20)} {
		out = append(out, s(x))
	}
	// floats: the format switches at 1e-6 and 1e21, exponents are cleaned up below e-10 only
	for _, f := range []float64{1e20, 1e21, 1e22, 1e-6, 1e-7, 0.1, 100, -2.5, 1e15, 1e16, 1e17, 123456789012345680000, 999999999999999900000, 1.5e-7, 9.999999e-7,
		0.0000012, 1e-9, 1e-10, 1e-11, 1e-100, 1e100, 1.25e-300, 5e-324, math.MaxFloat64, 2.2250738585072014e-308, 0.30000000000000004, 1.0 / 3, 1 << 53, 1<<53 + 2,
		123456.789, -1e21, -1e-7, -0.000001, 12345678901234567890, 1e6, 1234567, 0.5} {
		out = append(out, VFlt(1, f))
	}
	for _, f := range []float32{1e-6, 9.999999e-7, 1.0000001e-6, 1e-7, 1e21, 9.999999e20, 1.0000001e21, 0.1, 16777216, 3.4028235e38, 1e-45, 1.17549435e-38, 100, -2.5, 1e20, 1e-10} {
		out = append(out, VFlt(0, float64(f)))
	}
	// integers at the width boundaries
	for k, w := range []uint{64, 8, 16, 32, 64} {
		out = append(out, VInt(k, -1<<(w-1)), VInt(k, 1<<(w-1)-1))
	}
	for k, w := range []uint{64, 8, 16, 32, 64} {
		out = append(out, VInt(5+k, 0), VBig(5+k, new(big.Int).Sub(new(big.Int).Lsh(big.NewInt(1), w), big.NewInt(1))))
	}
	// []byte
	for _, b := range []string{"", "a", "ab", "abc", "abcd", "abcde", "\x00", "\xff\xff\xff", "\xfb\xef\xbe", "\x00\x10\x83\x10\x51\x87\x20\x92\x8b", "<>&"} {
		out = append(out, VBytes(b))
	}
	// containers
	out = append(out,
		VAnys(VAnys(), VStrMap(), VMapSlice(), VArr(TAny), VStruct(), VBytes("")), VAnys(VAnys(VAnys(VAnys(i(1))))), VAnys(VNil(), VBool(true), VBool(false), i(0), s("")),
		VArr(TAny), VArr(TInt(0), i(1), i(2)), VArr(TInt(6), VInt(6, 1), VInt(6, 255)), VSlice(TInt(0)), VSlice(TStr), VSlice(TFlt(0), VFlt(0, float64(float32(0.1))), VFlt(0, float64(float32(1e21)))),
		VSlice(TBool, VBool(true)), VSlice(TSlice(TAny), VAnys(i(1)), VAnys()), VSlice(TMap(TStr, TAny), VStrMap(SKV("a", i(1))), VStrMap()),
		VSlice(TSlice(TAny), VNil()), VSlice(TMap(TStr, TAny), VNil()), VSlice(TMap(TBool, TInt(0))), VSlice(TMap(TBool, TInt(0)), VNil()),
		// maps: key order, keys that need escaping, integer keys (sorted as text), typed values
		VStrMap(SKV("b", i(1)), SKV("a", i(2)), SKV("B", i(3)), SKV("aa", i(4)), SKV("", i(5)), SKV("é", i(6)), SKV("a b", i(7)), SKV("~", i(8))),
		VStrMap(SKV("<k>", s("<v>")), SKV("\"q\"", s("&")), SKV("\n", VNil()), SKV("\xff", i(1)), SKV("\u2028", i(2))),
		VStrMap(SKV("\xff", i(1)), SKV("\xfe", i(2))),
		VStrMap(SKV("a", VStrMap(SKV("z", i(1)), SKV("y", VStrMap(SKV("c", VAnys(VStrMap(SKV("n", VNil()), SKV("m", i(1))))), SKV("b", i(2)))))), SKV("A", VAnys())),
		VMap(TInt(0), TAny, KV(i(10), s("b")), KV(i(9), s("a")), KV(i(-1), s("c")), KV(i(0), VNil()), KV(i(100), i(1)), KV(i(-10), i(2))),
		VMap(TInt(4), TStr, KV(VInt(4, math.MaxInt64), s("max")), KV(VInt(4, math.MinInt64), s("min"))),
		VMap(TInt(6), TInt(0), KV(VInt(6, 200), i(1)), KV(VInt(6, 3), i(2)), KV(VInt(6, 30), i(3))),
		VMap(TInt(9), TAny, KV(VBig(9, new(big.Int).SetUint64(math.MaxUint64)), i(1)), KV(VInt(9, 2), i(2))),
		VMap(TStr, TInt(0), SKV("y", i(1)), SKV("x", i(3))), VMap(TStr, TStr, SKV("y", s("<")), SKV("x", s("\xff"))), VMap(TStr, TSlice(TAny), SKV("a", VAnys(i(1))), SKV("b", VNil())),
		VMap(TStr, TFlt(1), SKV("a", VFlt(1, 1e21)), SKV("b", VFlt(1, 1e-7))), VMap(TStr, TBytes, SKV("a", VBytes("hi")), SKV("b", VNil())),
		VMap(TStr, TMap(TStr, TInt(0)), SKV("a", VMap(TStr, TInt(0), SKV("q", i(1)))), SKV("b", VNil())),
		// map types json.Marshal rejects
		VMap(TAny, TAny), VMap(TAny, TAny, KV(s("a"), i(1))), VMap(TBool, TInt(0), KV(VBool(true), i(1))), VMap(TFlt(1), TAny, KV(VFlt(1, 1.5), i(1))),
		VAnys(i(1), VMap(TAny, TAny, KV(i(1), i(2)))), VStrMap(SKV("a", VMap(TBool, TInt(0)))), VMapSlice(SKV("a", VMap(TFlt(1), TAny))), VStruct(Field{"a", VMap(TAny, TAny)}),
		VMap(TStr, TMap(TBool, TInt(0))), VMap(TStr, TMap(TBool, TInt(0)), SKV("a", VNil())), VPtr(VMap(TAny, TAny)), VAnys(VDrop(VMap(TAny, TAny))),
		// ordered maps, keyed maps, structs, ranges, drops, pointers, times
		VMapSlice(SKV("b", i(1)), SKV("a", VNil()), KV(VNil(), i(2)), KV(i(3), VAnys(s("<"))), KV(VStrMap(SKV("k", i(1))), VMapSlice(SKV("x", i(1))))),
		VKeyed(Field{"k2", i(2)}, Field{"k1", VAnys(s("&"))}, Field{"", VNil()}), VKeyed(),
		VStruct(Field{"a", i(1)}, Field{"b", VAnys(VStruct(Field{"c", VNil()}))}, Field{"<", s(">")}), VAnys(VStruct(), VStruct(Field{"x", VFlt(1, 0.5)})),
		VRange(1, 3), VAnys(VRange(1, 3), VRange(5, 1)), VStrMap(SKV("r", VRange(0, 0))),
		VDrop(VStrMap(SKV("b", VDrop(i(1))), SKV("a", i(2)))), VAnys(VDrop(VDrop(i(1))), VPtr(VDrop(s("x")))), VDrop(VDrop(VAnys(VDrop(i(1))))), VDrop(VNil()), VPtr(VDrop(VNil())),
		VPtr(VAnys()), VPtr(VStrMap(SKV("b", i(1)), SKV("a", i(2)))), VPtr(VPtr(s("<"))), VPtr(VNil()), VAnys(VPtr(VNil()), VNilPtr(), VPtr(VPtr(i(1)))), VPtr(VNilPtr()),
		VPtr(VStruct(Field{"a", i(1)})), VPtr(VRange(1, 2)), VPtr(VTime(0)), VStrMap(SKV("p", VPtr(VStruct(Field{"a", VNilPtr()})))),
		VTime(0), VTime(1), VTime(-1), VTime(951782400), VTime(951868800), VTime(4107542399), VTime(-62135596800), VTime(-62167219200), VTime(-62167219201), VTime(253402300799), VTime(253402300800),
		VTime(-2208988800), VTime(1709164800), VTime(1e15), VAnys(VTime(86399), VTime(1e12)), VStrMap(SKV("t", VTime(1700000000))),
	)
	return out
}

// randomJSONVal: a random value tree whose scalars include random strings and floats.
func randomJSONVal(g *RNG, depth int) *V {
	if depth <= 0 || g.Chance(45) {
		switch g.Intn(8) {
		case 0, 1:
			x, _ := randomStrfString(g, 60)
			return VStr(x)
		case 2:
			return VFlt(1, randomFloat(g))
		case 3:
			return VFlt(0, f32of(randomFloat(g)))
		case 4:
			x, _ := randomStrfString(g, 12)
			return VBytes(x)
		case 5:
			return randomNumberV(g)
		default:
			u := scalarUniverse()
			return u[g.Intn(len(u))]
		}
	}
	kids := func(max int) []*V {
		xs := make([]*V, g.Intn(max+1))
		for k := range xs {
			xs[k] = randomJSONVal(g, depth-1)
		}
		return xs
	}
	key := func() string {
		if g.Chance(70) {
			return g.Pick([]string{"a", "b", "c", "B", "aa", "", "k1", "k10", "k2", "<", "é", "z"})
		}
		x, _ := randomStrfString(g, 6)
		return x
	}
	switch g.Intn(12) {
	case 0, 1:
		return VAnys(kids(4)...)
	case 2, 3:
		var kvs [][2]*V
		seen := map[string]bool{}
		for _, x := range kids(6) {
			k := key()
			if !seen[k] {
				seen[k] = true
				kvs = append(kvs, SKV(k, x))
			}
		}
		return VStrMap(kvs...)
	case 4:
		var kvs [][2]*V
		seen := map[int]bool{}
		for _, x := range kids(5) {
			k := g.Intn(41) - 20
			if g.Chance(20) {
				k *= 1000003
			}
			if !seen[k] {
				seen[k] = true
				kvs = append(kvs, KV(VInt(0, int64(k)), x))
			}
		}
		return VMap(TInt(0), TAny, kvs...)
	case 5:
		var kvs [][2]*V
		for _, x := range kids(3) {
			kvs = append(kvs, SKV(key(), x))
		}
		return VMapSlice(kvs...)
	case 6:
		return VDrop(randomJSONVal(g, depth-1))
	case 7:
		return VPtr(randomJSONVal(g, depth-1))
	case 8:
		var fs []Field
		for _, x := range kids(3) {
			fs = append(fs, Field{key(), x})
		}
		if g.Bool() {
			seen := map[string]bool{}
			var ks []Field
			for _, f := range fs {
				if !seen[f.Name] {
					seen[f.Name] = true
					ks = append(ks, f)
				}
			}
			return VKeyed(ks...)
		}
		return VStruct(fs...)
	case 9:
		return VArr(TAny, kids(3)...)
	case 10:
		cu := containerUniverse()
		return cu[g.Intn(len(cu))]
	default:
		return randomVal(g, depth)
	}
}

// jsonFilterCases enumerates the json/inspect/type cases of the `filter` stream.
func jsonFilterCases(r *Run, g *RNG) {
	emit := func(fam, name string, recv *V, args ...*V) {
		if !r.Mine() {
			return
		}
		line := filterCaseLine(name, recv, args)
		res := jsonFilterCase(r, line, name, recv, args, g)
		r.Count("filter=" + name)
		r.Count("json-family=" + fam)
		r.Count("nargs=" + fmt.Sprint(len(args)))
		r.Count("result=" + strings.SplitN(res, " ", 2)[0])
		if strings.HasPrefix(res, "err ") {
			r.Count(res)
		}
		if strings.HasPrefix(res, "ok") {
			r.Nontrivial(line)
		}
		r.Emit(line, res)
	}
	for _, name := range jsonFilterNames {
		for _, recv := range fullUniverse() {
			emit("universe", name, recv)
		}
		for _, recv := range jsonEdgeFamily() {
			emit("edge", name, recv)
		}
		// one argument too many (parity), also on a receiver that does not convert
		emit("arity", name, VInt(0, 7), VInt(0, 1))
		emit("arity", name, VDrop(VNil()), VInt(0, 1))
		emit("arity", name, VStr("x"), VInt(0, 1), VInt(0, 2))
	}
	n := 3000
	if r.Tier == "thorough" {
		n = 60000
	}
	for k := 0; k < n; k++ {
		name := jsonFilterNames[g.Intn(len(jsonFilterNames))]
		if g.Chance(50) {
			name = "json"
		}
		emit("random", name, randomJSONVal(g, 3))
	}
}
