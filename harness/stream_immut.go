package main

// Stream `immut` (property C03): rendering never changes the caller's bindings nor the parsed
// template; renders are independent of the engine's and template's history; assign / capture /
// loop / forloop / cycle state never survives into a later render.
//
// Case line:   immut <cfg> <nT> <srchex>{nT} <nE> <envenc>{nE} <op>{2..40}
//   op = <template index>:<environment index>:<api>, api in
//        R tpl.Render   S tpl.RenderString   F tpl.FRender   P engine.ParseAndRender (fresh parse on the shared engine)
// Result line: one canonical result per op, joined by `|`:  ok:<hex> or err:<kind>:<line>:<pathhex>:<cause> or panic
//
// One engine and one parsed Template per source serve the whole sequence. The environments are
// realised once per sequence (they are the caller's objects and live across the renders); every
// slice is given spare capacity filled with a sentinel so that an append through the caller's
// backing array is visible. Before each render the environment is deep-snapshotted (reflect
// walk: slice length, capacity and every element up to the capacity, map entries, struct fields
// including unexported ones, pointer targets, and the identity of every slice/map/pointer);
// after the render the snapshot must be unchanged. Each result must equal the result of the same
// (template, environment) rendered alone on a fresh engine with freshly built bindings.

import (
	"bytes"
	"fmt"
	"reflect"
	"sort"
	"strconv"
	"strings"
	"time"

	"github.com/osteele/liquid"
)

func init() {
	streams["immut"] = immutStream
	replayers["immut"] = func(r *Run, f []string) string {
		c, ok := parseImmutCase(f)
		if !ok {
			return "bad-case"
		}
		return immutCase(r, c, strings.Join(f, " "))
	}
}

// ---- deep snapshot ------------------------------------------------------------------------------

type snapshotter struct {
	sb   strings.Builder
	seen map[uintptr]bool
}

// snapshot renders everything reachable from v into a canonical string.
func snapshot(v any) string {
	s := &snapshotter{seen: map[uintptr]bool{}}
	s.walk(reflect.ValueOf(v), 0)
	return s.sb.String()
}

func (s *snapshotter) walk(rv reflect.Value, depth int) {
	if !rv.IsValid() {
		s.sb.WriteString("<nil>")
		return
	}
	if depth > 24 {
		s.sb.WriteString("<deep>")
		return
	}
	switch rv.Kind() {
	case reflect.Interface:
		if rv.IsNil() {
			s.sb.WriteString("<nil>")
			return
		}
		s.walk(rv.Elem(), depth+1)
	case reflect.Ptr:
		if rv.IsNil() {
			s.sb.WriteString("(" + rv.Type().String() + ")nil")
			return
		}
		fmt.Fprintf(&s.sb, "&%x:", rv.Pointer())
		if s.seen[rv.Pointer()] {
			s.sb.WriteString("<seen>")
			return
		}
		s.seen[rv.Pointer()] = true
		s.walk(rv.Elem(), depth+1)
	case reflect.Slice:
		if rv.IsNil() {
			s.sb.WriteString(rv.Type().String() + "(nil)")
			return
		}
		fmt.Fprintf(&s.sb, "%s@%x len=%d cap=%d[", rv.Type().String(), rv.Pointer(), rv.Len(), rv.Cap())
		full := rv.Slice(0, rv.Cap()) // the spare capacity is the caller's memory too
		for i := 0; i < full.Len(); i++ {
			if i == rv.Len() {
				s.sb.WriteString("| ")
			}
			s.walk(full.Index(i), depth+1)
			s.sb.WriteByte(' ')
		}
		s.sb.WriteByte(']')
	case reflect.Array:
		s.sb.WriteString(rv.Type().String() + "[")
		for i := 0; i < rv.Len(); i++ {
			s.walk(rv.Index(i), depth+1)
			s.sb.WriteByte(' ')
		}
		s.sb.WriteByte(']')
	case reflect.Map:
		if rv.IsNil() {
			s.sb.WriteString(rv.Type().String() + "(nil)")
			return
		}
		fmt.Fprintf(&s.sb, "%s@%x{", rv.Type().String(), rv.Pointer())
		type ent struct{ k, v string }
		var ents []ent
		iter := rv.MapRange()
		for iter.Next() {
			ks := &snapshotter{seen: s.seen}
			ks.walk(iter.Key(), depth+1)
			vs := &snapshotter{seen: s.seen}
			vs.walk(iter.Value(), depth+1)
			ents = append(ents, ent{ks.sb.String(), vs.sb.String()})
		}
		sort.Slice(ents, func(i, j int) bool { return ents[i].k < ents[j].k })
		for _, e := range ents {
			s.sb.WriteString(e.k + ":" + e.v + ", ")
		}
		s.sb.WriteByte('}')
	case reflect.Struct:
		s.sb.WriteString(rv.Type().String() + "{")
		for i := 0; i < rv.NumField(); i++ {
			s.sb.WriteString(rv.Type().Field(i).Name + ":")
			s.walk(rv.Field(i), depth+1)
			s.sb.WriteByte(' ')
		}
		s.sb.WriteByte('}')
	case reflect.String:
		s.sb.WriteString(strconv.Quote(rv.String()))
	case reflect.Bool:
		fmt.Fprintf(&s.sb, "%v", rv.Bool())
	case reflect.Int, reflect.Int8, reflect.Int16, reflect.Int32, reflect.Int64:
		fmt.Fprintf(&s.sb, "%s(%d)", rv.Type().String(), rv.Int())
	case reflect.Uint, reflect.Uint8, reflect.Uint16, reflect.Uint32, reflect.Uint64, reflect.Uintptr:
		fmt.Fprintf(&s.sb, "%s(%d)", rv.Type().String(), rv.Uint())
	case reflect.Float32, reflect.Float64:
		fmt.Fprintf(&s.sb, "%s(%x)", rv.Type().String(), rv.Float())
	case reflect.Func, reflect.Chan, reflect.UnsafePointer:
		fmt.Fprintf(&s.sb, "%s@%x", rv.Type().String(), rv.Pointer())
	default:
		s.sb.WriteString("<" + rv.Kind().String() + ">")
	}
}

// snapshotDiff describes where two snapshots first differ.
func snapshotDiff(a, b string) string {
	i := 0
	for i < len(a) && i < len(b) && a[i] == b[i] {
		i++
	}
	lo := i - 120
	if lo < 0 {
		lo = 0
	}
	return fmt.Sprintf("before ...%s   after ...%s", short(a[lo:], 300), short(b[lo:], 300))
}

// ---- case ------------------------------------------------------------------------------------------

type immutOp struct {
	t, e int
	api  byte
}

type immutCaseT struct {
	cfg  engineCfg
	srcs []string
	envs []map[string]*V
	ops  []immutOp
}

func (c immutCaseT) line() string {
	var sb strings.Builder
	fmt.Fprintf(&sb, "immut %s %d", c.cfg.Enc(), len(c.srcs))
	for _, s := range c.srcs {
		sb.WriteString(" " + hexField(s))
	}
	fmt.Fprintf(&sb, " %d", len(c.envs))
	for _, e := range c.envs {
		sb.WriteString(" " + EncEnv(e))
	}
	for _, o := range c.ops {
		fmt.Fprintf(&sb, " %d:%d:%c", o.t, o.e, o.api)
	}
	return sb.String()
}

func parseImmutCase(f []string) (c immutCaseT, ok bool) {
	defer func() {
		if recover() != nil {
			ok = false
		}
	}()
	if len(f) < 6 || f[0] != "immut" {
		return c, false
	}
	c.cfg = parseEngineCfg(f[1])
	p := 2
	nT, _ := strconv.Atoi(f[p])
	p++
	for i := 0; i < nT; i++ {
		c.srcs = append(c.srcs, unhexField(f[p]))
		p++
	}
	nE, _ := strconv.Atoi(f[p])
	p++
	for i := 0; i < nE; i++ {
		c.envs = append(c.envs, DecEnv(f[p]))
		p++
	}
	for ; p < len(f); p++ {
		parts := strings.Split(f[p], ":")
		t, _ := strconv.Atoi(parts[0])
		e, _ := strconv.Atoi(parts[1])
		if t >= nT || e >= nE || len(parts[2]) != 1 {
			return c, false
		}
		c.ops = append(c.ops, immutOp{t, e, parts[2][0]})
	}
	return c, len(c.ops) > 0
}

func opResult(cfg engineCfg, out []byte, err liquid.SourceError, parsePhase bool) string {
	if err != nil {
		if p := sourceErrorProblem(err); p != "" {
			return "err:bad-source-error"
		}
		return strings.ReplaceAll(cfg.canonErr(err, parsePhase), " ", ":")
	}
	return "ok:" + hexField(string(out))
}

// soloResult: the (template, environment) pair rendered alone: fresh engine, fresh bindings.
func soloResult(cfg engineCfg, src string, env map[string]*V) string {
	res, _ := protect(func() string {
		e := cfg.newEngine()
		tpl, err := cfg.parse(e, src)
		if err != nil {
			return opResult(cfg, nil, err, true)
		}
		out, err := tpl.Render(RealiseEnv(env))
		return opResult(cfg, out, err, false)
	})
	return res
}

// immutDoOp performs one operation of a sequence on the given engine / parsed templates / bindings.
func immutDoOp(c immutCaseT, e *liquid.Engine, tpls []*liquid.Template, perrs []liquid.SourceError, op immutOp, b map[string]any) string {
	res, _ := protect(func() string {
		if op.api == 'P' {
			if c.cfg.dir() != "" { // the one-call entry point cannot name the source path
				tpl, err := c.cfg.parse(e, c.srcs[op.t])
				if err != nil {
					return opResult(c.cfg, nil, err, true)
				}
				out, err := tpl.Render(b)
				return opResult(c.cfg, out, err, false)
			}
			out, err := e.ParseAndRender([]byte(c.srcs[op.t]), b)
			if err != nil {
				_, perr := e.ParseTemplate([]byte(c.srcs[op.t]))
				return opResult(c.cfg, nil, err, perr != nil)
			}
			return opResult(c.cfg, out, nil, false)
		}
		tpl := tpls[op.t]
		if tpl == nil {
			if perrs[op.t] == nil {
				return "panic" // the parse panicked
			}
			return opResult(c.cfg, nil, perrs[op.t], true)
		}
		switch op.api {
		case 'S':
			out, err := tpl.RenderString(b)
			return opResult(c.cfg, []byte(out), err, false)
		case 'F':
			var buf bytes.Buffer
			if err := tpl.FRender(&buf, b); err != nil {
				return opResult(c.cfg, nil, err, false)
			}
			return opResult(c.cfg, buf.Bytes(), nil, false)
		}
		out, err := tpl.Render(b)
		return opResult(c.cfg, out, err, false)
	})
	return res
}

// historyResult replays ops[0..k] from scratch (fresh engine, freshly parsed templates, fresh bindings)
// and returns the result of op k.
func historyResult(c immutCaseT, k int) string {
	e := c.cfg.newEngine()
	rz := &realiser{spare: 2}
	goenvs := make([]map[string]any, len(c.envs))
	for i, ev := range c.envs {
		goenvs[i] = rz.env(ev)
	}
	tpls := make([]*liquid.Template, len(c.srcs))
	perrs := make([]liquid.SourceError, len(c.srcs))
	for i, s := range c.srcs {
		func() {
			defer func() { recover() }()
			tpls[i], perrs[i] = c.cfg.parse(e, s)
		}()
	}
	res := ""
	for j := 0; j <= k && j < len(c.ops); j++ {
		res = immutDoOp(c, e, tpls, perrs, c.ops[j], goenvs[c.ops[j].e])
	}
	return res
}

// immutRun executes the sequence and evaluates the oracle.
func immutRun(r *Run, c immutCaseT, caseLine string) string {
	e := c.cfg.newEngine()
	rz := &realiser{spare: 2}
	goenvs := make([]map[string]any, len(c.envs))
	initial := make([]string, len(c.envs))
	for i, ev := range c.envs {
		goenvs[i] = rz.env(ev)
		initial[i] = snapshot(goenvs[i])
	}
	tpls := make([]*liquid.Template, len(c.srcs))
	perrs := make([]liquid.SourceError, len(c.srcs))
	for i, s := range c.srcs {
		func() {
			defer func() { recover() }()
			tpls[i], perrs[i] = c.cfg.parse(e, s)
		}()
	}
	solo := map[[2]int]string{}
	var results []string
	violated := map[string]bool{}
	fails := 0
	for k, op := range c.ops {
		b := goenvs[op.e]
		before := snapshot(b)
		res := immutDoOp(c, e, tpls, perrs, op, b)
		results = append(results, res)
		if !strings.HasPrefix(res, "ok:") {
			fails++
		}
		if after := snapshot(b); after != before && !violated["bindings-modified"] {
			violated["bindings-modified"] = true
			r.Count("violation:bindings-modified")
			r.Violate("C03", "bindings-modified", caseLine, fmt.Sprintf("op %d (%d:%d:%c, result %s) changed the caller's bindings: %s   source: %s",
				k, op.t, op.e, op.api, short(res, 80), snapshotDiff(before, after), short(fmt.Sprintf("%q", c.srcs[op.t]), 400)))
		}
		key := [2]int{op.t, op.e}
		if _, ok := solo[key]; !ok {
			solo[key] = soloResult(c.cfg, c.srcs[op.t], c.envs[op.e])
		}
		if res != solo[key] && !violated["history-dependent"] {
			// A render whose result varies by itself (C02's matter, e.g. map order) is not a history
			// effect: replay the history up to this op 8x from scratch and the pair 8x alone, and report only when
			// each side is constant and the two constants differ.
			inHist, alone := map[string]bool{res: true}, map[string]bool{solo[key]: true}
			for i := 0; i < 8; i++ {
				inHist[historyResult(c, k)] = true
				alone[soloResult(c.cfg, c.srcs[op.t], c.envs[op.e])] = true
			}
			if len(inHist) != 1 || len(alone) != 1 {
				r.Count("nondeterministic-render-skipped")
			} else {
				violated["history-dependent"] = true
				r.Count("violation:history-dependent")
				r.Violate("C03", "history-dependent", caseLine, fmt.Sprintf("op %d (%d:%d:%c) gave %s but the same template and bindings rendered alone give %s (9 renders each way, each side constant)   source: %s",
					k, op.t, op.e, op.api, describeOp(res), describeOp(solo[key]), short(fmt.Sprintf("%q", c.srcs[op.t]), 400)))
			}
		}
	}
	for i := range goenvs {
		if final := snapshot(goenvs[i]); final != initial[i] && !violated["bindings-modified"] {
			violated["bindings-modified"] = true
			r.Count("violation:bindings-modified")
			r.Violate("C03", "bindings-modified", caseLine, fmt.Sprintf("environment %d differs at the end of the sequence: %s", i, snapshotDiff(initial[i], final)))
		}
	}
	r.Count(fmt.Sprintf("ops=%d0s", len(c.ops)/10))
	if len(c.ops) > 0 {
		r.Count(fmt.Sprintf("failing-renders=%d0%%", fails*10/len(c.ops)))
	}
	r.Stats.Hist["renders"] += len(c.ops)
	r.Stats.Hist["renders-failing"] += fails
	return strings.Join(results, "|")
}

func describeOp(res string) string {
	if strings.HasPrefix(res, "ok:") {
		return fmt.Sprintf("ok %q", short(unhexField(res[3:]), 300))
	}
	return res
}

func immutCase(r *Run, c immutCaseT, caseLine string) string {
	ch := make(chan string, 1)
	go func() { ch <- immutRun(r, c, caseLine) }()
	select {
	case res := <-ch:
		return res
	case <-time.After(2 * caseHardLimit):
		return "timeout"
	}
}

// ---- the stream ------------------------------------------------------------------------------------

func immutStream(r *Run) {
	for _, c := range corpusLines("immut") {
		f := strings.Fields(c)
		if r.Mine() {
			r.Emit(c, replayers["immut"](r, f))
		}
	}
	// a fixed family first: every array filter applied DIRECTLY to caller-owned arrays of each shape
	// (generic []any with nils / duplicates / unsorted, typed slices, nested), each rendered twice
	{
		i := func(n int64) *V { return VInt(0, n) }
		arrays := []*V{
			VAnys(VStr("a"), VNil(), VStr("b"), VNil(), VStr("c")), VAnys(i(3), i(1), i(2), i(1)), VAnys(VNil(), i(2), VNil()),
			VAnys(VStr("b"), VStr("a"), VStr("b")), VAnys(VAnys(i(2), i(1)), VAnys(i(1))), VSlice(TInt(0), i(3), i(1), i(2)),
			VSlice(TStr, VStr("b"), VStr("a")), VAnys(VStrMap(SKV("k", i(2))), VStrMap(SKV("k", i(1))), VStrMap()), VAnys(),
		}
		filters := []string{"compact", "sort", "reverse", "uniq", "concat: a", "first", "last", "join: ','", "map: 'k'", "size", "sort: 'k'", "sort_natural",
			"compact | sort", "reverse | first", "uniq | join"}
		for ai, arr := range arrays {
			for _, f := range filters {
				if !r.Mine() {
					continue
				}
				c := immutCaseT{cfg: engineCfg{}, srcs: []string{"{{ a | " + f + " }}|{{ a | join: ',' }}|{{ a | size }}"},
					envs: []map[string]*V{{"a": arr}}, ops: []immutOp{{0, 0, 'R'}, {0, 0, 'R'}, {0, 0, 'S'}}}
				cl := c.line()
				res := immutCase(r, c, cl)
				r.Count(fmt.Sprintf("fixed-family array %d", ai))
				r.Nontrivial(cl)
				r.Emit(cl, res)
			}
		}
	}
	// a fixed family: drops NESTED in the caller's containers on every path that resolves them for printing or comparing
	// (a printed map, an array converted to a string, joined, sorted, compared, the needle of a contains): the caller's
	// containers still hold their drops afterwards
	{
		i := func(n int64) *V { return VInt(0, n) }
		envs := []map[string]*V{
			{"page": VStrMap(SKV("tags", VAnys(VDrop(VStr("x")), VDrop(i(1)))), SKV("title", VDrop(VStr("t")))), "list": VAnys(VAnys(VDrop(VStr("a")), VStr("b")), VAnys(VDrop(VDrop(i(2)))))},
			{"page": VAnys(VStrMap(SKV("k", VDrop(i(2)))), VStrMap(SKV("k", VDrop(VNil())))), "list": VAnys(VDrop(VAnys(VDrop(i(1)))), VDrop(VStr("z")))},
		}
		tmpls := []string{"{{ page }}", "{{ list }}|{{ list | join: ',' }}", "{{ page | append: '' }}|{{ list | append: '' }}", "{% if 'xax' contains list %}T{% endif %}{% if list contains 'z' %}T{% endif %}",
			"{% if page == page %}T{% endif %}{% if list == page %}T{% endif %}{% case list %}{% when page %}T{% endcase %}", "{{ list | sort | join }}|{{ list | sort_natural | join }}|{{ list | uniq | size }}|{{ list | compact | size }}",
			"{{ page | sort: 'k' | size }}|{{ page | map: 'k' | join }}|{{ page.tags | join }}|{{ page.title }}", "{% for x in list %}{{ x }};{% endfor %}{% for p in page %}{{ p }};{% endfor %}", "{{ page | json }}|{{ list | inspect }}"}
		for ei, env := range envs {
			for ti, src := range tmpls {
				if !r.Mine() {
					continue
				}
				c := immutCaseT{cfg: engineCfg{}, srcs: []string{src}, envs: []map[string]*V{env}, ops: []immutOp{{0, 0, 'R'}, {0, 0, 'R'}, {0, 0, 'S'}}}
				cl := c.line()
				res := immutCase(r, c, cl)
				r.Count(fmt.Sprintf("fixed-family nested-drops %d/%d", ti, ei))
				r.Nontrivial(cl)
				r.Emit(cl, res)
			}
		}
	}
	// a second fixed family: templates with per-render state (cycle counters, assign/capture, loop
	// variables, forloop) rendered, then rendered with bindings that make the render FAIL part-way
	// (inside the loop, after some state has been built up), then rendered again with the first bindings
	{
		i := func(n int64) *V { return VInt(0, n) }
		good := map[string]*V{"ns": VAnys(i(1), i(2), i(3), i(4)), "k": i(2)}
		bads := []map[string]*V{
			{"ns": VAnys(i(1), i(0), i(3), i(4)), "k": i(2)}, {"ns": VAnys(i(1), i(2), i(0)), "k": i(2)}, {"ns": VAnys(i(1), i(2), i(3), i(4), i(0)), "k": i(0)},
		}
		tmpls := []string{
			"{% for n in ns %}{% cycle 'a','b','c' %}{{ 12 | divided_by: n }} {% endfor %}",
			"{% for n in ns %}{% cycle 'g': 'x','y' %}{% cycle 'a','b','c' %}{{ 12 | divided_by: n }}{% endfor %}",
			"{% tablerow n in ns cols:2 %}{% cycle 'a','b','c' %}{{ 12 | divided_by: n }}{% endtablerow %}",
			"{% for n in ns %}{% for m in ns %}{% cycle 'a','b','c' %}{{ 12 | divided_by: m }}{% endfor %};{% endfor %}",
			"{% assign acc = 0 %}{% for n in ns %}{% assign acc = acc | plus: n %}{{ acc }}/{{ 12 | divided_by: n }} {% endfor %}{{ acc }}{{ n }}{{ forloop.index }}",
			"{% for n in ns %}{% capture c %}{{ c }}{{ n }}{% endcapture %}{{ 12 | divided_by: n }}{% endfor %}{{ c }}",
			"{% for n in ns %}{{ forloop.index }}{% if n == k %}{% break %}{% endif %}{% cycle 'p','q','r' %}{% endfor %}{{ 12 | divided_by: k }}",
		}
		for ti, src := range tmpls {
			for bi, bad := range bads {
				if !r.Mine() {
					continue
				}
				c := immutCaseT{cfg: engineCfg{}, srcs: []string{src}, envs: []map[string]*V{good, bad},
					ops: []immutOp{{0, 0, 'R'}, {0, 1, 'R'}, {0, 0, 'R'}, {0, 1, 'S'}, {0, 0, 'F'}, {0, 0, 'R'}}}
				cl := c.line()
				res := immutCase(r, c, cl)
				r.Count(fmt.Sprintf("fixed-family stateful %d/%d", ti, bi))
				r.Nontrivial(cl)
				r.Emit(cl, res)
			}
		}
	}
	// a third fixed family: the caller binds `forloop` itself (a record with cycle counters of the right Go
	// type): a render must not write through it
	{
		i := func(n int64) *V { return VInt(0, n) }
		recs := []*V{
			VStrMap(SKV(".cycles", VMap(TStr, TInt(0), SKV("", i(1)), SKV("g", i(5))))), VStrMap(SKV(".cycles", VMap(TStr, TInt(0)))),
			VStrMap(SKV(".cycles", VMap(TStr, TInt(0), SKV("", i(0)))), SKV("index", i(1))),
		}
		tmpls := []string{"{% cycle 'a','b' %}", "{% cycle 'g': 'a','b' %}{% cycle 'a' %}",
			"{% for i in (1..2) %}{% cycle 'a','b' %}{% endfor %}{% cycle 'a','b' %}", "{{ forloop.index }}{% assign forloop = forloop %}{% cycle 1, 2 %}"}
		for ti, src := range tmpls {
			for ri, rec := range recs {
				if !r.Mine() {
					continue
				}
				c := immutCaseT{cfg: engineCfg{}, srcs: []string{src}, envs: []map[string]*V{{"forloop": rec}},
					ops: []immutOp{{0, 0, 'R'}, {0, 0, 'R'}, {0, 0, 'S'}}}
				cl := c.line()
				res := immutCase(r, c, cl)
				r.Count(fmt.Sprintf("fixed-family reserved-names %d/%d", ti, ri))
				r.Nontrivial(cl)
				r.Emit(cl, res)
			}
		}
	}
	nPools, perPool := 60, 8
	if r.Tier == "thorough" {
		nPools, perPool = 700, 10
	}
	const poolT, poolE = 40, 12
	for p := 0; p < nPools; p++ {
		// a pool is generated lazily, only by the shards that own one of its sequences
		var (
			built bool
			srcs  []string
			envs  []map[string]*V
			cfg   engineCfg
			modes []string
		)
		build := func() {
			g := NewRNG(r.Seed, fmt.Sprint("immut/pool/", p))
			o := DefaultTmplOpts()
			o.ValidPct, o.ParseErrPct, o.BoundaryPct, o.ErrDensity = 66, 25, 0, 20
			o.ArrayHeavy = g.Chance(70)
			o.MapHeavy = g.Chance(25)
			o.MaxDepth, o.MaxLoopNest, o.MaxNodes = 1+g.Intn(3), 1+g.Intn(2), 3+g.Intn(6)
			cfg = engineCfg{Strict: g.Chance(5)}
			sc := GenSchema(g, o)
			if g.Chance(10) {
				cfg.FS = GenIncludes(g, o, sc)
				o.Includes = cfg.FS
			}
			for i := 0; i < poolE; i++ {
				envs = append(envs, GenEnv(g, o, sc))
			}
			for i := 0; i < poolT; i++ {
				s, info := GenTemplateFor(g, o, sc)
				srcs = append(srcs, s)
				modes = append(modes, info.Mode)
			}
			built = true
		}
		for q := 0; q < perPool; q++ {
			if !r.Mine() {
				continue
			}
			if !built {
				build()
			}
			g := NewRNG(r.Seed, fmt.Sprint("immut/seq/", p, "/", q))
			// working sets: a few templates and environments, revisited
			wt := 1 + g.Intn(6)
			we := 1 + g.Intn(4)
			c := immutCaseT{cfg: cfg}
			tIdx, eIdx := map[int]int{}, map[int]int{}
			var ts, es []int
			for i := 0; i < wt; i++ {
				ts = append(ts, g.Intn(poolT))
			}
			for i := 0; i < we; i++ {
				es = append(es, g.Intn(poolE))
			}
			nops := 2 + g.Intn(39)
			if g.Chance(50) {
				nops = 2 + g.Intn(12)
			}
			for k := 0; k < nops; k++ {
				t, e := ts[g.Intn(len(ts))], es[g.Intn(len(es))]
				if _, ok := tIdx[t]; !ok {
					tIdx[t] = len(c.srcs)
					c.srcs = append(c.srcs, srcs[t])
					r.Count("tmpl-mode=" + modes[t])
				}
				if _, ok := eIdx[e]; !ok {
					eIdx[e] = len(c.envs)
					c.envs = append(c.envs, envs[e])
				}
				c.ops = append(c.ops, immutOp{tIdx[t], eIdx[e], "RRRSFP"[g.Intn(6)]})
			}
			cl := c.line()
			res := immutCase(r, c, cl)
			if strings.Contains(res, "ok:") {
				r.Nontrivial(cl)
			}
			r.Emit(cl, res)
			if res == "timeout" {
				r.Stats.Notes["aborted"] = "a sequence did not return; shard stopped (see robust/C01)"
				return
			}
		}
	}
}
