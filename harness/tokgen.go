package main

// Token-level template generator for the delimiter streams (C19): produces abstract items
// (tokitems.go) over a fixed logical environment. Every construct is drawn from pools that are
// filtered by the set of bytes the caller wants to avoid (the bytes of the delimiters in use), so
// that the result is usually Clean for those delimiters.

import (
	"fmt"
	"strings"
)

// tokEnv is the environment every generated token-level template is rendered with.
func tokEnv() map[string]*V {
	i := func(n int64) *V { return VInt(0, n) }
	return map[string]*V{
		"n": i(2), "k": i(0), "s": VStr("hello"), "t": VStr("Hello World"), "flag": VBool(true), "off": VBool(false),
		"arr": VAnys(i(1), i(2), i(3)), "words": VAnys(VStr("b"), VStr("a"), VStr("c")),
		"m": VStrMap(SKV("a", i(1)), SKV("b", VStr("x"))), "nilv": VNil(), "e": VStr(""),
	}
}

type tokGen struct {
	g               *RNG
	bad             [256]bool
	items           []tItem
	depth           int
	loop            int
	capt            int // nesting depth of capture blocks
	nvar            int
	errs            int // error constructs still allowed
	errUsed         bool
	noFilterCapture bool // captured text is only printed (deftext cases)
	rawTok          bool // raw bodies may contain tokens (wrapped in sentinels)
	nraw            int
	hist            map[string]int
}

func (t *tokGen) ok(s string) bool {
	for i := 0; i < len(s); i++ {
		if t.bad[s[i]] {
			return false
		}
	}
	return true
}

func (t *tokGen) pick(pool []string, fallback string) string {
	for tries := 0; tries < 8; tries++ {
		s := pool[t.g.Intn(len(pool))]
		if t.ok(s) {
			return s
		}
	}
	return fallback
}

func (t *tokGen) cnt(k string) {
	if t.hist != nil {
		t.hist[k]++
	}
}

var tokWs = []string{" ", " ", " ", "", "  ", "\n", "\t", " \n ", "\r\n"}
var tokWsM = []string{" ", " ", " ", "  ", "\n", "\t", " \n  "}

func (t *tokGen) ws() string    { return tokWs[t.g.Intn(len(tokWs))] }
func (t *tokGen) hy() bool      { return t.g.Chance(18) }
func (t *tokGen) text(s string) { t.items = append(t.items, tItem{Kind: 'x', Text: s}) }
func (t *tokGen) obj(args string) {
	t.items = append(t.items, tItem{Kind: 'o', Args: args, TrimL: t.hy(), TrimR: t.hy(), WsL: t.ws(), WsR: t.ws()})
}
func (t *tokGen) tag(name, args string) {
	it := tItem{Kind: 't', Name: name, Args: args, TrimL: t.hy(), TrimR: t.hy(), WsL: t.ws(), WsR: t.ws(), WsM: tokWsM[t.g.Intn(len(tokWsM))]}
	t.items = append(t.items, it)
	t.cnt("tag=" + name)
}

var tokTexts = []string{"Hello", "world", " ", " ", "\n", "  ", "\n\n", "\t", ", ", ".", "a-b", "-", " - ", "x", "é", "日本", ":", "=", "\"q\"", "'", "item ",
	"<", ">", "[", "]", "|", "!", "$", "#", "@", "(", ")", "{", "}", "%", "<<", "|>", "{ {", "} }", "{ %", "% }", "<p>", "</p>", "a | b", "[x]", "!!", " \n ", "line\n"}

func (t *tokGen) someText() {
	n := 1 + t.g.Intn(3)
	var sb strings.Builder
	for i := 0; i < n; i++ {
		sb.WriteString(t.pick(tokTexts, "x"))
	}
	t.text(sb.String())
}

var tokValues = []string{"n", "k", "s", "t", "flag", "off", "nilv", "arr", "words", "m.a", "m.b", "m[\"a\"]", "arr[0]", "arr[1]", "arr[-1]", "arr.first", "words.last",
	"arr.size", "\"lit\"", "'q'", "12", "3.5", "true", "nil", "undefinedv", "e", "m", "forloop.index", "(1..3)"}

var tokFiltered = []string{"s | upcase", "t | downcase | size", "n | plus: 3", "n | times: 2 | minus: 1", "words | join: \", \"", "words | sort | join", "arr | reverse | first",
	"s | append: \"!\"", "s | append: \"?\"", "t | replace: \"o\", \"0\"", "t | split: \" \" | last", "s | slice: 1, 2", "nilv | default: \"d\"", "t | truncate: 8",
	"arr | join: \"<\"", "arr | join: \"|\"", "s | prepend: \"[\" | append: \"]\"", "3.5 | round", "arr | map: \"x\" | size", "s | capitalize"}

var tokConds = []string{"flag", "off", "n == 2", "n != 2", "n < 3", "n > 3", "n <= 2", "n >= 5", "s == \"hello\"", "t contains \"World\"", "arr contains 2", "flag and off",
	"flag or off", "nilv", "n == 2 and s contains \"ell\"", "k", "e", "arr[0] == 1", "m.b == \"x\"", "s == \"<\"", "s != \"|\""}

var tokLoops = []string{"i in (1..3)", "i in (1..n)", "x in arr", "w in words reversed", "x in arr limit: 2", "x in arr offset: 1", "x in arr limit: 1 offset: 1",
	"p in m", "x in nilv", "x in e", "i in (3..1)"}

func (t *tokGen) expr() string {
	if t.g.Chance(45) {
		return t.pick(tokFiltered, "s")
	}
	if t.nvar > 0 && t.g.Chance(20) {
		return fmt.Sprintf("v%d", t.g.Intn(t.nvar))
	}
	return t.pick(tokValues, "n")
}

func (t *tokGen) seq(max int) {
	n := 1 + t.g.Intn(max)
	for i := 0; i < n; i++ {
		t.node()
	}
}

func (t *tokGen) inner() {
	t.depth++
	if t.depth > 3 {
		t.someText()
	} else {
		t.seq(3)
	}
	t.depth--
}

func (t *tokGen) node() {
	g := t.g
	if t.errs > 0 && !t.errUsed && g.Chance(12) {
		t.errUsed = true
		t.errNode()
		return
	}
	r := g.Intn(100)
	switch {
	case r < 26:
		t.someText()
	case r < 46:
		t.obj(t.expr())
		t.cnt("object")
	case r < 53:
		t.tag("assign", fmt.Sprintf("v%d = %s", t.nvar, t.expr()))
		t.nvar++
	case r < 63:
		t.tag(g.Pick([]string{"if", "if", "unless"}), t.pick(tokConds, "flag"))
		name := t.items[len(t.items)-1].Name
		t.inner()
		if name == "if" {
			for g.Chance(30) {
				t.tag("elsif", t.pick(tokConds, "off"))
				t.inner()
			}
		}
		if g.Chance(50) {
			t.tag("else", "")
			t.inner()
		}
		t.tag("end"+name, "")
	case r < 73:
		t.tag("for", t.pick(tokLoops, "x in arr"))
		t.loop++
		t.inner()
		if g.Chance(50) {
			t.obj(g.Pick([]string{"forloop.index", "forloop.last", "forloop.rindex0", "x", "i"}))
		}
		t.loop--
		if g.Chance(25) {
			t.tag("else", "")
			t.inner()
		}
		t.tag("endfor", "")
	case r < 79:
		t.tag("case", t.pick([]string{"n", "s", "k", "m.b", "nilv"}, "n"))
		if g.Chance(30) {
			t.someText()
		}
		for i := 0; i < 1+g.Intn(2); i++ {
			t.tag("when", t.pick([]string{"2", "1, 2", "\"hello\"", "0", "\"x\"", "1 or 2", "nil"}, "2"))
			t.inner()
		}
		if g.Chance(50) {
			t.tag("else", "")
			t.inner()
		}
		t.tag("endcase", "")
	case r < 85:
		name := fmt.Sprintf("v%d", t.nvar)
		t.nvar++
		t.tag("capture", name)
		t.capt++
		t.inner()
		t.capt--
		t.tag("endcapture", "")
		if t.noFilterCapture || g.Chance(50) {
			t.obj(name)
		} else {
			t.obj(name + " | size")
		}
	case r < 90:
		t.raw()
	case r < 94:
		t.tag("comment", "")
		t.inner() // anything: it is swallowed
		if g.Chance(30) {
			t.tag("bogus", "x y")
		}
		t.tag("endcomment", "")
	case r < 98:
		if t.loop > 0 {
			t.tag("cycle", t.pick([]string{"\"a\", \"b\"", "\"x\"", "\"g\": \"1\", \"2\", \"3\""}, "\"a\""))
		} else {
			t.obj(t.expr())
		}
	default:
		if t.loop > 0 {
			t.tag("if", "forloop.index == 2")
			t.tag(g.Pick([]string{"break", "continue"}), "")
			t.tag("endif", "")
		} else {
			t.someText()
		}
	}
}

// raw: a raw block. Its body is literal text; when rawTok is set it may also contain objects and
// tags (which a raw block reproduces in their spelling), wrapped in sentinel texts so that the
// oracle can find the body in the output.
func (t *tokGen) raw() {
	g := t.g
	if t.rawTok && t.capt == 0 && g.Chance(60) {
		k := t.nraw
		t.nraw++
		t.tag("raw", "")
		t.text(fmt.Sprintf("@R%d(", k))
		for i := 0; i < 1+g.Intn(3); i++ {
			switch g.Intn(4) {
			case 0:
				t.someText()
			case 1:
				t.obj(t.expr())
			case 2:
				t.tag(g.Pick([]string{"if", "endfor", "else", "assign", "zzz"}), t.pick([]string{"", "x", "a = 1", "n == 2"}, ""))
			default:
				t.obj(t.pick([]string{"a b", "1 |", "\"unclosed"}, "a b"))
			}
		}
		t.text(fmt.Sprintf(")R%d@", k))
		t.tag("endraw", "")
		t.cnt("raw-with-tokens")
		return
	}
	t.tag("raw", "")
	t.someText()
	if g.Chance(40) {
		t.text(t.pick([]string{" - ", "-", " x -", "- y "}, "-"))
	}
	t.tag("endraw", "")
}

var tokBadObjs = []string{"a b", "1 +", "n |", "s ==", "\"unclosed", "n | nofilter", "n | divided_by: 0", "s | plus: m", "n | nofilter: 1, 2", "(1..s)", "n | modulo: 0"}

// errNode appends a construct that fails, at parse time or at render time.
func (t *tokGen) errNode() {
	g := t.g
	t.cnt("error-construct")
	switch g.Intn(11) {
	case 0, 1, 2:
		t.obj(t.pick(tokBadObjs, "a b"))
	case 3:
		t.tag("foo", t.pick([]string{"", "bar", "1 2"}, ""))
	case 4:
		t.tag("if", "")
		t.someText()
		t.tag("endif", "")
	case 5:
		t.tag(g.Pick([]string{"if", "for", "case", "capture"}), g.Pick([]string{"flag", "x in arr", "n", "cv"})) // unterminated unless closed by chance
	case 6:
		t.tag(g.Pick([]string{"else", "elsif", "when", "endif", "endfor"}), t.pick([]string{"", "flag", "1"}, ""))
	case 7:
		if t.loop == 0 {
			t.tag(g.Pick([]string{"break", "continue"}), "")
		} else {
			t.obj("n | nofilter")
		}
	case 8:
		if t.loop == 0 {
			t.tag("cycle", "\"a\", \"b\"")
		} else {
			t.tag("cycle", "a, b")
		}
	case 9:
		t.tag("for", t.pick([]string{"x in arr limit: \"a\"", "x in arr foo", "x arr", "x in arr offset: s", "x in (1..s)"}, "x arr"))
		t.someText()
		t.tag("endfor", "")
	default:
		t.tag("assign", t.pick([]string{"v", "v =", "= 1", "v = n | nofilter", "1 = 2"}, "v"))
	}
}

// tokGenOpts selects the generator's variants.
type tokGenOpts struct {
	Bad             string // bytes to avoid in texts and arguments
	Errors          bool
	NoFilterCapture bool
	RawTokens       bool
	MaxNodes        int
}

// GenItems generates one abstract template.
func GenItems(g *RNG, o tokGenOpts, hist map[string]int) []tItem {
	t := &tokGen{g: g, hist: hist, noFilterCapture: o.NoFilterCapture, rawTok: o.RawTokens}
	for i := 0; i < len(o.Bad); i++ {
		t.bad[o.Bad[i]] = true
	}
	if o.Errors && g.Chance(45) {
		t.errs = 1
	}
	max := o.MaxNodes
	if max == 0 {
		max = 6
	}
	t.seq(max)
	if t.errs > 0 && !t.errUsed && g.Chance(70) {
		t.errNode()
	}
	return t.items
}

const tokSymbols = "<>[]|!$#@(){}%"

// GenCleanItems generates items that are Clean for the delimiters d and for the default
// delimiters: first avoiding only the bytes of the one-byte delimiters, then every byte of d,
// then every punctuation symbol of the delimiter alphabets.
func GenCleanItems(g *RNG, d [4]string, o tokGenOpts, hist map[string]int) []tItem {
	d = effDelims(d)
	for attempt := 0; attempt < 6; attempt++ {
		bad := o.Bad
		switch {
		case attempt < 2:
			for _, s := range d {
				if len(s) == 1 {
					bad += s
				}
			}
		case attempt < 4:
			bad += strings.Join(d[:], "")
		default:
			bad += tokSymbols
		}
		oo := o
		oo.Bad = bad
		items := GenItems(g, oo, nil)
		if Clean(d, items) && Clean(defaultDelims, items) {
			if hist != nil {
				hist[fmt.Sprintf("clean-attempt=%d", attempt)]++
				for _, sp := range rawBodies(items) {
					for _, it := range items[sp.a:sp.b] {
						if it.Kind != 'x' {
							hist["raw-with-tokens"]++
							break
						}
					}
				}
				for _, it := range items {
					switch it.Kind {
					case 't':
						hist["tag="+it.Name]++
					case 'o':
						hist["object"]++
					}
					if it.TrimL || it.TrimR {
						hist["hyphen"]++
					}
					if strings.Contains(it.WsL+it.WsM+it.WsR, "\n") {
						hist["multi-line-token"]++
					}
				}
			}
			return items
		}
	}
	return []tItem{{Kind: 'x', Text: "plain"}, {Kind: 'o', Args: "n", WsL: " ", WsR: " "}}
}
