package main

import (
	"fmt"
	"strings"

	"github.com/osteele/liquid"
)

// delimsOverlapFamily (implementation only): tag delimiters that overlap themselves ("((", "%%", "<<<") with raw and comment
// bodies that end in a prefix of the opening delimiter or contain look-alikes of the end tag. "Custom delimiters are
// equivalent to the defaults": respelling the delimiters of a default-syntax template gives the same output.
func delimsOverlapFamily(r *Run) {
	sets := [][4]string{{"[[", "]]", "((", "))"}, {"<<", ">>", "%%", "%%"}, {"{{", "}}", "<<<", ">>>"}, {"[[", "]]", "(((", ")))"}, {"((", "))", "[[", "]]"}}
	// templates in an abstract spelling: OL OR = object delimiters, TL TR = tag delimiters, L1 = the first byte of TL
	tmpls := []string{
		"TL raw TRfL1TL endraw TR-OL x OR-TL raw TRgTL endraw TR!",
		"TL raw TRL1L1TL endraw TRaTL raw TRbL1TL endraw TR",
		"TL comment TRL1TL endcomment TRxTL comment TRyL1L1TL endcomment TRz",
		"TL raw TR L1 TL endraw TR|TL comment TR L1L1 TL endcomment TR.",
		"TL raw TRaL1L1L1TL endraw TRbTL if x TRcTL endif TR",
		"aL1TL raw TRL1TL endraw TRL1b",
	}
	for si, d := range sets {
		for ti, t := range tmpls {
			spellWith := func(d [4]string) string {
				return strings.NewReplacer("OL", d[0], "OR", d[1], "TL", d[2], "TR", d[3], "L1", d[2][:1]).Replace(t)
			}
			// the reference: the same abstract template under the default delimiters, with L1 spelled as the SAME byte as under d
			// (a byte that is not special to the default delimiters unless it is '{')
			l1 := d[2][:1]
			if l1 == "{" {
				continue
			}
			ref := strings.NewReplacer("OL", "{{", "OR", "}}", "TL", "{%", "TR", "%}", "L1", l1).Replace(t)
			render := func(e *liquid.Engine, src string) string {
				return guard(func() string {
					out, err := e.ParseAndRenderString(src, map[string]any{"x": 1})
					if err != nil {
						return "err"
					}
					return "ok " + out
				})
			}
			ec := liquid.NewEngine()
			ec.Delims(d[0], d[1], d[2], d[3])
			got, want := render(ec, spellWith(d)), render(liquid.NewEngine(), ref)
			r.Count("overlap-family")
			if got != want {
				r.Violate("C19", "custom-eq-default", fmt.Sprint("delims-overlap ", si, " ", ti, " ", hexField(spellWith(d))),
					fmt.Sprintf("delimiters %q: %q renders %q; the default spelling %q renders %q", d, spellWith(d), got, ref, want))
			}
		}
	}
}
