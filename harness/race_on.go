//go:build race

package main

// concRaceEnabled: this binary was built with -race (required by the `conc` stream, property C04).
const concRaceEnabled = true
