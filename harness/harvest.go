package main

import (
	"bufio"
	"go/ast"
	"go/parser"
	"go/token"
	"os"
	"path/filepath"
	"sort"
	"strconv"
	"strings"
)

var repoRoot = func() string {
	if p := os.Getenv("VERIF_REPO"); p != "" {
		return p
	}
	return "/repo"
}()

var verifRoot = func() string {
	if p := os.Getenv("VERIF_ROOT"); p != "" {
		return p
	}
	return "/verif"
}()

var harvested []string

// harvestTemplates collects, at run time, the template-looking string literals of the
// repository's own *_test.go files (sorted, de-duplicated).
func harvestTemplates() []string {
	if harvested != nil {
		return harvested
	}
	seen := map[string]bool{}
	filepath.Walk(repoRoot, func(path string, info os.FileInfo, err error) error {
		if err != nil || info.IsDir() || !strings.HasSuffix(path, "_test.go") {
			return nil
		}
		fset := token.NewFileSet()
		f, err := parser.ParseFile(fset, path, nil, 0)
		if err != nil {
			return nil
		}
		ast.Inspect(f, func(n ast.Node) bool {
			if bl, ok := n.(*ast.BasicLit); ok && bl.Kind == token.STRING {
				if s, err := strconv.Unquote(bl.Value); err == nil {
					if strings.Contains(s, "{%") || strings.Contains(s, "{{") {
						seen[s] = true
					}
				}
			}
			return true
		})
		return nil
	})
	for s := range seen {
		harvested = append(harvested, s)
	}
	sort.Strings(harvested)
	if harvested == nil {
		harvested = []string{}
	}
	return harvested
}

// corpusLines returns the minimised past disagreements kept for a stream (run first).
func corpusLines(stream string) []string {
	var out []string
	files, _ := filepath.Glob(filepath.Join(verifRoot, "corpus", stream, "*.case"))
	sort.Strings(files)
	for _, fn := range files {
		f, err := os.Open(fn)
		if err != nil {
			continue
		}
		sc := bufio.NewScanner(f)
		sc.Buffer(make([]byte, 1<<20), 1<<28)
		for sc.Scan() {
			l := strings.TrimSpace(sc.Text())
			if l != "" && !strings.HasPrefix(l, "#") {
				out = append(out, l)
			}
		}
		f.Close()
	}
	return out
}
