package main

import (
	"fmt"
	"math"

	"github.com/osteele/liquid"
)

// cmpUintptrFamily (implementation only: the codec's ten integer kinds do not include uintptr): "==, !=, <, >, <=, >=
// compare integers and floats of any width by numeric value" — a uintptr behaves in every comparison, in contains, in
// case/when and under sort exactly as the uint64 of the same value does.
func cmpUintptrFamily(r *Run) {
	others := []any{nil, true, 0, 5, -1, int8(5), uint8(5), uint64(math.MaxUint64), 5.0, 4.5, float32(5), "5", []any{5}, uintptr(5), uintptr(6), uint64(5)}
	forms := []string{"{% if a == b %}T{% else %}F{% endif %}", "{% if a != b %}T{% else %}F{% endif %}", "{% if a < b %}T{% else %}F{% endif %}", "{% if a > b %}T{% else %}F{% endif %}",
		"{% if a <= b %}T{% else %}F{% endif %}", "{% if a >= b %}T{% else %}F{% endif %}", "{% if b < a %}T{% else %}F{% endif %}", "{% if b == a %}T{% else %}F{% endif %}",
		"{% case a %}{% when b %}T{% else %}F{% endcase %}", "{% assign l = b | concat: b %}{% if l contains a %}T{% else %}F{% endif %}",
		"{% assign l = 'x' | split: ',' | concat: b %}{{ arr | concat: l | sort | join: ',' }}|{{ arr | uniq | size }}|{{ arr | sort | first }}"}
	for _, x := range []uint64{0, 5, 6, math.MaxUint64} {
		for _, o := range others {
			for _, f := range forms {
				render := func(a any, arr []any) string {
					return guard(func() string {
						out, err := liquid.NewEngine().ParseAndRenderString(f, liquid.Bindings{"a": a, "b": o, "arr": arr})
						if err != nil {
							return "err" // the message names the Go type
						}
						return "ok " + out
					})
				}
				got := render(uintptr(x), []any{uintptr(9), uintptr(x), 3, uintptr(1)})
				want := render(x, []any{uint64(9), x, 3, uint64(1)})
				if up, ok := o.(uintptr); ok { // the other operand as uint64 too
					o2 := uint64(up)
					want = guard(func() string {
						out, err := liquid.NewEngine().ParseAndRenderString(f, liquid.Bindings{"a": x, "b": o2, "arr": []any{uint64(9), x, 3, uint64(1)}})
						if err != nil {
							return "err" // the message names the Go type
						}
						return "ok " + out
					})
				}
				r.Count("uintptr-family")
				if got != want {
					r.Violate("C09", "uintptr-compares-as-uint64", fmt.Sprint("cmp-uintptr ", x, " ", fmt.Sprintf("%T(%v)", o, o), " ", hexField(f)),
						fmt.Sprintf("a = uintptr(%d), b = %T(%v): %q; with a = uint64(%d): %q   source: %q", x, o, o, got, x, want, f))
				}
			}
		}
	}
}
