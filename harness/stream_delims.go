package main

// The `delims` stream (C19): custom delimiters are equivalent to the defaults.
//
// Every case is an abstract token-level template (tokitems.go) spelled twice: with a set of
// custom delimiters d for an engine configured by Engine.Delims(d...), and with the default
// delimiters for a default engine. Both are emitted as ordinary `render` case lines (so the Lean
// model answers both), and the ORACLE compares the two results of the REAL engine: output, error
// kind, LineNumber, path and cause must coincide. Bodies of raw blocks that contain tokens are
// reproduced in their spelling, so they are compared modulo re-spelling (sentinel texts mark
// them). The "default delimiters are text" cases put {{ }} {% %} into the texts and compare with
// a default-engine render of the same items whose texts carry placeholders instead.

import (
	"fmt"
	"strings"

	"github.com/osteele/liquid"
)

func init() {
	streams["delims"] = delimsStream
	replayers["delims"] = func(r *Run, f []string) string {
		if len(f) != 6 || f[0] != "render" {
			return "bad-op"
		}
		var line int
		fmt.Sscan(f[3], &line)
		cfg := parseEngineCfg(f[1])
		path, src, env := unhexField(f[2]), unhexField(f[4]), DecEnv(f[5])
		if len(cfg.Delims) == 4 {
			var d [4]string
			copy(d[:], cfg.Delims)
			if GoodDelims(effDelims(d)) {
				if items, ok := unspell(d, src); ok {
					cl := strings.Join(f, " ")
					if Clean(defaultDelims, items) {
						resD, _, _ := delimsPair(r, cfg, d, path, line, items, env, cl)
						return resD
					}
					if ph := mapTexts(items, toPlaceholders); Clean(defaultDelims, ph) {
						resD, _, _ := delimsDefText(r, cfg, d, path, line, items, env, cl)
						return resD
					}
				}
			}
		}
		return renderImpl(cfg, path, line, src, RealiseEnv(env))
	}
}

const (
	alphaA = "<>[]|!"
	alphaB = "$#@()"
)

func stringsOver(alpha string, maxLen int) []string {
	var out []string
	var rec func(prefix string)
	rec = func(prefix string) {
		if prefix != "" {
			out = append(out, prefix)
		}
		if len(prefix) == maxLen {
			return
		}
		for i := 0; i < len(alpha); i++ {
			rec(prefix + alpha[i:i+1])
		}
	}
	rec("")
	return out
}

// enumGoodQuads calls f for every GoodDelims quadruple over strs, in a fixed order.
func enumGoodQuads(strs []string, f func(d [4]string)) {
	for _, a := range strs {
		for _, b := range strs {
			if a == b || strings.HasPrefix(a, b) || strings.HasPrefix(b, a) {
				continue
			}
			for _, c := range strs {
				if strings.HasPrefix(c, a) || strings.HasPrefix(a, c) || strings.HasPrefix(c, b) || strings.HasPrefix(b, c) {
					continue
				}
				for _, e := range strs {
					d := [4]string{a, b, c, e}
					if GoodDelims(d) {
						f(d)
					}
				}
			}
		}
	}
}

func randomDelim(g *RNG, alpha string, minLen, maxLen int) string {
	n := minLen + g.Intn(maxLen-minLen+1)
	b := make([]byte, n)
	for i := range b {
		b[i] = alpha[g.Intn(len(alpha))]
	}
	return string(b)
}

func randomGoodQuad(g *RNG, alpha string, minLen, maxLen int) [4]string {
	for {
		var d [4]string
		for i := range d {
			if g.Chance(70) {
				d[i] = randomDelim(g, alpha, minLen, maxLen)
			} else {
				d[i] = randomDelim(g, alpha, 1, maxLen)
			}
		}
		if GoodDelims(d) {
			return d
		}
	}
}

// ---- raw bodies with tokens: compare modulo re-spelling ------------------------------------

// respellRawBodies rewrites, in an output produced from items spelled with `from`, every raw
// body that is marked by sentinels (@Rk( ... )Rk@) and appears verbatim, into its spelling
// with `to`.
func respellRawBodies(out string, items []tItem, from, to [4]string) string {
	for _, sp := range rawBodies(items) {
		body := items[sp.a:sp.b]
		if len(body) < 2 || body[0].Kind != 'x' || !strings.HasPrefix(body[0].Text, "@R") {
			continue
		}
		hasTok := false
		for _, it := range body {
			if it.Kind != 'x' {
				hasTok = true
			}
		}
		if !hasTok {
			continue
		}
		a, _ := spellSpans(effDelims(from), body)
		b, _ := spellSpans(effDelims(to), body)
		out = strings.ReplaceAll(out, a, b)
	}
	return out
}

func okOutput(res string) (string, bool) {
	if strings.HasPrefix(res, "ok ") {
		return unhexField(res[3:]), true
	}
	return "", false
}

// delimsPair runs items under d and under the defaults on the real engine and applies the
// oracle. It returns both results and the default-spelling case line.
func delimsPair(r *Run, cfg engineCfg, d [4]string, path string, line int, items []tItem, env map[string]*V, clD string) (resD, res0, cl0 string) {
	srcD, src0 := spell(d, items), spell(defaultDelims, items)
	cfg0 := cfg
	cfg0.Delims = nil
	cl0 = renderCaseLine(cfg0, path, line, src0, env)
	resD = renderImpl(cfg, path, line, srcD, RealiseEnv(env))
	res0 = renderImpl(cfg0, path, line, src0, RealiseEnv(env))
	cmpD := resD
	if o, ok := okOutput(resD); ok {
		cmpD = canonOK([]byte(respellRawBodies(o, items, d, defaultDelims)))
	}
	if cmpD != res0 {
		r.Violate("C19", "custom-eq-default", clD, fmt.Sprintf("Delims(%q): %q => %s ; defaults: %q => %s", d, srcD, resultSummary(resD), src0, resultSummary(res0)))
	}
	return
}

var phReplacer = strings.NewReplacer("{{", "⟦0⟧", "}}", "⟦1⟧", "{%", "⟦2⟧", "%}", "⟦3⟧")
var phInverse = strings.NewReplacer("⟦0⟧", "{{", "⟦1⟧", "}}", "⟦2⟧", "{%", "⟦3⟧", "%}")

func toPlaceholders(s string) string { return phReplacer.Replace(s) }

// delimsDefText: the texts of items contain default delimiter strings. Under d they are text:
// the output must be that of the same items with placeholders in their place (rendered on a
// default engine with the default spelling), with the placeholders turned back.
func delimsDefText(r *Run, cfg engineCfg, d [4]string, path string, line int, items []tItem, env map[string]*V, clD string) (resD, res0, cl0 string) {
	ph := mapTexts(items, toPlaceholders)
	srcD, src0 := spell(d, items), spell(defaultDelims, ph)
	cfg0 := cfg
	cfg0.Delims = nil
	cl0 = renderCaseLine(cfg0, path, line, src0, env)
	resD = renderImpl(cfg, path, line, srcD, RealiseEnv(env))
	res0 = renderImpl(cfg0, path, line, src0, RealiseEnv(env))
	want := res0
	if o, ok := okOutput(res0); ok {
		want = canonOK([]byte(phInverse.Replace(o)))
	}
	if resD != want {
		r.Violate("C19", "default-delims-are-text", clD, fmt.Sprintf("Delims(%q): %q => %s ; want %s", d, srcD, resultSummary(resD), resultSummary(want)))
	}
	return
}

var defTextBits = []string{"{{", "}}", "{%", "%}", "{{ n }}", "{% if flag %}", "{{- s -}}", "{%- endif -%}", "{{}}", "{%%}", " {{ ", "{% raw %}", "{{ 1 | nofilter }}"}

func delimsStream(r *Run) {
	g := NewRNG(r.Seed, "delims")
	env := tokEnv()
	locs := []struct {
		path string
		line int
	}{{"", 0}, {"t.liquid", 1}, {"dir/t.html", 7}, {"", 3}}

	classify := func(res string) {
		f := strings.Fields(res)
		r.Count("res=" + f[0])
		if f[0] == "err" && len(f) > 2 {
			r.Count("errkind=" + f[1])
			r.Count("errline=" + f[2])
		}
	}
	lenSig := func(d [4]string) string {
		return fmt.Sprintf("lens=%d%d%d%d", len(d[0]), len(d[1]), len(d[2]), len(d[3]))
	}
	// one case: d may contain empty strings (defaulted positions)
	pair := func(d [4]string, kind string, o tokGenOpts) {
		if !r.Mine() {
			return
		}
		gg := NewRNG(r.Seed, "delims-case-"+kind+strings.Join(d[:], "\x00")+fmt.Sprint(r.idx))
		o.Errors, o.RawTokens = true, true
		items := GenCleanItems(gg, d, o, r.Stats.Hist)
		loc := locs[gg.Intn(len(locs))]
		cfg := engineCfg{Delims: d[:]}
		clD := renderCaseLine(cfg, loc.path, loc.line, spell(d, items), env)
		resD, res0, cl0 := delimsPair(r, cfg, d, loc.path, loc.line, items, env, clD)
		r.Count("gen=" + kind)
		r.Count(lenSig(d))
		classify(resD)
		if len(items) > 1 {
			r.Nontrivial(clD)
		}
		r.Emit(clD, resD)
		r.Emit(cl0, res0)
	}
	defText := func(d [4]string) {
		if !r.Mine() {
			return
		}
		gg := NewRNG(r.Seed, "delims-deftext"+strings.Join(d[:], "\x00")+fmt.Sprint(r.idx))
		var items []tItem
		for attempt := 0; ; attempt++ {
			o := tokGenOpts{NoFilterCapture: true, Bad: strings.Join(d[:], "")}
			if attempt > 2 {
				o.Bad += tokSymbols
			}
			items = GenItems(gg, o, nil)
			// put default delimiter strings into (new) text items
			var out []tItem
			for _, it := range items {
				if gg.Chance(35) {
					out = append(out, tItem{Kind: 'x', Text: defTextBits[gg.Intn(len(defTextBits))]})
				}
				out = append(out, it)
			}
			out = append(out, tItem{Kind: 'x', Text: defTextBits[gg.Intn(len(defTextBits))]})
			items = out
			if Clean(d, items) && Clean(defaultDelims, mapTexts(items, toPlaceholders)) {
				break
			}
			if attempt > 6 {
				items = []tItem{{Kind: 'x', Text: "a {{ n }} {% if %} b"}}
				break
			}
		}
		loc := locs[gg.Intn(len(locs))]
		cfg := engineCfg{Delims: d[:]}
		clD := renderCaseLine(cfg, loc.path, loc.line, spell(d, items), env)
		resD, res0, cl0 := delimsDefText(r, cfg, d, loc.path, loc.line, items, env, clD)
		r.Count("gen=default-delims-as-text")
		classify(resD)
		r.Nontrivial(clD)
		r.Emit(clD, resD)
		r.Emit(cl0, res0)
	}

	// corpus first (past findings: each is a custom-delimiter render line)
	for _, c := range corpusLines("delims") {
		if f := strings.Fields(c); len(f) == 6 && r.Mine() {
			r.Emit(c, replayers["delims"](r, f))
		}
	}

	thorough := r.Tier == "thorough"
	a1 := stringsOver(alphaA, 1)
	// 1. every quadruple of one-byte delimiters over < > [ ] | !
	reps := 6
	if thorough {
		reps = 12
	}
	for k := 0; k < reps; k++ {
		enumGoodQuads(a1, func(d [4]string) { pair(d, "all-len1-A", tokGenOpts{}) })
	}
	enumGoodQuads(stringsOver(alphaB, 1), func(d [4]string) { pair(d, "all-len1-B", tokGenOpts{}) })
	// 2. every quadruple of delimiters of length <= 2 (thorough), one short template each
	if thorough {
		enumGoodQuads(stringsOver(alphaA, 2), func(d [4]string) { pair(d, "all-len<=2-A", tokGenOpts{MaxNodes: 3}) })
	} else {
		a2 := stringsOver(alphaA, 2)
		for i := 0; i < 4000; i++ {
			for {
				d := [4]string{a2[g.Intn(len(a2))], a2[g.Intn(len(a2))], a2[g.Intn(len(a2))], a2[g.Intn(len(a2))]}
				if GoodDelims(d) {
					pair(d, "sample-len<=2-A", tokGenOpts{})
					break
				}
			}
		}
	}
	// 3. random lengths, mostly 3..4, over both alphabets
	n := 4000
	if thorough {
		n = 40000
	}
	for i := 0; i < n; i++ {
		alpha := alphaA
		switch g.Intn(5) {
		case 0:
			alpha = alphaB
		case 1:
			alpha = alphaA + alphaB
		}
		pair(randomGoodQuad(g, alpha, 3, 4), "random-len3-4", tokGenOpts{})
	}
	// 3c. Engine.Delims called more than once: the LAST call decides all four positions ("" = the default), whatever
	// an earlier call selected. Implementation only (the model has no history of configuration calls).
	if r.Shard == 0 {
		delimsTwiceFamily(r)
		delimsOverlapFamily(r)
	}
	// 3b. delimiters that contain a hyphen, or end in / begin with the characters an expression may start with:
	// the hyphen next to a delimiter is found by POSITION (delimiter length), never by stripping characters
	nh := 1500
	if thorough {
		nh = 15000
	}
	for i := 0; i < nh; i++ {
		var d [4]string
		for {
			d = randomGoodQuad(g, "<>-~(", 2, 3)
			hy := false
			for _, x := range d {
				hy = hy || strings.ContainsAny(x, "-(")
			}
			// a hyphen at the edge that faces the inside of the tag would read as a trim marker: keep it off that edge
			if hy && !strings.HasSuffix(d[0], "-") && !strings.HasSuffix(d[2], "-") && !strings.HasPrefix(d[1], "-") && !strings.HasPrefix(d[3], "-") {
				break
			}
		}
		pair(d, "hyphen-or-paren-in-delims", tokGenOpts{})
	}
	// 4. every subset of positions left empty
	n = 250
	if thorough {
		n = 2500
	}
	for i := 0; i < n; i++ {
		var base [4]string
		if i%3 == 0 {
			base = randomGoodQuad(g, alphaA+alphaB, 1, 4)
		} else {
			base = randomGoodQuad(g, alphaA, 1, 2)
		}
		for mask := 0; mask < 16; mask++ {
			d := base
			for p := 0; p < 4; p++ {
				if mask&(1<<p) != 0 {
					d[p] = ""
				}
			}
			pair(d, fmt.Sprintf("empty-positions=%d", bitsSet(mask)), tokGenOpts{})
		}
	}
	// 5. the default delimiter strings are ordinary text under fully custom delimiters
	n = 2000
	if thorough {
		n = 12000
	}
	for i := 0; i < n; i++ {
		switch i % 3 {
		case 0:
			defText(randomGoodQuad(g, alphaA, 1, 1))
		case 1:
			defText(randomGoodQuad(g, alphaA+alphaB, 1, 2))
		default:
			defText(randomGoodQuad(g, alphaA+alphaB, 3, 4))
		}
	}
}

func bitsSet(m int) int {
	n := 0
	for ; m > 0; m >>= 1 {
		n += m & 1
	}
	return n
}

func delimsTwiceFamily(r *Run) {
	eff := func(d [4]string) [4]string {
		def := [4]string{"{{", "}}", "{%", "%}"}
		for i := range d {
			if d[i] == "" {
				d[i] = def[i]
			}
		}
		return d
	}
	items := func(d [4]string) string {
		e := eff(d)
		return "a " + e[0] + " x " + e[1] + " b " + e[2] + " if x " + e[3] + "T" + e[2] + " endif " + e[3] + " {{ x }} << x >> {% y %} <% z %> [[ x ]]"
	}
	seqs := [][][4]string{
		{{"<<", ">>", "<%", "%>"}, {"", "", "[%", "%]"}},
		{{"<<", ">>", "<%", "%>"}, {"", "", "", ""}},
		{{"[[", "]]", "", ""}, {"", "", "<%", "%>"}},
		{{"<<", ">>", "<%", "%>"}, {"[[", "]]", "", ""}, {"", ">>", "", ""}},
		{{"", "", "", ""}, {"<<", ">>", "", ""}},
	}
	for si, seq := range seqs {
		last := seq[len(seq)-1]
		src := items(last)
		if si%2 == 1 || si == 0 {
			// a source that parses under EVERY delimiter set of the sequence (each spelling is a complete block or object,
			// plain text under the others): an engine that remembers a successful parse must not reuse it across Delims
			src = "a {{ x }} b << x >> c [[ x ]] d {% if x %}T{% endif %} e <% if x %>U<% endif %> f [% if x %]V[% endif %] g"
		}
		render := func(e *liquid.Engine) string {
			return guard(func() string {
				out, err := e.ParseAndRenderString(src, map[string]any{"x": 1})
				if err != nil {
					return "err " + err.Error()
				}
				return "ok " + out
			})
		}
		e1 := liquid.NewEngine()
		render(e1) // the SAME source is rendered under every delimiter set the engine goes through: "the new delimiters
		// apply to what is parsed afterwards", also to a source the engine has parsed before
		for _, d := range seq {
			e1.Delims(d[0], d[1], d[2], d[3])
			render(e1)
			render(e1)
		}
		e2 := liquid.NewEngine()
		e2.Delims(last[0], last[1], last[2], last[3])
		got, want := render(e1), render(e2)
		r.Count("delims-called-twice")
		if got != want {
			r.Violate("C19", "empty-string-selects-default", fmt.Sprintf("delims-twice %d %s", si, hexField(src)),
				fmt.Sprintf("after the calls %q the engine renders %q as %q; an engine configured by the last call alone renders %q", seq, src, got, want))
		}
	}
}
