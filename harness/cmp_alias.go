package main

import (
	"fmt"

	"github.com/osteele/liquid"
)

// cmpAliasedFamily (implementation only: the codec builds every slice afresh): arrays whose inner slices SHARE a backing
// array (prefixes s[:2], s[:3] of one slice; the same slice twice; a slice that holds itself is left out). "Arrays are
// equal when element-wise equal": equality is decided by the elements, never by where they are stored.
func cmpAliasedFamily(r *Run) {
	s := []any{1, 2, 3, 4}
	t := []any{1, 2, 3, 4}
	cases := []struct {
		a, b any
		eq   bool
	}{
		{[]any{s[:2], s[:2]}, []any{s[:2], s[:3]}, false},
		{[]any{s[:2], s[:3]}, []any{s[:2], s[:3]}, true},
		{[]any{s[:3]}, []any{s[:2]}, false},
		{[]any{s[:2]}, []any{t[:2]}, true},
		{[]any{s, s[:4]}, []any{t, t}, true},
		{[]any{[]any{s[:1], s[:2]}, s[:3]}, []any{[]any{s[:1], s[:1]}, s[:3]}, false},
		{map[string]any{"k": s[:2], "j": s[:2]}, map[string]any{"k": s[:2], "j": s[:3]}, false},
		{[2]any{1, 2}, [2]any{int64(1), 2.0}, true},
		{[1]any{[]int{1, 2}}, [1]any{[]int{1, 2}}, true},
		{[2]any{s[:2], "x"}, []any{t[:2], "x"}, true},
	}
	e := liquid.NewEngine()
	for i, c := range cases {
		for _, f := range []string{"{% if a == b %}T{% else %}F{% endif %}", "{% if a != b %}F{% else %}T{% endif %}", "{% if b == a %}T{% else %}F{% endif %}",
			"{% case a %}{% when b %}T{% else %}F{% endcase %}", "{% assign l = 'x' | split: ',' | concat: w %}{% if l contains a %}T{% else %}F{% endif %}", "{% if a == a %}T{% else %}F{% endif %}"} {
			want := "F"
			if c.eq || f == "{% if a == a %}T{% else %}F{% endif %}" {
				want = "T"
			}
			got := guard(func() string {
				out, err := e.ParseAndRenderString(f, liquid.Bindings{"a": c.a, "b": c.b, "w": []any{c.b}})
				if err != nil {
					return "err " + err.Error()
				}
				return out
			})
			r.Count("aliased-family")
			if got != want {
				r.Violate("C09", "arrays-equal-elementwise", fmt.Sprint("cmp-aliased ", i, " ", hexField(f)), fmt.Sprintf("a = %v, b = %v: %q renders %q, want %q", c.a, c.b, f, got, want))
			}
		}
	}
}
