// Command harness runs the REAL osteele/liquid code (from /repo, via the replace directive)
// on generated cases, one case per line, and prints one canonical result line per case.
// The same case lines are fed to the Lean model driver; the orchestrator diffs the streams.
package main

import (
	"bufio"
	"encoding/json"
	"flag"
	"fmt"
	"os"
	"sort"
	"strings"
)

// A Run collects the cases of one stream shard.
type Run struct {
	Stream   string
	Tier     string
	Seed     uint64
	Shard    int
	NShards  int
	Replay   string // when set: run only the case lines of this file
	casesW   *bufio.Writer
	resultsW *bufio.Writer
	idx      int // global enumeration counter (identical in every shard)

	Stats Stats
}

// Stats is written as JSON for the orchestrator.
type Stats struct {
	Stream      string            `json:"stream"`
	Cases       int               `json:"cases"`
	Nontrivial  map[string]bool   `json:"-"`
	NontrivialN int               `json:"distinct_nontrivial"`
	Hist        map[string]int    `json:"hist"`
	Samples     []string          `json:"samples"`
	Violations  []Violation       `json:"violations"`
	Notes       map[string]string `json:"notes,omitempty"`
}

// A Violation is an oracle failure observed on the real implementation.
type Violation struct {
	Property string `json:"property"`
	Clause   string `json:"clause"`
	Case     string `json:"case"`
	Detail   string `json:"detail"`
}

// Mine reports whether the case with the next enumeration index belongs to this shard,
// and advances the counter.
func (r *Run) Mine() bool {
	i := r.idx
	r.idx++
	return i%r.NShards == r.Shard
}

// Emit records one executed case.
func (r *Run) Emit(caseLine, result string) {
	fmt.Fprintln(r.casesW, caseLine)
	fmt.Fprintln(r.resultsW, result)
	r.Stats.Cases++
	if len(r.Stats.Samples) < 5 && (r.Stats.Cases%97 == 1) {
		s := caseLine + " => " + result
		if len(s) > 400 {
			s = s[:400] + "..."
		}
		r.Stats.Samples = append(r.Stats.Samples, s)
	}
}

func (r *Run) Count(key string) { r.Stats.Hist[key]++ }

// Nontrivial records a distinct non-trivial case key.
func (r *Run) Nontrivial(key string) {
	if len(key) > 200 {
		key = key[:200] + fmt.Sprint(hashString(key))
	}
	r.Stats.Nontrivial[key] = true
}

func (r *Run) Violate(prop, clause, caseLine, detail string) {
	if len(r.Stats.Violations) < 200 {
		r.Stats.Violations = append(r.Stats.Violations, Violation{prop, clause, caseLine, detail})
	}
}

type streamFn func(r *Run)

var streams = map[string]streamFn{}

// replayers re-run a single case line on the implementation (used by --replay and by
// the orchestrator's search phase); they return the impl result line.
var replayers = map[string]func(r *Run, fields []string) string{}

func main() {
	var (
		stream  = flag.String("stream", "", "stream name")
		tier    = flag.String("tier", "quick", "quick|thorough")
		seed    = flag.Uint64("seed", 1, "seed")
		shard   = flag.Int("shard", 0, "shard index")
		nshards = flag.Int("nshards", 1, "number of shards")
		casesP  = flag.String("cases", "", "cases output file")
		resP    = flag.String("results", "", "impl results output file")
		statsP  = flag.String("stats", "", "stats json output file")
		replay  = flag.String("replay", "", "file with case lines to re-run instead of generating")
		list    = flag.Bool("list", false, "list streams")
	)
	flag.Parse()
	if *list {
		names := []string{}
		for k := range streams {
			names = append(names, k)
		}
		sort.Strings(names)
		fmt.Println(strings.Join(names, "\n"))
		return
	}
	fn, ok := streams[*stream]
	if !ok {
		fmt.Fprintln(os.Stderr, "unknown stream", *stream)
		os.Exit(2)
	}
	r := &Run{Stream: *stream, Tier: *tier, Seed: *seed, Shard: *shard, NShards: *nshards, Replay: *replay}
	r.Stats = Stats{Stream: *stream, Nontrivial: map[string]bool{}, Hist: map[string]int{}, Notes: map[string]string{}, Violations: []Violation{}, Samples: []string{}}
	open := func(p string) *bufio.Writer {
		if p == "" {
			return bufio.NewWriter(os.Stdout)
		}
		f, err := os.Create(p)
		if err != nil {
			panic(err)
		}
		return bufio.NewWriterSize(f, 1<<20)
	}
	r.casesW, r.resultsW = open(*casesP), open(*resP)
	if *replay != "" {
		rp, ok := replayers[*stream]
		if !ok {
			fmt.Fprintln(os.Stderr, "stream has no replayer", *stream)
			os.Exit(2)
		}
		f, err := os.Open(*replay)
		if err != nil {
			panic(err)
		}
		sc := bufio.NewScanner(f)
		sc.Buffer(make([]byte, 1<<20), 1<<28)
		for sc.Scan() {
			line := sc.Text()
			if strings.TrimSpace(line) == "" {
				continue
			}
			r.Emit(line, rp(r, strings.Fields(line)))
		}
	} else {
		fn(r)
	}
	r.casesW.Flush()
	r.resultsW.Flush()
	r.Stats.NontrivialN = len(r.Stats.Nontrivial)
	if *statsP != "" {
		b, _ := json.Marshal(r.Stats)
		if err := os.WriteFile(*statsP, b, 0o644); err != nil {
			panic(err)
		}
	}
}
