package main

// Stream `errloc` (property C07): every failure is a SourceError that locates the offending tag
// or object.
//
// A PLACEMENT generator builds error-free surrounding templates (a "skeleton": GenFragment pieces
// and wrapper blocks - if/else/elsif, unless, case/when/else, for, for-else, tablerow, capture -
// nested 0..6 deep, separated by newlines) and puts exactly ONE failing construct at every
// boundary between two pieces (so at every line), for every kind of failing construct that is
// applicable there, parsed with and without a path and with starting line 0, 1 and 7.
//
// Each placement is emitted as an ordinary `render` case line
//
//	render <cfg> <pathhex> <line> <srchex> <envenc>
//
// (so the Lean model is compared automatically). The environment carries one extra binding that no
// template reads, `zq_expect` = "<kind>:<offset of the failing tag/object in the source>[:<kind of
// error expected at that offset>]", which makes the case line self-describing: the replayer
// re-evaluates the same oracle from the line alone.
//
// ORACLE (on the real result, independent of the model): the result is an error and no output;
// LineNumber() = start line + number of newlines before the first byte of the failing tag/object;
// Path() = the path given ("" when none); Cause() is of the right kind where a filter or a
// conversion error was wrapped (FilterError wrapping the filter's error, TypeError,
// UndefinedFilter, SyntaxError for objects and block tags; plain tags re-make the text with
// Errorf, so a nil Cause() is allowed there); the message is non-empty and contains the offending
// filter/tag name where the library's text carries one. For an error inside an included file the
// line is the include tag's line plus the newlines of the file before the failing construct (checked for the
// files whose position is known: elInnerNewlines); at the nesting limit only Path and the error itself are checked.

import (
	"fmt"
	"path/filepath"
	"strconv"
	"strings"

	"github.com/osteele/liquid"
)

func init() {
	streams["errloc"] = errlocStream
	replayers["errloc"] = func(r *Run, f []string) string {
		if len(f) != 6 || f[0] != "render" {
			return "bad-case"
		}
		var line int
		fmt.Sscan(f[3], &line)
		env := DecEnv(f[5])
		cl := strings.Join(f, " ")
		return errlocCase(r, cl, parseEngineCfg(f[1]), unhexField(f[2]), line, unhexField(f[4]), env)
	}
}

const expectVar = "zq_expect"

// ---- kinds of failing construct ----------------------------------------------------------------

// elKind says what the oracle expects of one kind of failing construct.
type elKind struct {
	name     string
	phase    byte     // 'p': found while parsing/compiling (any position); 'r': found while rendering (executed positions only)
	errKinds []string // acceptable classifications of the error as a whole (errKind)
	cause    string   // required prefix of causeKind(Cause()); "" = not constrained (nil allowed); "none" = must be nil
	msgHas   string   // text the message must contain ("" = only non-empty)
	noLine   bool     // the property does not fix the line (error inside an included file)
	strict   bool     // needs StrictVariables
	fs       bool     // needs the include layout (and therefore a path)
	outside  bool     // only outside every loop wrapper (break/continue/cycle)
	variants []elVariant
	// applicability of a parse-phase construct that interacts with the enclosing block
	okIn func(top string) bool
}

// elVariant is one spelling; failAt marks the failing tag/object inside the text by the byte
// offset of the marker "@@" (removed), 0 when absent.
type elVariant struct {
	src     string
	failOff int
}

func vs(texts ...string) []elVariant {
	out := make([]elVariant, len(texts))
	for i, t := range texts {
		off := strings.Index(t, "@@")
		if off < 0 {
			off = 0
		} else {
			t = t[:off] + t[off+2:]
		}
		out[i] = elVariant{t, off}
	}
	return out
}

func hx(s string) string { return hexField(s) }

var elKinds = []elKind{
	{name: "obj-syntax", phase: 'p', errKinds: []string{"syntax"}, cause: "syntax",
		variants: vs("{{ zq | }}", "{{- zq | -}}", "{{ zq\n | }}", "{{ | }}", "{{ 1 + 2 }}", "{{ zq. }}", "{{\n\n zq |\n }}", "{{ 'a }}", "x{{ zq | }}y")},
	{name: "assign-syntax", phase: 'p', errKinds: []string{"syntax"},
		variants: vs("{% assign zq = %}", "{% assign zq %}", "{%- assign = 1 -%}", "{% assign\n zq = | %}", "{% assign zq = 1 | %}", "{% assign %}")},
	{name: "cycle-syntax", phase: 'p', errKinds: []string{"syntax"},
		variants: vs("{% cycle %}", "{% cycle 1 2 %}", "{%- cycle 'a', -%}", "{% cycle\n'a' 'b' %}")},
	{name: "if-syntax", phase: 'p', errKinds: []string{"syntax"}, cause: "syntax",
		variants: vs("{% if | %}zz{% endif %}", "{% if zq == %}\nzz\n{% endif %}", "{%- if 1 2 -%}{% else %}{% endif %}", "{% if\n zq |\n %}a{% endif %}", "{% if %}{% endif %}")},
	{name: "elsif-syntax", phase: 'p', errKinds: []string{"syntax"}, cause: "syntax",
		variants: vs("{% if zf %}a@@{% elsif | %}b{% endif %}", "{% if zf %}\na\n@@{% elsif zq == %}\nb\n{% endif %}", "{% if zt %}\n\n{% elsif zt %}\n@@{%- elsif 1 2 -%}{% else %}\n{% endif %}", "{% if zf %}@@{% elsif %}{% endif %}")},
	{name: "unless-syntax", phase: 'p', errKinds: []string{"syntax"}, cause: "syntax",
		variants: vs("{% unless | %}zz{% endunless %}", "{% unless zq == %}\nzz\n{% endunless %}", "{%- unless\n 1 2 -%}{% else %}{% endunless %}")},
	{name: "case-syntax", phase: 'p', errKinds: []string{"syntax"}, cause: "syntax",
		variants: vs("{% case | %}{% when 1 %}a{% endcase %}", "{% case zq == %}\n{% when 1 %}\na\n{% endcase %}", "{%- case 1 2 -%}{% endcase %}")},
	{name: "when-syntax", phase: 'p', errKinds: []string{"syntax"}, cause: "syntax",
		variants: vs("{% case 1 %}@@{% when | %}a{% endcase %}", "{% case 1 %}\n{% when 2 %}\nb\n@@{% when 1 2 %}\na\n{% endcase %}", "{% case zs %}\n\n@@{%- when -%}\n{% else %}c{% endcase %}")},
	{name: "for-syntax", phase: 'p', errKinds: []string{"syntax"}, cause: "syntax",
		variants: vs("{% for zi in %}a{% endfor %}", "{% for zi zn %}\na\n{% endfor %}", "{%- for zi in zn limit -%}{% endfor %}", "{% for\n zi in zn\n foo %}a{% else %}b{% endfor %}", "{% for %}{% endfor %}")},
	{name: "tablerow-syntax", phase: 'p', errKinds: []string{"syntax"}, cause: "syntax",
		variants: vs("{% tablerow zi in %}a{% endtablerow %}", "{% tablerow zi zn %}\na\n{% endtablerow %}", "{%- tablerow zi in zn cols -%}{% endtablerow %}")},
	{name: "unknown-tag", phase: 'p', errKinds: []string{"undefinedTag"}, cause: "none", msgHas: "zqtag",
		variants: vs("{% zqtag %}", "{% zqtag a b %}", "{%- zqtag -%}", "{% zqtag\n a\n %}", "x{%zqtag%}y")},
	{name: "unknown-filter", phase: 'r', errKinds: []string{"undefinedFilter"}, cause: "undefinedFilter:" + hx("zqfilter"), msgHas: "zqfilter",
		variants: vs("{{ 1 | zqfilter }}", "{{ zs | upcase | zqfilter: 1 }}", "{{- 1 | zqfilter -}}", "{{ 1\n | zqfilter }}", "{% assign zq = 1 | zqfilter %}", "{%- assign zq = zs | zqfilter: 2 -%}")},
	{name: "filter-error-divided_by", phase: 'r', errKinds: []string{"filterErr"}, cause: "filterErr:" + hx("divided_by") + ":", msgHas: "divided_by",
		variants: vs("{{ 1 | divided_by: 0 }}", "{{- 7 | divided_by: 0 -}}", "{{ 1\n | divided_by: 0 }}", "{% assign zq = 1 | divided_by: 0 %}", "{{ 1 | plus: 1 | divided_by: 0 | plus: 2 }}")},
	{name: "filter-error-url_decode", phase: 'r', errKinds: []string{"filterErr"}, cause: "filterErr:" + hx("url_decode") + ":", msgHas: "url_decode",
		variants: vs("{{ \"%zz\" | url_decode }}", "{{- '%zz' | url_decode -}}", "{% assign zq = '%zz' | url_decode %}")},
	{name: "type-error-filter", phase: 'r', errKinds: []string{"typeErr", "filterErr"}, cause: "*typeErr",
		variants: vs("{{ \"x\" | plus: 1 }}", "{{- 'x' | times: 2 -}}", "{{ 1 | plus: 'x' }}", "{% assign zq = 'x' | minus: 1 %}", "{{ 'x'\n | plus: 1 }}")},
	{name: "type-error-range", phase: 'r', errKinds: []string{"typeErr"}, cause: "typeErr",
		variants: vs("{% for zi in (1..zs) %}a{% endfor %}", "{% for zi in (zs..3) %}\na\n{% endfor %}", "{%- tablerow zi in (1..zs) -%}a{% endtablerow %}", "{% for zi in\n (1..zs) %}a{% else %}b{% endfor %}")},
	// a render-time failure of the expression of an elsif/when clause: the innermost failing tag is the clause
	// (found by this stream: the real code located it at the if/case tag; fixed by 6be7c7e)
	{name: "clause-render-error", phase: 'r', errKinds: []string{"filterErr", "undefinedFilter", "typeErr"}, cause: "*nonnil",
		variants: vs("{% if zf %}a@@{% elsif 1 | divided_by: 0 %}b{% endif %}", "{% if zf %}\na\n@@{% elsif 1 | zqfilter %}\nb\n{% endif %}", "{% case 1 %}\n{% when 2 %}x\n@@{% when (1..zs) %}\ny{% endcase %}",
			"{% if zf %}\n\n{% elsif zf %}\n@@{%- elsif (1..zs) contains 1 -%}{% else %}\n{% endif %}", "{% unless zt %}\n{% else %}{% if zf %}\n\n@@{% elsif '%zz' | url_decode %}{% endif %}\n{% endunless %}",
			"{% case zs %}\n@@{% when\n 'b', (zs..2) %}\ny{% else %}z{% endcase %}")},
	{name: "strict-undefined", phase: 'r', strict: true, errKinds: []string{"strictUndefined"}, cause: "other:undefinedVariable",
		variants: vs("{{ zqundef }}", "{{- zqundef -}}", "{{ zqundef.a }}", "{{\n zqundef }}", "{{ zn[9] }}")},
	{name: "break-outside", phase: 'r', outside: true, errKinds: []string{"brk"}, cause: "brk",
		variants: vs("{% break %}", "{%- break -%}", "{% if zt %}\n@@{% break %}\n{% endif %}")},
	{name: "continue-outside", phase: 'r', outside: true, errKinds: []string{"cont"}, cause: "cont",
		variants: vs("{% continue %}", "{%- continue -%}", "{% unless zf %}\n\n@@{% continue %}{% endunless %}")},
	{name: "cycle-outside", phase: 'r', outside: true, errKinds: []string{"cycleOutside"}, cause: "none",
		variants: vs("{% cycle 'a', 'b' %}", "{%- cycle 'g': 'a' -%}", "{% cycle\n 'a' %}")},
	{name: "loop-modifier", phase: 'r', errKinds: []string{"loopMod"}, cause: "none",
		variants: vs("{% for zi in zn offset: zs %}a{% endfor %}", "{% for zi in zn limit: 'a' %}\na\n{% endfor %}", "{% tablerow zi in zn cols: 'a' %}a{% endtablerow %}", "{%- for zi in zn limit: 1.5 -%}a{% else %}b{% endfor %}",
			"{% tablerow zi in zn\n cols: zs %}a{% endtablerow %}", "{% tablerow zi in zn offset: nil %}a{% endtablerow %}")},
	{name: "include-missing", phase: 'r', errKinds: []string{"includeIO"}, cause: "other:notExist", msgHas: "zqmissing",
		variants: vs("{% include 'zqmissing.html' %}", "{%- include \"zqmissing.html\" -%}", "{% include\n 'sub/zqmissing.html' %}")},
	{name: "include-non-string", phase: 'r', errKinds: []string{"includeArg"}, cause: "none",
		variants: vs("{% include 5 %}", "{%- include zn -%}", "{% include nil %}", "{% include\n zt %}")},
	{name: "include-error-inside", phase: 'r', fs: true, noLine: true, errKinds: []string{"syntax", "undefinedFilter", "filterErr", "undefinedTag"},
		variants: vs("{% include 'zqbad.html' %}", "{%- include 'zqfail.html' -%}", "{% include 'sub/zqdiv.html' %}", "{% include\n 'zqtag.html' %}")},
	// a file that includes itself: the error of RenderFile at the nesting limit, located at the innermost include tag
	// (a tag of the FILE, 100 levels in: the line is not fixed by the property), cause = the plain depth error
	{name: "include-depth", phase: 'r', fs: true, noLine: true, errKinds: []string{"includeDepth"}, cause: "other:includeDepth", msgHas: includeDepthMsg,
		variants: vs("{% include 'zqself.html' %}", "{%- include \"zqself.html\" -%}", "{% include\n 'sub/zqloop.html' %}")},
	// unbalanced blocks
	{name: "missing-end", phase: 'p', errKinds: []string{"unterminated", "notInside"}, cause: "none",
		variants: vs("{% if zt %}", "{% unless zf %}", "{% for zi in zn %}", "{% case 1 %}", "{% capture zq %}", "{% tablerow zi in zn %}", "{%- if zt -%}", "{% for zi\n in zn %}")},
	{name: "stray-end", phase: 'p', errKinds: []string{"notInside"}, cause: "none",
		variants: vs("{% endif %}", "{% endfor %}", "{% endcase %}", "{% endunless %}", "{% endcapture %}", "{% endtablerow %}", "{%- endif -%}", "{% endfor\n %}")},
	{name: "stray-else", phase: 'p', errKinds: []string{"notInside"}, cause: "none", msgHas: "else",
		variants: vs("{% else %}", "{%- else -%}"), okIn: func(top string) bool { return top == "" || top == "capture" || top == "tablerow" }},
	{name: "stray-when", phase: 'p', errKinds: []string{"notInside"}, cause: "none", msgHas: "when",
		variants: vs("{% when 1 %}", "{%- when 1, 2 -%}", "{% when\n 1 %}"), okIn: func(top string) bool { return top != "case" }},
	{name: "stray-elsif", phase: 'p', errKinds: []string{"notInside"}, cause: "none", msgHas: "elsif",
		variants: vs("{% elsif zt %}", "{%- elsif zt -%}"), okIn: func(top string) bool { return top != "if" }},
	{name: "unterminated-comment", phase: 'p', errKinds: []string{"unterminated"}, cause: "none", msgHas: "comment",
		variants: vs("{% comment %}", "{%- comment -%}", "{% comment\n %}")},
	{name: "unterminated-raw", phase: 'p', errKinds: []string{"unterminated"}, cause: "none", msgHas: "raw",
		variants: vs("{% raw %}", "{%- raw -%}")},
}

var elKindByName = func() map[string]*elKind {
	m := map[string]*elKind{}
	for i := range elKinds {
		m[elKinds[i].name] = &elKinds[i]
	}
	return m
}()

var cycleReported bool // the include-cycle-process-death violation is reported once per process

// the include layout of the include-error-inside and include-depth kinds
var elFS = [][2]string{
	{"zqbad.html", "a\n{{ 1 | }}\n"},
	{"zqfail.html", "line1\nline2\n{{ 1 | zqfilter }}"},
	{"sub/zqdiv.html", "\n\n\n{{ 1 | divided_by: 0 }}"},
	{"zqtag.html", "\n{% zqtag %}"},
	{"zqok.html", "fine {{ zs }}"},
	{"zqself.html", "x\n{% include 'zqself.html' %}"},
	{"sub/zqloop.html", "a{% include 'sub/zqback.html' %}"},
	{"sub/zqback.html", "b\n{% include 'sub/zqloop.html' %}"},
}

// the newlines of each file of elFS that fails, before its failing tag or object
var elInnerNewlines = map[string]int{"zqbad.html": 1, "zqfail.html": 2, "sub/zqdiv.html": 3, "zqtag.html": 1}

// ---- block grammar of the standard tags (for the unbalanced-block expectations) -----------------

var elBlockOf = map[string]string{"endif": "if", "endunless": "unless", "endcase": "case", "endfor": "for", "endtablerow": "tablerow", "endcapture": "capture"}

func elClauseOK(clause, parent string) bool {
	switch clause {
	case "else":
		return parent == "if" || parent == "unless" || parent == "case" || parent == "for"
	case "elsif":
		return parent == "if"
	case "when":
		return parent == "case"
	}
	return false
}

func elTagName(tag string) string {
	t := strings.TrimLeft(tag, "{%- \n")
	end := 0
	for end < len(t) && (t[end] == '_' || t[end] >= 'a' && t[end] <= 'z' || t[end] >= '0' && t[end] <= '9') {
		end++
	}
	return t[:end]
}

// ---- skeletons ---------------------------------------------------------------------------------

type elPiece struct {
	pre  string // separator before the piece
	src  string
	role byte   // 'f' fragment, 'o' wrapper open, 'c' clause of a wrapper, 'e' wrapper end, 'X' the failing construct
	name string // tag name for o/c/e
}

// elCtx is the context of the boundary before a piece.
type elCtx struct {
	stack    []string // open wrapper blocks, outermost first
	executed bool     // the position is reached when the skeleton renders
	inLoop   bool     // inside the body of a for/tablerow wrapper
}

func (c elCtx) top() string {
	if len(c.stack) == 0 {
		return ""
	}
	return c.stack[len(c.stack)-1]
}

type elSkeleton struct {
	pieces []elPiece
	ctxs   []elCtx // len(pieces)+1: ctxs[i] = context of the boundary before pieces[i]
	tail   string
	depth  int
}

type elBuilder struct {
	g    *RNG
	o    TmplOpts
	sc   Schema
	sk   *elSkeleton
	nvar int
}

var elSeps = []string{"\n", "\n", "\n", "\n", "\n\n", " \n  ", " ", "\n \n"}

func (b *elBuilder) add(ctx elCtx, role byte, name, src string) {
	pre := b.g.Pick(elSeps)
	if len(b.sk.pieces) == 0 {
		pre = b.g.Pick([]string{"", "", "\n", "text\n"})
	}
	b.sk.ctxs = append(b.sk.ctxs, ctx)
	b.sk.pieces = append(b.sk.pieces, elPiece{pre, src, role, name})
}

func (b *elBuilder) tag(s string) string {
	l, r := "{%", "%}"
	if b.g.Chance(10) {
		l = "{%-"
	}
	if b.g.Chance(10) {
		r = "-%}"
	}
	if b.g.Chance(8) { // a multi-line tag
		return l + " " + strings.Replace(s, " ", "\n  ", 1) + "\n" + r
	}
	return l + " " + s + " " + r
}

// lexical blocks whose tags and bodies span lines: every newline before the failing construct counts, also those INSIDE
// the end tag of a raw or comment block (which the tokenizer finds with a pattern of its own)
var elLexicalFrags = []string{
	"{% raw %}a\n{{ b{% endraw\n%}", "{% comment %}\n{% if {%-\nendcomment\n\n-%}", "{%- raw\n-%}{% endraw\n\n %}", "{% comment\n%}c{%\n\nendcomment %}",
	"{% raw %}{% endcomment\n%}\n{%\nendraw\n%}", "{% comment %}{% raw %}\n{% endcomment\n%}",
}

func (b *elBuilder) frag(ctx elCtx) {
	if b.g.Chance(12) {
		b.add(ctx, 'f', "", b.g.Pick(elLexicalFrags))
		return
	}
	o := b.o
	o.MaxNodes, o.MaxDepth = 1+b.g.Intn(3), 1+b.g.Intn(2)
	b.add(ctx, 'f', "", GenFragment(b.g, o, b.sc))
}

func pushed(ctx elCtx, name string) elCtx {
	st := append(append([]string{}, ctx.stack...), name)
	return elCtx{st, ctx.executed, ctx.inLoop}
}

// seq: fragments and, while depth remains, one wrapper that continues the spine.
func (b *elBuilder) seq(ctx elCtx, depth int) {
	g := b.g
	for i, n := 0, g.Intn(2); i < n; i++ {
		b.frag(ctx)
	}
	if depth > 0 {
		b.wrapper(ctx, depth-1)
		for i, n := 0, g.Intn(2); i < n; i++ {
			b.frag(ctx)
		}
	} else if len(b.sk.pieces) == 0 || g.Chance(60) {
		b.frag(ctx)
	}
}

// dead: the body of a branch that is not taken.
func (b *elBuilder) dead(ctx elCtx) {
	if b.g.Chance(60) {
		b.frag(ctx)
	}
}

func (b *elBuilder) wrapper(ctx elCtx, depth int) {
	g := b.g
	v := fmt.Sprintf("zi%d", b.nvar)
	b.nvar++
	T, F := g.Pick([]string{"zt", "true", "1 < 2", "zs == 'a'", "zn"}), g.Pick([]string{"zf", "false", "nil", "1 > 2", "zs == 'b'"})
	// live: the body that is rendered; deadc: a body that is compiled but never rendered. The
	// boundary before a clause or end tag belongs to the body that precedes it.
	block := func(name string, loop bool) (live, deadc elCtx) {
		live = pushed(ctx, name)
		deadc = live
		deadc.executed = false
		if loop {
			live.inLoop = true
		}
		return
	}
	switch g.Intn(11) {
	case 0:
		live, deadc := block("if", false)
		b.add(ctx, 'o', "if", b.tag("if "+T))
		b.seq(live, depth)
		if g.Chance(40) {
			b.add(live, 'c', "else", b.tag("else"))
			b.dead(deadc)
			b.add(deadc, 'e', "endif", b.tag("endif"))
		} else {
			b.add(live, 'e', "endif", b.tag("endif"))
		}
	case 1:
		live, deadc := block("if", false)
		b.add(ctx, 'o', "if", b.tag("if "+F))
		b.dead(deadc)
		b.add(deadc, 'c', "else", b.tag("else"))
		b.seq(live, depth)
		b.add(live, 'e', "endif", b.tag("endif"))
	case 2:
		live, deadc := block("if", false)
		b.add(ctx, 'o', "if", b.tag("if "+F))
		b.dead(deadc)
		b.add(deadc, 'c', "elsif", b.tag("elsif "+T))
		b.seq(live, depth)
		if g.Chance(50) {
			b.add(live, 'c', "else", b.tag("else"))
			b.dead(deadc)
			b.add(deadc, 'e', "endif", b.tag("endif"))
		} else {
			b.add(live, 'e', "endif", b.tag("endif"))
		}
	case 3:
		live, _ := block("unless", false)
		b.add(ctx, 'o', "unless", b.tag("unless "+F))
		b.seq(live, depth)
		b.add(live, 'e', "endunless", b.tag("endunless"))
	case 4:
		live, deadc := block("unless", false)
		b.add(ctx, 'o', "unless", b.tag("unless "+T))
		b.dead(deadc)
		b.add(deadc, 'c', "else", b.tag("else"))
		b.seq(live, depth)
		b.add(live, 'e', "endunless", b.tag("endunless"))
	case 5:
		live, deadc := block("case", false)
		b.add(ctx, 'o', "case", b.tag("case 1"))
		if g.Chance(50) {
			b.add(deadc, 'c', "when", b.tag("when 2"))
			b.dead(deadc)
		}
		b.add(deadc, 'c', "when", b.tag(g.Pick([]string{"when 1", "when 3, 1", "when 1, 1"})))
		b.seq(live, depth)
		if g.Chance(50) {
			b.add(live, 'c', "else", b.tag("else"))
			b.dead(deadc)
			b.add(deadc, 'e', "endcase", b.tag("endcase"))
		} else {
			b.add(live, 'e', "endcase", b.tag("endcase"))
		}
	case 6:
		live, deadc := block("case", false)
		b.add(ctx, 'o', "case", b.tag("case zs"))
		b.add(deadc, 'c', "when", b.tag("when 'b'"))
		b.dead(deadc)
		b.add(deadc, 'c', "else", b.tag("else"))
		b.seq(live, depth)
		b.add(live, 'e', "endcase", b.tag("endcase"))
	case 7:
		live, _ := block("for", true)
		b.add(ctx, 'o', "for", b.tag("for "+v+" in "+g.Pick([]string{"zn", "(1..2)", "zn reversed", "zn limit: 2", "zn offset: 1"})))
		b.seq(live, depth)
		b.add(live, 'e', "endfor", b.tag("endfor"))
	case 8:
		live, deadc := block("for", false) // the else branch of a for is not inside the loop
		b.add(ctx, 'o', "for", b.tag("for "+v+" in "+g.Pick([]string{"zempty", "nil", "(2..1)"})))
		b.dead(deadc)
		b.add(deadc, 'c', "else", b.tag("else"))
		b.seq(live, depth)
		b.add(live, 'e', "endfor", b.tag("endfor"))
	case 9:
		live, _ := block("tablerow", true)
		b.add(ctx, 'o', "tablerow", b.tag("tablerow "+v+" in "+g.Pick([]string{"zn", "zn cols: 2", "(1..3) cols:1"})))
		b.seq(live, depth)
		b.add(live, 'e', "endtablerow", b.tag("endtablerow"))
	default:
		live, _ := block("capture", false)
		b.add(ctx, 'o', "capture", b.tag("capture zc"+fmt.Sprint(b.nvar)))
		b.seq(live, depth)
		b.add(live, 'e', "endcapture", b.tag("endcapture"))
	}
}

func genSkeleton(g *RNG, o TmplOpts, sc Schema, depth int) *elSkeleton {
	b := &elBuilder{g: g, o: o, sc: sc, sk: &elSkeleton{depth: depth}}
	top := elCtx{executed: true}
	b.seq(top, depth)
	b.sk.ctxs = append(b.sk.ctxs, top)
	b.sk.tail = g.Pick([]string{"", "\n", "\nend", " "})
	return b.sk
}

// assemble joins the pieces, with the construct (if any) inserted at boundary at; it returns the
// source and the offset of every piece (the construct is piece index `at` of the result).
func (sk *elSkeleton) assemble(at int, construct *elPiece) (string, []elPiece, []int) {
	pieces := sk.pieces
	if construct != nil {
		pieces = append(append(append([]elPiece{}, sk.pieces[:at]...), *construct), sk.pieces[at:]...)
	}
	var sb strings.Builder
	offs := make([]int, len(pieces))
	for i, p := range pieces {
		sb.WriteString(p.pre)
		offs[i] = sb.Len()
		sb.WriteString(p.src)
	}
	sb.WriteString(sk.tail)
	return sb.String(), pieces, offs
}

// unbalancedExpectation replays the block structure of the skeleton after an unclosed block tag
// placed at boundary at: the offset of the tag that the parser must reject (a clause or end tag
// that cannot have the then-innermost block as its parent) or, when everything is consumed, of
// the innermost block that is still open; and the kind of that error.
func unbalancedExpectation(pieces []elPiece, offs []int, at int) (off int, kind string) {
	type open struct {
		name string
		off  int
	}
	var st []open
	// the enclosing wrappers (those still open at the boundary) with the offsets of their tags
	for i := 0; i < at; i++ {
		switch pieces[i].role {
		case 'o':
			st = append(st, open{pieces[i].name, offs[i]})
		case 'e':
			st = st[:len(st)-1]
		}
	}
	st = append(st, open{elTagName(pieces[at].src), offs[at]})
	for i := at + 1; i < len(pieces); i++ {
		p := pieces[i]
		switch p.role {
		case 'o':
			st = append(st, open{p.name, offs[i]})
		case 'c':
			if len(st) == 0 || !elClauseOK(p.name, st[len(st)-1].name) {
				return offs[i], "notInside"
			}
		case 'e':
			if len(st) == 0 || st[len(st)-1].name != elBlockOf[p.name] {
				return offs[i], "notInside"
			}
			st = st[:len(st)-1]
		}
	}
	if len(st) == 0 {
		return -1, "none"
	}
	return st[len(st)-1].off, "unterminated"
}

// ---- the oracle --------------------------------------------------------------------------------

// errlocRun is renderImpl keeping the error value.
func errlocRun(cfg engineCfg, path string, line int, src string, env map[string]any) (res string, se liquid.SourceError, parsePhase bool, pmsg string, strOut string, strErr error) {
	res, pmsg = protect(func() string {
		e := cfg.newEngine()
		p := path
		if d := cfg.dir(); d != "" {
			p = filepath.Join(d, path)
		}
		tpl, err := e.ParseTemplateLocation([]byte(src), p, line)
		if err != nil {
			se, parsePhase = err, true
			return canonRenderErr(cfg, err, true)
		}
		out, err := tpl.Render(env)
		if err != nil {
			se = err
			strOut, strErr = tpl.RenderString(env)
			if out != nil {
				return "err output-with-error"
			}
			return canonRenderErr(cfg, err, false)
		}
		return canonOK(out)
	})
	return
}

// errlocCase runs one placement on the real code, applies the oracle, returns the result line.
func errlocCase(r *Run, cl string, cfg engineCfg, path string, start int, src string, env map[string]*V) string {
	res, se, parsePhase, pmsg, strOut, strErr := errlocRun(cfg, path, start, src, RealiseEnv(env))
	ex, ok := env[expectVar]
	if !ok || ex.Kind != 's' {
		return res
	}
	parts := strings.Split(ex.S, ":")
	if len(parts) < 2 {
		return res
	}
	k := elKindByName[parts[0]]
	off, err := strconv.Atoi(parts[1])
	if k == nil || err != nil || off < 0 || off > len(src) {
		return res
	}
	want := k.errKinds
	if len(parts) >= 3 {
		want = []string{parts[2]}
	}
	viol := func(clause, detail string) {
		r.Violate("C07", clause, cl, fmt.Sprintf("%s at offset %d of %q (path %q, start line %d): %s", k.name, off, short(src, 400), path, start, detail))
	}
	switch {
	case res == "panic":
		viol("panic", pmsg)
		return res
	case strings.HasPrefix(res, "ok "):
		viol("no-error", "the template rendered: "+resultSummary(res))
		return res
	case res == "err output-with-error":
		viol("output-with-error", "Render returned output together with an error")
		return res
	case se == nil:
		viol("no-error", res)
		return res
	}
	if p := sourceErrorProblem(se); p != "" {
		viol("not-a-source-error", p)
		return res
	}
	if strErr != nil && strOut != "" {
		viol("output-with-error", fmt.Sprintf("RenderString returned %q together with an error", short(strOut, 100)))
	}
	msg := se.Error()
	gotKind := errKind(se, parsePhase)
	if parsePhase != (k.phase == 'p') {
		viol("phase", fmt.Sprintf("expected the error while %s, got it while %s: %s", map[bool]string{true: "parsing", false: "rendering"}[k.phase == 'p'], map[bool]string{true: "parsing", false: "rendering"}[parsePhase], msg))
	}
	kindOK := false
	for _, w := range want {
		kindOK = kindOK || w == gotKind
	}
	if !kindOK {
		viol("kind", fmt.Sprintf("expected a %v error, got %s: %s", want, gotKind, msg))
		return res
	}
	wantLine := start + strings.Count(src[:off], "\n")
	if !k.noLine && se.LineNumber() != wantLine {
		viol("line", fmt.Sprintf("LineNumber() = %d, the failing tag/object begins on line %d; error: %s", se.LineNumber(), wantLine, msg))
	}
	if k.name == "include-error-inside" {
		// the line of an error inside an included file IS fixed (C07 run_error_located_at_token): the file is parsed at
		// the include tag's line, so it is that line plus the newlines of the FILE before the failing tag/object
		best, add := -1, 0
		for name, n := range elInnerNewlines {
			if i := strings.Index(src[off:], name); i >= 0 && (best < 0 || i < best) {
				best, add = i, n
			}
		}
		if best >= 0 {
			r.Count("errloc-include-inner-line-checked")
		}
		if best >= 0 && se.LineNumber() != wantLine+add {
			viol("line", fmt.Sprintf("LineNumber() = %d, the include tag begins on line %d and the failing tag/object of the file follows %d newlines: expected %d; error: %s",
				se.LineNumber(), wantLine, add, wantLine+add, msg))
		}
	}
	if got := cfg.canonPath(se.Path()); got != path {
		viol("path", fmt.Sprintf("Path() = %q, parsed with %q; error: %s", got, path, msg))
	}
	ck := causeKind(se.Cause())
	switch {
	case k.cause == "":
	case k.cause == "none":
		// Errorf-made errors: nothing was wrapped; a cause is not required (and not forbidden)
	case k.cause == "*nonnil":
		if ck == "none" {
			viol("cause", "Cause() is nil although an evaluation error was wrapped; error: "+msg)
		}
	case k.cause == "*typeErr":
		if ck != "typeErr" && !(strings.HasPrefix(ck, "filterErr:") && strings.HasSuffix(ck, ":typeErr")) {
			viol("cause", fmt.Sprintf("Cause() is %s (%T), expected a TypeError (possibly inside a FilterError); error: %s", ck, se.Cause(), msg))
		}
	case !strings.HasPrefix(ck, k.cause):
		viol("cause", fmt.Sprintf("Cause() is %s (%T), expected %s...; error: %s", ck, se.Cause(), k.cause, msg))
	}
	if strings.TrimSpace(msg) == "" {
		viol("message", "empty message")
	} else if k.msgHas != "" && !strings.Contains(msg, k.msgHas) {
		viol("message", fmt.Sprintf("the message does not name %q: %s", k.msgHas, msg))
	}
	return res
}

// ---- the stream --------------------------------------------------------------------------------

var elPaths = []string{"", "dir/t.liquid"}
var elStarts = []int{0, 1, 7}

func errlocStream(r *Run) {
	if r.Shard == 0 {
		errlocPathFamily(r)
	}
	g := NewRNG(r.Seed, "errloc")
	for _, c := range corpusLines("errloc") {
		if f := strings.Fields(c); len(f) == 6 && r.Mine() {
			r.Emit(c, replayers["errloc"](r, f))
		}
	}
	nSkel := 150
	if r.Tier == "thorough" {
		nSkel = 1000
	}
	combo := 0
	for s := 0; s < nSkel; s++ {
		depth := s % 7
		o := DefaultTmplOpts()
		o.TrimPct = []int{0, 5, 12, 30}[g.Intn(4)]
		o.MissingVarPct, o.IllTypedPct = 0, 0
		sc := GenSchema(g, o)
		// a skeleton that renders without error (with and, if possible, without StrictVariables)
		var sk *elSkeleton
		var env map[string]*V
		strictOK := false
		for try := 0; try < 60; try++ {
			cand := genSkeleton(g, o, sc, depth)
			e := GenEnv(g, o, sc)
			e["zt"], e["zf"], e["zs"], e["zempty"] = VBool(true), VBool(false), VStr("a"), VAnys()
			e["zn"] = VAnys(VInt(0, 1), VInt(0, 2), VInt(0, 3))
			src, _, _ := cand.assemble(0, nil)
			real := RealiseEnv(e)
			if res := renderImpl(engineCfg{}, "", 0, src, real); !strings.HasPrefix(res, "ok ") {
				if r.Shard == 0 {
					r.Count("skeleton-rejected")
				}
				continue
			}
			sk, env = cand, e
			strictOK = strings.HasPrefix(renderImpl(engineCfg{Strict: true}, "", 0, src, real), "ok ")
			if strictOK || try >= 20 {
				break
			}
		}
		if sk == nil {
			if r.Shard == 0 {
				r.Count("skeleton-gave-up")
			}
			continue
		}
		if r.Shard == 0 { // every shard builds the same skeletons: count them once
			r.Count(fmt.Sprintf("skeleton-depth=%d", depth))
			if strictOK {
				r.Count("skeleton-strict-ok")
			}
		}
		for at := 0; at <= len(sk.pieces); at++ {
			ctx := sk.ctxs[at]
			for ki := range elKinds {
				k := &elKinds[ki]
				// one variant, one (path, start) combination per placement, cycling through all of them;
				// the thorough tier takes all six combinations for about one placement in eight
				v := k.variants[g.Intn(len(k.variants))]
				pre := g.Pick(elSeps)
				if at == 0 {
					pre = g.Pick([]string{"", "\n", "x\n\n"})
				}
				all := r.Tier == "thorough" && g.Chance(12)
				// applicability
				if k.phase == 'r' && !ctx.executed {
					continue
				}
				if k.name == "include-depth" { // rendered in this process: only when a cyclic include ends at all
					if alive, _, details := includeCycleSurvives(); !alive {
						if !cycleReported {
							cycleReported = true
							cl := renderCaseLine(engineCfg{FS: [][2]string{{"a.html", "x{% include \"a.html\" %}"}}}, mainTemplateName, 1, "{% include \"a.html\" %}", map[string]*V{})
							r.Violate("C07", "include-cycle-process-death", cl, details)
						}
						continue
					}
				}
				if k.outside && ctx.inLoop {
					continue
				}
				if k.strict && !strictOK {
					continue
				}
				if k.okIn != nil && !k.okIn(ctx.top()) {
					continue
				}
				if k.name == "stray-end" && elBlockOf[elTagName(v.src)] == ctx.top() {
					continue
				}
				var combos [][2]int
				if all {
					for pi := range elPaths {
						for si := range elStarts {
							combos = append(combos, [2]int{pi, si})
						}
					}
				} else {
					combos = [][2]int{{combo % 2, (combo / 2) % 3}}
					combo++
				}
				// every shard draws the same random sequence and counts the same cases; only the owner of
				// a case assembles and runs it
				type pick struct {
					c      [2]int
					strict bool
				}
				var mine []pick
				for _, c := range combos {
					alsoStrict := strictOK && g.Chance(10)
					if r.Mine() {
						mine = append(mine, pick{c, alsoStrict})
					}
				}
				if len(mine) == 0 {
					continue
				}
				construct := elPiece{pre, v.src, 'X', ""}
				src, pieces, offs := sk.assemble(at, &construct)
				off := offs[at] + v.failOff
				expKind := ""
				switch k.name {
				case "missing-end":
					off, expKind = unbalancedExpectation(pieces, offs, at)
					if off < 0 {
						continue
					}
				case "unterminated-comment":
					if strings.Contains(src[offs[at]+len(v.src):], "endcomment") {
						continue
					}
				case "unterminated-raw":
					if strings.Contains(src[offs[at]+len(v.src):], "endraw") {
						continue
					}
				}
				for _, pk := range mine {
					c, alsoStrict := pk.c, pk.strict
					cfg := engineCfg{Strict: k.strict || alsoStrict}
					path, start := elPaths[c[0]], elStarts[c[1]]
					if k.fs {
						cfg.FS, path = elFS, mainTemplateName
					}
					// only the bindings whose name occurs in the source (no other can be read): short case lines
					e2 := make(map[string]*V, 8)
					for kk, vv := range env {
						if strings.Contains(src, kk) {
							e2[kk] = vv
						}
					}
					ex := fmt.Sprintf("%s:%d", k.name, off)
					if expKind != "" {
						ex += ":" + expKind
					}
					e2[expectVar] = VStr(ex)
					cl := renderCaseLine(cfg, path, start, src, e2)
					res := errlocCase(r, cl, cfg, path, start, src, e2)
					r.Count("kind=" + k.name)
					r.Count(fmt.Sprintf("depth=%d", len(ctx.stack)))
					r.Count(fmt.Sprintf("path=%v start=%d", path != "", start))
					if strings.Contains(v.src, "\n") {
						r.Count("multi-line-construct")
					}
					f := strings.Fields(res)
					r.Count("res=" + f[0])
					if len(f) > 1 && f[0] == "err" {
						r.Count("errkind=" + f[1])
						r.Nontrivial(k.name + "/" + fmt.Sprint(len(ctx.stack)) + "/" + fmt.Sprint(strings.Count(src[:off], "\n")) + "/" + fmt.Sprint(c))
					}
					r.Emit(cl, res)
				}
			}
		}
	}
}
