package main

import (
	"fmt"

	"github.com/osteele/liquid"
)

// Struct types that share a name. Go type names are not identities: function-local types, and types of the same
// name in different packages, print alike (`reflect.Type.String()`). Each same-named type has a twin of a unique
// name and identical fields and tags; a binding of the one must render exactly as a binding of the other, whatever
// was rendered before in this process (C02: nothing depends on earlier activity in the process).

type determUniqueRowA struct {
	Title string `liquid:"name"`
	Qty   int
}

type determUniqueRowB struct {
	Name  string `liquid:"name"`
	Title string
}

type determUniqueRowC struct {
	Qty   string
	Title int `liquid:"qty"`
}

func sameNameRowsA() (any, any) {
	type row struct {
		Title string `liquid:"name"`
		Qty   int
	}
	return []row{{"CTO", 1}, {"CFO", 2}}, []determUniqueRowA{{"CTO", 1}, {"CFO", 2}}
}

func sameNameRowsB() (any, any) {
	type row struct {
		Name  string `liquid:"name"`
		Title string
	}
	return []row{{"Ann", "x1"}, {"Bob", "x2"}}, []determUniqueRowB{{"Ann", "x1"}, {"Bob", "x2"}}
}

func sameNameRowsC() (any, any) {
	type row struct {
		Qty   string
		Title int `liquid:"qty"`
	}
	return map[string]any{"r": row{"q", 7}}, map[string]any{"r": determUniqueRowC{"q", 7}}
}

// sameNamedTypesFamily renders bindings of same-named struct types one after the other in this process and
// compares each with its uniquely named twin.
func sameNamedTypesFamily(r *Run) {
	tmpls := []string{
		"{% for r in rows %}{{ r.name }}/{{ r.Title }}/{{ r.Qty }}/{{ r.qty }};{% endfor %}",
		"{{ rows.first.name }}|{{ rows.last.Title }}|{{ rows[0].Qty }}|{{ rows | map: 'name' | join: ',' }}",
		"{{ rows.r.Qty }}{{ rows.r.qty }}{{ rows.r.Title }}{{ rows.r.name }}",
	}
	builders := []func() (any, any){sameNameRowsA, sameNameRowsB, sameNameRowsC, sameNameRowsA, sameNameRowsC, sameNameRowsB}
	for round := 0; round < 2; round++ {
		for bi, b := range builders {
			same, unique := b()
			for _, src := range tmpls {
				render := func(v any) string {
					return guard(func() string { // a panic of the real code is a result ("panic"), not a crash of the harness
						out, err := liquid.NewEngine().ParseAndRenderString(src, liquid.Bindings{"rows": v})
						if err != nil {
							return "err " + err.Error()
						}
						return "ok " + out
					})
				}
				got, want := render(same), render(unique)
				r.Count("same-named-types")
				if got != want {
					r.Violate("C02", "depends-on-earlier-activity", "determ-same-named-types "+fmt.Sprint(round, "/", bi)+" "+hexField(src),
						fmt.Sprintf("a struct type named like one rendered earlier renders %q; its uniquely named twin renders %q   source: %q", got, want, src))
				}
			}
		}
	}
}
