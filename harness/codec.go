package main

// Codec for the line protocol's value trees (see lean/Liquid/Value.lean for the grammar).
// A V is a Go value *with its representation*; Realise builds the real Go value that is
// handed to the implementation, Reify turns an implementation result back into a V.

import (
	"encoding/hex"
	"fmt"
	"math"
	"math/big"
	"reflect"
	"sort"
	"strings"
	"sync/atomic"
	"time"

	"github.com/osteele/liquid"
	"github.com/osteele/liquid/values"
	yaml "gopkg.in/yaml.v2"
)

type T struct {
	C      byte // a o i d s y l r m
	K      int
	E      *T
	KT, VT *T
}

var (
	TAny   = &T{C: 'a'}
	TBool  = &T{C: 'o'}
	TStr   = &T{C: 's'}
	TBytes = &T{C: 'y'}
)

func TInt(k int) *T   { return &T{C: 'i', K: k} }
func TFlt(k int) *T   { return &T{C: 'd', K: k} }
func TSlice(e *T) *T  { return &T{C: 'l', E: e} }
func TArr(e *T) *T    { return &T{C: 'r', E: e} }
func TMap(k, v *T) *T { return &T{C: 'm', KT: k, VT: v} }

func (t *T) Enc() string {
	switch t.C {
	case 'i', 'd':
		return fmt.Sprintf("%c%d", t.C, t.K)
	case 'l', 'r':
		return string(t.C) + t.E.Enc()
	case 'm':
		return "m" + t.KT.Enc() + t.VT.Enc()
	}
	return string(t.C)
}

var anyType = reflect.TypeOf((*any)(nil)).Elem()

var intTypes = []reflect.Type{
	reflect.TypeOf(int(0)), reflect.TypeOf(int8(0)), reflect.TypeOf(int16(0)), reflect.TypeOf(int32(0)), reflect.TypeOf(int64(0)),
	reflect.TypeOf(uint(0)), reflect.TypeOf(uint8(0)), reflect.TypeOf(uint16(0)), reflect.TypeOf(uint32(0)), reflect.TypeOf(uint64(0)),
}
var fltTypes = []reflect.Type{reflect.TypeOf(float32(0)), reflect.TypeOf(float64(0))}

func (t *T) RType() reflect.Type {
	switch t.C {
	case 'a':
		return anyType
	case 'o':
		return reflect.TypeOf(true)
	case 'i':
		return intTypes[t.K]
	case 'd':
		return fltTypes[t.K]
	case 's':
		return reflect.TypeOf("")
	case 'y':
		return reflect.TypeOf([]byte(nil))
	case 'l':
		return reflect.SliceOf(t.E.RType())
	case 'r':
		panic("array type needs a length")
	case 'm':
		return reflect.MapOf(t.KT.RType(), t.VT.RType())
	}
	panic("bad type")
}

func typeOfRType(rt reflect.Type) *T {
	switch rt.Kind() {
	case reflect.Interface:
		return TAny
	case reflect.Bool:
		return TBool
	case reflect.Int:
		return TInt(0)
	case reflect.Int8:
		return TInt(1)
	case reflect.Int16:
		return TInt(2)
	case reflect.Int32:
		return TInt(3)
	case reflect.Int64:
		return TInt(4)
	case reflect.Uint:
		return TInt(5)
	case reflect.Uint8:
		return TInt(6)
	case reflect.Uint16:
		return TInt(7)
	case reflect.Uint32:
		return TInt(8)
	case reflect.Uint64:
		return TInt(9)
	case reflect.Float32:
		return TFlt(0)
	case reflect.Float64:
		return TFlt(1)
	case reflect.String:
		return TStr
	case reflect.Slice:
		if rt.Elem().Kind() == reflect.Uint8 {
			return TBytes
		}
		return TSlice(typeOfRType(rt.Elem()))
	case reflect.Array:
		return TArr(typeOfRType(rt.Elem()))
	case reflect.Map:
		return TMap(typeOfRType(rt.Key()), typeOfRType(rt.Elem()))
	}
	return TAny
}

type Field struct {
	Name string
	V    *V
}

type V struct {
	Kind     byte
	IK       int
	I        *big.Int
	Num, Den *big.Int
	S        string
	Ty       *T
	KTy, VTy *T
	Xs       []*V
	KVs      [][2]*V
	Fs       []Field
	A, B     int64
	In       *V
}

// constructors
func VNil() *V { return &V{Kind: 'n'} }
func VBool(b bool) *V {
	if b {
		return &V{Kind: 't'}
	}
	return &V{Kind: 'f'}
}
func VInt(k int, n int64) *V    { return &V{Kind: 'i', IK: k, I: big.NewInt(n)} }
func VBig(k int, n *big.Int) *V { return &V{Kind: 'i', IK: k, I: n} }
func VFlt(k int, f float64) *V {
	if math.IsNaN(f) || math.IsInf(f, 0) || (f == 0 && math.Signbit(f)) {
		return &V{Kind: 'X', S: fmt.Sprint("float:", f)}
	}
	r := new(big.Rat).SetFloat64(f)
	return &V{Kind: 'd', IK: k, Num: new(big.Int).Set(r.Num()), Den: new(big.Int).Set(r.Denom())}
}
func VStr(s string) *V         { return &V{Kind: 's', S: s} }
func VBytes(s string) *V       { return &V{Kind: 'b', S: s} }
func VSlice(t *T, xs ...*V) *V { return &V{Kind: 'L', Ty: t, Xs: xs} }
func VArr(t *T, xs ...*V) *V   { return &V{Kind: 'A', Ty: t, Xs: xs} }
func VAnys(xs ...*V) *V        { return VSlice(TAny, xs...) }
func VMap(k, v *T, kvs ...[2]*V) *V {
	m := &V{Kind: 'M', KTy: k, VTy: v, KVs: kvs}
	m.sortKVs()
	return m
}

// VMapOrdered is a map whose encoding keeps the entries in the order given (VMap puts them in the codec's
// canonical order). The Go map that Realise builds is the same either way — a Go map has no order; the model,
// which gets the entries in the order of the encoding, has to sort them wherever the code sorts the keys.
func VMapOrdered(k, v *T, kvs ...[2]*V) *V { return &V{Kind: 'M', KTy: k, VTy: v, KVs: kvs} }

// Shuffled returns a deep copy of v in which the entries of every map (and the fields of every
// IterationKeyedMap), at every depth, are in a pseudo-random order drawn from g. ParseV, Enc and Realise keep
// the order of the entries they are given.
func (v *V) Shuffled(g *RNG) *V {
	if v == nil {
		return nil
	}
	c := *v
	if v.Xs != nil {
		c.Xs = make([]*V, len(v.Xs))
		for i, x := range v.Xs {
			c.Xs[i] = x.Shuffled(g)
		}
	}
	if v.KVs != nil {
		c.KVs = make([][2]*V, len(v.KVs))
		for i, kv := range v.KVs {
			c.KVs[i] = [2]*V{kv[0].Shuffled(g), kv[1].Shuffled(g)}
		}
		if v.Kind == 'M' {
			for i := len(c.KVs) - 1; i > 0; i-- {
				j := g.Intn(i + 1)
				c.KVs[i], c.KVs[j] = c.KVs[j], c.KVs[i]
			}
		}
	}
	if v.Fs != nil {
		c.Fs = make([]Field, len(v.Fs))
		for i, f := range v.Fs {
			c.Fs[i] = Field{f.Name, f.V.Shuffled(g)}
		}
		if v.Kind == 'K' {
			for i := len(c.Fs) - 1; i > 0; i-- {
				j := g.Intn(i + 1)
				c.Fs[i], c.Fs[j] = c.Fs[j], c.Fs[i]
			}
		}
	}
	if v.In != nil {
		c.In = v.In.Shuffled(g)
	}
	return &c
}

// Canon returns a deep copy of v with the entries of every map and the fields of every IterationKeyedMap in the
// codec's canonical order (what VMap and VKeyed build): the inverse of Shuffled, for the oracles that read a
// value tree parsed from a case line.
func (v *V) Canon() *V {
	if v == nil {
		return nil
	}
	c := *v
	if v.Xs != nil {
		c.Xs = make([]*V, len(v.Xs))
		for i, x := range v.Xs {
			c.Xs[i] = x.Canon()
		}
	}
	if v.KVs != nil {
		c.KVs = make([][2]*V, len(v.KVs))
		for i, kv := range v.KVs {
			c.KVs[i] = [2]*V{kv[0].Canon(), kv[1].Canon()}
		}
		if v.Kind == 'M' {
			c.sortKVs()
		}
	}
	if v.Fs != nil {
		c.Fs = make([]Field, len(v.Fs))
		for i, f := range v.Fs {
			c.Fs[i] = Field{f.Name, f.V.Canon()}
		}
		if v.Kind == 'K' {
			sort.SliceStable(c.Fs, func(i, j int) bool { return c.Fs[i].Name < c.Fs[j].Name })
		}
	}
	if v.In != nil {
		c.In = v.In.Canon()
	}
	return &c
}

// ShuffledEnv: every binding Shuffled (the bindings map itself is encoded in key order; the model reads it by key).
func ShuffledEnv(env map[string]*V, g *RNG) map[string]*V {
	out := make(map[string]*V, len(env))
	for _, k := range sortedKeys(env) {
		out[k] = env[k].Shuffled(g)
	}
	return out
}

// CanonEnv: every binding in canonical order.
func CanonEnv(env map[string]*V) map[string]*V {
	out := make(map[string]*V, len(env))
	for k, v := range env {
		out[k] = v.Canon()
	}
	return out
}

func VStrMap(kvs ...[2]*V) *V   { return VMap(TStr, TAny, kvs...) }
func VMapSlice(kvs ...[2]*V) *V { return &V{Kind: 'S', KVs: kvs} }
func VKeyed(fs ...Field) *V {
	// an IterationKeyedMap is a Go map: the canonical field order is sorted by key
	fs = append([]Field(nil), fs...)
	sort.SliceStable(fs, func(i, j int) bool { return fs[i].Name < fs[j].Name })
	return &V{Kind: 'K', Fs: fs}
}
func VRange(a, b int64) *V     { return &V{Kind: 'R', A: a, B: b} }
func VPtr(v *V) *V             { return &V{Kind: 'P', In: v} }
func VNilPtr() *V              { return &V{Kind: 'N'} }
func VDrop(v *V) *V            { return &V{Kind: 'D', In: v} }
func VStruct(fs ...Field) *V   { return &V{Kind: 'T', Fs: fs} }
func VTime(u int64) *V         { return &V{Kind: 'U', A: u} }
func KV(k, v *V) [2]*V         { return [2]*V{k, v} }
func SKV(k string, v *V) [2]*V { return [2]*V{VStr(k), v} }

// keyLess is the canonical entry order of an unordered map: numbers numerically, strings
// bytewise, booleans false<true, anything else by encoding.
func keyLess(a, b *V) bool {
	rank := func(v *V) int {
		switch v.Kind {
		case 'n':
			return 0
		case 'f', 't':
			return 1
		case 'i', 'd':
			return 2
		case 's':
			return 3
		}
		return 4
	}
	ra, rb := rank(a), rank(b)
	if ra != rb {
		return ra < rb
	}
	switch ra {
	case 1:
		return a.Kind == 'f' && b.Kind == 't'
	case 2:
		if c := a.rat().Cmp(b.rat()); c != 0 {
			return c < 0
		}
		// equal numbers of different Go types (1, 1.0, int64(1) in a map[any]any): by type name, as values.SortedMapKeys
		return a.numTypeName() < b.numTypeName()
	case 3:
		return a.S < b.S
	}
	return a.Enc() < b.Enc()
}

func (v *V) numTypeName() string {
	if v.Kind == 'i' {
		return intTypes[v.IK].String()
	}
	return fltTypes[v.IK].String()
}

func (v *V) rat() *big.Rat {
	if v.Kind == 'i' {
		return new(big.Rat).SetInt(v.I)
	}
	return new(big.Rat).SetFrac(v.Num, v.Den)
}

func (v *V) sortKVs() {
	sort.SliceStable(v.KVs, func(i, j int) bool { return keyLess(v.KVs[i][0], v.KVs[j][0]) })
}

func (v *V) Enc() string {
	var sb strings.Builder
	v.enc(&sb)
	return sb.String()
}

func (v *V) enc(sb *strings.Builder) {
	switch v.Kind {
	case 'n', 't', 'f', 'N':
		sb.WriteByte(v.Kind)
	case 'i':
		fmt.Fprintf(sb, "i%d:%s;", v.IK, v.I.String())
	case 'd':
		fmt.Fprintf(sb, "d%d:%s/%s;", v.IK, v.Num.String(), v.Den.String())
	case 's', 'b':
		sb.WriteByte(v.Kind)
		sb.WriteString(hex.EncodeToString([]byte(v.S)))
		sb.WriteByte(';')
	case 'L', 'A':
		sb.WriteByte(v.Kind)
		sb.WriteString(v.Ty.Enc())
		sb.WriteByte('[')
		for _, x := range v.Xs {
			x.enc(sb)
		}
		sb.WriteByte(']')
	case 'M':
		sb.WriteString("M" + v.KTy.Enc() + v.VTy.Enc() + "{")
		for _, kv := range v.KVs {
			kv[0].enc(sb)
			kv[1].enc(sb)
		}
		sb.WriteByte('}')
	case 'S':
		sb.WriteString("S{")
		for _, kv := range v.KVs {
			kv[0].enc(sb)
			kv[1].enc(sb)
		}
		sb.WriteByte('}')
	case 'K', 'T':
		sb.WriteByte(v.Kind)
		sb.WriteByte('{')
		for _, f := range v.Fs {
			sb.WriteString("s" + hex.EncodeToString([]byte(f.Name)) + ";")
			f.V.enc(sb)
		}
		sb.WriteByte('}')
	case 'R':
		fmt.Fprintf(sb, "R%d:%d;", v.A, v.B)
	case 'P', 'D':
		sb.WriteByte(v.Kind)
		v.In.enc(sb)
	case 'U':
		fmt.Fprintf(sb, "U%d;", v.A)
	default:
		sb.WriteString("X" + hex.EncodeToString([]byte(v.S)) + ";")
	}
}

// ---- decoding -------------------------------------------------------------------------

type decoder struct {
	s string
	p int
}

func (d *decoder) next() byte { c := d.s[d.p]; d.p++; return c }
func (d *decoder) until(stop byte) string {
	i := strings.IndexByte(d.s[d.p:], stop)
	if i < 0 {
		panic("codec: missing " + string(stop))
	}
	out := d.s[d.p : d.p+i]
	d.p += i + 1
	return out
}

func (d *decoder) ty() *T {
	c := d.next()
	switch c {
	case 'a':
		return TAny
	case 'o':
		return TBool
	case 's':
		return TStr
	case 'y':
		return TBytes
	case 'i':
		return TInt(int(d.next() - '0'))
	case 'd':
		return TFlt(int(d.next() - '0'))
	case 'l':
		return TSlice(d.ty())
	case 'r':
		return TArr(d.ty())
	case 'm':
		k := d.ty()
		return TMap(k, d.ty())
	}
	panic("codec: bad type")
}

func unhex(h string) string {
	b, err := hex.DecodeString(h)
	if err != nil {
		panic(err)
	}
	return string(b)
}

func (d *decoder) val() *V {
	c := d.next()
	switch c {
	case 'n', 't', 'f', 'N':
		return &V{Kind: c}
	case 'i':
		k := int(d.next() - '0')
		d.next()
		n, _ := new(big.Int).SetString(d.until(';'), 10)
		return &V{Kind: 'i', IK: k, I: n}
	case 'd':
		k := int(d.next() - '0')
		d.next()
		num, _ := new(big.Int).SetString(d.until('/'), 10)
		den, _ := new(big.Int).SetString(d.until(';'), 10)
		return &V{Kind: 'd', IK: k, Num: num, Den: den}
	case 's', 'b':
		return &V{Kind: c, S: unhex(d.until(';'))}
	case 'L', 'A':
		t := d.ty()
		d.next()
		v := &V{Kind: c, Ty: t}
		for d.s[d.p] != ']' {
			v.Xs = append(v.Xs, d.val())
		}
		d.p++
		return v
	case 'M':
		k := d.ty()
		vt := d.ty()
		d.next()
		v := &V{Kind: 'M', KTy: k, VTy: vt}
		for d.s[d.p] != '}' {
			kk := d.val()
			v.KVs = append(v.KVs, [2]*V{kk, d.val()})
		}
		d.p++
		return v
	case 'S':
		d.next()
		v := &V{Kind: 'S'}
		for d.s[d.p] != '}' {
			kk := d.val()
			v.KVs = append(v.KVs, [2]*V{kk, d.val()})
		}
		d.p++
		return v
	case 'K', 'T':
		d.next()
		v := &V{Kind: c}
		for d.s[d.p] != '}' {
			d.next()
			name := unhex(d.until(';'))
			v.Fs = append(v.Fs, Field{name, d.val()})
		}
		d.p++
		return v
	case 'R':
		var a, b int64
		fmt.Sscan(d.until(':'), &a)
		fmt.Sscan(d.until(';'), &b)
		return VRange(a, b)
	case 'P', 'D':
		return &V{Kind: c, In: d.val()}
	case 'U':
		var a int64
		fmt.Sscan(d.until(';'), &a)
		return VTime(a)
	case 'X':
		return &V{Kind: 'X', S: unhex(d.until(';'))}
	}
	panic("codec: bad value tag " + string(c))
}

func ParseV(s string) *V {
	d := &decoder{s: s}
	v := d.val()
	if d.p != len(s) {
		panic("codec: trailing input")
	}
	return v
}

// ---- realisation as real Go values ------------------------------------------------------

// dropV is a Drop whose ToLiquid value is v.
type dropV struct{ v any }

func (d dropV) ToLiquid() any { return d.v }

var _ liquid.Drop = dropV{}

func setElem(dst reflect.Value, x any) {
	if x == nil {
		dst.Set(reflect.Zero(dst.Type()))
		return
	}
	rv := reflect.ValueOf(x)
	if rv.Type() != dst.Type() && rv.Type().ConvertibleTo(dst.Type()) && dst.Kind() != reflect.Interface {
		rv = rv.Convert(dst.Type())
	}
	dst.Set(rv)
}

func (v *V) Realise() any {
	switch v.Kind {
	case 'n':
		return nil
	case 't':
		return true
	case 'f':
		return false
	case 'i':
		rv := reflect.New(intTypes[v.IK]).Elem()
		if v.IK >= 5 {
			rv.SetUint(v.I.Uint64())
		} else {
			rv.SetInt(v.I.Int64())
		}
		return rv.Interface()
	case 'd':
		f, _ := new(big.Rat).SetFrac(v.Num, v.Den).Float64()
		if v.IK == 0 {
			return float32(f)
		}
		return f
	case 's':
		return v.S
	case 'b':
		return []byte(v.S)
	case 'L':
		if v.Ty.C == 'y' { // [][]byte etc. are not needed
			panic("unsupported")
		}
		s := reflect.MakeSlice(reflect.SliceOf(v.Ty.RType()), len(v.Xs), len(v.Xs))
		for i, x := range v.Xs {
			setElem(s.Index(i), x.Realise())
		}
		return s.Interface()
	case 'A':
		a := reflect.New(reflect.ArrayOf(len(v.Xs), v.Ty.RType())).Elem()
		for i, x := range v.Xs {
			setElem(a.Index(i), x.Realise())
		}
		return a.Interface()
	case 'M':
		m := reflect.MakeMap(reflect.MapOf(v.KTy.RType(), v.VTy.RType()))
		for _, kv := range v.KVs {
			k := reflect.New(v.KTy.RType()).Elem()
			setElem(k, kv[0].Realise())
			e := reflect.New(v.VTy.RType()).Elem()
			setElem(e, kv[1].Realise())
			m.SetMapIndex(k, e)
		}
		return m.Interface()
	case 'S':
		ms := yaml.MapSlice{}
		for _, kv := range v.KVs {
			ms = append(ms, yaml.MapItem{Key: kv[0].Realise(), Value: kv[1].Realise()})
		}
		return ms
	case 'K':
		m := map[string]any{}
		for _, f := range v.Fs {
			m[f.Name] = f.V.Realise()
		}
		return liquid.IterationKeyedMap(m)
	case 'R':
		return values.NewRange(int(v.A), int(v.B))
	case 'P':
		x := v.In.Realise()
		if x == nil {
			var a any
			return &a
		}
		p := reflect.New(reflect.TypeOf(x))
		p.Elem().Set(reflect.ValueOf(x))
		return p.Interface()
	case 'N':
		return nilPointer(int(nilPtrFlavor.Load()))
	case 'D':
		return dropV{v.In.Realise()}
	case 'T':
		fields := make([]reflect.StructField, len(v.Fs))
		for i, f := range v.Fs {
			fields[i] = reflect.StructField{Name: fmt.Sprintf("F%d", i), Type: anyType, Tag: reflect.StructTag(fmt.Sprintf(`liquid:"%s"`, f.Name))}
		}
		s := reflect.New(reflect.StructOf(fields)).Elem()
		for i, f := range v.Fs {
			setElem(s.Field(i), f.V.Realise())
		}
		return s.Interface()
	case 'U':
		return time.Unix(v.A, 0).UTC()
	case 'X':
		// the floats the model has no value for (VFlt): realised for the streams that only observe the implementation
		switch v.S {
		case "float:NaN":
			return math.NaN()
		case "float:+Inf":
			return math.Inf(1)
		case "float:-Inf":
			return math.Inf(-1)
		case "float:-0":
			return math.Copysign(0, -1)
		}
	}
	panic("cannot realise " + v.Enc())
}

// ---- reification of implementation results ----------------------------------------------

func Reify(x any) *V {
	if x == nil {
		return VNil()
	}
	switch t := x.(type) {
	case dropV:
		return VDrop(Reify(t.v))
	case yaml.MapSlice:
		out := &V{Kind: 'S'}
		for _, it := range t {
			out.KVs = append(out.KVs, [2]*V{Reify(it.Key), Reify(it.Value)})
		}
		return out
	case values.Range:
		rv := reflect.ValueOf(t)
		return VRange(rv.Field(0).Int(), rv.Field(1).Int())
	case time.Time:
		return VTime(t.Unix())
	case []byte:
		return VBytes(string(t))
	}
	rv := reflect.ValueOf(x)
	rt := rv.Type()
	switch rv.Kind() {
	case reflect.Bool:
		return VBool(rv.Bool())
	case reflect.Int, reflect.Int8, reflect.Int16, reflect.Int32, reflect.Int64:
		return VBig(typeOfRType(rt).K, big.NewInt(rv.Int()))
	case reflect.Uint, reflect.Uint8, reflect.Uint16, reflect.Uint32, reflect.Uint64:
		return VBig(typeOfRType(rt).K, new(big.Int).SetUint64(rv.Uint()))
	case reflect.Float32:
		return VFlt(0, rv.Float())
	case reflect.Float64:
		return VFlt(1, rv.Float())
	case reflect.String:
		return VStr(rv.String())
	case reflect.Slice, reflect.Array:
		out := &V{Kind: 'L', Ty: typeOfRType(rt.Elem())}
		if rv.Kind() == reflect.Array {
			out.Kind = 'A'
		}
		for i := 0; i < rv.Len(); i++ {
			out.Xs = append(out.Xs, Reify(rv.Index(i).Interface()))
		}
		return out
	case reflect.Map:
		if rt.Name() == "IterationKeyedMap" {
			out := &V{Kind: 'K'}
			keys := rv.MapKeys()
			sort.Slice(keys, func(i, j int) bool { return keys[i].String() < keys[j].String() })
			for _, k := range keys {
				out.Fs = append(out.Fs, Field{k.String(), Reify(rv.MapIndex(k).Interface())})
			}
			return out
		}
		out := &V{Kind: 'M', KTy: typeOfRType(rt.Key()), VTy: typeOfRType(rt.Elem())}
		for _, k := range rv.MapKeys() {
			out.KVs = append(out.KVs, [2]*V{Reify(k.Interface()), Reify(rv.MapIndex(k).Interface())})
		}
		out.sortKVs()
		return out
	case reflect.Ptr:
		if rv.IsNil() {
			return VNilPtr()
		}
		return VPtr(Reify(rv.Elem().Interface()))
	case reflect.Struct:
		out := &V{Kind: 'T'}
		for i := 0; i < rt.NumField(); i++ {
			f := rt.Field(i)
			if !f.IsExported() {
				continue
			}
			name := f.Name
			if tag, ok := f.Tag.Lookup("liquid"); ok {
				name = tag
			}
			out.Fs = append(out.Fs, Field{name, Reify(rv.Field(i).Interface())})
		}
		return out
	}
	return &V{Kind: 'X', S: fmt.Sprintf("%T", x)}
}

// nilPtrFlavor selects the pointee type of the nil pointers that Realise builds ('N' carries no type: every
// nil pointer is the Liquid nil). RealiseEnv derives it from the environment's encoding, so that a case
// always gets the same Go values and all flavours occur across a run.
var nilPtrFlavor atomic.Int32

const nilPtrFlavors = 7

type nilPtrStruct struct {
	A any `liquid:"a"`
	B int
}

func nilPointer(flavor int) any {
	switch flavor % nilPtrFlavors {
	case 5:
		return (*time.Time)(nil) // times are plain data, and code that knows about times looks through pointers to them
	case 6:
		return (*values.Range)(nil)
	case 1:
		return (*nilPtrStruct)(nil)
	case 2:
		return (*[]any)(nil)
	case 3:
		return (*map[string]any)(nil)
	case 4:
		return (*string)(nil)
	}
	return (*int)(nil)
}
