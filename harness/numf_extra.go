package main

import (
	"fmt"
	"math/big"

	"github.com/osteele/liquid"
)

// numfExtraFamily (implementation only): (1) a filtered expression in parentheses as a filter ARGUMENT, after earlier
// filters of the same chain: the arguments of the outer filter are evaluated without disturbing its receiver; (2) numeric
// strings of 19..21 digits around 2^63 and 2^64 as receivers: the number they spell (as a float64), or an error — never
// a wrapped-around value.
func numfExtraFamily(r *Run) {
	e := liquid.NewEngine()
	check := func(src, want string) {
		got := guard(func() string {
			out, err := e.ParseAndRenderString(src, map[string]any{})
			if err != nil {
				return "err"
			}
			return "ok " + out
		})
		r.Count("numf-extra")
		if got != want {
			r.Violate("C17", "arithmetic-on-operands", "numf-extra "+hexField(src), fmt.Sprintf("%q renders %s, want %s", src, got, want))
		}
	}
	for _, c := range [][2]string{{"{{ 1 | plus: (2 | times: 2) }}", "5"}, {"{{ 1 | abs | plus: (2 | times: 2) }}", "5"}, {"{{ 7 | plus: 0 | modulo: (0 | plus: 2) }}", "1"},
		{"{{ 10 | minus: 1 | minus: (3 | minus: (1 | plus: 1)) }}", "8"}, {"{{ 2 | times: 3 | divided_by: (4 | minus: 2) | plus: (1 | times: (2 | plus: 3)) }}", "8"},
		{"{{ 'a' | append: 'b' | append: ('c' | append: ('d' | upcase)) }}", "abcD"}} {
		check(c[0], "ok "+c[1])
	}
	for _, ds := range []string{"9223372036854775807", "9223372036854775808", "18446744073709551615", "18446744073709551616", "20000000000000000000", "30000000000000000000",
		"50000000000000000000", "99999999999999999999", "100000000000000000000", "1844674407370955161", "184467440737095516160"} {
		f, _ := new(big.Float).SetString(ds)
		x, _ := f.Float64()
		half := x / 2
		render := func(v float64) string {
			out, _ := e.ParseAndRenderString("{{ v }}", map[string]any{"v": v})
			return out
		}
		check("{{ '"+ds+"' | plus: 0 }}", "ok "+render(x))
		check("{{ '"+ds+"' | divided_by: 2.0 }}", "ok "+render(half))
		check("{{ '"+ds+"' | times: 1 | minus: '"+ds+"' }}", "ok 0")
	}
	check("{{ 1.25 | round: '99999999999999999999' }}", "err")
}
