package main

import (
	"fmt"
	"strings"

	"github.com/osteele/liquid/parser"
)

// Stream `verbatim` (property C05, render level): a source in which no tag or object opens renders
// to itself; the body of a raw block is emitted exactly as written whatever tag-like text it
// contains; the body of a comment block contributes nothing and is never evaluated; a string value
// printed by an object is emitted exactly. Every case is an ordinary `render` line.

func init() {
	streams["verbatim"] = verbatimStream
	replayers["verbatim"] = replayers["render"]
}

// bodies that look like tags/objects, with trim markers, unbalanced blocks and syntax errors
var tagLikeBits = []string{
	"{{ x }}", "{{- x }}", "{{ x -}}", "{{- x -}}", "{% if a %}", "{%- if a -%}", "{% endif %}", "{% else %}", "{%- endfor -%}",
	"{{ 1 | nofilter }}", "{{ | }}", "{% bogus %}", "{% assign q = 1 %}", "{%- assign q = 2 -%}", "{% for i in (1..3) %}", "{{", "}}", "{%", "%}",
	" ", "  ", "\n", "\t", "a", "b c", "é", "😀", "-", "\"", "'", "{% comment %}", "{% raw %}", "{% endcomment %}", "{% endraw %}", "{%- endcomment -%}", "{%-endraw-%}", "{{ '}}' }}", "{% if %}", "{{ x | divided_by: 0 }}",
}

func verbatimStream(r *Run) {
	g := NewRNG(r.Seed, "verbatim")
	run := func(src string, env map[string]*V, kind string) (string, string) {
		cl := renderCaseLine(engineCfg{}, "", 0, src, env)
		// a primer render that ends with a pending right-trim: nothing of it may reach the next render
		renderImpl(engineCfg{}, "", 0, "a {% if true %}b{% endif -%}", nil)
		renderImpl(engineCfg{}, "", 0, "c {{ 1 -}}", nil)
		res := renderImpl(engineCfg{}, "", 0, src, RealiseEnv(env))
		r.Count("kind=" + kind)
		r.Count("res=" + strings.Fields(res)[0])
		r.Nontrivial(cl)
		r.Emit(cl, res)
		return res, cl
	}
	out := func(res string) (string, bool) {
		if strings.HasPrefix(res, "ok ") {
			return unhexField(strings.TrimPrefix(res, "ok ")), true
		}
		return "", false
	}
	body := func(maxBits int, forbid ...string) string {
		for {
			var sb strings.Builder
			n := g.Intn(maxBits + 1)
			for i := 0; i < n; i++ {
				sb.WriteString(g.Pick(tagLikeBits))
			}
			s := sb.String()
			ok := true
			for _, f := range forbid {
				if strings.Contains(s, f) {
					ok = false
				}
			}
			if ok {
				return s
			}
		}
	}
	textBits := []string{"x", " ", "  ", "\n", "\t", "y z", "é", "<p>", "} ", "% ", "{ ", "-"}
	text := func() string {
		var sb strings.Builder
		for i, n := 0, g.Intn(4); i < n; i++ {
			sb.WriteString(g.Pick(textBits))
		}
		return sb.String()
	}
	env := map[string]*V{"x": VStr("X"), "a": VBool(true)}

	if r.Shard == 0 {
		verbatimUnclosedDelimiterFamily(r, run, out)
		verbatimNeighbourHyphenFamily(r, run, out)
	}
	n := 6000
	if r.Tier == "thorough" {
		n = 80000
	}
	for k := 0; k < n; k++ {
		mine := r.Mine()
		pre, post := text(), text()
		switch k % 5 {
		case 0: // raw body verbatim — ANY body without an endraw tag: unclosed and unbalanced delimiters included (since
			// the repair raw-comment-lexical the tokenizer does not look inside the body)
			b := body(5, "endraw")
			open := g.Pick([]string{"{% raw %}", "{%raw%}", "{% raw  %}"})
			src := pre + open + b + "{% endraw %}" + post
			if !mine {
				continue
			}
			res, cl := run(src, env, "raw")
			if o, ok := out(res); !ok || o != pre+b+post {
				r.Violate("C05", rawClause("raw-body-emitted-exactly", b, "endraw"), cl, fmt.Sprintf("want %q got %s", pre+b+post, res))
			}
		case 1: // comment contributes nothing and is never evaluated (syntax errors, unknown tags, unbalanced blocks inside)
			b := body(5, "endcomment")
			src := pre + "{% comment %}" + b + "{% endcomment %}" + post
			if !mine {
				continue
			}
			res, cl := run(src, env, "comment")
			if o, ok := out(res); !ok || o != pre+post {
				r.Violate("C05", rawClause("comment-contributes-nothing", b, "endcomment"), cl, fmt.Sprintf("want %q got %s", pre+post, res))
			}
		case 4: // several raw and comment blocks in one template, in any order, with text between them
			var src, want strings.Builder
			// the text between blocks holds no delimiter bytes (it is not the subject here); the bodies are arbitrary
			safe := func(t string) string { return strings.NewReplacer("}", "", "%", "", "{", "").Replace(t) }
			for i, m := 0, 2+g.Intn(3); i < m; i++ {
				t := safe(text())
				src.WriteString(t)
				want.WriteString(t)
				if g.Chance(50) {
					b := body(4, "endraw")
					src.WriteString("{% raw %}" + b + "{% endraw %}")
					want.WriteString(b)
				} else {
					b := body(4, "endcomment")
					src.WriteString("{% comment %}" + b + "{% endcomment %}")
				}
			}
			if !mine {
				continue
			}
			res, cl := run(src.String(), env, "raw-and-comment-blocks")
			if o, ok := out(res); !ok || o != want.String() {
				r.Violate("C05", "raw-bodies-kept-comment-bodies-dropped", cl, fmt.Sprintf("want %q got %s", want.String(), res))
			}
		case 2: // no tag or object opens: renders to itself
			src := pre + body(4) + post
			for strings.Contains(src, "{{") || strings.Contains(src, "{%") {
				src = strings.NewReplacer("{{", "{ {", "{%", "{ %").Replace(src)
			}
			if !mine {
				continue
			}
			res, cl := run(src, env, "text")
			if o, ok := out(res); !ok || o != src {
				r.Violate("C05", "delimiter-free-source-renders-to-itself", cl, fmt.Sprintf("got %s", res))
			}
		default: // a string value is printed exactly (also as []byte and through a drop)
			var sb strings.Builder
			for i, m := 0, g.Intn(12); i < m; i++ {
				switch g.Intn(5) {
				case 0:
					sb.WriteString(g.Pick(tagLikeBits))
				case 1:
					sb.WriteByte(byte(g.Intn(256)))
				default:
					sb.WriteString(g.Pick([]string{"<", ">", "&", "\"", "'", "\\", "\x00", "\n", " ", "é", "日本", "%7B", "a"}))
				}
			}
			s := sb.String()
			var v *V
			switch g.Intn(3) {
			case 0:
				v = VStr(s)
			case 1:
				v = VBytes(s)
			default:
				v = VDrop(VStr(s))
			}
			e2 := map[string]*V{"s": v}
			if !mine {
				continue
			}
			res, cl := run("["+"{{ s }}"+"]", e2, "string-value")
			if o, ok := out(res); !ok || o != "["+s+"]" {
				r.Violate("C05", "string-value-printed-exactly", cl, fmt.Sprintf("want %q got %s", s, res))
			}
		}
	}
}

// rawClause names a failure of the raw / comment oracle. Before the repair raw-comment-lexical the tokenizer ran over the
// whole source before the block parser knew that it was inside a raw or comment block, so an opening delimiter in the
// body that was not closed inside the body took the end tag for its own closing delimiter ("{% raw %}{% b {% endraw %}":
// one tag named b with the arguments "{% endraw"), and the block was reported as unterminated. On a tree without the
// repair such a failure is still classified under its own clause (known_findings.json: fixed); anything else that goes
// wrong with a raw or comment body keeps the general clause.
func rawClause(general, body, endName string) string {
	if swallowsEndTag(body, endName) {
		return general + ":unclosed-delimiter-in-body"
	}
	return general
}

// swallowsEndTag: the real tokenizer, given the body followed by the end tag, does not deliver that end tag.
func swallowsEndTag(body, endName string) bool {
	found := false
	func() {
		defer func() { recover() }()
		for _, t := range parser.Scan(body+"{% "+endName+" %}", parser.SourceLoc{}, nil) {
			if t.Type == parser.TagTokenType && t.Name == endName {
				found = true
			}
		}
	}()
	return !found
}

// verbatimUnclosedDelimiterFamily: the former deviation (repaired by raw-comment-lexical), run on every check with
// fixed inputs: every one of these bodies must now be emitted exactly (raw) resp. contribute nothing (comment).
func verbatimUnclosedDelimiterFamily(r *Run, run func(src string, env map[string]*V, kind string) (string, string), out func(string) (string, bool)) {
	env := map[string]*V{"x": VStr("X")}
	for _, c := range []struct{ open, body, end, general string }{
		{"{% raw %}", "{% b ", "endraw", "raw-body-emitted-exactly"},
		{"{% raw %}", "a {{ x ", "endraw", "raw-body-emitted-exactly"},
		{"{% raw %}", "%}\t{%b c{{- x -}}", "endraw", "raw-body-emitted-exactly"},
		{"{% comment %}", "{% if ", "endcomment", "comment-contributes-nothing"},
		{"{%- raw -%}", "{{", "endraw", "raw-body-emitted-exactly"},
		{"{% comment %}", "{{ | }} {% endraw %}{% raw %}{{", "endcomment", "comment-contributes-nothing"},
		// the OTHER lexical block's end tag inside the body, then an opener that is not closed: the body ends at its own end tag
		{"{% raw %}", "{% endcomment %}{{ ", "endraw", "raw-body-emitted-exactly"},
		{"{% raw %}", "a{%- endcomment -%} {% x", "endraw", "raw-body-emitted-exactly"},
		{"{% comment %}", "{% endraw %}{% if ", "endcomment", "comment-contributes-nothing"},
		{"{% comment %}", "{{ x }}{%endraw%} {{", "endcomment", "comment-contributes-nothing"},
	} {
		src := "p" + c.open + c.body + "{% " + c.end + " %}q"
		want := "pq"
		if c.end == "endraw" {
			want = "p" + c.body + "q"
		}
		res, cl := run(src, env, "unclosed-delimiter-in-body")
		if o, ok := out(res); !ok || o != want {
			r.Violate("C05", rawClause(c.general, c.body, c.end), cl, fmt.Sprintf("want %q got %s", want, res))
		}
	}
}

// verbatimNeighbourHyphenFamily: C05's "a string value printed by an object is emitted exactly" and "the body of a raw
// block is emitted exactly as written" next to a NEIGHBOUR's hyphen. The white space at the edge of a value or of a raw
// body is not literal text of the template: the hyphen of the tag before or after it has nothing to strip there. Until the
// repair fixes/verbatim-output-not-trimmed the trim writer, which works on the output stream, stripped it all the same
// (K-C05-value-trimmed-by-neighbour-hyphen, K-C05-raw-trimmed-by-neighbour-hyphen in known_findings.json, now `fixed`;
// on a tree without the repair a failure is still classified under these two clauses). Every shape must pass: neighbours
// of every kind (object, assign, if/unless/case clauses, for/tablerow bodies, capture bodies, comment, cycle, a loop's
// break), values of every printable kind with white space at both edges (string, []byte, drop, pointer, arrays = several
// Write calls, nested arrays, empty strings and nil inside an array), empty values, and a control group (the object's OWN
// hyphens, literal text between hyphen and value).
func verbatimNeighbourHyphenFamily(r *Run, run func(src string, env map[string]*V, kind string) (string, string), out func(string) (string, bool)) {
	env := map[string]*V{"x": VStr("X"), "s": VStr("  s \n"), "b": VBytes(" b "), "d": VDrop(VStr("\td\t")), "e": VStr(""),
		"p": VPtr(VStr(" p ")), "arr": VAnys(VStr(" a "), VStr("\tb\n")), "nest": VAnys(VAnys(VStr("  n")), VStr("m  ")),
		"holes": VAnys(VStr(""), VNil(), VStr(" h "), VStr("")), "ws": VStr(" \n\t "), "nbsp": VStr("\u00a0u\u2003"),
		"strs": VSlice(TStr, VStr(" 1 "), VStr(" 2 ")), "n": VNil()}
	const val, raw = "string-value-printed-exactly:neighbour-hyphen", "raw-body-emitted-exactly:neighbour-hyphen"
	for _, c := range []struct{ src, want, clause string }{
		{"{{ x -}}{{ s }}|", "X  s \n|", val},
		{"|{{ s }}{{- x }}", "|  s \nX", val},
		{"{% if true -%}{{ b }}{%- endif %}|", " b |", val},
		{"{% assign q = 1 -%}{{ d }}{%- assign q = 2 %}|", "\td\t|", val},
		{"{{ x -}}{{ e }}{{ s }}|", "X  s \n|", val},
		{"{{ x -}}{% raw %}  y {% endraw %}|", "X  y |", raw},
		{"|{% raw %} y  {% endraw %}{{- x }}", "| y  X", raw},
		{"{% if true -%}{% raw %}\n y{% endraw %}{% endif %}|", "\n y|", raw},
		// neighbours of every kind
		{"{% unless false -%}{{ s }}{%- endunless %}|", "  s \n|", val},
		{"{% if false %}{% else -%}{{ s }}{%- endif %}|", "  s \n|", val},
		{"{% if false %}{% elsif true -%}{{ s }}{%- else %}{% endif %}|", "  s \n|", val},
		{"{% case 1 %}{% when 1 -%}{{ s }}{%- when 2 %}{% endcase %}|", "  s \n|", val},
		{"{% case 3 %}{% when 1 %}{% else -%}{{ b }}{%- endcase %}|", " b |", val},
		{"{% for i in (1..2) -%}{{ s }}{%- endfor %}|", "  s \n  s \n|", val},
		{"{% for i in (1..2) %}{{ s }}{%- break %}{% endfor %}|", "  s \n|", val},
		{"{% for i in (1..2) %}{%- continue -%}{% endfor -%}{{ s }}|", "  s \n|", val},
		{"{% for i in n %}{% else -%}{{ s }}{%- endfor %}|", "  s \n|", val},
		{"{% comment %} c {% endcomment -%}{{ s }}{%- comment %}{% endcomment %}|", "  s \n|", val},
		{"{% capture c -%}{{ s }}{%- endcapture %}[{{ c }}]", "[  s \n]", val},
		{"{% capture c %}{{ x -}}{{ s }}{{- x }}{% endcapture %}[{{ c }}]", "[X  s \nX]", val},
		{"{% capture c %} c {% endcapture -%}{{ c }}{%- assign q = 1 %}|", " c |", val},
		{"{% capture c %}{{ s }}{% endcapture %}{{ x -}}{{ c }}{{- x }}", "X  s \nX", val},
		{"{% for i in (1..1) %}{% cycle 'a', 'b' -%}{{ s }}{%- cycle 'a', 'b' %}{% endfor %}|", "a  s \nb|", val},
		{"{% tablerow i in (1..1) -%}{{ s }}{%- endtablerow %}|", "<tr class=\"row1\"><td class=\"col1\">  s \n</td></tr>|", val},
		{"{% for i in (1..2) -%}{% raw %} r {% endraw %}{%- endfor %}|", " r  r |", raw},
		{"{% capture c -%}{% raw %} r {% endraw %}{%- endcapture %}[{{ c }}]", "[ r ]", raw},
		{"{% assign q = 1 -%}{% raw %}\t{{- q -}}\t{% endraw %}{%- assign q = 2 %}|", "\t{{- q -}}\t|", raw},
		{"{% raw %} a {% endraw -%}{% raw %} b {% endraw %}|", " a  b |", raw},
		{"{% raw %} a {% endraw %}{%- raw %} b {% endraw %}|", " a  b |", raw},
		// values of every printable kind, white space at both edges, between two hyphens of the neighbours
		{"{{ x -}}{{ b }}{{- x }}", "X b X", val},
		{"{{ x -}}{{ d }}{{- x }}", "X\td\tX", val},
		{"{{ x -}}{{ p }}{{- x }}", "X p X", val},
		{"{{ x -}}{{ arr }}{{- x }}", "X a \tb\nX", val},
		{"{{ x -}}{{ nest }}{{- x }}", "X  nm  X", val},
		{"{{ x -}}{{ holes }}{{- x }}", "X h X", val},
		{"{{ x -}}{{ strs }}{{- x }}", "X 1  2 X", val},
		{"{{ x -}}{{ ws }}{{- x }}", "X \n\t X", val},
		{"{{ x -}}{{ nbsp }}{{- x }}", "X\u00a0u\u2003X", val},
		{"{{ x -}}{{ s | append: '  ' }}{{- x }}", "X  s \n  X", val},
		{"{{ x -}}{{ '  lit ' }}{{- x }}", "X  lit X", val},
		{"{{ x -}}{{ arr | join: ' ' }}{{- x }}", "X a  \tb\nX", val},
		// empty values and nil: nothing to protect, and the value after them is still out of reach
		{"{{ x -}}{{ e }}{{- x }}|", "XX|", val},
		{"{{ x -}}{{ n }}{{ s }}{{ n }}{{- x }}|", "X  s \nX|", val},
		{"{{ s }}{{ e }}{{- x }}|", "  s \nX|", val},
		// controls: the object's own hyphens strip the literal text around it, never its value; literal text between a hyphen and a value takes the trim
		{"[ {{- s -}} ]", "[  s \n]", "string-value-printed-exactly"},
		{"{{ x -}} a{{ s }}|", "Xa  s \n|", "string-value-printed-exactly"},
		{"|{{ s }}a {{- x }}", "|  s \naX", "string-value-printed-exactly"},
		{"[ {%- raw %} y {% endraw -%} ]", "[ y ]", "raw-body-emitted-exactly"},
		{"[ {{- arr -}} ]", "[ a \tb\n]", "string-value-printed-exactly"},
		{"{{ s }} {{- x -}} {{ s }}", "  s \nX  s \n", "string-value-printed-exactly"},
	} {
		res, cl := run(c.src, env, "neighbour-hyphen")
		if o, ok := out(res); !ok || o != c.want {
			r.Violate("C05", c.clause, cl, fmt.Sprintf("want %q got %s", c.want, res))
		}
	}
}
