package main

// The filter call layer: expressions.ApplyFilter + values.Call + values.Convert, fmt.Sprint and
// render.writeObject, run on the REAL code.
//
//   filter <namehex> <recv-enc> <arg-enc>*   the expression `x | name: a0, a1` evaluated with
//                                            expressions.EvaluateString under a config holding the
//                                            standard filters; x, a0, a1 bound to the values
//   conv <ty> <enc>                          values.Convert(v, ty), ty in any bool int f64 str anys time
//   sprint <enc>                             fmt.Sprint(v)
//   wobj <enc>                               `{{ x }}` rendered by liquid.NewEngine() (render.writeObject)
//
// results: `ok <value-enc>` (filter, conv) / `ok <hex>` (sprint, wobj) | `err <kind>` | `panic`.
//
// Other streams reuse filterCase(name, recv, args) / filterCaseLine(name, recv, args).

import (
	"fmt"
	"math"
	"math/big"
	"reflect"
	"strings"
	"time"

	"github.com/osteele/liquid"
	"github.com/osteele/liquid/expressions"
	"github.com/osteele/liquid/filters"
	"github.com/osteele/liquid/values"
)

func init() {
	streams["filter"] = filterStream
	replayers["filter"] = func(r *Run, f []string) string {
		if len(f) >= 3 && f[0] == "filter" {
			name := unhexField(f[1])
			if name == dateFilterName { // with the date oracle (stream_filter_date.go)
				args := make([]*V, 0, len(f))
				for _, a := range f[3:] {
					args = append(args, ParseV(a))
				}
				return dateFilterCase(r, strings.Join(f, " "), ParseV(f[2]), args)
			}
			for _, jn := range jsonFilterNames {
				if name == jn { // with the json oracle (stream_filter_json.go)
					args := make([]*V, 0, len(f))
					for _, a := range f[3:] {
						args = append(args, ParseV(a))
					}
					return jsonFilterCase(r, strings.Join(f, " "), name, ParseV(f[2]), args, NewRNG(r.Seed, "filter-json-replay"))
				}
			}
		}
		return replayCallLayer(f)
	}
	streams["conv"] = convStream
	replayers["conv"] = func(r *Run, f []string) string { return replayCallLayer(f) }
}

func replayCallLayer(f []string) string {
	switch f[0] {
	case "filter":
		args := make([]*V, 0, len(f))
		for _, a := range f[3:] {
			args = append(args, ParseV(a))
		}
		return filterCase(unhexField(f[1]), ParseV(f[2]), args)
	case "conv":
		return convCase(f[1], ParseV(f[2]))
	case "sprint":
		return sprintCase(ParseV(f[1]))
	case "wobj":
		return wobjCase(ParseV(f[1]))
	}
	return "bad-op"
}

// filterCauseKind canonicalises an error of the real code to the `Cause` enum of Basic.lean.
func filterCauseKind(err error) string {
	switch e := err.(type) {
	case values.TypeError:
		return "typeErr"
	case expressions.UndefinedFilter:
		return "undefinedFilter"
	case expressions.FilterError:
		return "filterErr:" + filterCauseKind(e.Err)
	case *expressions.FilterError:
		return "filterErr:" + filterCauseKind(e.Err)
	case *values.CallParityError:
		return "parity"
	case expressions.InterpreterError:
		return "interp"
	case expressions.SyntaxError:
		return "syntax"
	}
	if err.Error() == "division by zero" {
		return "divZero"
	}
	return "other"
}

var stdFilterConfig = func() expressions.Config {
	cfg := expressions.NewConfig()
	filters.AddStandardFilters(&cfg)
	return cfg
}()

func filterExprSource(name string, nargs int) string {
	src := "x | " + name
	for i := 0; i < nargs; i++ {
		if i == 0 {
			src += ": "
		} else {
			src += ", "
		}
		src += fmt.Sprintf("a%d", i)
	}
	return src
}

func filterCaseLine(name string, recv *V, args []*V) string {
	var sb strings.Builder
	sb.WriteString("filter " + hexField(name) + " " + recv.Enc())
	for _, a := range args {
		sb.WriteString(" " + a.Enc())
	}
	return sb.String()
}

// filterEval evaluates `x | name: a0, …` on the real code.
func filterEval(name string, recv *V, args []*V) (out any, err error, panicked bool) {
	defer func() {
		if r := recover(); r != nil {
			panicked = true
			lastPanic = fmt.Sprint(r)
		}
	}()
	bindings := map[string]any{"x": recv.Realise()}
	for i, a := range args {
		bindings[fmt.Sprintf("a%d", i)] = a.Realise()
	}
	out, err = expressions.EvaluateString(filterExprSource(name, len(args)), expressions.NewContext(bindings, stdFilterConfig))
	return
}

// filterCase is the result line of a `filter` case on the real code.
func filterCase(name string, recv *V, args []*V) string {
	out, err, panicked := filterEval(name, recv, args)
	switch {
	case panicked:
		return "panic"
	case err != nil:
		return "err " + filterCauseKind(err)
	}
	return guard(func() string { return "ok " + Reify(out).Enc() })
}

var paramTypes = map[string]reflect.Type{
	"any":  anyType,
	"bool": reflect.TypeOf(true),
	"int":  reflect.TypeOf(1),
	"f64":  reflect.TypeOf(1.0),
	"str":  reflect.TypeOf(""),
	"anys": reflect.TypeOf([]any{}),
	"time": reflect.TypeOf(time.Time{}),
}
var paramTypeNames = []string{"any", "bool", "int", "f64", "str", "anys", "time"}

func convCase(ty string, v *V) string {
	return guard(func() string {
		out, err := values.Convert(v.Realise(), paramTypes[ty])
		if err != nil {
			return "err " + filterCauseKind(err)
		}
		return "ok " + Reify(out).Enc()
	})
}

func sprintCase(v *V) string {
	return guard(func() string { return "ok " + hexField(fmt.Sprint(v.Realise())) })
}

var stdEngine = liquid.NewEngine()

func wobjCase(v *V) string {
	return guard(func() string {
		out, err := stdEngine.ParseAndRenderString("{{ x }}", map[string]any{"x": v.Realise()})
		if err != nil {
			return "err " + filterCauseKind(err.Cause())
		}
		return "ok " + hexField(out)
	})
}

// ---- generation ---------------------------------------------------------------------------

var numericFilterNames = []string{"abs", "ceil", "floor", "plus", "minus", "times", "divided_by", "modulo", "round"}
var callLayerFilterNames = append(append([]string{}, numericFilterNames...), "default", "size")

// nparams (receiver included) of the filters whose bodies the call-layer model implements
var numFilterArity = map[string]int{"abs": 1, "ceil": 1, "floor": 1, "plus": 2, "minus": 2, "times": 2, "divided_by": 2,
	"modulo": 2, "round": 2, "default": 2, "size": 1}

func smallArgUniverse() []*V {
	return []*V{VNil(), VInt(0, 0), VInt(0, 2), VInt(0, -3), VFlt(1, 1.5), VFlt(1, 0), VStr("2"), VStr("x"), VStr(""), VBool(true),
		VInt(5, 2), VBig(9, new(big.Int).SetUint64(math.MaxUint64)), VInt(6, 4), VInt(4, -2), VFlt(0, 0.5), VDrop(VInt(0, 2)), VAnys(), VPtr(VInt(0, 3)), VNilPtr()}
}

func filterStream(r *Run) {
	g := NewRNG(r.Seed, "filter")
	emit := func(name string, recv *V, args ...*V) {
		if !r.Mine() {
			return
		}
		line := filterCaseLine(name, recv, args)
		res := filterCase(name, recv, args)
		r.Count("filter=" + name)
		r.Count("nargs=" + fmt.Sprint(len(args)))
		r.Count("result=" + strings.SplitN(res, " ", 2)[0])
		if strings.HasPrefix(res, "err ") {
			r.Count(res)
		}
		if !strings.HasPrefix(res, "err typeErr") {
			r.Nontrivial(line)
		}
		r.Emit(line, res)
	}
	full := fullUniverse()
	small := smallArgUniverse()
	// every receiver, with and without an argument
	for _, name := range callLayerFilterNames {
		for _, recv := range full {
			emit(name, recv)
			if numFilterArity[name] >= 2 {
				for _, a := range small {
					emit(name, recv, a)
				}
			}
		}
	}
	// arity: one and two arguments too many; unknown filters
	for _, name := range callLayerFilterNames {
		n := numFilterArity[name]
		for extra := 0; extra <= 2; extra++ {
			args := []*V{}
			for i := 0; i < n-1+extra; i++ {
				args = append(args, VInt(0, int64(i+1)))
			}
			emit(name, VInt(0, 7), args...)
			emit(name, VStr("x"), args...) // conversion failure vs parity: which is reported first
		}
	}
	for _, name := range []string{"nofilter", "Plus", "plu", "x", "sizes"} {
		emit(name, VInt(0, 1))
		emit(name, VStr("x"), VInt(0, 1))
	}
	// random
	n := 4000
	if r.Tier == "thorough" {
		n = 60000
	}
	for i := 0; i < n; i++ {
		name := callLayerFilterNames[g.Intn(len(callLayerFilterNames))]
		recv := randomVal(g, 2)
		if g.Chance(50) {
			recv = randomNumberV(g)
		}
		nargs := g.Intn(numFilterArity[name] + 1)
		if g.Chance(70) {
			nargs = numFilterArity[name] - 1
		}
		args := make([]*V, nargs)
		for k := range args {
			if g.Chance(60) {
				args[k] = randomNumberV(g)
			} else {
				args[k] = randomVal(g, 1)
			}
		}
		emit(name, recv, args...)
	}
	// json, inspect, type (stream_filter_json.go)
	jsonFilterCases(r, NewRNG(r.Seed, "filter-json"))
	// date, time printing, ParseDate (stream_filter_date.go)
	dateFilterCases(r, NewRNG(r.Seed, "filter-date"))
}

// randomNumberV: a number in some Go representation, or a string spelling one.
func randomNumberV(g *RNG) *V {
	switch g.Intn(10) {
	case 0, 1:
		return VInt(0, int64(g.Intn(41)-20))
	case 2:
		return VInt(g.Intn(5), int64(g.Intn(200)-100))
	case 3:
		return VInt(5+g.Intn(5), int64(g.Intn(200)))
	case 4, 5:
		return VFlt(1, randomFloat(g))
	case 6:
		return VFlt(1, float64(g.Intn(2001)-1000)/float64(int(1)<<uint(g.Intn(6))))
	case 7:
		return VFlt(0, float64(float32(float64(g.Intn(2001)-1000)/8)))
	case 8:
		return VStr(g.Pick([]string{"3", "2.5", "-1", "0.1", "1e3", "1E-2", "+7", ".5", "5.", "1e", "e1", " 1", "1 ", "x", "", "0x10", "1_0", "inf", "NaN", "-0", "-0.0", "1e400", "-1e400", "1e-400", "007", "12345678901234567890", "0.30000000000000004", "9007199254740993", "--1", "+-1", "1.2.3", "1e+5", "1e5.0", "٣"}))
	default:
		return VInt(4, []int64{math.MaxInt64, math.MinInt64, 1 << 53, (1 << 53) + 1, -(1 << 53) - 1, 1<<62 + 1, 1e15, 1e16 + 1}[g.Intn(8)])
	}
}

// randomFloat: finite float64s of many shapes (never NaN/Inf/-0).
func randomFloat(g *RNG) float64 {
	var f float64
	switch g.Intn(9) {
	case 0:
		f = math.Float64frombits(g.U64())
	case 1:
		f = float64(g.Intn(2000001)-1000000) / 1000
	case 2:
		f = float64(g.Intn(20001)-10000) / 100
	case 3:
		f = math.Pow10(g.Intn(60) - 30)
	case 4:
		f = float64(int64(g.U64()>>uint(g.Intn(64)))) * math.Pow10(g.Intn(10)-5)
	case 5:
		f = math.Ldexp(float64(g.Intn(1<<20)+1), g.Intn(200)-100)
	case 6:
		f = float64(g.Intn(1000)) * 1e18
	case 7:
		f = math.Ldexp(1, g.Intn(2098)-1074) // powers of two incl. subnormals: asymmetric rounding interval
		if g.Bool() {
			f = math.Nextafter(f, math.Inf(1))
		}
	default:
		f = float64(g.Intn(19) - 9)
	}
	if g.Chance(30) {
		f = -f
	}
	if math.IsNaN(f) || math.IsInf(f, 0) || f == 0 {
		return 0
	}
	return f
}

// f32of: f as a float32 value (0 when it overflows or underflows to ±0)
func f32of(f float64) float64 {
	x := float64(float32(f))
	if math.IsInf(x, 0) || x == 0 {
		return 0
	}
	return x
}

func convStream(r *Run) {
	g := NewRNG(r.Seed, "conv")
	emit := func(line, res string) {
		r.Count("op=" + strings.SplitN(line, " ", 2)[0])
		r.Count("result=" + strings.SplitN(res, " ", 2)[0])
		r.Nontrivial(line)
		r.Emit(line, res)
	}
	conv := func(ty string, v *V) {
		if !r.Mine() {
			return
		}
		r.Count("ty=" + ty)
		emit("conv "+ty+" "+v.Enc(), convCase(ty, v))
	}
	prints := func(v *V) {
		if r.Mine() {
			emit("sprint "+v.Enc(), sprintCase(v))
		}
		if r.Mine() {
			emit("wobj "+v.Enc(), wobjCase(v))
		}
	}
	extra := []*V{
		VStr("12"), VStr("+12"), VStr("-12"), VStr("1_2"), VStr("0x1p-2"), VStr("1e2"), VStr("9223372036854775807"), VStr("9223372036854775808"),
		VStr("-9223372036854775808"), VStr("-9223372036854775809"), VStr("1."), VStr(".1"), VStr("."), VStr("+"), VStr("-"), VStr("Inf"), VStr("infinity"), VStr("nan"),
		VFlt(1, 9.3e18), VFlt(1, -9.3e18), VFlt(1, 9223372036854775807), VFlt(1, -9223372036854775808), VFlt(1, 1e300), VFlt(1, 0.999), VFlt(1, -0.999), VFlt(0, 2.5),
		VArr(TAny, VNil(), VInt(0, 1)), VSlice(TStr), VStrMap(SKV("a", VNil())), VMapSlice(SKV("a", VNil()), KV(VNil(), VInt(0, 1))), VBytes("\x00\xff"),
		VAnys(VDrop(VDrop(VInt(0, 1)))), VDrop(VDrop(VStr("a"))), VPtr(VDrop(VInt(0, 1))), VPtr(VAnys(VInt(0, 1), VInt(0, 2))), VPtr(VStruct(Field{"a", VInt(0, 1)})),
		VAnys(VPtr(VInt(0, 1))), VAnys(VNilPtr()), VTime(0), VAnys(VTime(0)), VRange(5, 1), VRange(-2, 2), VRange(1, 10000001),
		VMap(TAny, TAny, KV(VInt(0, 2), VStr("b")), KV(VInt(0, 1), VStr("a"))), VMap(TAny, TAny, KV(VInt(0, 2), VStr("b")), KV(VStr("a"), VStr("a"))),
		VMap(TInt(0), TStr, KV(VInt(0, 10), VStr("b")), KV(VInt(0, 9), VStr("a")), KV(VInt(0, -1), VStr("c"))),
		VMap(TFlt(1), TAny, KV(VFlt(1, 2.5), VNil()), KV(VFlt(1, -1), VInt(0, 1))), VMap(TBool, TInt(0), KV(VBool(true), VInt(0, 1)), KV(VBool(false), VInt(0, 0))),
		VKeyed(Field{"a", VFlt(1, 1e6)}, Field{"b", VInt(0, 1)}), VStruct(), VStruct(Field{"a", VNil()}, Field{"b", VAnys(VStr("x y"))}),
		VAnys(VFlt(1, 1e6), VFlt(1, 1234567), VFlt(1, 1e21), VFlt(1, 0.000001), VFlt(0, 1e6)),
	}
	all := append(fullUniverse(), extra...)
	for _, v := range all {
		for _, ty := range paramTypeNames {
			conv(ty, v)
		}
		prints(v)
	}
	for _, f := range []float64{1e5, 999999, 1e6, 1234567, 1e20, 1e21, 1e22, 123456789012345678, 1 << 53, 1<<53 + 2, 1e-4, 1e-5, 0.00012345, 5e-324, math.MaxFloat64,
		2.2250738585072014e-308, 0.1, 0.2, 0.30000000000000004, 1.0 / 3, 2.0 / 3, 100, 1e15, 1e16, 1e17, 123456.5, 999999.5, 1e6 + 0.5, -1e6, -1234567.25} {
		prints(VFlt(1, f))
		prints(VFlt(1, -f))
		conv("int", VFlt(1, f))
		conv("str", VFlt(1, f))
		f32 := f32of(f)
		if f32 != 0 {
			prints(VFlt(0, f32))
			conv("f64", VFlt(0, f32))
		}
	}
	n := 3000
	if r.Tier == "thorough" {
		n = 40000
	}
	for i := 0; i < n; i++ {
		var v *V
		switch g.Intn(4) {
		case 0:
			v = randomVal(g, 3)
		case 1:
			v = randomNumberV(g)
		case 2:
			v = VFlt(0, f32of(randomFloat(g)))
		default:
			v = VFlt(1, randomFloat(g))
		}
		conv(paramTypeNames[g.Intn(len(paramTypeNames))], v)
		prints(v)
	}
}
