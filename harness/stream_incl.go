package main

// The `incl` stream (C14): {% include expr %} renders the named file (or cached source) with the
// includer's current variables.
//
// A case is an include layout (files, each independently on disk / registered through
// ParseTemplateAndCache only / both with different content / missing), a main template located at
// some path inside the layout, and an environment. The REAL engine renders it in a scratch
// directory under workDir() that is removed after the case. Three model-independent oracles:
//
//   reference  the same source on an engine whose `include` tag is replaced (RegisterTag) by a
//              reference implementation written against the layout table: evaluate the argument,
//              require a string, resolve it against the directory of the template's path, take
//              the disk content, else the cached one, render that content directly with a copy of
//              the current bindings and return the output. Works wherever the include stands
//              (loops, captures, nested files).
//   static     for includes at the top level of a main template whose earlier variables are
//              known by construction (only assigns of literals before it): each include tag is
//              replaced by an object `{{ __inc_k }}` (same hyphens) bound to the output of
//              rendering the file's content directly with the environment plus those assigns.
//   table      a missing file, a non-string argument or an error inside the included template
//              fails the render (kind and line checked for the first two, when the failing include is
//              the first top-level one).
//
// Cases whose layout has no cache-only file are emitted as ordinary `render` lines (FS = the disk
// files); the others as `incl` lines (see inclLine), which carry the cache as well. The Lean driver
// answers both ops (Driver.lean, runInclCase), so every case is compared with the model.

import (
	"fmt"
	"os"
	"path/filepath"
	"strings"

	"github.com/osteele/liquid"
	"github.com/osteele/liquid/render"
)

func init() {
	streams["incl"] = inclStream
	replayers["incl"] = func(r *Run, f []string) string {
		if len(f) > 2 && f[0] == "incld" { // a deep or cyclic layout: its own oracle (stream_incl_depth.go)
			c := parseInclLine(f[2:])
			if c == nil {
				return "bad-op"
			}
			return c.checkDepth(r, strings.Join(f, " "), f[1])
		}
		c := parseInclLine(f)
		if c == nil {
			return "bad-op"
		}
		return c.check(r, strings.Join(f, " ")) // `render` and `incl` lines alike: the driver answers both ops
	}
}

type inclFile struct {
	Name              string
	Disk, Cache       string
	HasDisk, HasCache bool
}

type inclCase struct {
	Files     []inclFile
	MainPath  string
	Line      int
	Src       string
	Env       map[string]*V
	CacheMain bool // the main template is parsed with ParseTemplateAndCache
}

func optHex(s string, present bool) string {
	if !present {
		return "~"
	}
	return hexField(s)
}

// inclLine is the case line of a case that involves the cache:
//
//	incl 0/-/<fsx> <pathhex> <line> <srchex> <envenc> <loc|cache>
//	fsx = comma-separated <namehex>:<diskhex|~>:<cachehex|~>      (~ = absent, - = empty)
func (c *inclCase) inclLine() string {
	parts := make([]string, len(c.Files))
	for i, f := range c.Files {
		parts[i] = hexField(f.Name) + ":" + optHex(f.Disk, f.HasDisk) + ":" + optHex(f.Cache, f.HasCache)
	}
	fsx := "-"
	if len(parts) > 0 {
		fsx = strings.Join(parts, ",")
	}
	mode := "loc"
	if c.CacheMain {
		mode = "cache"
	}
	return fmt.Sprintf("incl 0/-/%s %s %d %s %s %s", fsx, hexField(c.MainPath), c.Line, hexField(c.Src), EncEnv(c.Env), mode)
}

func (c *inclCase) diskFS() [][2]string {
	var out [][2]string
	for _, f := range c.Files {
		if f.HasDisk {
			out = append(out, [2]string{f.Name, f.Disk})
		}
	}
	return out
}

func (c *inclCase) renderLine() string {
	return renderCaseLine(engineCfg{FS: c.diskFS()}, c.MainPath, c.Line, c.Src, c.Env)
}

func (c *inclCase) usesCache() bool {
	for _, f := range c.Files {
		if f.HasCache && !f.HasDisk {
			return true
		}
	}
	return false
}

func parseInclLine(f []string) *inclCase {
	switch {
	case len(f) == 6 && f[0] == "render":
		cfg := parseEngineCfg(f[1])
		c := &inclCase{MainPath: unhexField(f[2]), Src: unhexField(f[4]), Env: DecEnv(f[5])}
		fmt.Sscan(f[3], &c.Line)
		if cfg.Strict || cfg.Delims != nil {
			return nil
		}
		for _, e := range cfg.FS {
			c.Files = append(c.Files, inclFile{Name: e[0], Disk: e[1], HasDisk: true})
		}
		return c
	case len(f) == 7 && f[0] == "incl":
		parts := strings.Split(f[1], "/")
		if len(parts) != 3 {
			return nil
		}
		c := &inclCase{MainPath: unhexField(f[2]), Src: unhexField(f[4]), Env: DecEnv(f[5]), CacheMain: f[6] == "cache"}
		fmt.Sscan(f[3], &c.Line)
		if parts[2] != "-" {
			for _, p := range strings.Split(parts[2], ",") {
				e := strings.Split(p, ":")
				if len(e) != 3 {
					return nil
				}
				fl := inclFile{Name: unhexField(e[0])}
				if e[1] != "~" {
					fl.HasDisk, fl.Disk = true, unhexField(e[1])
				}
				if e[2] != "~" {
					fl.HasCache, fl.Cache = true, unhexField(e[2])
				}
				c.Files = append(c.Files, fl)
			}
		}
		return c
	}
	return nil
}

// ---- running -------------------------------------------------------------------------------

var inclDirCounter int

// materialise writes the disk files of the layout into a fresh scratch directory.
func (c *inclCase) materialise() string {
	inclDirCounter++
	d := filepath.Join(workDir(), fmt.Sprintf("incl-%d-%d", os.Getpid(), inclDirCounter))
	if err := os.MkdirAll(d, 0o755); err != nil {
		panic(err)
	}
	for _, f := range c.Files {
		if f.HasDisk {
			p := filepath.Join(d, filepath.FromSlash(f.Name))
			os.MkdirAll(filepath.Dir(p), 0o755)
			if err := os.WriteFile(p, []byte(f.Disk), 0o644); err != nil {
				panic(err)
			}
		}
	}
	return d
}

func stripDir(d, p string) string {
	if d != "" && strings.HasPrefix(p, d) {
		return strings.TrimPrefix(strings.TrimPrefix(p, d), string(filepath.Separator))
	}
	return p
}

func inclCanonErr(d string, se liquid.SourceError, parsePhase bool) string {
	if p := sourceErrorProblem(se); p != "" {
		return "err bad-source-error " + p
	}
	return fmt.Sprintf("err %s %d %s %s", errKind(se, parsePhase), se.LineNumber(), hexField(stripDir(d, se.Path())), coarseCause(causeKind(se.Cause())))
}

// engine builds an engine with the layout's cached sources registered.
func (c *inclCase) engine(d string) *liquid.Engine {
	e := liquid.NewEngine()
	for _, f := range c.Files {
		if f.HasCache {
			e.ParseTemplateAndCache([]byte(f.Cache), filepath.Join(d, filepath.FromSlash(f.Name)), 1) //nolint: errcheck
		}
	}
	return e
}

func (c *inclCase) parseMain(e *liquid.Engine, d, src string) (*liquid.Template, liquid.SourceError) {
	p := filepath.Join(d, filepath.FromSlash(c.MainPath))
	if c.CacheMain {
		return e.ParseTemplateAndCache([]byte(src), p, c.Line)
	}
	return e.ParseTemplateLocation([]byte(src), p, c.Line)
}

// renderOn parses and renders src as the main template on e.
func (c *inclCase) renderOn(e *liquid.Engine, d, src string, env map[string]any) string {
	res, pmsg := protect(func() string {
		tpl, err := c.parseMain(e, d, src)
		if err != nil {
			return inclCanonErr(d, err, true)
		}
		out, err := tpl.Render(env)
		if err != nil {
			if out != nil {
				return "err output-with-error"
			}
			return inclCanonErr(d, err, false)
		}
		return canonOK(out)
	})
	if pmsg != "" {
		lastPanic = pmsg
	}
	return res
}

// lookup is the layout table: the content an include of the (layout-relative, cleaned) name
// must use — the disk file if there is one, else the cached source.
func (c *inclCase) lookup(name string) (string, bool) {
	for _, f := range c.Files {
		if f.Name == name && f.HasDisk {
			return f.Disk, true
		}
	}
	for _, f := range c.Files {
		if f.Name == name && f.HasCache {
			return f.Cache, true
		}
	}
	return "", false
}

// refEngine: an engine whose include tag is the reference implementation over the table.
func (c *inclCase) refEngine(d string) *liquid.Engine {
	e := liquid.NewEngine()
	nesting := 0 // the include tags the reference render is nested in (renders on this engine are sequential)
	e.RegisterTag("include", func(ctx render.Context) (string, error) {
		v, err := ctx.EvaluateString(ctx.TagArgs())
		if err != nil {
			return "", err
		}
		rel, ok := v.(string)
		if !ok {
			return "", fmt.Errorf("reference include: not a string")
		}
		if nesting >= refMaxIncludeDepth { // the documented limit, tested before the file is looked up
			return "", fmt.Errorf("reference include: nested too deep")
		}
		nesting++
		defer func() { nesting-- }()
		filename := filepath.Join(filepath.Dir(ctx.SourceFile()), rel)
		content, ok := c.lookup(filepath.ToSlash(stripDir(d, filename)))
		if !ok || !strings.HasPrefix(filename, d) {
			return "", fmt.Errorf("reference include: no such file")
		}
		tpl, perr := e.ParseTemplateLocation([]byte(content), ctx.SourceFile(), 1)
		if perr != nil {
			return "", perr
		}
		vars := map[string]any{}
		for k, v := range ctx.Bindings() {
			vars[k] = v
		}
		out, rerr := tpl.Render(vars)
		if rerr != nil {
			return "", rerr
		}
		return string(out), nil
	})
	return e
}

// ---- static analysis of a main template ------------------------------------------------------

type staticInclude struct {
	item  int    // index of the include tag in the items
	line  int    // its line number
	name  string // the string value of its argument (isStr)
	isStr bool
	known bool // the argument could be evaluated statically
	vars  map[string]any
}

func parseLiteral(s string) (any, bool) {
	if len(s) >= 2 && (s[0] == '"' && s[len(s)-1] == '"' || s[0] == '\'' && s[len(s)-1] == '\'') && !strings.ContainsAny(s[1:len(s)-1], "\"'") {
		return s[1 : len(s)-1], true
	}
	var n int
	if _, err := fmt.Sscanf(s, "%d", &n); err == nil && fmt.Sprint(n) == s {
		return n, true
	}
	switch s {
	case "true":
		return true, true
	case "false":
		return false, true
	case "nil":
		return nil, true
	}
	return nil, false
}

func isIdent(s string) bool {
	return isWord(s) && !(s[0] >= '0' && s[0] <= '9') && s != "true" && s != "false" && s != "nil"
}

// staticValue evaluates `atom` or `atom | append: atom` over literals and known variables.
func staticValue(expr string, vars map[string]any) (any, bool) {
	atom := func(s string) (any, bool) {
		if v, ok := parseLiteral(s); ok {
			return v, true
		}
		if isIdent(s) {
			return vars[s], true // an undefined variable is nil
		}
		return nil, false
	}
	if i := strings.Index(expr, " | append: "); i >= 0 {
		a, ok1 := atom(strings.TrimSpace(expr[:i]))
		b, ok2 := atom(strings.TrimSpace(expr[i+len(" | append: "):]))
		as, ok3 := a.(string)
		bs, ok4 := b.(string)
		if ok1 && ok2 && ok3 && ok4 {
			return as + bs, true
		}
		return nil, false
	}
	return atom(expr)
}

var blockOpeners = map[string]string{"if": "endif", "unless": "endunless", "for": "endfor", "case": "endcase", "capture": "endcapture", "tablerow": "endtablerow", "raw": "endraw", "comment": "endcomment"}

// staticIncludes finds the includes at the top level of items whose earlier variables are
// known: the scan stops at the first construct that can change variables in a way it does not
// evaluate (a capture, an assign whose value it cannot evaluate, an include inside a block, any
// block that contains an assign, capture or include).
func staticIncludes(items []tItem, line int, env map[string]any) []staticInclude {
	vars := map[string]any{}
	for k, v := range env {
		vars[k] = v
	}
	var out []staticInclude
	depth := 0
	for i, it := range items {
		if it.Kind == 'x' {
			line += strings.Count(it.Text, "\n")
			continue
		}
		here := line
		src, _ := spellSpans(defaultDelims, []tItem{it})
		line += strings.Count(src, "\n")
		if it.Kind != 't' {
			continue
		}
		if _, open := blockOpeners[it.Name]; open {
			if it.Name == "capture" || it.Name == "raw" || it.Name == "comment" || it.Name == "tablerow" {
				return out
			}
			depth++
			continue
		}
		if strings.HasPrefix(it.Name, "end") {
			depth--
			continue
		}
		switch it.Name {
		case "assign":
			if depth > 0 {
				return out
			}
			eq := strings.Index(it.Args, "=")
			if eq < 0 {
				return out
			}
			name := strings.TrimSpace(it.Args[:eq])
			v, ok := staticValue(strings.TrimSpace(it.Args[eq+1:]), vars)
			if !ok || !isIdent(name) {
				return out
			}
			vars[name] = v
		case "include":
			if depth > 0 {
				return out
			}
			si := staticInclude{item: i, line: here, vars: map[string]any{}}
			for k, v := range vars {
				si.vars[k] = v
			}
			v, ok := staticValue(it.Args, vars)
			si.known = ok
			if ok {
				si.name, si.isStr = v.(string)
			}
			out = append(out, si)
			if !ok {
				return out
			}
		}
	}
	return out
}

// ---- the oracles -----------------------------------------------------------------------------

func inclResKind(res string) string {
	f := strings.Fields(res)
	if len(f) >= 2 && f[0] == "err" {
		return f[1]
	}
	return f[0]
}

// check runs the case on the real engine, applies the oracles and returns the real result.
func (c *inclCase) check(r *Run, caseLine string) string {
	d := c.materialise()
	defer func() {
		os.RemoveAll(d)
		if os.Getenv("VERIF_WORK") == "" {
			os.Remove(workDir()) // the private scratch directory, when nothing else is in it
		}
	}()
	real := c.renderOn(c.engine(d), d, c.Src, RealiseEnv(c.Env))
	if real == "panic" {
		// a panic inside a filter or comparison of a fragment is C01's matter; it is a C14
		// violation only when the same template with the reference include does not panic
		msg := lastPanic
		if ref := c.renderOn(c.refEngine(d), d, c.Src, RealiseEnv(c.Env)); ref != "panic" {
			r.Violate("C14", "include-panics", caseLine, msg+" ; reference include: "+resultSummary(ref))
		}
		return real
	}
	if strings.HasPrefix(real, "err bad-source-error") || real == "err output-with-error" {
		r.Violate("C14", "include-error-not-a-source-error", caseLine, real)
	}
	realOut, realOK := okOutput(real)

	// 1. reference include
	ref := c.renderOn(c.refEngine(d), d, c.Src, RealiseEnv(c.Env))
	refOut, refOK := okOutput(ref)
	switch {
	case realOK != refOK:
		r.Violate("C14", "include-vs-reference", caseLine, fmt.Sprintf("%q at %s: real %s ; reference include %s", c.Src, c.MainPath, resultSummary(real), resultSummary(ref)))
	case realOK && realOut != refOut:
		r.Violate("C14", "include-vs-reference", caseLine, fmt.Sprintf("%q at %s: real %s ; reference include %s", c.Src, c.MainPath, resultSummary(real), resultSummary(ref)))
	}

	// 2. static inlining and the error table
	items, ok := unspell(defaultDelims, c.Src)
	if !ok {
		return real
	}
	mainDir := filepath.Dir(filepath.Join(d, filepath.FromSlash(c.MainPath)))
	incs := staticIncludes(items, c.Line, RealiseEnv(c.Env))
	if len(incs) == 0 {
		return real
	}
	r.Count("static-oracle-applied")
	repl := make([]tItem, len(items))
	copy(repl, items)
	env2 := RealiseEnv(c.Env)
	firstBad, badKind, badLine := false, "", 0
	for k, si := range incs {
		if !si.known {
			break
		}
		it := items[si.item]
		vname := fmt.Sprintf("__inc_%d", k)
		repl[si.item] = tItem{Kind: 'o', Args: vname, TrimL: it.TrimL, TrimR: it.TrimR, WsL: it.WsL, WsR: it.WsR}
		if firstBad {
			continue
		}
		if !si.isStr {
			firstBad, badKind, badLine = true, "includeArg", si.line
			continue
		}
		filename := filepath.Join(mainDir, si.name)
		content, found := c.lookup(filepath.ToSlash(stripDir(d, filename)))
		if !found || !strings.HasPrefix(filename, d) {
			if _, err := os.Stat(filename); err == nil {
				return real // resolves to something outside the table (a directory): not judged
			}
			firstBad, badKind, badLine = true, "includeIO", si.line
			continue
		}
		// render the file's content directly, with the variables at that point
		e := c.engine(d)
		inner, _ := protect(func() string {
			tpl, err := e.ParseTemplateLocation([]byte(content), filepath.Join(d, filepath.FromSlash(c.MainPath)), si.line)
			if err != nil {
				return "err"
			}
			out, err := tpl.Render(si.vars)
			if err != nil {
				return "err"
			}
			return canonOK(out)
		})
		out, innerOK := okOutput(inner)
		if !innerOK {
			firstBad, badKind = true, ""
			continue
		}
		env2[vname] = out
	}
	if !incs[len(incs)-1].known {
		// the includes after the last evaluated one stay in place; the prefix up to it is still
		// comparable only through the reference oracle
		return real
	}
	if firstBad {
		switch {
		case realOK:
			r.Violate("C14", "include-error-table", caseLine, fmt.Sprintf("%q at %s renders %s although an include fails (%s)", c.Src, c.MainPath, resultSummary(real), badKind))
		case badKind != "" && refOK == false:
			// kind and line of a missing file / non-string argument, when it is the first failure
			want := c.renderOn(c.engine(d), d, spell(defaultDelims, repl[:incs[0].item]), env2)
			if _, ok := okOutput(want); ok && len(incs) >= 1 && badLine == incs[0].line {
				f := strings.Fields(real)
				if len(f) >= 3 && (f[1] != badKind || f[2] != fmt.Sprint(badLine)) {
					r.Violate("C14", "include-error-table", caseLine, fmt.Sprintf("%q at %s: %s, want err %s at line %d", c.Src, c.MainPath, real, badKind, badLine))
				}
			}
		}
		return real
	}
	want := c.renderOn(c.engine(d), d, spell(defaultDelims, repl), env2)
	wantOut, wantOK := okOutput(want)
	if wantOK != realOK || (wantOK && wantOut != realOut) || (!wantOK && inclResKind(want) != inclResKind(real)) {
		r.Violate("C14", "include-vs-inlined-output", caseLine, fmt.Sprintf("%q at %s: real %s ; with the files' rendered output inlined %s", c.Src, c.MainPath, resultSummary(real), resultSummary(want)))
	}
	return real
}

// ---- generation ------------------------------------------------------------------------------

var inclFileNames = []string{"head.html", "item.liquid", "sub/foot.html", "a/x.html", "a/b/y.html", "a/b/c/z.html", "other/w.html", "up.html", "sub/deep/n.html"}
var inclMainPaths = []string{"main.liquid", "main.liquid", "sub/main.liquid", "a/b/index.html", "a/b/c/t.liquid", "nodir/main.liquid"}

func relTo(dir, name string) string {
	if dir == "." || dir == "" {
		return name
	}
	rel, err := filepath.Rel(dir, name)
	if err != nil {
		return name
	}
	return rel
}

// simpleFragment: text, plain variable objects, truthiness tests, loops over literal ranges,
// assigns and captures - no filters and no comparisons.
func simpleFragment(g *RNG, sc Schema, depth int) string {
	var names []string
	for _, sv := range sc {
		if sv.Kind == kStr || sv.Kind == kInt || sv.Kind == kBool || sv.Kind == kArrS || sv.Kind == kArrN {
			names = append(names, sv.Name)
		}
	}
	names = append(names, "who", "i", "fn", "forloop.index", "undefined_v", "lv")
	var sb strings.Builder
	for n := 1 + g.Intn(3); n > 0; n-- {
		switch k := g.Intn(12); {
		case k < 3:
			sb.WriteString(g.Pick([]string{"text ", "\n", " - ", "<b>", "line\n", "  ", "é", "x"}))
		case k < 7:
			sb.WriteString(g.Pick([]string{"{{ ", "{{- ", "{{"}) + g.Pick(names) + g.Pick([]string{" }}", " -}}", "}}"}))
		case k < 8 && depth < 2:
			sb.WriteString("{% if " + g.Pick(names) + " %}" + simpleFragment(g, sc, depth+1) + g.Pick([]string{"", "{% else %}E"}) + "{% endif %}")
		case k < 9 && depth < 2:
			sb.WriteString("{% for lv in (1.." + fmt.Sprint(1+g.Intn(3)) + ") %}" + simpleFragment(g, sc, depth+1) + "{% endfor %}")
		case k < 10:
			sb.WriteString("{% assign lv = " + g.Pick(names) + " %}")
		case k < 11 && depth < 2:
			sb.WriteString("{% capture lv %}" + simpleFragment(g, sc, depth+1) + "{% endcapture %}[{{ lv }}]")
		default:
			sb.WriteString(g.Pick([]string{"{% assign who = \"inner\" %}", "{{ 12 }}", "{{ \"lit\" }}", "{%- comment %}c{% endcomment -%}", "{% raw %}{{ r }}{% endraw %}"}))
		}
	}
	return sb.String()
}

func genInclCase(g *RNG, r *Run) *inclCase {
	o := DefaultTmplOpts()
	o.MaxNodes, o.MaxDepth = 3, 2
	sc := GenSchema(g, o)
	simple := g.Chance(50)
	if simple {
		r.Count("fragments=simple")
	} else {
		r.Count("fragments=generated")
	}
	GenFragment := func(g *RNG, o TmplOpts, sc Schema) string {
		if simple {
			return simpleFragment(g, sc, 0)
		}
		return GenFragment(g, o, sc)
	}
	c := &inclCase{Env: GenEnv(g, o, sc), MainPath: inclMainPaths[g.Intn(len(inclMainPaths))], Line: 1 + g.Intn(3), CacheMain: g.Chance(35)}
	mainDir := filepath.Dir(c.MainPath)
	// files: file i may include files j > i; depth(i) <= 3 so that main -> ... has depth <= 4
	n := 1 + g.Intn(5)
	perm := g.Intn(len(inclFileNames))
	names := make([]string, n)
	for i := range names {
		names[i] = inclFileNames[(perm+i*2)%len(inclFileNames)]
		for j := 0; j < i; j++ {
			if names[j] == names[i] {
				names[i] = fmt.Sprintf("gen/f%d.html", i)
			}
		}
	}
	depth := make([]int, n)
	contents := make([]string, n)
	noCache := g.Chance(45) // a layout without cache-only files (emitted to the model)
	states := make([]string, n)
	for i := n - 1; i >= 0; i-- {
		var sb strings.Builder
		sb.WriteString(GenFragment(g, o, sc))
		if g.Chance(50) {
			sb.WriteString(g.Pick([]string{"[who={{ who }}]", "[i={{ i }}]", "{{ forloop.index }}", "[{{ who }}]\n", "<{{ fn }}>"}))
		} else if !simple && g.Chance(30) {
			sb.WriteString("[{{ who | upcase }}]")
		}
		depth[i] = 1
		for j := i + 1; j < n; j++ {
			if depth[j] < 3 && g.Chance(35) {
				arg := "\"" + relTo(mainDir, names[j]) + "\""
				sb.WriteString(g.Pick([]string{"{% include " + arg + " %}", "{%- include " + arg + " -%}", "\n{% include " + arg + " %}\n", "{% for q in (1..2) %}{% include " + arg + " %}{% endfor %}"}))
				if depth[j]+1 > depth[i] {
					depth[i] = depth[j] + 1
				}
			}
		}
		if g.Chance(50) {
			sb.WriteString(GenFragment(g, o, sc))
		}
		contents[i] = sb.String()
		if g.Chance(7) {
			contents[i] = g.Pick([]string{"line1\n{{ 1 | nofilter }}", "a\n{{ 1 | }}\n", "{% if %}", "x{% break %}y"})
			states[i] = "broken"
		}
	}
	for i := range names {
		f := inclFile{Name: names[i]}
		st := states[i]
		if st == "" {
			switch k := g.Intn(100); {
			case k < 45:
				st = "disk"
			case k < 67:
				st = "both"
			case k < 93:
				st = "cache"
			default:
				st = "missing"
			}
			if noCache && st == "cache" {
				st = "disk"
			}
		}
		switch st {
		case "disk", "broken":
			f.HasDisk, f.Disk = true, contents[i]
		case "both":
			f.HasDisk, f.Disk = true, contents[i]
			f.HasCache, f.Cache = true, "CACHED("+names[i]+")"+GenFragment(g, o, sc)
		case "cache":
			f.HasCache, f.Cache = true, contents[i]
		}
		r.Count("file=" + st)
		c.Files = append(c.Files, f)
	}
	maxd := 0
	for _, dd := range depth {
		if dd > maxd {
			maxd = dd
		}
	}
	r.Count(fmt.Sprintf("graph-depth=%d", maxd+1))

	// include arguments
	pickFile := func() string { return relTo(mainDir, names[g.Intn(n)]) }
	c.Env["inc_ext"] = VStr(".html")
	c.Env["inc_num"] = VInt(0, 7)
	c.Env["inc_arr"] = VAnys(VStr("head.html"))
	incArg := func() (string, string) {
		name := pickFile()
		switch k := g.Intn(100); {
		case k < 30:
			return "\"" + name + "\"", "literal"
		case k < 36:
			return "'" + name + "'", "literal"
		case k < 52:
			c.Env["inc_a"] = VStr(name)
			return "inc_a", "variable"
		case k < 62:
			return "fn", "assigned-variable:" + name
		case k < 76:
			if strings.HasSuffix(name, ".html") {
				base := strings.TrimSuffix(name, ".html")
				c.Env["inc_base"] = VStr(base)
				// filtered arguments, including ones that begin and end with a string literal of the same quote
				return g.Pick([]string{"inc_base | append: \".html\"", "inc_base | append: inc_ext",
					"\"" + base + "\" | append: \".html\"", "'" + base + "' | append: '.html'", "\".html\" | prepend: \"" + base + "\"",
					"\"" + base + "\" | append: inc_ext", "\"" + base + "\" | append: '.html'", "\"" + name + "\" | strip | append: \"\""}), "filtered"
			}
			return "\"" + name + "\"", "literal"
		case k < 80:
			return "\"./" + name + "\"", "dot-slash"
		case k < 83:
			return "\"nosuch/" + name + "\"", "missing-name"
		case k < 92:
			return "\"" + name + "\"", "literal"
		default:
			return g.Pick([]string{"12", "nil", "inc_num", "inc_arr", "true", "undefined_inc", "3.5"}), "non-string"
		}
	}

	if g.Chance(55) {
		// family S: a main template of simple pieces whose variables are known by construction
		r.Count("main=static")
		var items []tItem
		hy := func() bool { return g.Chance(15) }
		ws := func() string { return g.Pick([]string{" ", " ", "", "\n", "  "}) }
		text := func() {
			items = append(items, tItem{Kind: 'x', Text: g.Pick([]string{"A ", "\n", " - ", "x\n", "<p>", "  ", "text ", "\n\n", "é "})})
		}
		strVars := []string{}
		for _, sv := range sc {
			if sv.Kind == kStr || sv.Kind == kInt {
				strVars = append(strVars, sv.Name)
			}
		}
		nInc := 1 + g.Intn(3)
		for k := 0; k < nInc; k++ {
			for m := g.Intn(4); m > 0; m-- {
				switch g.Intn(4) {
				case 0:
					text()
				case 1:
					items = append(items, tItem{Kind: 'o', Args: g.Pick(append(strVars, "who", "fn")), TrimL: hy(), TrimR: hy(), WsL: ws(), WsR: ws()})
				case 2:
					items = append(items, tItem{Kind: 't', Name: "assign", Args: "who = " + g.Pick([]string{"\"main\"", "\"W\"", "42", "'it'"}), WsL: " ", WsM: " ", WsR: ws(), TrimL: hy(), TrimR: hy()})
				default:
					items = append(items, tItem{Kind: 't', Name: "assign", Args: g.Pick(strVars) + " = " + g.Pick([]string{"\"ASSIGNED\"", "7", "\"\""}), WsL: " ", WsM: " ", WsR: " "})
				}
			}
			arg, kind := incArg()
			if strings.HasPrefix(kind, "assigned-variable:") {
				items = append(items, tItem{Kind: 't', Name: "assign", Args: "fn = \"" + strings.TrimPrefix(kind, "assigned-variable:") + "\"", WsL: " ", WsM: " ", WsR: " "})
				kind = "assigned-variable"
			}
			r.Count("arg=" + kind)
			items = append(items, tItem{Kind: 't', Name: "include", Args: arg, TrimL: hy(), TrimR: hy(), WsL: ws(), WsM: g.Pick([]string{" ", "  ", "\n"}), WsR: ws()})
			if g.Chance(60) {
				text()
			}
		}
		c.Src = spell(defaultDelims, items)
		return c
	}
	// family G: generated fragments with includes anywhere
	r.Count("main=general")
	var sb strings.Builder
	nInc := 1 + g.Intn(3)
	for k := 0; k < nInc; k++ {
		sb.WriteString(GenFragment(g, o, sc))
		arg, kind := incArg()
		if strings.HasPrefix(kind, "assigned-variable:") {
			sb.WriteString("{% assign fn = \"" + strings.TrimPrefix(kind, "assigned-variable:") + "\" %}")
			kind = "assigned-variable"
		}
		r.Count("arg=" + kind)
		inc := g.Pick([]string{"{% include " + arg + " %}", "{%- include " + arg + " %}", "{% include " + arg + " -%}", "{%include " + arg + "%}"})
		wrap := g.Intn(7)
		r.Count(fmt.Sprintf("wrap=%d", wrap))
		switch wrap {
		case 0:
			sb.WriteString("{% for i in (1..2) %}[{{ i }}]" + inc + "{% endfor %}")
		case 1:
			sb.WriteString("{% if true %}" + inc + "{% endif %}")
		case 2:
			sb.WriteString("{% capture cap %}" + inc + "{% endcapture %}<{{ cap }}>")
		case 3:
			sb.WriteString("{% assign who = \"dyn\" | append: \"amic\" %}" + inc)
		case 4:
			sb.WriteString("{% for i in (1..3) %}{% assign who = i %}" + inc + "{% if i == 2 %}{% break %}{% endif %}{% endfor %}")
		default:
			sb.WriteString(inc)
		}
	}
	sb.WriteString(GenFragment(g, o, sc))
	c.Src = sb.String()
	return c
}

func inclStream(r *Run) {
	for _, cl := range corpusLines("incl") {
		if f := strings.Fields(cl); r.Mine() {
			if len(f) > 2 && f[0] == "incld" {
				if c := parseInclLine(f[2:]); c != nil {
					r.Emit(cl, c.checkDepth(r, cl, f[1]))
				}
				continue
			}
			if c := parseInclLine(f); c != nil {
				res := c.check(r, cl)
				if f[0] == "render" {
					r.Emit(cl, res)
				}
			}
		}
	}
	if r.Shard == 0 {
		inclSharedAcrossDirs(r)
	}
	inclDepthFamily(r)
	n := 10000
	if r.Tier == "thorough" {
		n = 100000
	}
	for i := 0; i < n; i++ {
		if !r.Mine() {
			continue
		}
		c := genInclCase(NewRNG(r.Seed, fmt.Sprintf("incl-case-%d", i)), r)
		if c.usesCache() {
			cl := c.inclLine()
			res := c.check(r, cl)
			r.Count("emitted(cache)")
			r.Count("res=" + inclResKind(res))
			r.Nontrivial(cl)
			r.Emit(cl, res)
			continue
		}
		cl := c.renderLine()
		res := c.check(r, cl)
		r.Count("emitted")
		r.Count("res=" + inclResKind(res))
		if strings.HasPrefix(res, "ok ") {
			r.Nontrivial(cl)
		}
		r.Emit(cl, res)
	}
}

// inclSharedAcrossDirs: ONE engine renders, in sequence, main templates parsed with paths in different
// directories that include the same shared file, whose own relative include resolves against the directory
// of the main template's path ("resolved relative to the directory of the path the template being rendered
// was parsed with"). Every render must equal the same render on a fresh engine, in every order, on disk and
// through ParseTemplateAndCache. Implementation only (a history of renders on one engine has no case line here).
func inclSharedAcrossDirs(r *Run) {
	d := filepath.Join(workDir(), fmt.Sprintf("incl-shared-%d", os.Getpid()))
	defer os.RemoveAll(d)
	files := map[string]string{
		"card.html":        "[{% include \"label.html\" %}:{{ who }}]",
		"posts/label.html": "POSTS",
		"pages/label.html": "PAGES{% assign who = \"p\" %}",
		"posts/index.html": "{% assign who = \"me\" %}{% include \"../card.html\" %}",
		"pages/index.html": "{% assign who = \"you\" %}{% include \"../card.html\" %}{% include \"../card.html\" %}",
		"drafts/index.html": "{% include \"../card.html\" %}",
	}
	for _, onDisk := range []bool{true, false} {
		os.RemoveAll(d)
		newEngine := func() *liquid.Engine {
			e := liquid.NewEngine()
			for name, src := range files {
				path := filepath.Join(d, name)
				if onDisk {
					os.MkdirAll(filepath.Dir(path), 0o755)
					os.WriteFile(path, []byte(src), 0o644)
				} else if !strings.HasSuffix(name, "index.html") {
					e.ParseTemplateAndCache([]byte(src), path, 1)
				}
			}
			return e
		}
		render := func(e *liquid.Engine, main string) string {
			return guard(func() string {
				t, err := e.ParseTemplateLocation([]byte(files[main]), filepath.Join(d, main), 1)
				if err != nil {
					return "err parse " + err.Error()
				}
				out, err2 := t.RenderString(map[string]any{})
				if err2 != nil {
					return "err render"
				}
				return "ok " + out
			})
		}
		orders := [][]string{
			{"posts/index.html", "pages/index.html", "posts/index.html", "drafts/index.html", "pages/index.html"},
			{"pages/index.html", "posts/index.html", "drafts/index.html", "posts/index.html"},
			{"drafts/index.html", "pages/index.html", "posts/index.html"},
		}
		want := map[string]string{"posts/index.html": "ok [POSTS:me]", "pages/index.html": "ok [PAGES:you][PAGES:you]", "drafts/index.html": "err render"}
		for oi, order := range orders {
			shared := newEngine()
			for step, main := range order {
				got := render(shared, main)
				alone := render(newEngine(), main)
				r.Count("shared-include-across-dirs")
				if got != alone || got != want[main] {
					r.Violate("C14", "include-vs-reference", fmt.Sprintf("incl-shared-across-dirs disk=%v order=%d step=%d %s", onDisk, oi, step, hexField(main)),
						fmt.Sprintf("%s rendered on an engine that rendered %v before gives %q; on a fresh engine %q; expected %q", main, order[:step], got, alone, want[main]))
				}
			}
		}
	}
}
