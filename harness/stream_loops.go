package main

// Stream `loops` (C11): for and tablerow visit exactly the selected items with consistent
// forloop state. Every case is a `render` case line; the oracle is the reference loop of
// ref_prog.go (items of the collection, reverse, skip, take, else iff nothing selected, forloop
// field formulas, break/continue of the innermost loop, cycle counters per loop execution and
// group, tablerow decoration).
//
// Specs:
//   g/<len>/<off>/<lim>/<rev>/<tag>/<ctl>   the grid: array of <len> ints; off, lim = a (absent) or -1..8
//        (literals); rev = 0|1; tag = for | tr (tablerow without cols) | tr0..tr4; ctl = n |
//        b<j> c<j> (break/continue when forloop.index == j) | i<j> (break below if + case) |
//        bf cf cl (break/continue on forloop.first / forloop.last)
//   v/<len>/<off>/<lim>/<rev>/<tag>         offset and limit given as variables (Go ints)
//   r/<a>/<b>/<l|v>/<mod>/<tag>             range (a..b), literal or variable endpoints
//   c/<kind>/<mod>/<tag>                    collection kinds
//   t/<which>/<kind>/<tag>                  offset, limit or cols given as a value that is not a Go int (int64, float,
//                                           string, nil, bool, uint8): compared with the model only, the property makes no claim
//   n/<seed>/<i>                            random nesting (depth <= 3) with conditionals, cycles, assigns

import (
	"fmt"
	"strings"
)

var loopsStream = ctlStream{Name: "loops", Prop: "C11"}

func init() {
	loopsStream.Build = buildLoops
	loopsStream.register(runLoopsStream)
}

// fieldsBody prints `item|index|index0|rindex|rindex0|length|first|last;` with mid in the middle.
func fieldsBody(item []pnode, mid []pnode) []pnode {
	out := append([]pnode{}, item...)
	out = append(out, mid...)
	for _, f := range []string{"index", "index0", "rindex", "rindex0", "length", "first", "last"} {
		out = append(out, pText{"|"}, pPrint{pf("forloop", f)})
	}
	return append(out, pText{";"})
}

func modExpr(s string, varName string) pexpr {
	if s == "a" {
		return nil
	}
	if varName != "" {
		return pv(varName)
	}
	return litInt(int64(atoi(s)))
}

// setMods fills the modifiers of a loop from spec fields.
func setMods(n *pFor, off, lim pexpr, rev bool, tag string) {
	if rev {
		n.Reversed = true
		n.Order = append(n.Order, "reversed")
	}
	if lim != nil { // limit is written before offset: the order of application does not follow the text
		n.Limit = lim
		n.Order = append(n.Order, "limit")
	}
	if off != nil {
		n.Offset = off
		n.Order = append(n.Order, "offset")
	}
	if strings.HasPrefix(tag, "tr") {
		n.Tablerow = true
		if len(tag) > 2 {
			n.Cols = litInt(int64(atoi(tag[2:])))
			n.Order = append(n.Order, "cols")
		}
	} else {
		n.HasElse = true
		n.Else = []pnode{pText{"EMPTY"}}
	}
}

func ctlNodes(ctl string) []pnode {
	stopAt := func(j int, stop pnode) []pnode {
		return []pnode{pIf{Br: []pBranch{{condCmp(pf("forloop", "index"), "==", litInt(int64(j))), []pnode{pText{"!"}, stop}}}}}
	}
	switch {
	case ctl == "n":
		return nil
	case ctl == "bf":
		return []pnode{pIf{Br: []pBranch{{condTruth(pf("forloop", "first")), []pnode{pText{"!"}, pBreak{}}}}}}
	case ctl == "cf":
		return []pnode{pIf{Br: []pBranch{{condTruth(pf("forloop", "first")), []pnode{pText{"!"}, pContinue{}}}}}}
	case ctl == "cl":
		return []pnode{pIf{Br: []pBranch{{condTruth(pf("forloop", "last")), []pnode{pText{"!"}, pContinue{}}}}}}
	case ctl[0] == 'b':
		return stopAt(atoi(ctl[1:]), pBreak{})
	case ctl[0] == 'c':
		return stopAt(atoi(ctl[1:]), pContinue{})
	case ctl[0] == 'i':
		j := atoi(ctl[1:])
		return []pnode{pIf{Br: []pBranch{{condTruth(litBool(true)), []pnode{
			pCase{pf("forloop", "index"), []pWhen{{[]pexpr{litInt(int64(j))}, []pnode{pText{"!"}, pBreak{}}}}}}}}}}
	}
	panic("bad ctl " + ctl)
}

func loopsClause(tablerow bool) string {
	if tablerow {
		return "tablerow-items-and-shape"
	}
	return "loop-items-and-forloop-state"
}

type collKind struct {
	name  string
	v     *V
	pairs bool
}

func collKinds() []collKind {
	i := func(n int64) *V { return VInt(0, n) }
	return []collKind{
		{"anys", VAnys(i(5), VStr("s"), i(7), VBool(true)), false},
		{"ints", VSlice(TInt(0), i(3), i(1), i(2)), false},
		{"arr3str", VArr(TStr, VStr("x"), VStr("y"), VStr("z")), false},
		{"strs", VSlice(TStr, VStr("b"), VStr("a")), false},
		{"empty", VAnys(), false},
		{"range", VRange(2, 5), false},
		{"rrange", VRange(5, 2), false},
		{"map", VStrMap(SKV("b", i(2)), SKV("a", i(1)), SKV("c", VStr("three")), SKV("B", i(0))), true},
		{"mapsi", VMap(TStr, TInt(0), SKV("k2", i(2)), SKV("k10", i(10)), SKV("k1", i(1))), true},
		{"mapint", VMap(TInt(0), TAny, KV(i(10), VStr("ten")), KV(i(2), VStr("two")), KV(i(-1), VStr("neg"))), true},
		{"map1", VStrMap(SKV("only", i(1))), true},
		{"map0", VStrMap(), true},
		{"mapslice", VMapSlice(SKV("z", i(1)), SKV("a", VStr("x")), SKV("m", i(3))), true},
		{"mapslice0", VMapSlice(), true},
		{"keyed", VKeyed(Field{"k0", i(0)}, Field{"k1", i(1)}, Field{"k10", i(10)}, Field{"k2", i(2)}), false}, // fields sorted (codec convention)
		{"nil", VNil(), false},
		{"int", i(5), false},
		{"string", VStr("abc"), false},
		{"bool", VBool(true), false},
		{"float", VFlt(1, 2.5), false},
		{"drop-array", VDrop(VAnys(i(1), i(2), i(3))), false},
		{"drop-nil", VDrop(VNil()), false},
		{"nilptr", VNilPtr(), false},
		{"nested", VAnys(VAnys(i(1), i(2)), VAnys(), VAnys(VStr("q"))), false},
	}
}

var loopMods = []struct {
	name     string
	off, lim string
	rev      bool
}{{"none", "a", "a", false}, {"rev", "a", "a", true}, {"off1", "1", "a", false}, {"lim2", "a", "2", false}, {"off1lim1rev", "1", "1", true}, {"lim0", "a", "0", false}, {"off9", "9", "a", false}, {"neg", "-1", "-1", false}}

func findMod(name string) (off, lim string, rev bool) {
	for _, m := range loopMods {
		if m.name == name {
			return m.off, m.lim, m.rev
		}
	}
	panic("bad mod " + name)
}

func buildLoops(spec string) *ctlCase {
	f := specFields(spec)
	finish := func(prog []pnode, env map[string]*V, kind string, tablerow bool) *ctlCase {
		exp, in := refResult(prog, env, nil)
		c := &ctlCase{Src: progSrc(prog), Env: env, Expect: exp, Clause: loopsClause(tablerow), Kind: kind}
		for k := range in.events {
			c.Notes = append(c.Notes, "event="+k)
		}
		return c
	}
	switch {
	case (f[0] == "g" && len(f) == 7) || (f[0] == "v" && len(f) == 6):
		n, off, lim, rev, tag := atoi(f[1]), f[2], f[3], f[4] == "1", f[5]
		ctl := "n"
		if f[0] == "g" {
			ctl = f[6]
		}
		xs := make([]*V, n)
		for i := range xs {
			xs[i] = VInt(0, int64(11*(i+1)))
		}
		env := map[string]*V{"a": VAnys(xs...)}
		lp := pFor{Var: "it", Coll: pv("a")}
		if f[0] == "v" {
			ov, lv := "", ""
			if off != "a" {
				ov = "o"
				env["o"] = VInt(0, int64(atoi(off)))
			}
			if lim != "a" {
				lv = "n"
				env["n"] = VInt(0, int64(atoi(lim)))
			}
			setMods(&lp, modExpr(off, ov), modExpr(lim, lv), rev, tag)
		} else {
			setMods(&lp, modExpr(off, ""), modExpr(lim, ""), rev, tag)
		}
		lp.Body = fieldsBody([]pnode{pPrint{pv("it")}}, ctlNodes(ctl))
		prog := []pnode{pText{"["}, lp, pText{"]"}, pPrint{pv("it")}, pPrint{pf("forloop", "index")}}
		kind := "grid"
		if f[0] == "v" {
			kind = "grid-variable-modifiers"
		}
		return finish(prog, env, kind, lp.Tablerow)
	case f[0] == "r" && len(f) == 6:
		a, b, tag := atoi(f[1]), atoi(f[2]), f[5]
		env := map[string]*V{}
		var coll pexpr = eRange{litInt(int64(a)), litInt(int64(b))}
		if f[3] == "v" {
			env["lo"], env["hi"] = VInt(0, int64(a)), VInt(0, int64(b))
			coll = eRange{pv("lo"), pv("hi")}
		}
		off, lim, rev := findMod(f[4])
		lp := pFor{Var: "it", Coll: coll}
		setMods(&lp, modExpr(off, ""), modExpr(lim, ""), rev, tag)
		lp.Body = fieldsBody([]pnode{pPrint{pv("it")}}, nil)
		return finish([]pnode{pText{"["}, lp, pText{"]"}}, env, "range", lp.Tablerow)
	case f[0] == "c" && len(f) == 4:
		var ck *collKind
		for _, k := range collKinds() {
			if k.name == f[1] {
				k := k
				ck = &k
			}
		}
		if ck == nil {
			return nil
		}
		off, lim, rev := findMod(f[2])
		tag := f[3]
		env := map[string]*V{"coll": ck.v}
		lp := pFor{Var: "it", Coll: pv("coll")}
		noElse := tag == "forx"
		if noElse {
			tag = "for"
		}
		setMods(&lp, modExpr(off, ""), modExpr(lim, ""), rev, tag)
		if noElse {
			lp.HasElse, lp.Else = false, nil
		}
		item := []pnode{pPrint{pv("it")}}
		if ck.pairs {
			item = []pnode{pPrint{pidx("it", 0)}, pText{"="}, pPrint{pidx("it", 1)}}
		}
		lp.Body = fieldsBody(item, nil)
		return finish([]pnode{pText{"["}, lp, pText{"]"}}, env, "collection-"+ck.name, lp.Tablerow)
	case f[0] == "t" && len(f) == 4:
		vals := map[string]*V{"int64": VInt(4, 2), "float": VFlt(1, 2), "half": VFlt(1, 1.5), "string": VStr("2"), "nil": VNil(), "bool": VBool(true), "uint8": VInt(6, 2), "int": VInt(0, 2)}
		v, ok := vals[f[2]]
		if !ok {
			return nil
		}
		env := map[string]*V{"a": VAnys(VInt(0, 11), VInt(0, 22), VInt(0, 33), VInt(0, 44)), "m": v}
		lp := pFor{Var: "it", Coll: pv("a")}
		var off, lim pexpr
		switch f[1] {
		case "offset":
			off = pv("m")
		case "limit":
			lim = pv("m")
		}
		setMods(&lp, off, lim, false, f[3])
		if f[1] == "cols" {
			lp.Cols = pv("m")
			lp.Order = append(lp.Order, "cols")
		}
		lp.Body = fieldsBody([]pnode{pPrint{pv("it")}}, nil)
		c := finish([]pnode{pText{"["}, lp, pText{"]"}}, env, "modifier-kinds", lp.Tablerow)
		if f[2] != "int" {
			c.Expect = "" // whether a limit of int64(2) is accepted is not a matter of C11
		}
		return c
	case f[0] == "n" && len(f) == 3:
		g := NewRNG(atou(f[1]), "loops/nest/"+f[2])
		p := genProgram(g, pgLoops)
		var prog []pnode
		prog = append(prog, p.forTag(g.Chance(20)))
		prog = append(prog, pText{"<"}, pPrint{pv("v1")}, pPrint{pf("forloop", "index")}, pText{">"})
		prog = append(prog, p.seq(3)...)
		c := finish(prog, p.env, "nesting", false)
		c.Clause = "loop-nesting"
		for n := range p.notes {
			c.Notes = append(c.Notes, n)
		}
		return c
	}
	return nil
}

func runLoopsStream(r *Run) {
	s := loopsStream
	do := func(spec string) {
		if r.Mine() {
			s.exec(r, spec)
		}
	}
	if r.Shard == 0 {
		loopsPushFamily(r)
		loopsMutatedMapFamily(r)
	}
	maxLen := 5
	if r.Tier == "thorough" {
		maxLen = 7
	}
	mods := []string{"a", "-1", "0", "1", "2", "3", "4", "5", "6", "7", "8"}
	tags := []string{"for", "tr", "tr0", "tr1", "tr2", "tr3", "tr4"}
	// (1) the grid
	for n := 0; n <= maxLen; n++ {
		ctls := []string{"n", "bf", "cf", "cl"}
		for j := 1; j <= n; j++ {
			ctls = append(ctls, fmt.Sprint("b", j), fmt.Sprint("c", j), fmt.Sprint("i", j))
		}
		for _, off := range mods {
			for _, lim := range mods {
				for rev := 0; rev <= 1; rev++ {
					for _, tag := range tags {
						for _, ctl := range ctls {
							do(fmt.Sprintf("g/%d/%s/%s/%d/%s/%s", n, off, lim, rev, tag, ctl))
						}
					}
				}
			}
		}
	}
	// (1b) offset and limit at the integer boundary ("no limit" sentinels such as MaxInt), alone and together, as literals
	// and as variables: skipping o and then taking n items must not add o and n
	hugeMods := []string{"a", "0", "1", "2", "9223372036854775807", "9223372036854775806", "4611686018427387904", "2147483648"}
	for _, n := range []int{0, 1, 3, 5} {
		for _, off := range hugeMods {
			for _, lim := range hugeMods {
				if len(off) < 3 && len(lim) < 3 {
					continue // the grid has these
				}
				for rev := 0; rev <= 1; rev++ {
					for _, tag := range []string{"for", "tr2"} {
						do(fmt.Sprintf("g/%d/%s/%s/%d/%s/n", n, off, lim, rev, tag))
						do(fmt.Sprintf("v/%d/%s/%s/%d/%s", n, off, lim, rev, tag))
					}
				}
			}
		}
	}
	// (2) offset and limit as variables
	for n := 0; n <= 4; n++ {
		for _, off := range mods {
			for _, lim := range mods {
				for rev := 0; rev <= 1; rev++ {
					for _, tag := range []string{"for", "tr2"} {
						do(fmt.Sprintf("v/%d/%s/%s/%d/%s", n, off, lim, rev, tag))
					}
				}
			}
		}
	}
	// (3) ranges: all endpoint pairs in -3..6
	for a := -3; a <= 6; a++ {
		for b := -3; b <= 6; b++ {
			for _, lv := range []string{"l", "v"} {
				for _, m := range []string{"none", "rev", "off1", "lim2", "off1lim1rev"} {
					for _, tag := range []string{"for", "tr2"} {
						do(fmt.Sprintf("r/%d/%d/%s/%s/%s", a, b, lv, m, tag))
					}
				}
			}
		}
	}
	// (4) collection kinds
	for _, k := range collKinds() {
		for _, m := range loopMods {
			for _, tag := range []string{"for", "forx", "tr2", "tr"} {
				do(fmt.Sprintf("c/%s/%s/%s", k.name, m.name, tag))
			}
		}
	}
	// (4b) modifiers that are not Go ints (no claim; model comparison only)
	for _, which := range []string{"offset", "limit", "cols"} {
		for _, kind := range []string{"int", "int64", "float", "half", "string", "nil", "bool", "uint8"} {
			tag := "for"
			if which == "cols" {
				tag = "tr"
			}
			do(fmt.Sprintf("t/%s/%s/%s", which, kind, tag))
		}
	}
	// (5) random nestings
	nn := 20000
	if r.Tier == "thorough" {
		nn = 200000
	}
	for i := 0; i < nn; i++ {
		do(fmt.Sprintf("n/%d/%d", r.Seed, i))
	}
}
