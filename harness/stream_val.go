package main

func init() {
	streams["val"] = valStream
	replayers["val"] = func(r *Run, f []string) string { return valCase(f[1]) }
}

// valCase: decode, realise as a real Go value, reify, encode. The model decodes and re-encodes.
func valCase(enc string) string {
	return guard(func() string {
		v := ParseV(enc)
		x := v.Realise()
		return Reify(x).Enc()
	})
}

func valStream(r *Run) {
	g := NewRNG(r.Seed, "val")
	emit := func(v *V) {
		if !r.Mine() {
			return
		}
		e := v.Enc()
		r.Count("kind=" + string(v.Kind))
		r.Nontrivial(e)
		r.Emit("val "+e, valCase(e))
	}
	for _, v := range fullUniverse() {
		emit(v)
	}
	n := 3000
	if r.Tier == "thorough" {
		n = 30000
	}
	for i := 0; i < n; i++ {
		emit(randomVal(g, 3))
	}
}
