package main

import (
	"encoding/hex"
	"fmt"
	"hash/fnv"
)

// splitmix64 PRNG: every random choice of a run derives from VERIF_SEED.
type RNG struct{ s uint64 }

func NewRNG(seed uint64, salt string) *RNG {
	// mix the seed thoroughly so that consecutive seeds give unrelated sequences
	z := seed + 0x632BE59BD9B4E019
	z = (z ^ (z >> 30)) * 0xBF58476D1CE4E5B9
	z = (z ^ (z >> 27)) * 0x94D049BB133111EB
	z ^= z >> 31
	return &RNG{z ^ hashString(salt)}
}

func (r *RNG) U64() uint64 {
	r.s += 0x9E3779B97F4A7C15
	z := r.s
	z = (z ^ (z >> 30)) * 0xBF58476D1CE4E5B9
	z = (z ^ (z >> 27)) * 0x94D049BB133111EB
	return z ^ (z >> 31)
}
func (r *RNG) Intn(n int) int {
	if n <= 0 {
		return 0
	}
	return int(r.U64() % uint64(n))
}
func (r *RNG) Bool() bool         { return r.U64()&1 == 1 }
func (r *RNG) Chance(p int) bool  { return r.Intn(100) < p } // p percent
func (r *RNG) Pick(xs []string) string { return xs[r.Intn(len(xs))] }

func hashString(s string) uint64 {
	h := fnv.New64a()
	h.Write([]byte(s))
	return h.Sum64()
}

// hexField encodes a byte string as one non-empty protocol field.
func hexField(s string) string {
	if s == "" {
		return "-"
	}
	return hex.EncodeToString([]byte(s))
}

func unhexField(f string) string {
	if f == "-" {
		return ""
	}
	b, err := hex.DecodeString(f)
	if err != nil {
		panic(fmt.Sprintf("bad hex field %q", f))
	}
	return string(b)
}

// guard runs f and converts a panic into the result "panic".
func guard(f func() string) (res string) {
	defer func() {
		if r := recover(); r != nil {
			res = "panic"
			lastPanic = fmt.Sprint(r)
		}
	}()
	return f()
}

var lastPanic string
