package main

import (
	"fmt"

	"github.com/osteele/liquid"
)

// errlocPathFamily (implementation only): "Path is the path the template was parsed with" — exactly the string the
// caller gave, through every parsing entry point that takes one (ParseTemplateLocation, ParseTemplateAndCache), for
// paths that are not in clean form, for parse errors and render errors alike.
func errlocPathFamily(r *Run) {
	paths := []string{"main.html", "./main.html", "a//b.html", "a/../b.html", "dir/", "./x/./y.liquid", "", "../up.html", "/abs/t.html", "a/b/../../c.html"}
	type parseFn func(e *liquid.Engine, src, path string, line int) (*liquid.Template, liquid.SourceError)
	entries := map[string]parseFn{
		"ParseTemplateLocation": func(e *liquid.Engine, src, path string, line int) (*liquid.Template, liquid.SourceError) {
			return e.ParseTemplateLocation([]byte(src), path, line)
		},
		"ParseTemplateAndCache": func(e *liquid.Engine, src, path string, line int) (*liquid.Template, liquid.SourceError) {
			return e.ParseTemplateAndCache([]byte(src), path, line)
		},
	}
	for _, name := range []string{"ParseTemplateLocation", "ParseTemplateAndCache"} {
		for _, path := range paths {
			for _, c := range []struct {
				src  string
				line int
			}{{"a\n{% if %}", 2}, {"a\n\n{{ 1 | nofilter }}", 3}, {"{% for i in (1..2) %}\n{{ i | divided_by: 0 }}{% endfor %}", 2}, {"x{% endif %}", 1}} {
				res := guard(func() string {
					e := liquid.NewEngine()
					tpl, err := entries[name](e, c.src, path, 1)
					if err == nil {
						_, err = tpl.Render(liquid.Bindings{})
					}
					if err == nil {
						return "no error"
					}
					return fmt.Sprintf("path=%q line=%d", err.Path(), err.LineNumber())
				})
				want := fmt.Sprintf("path=%q line=%d", path, c.line)
				r.Count("path-family")
				if res != want {
					r.Violate("C07", "path-is-the-path-parsed-with", "errloc-path "+name+" "+hexField(path)+" "+hexField(c.src),
						fmt.Sprintf("%s(%q, path %q, line 1): error reports %s, want %s", name, c.src, path, res, want))
				}
			}
		}
	}
}
