package main

import (
	"fmt"
	"strings"
	"unicode"
	"unicode/utf8"
)

func stripSpace(b []byte) string {
	return strings.Map(func(r rune) rune {
		if unicode.IsSpace(r) {
			return -1
		}
		return r
	}, string(b))
}

// isWsDeletion: `got` is obtained from `want` by deleting whitespace runes only.
func isWsDeletion(want, got string) bool {
	i, j := 0, 0
	for i < len(want) {
		r, w := utf8.DecodeRuneInString(want[i:])
		if j < len(got) {
			r2, w2 := utf8.DecodeRuneInString(got[j:])
			if r == r2 && w == w2 && want[i:i+w] == got[j:j+w2] {
				// greedy match is complete here because deleted runes are all whitespace:
				// if r is whitespace and also matches, either choice leads to the same answer
				// only when later text agrees; fall back to backtracking for whitespace.
				if !unicode.IsSpace(r) {
					i += w
					j += w2
					continue
				}
				if isWsDeletion(want[i+w:], got[j+w2:]) {
					return true
				}
			}
		}
		if !unicode.IsSpace(r) {
			return false
		}
		i += w
	}
	return j == len(got)
}

// twOracle: C13 on operation lists — trimming removes whitespace only (for valid UTF-8 writes).
func twOracle(r *Run, caseLine string, plain, out []byte) {
	if !utf8.Valid(plain) {
		return // DESIGN C13 scope note 3: the law is about characters
	}
	if stripSpace(plain) != stripSpace(out) {
		r.Violate("C13", "trim-removes-only-whitespace", caseLine, fmt.Sprintf("plain=%q out=%q", plain, out))
		return
	}
	if len(out) > len(plain) || !isWsDeletion(string(plain), string(out)) {
		r.Violate("C13", "trim-output-is-whitespace-deletion", caseLine, fmt.Sprintf("plain=%q out=%q", plain, out))
	}
}
