package main

import (
	"bytes"
	"fmt"
	"strings"
	"unicode"
	"unicode/utf8"
)

func stripSpace(b []byte) string {
	return strings.Map(func(r rune) rune {
		if unicode.IsSpace(r) {
			return -1
		}
		return r
	}, string(b))
}

// isWsDeletion: `got` is obtained from `want` by deleting whitespace runes only.
func isWsDeletion(want, got string) bool {
	i, j := 0, 0
	for i < len(want) {
		r, w := utf8.DecodeRuneInString(want[i:])
		if j < len(got) {
			r2, w2 := utf8.DecodeRuneInString(got[j:])
			if r == r2 && w == w2 && want[i:i+w] == got[j:j+w2] {
				// greedy match is complete here because deleted runes are all whitespace:
				// if r is whitespace and also matches, either choice leads to the same answer
				// only when later text agrees; fall back to backtracking for whitespace.
				if !unicode.IsSpace(r) {
					i += w
					j += w2
					continue
				}
				if isWsDeletion(want[i+w:], got[j+w2:]) {
					return true
				}
			}
		}
		if !unicode.IsSpace(r) {
			return false
		}
		i += w
	}
	return j == len(got)
}

// twOracle: C13 on operation lists.
//   - no-trim-identity (all byte strings): without TrimLeft/TrimRight the output is the
//     concatenation of the writes (tw_no_trim_identity);
//   - when every write is valid UTF-8 (ValidOps; DESIGN C13 scope note 3: the law is about
//     characters, and is false on raw bytes, tw_erasure_fails_on_invalid_utf8): trimming removes
//     whitespace only (tw_trim_only_ws) and the output is a whitespace-deletion of the untrimmed
//     output (tw_trim_subseq), still valid UTF-8 and never longer (tw_trim_valid_sublist).
func twOracle(r *Run, caseLine string, plain, out []byte, valid bool, trims int) {
	if trims == 0 && !bytes.Equal(plain, out) {
		r.Violate("C13", "no-trim-identity", caseLine, fmt.Sprintf("plain=%q out=%q", plain, out))
		return
	}
	if !valid {
		r.Count("oracle=identity-only(invalid-utf8-write)")
		return
	}
	r.Count("oracle=erasure")
	if stripSpace(plain) != stripSpace(out) {
		r.Violate("C13", "trim-removes-only-whitespace", caseLine, fmt.Sprintf("plain=%q out=%q", plain, out))
		return
	}
	if len(out) > len(plain) || !utf8.Valid(out) || !isWsDeletion(string(plain), string(out)) {
		r.Violate("C13", "trim-output-is-whitespace-deletion", caseLine, fmt.Sprintf("plain=%q out=%q", plain, out))
	}
}

func hasInk(b []byte) bool { return len(bytes.TrimFunc(b, unicode.IsSpace)) > 0 }

// twAdjacentOracle: "exactly the adjacent whitespace" on operation lists with valid UTF-8 writes.
// Every clause is one of the adjacency theorems of Proofs/C13.lean read as a metamorphic relation
// on the REAL trimWriter: the case and its rewritten form (the trim operation replaced by a write
// of the text stripped by the harness with bytes.TrimLeftFunc/TrimRightFunc) must write the same
// bytes. Since Write always flushes the previous buffer (repair 2593661) the two "faces text" laws
// hold for EVERY text, blank and empty included, with or without a pending TrimRight: a hyphen
// removes the whitespace of the adjacent text up to its nearest non-whitespace character, all of
// it when the text is blank, and nothing else. The pending-TrimRight flag before position i is
// tracked here (set by R, consumed by any write), is only needed by the empty-write clause, and
// does not come from the model.
func twAdjacentOracle(r *Run, caseLine string, ops []twOp, out []byte) {
	check := func(clause string, i, n int, repl ...twOp) {
		alt := append(append(append([]twOp(nil), ops[:i]...), repl...), ops[i+n:]...)
		got := bytes.Join(runRealTW(alt), nil)
		r.Count("adjacent=" + clause)
		if !bytes.Equal(got, out) {
			r.Violate("C13", clause, caseLine, fmt.Sprintf("out=%q but %s => %q", out, showTwOps(alt), got))
		}
	}
	w := func(b []byte) twOp { return twOp{kind: 'w', b: b} }
	flag := false
	for i := 0; i < len(ops); i++ {
		if i+1 < len(ops) {
			a, b := ops[i], ops[i+1]
			switch {
			case a.kind == 'w' && b.kind == 'L':
				// trimLeft_adjacent_all (trimLeft_adjacent, _noflag, _ws are its special cases)
				check("trimLeft-adjacent", i, 2, w(bytes.TrimRightFunc(a.b, unicode.IsSpace)))
				if !hasInk(a.b) {
					r.Count("adjacent=trimLeft-adjacent(blank-text,flag=" + fmt.Sprint(flag) + ")")
				}
			case a.kind == 'R' && b.kind == 'w':
				// trimRight_adjacent_all (trimRight_adjacent, _flag, _ws are its special cases)
				check("trimRight-adjacent", i, 2, w(bytes.TrimLeftFunc(b.b, unicode.IsSpace)))
				if !hasInk(b.b) {
					r.Count("adjacent=trimRight-adjacent(blank-text,flag=" + fmt.Sprint(flag) + ")")
				}
				if len(b.b) == 0 && !flag {
					// trimRight_empty_write: the empty write consumes the flag and flushes
					check("trimRight-empty-write", i, 2, twOp{kind: 'F'})
				}
			case a.kind == 'R' && b.kind == 'L':
				// trimRight_persists_trimLeft
				check("trimRight-persists-trimLeft", i, 2, twOp{kind: 'L'}, twOp{kind: 'R'})
			case a.kind == 'R' && b.kind == 'F':
				// trimRight_persists_flush
				check("trimRight-persists-flush", i, 2, twOp{kind: 'F'}, twOp{kind: 'R'})
			}
		}
		switch ops[i].kind {
		case 'R':
			flag = true
		case 'w', 'v':
			flag = false
		}
	}
}

// twLastWriteOracle: a hyphen strips the ADJACENT text only (tw_trimLeft_sees_last_write_only and
// tw_trimLeft_sees_last_write_only_flag, which hold for ALL byte strings): for `… w(a) w(b) L …`
// and `… w(a) R w(b) L …` the real trimWriter writes what it writes for the list that ends with
// w(a), then b right-stripped (left-stripped first when the R is there), then what it writes for
// the rest alone. So the bytes of the earlier write are out of reach of the TrimLeft, also when b is
// blank (where the writer before repair 2593661 stripped the end of a as well).
func twLastWriteOracle(r *Run, caseLine string, ops []twOp, out []byte) {
	realOut := func(l []twOp) []byte { return bytes.Join(runRealTW(l), nil) }
	for i := 0; i+2 < len(ops); i++ {
		if ops[i].kind != 'w' {
			continue
		}
		j, mid, clause := i+1, []byte(nil), "trimLeft-sees-last-write-only"
		if ops[j].kind == 'R' {
			j, clause = j+1, "trimLeft-sees-last-write-only(after-trimRight)"
		}
		if j+1 >= len(ops) || ops[j].kind != 'w' || ops[j+1].kind != 'L' {
			continue
		}
		mid = ops[j].b
		if j == i+2 {
			mid = bytes.TrimLeftFunc(mid, unicode.IsSpace)
		}
		mid = bytes.TrimRightFunc(mid, unicode.IsSpace)
		want := append(append(append([]byte(nil), realOut(ops[:i+1])...), mid...), realOut(ops[j+2:])...)
		r.Count("adjacent=" + clause)
		if !bytes.Equal(want, out) {
			r.Violate("C13", clause, caseLine, fmt.Sprintf("out=%q but %s => %q, then %q, then %s => %q", out,
				showTwOps(ops[:i+1]), realOut(ops[:i+1]), mid, showTwOps(ops[j+2:]), realOut(ops[j+2:])))
		}
	}
}

// twVerbatimOracle: trimWriter.WriteVerbatim (objects, raw bodies, what a tag writes; repair verbatim-output-not-trimmed)
// on the REAL trim writer, for every operation list and ALL byte strings:
//   - it is the empty Write, the Write of b and a Flush: replacing the operation by these three gives the same underlying
//     calls, call by call (this is how the model expresses it: verbatimOps);
//   - the bytes written verbatim reach the writer unchanged whatever trims precede or follow: the output is what the
//     operations before it write (with a final flush), then b, then what the operations after it write on their own.
func twVerbatimOracle(r *Run, caseLine string, ops []twOp, calls [][]byte) {
	sameCalls := func(a, b [][]byte) bool {
		if len(a) != len(b) {
			return false
		}
		for i := range a {
			if !bytes.Equal(a[i], b[i]) {
				return false
			}
		}
		return true
	}
	out := bytes.Join(calls, nil)
	for i, o := range ops {
		if o.kind != 'v' {
			continue
		}
		r.Count("verbatim=checked")
		alt := append(append(append([]twOp(nil), ops[:i]...), twOp{kind: 'w'}, twOp{kind: 'w', b: o.b}, twOp{kind: 'F'}), ops[i+1:]...)
		if got := runRealTW(alt); !sameCalls(got, calls) {
			r.Violate("C13", "writeVerbatim-is-emptyWrite-write-flush", caseLine, fmt.Sprintf("calls %q but %s => %q", calls, showTwOps(alt), got))
			return
		}
		// the operations before run with the flag they had; a pending right trim is dropped by the verbatim write, so
		// the prefix alone (plus the final flush) writes exactly what it wrote before the verbatim write
		want := append(append(append([]byte(nil), bytes.Join(runRealTW(ops[:i]), nil)...), o.b...), bytes.Join(runRealTW(ops[i+1:]), nil)...)
		if !bytes.Equal(want, out) {
			r.Violate("C05", "verbatim-bytes-unchanged-between-trims", caseLine, fmt.Sprintf("out=%q want %q", out, want))
			return
		}
	}
}
