package main

import (
	"bytes"
	"fmt"
	"strings"
	"unicode"
	"unicode/utf8"
)

func stripSpace(b []byte) string {
	return strings.Map(func(r rune) rune {
		if unicode.IsSpace(r) {
			return -1
		}
		return r
	}, string(b))
}

// isWsDeletion: `got` is obtained from `want` by deleting whitespace runes only.
func isWsDeletion(want, got string) bool {
	i, j := 0, 0
	for i < len(want) {
		r, w := utf8.DecodeRuneInString(want[i:])
		if j < len(got) {
			r2, w2 := utf8.DecodeRuneInString(got[j:])
			if r == r2 && w == w2 && want[i:i+w] == got[j:j+w2] {
				// greedy match is complete here because deleted runes are all whitespace:
				// if r is whitespace and also matches, either choice leads to the same answer
				// only when later text agrees; fall back to backtracking for whitespace.
				if !unicode.IsSpace(r) {
					i += w
					j += w2
					continue
				}
				if isWsDeletion(want[i+w:], got[j+w2:]) {
					return true
				}
			}
		}
		if !unicode.IsSpace(r) {
			return false
		}
		i += w
	}
	return j == len(got)
}

// twOracle: C13 on operation lists.
//   - no-trim-identity (all byte strings): without TrimLeft/TrimRight the output is the
//     concatenation of the writes (tw_no_trim_identity);
//   - when every write is valid UTF-8 (ValidOps; DESIGN C13 scope note 3: the law is about
//     characters, and is false on raw bytes, tw_erasure_fails_on_invalid_utf8): trimming removes
//     whitespace only (tw_trim_only_ws) and the output is a whitespace-deletion of the untrimmed
//     output (tw_trim_subseq), still valid UTF-8 and never longer (tw_trim_valid_sublist).
func twOracle(r *Run, caseLine string, plain, out []byte, valid bool, trims int) {
	if trims == 0 && !bytes.Equal(plain, out) {
		r.Violate("C13", "no-trim-identity", caseLine, fmt.Sprintf("plain=%q out=%q", plain, out))
		return
	}
	if !valid {
		r.Count("oracle=identity-only(invalid-utf8-write)")
		return
	}
	r.Count("oracle=erasure")
	if stripSpace(plain) != stripSpace(out) {
		r.Violate("C13", "trim-removes-only-whitespace", caseLine, fmt.Sprintf("plain=%q out=%q", plain, out))
		return
	}
	if len(out) > len(plain) || !utf8.Valid(out) || !isWsDeletion(string(plain), string(out)) {
		r.Violate("C13", "trim-output-is-whitespace-deletion", caseLine, fmt.Sprintf("plain=%q out=%q", plain, out))
	}
}

func hasInk(b []byte) bool { return len(bytes.TrimFunc(b, unicode.IsSpace)) > 0 }

// twAdjacentOracle: "exactly the adjacent whitespace" on operation lists with valid UTF-8 writes.
// Every clause is one of the adjacency theorems of Proofs/C13.lean read as a metamorphic relation
// on the REAL trimWriter: the case and its rewritten form (the trim operation replaced by a write
// of the text stripped by the harness with bytes.TrimLeftFunc/TrimRightFunc) must write the same
// bytes. The pending-TrimRight flag before position i is tracked here (set by R, consumed by any
// write) and does not come from the model.
func twAdjacentOracle(r *Run, caseLine string, ops []twOp, out []byte) {
	check := func(clause string, i, n int, repl ...twOp) {
		alt := append(append(append([]twOp(nil), ops[:i]...), repl...), ops[i+n:]...)
		got := bytes.Join(runRealTW(alt), nil)
		r.Count("adjacent=" + clause)
		if !bytes.Equal(got, out) {
			r.Violate("C13", clause, caseLine, fmt.Sprintf("out=%q but %s => %q", out, showTwOps(alt), got))
		}
	}
	w := func(b []byte) twOp { return twOp{kind: 'w', b: b} }
	flag := false
	for i := 0; i < len(ops); i++ {
		if i+1 < len(ops) {
			a, b := ops[i], ops[i+1]
			switch {
			case a.kind == 'w' && b.kind == 'L' && (hasInk(a.b) || !flag):
				// trimLeft_adjacent, trimLeft_adjacent_noflag
				check("trimLeft-adjacent", i, 2, w(bytes.TrimRightFunc(a.b, unicode.IsSpace)))
			case a.kind == 'w' && b.kind == 'L':
				// trimLeft_adjacent_ws: blank text between a pending TrimRight and a TrimLeft
				check("trimLeft-adjacent-blank", i, 2, twOp{kind: 'L'}, w(nil))
			case a.kind == 'R' && b.kind == 'w' && (hasInk(b.b) || flag):
				// trimRight_adjacent, trimRight_adjacent_flag
				check("trimRight-adjacent", i, 2, w(bytes.TrimLeftFunc(b.b, unicode.IsSpace)))
			case a.kind == 'R' && b.kind == 'w' && len(b.b) > 0:
				// trimRight_adjacent_ws
				check("trimRight-adjacent-blank", i, 2, twOp{kind: 'R'}, w(nil))
			case a.kind == 'R' && b.kind == 'w':
				// trimRight_empty_write (flag is clear here)
				check("trimRight-empty-write", i, 2)
			case a.kind == 'R' && b.kind == 'L':
				// trimRight_persists_trimLeft
				check("trimRight-persists-trimLeft", i, 2, twOp{kind: 'L'}, twOp{kind: 'R'})
			case a.kind == 'R' && b.kind == 'F':
				// trimRight_persists_flush
				check("trimRight-persists-flush", i, 2, twOp{kind: 'F'}, twOp{kind: 'R'})
			}
		}
		switch ops[i].kind {
		case 'R':
			flag = true
		case 'w':
			flag = false
		}
	}
}
