package main

// Stream `determ` (property C02): rendering is deterministic across repeated renders, fresh
// parses, fresh engines and the entry points Render, RenderString, FRender, ParseAndRender,
// ParseAndRenderString, ParseAndFRender (and the cmd/liquid binary for environment-free
// templates); it never depends on Go map iteration order or map construction order.
//
// Case line:   determ <cfg> <srchex> <envenc>          (same fields as `robust`)
// Result line: the canonical result of the first render (ok <hex> | err ... | panic)
//
// For every case the logical environment is realised four times, with the entries of every Go
// map (at any depth, and the bindings map itself) inserted in four different orders. The
// template is rendered 4x on one parsed template with one environment object, 4x with the four
// differently built environments, on 2 fresh parses, on 2 fresh engines and through all six
// entry points; every result (bytes, or error kind/line/path/cause and text) must be equal.

import (
	"bytes"
	"fmt"
	"os"
	"os/exec"
	"path/filepath"
	"sort"
	"strings"
	"syscall"
	"time"

	"github.com/osteele/liquid"
)

func init() {
	streams["determ"] = determStream
	replayers["determ"] = func(r *Run, f []string) string {
		if len(f) != 4 {
			return "bad-case"
		}
		res := "timeout"
		for k := 0; k < 20; k++ { // a replay repeats the case: the variation is random
			res = determCase(r, parseEngineCfg(f[1]), unhexField(f[2]), DecEnv(f[3]), strings.Join(f, " "), NewRNG(uint64(k), "replay"), true)
		}
		return res
	}
}

// oneResult renders a (result, error text) pair into one comparable string.
func (c engineCfg) oneResult(out []byte, err liquid.SourceError, parsePhase bool) string {
	if err != nil {
		if p := sourceErrorProblem(err); p != "" {
			return "err bad-source-error " + p
		}
		return c.canonErr(err, parsePhase) + " " + hexField(strings.ReplaceAll(err.Error(), c.dir(), ""))
	}
	return canonOK(out)
}

type determVariant struct {
	label string
	res   string
}

// determVariants computes every variant's result.
func determVariants(cfg engineCfg, src string, env map[string]*V, g *RNG) []determVariant {
	var vs []determVariant
	add := func(label string, f func() string) {
		res, _ := protect(f)
		vs = append(vs, determVariant{label, res})
	}
	shuffle := func(n int) []int {
		p := make([]int, n)
		for i := range p {
			p[i] = i
		}
		for i := n - 1; i > 0; i-- {
			j := g.Intn(i + 1)
			p[i], p[j] = p[j], p[i]
		}
		return p
	}
	orders := []func(n int) []int{
		nil,
		func(n int) []int {
			p := make([]int, n)
			for i := range p {
				p[i] = n - 1 - i
			}
			return p
		},
		shuffle, shuffle,
	}
	envs := make([]map[string]any, 4)
	for i := range envs {
		envs[i] = (&realiser{perm: orders[i]}).env(env)
	}
	src2 := []byte(src)
	render := func(e *liquid.Engine, b map[string]any) string {
		tpl, err := cfg.parse(e, src)
		if err != nil {
			return cfg.oneResult(nil, err, true)
		}
		out, err := tpl.Render(b)
		return cfg.oneResult(out, err, false)
	}
	e0 := cfg.newEngine()
	var tpl0 *liquid.Template
	var perr liquid.SourceError
	if res, _ := protect(func() string { tpl0, perr = cfg.parse(e0, src); return "" }); res == "panic" {
		// the parse panics (C01's matter); determinism of that: every parse must panic
		add("parse#1", func() string { return "panic" })
		add("parse#2", func() string { cfg.parse(e0, src); return "no panic" })
		add("fresh-engine#1", func() string { cfg.parse(cfg.newEngine(), src); return "no panic" })
		return vs
	}
	if perr != nil {
		add("parse#1", func() string { return cfg.oneResult(nil, perr, true) })
		add("parse#2", func() string { _, err := cfg.parse(e0, src); return cfg.oneResult(nil, err, true) })
		add("fresh-engine#1", func() string { return render(cfg.newEngine(), envs[1]) })
		add("fresh-engine#2", func() string { return render(cfg.newEngine(), envs[2]) })
		if cfg.dir() == "" {
			add("entry:ParseAndRender", func() string {
				out, err := cfg.newEngine().ParseAndRender(src2, envs[0])
				return cfg.oneResult(out, err, true)
			})
			add("entry:ParseAndRenderString", func() string {
				out, err := cfg.newEngine().ParseAndRenderString(src, envs[3])
				return cfg.oneResult([]byte(out), err, true)
			})
			add("entry:ParseAndFRender", func() string {
				var buf bytes.Buffer
				err := cfg.newEngine().ParseAndFRender(&buf, src2, envs[0])
				return cfg.oneResult(buf.Bytes(), err, true)
			})
		}
		return vs
	}
	for i := 0; i < 4; i++ {
		add(fmt.Sprintf("repeat-render#%d", i+1), func() string { out, err := tpl0.Render(envs[0]); return cfg.oneResult(out, err, false) })
	}
	for i := 1; i < 4; i++ {
		b := envs[i]
		add(fmt.Sprintf("map-construction-order#%d", i), func() string { out, err := tpl0.Render(b); return cfg.oneResult(out, err, false) })
	}
	add("repeat-render#5", func() string { out, err := tpl0.Render(envs[0]); return cfg.oneResult(out, err, false) })
	// earlier activity on the SAME parsed template with OTHER bindings (which mostly make the render fail part-way:
	// every variable a string that is no number, then no variable at all) must not show in a later render
	{
		other := map[string]any{}
		for k := range envs[0] {
			other[k] = "zz"
		}
		protect(func() string { tpl0.Render(other); tpl0.RenderString(map[string]any{}); tpl0.Render(other); return "" })
		add("repeat-render-after-other-bindings#1", func() string { out, err := tpl0.Render(envs[0]); return cfg.oneResult(out, err, false) })
		add("repeat-render-after-other-bindings#2", func() string {
			out, err := tpl0.RenderString(envs[1])
			return cfg.oneResult([]byte(out), err, false)
		})
	}
	add("fresh-parse#1", func() string { return render(e0, envs[1]) })
	add("fresh-parse#2", func() string { return render(e0, envs[2]) })
	add("fresh-engine#1", func() string { return render(cfg.newEngine(), envs[3]) })
	add("fresh-engine#2", func() string { return render(cfg.newEngine(), envs[0]) })
	e3 := cfg.newEngine()
	var tpl3 *liquid.Template
	protect(func() string { tpl3, _ = cfg.parse(e3, src); return "" })
	if tpl3 != nil {
		add("entry:Render", func() string { out, err := tpl3.Render(envs[1]); return cfg.oneResult(out, err, false) })
		add("entry:RenderString", func() string {
			out, err := tpl3.RenderString(envs[2])
			return cfg.oneResult([]byte(out), err, false)
		})
		add("entry:FRender", func() string {
			var buf bytes.Buffer
			err := tpl3.FRender(&buf, envs[3])
			if err != nil {
				return cfg.oneResult(nil, err, false) // FRender may have written a prefix before failing
			}
			return cfg.oneResult(buf.Bytes(), nil, false)
		})
	}
	if cfg.dir() == "" { // the one-call entry points cannot name a source path, so includes would resolve elsewhere
		add("entry:ParseAndRender", func() string {
			out, err := e3.ParseAndRender(src2, envs[0])
			return cfg.oneResult(out, err, false)
		})
		add("entry:ParseAndRenderString", func() string {
			out, err := e3.ParseAndRenderString(src, envs[1])
			return cfg.oneResult([]byte(out), err, false)
		})
		add("entry:ParseAndFRender", func() string {
			var buf bytes.Buffer
			err := e3.ParseAndFRender(&buf, src2, envs[2])
			if err != nil {
				return cfg.oneResult(nil, err, false)
			}
			return cfg.oneResult(buf.Bytes(), nil, false)
		})
	}
	return vs
}

func describeResult(res string) string {
	f := strings.Fields(res)
	if len(f) >= 2 && f[0] == "ok" {
		return fmt.Sprintf("ok %q", short(unhexField(f[1]), 400))
	}
	if len(f) >= 6 && f[0] == "err" {
		return strings.Join(f[:5], " ") + " " + fmt.Sprintf("%q", short(unhexField(f[5]), 300))
	}
	return res
}

// canonical strips the error text from a variant result (the emitted result line has the same
// shape as the other whole-engine streams).
func canonical(res string) string {
	f := strings.Fields(res)
	if len(f) >= 6 && f[0] == "err" {
		return strings.Join(f[:5], " ")
	}
	return res
}

// determCase evaluates the C02 oracle on one case and returns the canonical first result.
func determCase(r *Run, cfg engineCfg, src string, env map[string]*V, caseLine string, g *RNG, replay bool) string {
	type outT struct{ vs []determVariant }
	ch := make(chan outT, 1)
	go func() { ch <- outT{determVariants(cfg, src, env, g)} }()
	var vs []determVariant
	select {
	case o := <-ch:
		vs = o.vs
	case <-time.After(caseHardLimit):
		return "timeout"
	}
	if len(vs) == 0 {
		return "no-variants"
	}
	first := vs[0]
	for _, v := range vs[1:] {
		if v.res != first.res {
			clause := v.label
			if i := strings.IndexByte(clause, '#'); i >= 0 {
				clause = clause[:i]
			}
			r.Count("violation:" + clause)
			r.Violate("C02", clause, caseLine, fmt.Sprintf("%s gave %s but %s gave %s   source: %s", first.label, describeResult(first.res), v.label, describeResult(v.res), short(fmt.Sprintf("%q", src), 400)))
			break
		}
	}
	return canonical(first.res)
}

// ---- the cmd/liquid binary ------------------------------------------------------------------------

// buildCLI builds cmd/liquid from the repository's working tree into the run's work directory,
// once per run (the first shard to take the lock builds it).
func buildCLI() (string, string) {
	dir := workDir()
	exe := filepath.Join(dir, "liquid-cli")
	lock, err := os.OpenFile(filepath.Join(dir, "liquid-cli.lock"), os.O_CREATE|os.O_RDWR, 0o644)
	if err != nil {
		return "", err.Error()
	}
	defer lock.Close()
	if err := syscall.Flock(int(lock.Fd()), syscall.LOCK_EX); err != nil {
		return "", err.Error()
	}
	defer syscall.Flock(int(lock.Fd()), syscall.LOCK_UN)
	if st, err := os.Stat(exe); err == nil && st.Size() > 0 && os.Getenv("VERIF_WORK") != "" {
		return exe, "" // built by another shard of this run (./check empties the work directory first)
	}
	tmp := exe + fmt.Sprintf(".tmp%d", os.Getpid())
	cmd := exec.Command("go", "build", "-o", tmp, "./cmd/liquid")
	cmd.Dir = repoRoot
	cmd.Env = append(os.Environ(), "GOFLAGS=-mod=mod", "GOPROXY=off", "GOSUMDB=off", "GOTOOLCHAIN=local")
	if out, err := cmd.CombinedOutput(); err != nil {
		return "", firstLine(string(out)) + " " + err.Error()
	}
	if err := os.Rename(tmp, exe); err != nil {
		return "", err.Error()
	}
	return exe, ""
}

// runCLI feeds src to the binary and returns (stdout, stderr, exit code).
func runCLI(exe string, strict bool, src string) (string, string, int, error) {
	args := []string{}
	if strict {
		args = append(args, "-strict")
	}
	cmd := exec.Command(exe, args...)
	cmd.Stdin = strings.NewReader(src)
	var so, se bytes.Buffer
	cmd.Stdout, cmd.Stderr = &so, &se
	done := make(chan error, 1)
	if err := cmd.Start(); err != nil {
		return "", "", -1, err
	}
	go func() { done <- cmd.Wait() }()
	select {
	case err := <-done:
		code := 0
		if err != nil {
			if ee, ok := err.(*exec.ExitError); ok {
				code = ee.ExitCode()
			} else {
				return "", "", -1, err
			}
		}
		return so.String(), se.String(), code, nil
	case <-time.After(caseHardLimit):
		cmd.Process.Kill()
		return "", "", -1, fmt.Errorf("timeout")
	}
}

// cliCase compares the binary with the in-process result on an environment-free template.
func cliCase(r *Run, exe string, cfg engineCfg, src, caseLine string) {
	var want string
	var werr liquid.SourceError
	res, _ := protect(func() string {
		e := cfg.newEngine()
		tpl, err := e.ParseTemplate([]byte(src))
		if err != nil {
			werr = err
			return "err"
		}
		out, err := tpl.Render(map[string]any{})
		if err != nil {
			werr = err
			return "err"
		}
		want = string(out)
		return "ok"
	})
	so, se, code, err := runCLI(exe, cfg.Strict, src)
	if err != nil {
		r.Count("cli:unrunnable")
		return
	}
	r.Count("cli:" + res)
	bad := ""
	switch res {
	case "ok":
		if code != 0 || so != want {
			bad = fmt.Sprintf("in-process output %q, cmd/liquid exit %d stdout %q stderr %q", short(want, 300), code, short(so, 300), short(se, 200))
		}
	case "err":
		if code != 1 || strings.TrimSuffix(se, "\n") != werr.Error() || so != "" {
			bad = fmt.Sprintf("in-process error %q, cmd/liquid exit %d stdout %q stderr %q", werr.Error(), code, short(so, 200), short(se, 300))
		}
	case "panic":
		if code == 0 {
			bad = fmt.Sprintf("in-process render panics, cmd/liquid exit 0 stdout %q", short(so, 200))
		}
	}
	if bad != "" {
		r.Count("violation:cmd-liquid")
		r.Violate("C02", "cmd-liquid", caseLine, bad+"   source: "+short(fmt.Sprintf("%q", src), 400))
	}
}

// ---- the stream -----------------------------------------------------------------------------------

func determOpts(g *RNG) TmplOpts {
	o := DefaultTmplOpts()
	o.ValidPct, o.BoundaryPct, o.ErrDensity = 85, 0, 15
	o.MaxDepth = 1 + g.Intn(3)
	o.MaxLoopNest = 1 + g.Intn(2)
	o.MaxNodes = 3 + g.Intn(8)
	o.MapHeavy = g.Chance(65)
	return o
}

func determStream(r *Run) {
	for _, c := range corpusLines("determ") {
		f := strings.Fields(c)
		if len(f) == 4 && r.Mine() {
			r.Emit(c, replayers["determ"](r, f))
		}
	}
	// same-named struct types, rendered in sequence in this process (implementation only: no case line)
	if r.Shard == 0 {
		sameNamedTypesFamily(r)
		determClass4KeysFamily(r)
	}
	// a fixed family: maps whose keys stress the key order itself — integer keys of every width that
	// are large and closely spaced (beyond float64 precision), negative, mixed magnitudes; many string
	// keys sharing prefixes — consumed by every construct that iterates or converts a map
	{
		g := NewRNG(r.Seed, "determ/fixed")
		big := func(kind int, base int64, n int) *V {
			var kvs [][2]*V
			for j := 0; j < n; j++ {
				kvs = append(kvs, KV(VInt(kind, base+int64(j)), VStr(string(rune('a'+j)))))
			}
			return VMap(TInt(kind), TStr, kvs...)
		}
		var skvs [][2]*V
		for j := 0; j < 10; j++ {
			skvs = append(skvs, SKV(strings.Repeat("k", 1+j%3)+fmt.Sprint(j), VInt(0, int64(j))))
		}
		var kfs []Field
		for j := 0; j < 10; j++ {
			kfs = append(kfs, Field{strings.Repeat("k", 1+j%3) + fmt.Sprint(j), VInt(0, int64(j))})
		}
		sort.Slice(kfs, func(a, b int) bool { return kfs[a].Name < kfs[b].Name }) // codec convention: fields of a keyed map sorted
		// nested maps (string keys inside integer keys inside string keys), for the JSON printers
		var nkvs [][2]*V
		for j := 0; j < 12; j++ {
			var inner [][2]*V
			for l := 0; l < 5; l++ {
				inner = append(inner, KV(VInt(0, int64(10*l-20+j)), VStrMap(SKV("z"+fmt.Sprint(l), VInt(0, int64(l))), SKV("a", VAnys(VStrMap(SKV("y", VNil()), SKV("x", VStr("<"))))), SKV("B", VFlt(1, 0.5)))))
			}
			nkvs = append(nkvs, SKV(strings.Repeat("n", 1+j%4)+fmt.Sprint(11-j), VMap(TInt(0), TAny, inner...)))
		}
		// keys of one map[any]any that are equal as numbers and differ in Go type (1, 1.0, int64(1), uint8(1)), next to
		// neighbours beyond 2^53 of different types: the key order must not leave ties to the map's own order
		mixed := VMap(TAny, TAny, KV(VInt(0, 1), VStr("a")), KV(VFlt(1, 1.0), VStr("b")), KV(VInt(4, 1), VStr("c")), KV(VInt(6, 1), VStr("d")),
			KV(VFlt(0, 1.0), VStr("e")), KV(VInt(0, 0), VStr("f")), KV(VStr("1"), VStr("g")), KV(VBool(true), VStr("h")))
		mixedWide := VMap(TAny, TAny, KV(VInt(4, (1<<53)+1), VStr("a")), KV(VInt(9, 1<<53), VStr("b")), KV(VFlt(1, 1<<53), VStr("c")),
			KV(VInt(0, 1<<53), VStr("d")), KV(VInt(9, (1<<53)+1), VStr("e")), KV(VInt(4, (1<<53)+2), VStr("f")))
		maps := []*V{mixed, mixedWide, VKeyed(kfs...), big(4, 1<<60, 8), big(4, -(1 << 60), 8), big(0, 1<<53, 6), big(4, (1<<62)-4, 8), big(9, 1<<62, 8), big(3, 1<<30, 5), big(4, -3, 7), VStrMap(skvs...), VStrMap(nkvs...)}
		tmpls := []string{"{% for kv in m %}{{ kv }};{% endfor %}", "{% for kv in m %}{{ kv[1] }}{% endfor %}", "{{ m | join: '' }}", "{{ m | first }}{{ m | last }}", "{% tablerow kv in m cols:3 %}{{ kv[1] }}{% endtablerow %}",
			"{{ m | sort | join: ',' }}", "{{ m | reverse | join: ',' }}", "{% for kv in m reversed limit:3 offset:1 %}{{ kv[0] }};{% endfor %}", "{{ m | uniq | size }}{{ m | map: 'x' | size }}",
			"{{ m | json }}", "{{ m | inspect }}|{{ m | type }}", "{% for kv in m %}{{ kv | json }}{% endfor %}{{ m | first | inspect }}"}
		// Every (map, template) pair is sent with the entries in the codec's canonical order and again with the
		// entries of every map (nested ones included) in pseudo-random orders: three for the two mixed-key maps, one
		// for the others. The Go maps are the same; the model, which gets the entries in the order of the case
		// line, must sort them where the code calls SortedMapKeys to give the same answer.
		for mi, m := range maps {
			for ti, src := range tmpls {
				variants := 2
				if mi < 2 {
					variants = 4
				}
				for k := 0; k < variants; k++ {
					if !r.Mine() {
						continue
					}
					mv := m
					if k > 0 {
						mv = m.Shuffled(NewRNG(r.Seed, fmt.Sprint("determ/fixed/shuffle/", mi, "/", ti, "/", k)))
						r.Count("fixed-family-shuffled")
					}
					env := map[string]*V{"m": mv}
					cl := "determ " + engineCfg{}.Enc() + " " + hexField(src) + " " + EncEnv(env)
					res := determCase(r, engineCfg{}, src, env, cl, g, false)
					r.Count("fixed-family")
					r.Nontrivial(cl)
					r.Emit(cl, res)
				}
			}
		}
	}
	// undefined filters whose names are one edit away from several defined ones: the error (kind AND text) is part of
	// the result and must not depend on the order in which a table of filters is walked
	for _, src := range []string{"{{ 'a' | xstrip }}", "{{ 'a' | slize: 1 }}", "{{ 'a' | url_code }}", "{{ 1 | pluss: 2 }}", "{{ 'a' | uppcase }}", "{{ 'a' | sizes }}",
		"{{ 'a' | lstripp | rstrp }}", "{% assign x = 'a' | jon %}", "{% if 'a' | sise %}{% endif %}", "{% xtag %}", "{% endfoo %}", "{{ 'a' | sort_naturel }}", "{{ 1 | mins: 1 }}"} {
		if !r.Mine() {
			continue
		}
		env := map[string]*V{}
		cl := "determ " + engineCfg{}.Enc() + " " + hexField(src) + " " + EncEnv(env)
		g := NewRNG(r.Seed, "determ/near-miss/"+src)
		var res string
		for k := 0; k < 8; k++ { // eight rounds of variants: a tie left to a map's order shows in a few renders
			res = determCase(r, engineCfg{}, src, env, cl, g, false)
		}
		r.Count("near-miss-names")
		r.Emit(cl, res)
	}
	n := 1600
	nFree := 320
	if r.Tier == "thorough" {
		n, nFree = 20000, 2500
	}
	for i := 0; i < n; i++ {
		if !r.Mine() {
			continue
		}
		g := NewRNG(r.Seed, fmt.Sprint("determ/", i))
		o := determOpts(g)
		cfg := engineCfg{Strict: g.Chance(4)}
		sc := GenSchema(g, o)
		if g.Chance(10) {
			cfg.FS = GenIncludes(g, o, sc)
			o.Includes = cfg.FS
		}
		env := GenEnv(g, o, sc)
		src, info := GenTemplateFor(g, o, sc)
		// half of the environments are sent with the entries of every map in a pseudo-random order (a private RNG
		// of the case, so that the templates of a seed stay what they were and the case replays)
		if gs := NewRNG(r.Seed, fmt.Sprint("determ/shuffle/", i)); gs.Chance(50) {
			env = ShuffledEnv(env, gs)
			r.Count("entries=shuffled")
		} else {
			r.Count("entries=canonical")
		}
		cl := "determ " + cfg.Enc() + " " + hexField(src) + " " + EncEnv(env)
		res := determCase(r, cfg, src, env, cl, g, false)
		r.Count("gen-mode=" + info.Mode)
		r.Count(fmt.Sprint("map-heavy=", o.MapHeavy))
		for t := range info.Tags {
			r.Count("tag=" + t)
		}
		for f := range info.Filters {
			r.Count("filter=" + f)
		}
		maxMap := 0
		for _, v := range env {
			if v.Kind == 'M' && len(v.KVs) > maxMap {
				maxMap = len(v.KVs)
			}
		}
		r.Count(fmt.Sprint("largest-map=", maxMap))
		if rf := strings.Fields(res); len(rf) >= 2 && rf[0] == "err" {
			r.Count("result=err:" + rf[1])
		} else {
			r.Count("result=" + rf[0])
		}
		if strings.HasPrefix(res, "ok ") && len(res) > 5 {
			r.Nontrivial(cl)
		}
		r.Emit(cl, res)
		if res == "timeout" {
			r.Stats.Notes["aborted"] = "a case did not return within " + caseHardLimit.String() + "; shard stopped (see robust/C01)"
			return
		}
	}
	// environment-free templates: in-process variants and the cmd/liquid binary
	exe, berr := "", ""
	built := false
	for i := 0; i < nFree; i++ {
		if !r.Mine() {
			continue
		}
		if !built {
			exe, berr = buildCLI()
			built = true
			if berr != "" {
				r.Stats.Notes["cli_build_failed"] = berr
			}
		}
		g := NewRNG(r.Seed, fmt.Sprint("determ/free/", i))
		o := determOpts(g)
		o.MapHeavy = false
		cfg := engineCfg{Strict: g.Chance(10)}
		src, _ := GenTemplateFor(g, o, Schema{})
		env := map[string]*V{}
		cl := "determ " + cfg.Enc() + " " + hexField(src) + " " + EncEnv(env)
		res := determCase(r, cfg, src, env, cl, g, false)
		r.Count("class=env-free")
		if exe != "" && res != "timeout" {
			cliCase(r, exe, cfg, src, cl)
		}
		r.Emit(cl, res)
		if res == "timeout" {
			return
		}
	}
}
