module verifharness

go 1.23

require (
	github.com/osteele/liquid v0.0.0
	gopkg.in/yaml.v2 v2.4.0
)

replace github.com/osteele/liquid => /repo
