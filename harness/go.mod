module verifharness

go 1.23

require (
	github.com/osteele/liquid v0.0.0
	gopkg.in/yaml.v2 v2.4.0
)

require github.com/osteele/tuesday v1.0.3 // indirect

replace github.com/osteele/liquid => /repo
