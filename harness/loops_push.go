package main

import (
	"fmt"

	"github.com/osteele/liquid"
)

// loopsPushFamily (implementation only: no case line, the model has no registered filters): the values a loop hands to
// its body are the engine's own — the [key, value] pair of a map entry, the items of a range, the loop record. Go code
// that a caller registers as a filter may append to what it is given (Jekyll's `push` is append(a, x)); an append
// writes into spare capacity, so a pair that shares its backing array with the next pair lets iteration i change
// what iteration i+1 visits. The oracle is metamorphic: a body that also computes `p | xpush: ...` into a variable
// nobody reads renders what the body without it renders.
func loopsPushFamily(r *Run) {
	engine := func() *liquid.Engine {
		e := liquid.NewEngine()
		e.RegisterFilter("xpush", func(a []any, x any) []any { return append(a, x) })
		e.RegisterFilter("xpush2", func(a []any, x any) []any { return append(append(a, x), x) })
		return e
	}
	maps := []any{
		map[string]any{"author": "ann", "layout": "post", "title": "Hello"},
		map[string]int{"a": 1, "b": 2},
		map[int]string{3: "c", 1: "a", 2: "b", 4: "d", 5: "e"},
		map[any]any{1: "x", "k": 2.5, true: nil},
		map[string]any{"only": 1},
	}
	heads := []string{"{% for p in m %}", "{% for p in m limit: 3 %}", "{% for p in m offset: 1 %}", "{% tablerow p in m cols: 2 %}", "{% for p in m reversed %}"}
	bodies := []string{"{{ p[0] }}={{ p[1] }};", "{{ p | join: '=' }};{{ forloop.index }}", "{{ p }}"}
	pushes := []string{"{% assign q = p | xpush: '!' %}", "{% assign q = p | xpush2: '!' %}", "{% assign q = p | xpush: '!' | xpush: '?' %}{% assign q2 = p | xpush: 7 %}", "{% capture c %}{{ p | xpush2: 0 | size }}{% endcapture %}"}
	for mi, m := range maps {
		for _, h := range heads {
			end := "{% endfor %}"
			if h[3] == 't' {
				end = "{% endtablerow %}"
			}
			for _, b := range bodies {
				for _, ps := range pushes {
					render := func(src string) string {
						return guard(func() string {
							out, err := engine().ParseAndRenderString(src, liquid.Bindings{"m": m})
							if err != nil {
								return "err " + err.Error()
							}
							return "ok " + out
						})
					}
					with, without := h+ps+b+end, h+b+end
					got, want := render(with), render(without)
					r.Count("push-family")
					if got != want {
						r.Violate("C11", "loop-values-are-the-engines-own", fmt.Sprint("loops-push ", mi, " ", hexField(with)),
							fmt.Sprintf("with a registered append filter applied to the loop variable: %q; without: %q   source: %q", got, want, with))
					}
				}
			}
		}
	}
}
