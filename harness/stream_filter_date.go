package main

// Times in the `filter` stream: the filter `date` (tuesday.Strftime), {{ t }} / fmt.Sprint / Convert-to-string of a
// time.Time, and values.ParseDate (model: lean/Liquid/Time.lean, Sprint.lean, Convert.lean, Filters/Date.lean).
//
// A time of the value universe is time.Unix(u, 0).UTC() (codec.go). values.ParseDate parses in time.Local: this
// file pins time.Local to UTC for the whole harness process (and `check` runs it under TZ=UTC), so that a string
// receiver denotes the same instant on every machine.
//
// Cases (op `filter` unless noted):
//   * every conversion character (a-z, A-Z, +, %) on every instant of dateInstants (epoch, negative instants, leap
//     days, year boundaries, 1999-12-31 23:59:59, 2000-02-29, 2038, the years 0 / 1 / 9999 / 10000, midnight and noon,
//     every weekday and month, ISO-week corner years, |u| up to 2^62 and just beyond);
//   * conversion x flag (none - _ 0 ^ # : :: :::) x width (none 1 3 6 12) x modifier (none E) on five instants;
//   * a fixed family of format strings (regexp corner cases: lone %, %%, four colons, flag after colon, E/O as
//     conversion, invalid UTF-8, widths around the model bound and fmt's NOVERB bound) and of receivers (nil, strings of
//     the five all-digit layouts with valid and out-of-range fields, other strings, non-time values; arity);
//   * random format strings x random instants; random strings of the all-digit shapes;
//   * ops `wobj`, `sprint`, `conv str`, `conv time` on the instants (also inside containers, behind pointers and drops).
//
// Oracle on the REAL result, independent of the model:
//   * no panic (C01);
//   * `%Y-%m-%d %H:%M:%S` (years 0..9999) parses back with time.Parse to the same instant; so do {{ t }} and
//     fmt.Sprint(t) with their layouts;
//   * `%s` is the decimal unix time; `%%` is `%`; `%j` in 1..366, `%m` 1..12, `%d` 1..31, `%H` 0..23, `%M`/`%S` 0..59,
//     `%u` 1..7, `%w` 0..6, `%V` 1..53, `%U`/`%W` 0..53, `%I` 1..12;
//   * a string receiver of one of the all-digit shapes denotes the instant time.Date computes from its fields when
//     they are in range (checked by normalisation), and is a TypeError otherwise.

import (
	"fmt"
	"regexp"
	"strconv"
	"strings"
	"time"
)

func init() {
	time.Local = time.UTC
}

const dateFilterName = "date"

// dateInstants: the fixed universe of unix times.
func dateInstants() []int64 {
	out := []int64{0, 1, -1, 5, -5, 9, 10, -9, -10, 59, 60, 3599, 3600, 43199, 43200, 43201, 46800, 86399, 86400, -86400, -86401,
		946684799, 946684800, // 1999-12-31 23:59:59, 2000-01-01
		951782400, 951868799, 951868800, // 2000-02-29, its last second, 2000-03-01
		2147483647, 2147483648, 4294967295, 4294967296, // 2038, 2106
		253402300799, 253402300800, // 9999-12-31 23:59:59, 10000-01-01
		-62135596800, -62135596801, -62167219200, -62167219201, // 0001-01-01, 0000-12-31, 0000-01-01, -0001-12-31
		1577934245, 1437145445, 1 << 40, -(1 << 40), 1 << 55, -(1 << 55), 1<<62 - 1, 1 << 62, -(1 << 62), 1<<62 + 1, -(1 << 62) - 1,
		9223372036, 9223372037, -9223372036, -9223372037, // UnixNano wraps from here on
	}
	d := func(y int, m time.Month, day, h, mi, s int) int64 {
		return time.Date(y, m, day, h, mi, s, 0, time.UTC).Unix()
	}
	// every weekday (a week in June 2021), every month (the 15th at noon and at midnight, 2021 and the leap year 2024)
	for i := 0; i < 7; i++ {
		out = append(out, d(2021, 6, 13+i, 0, 0, 0), d(2021, 6, 13+i, 23, 59, 59))
	}
	for m := time.January; m <= time.December; m++ {
		out = append(out, d(2021, m, 15, 12, 0, 0), d(2024, m, 15, 0, 0, 0), d(2023, m, 1, 1, 2, 3), d(2024, m+1, 0, 13, 14, 15)) // m+1, 0: last day of the month
	}
	// leap-year rule: 1900 and 2100 are not leap years, 1600 / 2000 / 2400 are; day 366
	for _, y := range []int{1600, 1900, 2000, 2004, 2020, 2023, 2024, 2100, 2400, 4, 0, -4, -100, -400, -401, 9996} {
		out = append(out, d(y, 2, 28, 23, 59, 59), d(y, 3, 1, 0, 0, 0), d(y, 12, 31, 12, 0, 0), d(y, 1, 1, 0, 0, 0))
	}
	// ISO week corners: Jan 1 on each weekday, Dec 31 in week 1 / 52 / 53
	for _, y := range []int{2015, 2016, 2017, 2018, 2019, 2020, 2021, 2022, 2026, 2032} {
		out = append(out, d(y, 1, 1, 0, 0, 0), d(y, 1, 3, 0, 0, 0), d(y, 1, 4, 0, 0, 0), d(y, 12, 28, 0, 0, 0), d(y, 12, 29, 0, 0, 0), d(y, 12, 31, 23, 59, 59))
	}
	// 12-hour clock
	for _, h := range []int{0, 1, 11, 12, 13, 23} {
		out = append(out, d(2022, 2, 2, h, 30, 0))
	}
	return out
}

func dateConvChars() []string {
	var out []string
	for c := 'a'; c <= 'z'; c++ {
		out = append(out, string(c))
	}
	for c := 'A'; c <= 'Z'; c++ {
		out = append(out, string(c))
	}
	return append(out, "+", "%")
}

var dateFlags = []string{"", "-", "_", "0", "^", "#", ":", "::", ":::"}

var dateFormatFamily = []string{
	"%Y-%m-%d %H:%M:%S", "%a, %b %d, %y", "%F %T", "%c", "%+", "%D %r", "%x %X", "%v", "%A, %B %e, %Y", "%I:%M %p", "%l:%M%P", "%k|%e|%j", "%y%m%d", "%d/%m/%Y",
	"%G-W%V-%u", "%Y week %U / %W day %w", "%s", "%Q", "%s.%L %N", "%z %:z %::z %:::z %Z", "%C%y", "%h", "%n%t%%", "plain", "", "%", "%%", "%%%", "%%%%", "100%", "% d", "%5", "%05", "%-", "%:", "%E", "%O", "%EY",
	"%Ey", "%Od", "%OE", "%EO", "%EE", "%E%", "%OO", "%0E5", "%E5d", "%5Ed", "%::::z", "%:::::z", "%-:z", "%0:z", "%:0z", "%:5z", "%::12z", "%:-z", "%_:z", "%^:z", "%#z", "%-^a", "%^-a", "%^#a", "%--d", "%-_d", "%0-d",
	"%00d", "%000d", "%01d", "%010d", "%0010d", "%-010d", "%_010d", "%^010d", "%#010d", "%:10d", "%10%", "%-%", "%5n", "%^n", "%#t", "%é", "%\xffd", "\xff%d\xfe", "é%Yé", "%d%", "%d%%d", "%%d", "%%%d",
	"%1Y", "%3Y", "%4Y", "%5Y", "%_5Y", "%-5Y", "%05Y", "%_Y", "%-Y", "%^Y", "%10s", "%_10s", "%-s", "%_s", "%1s", "%20Q", "%-Q", "%3N", "%9N", "%10N", "%12N", "%0N", "%00N", "%-N", "%_N", "%^N", "%-3N", "%_3N", "%03N", "%:3N",
	"%3L", "%-L", "%_L", "%6L", "%f", "%6f", "%i", "%J", "%K", "%o", "%q", "%E1q", "%^q", "%#q", "%#Q", "%#p", "%#P", "%^P", "%^p", "%#Z", "%^Z", "%#a", "%#A", "%#b", "%#B", "%#h", "%^c", "%#c", "%#+", "%^+", "%#x", "%#v", "%^v", "%#r",
	"%^r", "%#%", "%3a", "%10A", "%-10B", "%010b", "%_3u", "%3u", "%03u", "%0u", "%-u", "%_u", "%03w", "%3w", "%0w", "%3e", "%03e", "%0e", "%-e", "%_e", "%03k", "%0l", "%-l", "%-I", "%_I", "%_3I", "%-m", "%_m", "%_3m", "%-d", "%_d",
	"%-j", "%_j", "%_5j", "%1j", "%-H", "%_H", "%-M", "%-S", "%_S", "%-y", "%_y", "%3y", "%-C", "%_C", "%4C", "%-G", "%_G", "%6G", "%-g", "%_g", "%3g", "%-V", "%_V", "%-U", "%_U", "%-W", "%_W",
	"%1024d", "%1025d", "%2000d", "%-2000d", "%1024N", "%1025N", "%2000A", "%10000009%", "%10000010d", "%99999999d", "%99999999999999999999d", "%099999999999999999999d", "%-99999999999999999999d", "%99999999999999999999N",
	"%99999999999999999999A", "%0000000000000000000000005d", "%18446744073709551621d", "%9223372036854775808Y",
	"%Y%Y%Y%Y%Y%Y%Y%Y%Y%Y%Y%Y", strings.Repeat("%a %d ", 40), strings.Repeat("%", 33), strings.Repeat("%-", 9) + "d",
}

// dateExpect: what the oracle knows about a `date` call: the instant of the receiver and the format.
type dateExpect struct {
	u      int64
	hasU   bool // the receiver denotes the instant u
	reject bool // a string receiver of an all-digit shape with a field out of range: TypeError
	format string
	hasFmt bool
}

var (
	reShapeA = regexp.MustCompile(`^(\d{4})-(\d{2})-(\d{2})$`)
	reShapeB = regexp.MustCompile(`^(\d{4})-(\d{2})-(\d{2}) (\d{2}):(\d{2}):(\d{2})$`)
	reShapeC = regexp.MustCompile(`^(\d{4})-(\d{2})-(\d{2})T(\d{2}):(\d{2}):(\d{2})Z$`)
	reShapeD = regexp.MustCompile(`^(\d{4})-(\d{2})-(\d{2}) (\d{2}):(\d{2})$`)
	reShapeE = regexp.MustCompile(`^(\d{4})(\d{2})(\d{2})T(\d{2})(\d{2})(\d{2})Z$`)
)

// digitShapeInstant: the instant a string of one of the five all-digit shapes denotes in UTC. known=false: another shape.
// valid=false: a field is out of range (time.Date normalises such fields, so the date does not read back).
func digitShapeInstant(s string) (u int64, valid, known bool) {
	var m []string
	for _, re := range []*regexp.Regexp{reShapeA, reShapeB, reShapeC, reShapeD, reShapeE} {
		if m = re.FindStringSubmatch(s); m != nil {
			break
		}
	}
	if m == nil {
		return 0, false, false
	}
	f := make([]int, 6)
	for i := 1; i < len(m); i++ {
		f[i-1], _ = strconv.Atoi(m[i])
	}
	t := time.Date(f[0], time.Month(f[1]), f[2], f[3], f[4], f[5], 0, time.UTC)
	ok := t.Year() == f[0] && int(t.Month()) == f[1] && t.Day() == f[2] && t.Hour() == f[3] && t.Minute() == f[4] && t.Second() == f[5]
	return t.Unix(), ok, true
}

func dateExpectation(recv *V, args []*V) dateExpect {
	var e dateExpect
	v := jsonTop(recv) // drops resolved, pointers followed: what the evaluator hands to the filter (a pointer to a time stays a pointer)
	switch {
	case recv.Kind == 'U':
		e.u, e.hasU = recv.A, true
	case v.Kind == 'n' || v.Kind == 'N':
		if recv.Kind == 'n' {
			e.u, e.hasU = -62135596800, true // the zero time.Time
		}
	case recv.Kind == 's':
		u, valid, known := digitShapeInstant(recv.S)
		if known {
			e.u, e.hasU, e.reject = u, valid, !valid
		}
	}
	switch {
	case len(args) == 0:
		e.format, e.hasFmt = "%a, %b %d, %y", true
	case len(args) == 1 && args[0].Kind == 's':
		e.format, e.hasFmt = args[0].S, true
	}
	return e
}

var dateRangeDirectives = map[string][2]int{"%j": {1, 366}, "%m": {1, 12}, "%d": {1, 31}, "%H": {0, 23}, "%M": {0, 59}, "%S": {0, 59}, "%u": {1, 7}, "%w": {0, 6},
	"%V": {1, 53}, "%U": {0, 53}, "%W": {0, 53}, "%I": {1, 12}, "%-j": {1, 366}, "%e": {1, 31}, "%k": {0, 23}, "%l": {1, 12}}

// dateOracle checks the text a `date` call returned against what the receiver and the format determine.
func dateOracle(r *Run, prop, line string, e dateExpect, text string) {
	if !e.hasU || !e.hasFmt {
		return
	}
	t := time.Unix(e.u, 0).UTC()
	bad := func(clause, detail string) { r.Violate(prop, clause, line, detail) }
	switch e.format {
	case "%Y-%m-%d %H:%M:%S", "%F %T":
		if t.Year() >= 0 && t.Year() <= 9999 {
			r.Count("date-oracle=parse-back")
			p, err := time.Parse("2006-01-02 15:04:05", text)
			if err != nil || p.Unix() != e.u {
				bad("date-does-not-parse-back", fmt.Sprintf("%q printed %q for the instant %d: %v", e.format, text, e.u, err))
			}
		}
	case "%s":
		r.Count("date-oracle=unix")
		if n, err := strconv.ParseInt(text, 10, 64); err != nil || n != e.u {
			bad("date-%s-is-not-the-unix-time", fmt.Sprintf("%%s printed %q for the instant %d", text, e.u))
		}
	case "%%":
		if text != "%" {
			bad("date-%%-is-not-a-percent-sign", fmt.Sprintf("printed %q", text))
		}
	case "%a, %b %d, %y":
		if t.Year() >= 0 && t.Year() <= 9999 {
			r.Count("date-oracle=default-format")
			if want := t.Format("Mon, Jan 02, 06"); text != want {
				bad("date-default-format", fmt.Sprintf("printed %q, time.Format gives %q", text, want))
			}
		}
	default:
		if rg, ok := dateRangeDirectives[e.format]; ok {
			r.Count("date-oracle=range")
			n, err := strconv.Atoi(strings.TrimSpace(text))
			if err != nil || n < rg[0] || n > rg[1] {
				bad("date-field-out-of-range", fmt.Sprintf("%q printed %q for the instant %d", e.format, text, e.u))
			}
		}
	}
}

// dateFilterCase: one `filter` case of `date` on the real code, with the oracle; the result line is the one filterCase gives.
func dateFilterCase(r *Run, line string, recv *V, args []*V) string {
	prop := propUnderCheck("C17")
	out, err, panicked := filterEval(dateFilterName, recv, args)
	e := dateExpectation(recv, args)
	switch {
	case panicked:
		r.Violate("C01", "panic", line, lastPanic)
		return "panic"
	case err != nil:
		kind := filterCauseKind(err)
		if e.hasU && e.hasFmt { // a time (or a well-formed date string) and a format string: nothing can fail
			r.Violate(prop, "date-fails-on-a-time", line, fmt.Sprintf("error %v", err))
		}
		return "err " + kind
	}
	res := guard(func() string { return "ok " + Reify(out).Enc() })
	text, isText := out.(string)
	if !isText {
		r.Violate(prop, "date-result-not-text", line, fmt.Sprintf("date returned a %T", out))
		return res
	}
	if e.reject {
		r.Violate(prop, "date-accepts-an-impossible-date", line, fmt.Sprintf("%q was formatted as %q", recv.S, short(text, 200)))
	}
	dateOracle(r, prop, line, e, text)
	return res
}

// timePrintCase: ops wobj / sprint / conv str on a time (or a container of times), with the parse-back oracle when the value is
// a bare time with a four-digit year.
func timePrintCase(r *Run, op, ty string, v *V) (line, res string) {
	prop := propUnderCheck("C17")
	var layout string
	switch op {
	case "wobj":
		line, res, layout = "wobj "+v.Enc(), wobjCase(v), "2006-01-02 15:04:05 -0700"
	case "sprint":
		line, res, layout = "sprint "+v.Enc(), sprintCase(v), "2006-01-02 15:04:05 -0700 MST"
	default:
		line, res, layout = "conv "+ty+" "+v.Enc(), convCase(ty, v), "2006-01-02 15:04:05 -0700 MST"
	}
	if res == "panic" {
		r.Violate("C01", "panic", line, lastPanic)
	}
	if v.Kind == 'U' && strings.HasPrefix(res, "ok ") && (op != "conv" || ty == "str") {
		t := time.Unix(v.A, 0).UTC()
		if t.Year() >= 0 && t.Year() <= 9999 {
			var text string
			if op == "conv" {
				text = ParseV(res[3:]).S
			} else {
				text = unhexField(res[3:])
			}
			r.Count("time-oracle=parse-back")
			if p, err := time.Parse(layout, text); err != nil || p.Unix() != v.A {
				r.Violate(prop, "time-text-does-not-parse-back", line, fmt.Sprintf("printed %q for the instant %d: %v", text, v.A, err))
			}
		}
	}
	return
}

func randomInstant(g *RNG) int64 {
	switch k := g.Intn(20); {
	case k < 7:
		return int64(g.U64()%(1<<33+1<<31)) - 1<<31
	case k < 10:
		return (int64(g.Intn(60001))-25000)*86400 + int64(g.Intn(5)-2)
	case k < 13:
		return -62167219200 + int64(g.U64()%(253402300800+62167219200))
	case k < 15:
		y := g.Intn(12000) - 1000
		return time.Date(y, 1, 1, 0, 0, 0, 0, time.UTC).Unix() - int64(g.Intn(2))
	case k < 17:
		y, m := g.Intn(600)+1700, time.Month(g.Intn(12)+1)
		return time.Date(y, m+1, 0, 23, 59, 59, 0, time.UTC).Unix() + int64(g.Intn(2)) // end of a month
	case k < 19:
		sh := uint(33 + g.Intn(30))
		u := int64(g.U64() >> (64 - sh))
		if g.Bool() {
			u = -u
		}
		return u
	default:
		u := int64(1<<62) + int64(g.Intn(1000)) - 500
		if g.Bool() {
			u = -u
		}
		return u
	}
}

func randomDateFormat(g *RNG) string {
	conv := dateConvChars()
	var sb strings.Builder
	for n := 1 + g.Intn(4); n > 0; n-- {
		switch k := g.Intn(10); {
		case k < 6:
			sb.WriteString("%")
			if g.Chance(45) {
				sb.WriteString(g.Pick([]string{"-", "_", "0", "^", "#", ":", "::", ":::", "::::", "-0", "0-", "^#", "_-"}))
			}
			if g.Chance(35) {
				sb.WriteString(g.Pick([]string{"1", "2", "3", "4", "5", "9", "10", "12", "0", "00", "010", "07", "33", "100", "1024", "1025", "99999999999999999999"}))
			}
			if g.Chance(15) {
				sb.WriteString(g.Pick([]string{"E", "O", "EO", "OE"}))
			}
			sb.WriteString(conv[g.Intn(len(conv))])
		case k < 8:
			sb.WriteString(g.Pick([]string{" ", "-", "/", ":", ", ", "T", "Z", "at ", "é", "\xff", "%", "%%", "% ", "100%", "\n", "x"}))
		default:
			for m := g.Intn(4); m >= 0; m-- {
				const junk = "%%%-_^#0:123456789EOadYmsNz +nt.\xc3"
				sb.WriteByte(junk[g.Intn(len(junk))])
			}
		}
	}
	return sb.String()
}

// randomDigitDate: a string of one of the five all-digit shapes, mostly in range.
func randomDigitDate(g *RNG) string {
	y, mo, d, h, mi, s := g.Intn(10000), g.Intn(12)+1, g.Intn(28)+1, g.Intn(24), g.Intn(60), g.Intn(60)
	if g.Chance(30) {
		y = []int{0, 1, 4, 100, 400, 1900, 1970, 2000, 2024, 2100, 9999}[g.Intn(11)]
	}
	if g.Chance(35) {
		d = 27 + g.Intn(6)
	}
	if g.Chance(10) {
		mo = g.Intn(15)
	}
	if g.Chance(10) {
		switch g.Intn(4) {
		case 0:
			h = 24 + g.Intn(3)
		case 1:
			mi = 60 + g.Intn(3)
		case 2:
			s = 60 + g.Intn(3)
		default:
			d = 0
		}
	}
	switch g.Intn(5) {
	case 0:
		return fmt.Sprintf("%04d-%02d-%02d", y, mo, d)
	case 1:
		return fmt.Sprintf("%04d-%02d-%02d %02d:%02d:%02d", y, mo, d, h, mi, s)
	case 2:
		return fmt.Sprintf("%04d-%02d-%02dT%02d:%02d:%02dZ", y, mo, d, h, mi, s)
	case 3:
		return fmt.Sprintf("%04d-%02d-%02d %02d:%02d", y, mo, d, h, mi)
	default:
		return fmt.Sprintf("%04d%02d%02dT%02d%02d%02dZ", y, mo, d, h, mi, s)
	}
}

var dateStringFamily = []string{
	"2020-01-02", "2020-02-29", "2021-02-29", "1900-02-29", "2000-02-29", "0000-02-29", "0000-01-01", "9999-12-31", "2020-00-10", "2020-13-10", "2020-01-00", "2020-01-32", "2020-04-31", "2020-12-31",
	"2020-01-02 03:04:05", "2020-01-02 00:00:00", "2020-01-02 23:59:59", "2020-01-02 24:00:00", "2020-01-02 23:60:00", "2020-01-02 23:59:60", "9999-12-31 23:59:59", "0000-01-01 00:00:00", "1969-12-31 23:59:59",
	"2020-01-02T03:04:05Z", "2020-02-30T03:04:05Z", "2020-01-02T24:04:05Z", "1970-01-01T00:00:00Z", "0000-01-01T00:00:00Z", "9999-12-31T23:59:59Z",
	"2020-01-02 03:04", "2020-01-02 24:04", "2020-01-02 03:60", "2021-02-29 03:04",
	"20200102T030405Z", "20200230T030405Z", "20200102T240405Z", "20200102T036005Z", "20200102T030460Z", "00000101T000000Z", "99991231T235959Z",
	// near misses: other shapes (outside the model)
	"2020-1-02", "2020-01-2", "20-01-02", "02020-01-02", "2020-01-02 ", " 2020-01-02", "2020-01-02 3:04:05", "2020-01-02 03:4:05", "2020-01-02 03:04:5", "2020-01-02T03:04:05", "2020-01-02T03:04:05z", "2020-01-02t03:04:05Z",
	"2020-01-02T03:04:05.5Z", "2020-01-02 03:04:05.5", "2020-01-02 03:04:05,5", "2020-01-02T03:04:05+00:00", "2020-01-02T03:04:05+05:30", "2020-01-02T03:04:05-07:00", "2020-01-02 03:04:05 +0000", "2020-01-02 03:04:05 -07:00",
	"2020-01-02 03:04:05 UTC", "2020-01-02 03:04:05 MST", "2020/01/02", "2020-01-02-03", "x020-01-02", "202a-01-02", "2020-01-0x", "2020-01-02 03:04:0x", "20200102T030405", "20200102t030405Z", "2020010T2030405Z", "٢٠٢٠-٠١-٠٢",
	"March 14, 2016", "Mar 14, 2016", "14 March 2016", "14 Mar 2016", "March 14 2016", "Mon, 02 Jan 2006 15:04:05 -0700", "Mon Jan  2 15:04:05 2006", "Mon Jan 2 15:04:05 UTC 2006", "02 Jan 06 15:04 UTC",
	"Monday, 02-Jan-06 15:04:05 UTC", "Mon, 02 Jan 2006 15:04:05 UTC", "not a date", "", " ", "0", "12", "today", "Now", "NOW",
}

type tmplCase struct {
	src string
	env map[string]*V
}

// dateTemplateFamily: whole templates about times, for the `render` and `robust` streams.
func dateTemplateFamily() []tmplCase {
	var out []tmplCase
	ts := []int64{0, -1, 951782400, 946684799, 2147483648, 253402300799, 253402300800, -62135596800, -62167219201, 1577934245, 1 << 40, -(1 << 40)}
	srcs := []string{
		"{{ t }}", "[{{ t }}]{{ t | date: \"%Y\" }}", "{{ t | date }}", "{{ t | date: \"%Y-%m-%d %H:%M:%S\" }}", "{{ t | date: \"%a, %b %d, %y\" }}", "{{ t | date: \"%s\" | plus: 1 }}",
		"{{ t | date: \"%A %-d %B %Y, week %V, day %j\" }}", "{{ t | date: f }}", "{{ t | date: \"%H\" | times: 2 }}|{{ t | date: \"%^a %#p %10N%%\" }}", "{{ t | date: nil }}", "{{ t | date: 5 }}",
		"{% assign d = t | date: \"%F\" %}{{ d }} {{ d | date: \"%b %d\" }} {{ d | size }}", "{% assign a = t | date: \"%s\" %}{% assign b = a | date: \"%s\" %}[{{ b }}]",
		"{% if t %}T{% endif %}{{ t | append: \"!\" }}|{{ t | size }}|{{ t | upcase }}", "{% capture c %}{{ t }}{% endcapture %}{{ c | date: \"%Y\" }}|{{ c | size }}",
		"{{ ts | join: \", \" }}|{{ ts | first }}|{{ ts | map: \"x\" | join }}|{{ ts }}", "{% for x in ts %}{{ x | date: \"%j\" }};{% endfor %}", "{{ m }}|{{ m.t }}|{{ m.t | date: \"%y\" }}|{{ p }}|{{ p | date: \"%Y\" }}",
		"{{ t | date: \"%Y\", 1 }}", "{{ t | date: \"%5\" }}{{ t | date: \"%\" }}{{ t | date: \"%::::z%:::z\" }}",
	}
	for _, u := range ts {
		t := VTime(u)
		for _, s := range srcs {
			out = append(out, tmplCase{s, map[string]*V{"t": t, "f": VStr("%e.%-m.%y %l%P"), "ts": VAnys(t, VTime(0), VNil(), VTime(86400*59)), "m": VStrMap(SKV("t", t)), "p": VPtr(t)}})
		}
	}
	for _, s := range []string{"2020-01-02", "2020-02-30", "2020-01-02 03:04:05", "2006-01-02T15:04:05Z", "2020-01-02 03:04", "20200102T030405Z", "0000-01-01", "9999-12-31 23:59:59", "March 14, 2016", "not a date", ""} {
		for _, f := range []string{"%b %d", "%Y-%m-%d %H:%M:%S", "%s", "%a, %b %d, %y"} {
			out = append(out, tmplCase{"{{ \"" + s + "\" | date: \"" + f + "\" }}", map[string]*V{}})
		}
		out = append(out, tmplCase{"{{ s | date }}|{{ s | date: \"%A\" | downcase }}", map[string]*V{"s": VStr(s)}})
	}
	out = append(out, tmplCase{"{{ nil | date: \"%Y-%m-%d\" }}|{{ x | date }}|{{ 5 | date }}|", map[string]*V{}},
		tmplCase{"{{ 1.5 | date }}", map[string]*V{}}, tmplCase{"{{ true | date: \"%Y\" }}", map[string]*V{}}, tmplCase{"{{ a | date: \"%Y\" }}", map[string]*V{"a": VAnys(VTime(0))}})
	return out
}

// dateFilterCases enumerates the time cases of the `filter` stream.
func dateFilterCases(r *Run, g *RNG) {
	emit := func(fam string, recv *V, args ...*V) {
		if !r.Mine() {
			return
		}
		line := filterCaseLine(dateFilterName, recv, args)
		res := dateFilterCase(r, line, recv, args)
		r.Count("filter=" + dateFilterName)
		r.Count("date-family=" + fam)
		r.Count("nargs=" + fmt.Sprint(len(args)))
		r.Count("result=" + strings.SplitN(res, " ", 2)[0])
		if strings.HasPrefix(res, "err ") {
			r.Count(res)
		}
		if strings.HasPrefix(res, "ok") {
			r.Nontrivial(line)
		}
		r.Emit(line, res)
	}
	prints := func(fam string, v *V) {
		for _, op := range []string{"wobj", "sprint", "conv"} {
			if !r.Mine() {
				continue
			}
			line, res := timePrintCase(r, op, "str", v)
			r.Count("op=" + op)
			r.Count("date-family=" + fam)
			r.Count("result=" + strings.SplitN(res, " ", 2)[0])
			if strings.HasPrefix(res, "ok") {
				r.Nontrivial(line)
			}
			r.Emit(line, res)
		}
	}
	convTime := func(fam string, v *V) {
		if !r.Mine() {
			return
		}
		line, res := "conv time "+v.Enc(), convCase("time", v)
		if res == "panic" {
			r.Violate("C01", "panic", line, lastPanic)
		}
		if v.Kind == 's' {
			u, valid, known := digitShapeInstant(v.S)
			switch {
			case known && valid && res != "ok "+VTime(u).Enc():
				r.Violate(propUnderCheck("C17"), "parsedate-instant", line, fmt.Sprintf("%q converts to %s, its fields denote the instant %d", v.S, res, u))
			case known && !valid && res != "err typeErr":
				r.Violate(propUnderCheck("C17"), "parsedate-accepts-an-impossible-date", line, fmt.Sprintf("%q converts to %s", v.S, res))
			}
		}
		r.Count("op=conv-time")
		r.Count("date-family=" + fam)
		r.Count("result=" + strings.SplitN(res, " ", 2)[0])
		r.Emit(line, res)
	}
	instants := dateInstants()
	convs := dateConvChars()
	// every conversion on every instant
	for _, u := range instants {
		emit("default-format", VTime(u))
		for _, c := range convs {
			emit("conv-x-instant", VTime(u), VStr("%"+c))
		}
		prints("instant", VTime(u))
	}
	// conversion x flag x width x modifier
	five := []int64{1577934245, -62167219201, 253402300800, 951782400 + 12*3600, 1624147199} // 2021-06-19 23:59:59, a Saturday
	for _, c := range convs {
		for _, fl := range dateFlags {
			for _, w := range []string{"", "1", "3", "6", "12"} {
				for _, eo := range []string{"", "E"} {
					for _, u := range five {
						emit("conv-x-flag-x-width", VTime(u), VStr("%"+fl+w+eo+c))
					}
				}
			}
		}
	}
	// format family
	for _, f := range dateFormatFamily {
		for _, u := range []int64{0, 5, -5, 1577934245, 951782400, -62167219201, 253402300800, 1 << 55} {
			emit("format-family", VTime(u), VStr(f))
		}
	}
	// receivers
	for _, s := range dateStringFamily {
		emit("string-receiver", VStr(s))
		emit("string-receiver", VStr(s), VStr("%s"))
		emit("string-receiver", VStr(s), VStr("%Y-%m-%d %H:%M:%S"))
		emit("string-receiver", VStr(s), VStr("%c %Z %z"))
		convTime("string-receiver", VStr(s))
	}
	// how a value can begin: the first field of every layout (weekday or month name in any case, two-digit day and a blank,
	// four-digit year and `-` or a digit) and the near misses, each continued in several ways
	for _, a := range []string{"", "M", "Mo", "Mon", "mon", "MON", "mOn", "Mom", "Mo\x6e", "Monday", "monday,", "Sun", "Tue", "Wed", "Thu", "Fri", "Sat", "Sa", "Sax", "Jan", "jan", "JAN", "January", "Feb", "Mar", "March", "Apr", "May", "may",
		"Jun", "Jul", "Aug", "Sep", "Sept", "Oct", "Nov", "Dec", "dec", "Dez", "\x4dan", "m\xefn", "-an", "Now", "now", "no", "nov", "1", "1 ", "12", "12 ", "12x", "1x", "1 J", "02 Jan", "123", "123 ", "1234", "1234-", "1234x", "12345", "1234 ", "123-", "12-4",
		"2020", "2020-", "20200", "2020T", "+020-01-02", "-020-01-02", " 2020", "x2020-01-02", "０1", "٢٠", "\xff", "\x00", "T", "Z", "é"} {
		for _, b := range []string{"", " ", " 2, 2006", " 2 2006", " 02 Jan 2006 15:04:05 -0700", ", 02 Jan 2006 15:04:05 UTC", " Jan  2 15:04:05 2006", " 2006", " January 2006", "uary 2, 2006", "-01-02", "01-02", "0102T030405Z"} {
			recv := VStr(a + b)
			emit("layout-start", recv, VStr("%s"))
			convTime("layout-start", recv)
		}
	}
	t0 := VTime(1577934245)
	for _, recv := range append(fullUniverse(), VNil(), t0, VPtr(t0), VDrop(t0), VDrop(VDrop(t0)), VPtr(VDrop(t0)), VAnys(t0), VStrMap(SKV("t", t0)), VBytes("2020-01-02"), VDrop(VStr("2020-01-02")), VPtr(VStr("2020-01-02")),
		VStruct(Field{"t", t0}), VMapSlice(KV(t0, t0)), VKeyed(Field{"t", t0}), VAnys(VDrop(t0)), VAnys(VPtr(t0)), VStrMap(SKV("d", VDrop(VAnys(t0)))), VArr(TAny, t0, VNil())) {
		emit("receiver", recv)
		emit("receiver", recv, VStr("%Y"))
		convTime("receiver", recv)
		prints("receiver", recv)
	}
	// the format argument: any value (converted to a string lazily), arity
	for _, a := range append(smallArgUniverse(), VStr("%Y"), VBytes("%m"), t0, VAnys(VStr("%d")), VDrop(VStr("%H")), VPtr(VStr("%M")), VRange(1, 2), VFlt(1, 1e6), VStrMap(SKV("%S", VInt(0, 1)))) {
		emit("format-arg", t0, a)
		emit("format-arg", VStr("x"), a) // receiver conversion fails first
	}
	emit("arity", t0, VStr("%Y"), VInt(0, 1))
	emit("arity", VStr("x"), VStr("%Y"), VInt(0, 1))
	emit("arity", t0, VStr("%Y"), VStr("%m"), VStr("%d"))
	// random
	n := 6000
	if r.Tier == "thorough" {
		n = 120000
	}
	for k := 0; k < n; k++ {
		u := randomInstant(g)
		switch x := g.Intn(20); {
		case x < 11:
			emit("random-format", VTime(u), VStr(randomDateFormat(g)))
		case x < 13:
			emit("random-oracle-format", VTime(u), VStr(g.Pick([]string{"%Y-%m-%d %H:%M:%S", "%s", "%F %T", "%j", "%V", "%U", "%W", "%u", "%w", "%I", "%a, %b %d, %y", "%%"})))
		case x < 14:
			emit("random-default", VTime(u))
		case x < 16:
			s := randomDigitDate(g)
			emit("random-digit-string", VStr(s), VStr(g.Pick([]string{"%s", "%Y-%m-%d %H:%M:%S", "%c", "%a, %b %d, %y"})))
			convTime("random-digit-string", VStr(s))
		case x < 17:
			s := randomDigitDate(g)
			b := []byte(s)
			b[g.Intn(len(b))] = "0123456789-: TZx/"[g.Intn(17)] // one character changed: usually another shape
			emit("random-near-digit-string", VStr(string(b)), VStr("%s"))
			convTime("random-near-digit-string", VStr(string(b)))
		case x < 19:
			prints("random-instant", VTime(u))
		default:
			v := []*V{VAnys(VTime(u), VNil(), VTime(0)), VStrMap(SKV("t", VTime(u))), VPtr(VTime(u)), VStruct(Field{"t", VTime(u)}), VAnys(VDrop(VTime(u))), VMapSlice(SKV("t", VTime(u))),
				VStrMap(SKV("d", VDrop(VTime(u)))), VArr(TAny, VTime(u)), VKeyed(Field{"t", VTime(u)}), VAnys(VPtr(VTime(u)))}[g.Intn(10)]
			prints("random-container", v)
		}
	}
}
