package main

import (
	"math"
	"math/big"
)

// Boundary-value universe (DESIGN 5.2 `val`): the scalars.
func scalarUniverse() []*V {
	out := []*V{VNil(), VBool(true), VBool(false)}
	for _, n := range []int64{0, 1, -1, 2, 7, -12, 1 << 53, (1 << 53) + 1, -(1 << 53) - 1, math.MaxInt64, math.MinInt64} {
		out = append(out, VInt(0, n), VInt(4, n))
	}
	out = append(out, VInt(1, 127), VInt(1, -128), VInt(2, 300), VInt(3, -70000), VInt(6, 1), VInt(6, 255), VInt(7, 65535),
		VInt(8, 1), VInt(5, 2), VBig(9, new(big.Int).SetUint64(math.MaxUint64)), VInt(9, 1), VInt(5, 0))
	for _, f := range []float64{0, 0.5, -0.5, 1, 1.5, -1, 2.25, 1e15, 1 << 53, 0.1, 100, 3.75, -2.5} {
		out = append(out, VFlt(1, f))
	}
	out = append(out, VFlt(0, 0.5), VFlt(0, 1), VFlt(0, -2))
	for _, s := range []string{"", "a", "b", "ab", "B", "é", "😀", "10", "9", "1.5", " 1", "-1", "x y", "a,b", "<&>", "\n", " a ", "\xff"} {
		out = append(out, VStr(s))
	}
	return out
}

// containerUniverse: arrays, maps and representation variants.
func containerUniverse() []*V {
	i := func(n int64) *V { return VInt(0, n) }
	s := VStr
	return []*V{
		VAnys(), VAnys(i(1)), VAnys(i(1), i(2)), VAnys(VAnys(i(1))), VAnys(VNil()), VAnys(s("a"), s("b")), VAnys(i(2), i(1), VFlt(1, 1.5)),
		VAnys(i(1), s("a"), VNil()),
		VSlice(TInt(0), i(1)), VSlice(TInt(0), i(1), i(2)), VSlice(TStr, s("a")), VSlice(TStr, s("b"), s("a")), VArr(TStr, s("a"), s("b")),
		VSlice(TInt(7), VInt(7, 1)), VSlice(TFlt(1), VFlt(1, 1)), // NB: []uint8 is []byte in Go, so it is written VBytes
		VStrMap(), VStrMap(SKV("a", i(1))), VStrMap(SKV("a", i(2))), VStrMap(SKV("a", i(1)), SKV("b", i(2))), VStrMap(SKV("size", i(9))),
		VMap(TInt(0), TAny, KV(i(1), s("x"))), VMap(TStr, TInt(0), SKV("a", i(1))),
		VMapSlice(SKV("a", i(1)), SKV("b", i(2))), VMapSlice(),
		VKeyed(Field{"k1", i(1)}, Field{"k2", i(2)}),
		VRange(1, 3), VRange(3, 1), VRange(0, 0),
		VDrop(i(1)), VDrop(s("a")), VDrop(VAnys(i(1), i(2))), VDrop(VNil()), VDrop(VStrMap(SKV("a", i(1)))),
		VAnys(VDrop(i(1)), VDrop(s("a"))),
		VPtr(i(1)), VPtr(s("a")), VNilPtr(), VBytes("ab"), VBytes(""), VBytes("\xc3\xa9x"),
		VStruct(Field{"a", i(1)}, Field{"b", s("x")}),
	}
}

func fullUniverse() []*V { return append(scalarUniverse(), containerUniverse()...) }

// randomVal builds a random value tree.
func randomVal(g *RNG, depth int) *V {
	u := scalarUniverse()
	if depth <= 0 || g.Chance(55) {
		return u[g.Intn(len(u))]
	}
	switch g.Intn(7) {
	case 0, 1:
		n := g.Intn(4)
		xs := make([]*V, n)
		for k := range xs {
			xs[k] = randomVal(g, depth-1)
		}
		return VAnys(xs...)
	case 2:
		n := g.Intn(3)
		var kvs [][2]*V
		seen := map[string]bool{}
		for k := 0; k < n; k++ {
			key := g.Pick([]string{"a", "b", "c", "size", "first", "k"})
			if seen[key] {
				continue
			}
			seen[key] = true
			kvs = append(kvs, SKV(key, randomVal(g, depth-1)))
		}
		return VStrMap(kvs...)
	case 3:
		return VDrop(randomVal(g, depth-1))
	case 4:
		cu := containerUniverse()
		return cu[g.Intn(len(cu))]
	case 5:
		n := g.Intn(3)
		var kvs [][2]*V
		for k := 0; k < n; k++ {
			kvs = append(kvs, SKV(g.Pick([]string{"a", "b", "c"}), randomVal(g, depth-1)))
		}
		return VMapSlice(kvs...)
	default:
		return VRange(int64(g.Intn(7)-2), int64(g.Intn(7)-2))
	}
}
