package main

import (
	"fmt"
	"strings"
	"unicode"
)

// Stream `hyphens` (property C13, template level): each whitespace-control hyphen of a generated
// template is independently present or absent. Oracles on the real output:
//   (erasure)     deleting every whitespace character from the outputs with and without the
//                 hyphens gives the same string (hyphens never remove anything but whitespace);
//   (faces-text)  when every hyphen faces literal text, the output equals that of the template
//                 with the hyphens dropped and that adjacent whitespace deleted;
//   (no-hyphens)  a template without hyphens loses nothing (it is the reference of the other two);
//   (value-bytes)  the bytes of a printed value appear unchanged, white space at their edges included, whatever hyphens
//                 stand next to the object (C05; since the repair verbatim-output-not-trimmed): four bindings hold
//                 values with white space at both edges and a core that occurs nowhere else (a string, a []byte, a
//                 drop of a string, an array = two Write calls); about a third of the generated objects print one of
//                 them, and every occurrence of a core in the output must be the whole value, as often as without the
//                 hyphens.
// Captured text is only printed in these templates (DESIGN C13 scope note 1). Every variant is an
// ordinary `render` line, so the model is compared on all of them.

func init() {
	streams["hyphens"] = hyphensStream
	replayers["hyphens"] = replayers["render"]
}

func stripAllSpace(s string) string {
	return strings.Map(func(r rune) rune {
		if unicode.IsSpace(r) {
			return -1
		}
		return r
	}, s)
}

func hyphensStream(r *Run) {
	g := NewRNG(r.Seed, "hyphens")
	env := tokEnv()
	// values with white space at both edges; the core (W1..W4) occurs in no literal text and in no other value
	wsVals := []struct{ name, val, core string }{
		{"wsv", " \tW1\n ", "W1"}, {"wsb", "\n W2  ", "W2"}, {"wsd", "\u00a0 W3\u2003", "W3"}, {"wsa", "  W4\t W4\n", "W4\t W4"},
	}
	env["wsv"], env["wsb"], env["wsd"] = VStr(" \tW1\n "), VBytes("\n W2  "), VDrop(VStr("\u00a0 W3\u2003"))
	env["wsa"] = VAnys(VStr("  W4\t"), VStr(" W4\n"))
	n := 260
	if r.Tier == "thorough" {
		n = 4000
	}
	render := func(items []tItem, kind string) (string, string) {
		src := spell(defaultDelims, items)
		cl := renderCaseLine(engineCfg{}, "", 0, src, env)
		// primers: renders whose capture body / top level end with a right trim still armed; nothing of them may reach the next render
		renderImpl(engineCfg{}, "", 0, "{% capture pa %}x {{ n -}}{% endcapture %}", RealiseEnv(env))
		renderImpl(engineCfg{}, "", 0, "a {% if flag %}b{% endif -%}", RealiseEnv(env))
		res := renderImpl(engineCfg{}, "", 0, src, RealiseEnv(env))
		r.Count("kind=" + kind)
		r.Count("res=" + strings.Fields(res)[0])
		r.Nontrivial(cl)
		r.Emit(cl, res)
		return res, cl
	}
	// a template without hyphens loses nothing, whatever was rendered before it: capture and block bodies that begin and end with
	// white space, and control bytes next to where a hyphen could stand
	for _, c := range [][2]string{{"{% capture b %}  z  {% endcapture %}[{{ b }}]", "[  z  ]"}, {"  \n\ttext\n", "  \n\ttext\n"},
		{"{% if flag %}  y{% endif %}|{% for i in (1..2) %} {{ i }}{% endfor %}", "  y| 1 2"}, {"{% capture c %}\n{{ n }}\n{% endcapture %}{{ c | size }}", "3"}} {
		if !r.Mine() {
			continue
		}
		res, cl := render([]tItem{{Kind: 'x', Text: ""}}, "primer-only") // runs the primers
		_ = res
		got := renderImpl(engineCfg{}, "", 0, c[0], RealiseEnv(env))
		r.Emit(renderCaseLine(engineCfg{}, "", 0, c[0], env), got)
		if got != "ok "+hexField(c[1]) {
			r.Violate("C13", "template-without-hyphens-loses-nothing", cl+" then "+hexField(c[0]), fmt.Sprintf("after renders that ended with a right trim armed, %q renders %s, want %q", c[0], got, c[1]))
		}
	}
	for _, c := range [][2]string{{"a\x00 {{- n }}", "a\x002"}, {"c\x1f{{- n -}}\x1fd", "c\x1f2\x1fd"}, {"{{ n -}}\x0b\x00 z", "2\x00 z"}, {"{% if flag -%}\x1b[0m{%- endif %}", "\x1b[0m"}} {
		if !r.Mine() {
			continue
		}
		got := renderImpl(engineCfg{}, "", 0, c[0], RealiseEnv(env))
		cl := renderCaseLine(engineCfg{}, "", 0, c[0], env)
		r.Emit(cl, got)
		if got != "ok "+hexField(c[1]) {
			r.Violate("C13", "hyphens-remove-only-whitespace", cl, fmt.Sprintf("%q renders %s, want %q (a control byte is not white space)", c[0], got, c[1]))
		}
	}
	// a fixed family: a comment block between two literal texts next to a hyphenated object or tag. The comment leaves
	// nothing behind, yet the texts on its two sides are two texts: the hyphen strips the one it faces and stops there
	// ("a {% comment %}c{% endcomment %} {{- n }}" is "a 2": the blank before the comment is not adjacent to the object).
	{
		texts := []string{" ", "a ", " a", "\n", "a", " \t "}
		tx := func(s string) tItem { return tItem{Kind: 'x', Text: s} }
		tag := func(name, args string) tItem {
			it := tItem{Kind: 't', Name: name, Args: args, WsL: " ", WsR: " "}
			if args != "" {
				it.WsM = " "
			}
			return it
		}
		heads := []tItem{{Kind: 'o', Args: "n", WsL: " ", WsR: " "}, tag("assign", "q = 1"), tag("if", "flag"), tag("endif", "")}
		for _, t1 := range texts {
			for _, t2 := range texts {
				for hi, h := range heads {
					for _, body := range []string{"c", " ", ""} {
						for _, rightSide := range []bool{false, true} {
							if !r.Mine() {
								continue
							}
							mid := []tItem{tx(t1), tag("comment", "")}
							if body != "" {
								mid = append(mid, tx(body))
							}
							mid = append(mid, tag("endcomment", ""), tx(t2))
							hh := h
							var items, ref []tItem
							wrap := func(seq []tItem) []tItem { // keep the blocks balanced around the family's piece
								switch hi {
								case 2:
									return append(seq, tag("endif", ""))
								case 3:
									return append([]tItem{tag("if", "flag")}, seq...)
								}
								return seq
							}
							if rightSide { // H -}} T1 comment T2
								hh.TrimR = true
								items = wrap(append([]tItem{hh}, mid...))
								rm := append([]tItem(nil), mid...)
								rm[0].Text = strings.TrimLeftFunc(rm[0].Text, unicode.IsSpace)
								ref = wrap(append([]tItem{h}, rm...))
							} else { // T1 comment T2 {{- H
								hh.TrimL = true
								items = wrap(append(append([]tItem(nil), mid...), hh))
								rm := append([]tItem(nil), mid...)
								rm[len(rm)-1].Text = strings.TrimRightFunc(rm[len(rm)-1].Text, unicode.IsSpace)
								ref = wrap(append(rm, h))
							}
							res, cl := render(items, "comment-between-texts")
							resRef := renderImpl(engineCfg{}, "", 0, spell(defaultDelims, ref), RealiseEnv(env))
							if res != resRef {
								r.Violate("C13", "hyphen-facing-text-strips-exactly-adjacent-whitespace", cl,
									fmt.Sprintf("with the hyphen %s ; hyphen dropped and adjacent whitespace deleted %s", res, resRef))
							}
						}
					}
				}
			}
		}
	}
	for t := 0; t < n; t++ {
		mine := r.Mine()
		items := GenItems(g, tokGenOpts{NoFilterCapture: true, MaxNodes: 5}, r.Stats.Hist)
		// make adjacent literal text interesting: whitespace of several kinds around non-space
		for i := range items {
			if items[i].Kind == 'x' && g.Chance(60) {
				pad := func() string {
					return g.Pick([]string{"", " ", "  ", "\n", "\t", " \n ", " ", "  "})
				}
				core := g.Pick([]string{"x", "", "a b", "é", "\x00", "\x1fz", "q\x1b", "\x7f", "\x0e\x01"}) // control bytes are not white space
				items[i].Text = pad() + core + pad()
				if items[i].Text == "" {
					items[i].Text = " "
				}
			}
		}
		// a neighbour's hyphen next to a VALUE with white space at its edges: about a third of the objects print one
		for i := range items {
			if items[i].Kind == 'o' && g.Chance(35) {
				items[i].Args = wsVals[g.Intn(len(wsVals))].name
				r.Count("object-prints-value-with-blank-edges")
			}
		}
		// consecutive text items are ONE literal text for the tokenizer (the source is their
		// concatenation): merge them, so that "the text adjacent to the tag" below is that whole text
		merged := make([]tItem, 0, len(items))
		for _, it := range items {
			if k := len(merged); it.Kind == 'x' && k > 0 && merged[k-1].Kind == 'x' {
				merged[k-1].Text += it.Text
				r.Count("merged-adjacent-text-items")
				continue
			}
			merged = append(merged, it)
		}
		items = merged
		var pos []int // marker positions: item index*2 (+1 for the right marker)
		for i, it := range items {
			if it.Kind != 'x' {
				pos = append(pos, 2*i, 2*i+1)
			}
		}
		if !mine {
			continue
		}
		plain := make([]tItem, len(items))
		copy(plain, items)
		for i := range plain {
			plain[i].TrimL, plain[i].TrimR = false, false
		}
		resPlain, _ := render(plain, "no-hyphens")
		outPlain, okPlain := "", strings.HasPrefix(resPlain, "ok ")
		if okPlain {
			outPlain = unhexField(strings.TrimPrefix(resPlain, "ok "))
		}
		// subsets: all of them for k <= 6 marker positions, otherwise 48 random ones
		k := len(pos)
		var subsets []uint64
		if k <= 6 {
			for m := uint64(1); m < 1<<uint(k); m++ {
				subsets = append(subsets, m)
			}
		} else {
			for j := 0; j < 48; j++ {
				m := g.U64()
				if g.Chance(50) {
					m &= g.U64() // sparser
				}
				subsets = append(subsets, m&((1<<uint(min(k, 63)))-1))
			}
		}
		inRawOrComment := func(i int) bool { // is item i the raw/comment/endraw/endcomment tag?
			nm := items[i].Name
			return items[i].Kind == 't' && (nm == "raw" || nm == "endraw" || nm == "comment" || nm == "endcomment")
		}
		for _, m := range subsets {
			if m == 0 {
				continue
			}
			v := make([]tItem, len(items))
			copy(v, plain)
			ref := make([]tItem, len(items))
			copy(ref, plain)
			facesText := true
			// hyphens on the INNER side of a lexical block ({% raw -%}, {%- endraw %}, {% comment -%}, {%- endcomment %}): the
			// body is not literal text of the template that a hyphen could face. Two readings are admitted - the hyphen is inert
			// (this implementation), or it strips the body's white space on its side - and nothing else: in particular it
			// never reaches text OUTSIDE the block.
			hasInner := false
			refStrip := make([]tItem, len(items))
			for b, p := range pos {
				if m&(1<<uint(b)) == 0 {
					continue
				}
				i, right := p/2, p%2 == 1
				if right {
					v[i].TrimR = true
					if i+1 < len(items) && items[i+1].Kind == 'x' && !(inRawOrComment(i) && (items[i].Name == "raw" || items[i].Name == "comment")) {
						ref[i+1].Text = strings.TrimLeftFunc(ref[i+1].Text, unicode.IsSpace)
					} else if inRawOrComment(i) && (items[i].Name == "raw" || items[i].Name == "comment") {
						hasInner = true
						if i+1 < len(items) && items[i+1].Kind == 'x' {
							refStrip[i+1].Text = "L" // marker: strip this body text on the left in the second reading
						}
					} else {
						facesText = false
					}
				} else {
					v[i].TrimL = true
					if inRawOrComment(i) && (items[i].Name == "endraw" || items[i].Name == "endcomment") {
						hasInner = true
						if i > 0 && items[i-1].Kind == 'x' {
							refStrip[i-1].Text += "R"
						}
					} else if i > 0 && items[i-1].Kind == 'x' {
						ref[i-1].Text = strings.TrimRightFunc(ref[i-1].Text, unicode.IsSpace)
						if strings.HasSuffix(ref[i-1].Text, "{") {
							// the hyphen-free reference would spell `{` + `{{` / `{%`: a different token
							// sequence, not the same template with less whitespace
							facesText = false
							r.Count("faces-text-skipped(reference-would-join-brace-and-delimiter)")
						}
					} else {
						facesText = false
					}
				}
			}
			// a text item trimmed from both sides must still be the text both markers face
			res, cl := render(v, "hyphens")
			if okPlain != strings.HasPrefix(res, "ok ") {
				r.Violate("C13", "hyphens-change-success", cl, fmt.Sprintf("without hyphens: %s ; with: %s", resPlain, res))
				continue
			}
			if !okPlain {
				continue
			}
			out := unhexField(strings.TrimPrefix(res, "ok "))
			if stripAllSpace(out) != stripAllSpace(outPlain) {
				r.Violate("C13", "hyphens-remove-only-whitespace", cl, fmt.Sprintf("without hyphens %q ; with %q", outPlain, out))
				continue
			}
			// (value-bytes) every occurrence of a core is the whole value, as often as without the hyphens
			for _, w := range wsVals {
				if nPlain := strings.Count(outPlain, w.core); nPlain > 0 || strings.Contains(out, w.core) {
					r.Count("value-bytes-checked")
					if strings.Count(out, w.val) != nPlain || strings.Count(out, w.core) != nPlain || strings.Count(outPlain, w.val) != nPlain {
						r.Violate("C13", "value-bytes-unchanged-next-to-hyphen", cl,
							fmt.Sprintf("value %q: without hyphens %q ; with %q", w.val, outPlain, out))
						break
					}
				}
			}
			if facesText {
				// the reference template has no hyphens at all
				empty := false
				for i := range ref {
					if ref[i].Kind == 'x' && ref[i].Text == "" {
						empty = true
					}
				}
				_ = empty
				resRef := renderImpl(engineCfg{}, "", 0, spell(defaultDelims, ref), RealiseEnv(env))
				resRef2 := resRef
				if hasInner {
					r.Count("inner-hyphen-of-lexical-block")
					ref2 := make([]tItem, len(ref))
					copy(ref2, ref)
					for i := range ref2 {
						if strings.Contains(refStrip[i].Text, "L") {
							ref2[i].Text = strings.TrimLeftFunc(ref2[i].Text, unicode.IsSpace)
						}
						if strings.Contains(refStrip[i].Text, "R") {
							ref2[i].Text = strings.TrimRightFunc(ref2[i].Text, unicode.IsSpace)
						}
					}
					resRef2 = renderImpl(engineCfg{}, "", 0, spell(defaultDelims, ref2), RealiseEnv(env))
				}
				if resRef != res && resRef2 != res {
					r.Violate("C13", "hyphen-facing-text-strips-exactly-adjacent-whitespace", cl,
						fmt.Sprintf("with hyphens %q ; hyphens dropped and adjacent whitespace deleted %q", out, resRef))
				}
			}
		}
	}
}
