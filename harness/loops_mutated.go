package main

import (
	"fmt"

	"github.com/osteele/liquid"
)

// loopsMutatedMapFamily (implementation only): the CALLER may change a map between two renders (delete a key and add
// another, so that the size stays the same; replace values). A loop visits "the [key, value] pairs of a map (each
// once)" — of the map as it is when the render runs, not as it was when some earlier render looked at it. Compared with
// a fresh engine rendering a fresh copy of the changed map.
func loopsMutatedMapFamily(r *Run) {
	tmpls := []string{"{% for p in m %}{{ p[0] }}={{ p[1] }};{% endfor %}", "{% tablerow p in m cols: 2 %}{{ p[0] }}{% endtablerow %}", "{{ m | join }}|{{ m | first }}",
		"{% for p in m reversed limit: 2 %}{{ p[0] }}{% endfor %}|{% for q in m %}{% for p in m %}{{ p[0] }}{% endfor %};{% endfor %}"}
	render := func(e *liquid.Engine, src string, m any) string {
		return guard(func() string {
			out, err := e.ParseAndRenderString(src, liquid.Bindings{"m": m})
			if err != nil {
				return "err " + err.Error()
			}
			return "ok " + out
		})
	}
	for _, src := range tmpls {
		e := liquid.NewEngine()
		ms := map[string]any{"author": "ann", "layout": "post", "title": "Hello"}
		mi := map[int]string{1: "a", 2: "b", 3: "c"}
		render(e, src, ms)
		render(e, src, ms)
		delete(ms, "layout")
		ms["zebra"] = "z"
		got, want := render(e, src, ms), render(liquid.NewEngine(), src, map[string]any{"author": "ann", "title": "Hello", "zebra": "z"})
		r.Count("mutated-map")
		if got != want {
			r.Violate("C11", "map-pairs-each-once", "loops-mutated-map s "+hexField(src), fmt.Sprintf("after the caller replaced a key of the map: %q; a fresh engine on a fresh copy: %q   source: %q", got, want, src))
		}
		render(e, src, mi)
		delete(mi, 2)
		mi[0] = "z"
		got, want = render(e, src, mi), render(liquid.NewEngine(), src, map[int]string{1: "a", 3: "c", 0: "z"})
		r.Count("mutated-map")
		if got != want {
			r.Violate("C11", "map-pairs-each-once", "loops-mutated-map i "+hexField(src), fmt.Sprintf("after the caller replaced a key of the map: %q; a fresh engine on a fresh copy: %q   source: %q", got, want, src))
		}
	}
}
