package main

import (
	"fmt"

	"github.com/osteele/liquid"
)

// condExtraFamily (implementation only): two corners of the conditional tags that the generated conditions do not reach.
// (1) String literals in `when` and `if` are compared as written, whatever words they hold: a value list is separated
// by commas (and `or`) OUTSIDE string literals only. (2) On an engine with StrictVariables a nil condition, case subject
// or when value is still a value (falsy; equal to nil): strictness concerns printing an undefined variable, not testing it,
// and `if c` / `unless c` stay dual.
func condExtraFamily(r *Run) {
	check := func(e *liquid.Engine, src string, b map[string]any, want, clause string) {
		got := guard(func() string {
			out, err := e.ParseAndRenderString(src, b)
			if err != nil {
				return "err " + err.Error()
			}
			return "ok " + out
		})
		r.Count("cond-extra")
		if got != "ok "+want {
			r.Violate("C10", clause, "cond-extra "+hexField(src), fmt.Sprintf("%q renders %s, want %q   bindings %v", src, got, want, b))
		}
	}
	e := liquid.NewEngine()
	for _, w := range []string{"salt or pepper", "a, b", "x or y, z", " or ", "or", "1 or 2", "it's", "a and b", "contains x"} {
		for _, q := range []string{"'", "\""} {
			if q == "'" && w == "it's" {
				continue
			}
			lit := q + w + q
			check(e, "{% case x %}{% when "+lit+" %}yes{% else %}no{% endcase %}", map[string]any{"x": w}, "yes", "case-first-equal-when")
			check(e, "{% case x %}{% when 'zz', "+lit+" %}yes{% else %}no{% endcase %}", map[string]any{"x": w}, "yes", "case-first-equal-when")
			check(e, "{% case x %}{% when "+lit+" %}yes{% else %}no{% endcase %}", map[string]any{"x": "salt"}, "no", "case-first-equal-when")
			check(e, "{% if x == "+lit+" %}yes{% else %}no{% endif %}", map[string]any{"x": w}, "yes", "if-first-truthy")
		}
	}
	strict := liquid.NewEngine()
	strict.StrictVariables()
	for _, c := range [][2]string{{"{% if missing %}A{% else %}B{% endif %}", "B"}, {"{% unless missing %}A{% else %}B{% endunless %}", "A"},
		{"{% if n %}A{% elsif missing %}B{% else %}C{% endif %}", "C"}, {"{% case missing %}{% when 1 %}one{% else %}other{% endcase %}", "other"},
		{"{% case one %}{% when missing %}m{% when 1 %}one{% endcase %}", "one"}, {"{% if missing == nil %}A{% endif %}{% if m.k %}B{% else %}C{% endif %}", "AC"},
		{"{% if missing and one %}A{% else %}B{% endif %}{% if missing or one %}C{% endif %}", "BC"}} {
		check(strict, c[0], map[string]any{"n": nil, "one": 1, "m": map[string]any{}}, c[1], "nil-is-falsy-on-a-strict-engine")
	}
}
