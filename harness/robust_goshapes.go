package main

import (
	"fmt"
	"math"
	"sort"
	"strings"
	"time"

	"github.com/osteele/liquid"
	yaml "gopkg.in/yaml.v2"
)

// robustGoShapesFamily (implementation only: the value codec cannot spell these bindings, so the cases have no model
// side): plain data of shapes the codec's struct (`T{...}`: a flat struct of `any` fields) does not reach — embedded
// structs by value and by (nil) pointer, unexported embedded structs, self-referential pointers, function-valued fields of
// every signature, channels, complex numbers, uintptr, nil maps / slices / pointers as fields, arrays of arrays, maps
// keyed by structs and arrays, ordered YAML maps nested in each other — under every access form. Oracle: no panic, and an
// answer within five seconds.

type gsInner struct {
	X int
	Y string `liquid:"why"`
	q int
}
type gsOuterPtr struct {
	*gsInner
	Z int
}
type gsOuterVal struct {
	gsInner
	Z int
}
type gsunexp struct{ A int }
type gsOuterUnexp struct {
	gsunexp
	Z int
}
type gsOuterUnexpPtr struct {
	*gsunexp
	Z int
}
type gsDeep struct {
	*gsOuterPtr
	W []int
}
type gsRec struct {
	Next *gsRec
	V    int
	Kids []*gsRec
}
type gsFuncs struct {
	F func() int
	G func(int) int
	H func() (int, string)
	E func() (int, error)
	N func()
	V func(...int) int
}
type gsMisc struct {
	C          chan int
	M          map[string]int
	I          any
	P          *int
	PP         **int
	U          uintptr
	Cx         complex128
	A          [2][2]int
	S          []any
	T          time.Time
	TP         *time.Time
	D          time.Duration
	B          []byte
	Fn         func()
	unexported int
}

// defined (named) types of every basic kind: to reflect they have the kind of their underlying type, to a type
// assertion or type switch they are not that type
type gsInt int
type gsU8 uint8
type gsFloat float64
type gsBool bool
type gsStr string
type gsSlice []any
type gsStrSlice []gsStr
type gsMap map[string]any
type gsStrMap map[gsStr]gsInt
type gsBytes []byte
type gsArr [2]gsInt
type gsAny any

type gsKey struct {
	A int
	B string
}

func goShapeValues() map[string]any {
	one := 1
	pone := &one
	rec := &gsRec{V: 1}
	rec.Next = rec
	rec.Kids = []*gsRec{rec, nil}
	chain := &gsRec{V: 1, Next: &gsRec{V: 2, Next: &gsRec{V: 3}}}
	var nilMap map[string]any
	var nilSlice []any
	var nilRec *gsRec
	var nilFuncs *gsFuncs
	tm := time.Unix(1577934245, 0).UTC()
	return map[string]any{
		"embNilPtr":   gsOuterPtr{Z: 1},
		"embPtr":      gsOuterPtr{&gsInner{2, "y", 3}, 1},
		"embVal":      gsOuterVal{gsInner{2, "y", 3}, 1},
		"embUnexp":    gsOuterUnexp{gsunexp{2}, 1},
		"embUnexpNil": gsOuterUnexpPtr{Z: 1},
		"embDeepNil":  gsDeep{W: []int{1}},
		"embDeep":     &gsDeep{&gsOuterPtr{Z: 5}, nil},
		"pEmbNilPtr":  &gsOuterPtr{Z: 1},
		"cyclic":      rec,
		"chain":       chain,
		"nilRec":      nilRec,
		"funcsZero":   gsFuncs{},
		"funcs": gsFuncs{func() int { return 1 }, func(int) int { return 2 }, func() (int, string) { return 1, "x" },
			func() (int, error) { return 0, fmt.Errorf("boom") }, func() {}, func(...int) int { return 3 }},
		"nilFuncs":   nilFuncs,
		"miscZero":   gsMisc{},
		"misc":       &gsMisc{C: make(chan int), M: map[string]int{"a": 1}, I: gsKey{1, "x"}, P: pone, PP: &pone, U: 5, Cx: complex(1, 2), S: []any{nilMap, nilSlice, nilRec}, T: tm, TP: &tm, D: time.Second, B: []byte("hé"), Fn: func() {}},
		"structKeys": map[gsKey]any{{1, "b"}: 1, {1, "a"}: 2, {0, "z"}: 3},
		"arrayKeys":  map[[2]int]string{{2, 1}: "x", {1, 2}: "y"},
		"ifaceKeys":  map[any]any{gsKey{1, "a"}: 1, [1]int{1}: 2, 1.5: 3, "s": 4, nil: 5, true: 6, int8(1): 7, uint(1): 8},
		"ptrKeys":    map[*int]int{pone: 1, nil: 2},
		"complexes":  []any{complex(1, 2), complex64(complex(0, 1)), complex(math.Inf(1), 0)},
		"uintptrs":   []any{uintptr(5), uintptr(3), 4},
		"nested":     [2][2]int{{3, 4}, {1, 2}},
		"mapSlices": yaml.MapSlice{{Key: "a", Value: yaml.MapSlice{{Key: "b", Value: []any{yaml.MapSlice{{Key: nil, Value: nil}}}}}}, {Key: 1, Value: nil}, {Key: []int{1}, Value: 2},
			{Key: "a", Value: "dup"}},
		"defInt": gsInt(3), "defU8": gsU8(200), "defFloat": gsFloat(2.5), "defBool": gsBool(true), "defBoolF": gsBool(false), "defStr": gsStr("a b"), "defStrEmpty": gsStr(""),
		"defSlice": gsSlice{gsInt(2), gsStr("x"), nil, gsInt(1)}, "defStrSlice": gsStrSlice{"b", "a"}, "defMap": gsMap{"a": gsInt(1), "size": gsStr("s")},
		"defStrMap": gsStrMap{"k": 1, "j": 2}, "defBytes": gsBytes("hé"), "defArr": gsArr{2, 1}, "defs": []any{gsInt(1), 1, gsStr("1"), "1", gsBool(true), true, gsFloat(1), 1.0},
		"nilMap":   nilMap,
		"nilSlice": nilSlice,
		"floats":   []any{math.NaN(), math.Inf(1), math.Inf(-1), math.Copysign(0, -1), float32(math.NaN()), math.MaxFloat64, math.SmallestNonzeroFloat64},
		"nanMap":   map[string]any{"n": math.NaN(), "i": math.Inf(-1)},
		"durs":     []time.Duration{time.Second, 0, -time.Hour},
		"anyNilPtrs": []any{(*gsOuterPtr)(nil), (*time.Time)(nil), (*gsFuncs)(nil), (*[]int)(nil), (*yaml.MapSlice)(nil), (*map[string]any)(nil), (*any)(nil),
			(*complex128)(nil), (*[2]int)(nil)},
	}
}

func robustGoShapesFamily(r *Run) {
	vals := goShapeValues()
	names := []string{"X", "Y", "why", "q", "Z", "A", "gsInner", "gsunexp", "gsOuterPtr", "W", "Next", "V", "Kids", "F", "G", "H", "E", "N", "C", "M", "I", "P", "PP", "U", "Cx", "S", "T", "TP", "D",
		"B", "Fn", "unexported", "a", "b", "size", "first", "last", "0", "n", "i"}
	var forms []string
	for _, n := range names {
		forms = append(forms, "{{ v."+n+" }}|{{ v['"+n+"'] }}|{% if v contains '"+n+"' %}T{% endif %}|{{ v."+n+"."+n+" }}|{{ v | map: '"+n+"' | join }}")
	}
	forms = append(forms,
		"{{ v }}", "{{ v | json }}", "{{ v | inspect }}|{{ v | type }}", "{{ v | size }}|{{ v.size }}|{{ v | first }}|{{ v | last }}|{{ v[0] }}|{{ v[-1] }}",
		"{{ v | join }}|{{ v | sort | join }}|{{ v | sort_natural | join }}|{{ v | uniq | join }}|{{ v | reverse | join }}|{{ v | compact | join }}",
		"{% for x in v limit: 4 %}{{ x }}|{{ x[0] }}={{ x[1] }};{% endfor %}", "{% tablerow x in v cols: 2 limit: 4 %}{{ x }}{% endtablerow %}",
		"{% if v == v %}T{% else %}F{% endif %}{% if v != w %}T{% else %}F{% endif %}{% if v < w %}T{% endif %}{% if v >= w %}T{% endif %}",
		"{% if v contains w %}T{% else %}F{% endif %}{% if w contains v %}T{% else %}F{% endif %}", "{% case v %}{% when w %}W{% when v %}V{% else %}E{% endcase %}",
		"{{ v | plus: 1 }}", "{{ v | times: w }}", "{{ v | minus: v }}|{{ v | divided_by: v }}|{{ v | modulo: 2 }}|{{ v | abs }}|{{ v | ceil }}|{{ v | round: 1 }}|{{ v | at_least: 1 }}",
		"{% if v contains 'a' %}T{% endif %}{% if v contains v %}T{% endif %}{% if 'a b c' contains v %}T{% endif %}{{ v.size }}|{{ v.first }}|{{ v[0] }}|{{ v['a'] }}",
		"{{ v | size }}|{{ v | upcase }}|{{ v | split: ' ' | join: ',' }}|{{ v | slice: 0, 1 }}|{{ v | truncate: 2 }}|{{ v | replace: 'a', v }}|{{ 'x' | append: v }}|{{ v | strip }}|{{ v | escape }}",
		"{% assign s = v | sort %}{{ s | join }}|{% assign s = v | sort_natural %}{{ s | join }}|{{ v | map: 'a' | join }}|{{ v | sort: 'a' | join }}",
		"{% for x in (1..3) limit: v %}{{ x }}{% endfor %}|{% for x in (v..3) %}{{ x }}{% endfor %}|{% tablerow x in (1..2) cols: v %}{{ x }}{% endtablerow %}|{{ w[v] }}",
		"{% if v %}T{% else %}F{% endif %}{% unless v %}U{% endunless %}{% if v == true %}=t{% endif %}{% if v == 3 %}=3{% endif %}{% if v == 'a b' %}=s{% endif %}{% if v > 2 %}>2{% endif %}{% if v < 'b' %}<b{% endif %}", "{{ v | append: 'x' }}|{{ v | upcase }}|{{ v | date: '%Y' }}|{{ v | default: 'd' }}", "{{ v | sort: 'V' | size }}|{{ v | concat: w | size }}|{{ w | concat: v | size }}",
		"{{ v.Next.Next.Next.V }}|{{ v.Kids[0].Kids[1].V }}|{{ v.Kids | size }}|{{ v.S[2].V }}|{{ v.I.A }}|{{ v.PP }}|{{ v.M.a }}|{{ v.TP.Year }}|{{ v.a.b[0] }}",
		"{% assign x = v %}{{ x }}{% capture c %}{{ v }}{% endcapture %}{{ c | size }}", "{% for i in (1..2) %}{% cycle v, w %}{% endfor %}", "{% include v %}",
		"{% for x in (1..3) limit: v offset: w %}{{ x }}{% endfor %}", "{{ (v..w) | size }}", "{{ w[v] }}|{{ v[w] }}",
	)
	keys := sortedAnyKeys(vals)
	type outcome struct{ res, msg string }
	for _, vk := range keys {
		for wi, wk := range []string{"chain", "ifaceKeys", "misc"} {
			for _, f := range forms {
				if wi > 0 && !strings.Contains(f, "w") {
					continue // the form has one operand: once is enough
				}
				src := f
				done := make(chan outcome, 1)
				go func() {
					res, msg := protect(func() string {
						e := liquid.NewEngine()
						_, err := e.ParseAndRenderString(src, liquid.Bindings{"v": vals[vk], "w": vals[wk]})
						if err != nil {
							return "err"
						}
						return "ok"
					})
					done <- outcome{res, msg}
				}()
				var o outcome
				select {
				case o = <-done:
				case <-time.After(5 * time.Second):
					o = outcome{"timeout", ""}
				}
				r.Count("go-shapes:" + o.res)
				cl := "robust-go-shapes " + vk + " " + wk + " " + hexField(src)
				switch o.res {
				case "panic":
					r.Violate("C01", "panic", cl, "panic: "+o.msg+"   binding v="+vk+" w="+wk+"   source: "+fmt.Sprintf("%q", src))
				case "timeout":
					r.Violate("C01", "time", cl, "no answer within 5s   binding v="+vk+" w="+wk+"   source: "+fmt.Sprintf("%q", src))
				}
			}
		}
	}
}

func sortedAnyKeys(m map[string]any) []string {
	var ks []string
	for k := range m {
		ks = append(ks, k)
	}
	sort.Strings(ks)
	return ks
}
