package main

// C17 — numeric filters. Stream `numf`:
//
//   numf <x-enc> (<namehex> <arg-enc|->)+      the pipeline `x | f1: a1 | f2 | …` (one or more steps)
//
// real code: the value through expressions.EvaluateString (standard filters) and the text through
// liquid.NewEngine().ParseAndRenderString("{{ x | f1: a1 | … }}"); result
// `ok <value-enc> <text-hex>` | `err <kind>` | `panic`.
//
// Oracle (independent of the model): exact math/big.Rat evaluation of the pipeline. Whenever the
// operands and every intermediate are exactly float64-representable the real value must equal the
// exact one; a zero divisor, a receiver string that does not spell a number, a boolean operand or
// a non-numeric divisor must yield an error; a whole result must be printed as the plain integer.

import (
	"fmt"
	"math"
	"math/big"
	"regexp"
	"strconv"
	"strings"

	"github.com/osteele/liquid/expressions"
)

func init() {
	streams["numf"] = numfStream
	replayers["numf"] = func(r *Run, f []string) string {
		x, steps := parseNumfLine(f)
		return numfCase(r, strings.Join(f, " "), x, steps)
	}
}

type numStep struct {
	Name string
	Arg  *V // nil = no argument
}

func numfLine(x *V, steps []numStep) string {
	var sb strings.Builder
	sb.WriteString("numf " + x.Enc())
	for _, s := range steps {
		sb.WriteString(" " + hexField(s.Name) + " ")
		if s.Arg == nil {
			sb.WriteString("-")
		} else {
			sb.WriteString(s.Arg.Enc())
		}
	}
	return sb.String()
}

func parseNumfLine(f []string) (*V, []numStep) {
	x := ParseV(f[1])
	var steps []numStep
	for i := 2; i+1 < len(f); i += 2 {
		st := numStep{Name: unhexField(f[i])}
		if f[i+1] != "-" {
			st.Arg = ParseV(f[i+1])
		}
		steps = append(steps, st)
	}
	return x, steps
}

func numfSource(steps []numStep) (string, func(x *V) map[string]any) {
	src := "x"
	for i, s := range steps {
		src += " | " + s.Name
		if s.Arg != nil {
			src += fmt.Sprintf(": a%d", i)
		}
	}
	return src, func(x *V) map[string]any {
		b := map[string]any{"x": x.Realise()}
		for i, s := range steps {
			if s.Arg != nil {
				b[fmt.Sprintf("a%d", i)] = s.Arg.Realise()
			}
		}
		return b
	}
}

// ---- exact oracle ------------------------------------------------------------------------

var decimalSpelling = regexp.MustCompile(`^[+-]?([0-9]+\.?[0-9]*|\.[0-9]+)([eE][+-]?[0-9]+)?$`)

type numClass int

const (
	ncNumber  numClass = iota // an exact number
	ncError                   // must be reported as an error
	ncUnknown                 // the property does not say (skip the oracle)
)

func ratIsF64(q *big.Rat) bool {
	f, exact := q.Float64()
	return exact && !math.IsInf(f, 0)
}

// classifyOperand: what a receiver / float operand means. isRecv: strings that spell a number count.
func classifyOperand(v *V, isRecv bool) (numClass, *big.Rat) {
	switch v.Kind {
	case 'n':
		return ncNumber, new(big.Rat) // a nil operand is the zero value
	case 'i', 'd':
		return ncNumber, v.rat()
	case 's':
		if decimalSpelling.MatchString(v.S) {
			if len(v.S) > 40 {
				return ncUnknown, nil
			}
			q, ok := new(big.Rat).SetString(v.S)
			if !ok || !isRecv {
				return ncUnknown, nil
			}
			return ncNumber, q
		}
		if strings.ContainsAny(v.S, "_xXnN") { // hex, inf/nan, underscores: Go's ParseFloat has its own view
			return ncUnknown, nil
		}
		return ncError, nil
	case 't', 'f':
		return ncError, nil
	}
	return ncUnknown, nil
}

func ratTruncBig(q *big.Rat) *big.Int {
	return new(big.Int).Quo(q.Num(), q.Denom()) // Quo truncates toward zero
}

func ratFloorBig(q *big.Rat) *big.Int {
	return new(big.Int).Div(q.Num(), q.Denom()) // Euclidean: floor for a positive denominator
}

var ratHalf = big.NewRat(1, 2)

func inInt64Big(n *big.Int) bool { return n.IsInt64() }

// exactStep: the exact result of one filter on an exact receiver. status: ncNumber (value in q,
// all intermediates representable), ncError (an error is required), ncUnknown (no expectation).
func exactStep(name string, a *big.Rat, arg *V) (numClass, *big.Rat) {
	flt := func(q *big.Rat) (numClass, *big.Rat) {
		if !ratIsF64(q) {
			return ncUnknown, nil
		}
		return ncNumber, q
	}
	if !ratIsF64(a) {
		return ncUnknown, nil
	}
	switch name {
	case "abs":
		return flt(new(big.Rat).Abs(a))
	case "ceil", "floor":
		n := ratFloorBig(a)
		if name == "ceil" && !a.IsInt() {
			n.Add(n, big.NewInt(1))
		}
		if !inInt64Big(n) {
			return ncUnknown, nil
		}
		return ncNumber, new(big.Rat).SetInt(n)
	case "plus", "minus", "times", "modulo":
		if arg == nil {
			arg = VNil()
		}
		c, b := classifyOperand(arg, false)
		if c != ncNumber {
			return c, nil
		}
		if !ratIsF64(b) {
			return ncUnknown, nil
		}
		switch name {
		case "plus":
			return flt(new(big.Rat).Add(a, b))
		case "minus":
			return flt(new(big.Rat).Sub(a, b))
		case "times":
			return flt(new(big.Rat).Mul(a, b))
		default:
			if b.Sign() == 0 {
				return ncError, nil
			}
			t := new(big.Rat).SetInt(ratTruncBig(new(big.Rat).Quo(a, b)))
			return flt(new(big.Rat).Sub(a, t.Mul(t, b)))
		}
	case "divided_by":
		if arg == nil {
			return ncError, nil // a nil divisor is not a number
		}
		switch arg.Kind {
		case 'i':
			if arg.I.Sign() == 0 {
				return ncError, nil
			}
			n := ratTruncBig(a)
			if !inInt64Big(n) {
				return ncUnknown, nil
			}
			q := new(big.Int).Quo(n, arg.I)
			if !inInt64Big(q) {
				return ncUnknown, nil
			}
			return ncNumber, new(big.Rat).SetInt(q)
		case 'd':
			b := arg.rat()
			if b.Sign() == 0 {
				return ncError, nil
			}
			return flt(new(big.Rat).Quo(a, b))
		case 'n', 't', 'f', 's':
			return ncError, nil
		}
		return ncUnknown, nil
	case "round":
		p := int64(0)
		if arg != nil {
			switch arg.Kind {
			case 'n':
				return ncUnknown, nil // a nil *default-function* argument is converted lazily, not zero-filled
			case 'i':
				if !arg.I.IsInt64() {
					return ncUnknown, nil
				}
				p = arg.I.Int64()
				if arg.IK >= 5 && arg.IK != 6 && arg.IK != 7 && arg.IK != 8 { // uint/uint64 wrap is not the point here
					return ncUnknown, nil
				}
			default:
				return ncUnknown, nil
			}
		}
		if p < 0 || p > 22 {
			return ncUnknown, nil // 10^p is not a float64 (or the scale is): outside "exactly representable"
		}
		e := new(big.Rat).SetInt(new(big.Int).Exp(big.NewInt(10), big.NewInt(p), nil))
		x := new(big.Rat).Mul(a, e)
		if !ratIsF64(x) {
			return ncUnknown, nil
		}
		y := new(big.Rat).Add(x, ratHalf)
		if !ratIsF64(y) {
			return ncUnknown, nil
		}
		f := new(big.Rat).SetInt(ratFloorBig(y))
		return flt(f.Quo(f, e))
	}
	return ncUnknown, nil
}

// exactPipeline folds exactStep over the steps.
func exactPipeline(x *V, steps []numStep) (numClass, *big.Rat, string) {
	c, a := classifyOperand(x, true)
	if c == ncError {
		// a non-numeric receiver of a numeric filter
		return ncError, nil, "receiver"
	}
	if c != ncNumber {
		return ncUnknown, nil, ""
	}
	for i, s := range steps {
		var q *big.Rat
		c, q = exactStep(s.Name, a, s.Arg)
		if c != ncNumber {
			return c, nil, fmt.Sprintf("step %d %s", i, s.Name)
		}
		a = q
	}
	return ncNumber, a, ""
}

func valueRat(out any) (*big.Rat, bool) {
	v := Reify(out)
	switch v.Kind {
	case 'i', 'd':
		return v.rat(), true
	}
	if f, ok := out.(float64); ok && f == 0 {
		return new(big.Rat), true // -0: numerically zero (the sign of zero is outside the property)
	}
	return nil, false
}

func numfCase(r *Run, line string, x *V, steps []numStep) string {
	src, mk := numfSource(steps)
	var (
		out      any
		err      error
		text     string
		rerr     error
		panicked bool
	)
	func() {
		defer func() {
			if rec := recover(); rec != nil {
				panicked = true
				lastPanic = fmt.Sprint(rec)
			}
		}()
		out, err = expressions.EvaluateString(src, expressions.NewContext(mk(x), stdFilterConfig))
		var serr interface {
			error
			Cause() error
		}
		text, serr = stdEngine.ParseAndRenderString("{{ "+src+" }}", mk(x))
		if serr != nil {
			rerr = serr
		}
	}()
	var res string
	switch {
	case panicked:
		res = "panic"
	case err != nil:
		res = "err " + filterCauseKind(err)
	default:
		res = guard(func() string { return "ok " + Reify(out).Enc() + " " + hexField(text) })
	}
	// ---- oracle
	if panicked {
		r.Violate("C17", "panic", line, lastPanic)
		return res
	}
	if (err != nil) != (rerr != nil) {
		r.Violate("C17", "evaluate-and-render-disagree", line, fmt.Sprintf("EvaluateString err=%v, render err=%v", err, rerr))
	}
	c, want, where := exactPipeline(x, steps)
	switch c {
	case ncError:
		r.Count("oracle=error-required")
		if err == nil {
			r.Violate("C17", "impossible-operation-not-reported", line, fmt.Sprintf("%s: %s must be an error; the code printed %q", src, where, text))
		}
	case ncNumber:
		r.Count("oracle=exact")
		if err != nil {
			r.Violate("C17", "unexpected-error", line, fmt.Sprintf("%s: exact result %s, got error %v", src, want.RatString(), err))
			break
		}
		got, ok := valueRat(out)
		if !ok || got.Cmp(want) != 0 {
			r.Violate("C17", "inexact-result", line, fmt.Sprintf("%s: exact result %s, got %v", src, want.RatString(), out))
			break
		}
		// "ceil and floor return integers": the value handed on is a Go int (an integer divisor makes divided_by
		// an integer division, so a float 3.0 in its place changes what the next filter computes)
		if last := steps[len(steps)-1].Name; last == "ceil" || last == "floor" {
			if v := Reify(out); v.Kind != 'i' {
				r.Violate("C17", "ceil-floor-return-integers", line, fmt.Sprintf("%s returns %T(%v), not an integer", src, out, out))
			}
		}
		if want.IsInt() {
			// a whole result below 10^21 is written as plain digits that denote the same float64
			// (from 2^53 on strconv's shortest digits are zero-padded: 108086391056891900 for …904)
			plain := want.Num().String()
			f, perr := strconv.ParseFloat(text, 64)
			// the digits of the exact value (an integer result beyond 2^53 is a Go int, printed exactly), or digits
			// that denote the same float64
			same := text == plain || (perr == nil && new(big.Rat).SetFloat64(f).Cmp(want) == 0 && plainInteger.MatchString(text))
			if !same && !(want.Sign() == 0 && text == "-0") && want.Num().CmpAbs(tenTo21) < 0 {
				r.Violate("C17", "whole-result-not-printed-plainly", line, fmt.Sprintf("%s = %s printed as %q", src, plain, text))
			}
		} else {
			f, perr := strconv.ParseFloat(text, 64)
			if perr != nil || new(big.Rat).SetFloat64(f).Cmp(want) != 0 {
				r.Violate("C17", "printed-value-differs", line, fmt.Sprintf("%s = %s printed as %q", src, want.RatString(), text))
			}
		}
	default:
		r.Count("oracle=none")
	}
	return res
}

var plainInteger = regexp.MustCompile(`^-?[0-9]+$`)

var tenTo21 = new(big.Int).Exp(big.NewInt(10), big.NewInt(21), nil)

// ---- generation ---------------------------------------------------------------------------

// numUniverse is the operand universe of DESIGN §6 C17.
func numUniverse() []*V {
	var out []*V
	for n := int64(-12); n <= 12; n++ {
		out = append(out, VInt(0, n))
	}
	out = append(out, VInt(0, 1<<53), VInt(0, -(1 << 53)), VInt(0, 1<<53-1), VInt(0, -(1<<53 - 1)), VInt(0, 1e15))
	for k := -12; k <= 12; k++ {
		out = append(out, VFlt(1, float64(k)/4))
	}
	for _, s := range []string{"3", "2.5", "-1", " 1", "x", "", "010", "0017", "08"} {
		out = append(out, VStr(s))
	}
	return append(out, VNil(), VBool(true))
}

var unaryNumeric = []string{"abs", "ceil", "floor", "round"}
var binaryNumeric = []string{"plus", "minus", "times", "divided_by", "modulo", "round"}

func numfStream(r *Run) {
	if r.Shard == 0 {
		numfExtraFamily(r)
	}
	g := NewRNG(r.Seed, "numf")
	emit := func(x *V, steps ...numStep) {
		if !r.Mine() {
			return
		}
		line := numfLine(x, steps)
		res := numfCase(r, line, x, steps)
		for _, s := range steps {
			r.Count("filter=" + s.Name)
		}
		r.Count("len=" + fmt.Sprint(len(steps)))
		r.Count("result=" + strings.SplitN(res, " ", 2)[0])
		if strings.HasPrefix(res, "ok") {
			r.Nontrivial(line)
		}
		r.Emit(line, res)
	}
	u := numUniverse()
	// exhaustive: every operand, every pair × every numeric filter
	for _, x := range u {
		for _, name := range unaryNumeric {
			emit(x, numStep{name, nil})
		}
		for _, name := range binaryNumeric {
			for _, a := range u {
				emit(x, numStep{name, a})
			}
		}
	}
	// other Go representations of the divisor / operand (D14), zero of every kind
	for _, x := range []*V{VInt(0, 7), VFlt(1, 7.5), VInt(0, -7), VStr("7"), VInt(5, 7), VInt(9, 7), VInt(6, 7), VFlt(0, 7.5), VStr("7.5")} {
		for k := 0; k < 10; k++ {
			for _, n := range []int64{0, 1, 2, 3} {
				emit(x, numStep{"divided_by", VInt(k, n)})
				emit(x, numStep{"modulo", VInt(k, n)})
				emit(x, numStep{"plus", VInt(k, n)})
			}
		}
		emit(x, numStep{"divided_by", VBig(9, new(big.Int).SetUint64(math.MaxUint64))})
		emit(x, numStep{"divided_by", VBig(9, new(big.Int).SetUint64(1<<63))})
		emit(x, numStep{"divided_by", VFlt(0, 0)}, numStep{"plus", VInt(0, 1)})
		emit(x, numStep{"divided_by", VFlt(0, 0.5)})
		emit(x, numStep{"modulo", VFlt(0, 0)})
	}
	// round on every kind of place count and on the receivers where x + 0.5 is rounded; negative halves (half up,
	// toward +Inf); ceil / floor at and beyond the int64 range; overflow of + - * / to +-Inf (outside the model)
	for _, f := range []float64{-2.5, -3.5, -0.5, -0.4, 2.5, 0.49999999999999994, 0.5, 0.49999999999999989, 4503599627370497, 4503599627370495.5,
		4503599627370495, -4503599627370496, 1.9999999999999998, 3.9999999999999996, -1.9999999999999998, 1234.5678, -1234.5678, 1.005, 0.1} {
		emit(VFlt(1, f), numStep{"round", nil})
		for _, p := range []int64{-324, -323, -30, -5, -4, -2, -1, 0, 1, 2, 17, 20, 22, 23, 30, 300, 308, 309, 400} {
			emit(VFlt(1, f), numStep{"round", VInt(0, p)})
		}
	}
	for _, f := range []float64{1e19, -1e19, 9223372036854775808, 9223372036854774784, -9223372036854775808, -9223372036854777856, math.MaxFloat64, -math.MaxFloat64, 1e300} {
		emit(VFlt(1, f), numStep{"ceil", nil})
		emit(VFlt(1, f), numStep{"floor", nil})
		emit(VFlt(1, f), numStep{"times", VFlt(1, 1e300)})
		emit(VFlt(1, f), numStep{"times", VInt(0, 2)})
		emit(VFlt(1, f), numStep{"plus", VFlt(1, f)})
		emit(VFlt(1, f), numStep{"minus", VFlt(1, -f)})
		emit(VFlt(1, f), numStep{"divided_by", VFlt(1, 5e-324)})
		emit(VFlt(1, f), numStep{"divided_by", VFlt(1, 1e-300)})
	}
	// printing of whole results around the exponent thresholds of fmt (D23)
	for _, n := range []int64{99999, 100000, 999999, 1000000, 1234567, 20000000, 123456789, 1e15, 1 << 53} {
		emit(VInt(0, n), numStep{"plus", VInt(0, 0)})
		emit(VInt(0, n), numStep{"times", VInt(0, -1)})
		emit(VInt(0, n), numStep{"times", VFlt(1, 0.5)})
		emit(VFlt(1, float64(n)), numStep{"abs", nil})
		emit(VInt(0, n), numStep{"divided_by", VFlt(1, 1)})
	}
	emit(VInt(0, 500000), numStep{"plus", VInt(0, 500000)})
	emit(VInt(0, 100000), numStep{"times", VInt(0, 1000)}, numStep{"times", VInt(0, 1000)}, numStep{"times", VInt(0, 1000)}, numStep{"times", VInt(0, 1000)}, numStep{"times", VInt(0, 10000)})
	// random chains
	n := 6000
	if r.Tier == "thorough" {
		n = 100000
	}
	pickNum := func() *V {
		switch g.Intn(12) {
		case 0:
			return u[g.Intn(len(u))]
		case 1, 2, 3:
			return VFlt(1, float64(g.Intn(97)-48)/float64(int(1)<<uint(g.Intn(5))))
		case 4:
			return VFlt(1, float64(g.Intn(2001)-1000)/8)
		case 5:
			return VInt(0, int64(g.Intn(2000001)-1000000))
		case 6:
			return VInt(g.Intn(10), int64(g.Intn(100)))
		case 7:
			return VStr(g.Pick([]string{"3", "2.5", "-1", "0.125", "1e2", "12", "-0.75", "x", " 1", "", "1.5e1", "abc", "7 ", "010", "0017", "09", "-012", "00.5"}))
		default:
			return VInt(0, int64(g.Intn(25)-12))
		}
	}
	all := append(append([]string{}, unaryNumeric[:3]...), binaryNumeric...)
	for i := 0; i < n; i++ {
		x := pickNum()
		k := 1 + g.Intn(6)
		steps := make([]numStep, k)
		for j := range steps {
			name := all[g.Intn(len(all))]
			st := numStep{Name: name}
			switch name {
			case "abs", "ceil", "floor":
			case "round":
				if g.Chance(70) {
					st.Arg = VInt(0, int64(g.Intn(6)))
					if g.Chance(10) {
						st.Arg = VInt(0, int64(g.Intn(40)-10))
					}
				}
			default:
				st.Arg = pickNum()
				if g.Chance(8) {
					st.Arg = VInt(g.Intn(10), 0)
				}
			}
			steps[j] = st
		}
		emit(x, steps...)
	}
}
