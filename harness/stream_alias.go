package main

// Stream `alias` (properties C15 and C03): the array filters do not WRITE into the caller's backing arrays —
// neither into the elements of the slice they were applied to nor into the spare capacity behind it — and
// which results share memory with their input. The model side is the slice-memory model of
// lean/Liquid/Heap.lean (theorems: lean/Proofs/C15Heap.lean).
//
// Case line:    alias <off>:<spare> <recv> (<namehex> <arg|->)+
//
//	the pipeline `x | f1: a0 | f2: a1 | …` (step i's argument is bound to a<i>). A receiver that is a slice
//	([]any or typed) is realised as backing[off : off+len] of a backing array of off+len+spare elements whose
//	other elements hold a sentinel, so that len(x) = len, cap(x) = len+spare; every other slice (arguments,
//	nested slices) gets two spare elements behind it. Anything else (nil, fixed array, range, MapSlice, map)
//	is realised as usual; <off>:<spare> is 0:0 then.
//
// Result line:  ok <result> alias=<0|1> changed=<-|name:index,…>   |   err <kind>   |   panic
//
//	result   the value of the expression (expressions.EvaluateString with the standard filters)
//	alias    1 iff the result is a slice with capacity whose first element lies inside the receiver's backing array
//	changed  the locations of the caller's arrays — x: the receiver's backing array, index 0..off+len+spare-1;
//	         a<i>: the argument's, index 0..cap-1 — whose contents (deep snapshot: values, identities of nested
//	         slices/maps, their contents and spare capacity) differ after the evaluation; `name:*` for a value that
//	         is not a slice
//
// ORACLE (on the real code, independent of the model): `changed` must be empty, and a deep snapshot of the whole
// bindings map must be the same before and after: otherwise C15 input-modified / C03 bindings-modified.

import (
	"fmt"
	"reflect"
	"strconv"
	"strings"
)

func init() {
	streams["alias"] = aliasStream
	replayers["alias"] = func(r *Run, f []string) string {
		c, ok := parseAliasLine(f)
		if !ok {
			return "bad-case"
		}
		return aliasCase(r, strings.Join(f, " "), c)
	}
}

type aliasCaseT struct {
	off, spare int
	recv       *V
	steps      []numStep
}

func (c aliasCaseT) line() string {
	return fmt.Sprintf("alias %d:%d %s", c.off, c.spare, strings.TrimPrefix(numfLine(c.recv, c.steps), "numf "))
}

func parseAliasLine(f []string) (c aliasCaseT, ok bool) {
	defer func() {
		if recover() != nil {
			ok = false
		}
	}()
	if len(f) < 5 || f[0] != "alias" {
		return c, false
	}
	parts := strings.Split(f[1], ":")
	if len(parts) != 2 {
		return c, false
	}
	c.off, _ = strconv.Atoi(parts[0])
	c.spare, _ = strconv.Atoi(parts[1])
	c.recv, c.steps = parseNumfLine(f[1:])
	return c, true
}

func isPlainSlice(v *V) bool { return v.Kind == 'L' && v.Ty.C != 'y' }

// a caller's array under observation: `full` is the whole backing array (a reflect slice of full capacity)
type watched struct {
	name   string
	full   reflect.Value // invalid: the value is not a slice; `whole` is compared instead
	val    any
	before []string
	whole  string
}

func watchSlice(name string, full reflect.Value) *watched {
	w := &watched{name: name, full: full}
	for i := 0; i < full.Len(); i++ {
		w.before = append(w.before, snapshot(full.Index(i).Interface()))
	}
	return w
}

func (w *watched) changed() []string {
	var out []string
	if !w.full.IsValid() {
		if snapshot(w.val) != w.whole {
			out = append(out, w.name+":*")
		}
		return out
	}
	for i := 0; i < w.full.Len(); i++ {
		if snapshot(w.full.Index(i).Interface()) != w.before[i] {
			out = append(out, fmt.Sprintf("%s:%d", w.name, i))
		}
	}
	return out
}

// aliasRealise builds the bindings of a case and the list of the caller's arrays to watch.
func aliasRealise(c aliasCaseT) (b map[string]any, ws []*watched, backing reflect.Value) {
	rz := &realiser{spare: 2}
	b = map[string]any{}
	if isPlainSlice(c.recv) {
		n := len(c.recv.Xs)
		et := c.recv.Ty.RType()
		backing = reflect.MakeSlice(reflect.SliceOf(et), c.off+n+c.spare, c.off+n+c.spare)
		for i := 0; i < backing.Len(); i++ {
			fillSpare(backing.Index(i))
		}
		for i, x := range c.recv.Xs {
			setElem(backing.Index(c.off+i), rz.val(x))
		}
		b["x"] = backing.Slice(c.off, c.off+n).Interface() // len n, cap n+spare
		ws = append(ws, watchSlice("x", backing))
	} else {
		x := rz.val(c.recv)
		b["x"] = x
		ws = append(ws, &watched{name: "x", val: x, whole: snapshot(x)})
	}
	for i, s := range c.steps {
		if s.Arg == nil {
			continue
		}
		name := fmt.Sprintf("a%d", i)
		a := rz.val(s.Arg)
		b[name] = a
		if rv := reflect.ValueOf(a); isPlainSlice(s.Arg) && rv.Kind() == reflect.Slice {
			ws = append(ws, watchSlice(name, rv.Slice(0, rv.Cap())))
		} else {
			ws = append(ws, &watched{name: name, val: a, whole: snapshot(a)})
		}
	}
	return
}

func aliasSource(steps []numStep) string {
	src, _ := numfSource(steps)
	return src
}

// insideBacking: out is a slice with capacity whose first element lies in the backing array
func insideBacking(out any, backing reflect.Value) bool {
	if out == nil || !backing.IsValid() || backing.Len() == 0 {
		return false
	}
	rv := reflect.ValueOf(out)
	if rv.Kind() != reflect.Slice || rv.Cap() == 0 {
		return false
	}
	lo := backing.Pointer()
	hi := lo + uintptr(backing.Len())*backing.Type().Elem().Size()
	p := rv.Pointer()
	return lo <= p && p < hi
}

func aliasCase(r *Run, line string, c aliasCaseT) string {
	b, ws, backing := aliasRealise(c)
	whole := snapshot(b)
	src := aliasSource(c.steps)
	out, err, panicked := evalOn(src, b)
	var changed []string
	for _, w := range ws {
		changed = append(changed, w.changed()...)
	}
	// the oracle: nothing the caller owns may differ
	if len(changed) > 0 || snapshot(b) != whole {
		detail := fmt.Sprintf("{{ %s }} changed the caller's memory at %s (x = backing[%d:%d] of %d elements): %s", src,
			strings.Join(changed, ","), c.off, c.off+len(c.recv.Xs), c.off+len(c.recv.Xs)+c.spare, snapshotDiff(whole, snapshot(b)))
		r.Count("violation:input-modified")
		r.Violate("C15", "input-modified", line, detail)
		r.Violate("C03", "bindings-modified", line, detail)
	}
	switch {
	case panicked:
		r.Violate("C15", "panic", line, firstLine(lastPanic))
		return "panic"
	case err != nil:
		return "err " + filterCauseKind(err)
	}
	al := 0
	if insideBacking(out, backing) {
		al = 1
		r.Count("result-aliases-receiver")
	}
	ch := "-"
	if len(changed) > 0 {
		ch = strings.Join(changed, ",")
	}
	return guard(func() string { return fmt.Sprintf("ok %s alias=%d changed=%s", Reify(out).Enc(), al, ch) })
}

// ---- generation -----------------------------------------------------------------------------

func aliasCalls() []numStep {
	i := func(n int64) *V { return VInt(0, n) }
	c := func(name string, arg *V) numStep { return numStep{Name: name, Arg: arg} }
	return []numStep{
		c("compact", nil), c("reverse", nil), c("first", nil), c("last", nil), c("uniq", nil), c("size", nil),
		c("concat", nil), c("concat", VAnys(i(1), VStr("a"), VNil())), c("concat", VAnys()), c("concat", VNil()), c("concat", VRange(1, 2)), c("concat", VSlice(TStr, VStr("z"))),
		c("join", nil), c("join", VStr(",")), c("map", VStr("k")), c("map", VStr("size")),
		c("sort", nil), c("sort", VStr("k")), c("sort_natural", nil), c("sort_natural", VStr("k")),
		c("default", VAnys(i(9))), c("default", nil), c("default", VSlice(TInt(0), i(7))),
	}
}

func aliasStream(r *Run) {
	g := NewRNG(r.Seed, "alias")
	thorough := r.Tier == "thorough"
	do := func(c aliasCaseT, kind string) {
		if !r.Mine() {
			return
		}
		line := c.line()
		res := aliasCase(r, line, c)
		r.Count("gen=" + kind)
		r.Count(fmt.Sprintf("chainlen=%d", len(c.steps)))
		r.Count("recv=" + repName(c.recv))
		if isPlainSlice(c.recv) {
			r.Count(fmt.Sprintf("spare=%d", c.spare))
			r.Count(fmt.Sprintf("off=%d", c.off))
		}
		for _, s := range c.steps {
			r.Count("filter=" + s.Name)
		}
		r.Count("result=" + strings.SplitN(res, " ", 2)[0])
		if strings.HasPrefix(res, "ok") {
			r.Nontrivial(line)
		}
		r.Emit(line, res)
	}
	for _, l := range corpusLines("alias") {
		if f := strings.Fields(l); len(f) >= 2 && r.Mine() {
			r.Count("gen=corpus")
			r.Emit(l, replayers["alias"](r, f))
		}
	}
	i := func(n int64) *V { return VInt(0, n) }
	calls := aliasCalls()
	layouts := [][2]int{{0, 0}, {0, 2}, {0, 1}, {2, 3}, {1, 0}, {0, 7}}
	// (1) every array of length 0..2 (thorough: 0..3) over the nine-element universe, in every layout, x every call;
	//     the other representations of the same contents x every call
	u := arrElemUniverse()
	maxLen := 2
	if thorough {
		maxLen = 3
	}
	for n := 0; n <= maxLen; n++ {
		total := 1
		for k := 0; k < n; k++ {
			total *= len(u)
		}
		for code := 0; code < total; code++ {
			xs := make([]*V, n)
			cc := code
			for k := n - 1; k >= 0; k-- {
				xs[k] = u[cc%len(u)]
				cc /= len(u)
			}
			reps := arrReps(xs, true)
			for _, call := range calls {
				for _, lay := range layouts {
					do(aliasCaseT{lay[0], lay[1], reps[0], []numStep{call}}, "exhaustive")
				}
				for _, rep := range reps[1:] {
					c := aliasCaseT{0, 0, rep, []numStep{call}}
					if isPlainSlice(rep) {
						c.off, c.spare = 1, 2
					}
					do(c, "representations")
				}
			}
		}
	}
	// (2) fixed family: nested arrays, arrays of maps, drops, duplicates: every call, and the two-step pipelines
	//     in which the first step hands an element or its input on to the second
	fixed := []*V{
		VAnys(VAnys(i(2), i(1)), VAnys(i(1)), VAnys()), VAnys(VAnys(i(3), VNil(), i(1)), i(5)), VAnys(VSlice(TInt(0), i(2), i(1)), VAnys(VStr("b"), VStr("a"))),
		VAnys(VStrMap(SKV("k", i(2))), VStrMap(SKV("k", i(1))), VStrMap()), VAnys(VStrMap(SKV("k", VAnys(i(2), i(1)))), VStrMap(SKV("k", VAnys(i(1))))),
		VAnys(VDrop(VStr("x")), VNil(), VDrop(i(1))), VAnys(VDrop(VAnys(i(2), i(1))), VAnys(i(1))), VAnys(i(3), i(1), i(2), i(1), VNil(), i(3)),
		VAnys(VStr("b"), VStr("a"), VStr("B"), VStr("a")), VAnys(), VSlice(TInt(0), i(3), i(1), i(2)), VSlice(TStr, VStr("b"), VStr("a")), VSlice(TAny, VDrop(i(2)), i(1)),
		VArr(TAny, i(2), VNil(), i(1)), VNil(), VRange(1, 4), VRange(3, 1), VMapSlice(SKV("a", i(2)), SKV("b", VNil())), VStrMap(SKV("b", i(1)), SKV("a", i(2))),
		VStr("abc"), i(5), VAnys(VBool(false)), VAnys(VNil(), VNil()),
	}
	seconds := []numStep{{"sort", nil}, {"reverse", nil}, {"compact", nil}, {"uniq", nil}, {"concat", VAnys(i(8))}, {"sort_natural", nil}, {"first", nil}, {"join", VStr(",")}, {"map", VStr("k")}, {"default", VAnys(i(9))}}
	for _, recv := range fixed {
		for _, lay := range layouts[:4] {
			if !isPlainSlice(recv) && lay != layouts[0] {
				continue
			}
			for _, call := range calls {
				do(aliasCaseT{lay[0], lay[1], recv, []numStep{call}}, "fixed")
			}
			for _, first := range []numStep{{"first", nil}, {"last", nil}, {"default", VAnys(i(9))}, {"default", nil}, {"compact", nil}, {"concat", VAnys()}, {"map", VStr("k")}} {
				for _, second := range seconds {
					do(aliasCaseT{lay[0], lay[1], recv, []numStep{first, second}}, "fixed-pipeline")
				}
			}
		}
	}
	// (3) random receivers x random chains of 2..4 filters
	n := 6000
	if thorough {
		n = 150000
	}
	mu := mapElemUniverse()
	relem := func() *V {
		switch g.Intn(14) {
		case 0, 1, 2:
			return u[g.Intn(len(u))]
		case 3:
			return i(int64(g.Intn(7) - 3))
		case 4:
			return VInt(g.Intn(10), int64(g.Intn(4)))
		case 5:
			return VFlt(g.Intn(2), float64(g.Intn(9)-4)/2)
		case 6:
			return VStr(g.Pick([]string{"", "a", "A", "b", "ab", "aB", "10", "9", "1", " ", "_", "Z", "z"}))
		case 7:
			return VNil()
		case 8:
			return VBool(g.Bool())
		case 9:
			return VAnys(i(int64(g.Intn(3))), i(int64(g.Intn(3))))
		case 10:
			return VStrMap(SKV("k", []*V{i(1), i(2), VStr("a"), VNil(), VFlt(1, 1.5), VAnys(i(2), i(1))}[g.Intn(6)]))
		case 11:
			return VDrop([]*V{i(1), VStr("a"), VNil(), VStrMap(SKV("k", i(1))), VAnys(i(1))}[g.Intn(5)])
		case 12:
			return VMapSlice(SKV("k", i(int64(g.Intn(3)))))
		default:
			return mu[g.Intn(len(mu))]
		}
	}
	rarr := func() []*V {
		k := g.Intn(9)
		xs := make([]*V, k)
		homo := g.Intn(4)
		for j := range xs {
			switch homo {
			case 0:
				xs[j] = i(int64(g.Intn(5) - 2))
			case 1:
				xs[j] = VStr(g.Pick([]string{"a", "B", "b", "A", "c", "ab", ""}))
			default:
				xs[j] = relem()
			}
		}
		return xs
	}
	chainNames := []string{"compact", "concat", "reverse", "uniq", "sort", "sort_natural", "first", "last", "size", "join", "map", "default"}
	for k := 0; k < n; k++ {
		xs := rarr()
		reps := arrReps(xs, true)
		x := reps[0]
		if g.Chance(25) {
			x = reps[g.Intn(len(reps))]
		}
		c := aliasCaseT{recv: x}
		if isPlainSlice(x) {
			c.off, c.spare = []int{0, 0, 0, 1, 3}[g.Intn(5)], []int{0, 1, 2, 2, 4, 9}[g.Intn(6)]
		}
		ns := 2 + g.Intn(3)
		if g.Chance(15) {
			ns = 1
		}
		for j := 0; j < ns; j++ {
			name := chainNames[g.Intn(len(chainNames))]
			if j < ns-1 && !returnsArray[name] && name != "default" && g.Chance(80) {
				name = []string{"compact", "concat", "reverse", "uniq", "sort", "sort_natural", "default"}[g.Intn(7)]
			}
			st := numStep{Name: name}
			switch name {
			case "concat", "default":
				if g.Chance(85) {
					ys := rarr()
					if len(ys) > 3 {
						ys = ys[:3]
					}
					st.Arg = VAnys(ys...)
					if g.Chance(10) {
						st.Arg = []*V{VNil(), VRange(1, 2), VSlice(TInt(0), i(4)), VArr(TAny, i(1))}[g.Intn(4)]
					}
				}
			case "join":
				if g.Bool() {
					st.Arg = VStr(g.Pick([]string{",", "", ", ", "-"}))
				}
			case "map":
				st.Arg = VStr(g.Pick([]string{"k", "size", "o"}))
			case "sort", "sort_natural":
				if g.Chance(25) {
					st.Arg = VStr("k")
				}
			}
			c.steps = append(c.steps, st)
		}
		do(c, "random")
	}
}
