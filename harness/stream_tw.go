package main

import (
	"bytes"
	"encoding/hex"
	"strings"
	"unicode/utf8"

	"github.com/osteele/liquid/render"
)

func init() {
	streams["tw"] = twStream
	replayers["tw"] = func(r *Run, f []string) string { return twCase(r, f[1], strings.Join(f, " ")) }
}

// recWriter records every underlying Write call.
type recWriter struct{ calls [][]byte }

func (w *recWriter) Write(b []byte) (int, error) {
	w.calls = append(w.calls, append([]byte(nil), b...))
	return len(b), nil
}

// twOp is one parsed operation of a case line: kind 'w' (with bytes), 'L', 'R', 'F' or 'v' (WriteVerbatim, with bytes).
type twOp struct {
	kind byte
	b    []byte
}

func parseTwOps(opsF string) []twOp {
	if opsF == "-" {
		return nil
	}
	var ops []twOp
	for _, f := range strings.Split(opsF, ",") {
		o := twOp{kind: f[0]}
		if o.kind == 'w' || o.kind == 'v' {
			o.b, _ = hex.DecodeString(f[1:])
		}
		ops = append(ops, o)
	}
	return ops
}

func showTwOps(ops []twOp) string {
	if len(ops) == 0 {
		return "-"
	}
	parts := make([]string, len(ops))
	for i, o := range ops {
		parts[i] = string(o.kind)
		if o.kind == 'w' || o.kind == 'v' {
			parts[i] += hex.EncodeToString(o.b)
		}
	}
	return strings.Join(parts, ",")
}

// runRealTW drives the REAL trimWriter (through the verif hook) with an operation list followed
// by the final flush and returns the underlying write calls.
func runRealTW(ops []twOp) [][]byte {
	rw := &recWriter{}
	tw := render.NewVerifTrimWriter(rw)
	for _, o := range ops {
		switch o.kind {
		case 'w':
			tw.Write(o.b)
		case 'v':
			tw.WriteVerbatim(o.b)
		case 'L':
			tw.TrimLeft()
		case 'R':
			tw.TrimRight()
		case 'F':
			tw.Flush()
		}
	}
	tw.Flush()
	return rw.calls
}

// twCase runs the real trimWriter on the case, evaluates the C13 oracles on what it wrote, and
// reports the underlying write calls (compared with TW.step of the model).
func twCase(r *Run, opsF, caseLine string) string {
	return guard(func() string {
		ops := parseTwOps(opsF)
		var plain bytes.Buffer  // what a marker-free run would have written
		valid, trims := true, 0 // every write is valid UTF-8 (the hypothesis ValidOps of Proofs/C13.lean)
		for _, o := range ops {
			switch o.kind {
			case 'w', 'v':
				plain.Write(o.b)
				valid = valid && utf8.Valid(o.b)
			case 'L', 'R':
				trims++
			}
		}
		calls := runRealTW(ops)
		parts := make([]string, len(calls))
		for i, c := range calls {
			parts[i] = "w" + hex.EncodeToString(c)
		}
		out := bytes.Join(calls, nil)
		twOracle(r, caseLine, plain.Bytes(), out, valid, trims)
		if valid {
			twAdjacentOracle(r, caseLine, ops, out)
		}
		twLastWriteOracle(r, caseLine, ops, out)
		twVerbatimOracle(r, caseLine, ops, calls)
		if len(parts) == 0 {
			return "-"
		}
		return strings.Join(parts, ",")
	})
}

// pieces for random writes: ASCII and Unicode whitespace (every class of unicode.IsSpace), near
// misses that are NOT whitespace (U+200B, U+180E, U+FEFF, U+00A1, U+2027), text, and invalid UTF-8
// (lone lead / continuation bytes that can join across writes, overlong and surrogate forms).
var twPieces = []string{"", " ", "  ", "\n", "\t", "\v", "\f", "\r\n", "x", " x", "x ", " x ", "a b", "z",
	"\u00a0", "\u0085", "\u1680", "\u2000", "\u2003y", "\u200a", "\u2028", "\u2029", "\u202f", "\u205f", "\u3000",
	"\u200b", "\u180e", "\ufeff", "\u00a1", "\u2027", "\u3001",
	"\u00e9 ", " \U0001F600", "\u00a0x\u00a0", " \u3000 ",
	"\xc2", "\xa0", "\x85", "\xe2\x80", "\xe2", "\x80\xa8", "\xa8", "\xe3\x80", "\x80", " \xff ", "\xc0\xa0", "\xed\xa0\x80", "\xf0\x9f"}

// alphabet of the exhaustive write enumeration: every string of at most two units over these
// (NBSP as a whole rune, and its two bytes separately so that trimming can join them)
var twUnits = []string{" ", "\n", "\u00a0", "x", "\xc2", "\xa0"}

func twStream(r *Run) {
	g := NewRNG(r.Seed, "tw")
	emit := func(ops []string) {
		if !r.Mine() {
			return
		}
		f := strings.Join(ops, ",")
		if len(ops) == 0 {
			f = "-"
		}
		cl := "tw " + f
		r.Count("ops=" + sizeBucket(len(ops)))
		r.Nontrivial(cl)
		r.Emit(cl, twCase(r, f, cl))
	}
	for _, c := range corpusLines("tw") {
		if f := strings.Fields(c); len(f) == 2 && r.Mine() {
			r.Emit(c, twCase(r, f[1], c))
		}
	}
	var rec func(alpha, prefix []string, n int)
	rec = func(alpha, prefix []string, n int) {
		emit(prefix)
		if n == 0 {
			return
		}
		for _, a := range alpha {
			rec(alpha, append(append([]string(nil), prefix...), a), n-1)
		}
	}
	// exhaustive 1: all op lists of length <= 5 (thorough: 6) over a small op alphabet
	alpha := []string{"L", "R", "F", "w", "w20", "w78", "w2078", "w7820", "w0a20", "v", "v207820"}
	depth := 5
	if r.Tier == "thorough" {
		depth = 6
	}
	rec(alpha, nil, depth)
	// exhaustive 2: all op lists of length <= 3 (thorough: 4) whose writes are all strings of <= 2 units
	// over twUnits (43 writes + L, R, F)
	wide := []string{"L", "R", "F", "w"}
	for _, a := range twUnits {
		wide = append(wide, "w"+hex.EncodeToString([]byte(a)))
		for _, b := range twUnits {
			wide = append(wide, "w"+hex.EncodeToString([]byte(a+b)))
		}
	}
	depth = 3
	if r.Tier == "thorough" {
		depth = 4
	}
	rec(wide, nil, depth)
	// exhaustive 3: the shapes behind the adjacency theorems with every pair of wide writes:
	// w1 [R] w2 L, w1 R [L|F] w2, w1 R w2 R w3 (quick: the first two)
	ws := wide[3:]
	for _, w1 := range ws {
		for _, w2 := range ws {
			emit([]string{w1, "R", w2, "L", "w78"})
			emit([]string{w1, "R", "L", w2, "L"})
			emit([]string{w1, "R", "F", w2, "L"})
			emit([]string{w1, "L", "R", w2, "w78", "L"})
			// a verbatim write between a right and a left trim, after and before ordinary writes
			emit([]string{w1, "R", "v" + w2[1:], "L", "w2078"})
			emit([]string{"R", "v" + w1[1:], "v" + w2[1:], "L"})
		}
	}
	n := 50000
	if r.Tier == "thorough" {
		n = 500000
	}
	for i := 0; i < n; i++ {
		k := g.Intn(12)
		ops := make([]string, k)
		for j := range ops {
			switch g.Intn(10) {
			case 0, 1:
				ops[j] = "L"
			case 2, 3:
				ops[j] = "R"
			case 4:
				ops[j] = "F"
			case 5:
				s := g.Pick(twPieces)
				for g.Chance(30) {
					s += g.Pick(twPieces)
				}
				ops[j] = "v" + hex.EncodeToString([]byte(s))
			default:
				s := g.Pick(twPieces)
				for g.Chance(30) {
					s += g.Pick(twPieces)
				}
				ops[j] = "w" + hex.EncodeToString([]byte(s))
			}
		}
		emit(ops)
	}
}
