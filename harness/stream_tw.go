package main

import (
	"bytes"
	"encoding/hex"
	"strings"

	"github.com/osteele/liquid/render"
)

func init() {
	streams["tw"] = twStream
	replayers["tw"] = func(r *Run, f []string) string { return twCase(r, f[1], strings.Join(f, " ")) }
}

// recWriter records every underlying Write call.
type recWriter struct{ calls [][]byte }

func (w *recWriter) Write(b []byte) (int, error) {
	w.calls = append(w.calls, append([]byte(nil), b...))
	return len(b), nil
}

// twCase drives the REAL trimWriter (through the verif hook) with an operation list followed by
// the final flush, and reports the underlying write calls.
func twCase(r *Run, opsF, caseLine string) string {
	return guard(func() string {
		rw := &recWriter{}
		tw := render.NewVerifTrimWriter(rw)
		var plain bytes.Buffer // what a marker-free run would have written
		ops := strings.Split(opsF, ",")
		if opsF == "-" {
			ops = nil
		}
		for _, op := range ops {
			switch op[0] {
			case 'w':
				b, _ := hex.DecodeString(op[1:])
				tw.Write(b)
				plain.Write(b)
			case 'L':
				tw.TrimLeft()
			case 'R':
				tw.TrimRight()
			case 'F':
				tw.Flush()
			}
		}
		tw.Flush()
		var out bytes.Buffer
		parts := make([]string, len(rw.calls))
		for i, c := range rw.calls {
			parts[i] = "w" + hex.EncodeToString(c)
			out.Write(c)
		}
		twOracle(r, caseLine, plain.Bytes(), out.Bytes())
		if len(parts) == 0 {
			return "-"
		}
		return strings.Join(parts, ",")
	})
}

var twPieces = []string{"", " ", "  ", "\n", "\t", "x", " x", "x ", " x ", " ", " y", "a b", "\r\n", "é ", " 😀", "\xc2", "\xa0", "\xe2\x80", " \xff ", "z"}

func twStream(r *Run) {
	g := NewRNG(r.Seed, "tw")
	emit := func(ops []string) {
		if !r.Mine() {
			return
		}
		f := strings.Join(ops, ",")
		if len(ops) == 0 {
			f = "-"
		}
		cl := "tw " + f
		r.Count("ops=" + sizeBucket(len(ops)))
		r.Nontrivial(cl)
		r.Emit(cl, twCase(r, f, cl))
	}
	for _, c := range corpusLines("tw") {
		if f := strings.Fields(c); len(f) == 2 && r.Mine() {
			r.Emit(c, twCase(r, f[1], c))
		}
	}
	// exhaustive: all op lists of length <= 4 over a small op alphabet
	alpha := []string{"L", "R", "F", "w", "w20", "w78", "w2078", "w7820", "w0a20"}
	var rec func(prefix []string, n int)
	rec = func(prefix []string, n int) {
		emit(prefix)
		if n == 0 {
			return
		}
		for _, a := range alpha {
			rec(append(append([]string(nil), prefix...), a), n-1)
		}
	}
	depth := 4
	if r.Tier == "thorough" {
		depth = 5
	}
	rec(nil, depth)
	n := 20000
	if r.Tier == "thorough" {
		n = 200000
	}
	for i := 0; i < n; i++ {
		k := g.Intn(12)
		ops := make([]string, k)
		for j := range ops {
			switch g.Intn(10) {
			case 0, 1:
				ops[j] = "L"
			case 2, 3:
				ops[j] = "R"
			case 4:
				ops[j] = "F"
			default:
				s := g.Pick(twPieces)
				if g.Chance(30) {
					s += g.Pick(twPieces)
				}
				ops[j] = "w" + hex.EncodeToString([]byte(s))
			}
		}
		emit(ops)
	}
}
