package main

// Seeded generator of programs in the structured language of ref_prog.go, in three flavours:
// conditional programs (C10), loop nestings (C11) and scoping programs (C12).

import (
	"fmt"
)

const (
	pgCond = iota
	pgLoops
	pgScope
)

type loopVarInfo struct {
	name string
	ints bool // every item is a Go int
}

type pgen struct {
	g         *RNG
	mode      int
	env       map[string]*V
	depth     int
	loopDepth int
	maxDepth  int
	maxLoop   int
	marker    int
	loops     []loopVarInfo
	inInclude bool
	inCapture bool // inside a capture body nothing that may hold captured text is printed (size discipline: no doubling)
	files     map[string][]pnode
	fileOrder []string
	opaque    *gctx    // source of opaque conditions (cond programs)
	fixed     []*pcond // conditions to be measured by probe renders
	budget    int
	truthVars []string // names bound to universe values (cond)
	caseVars  []string // names bound to simple scalars (cond)
	notes     map[string]bool
}

func (p *pgen) note(s string) { p.notes[s] = true }

func (p *pgen) mark() pText {
	p.marker++
	return pText{fmt.Sprintf("[%d]", p.marker)}
}

func (p *pgen) inLoop() bool { return p.loopDepth > 0 }

// ---- environments --------------------------------------------------------------------------

var falsyReprs = []*V{VNil(), VBool(false), VDrop(VNil()), VNilPtr(), VDrop(VBool(false)), VPtr(VBool(false))}

func smallScalar(g *RNG) *V {
	switch g.Intn(10) {
	case 0, 1, 2, 3:
		return VInt(0, int64(g.Intn(5)))
	case 4, 5:
		return VStr(g.Pick([]string{"a", "b", "", "x"}))
	case 6:
		return VBool(g.Bool())
	case 7:
		return VNil()
	case 8:
		return VInt(4, int64(g.Intn(4)))
	default:
		return VFlt(1, []float64{0.5, 1.5, 2, 1}[g.Intn(4)])
	}
}

func intArray(g *RNG, n int) *V {
	xs := make([]*V, n)
	for i := range xs {
		xs[i] = VInt(0, int64(g.Intn(9)))
	}
	switch g.Intn(4) {
	case 0:
		return VSlice(TInt(0), xs...)
	case 1:
		if n > 0 {
			return VArr(TInt(0), xs...)
		}
	}
	return VAnys(xs...)
}

func strArray(g *RNG, n int) *V {
	xs := make([]*V, n)
	for i := range xs {
		xs[i] = VStr(g.Pick([]string{"a", "b", "c", "dd", "e", ""}))
	}
	if g.Chance(30) {
		return VSlice(TStr, xs...)
	}
	return VAnys(xs...)
}

func (p *pgen) makeEnv() {
	g := p.g
	env := map[string]*V{}
	switch p.mode {
	case pgCond:
		u := condUniverse()
		for i := 0; i < 6; i++ {
			name := fmt.Sprintf("t%d", i)
			if g.Chance(40) {
				env[name] = falsyReprs[g.Intn(len(falsyReprs))]
			} else {
				env[name] = u[g.Intn(len(u))]
			}
			p.truthVars = append(p.truthVars, name)
		}
		for i := 0; i < 4; i++ {
			name := fmt.Sprintf("c%d", i)
			env[name] = smallScalar(g)
			p.caseVars = append(p.caseVars, name)
		}
		n := g.Intn(5)
		xs := make([]*V, n)
		for i := range xs {
			xs[i] = []*V{VInt(0, 1), VInt(0, 2), VNil(), VBool(false), VStr(""), VInt(0, 0), VStr("s"), VBool(true)}[g.Intn(8)]
		}
		env["ca"] = VAnys(xs...)
		env["cn"] = intArray(g, g.Intn(5))
		env["pz"] = VInt(0, int64(g.Intn(5)))
	case pgLoops:
		env["xs"] = intArray(g, g.Intn(6))
		env["ss"] = strArray(g, g.Intn(5))
		nm := g.Intn(4)
		var kvs [][2]*V
		for _, k := range []string{"b", "a", "k10", "Z"}[:nm] {
			kvs = append(kvs, SKV(k, VInt(0, int64(g.Intn(9)))))
		}
		if g.Bool() {
			env["mp"] = VMap(TStr, TInt(0), kvs...)
		} else {
			env["mp"] = VStrMap(kvs...)
		}
		env["e0"] = VAnys()
		env["nl"] = VNil()
		env["lo"] = VInt(0, int64(g.Intn(5)-1))
		env["hi"] = VInt(0, int64(g.Intn(6)))
		env["oo"] = VInt(0, int64(g.Intn(5)-1))
		env["nn"] = VInt(0, int64(g.Intn(6)-1))
		env["cc"] = VInt(0, int64(g.Intn(4)))
		env["ms"] = VMapSlice(SKV("q", VInt(0, 1)), SKV("p", VStr("x")))
		env["km"] = VKeyed(Field{"k1", VInt(0, 1)}, Field{"k2", VInt(0, 2)}) // the codec keeps the fields of a keyed map sorted
	case pgScope:
		for _, n := range []string{"a", "b"} {
			if g.Chance(60) {
				env[n] = []*V{VInt(0, int64(g.Intn(9))), VStr("s" + n), VBool(true)}[g.Intn(3)]
			}
		}
		if g.Chance(30) {
			env["forloop"] = VStr("F")
		}
		if g.Chance(30) {
			env["i"] = VStr("I")
		}
		env["xs"] = intArray(g, g.Intn(5))
		env["ss"] = strArray(g, g.Intn(4))
		env["mp"] = VStrMap(SKV("y", VInt(0, 2)), SKV("x", VInt(0, 1)))
	}
	if _, ok := env["pz"]; !ok {
		env["pz"] = VInt(0, 3)
	}
	p.env = env
}

// ---- expressions and conditions ------------------------------------------------------------

// staticTruth of a condition: +1 always truthy, -1 always falsy, 0 not known when generating.
type gcond struct {
	c      *pcond
	static int
}

var truthLits = []struct {
	e pexpr
	t int
}{{litNil(), -1}, {litBool(false), -1}, {litBool(true), 1}, {litInt(0), 1}, {litInt(1), 1}, {litStr(""), 1}, {litStr("a"), 1},
	{eLit{VFlt(1, 1.5), "1.5"}, 1}, {pv("undefined_zz"), -1}}

func (p *pgen) genCond() gcond {
	g := p.g
	r := g.Intn(100)
	switch {
	case p.mode == pgCond && r < 35:
		name := p.truthVars[g.Intn(len(p.truthVars))]
		st := -1
		if refTruthy(p.env[name]) {
			st = 1
		}
		p.note("cond=var")
		return gcond{condTruth(pv(name)), st}
	case r < 50:
		l := truthLits[g.Intn(len(truthLits))]
		p.note("cond=literal")
		return gcond{condTruth(l.e), l.t}
	case r < 72 && p.inLoop():
		lv := p.loops[len(p.loops)-1]
		switch g.Intn(5) {
		case 0:
			p.note("cond=loopvar")
			return gcond{condTruth(pv(lv.name)), 0}
		case 1:
			p.note("cond=forloop.first")
			return gcond{condTruth(pf("forloop", "first")), 0}
		case 2:
			p.note("cond=forloop.last")
			return gcond{condTruth(pf("forloop", "last")), 0}
		default:
			p.note("cond=int-compare")
			op := g.Pick([]string{"==", "!=", "<", ">", "<=", ">="})
			return gcond{condCmp(pf("forloop", g.Pick([]string{"index", "index0", "rindex", "length"})), op, litInt(int64(g.Intn(4)))), 0}
		}
	case p.mode == pgCond && r < 92 && p.opaque != nil:
		c := &pcond{Kind: ckFixed, Src: opaqueCond(p.opaque), Val: -2}
		p.fixed = append(p.fixed, c)
		p.note("cond=measured-expression")
		return gcond{c, 0}
	case p.mode != pgCond && r < 80:
		name := g.Pick([]string{"a", "b", "c", "xs", "nl", "e0"})
		p.note("cond=var")
		return gcond{condTruth(pv(name)), 0}
	}
	l := truthLits[g.Intn(len(truthLits))]
	p.note("cond=literal")
	return gcond{condTruth(l.e), l.t}
}

// opaqueCond: comparisons, contains and and/or over the variables of a generated schema; the
// result is a Go bool whose value the stream measures with a probe render.
func opaqueCond(c *gctx) string {
	out := opaqueRel(c)
	for n := 0; n < 2 && c.g.Chance(30); n++ {
		out += " " + c.g.Pick([]string{"and", "or"}) + " " + opaqueRel(c)
	}
	return out
}

func opaqueRel(c *gctx) string {
	g := c.g
	switch g.Intn(11) {
	case 0, 1, 2:
		k := []vkind{kNum, kInt, kNum}[g.Intn(3)]
		return c.primary(k, 1) + " " + g.Pick(cmpOps) + " " + c.primary(k, 1)
	case 3, 4:
		return c.primary(kStr, 1) + " " + g.Pick(cmpOps) + " " + c.primary(kStr, 1)
	case 5:
		return c.primary(kStr, 1) + " contains " + c.primary(kStr, 1)
	case 6:
		if g.Bool() {
			return c.primary(kArrS, 1) + " contains " + c.primary(kStr, 1)
		}
		return c.primary(kArrN, 1) + " contains " + c.primary(kInt, 1)
	case 7:
		return c.primary(kMap, 1) + " contains " + c.quote(g.Pick(genKeys[:8]))
	case 8:
		return c.primary(kAny, 1) + " " + g.Pick([]string{"==", "!="}) + " " + g.Pick([]string{"nil", "empty", "blank", "false", "true"})
	case 9:
		return c.primary(kAny, 1) + " " + g.Pick(cmpOps) + " " + c.primary(kAny, 1)
	default:
		k := []vkind{kArr, kArrN, kArrS}[g.Intn(3)]
		return c.primary(k, 1) + " " + g.Pick([]string{"==", "!="}) + " " + c.primary(k, 1)
	}
}

// printable: an expression whose value the reference can print.
func (p *pgen) printable() pexpr {
	g := p.g
	if p.inLoop() && g.Chance(60) {
		lv := p.loops[g.Intn(len(p.loops))]
		if g.Chance(40) || p.inCapture && (lv.name == "a" || lv.name == "b" || lv.name == "c") {
			return pf("forloop", g.Pick([]string{"index", "index0", "rindex", "rindex0", "length", "first", "last"}))
		}
		return pv(lv.name)
	}
	switch p.mode {
	case pgCond:
		return pv(g.Pick([]string{"pz", "cn"}))
	case pgLoops:
		return g.PickE([]pexpr{pv("xs"), pv("ss"), pv("lo"), pv("acc"), pf("xs", "size"), pf("xs", "first"), pidx("ss", 0), litInt(7)})
	}
	if p.inCapture {
		return g.PickE([]pexpr{pv("i"), pv("k"), pv("xs"), litStr("lit"), pf("ss", "last")})
	}
	return g.PickE([]pexpr{pv("a"), pv("b"), pv("c"), pv("xs"), litStr("lit"), pf("ss", "last")})
}

func (g *RNG) PickE(xs []pexpr) pexpr { return xs[g.Intn(len(xs))] }

// ---- nodes ---------------------------------------------------------------------------------

func (p *pgen) seq(max int) []pnode {
	n := 1 + p.g.Intn(max)
	var out []pnode
	for i := 0; i < n && p.budget > 0; i++ {
		out = append(out, p.node()...)
	}
	return out
}

func (p *pgen) body() []pnode {
	p.depth++
	defer func() { p.depth-- }()
	m := 3
	if p.depth >= 3 {
		m = 2
	}
	if p.g.Chance(6) {
		// a completely empty body (no marker, no text): `{% when 1 %}{% when 2 %}…`, `{% if a %}{% else %}…`
		p.note("empty-body")
		return nil
	}
	out := []pnode{p.mark()}
	if p.depth < p.maxDepth && p.g.Chance(55) {
		out = append(out, p.seq(m)...)
	}
	return out
}

// probe prints every scoping-relevant name (scope programs).
func (p *pgen) probe() []pnode {
	out := []pnode{pText{"<"}}
	names := []string{"a", "b", "c", "i", "k"}
	if p.inCapture {
		names = []string{"i", "k"}
	}
	for _, n := range names {
		out = append(out, pPrint{pv(n)}, pText{"|"})
	}
	if !p.inInclude && p.loopDepth == 0 {
		out = append(out, pPrint{pv("forloop")})
	} else {
		out = append(out, pPrint{pf("forloop", "index")}, pText{"."}, pPrint{pf("forloop", "length")})
	}
	return append(out, pText{">"})
}

func (p *pgen) node() []pnode {
	p.budget--
	g := p.g
	canNest := p.depth < p.maxDepth
	canLoop := canNest && p.loopDepth < p.maxLoop
	r := g.Intn(100)
	var out []pnode
	switch p.mode {
	case pgCond:
		switch {
		case r < 10:
			out = []pnode{p.mark()}
		case r < 45 && canNest:
			out = []pnode{p.ifChain()}
		case r < 57 && canNest:
			out = []pnode{p.unless()}
		case r < 72 && canNest:
			out = []pnode{p.caseTag()}
		case r < 90 && canLoop:
			out = []pnode{p.forTag(false)}
		default:
			out = []pnode{pText{"("}, pPrint{p.printable()}, pText{")"}}
		}
	case pgLoops:
		switch {
		case r < 30 && canLoop:
			out = []pnode{p.forTag(false)}
		case r < 40 && canLoop:
			out = []pnode{p.forTag(true)}
		case r < 55 && p.inLoop():
			out = []pnode{p.cycle()}
		case r < 67 && p.inLoop() && canNest:
			out = []pnode{p.breakIf()}
		case r < 75 && canNest:
			out = []pnode{p.ifChain()}
		case r < 79 && canNest:
			out = []pnode{p.caseTag()}
		case r < 85:
			out = []pnode{p.assign()}
		default:
			out = []pnode{pText{"("}, pPrint{p.printable()}, pText{")"}}
		}
	case pgScope:
		switch {
		case r < 24:
			out = []pnode{p.assign()}
		case r < 36 && canNest:
			out = []pnode{p.capture()}
		case r < 54 && canLoop:
			out = []pnode{p.forTag(g.Chance(12))}
		case r < 66 && canNest:
			out = []pnode{p.ifChain()}
		case r < 70 && canNest:
			out = []pnode{p.caseTag()}
		case r < 79 && len(p.fileOrder) > 0 && !p.inCapture:
			out = []pnode{pInclude{p.fileOrder[g.Intn(len(p.fileOrder))]}}
			p.note("tag=include")
		case r < 84 && p.inLoop() && canNest:
			out = []pnode{p.breakIf()}
		default:
			out = []pnode{pText{"("}, pPrint{p.printable()}, pText{")"}}
		}
		out = append(out, p.probe()...)
	}
	return out
}

func (p *pgen) ifChain() pnode {
	g := p.g
	p.note("tag=if")
	n := 1 + g.Intn(3)
	if g.Chance(30) {
		n = 1 + g.Intn(6)
	}
	var br []pBranch
	taken := false // an earlier branch is always taken: what follows is never evaluated
	for i := 0; i < n; i++ {
		var c gcond
		if taken && g.Chance(60) || p.mode == pgCond && g.Chance(2) {
			c = gcond{condPoison(g.Pick(poisonConds)), 0}
			p.note("cond=poison")
			if taken {
				p.note("cond=poison-after-taken-branch")
			}
		} else {
			c = p.genCond()
		}
		br = append(br, pBranch{c.c, p.body()})
		if c.static > 0 {
			taken = true
		}
	}
	if g.Chance(50) {
		br = append(br, pBranch{nil, p.body()})
	}
	p.note(fmt.Sprintf("branches=%d", len(br)))
	return pIf{Br: br}
}

func (p *pgen) unless() pnode {
	g := p.g
	p.note("tag=unless")
	c := p.genCond()
	br := []pBranch{{c.c, p.body()}}
	for n := 0; n < 2 && g.Chance(50-20*n); n++ {
		br = append(br, pBranch{nil, p.body()})
	}
	return pIf{Unless: true, Br: br}
}

func (p *pgen) caseVal() pexpr {
	g := p.g
	switch g.Intn(10) {
	case 0, 1, 2, 3:
		return litInt(int64(g.Intn(5)))
	case 4, 5:
		return litStr(g.Pick([]string{"a", "b", "", "x"}))
	case 6:
		return g.PickE([]pexpr{litNil(), litBool(true), litBool(false), eLit{VFlt(1, 1.5), "1.5"}, eLit{VFlt(1, 2), "2.0"}})
	default:
		if len(p.caseVars) > 0 {
			return pv(p.caseVars[g.Intn(len(p.caseVars))])
		}
		return litInt(int64(g.Intn(5)))
	}
}

func (p *pgen) caseTag() pnode {
	g := p.g
	p.note("tag=case")
	var subj pexpr
	var sv *V // the subject's value when it is known while generating
	switch {
	case p.inLoop() && g.Chance(50):
		lv := p.loops[len(p.loops)-1]
		if lv.ints && g.Bool() {
			subj = pv(lv.name)
		} else {
			subj = pf("forloop", g.Pick([]string{"index", "index0", "rindex"}))
		}
	case len(p.caseVars) > 0 && g.Chance(75):
		name := p.caseVars[g.Intn(len(p.caseVars))]
		subj, sv = pv(name), p.env[name]
	default:
		l := litInt(int64(g.Intn(5)))
		subj, sv = l, l.V
	}
	nw := 1 + g.Intn(3)
	if g.Chance(25) {
		nw = 1 + g.Intn(5)
	}
	var whens []pWhen
	matched := false
	for i := 0; i < nw; i++ {
		var vals []pexpr
		nv := 1
		for nv < 3 && g.Chance(30) {
			nv++
		}
		for j := 0; j < nv; j++ {
			if matched && g.Chance(40) {
				vals = append(vals, eRaw{poisonWhen})
				p.note("when=poison-after-match")
				continue
			}
			v := p.caseVal()
			if sv != nil && g.Chance(25) { // make a match likely
				v = subj
				if l, ok := subj.(eLit); ok {
					v = l
				}
			}
			vals = append(vals, v)
			if sv != nil {
				var vv *V
				switch v := v.(type) {
				case eLit:
					vv = v.V
				case ePath:
					vv = p.env[v.Name]
				}
				if vv != nil {
					if eq, ok := refEqual(liquidV(sv), liquidV(vv)); ok && eq {
						matched = true
					}
				}
			}
		}
		whens = append(whens, pWhen{vals, p.body()})
	}
	if g.Chance(50) {
		whens = append(whens, pWhen{nil, p.body()})
	}
	p.note(fmt.Sprintf("whens=%d", len(whens)))
	return pCase{subj, whens}
}

// collection picks what a loop iterates.
func (p *pgen) collection() (e pexpr, ints bool) {
	g := p.g
	switch p.mode {
	case pgCond:
		switch g.Intn(4) {
		case 0:
			return pv("ca"), false
		case 1:
			return pv("cn"), true
		default:
			a := int64(g.Intn(3))
			return eRange{litInt(a), litInt(a + int64(g.Intn(4)) - 1)}, true
		}
	case pgLoops:
		switch g.Intn(14) {
		case 0, 1, 2:
			return pv("xs"), true
		case 3, 4:
			return pv("ss"), false
		case 5:
			return pv("mp"), false
		case 6:
			return g.PickE([]pexpr{pv("e0"), pv("nl"), pv("lo"), pv("undefined_zz"), litStr("abc")}), false
		case 7:
			return eRange{pv("lo"), pv("hi")}, true
		case 8:
			return eRange{litInt(int64(g.Intn(4) - 1)), pv("hi")}, true
		case 9:
			return g.PickE([]pexpr{pv("ms"), pv("km")}), false
		case 10:
			if p.inLoop() {
				return eRange{litInt(1), pf("forloop", "index")}, true
			}
		}
		a := int64(g.Intn(4) - 1)
		return eRange{litInt(a), litInt(a + int64(g.Intn(6)) - 1)}, true
	}
	switch g.Intn(6) {
	case 0, 1:
		return pv("xs"), true
	case 2:
		return pv("ss"), false
	case 3:
		return pv("mp"), false
	case 4:
		return g.PickE([]pexpr{pv("nl"), pv("a")}), false
	}
	a := int64(g.Intn(3))
	return eRange{litInt(a), litInt(a + int64(g.Intn(4)) - 1)}, true
}

func (p *pgen) modArg(varName string, lo, hi int) pexpr {
	g := p.g
	if p.mode == pgLoops && g.Chance(30) {
		return pv(varName)
	}
	return litInt(int64(lo + g.Intn(hi-lo+1)))
}

func (p *pgen) forTag(tablerow bool) pnode {
	g := p.g
	n := pFor{Tablerow: tablerow}
	if tablerow {
		p.note("tag=tablerow")
	} else {
		p.note("tag=for")
	}
	coll, ints := p.collection()
	n.Coll = coll
	switch p.mode {
	case pgScope:
		n.Var = g.Pick([]string{"i", "i", "k", "a", "b", "c", "forloop"})
		if n.Var == "forloop" && !g.Chance(25) {
			n.Var = "i"
		}
	default:
		n.Var = fmt.Sprintf("v%d", p.loopDepth+1)
		if p.loopDepth > 0 && g.Chance(20) {
			n.Var = p.loops[len(p.loops)-1].name // the inner loop shadows the outer loop's variable
			p.note("loop=shadows-outer-variable")
		}
	}
	modPct := 12
	if p.mode == pgLoops {
		modPct = 35
	}
	if g.Chance(modPct) {
		n.Reversed = true
		n.Order = append(n.Order, "reversed")
		p.note("mod=reversed")
	}
	if g.Chance(modPct) {
		n.Offset = p.modArg("oo", -1, 4)
		n.Order = append(n.Order, "offset")
		p.note("mod=offset")
	}
	if g.Chance(modPct) {
		n.Limit = p.modArg("nn", -1, 4)
		n.Order = append(n.Order, "limit")
		p.note("mod=limit")
	}
	if tablerow && g.Chance(70) {
		n.Cols = p.modArg("cc", 0, 3)
		n.Order = append(n.Order, "cols")
		p.note("mod=cols")
	}
	for i := len(n.Order) - 1; i > 0; i-- {
		j := g.Intn(i + 1)
		n.Order[i], n.Order[j] = n.Order[j], n.Order[i]
	}
	p.loopDepth++
	p.loops = append(p.loops, loopVarInfo{n.Var, ints})
	p.depth++
	var body []pnode
	switch p.mode {
	case pgCond:
		body = append([]pnode{pText{"<"}, pPrint{pv(n.Var)}}, p.seq(2)...)
		body = append(body, pText{">"})
	case pgLoops:
		body = []pnode{pPrint{pv(n.Var)}, pText{":"}, pPrint{pf("forloop", "index")}, pText{"/"}, pPrint{pf("forloop", "length")}}
		if g.Chance(35) {
			body = append(body, pText{"~"}, pPrint{pf("forloop", "rindex0")}, pPrint{pf("forloop", "first")}, pPrint{pf("forloop", "last")})
		}
		body = append(body, p.seq(3)...)
		body = append(body, pText{";"})
	default:
		body = append(p.probe(), p.seq(3)...)
	}
	p.depth--
	p.loops = p.loops[:len(p.loops)-1]
	p.loopDepth--
	n.Body = body
	if !tablerow && g.Chance(35) {
		n.HasElse = true
		p.depth++
		n.Else = []pnode{p.mark()}
		if p.mode == pgScope {
			n.Else = append(n.Else, p.assign())
		}
		p.depth--
		p.note("loop=has-else")
	}
	return n
}

func (p *pgen) cycle() pnode {
	g := p.g
	p.note("tag=cycle")
	n := 1 + g.Intn(4)
	vals := make([]string, n)
	for i := range vals {
		vals[i] = g.Pick([]string{"a", "b", "c", "odd", "even", "1", "x"})
	}
	c := pCycle{Vals: vals}
	if g.Chance(45) {
		grp := g.Pick([]string{"g1", "g2", ""})
		c.Group = &grp
		p.note("cycle=grouped")
	}
	return c
}

// breakIf: {% if <cond> %}{% break|continue %}{% endif %}, sometimes nested deeper.
func (p *pgen) breakIf() pnode {
	g := p.g
	var stop pnode = pBreak{}
	what := "break"
	if g.Bool() {
		stop, what = pContinue{}, "continue"
	}
	p.note("tag=" + what)
	var c *pcond
	switch g.Intn(6) {
	case 0:
		c = condTruth(pf("forloop", "first"))
	case 1:
		c = condTruth(pf("forloop", "last"))
	case 2:
		c = condTruth(litBool(true))
	default:
		c = condCmp(pf("forloop", g.Pick([]string{"index", "index0", "rindex"})), g.Pick([]string{"==", ">", "<", ">="}), litInt(int64(g.Intn(4))))
	}
	inner := []pnode{p.mark(), stop}
	switch g.Intn(5) {
	case 0: // below an unless and a case
		p.note(what + "=nested")
		inner = []pnode{pIf{Unless: true, Br: []pBranch{{condTruth(litBool(false)), []pnode{pCase{litInt(1), []pWhen{{[]pexpr{litInt(1)}, inner}}}}}}}}
	case 1: // inside a capture: the captured text is dropped, the loop still ends
		if p.mode != pgCond {
			p.note(what + "=inside-capture")
			inner = []pnode{pCapture{"c", inner}}
		}
	}
	return pIf{Br: []pBranch{{c, inner}}}
}

func (p *pgen) assign() pnode {
	g := p.g
	p.note("tag=assign")
	name := g.Pick([]string{"a", "b", "c"})
	if p.mode == pgLoops {
		name = g.Pick([]string{"acc", "a"})
	}
	var e pexpr
	switch g.Intn(8) {
	case 0, 1:
		e = litInt(int64(g.Intn(100)))
	case 2:
		e = litStr(g.Pick([]string{"p", "q", "rs", ""}))
	case 3:
		e = g.PickE([]pexpr{pv("a"), pv("b"), pv("c"), pv("xs")})
	case 4:
		e = g.PickE([]pexpr{litBool(true), litBool(false), litNil()})
	case 5:
		e = ePlus{litInt(int64(g.Intn(5))), int64(1 + g.Intn(3))}
		if p.inLoop() {
			e = ePlus{pf("forloop", "index"), int64(1 + g.Intn(3))}
		}
	default:
		if p.inLoop() {
			lv := p.loops[g.Intn(len(p.loops))]
			e = g.PickE([]pexpr{pv(lv.name), pf("forloop", "index"), pf("forloop", "rindex0")})
		} else {
			e = litStr("top")
		}
	}
	return pAssign{name, e}
}

func (p *pgen) capture() pnode {
	p.note("tag=capture")
	name := p.g.Pick([]string{"c", "c", "a", "b"})
	p.depth++
	saved := p.inCapture
	p.inCapture = true
	body := append([]pnode{p.mark()}, p.seq(3)...)
	p.inCapture = saved
	p.depth--
	return pCapture{name, body}
}

// genFiles builds the include layout of a scope program: file k may include files < k.
func (p *pgen) genFiles() {
	names := []string{"inc1.liquid", "sub/inc2.liquid"}
	p.files = map[string][]pnode{}
	saved := p.inInclude
	p.inInclude = true
	for _, n := range names[:1+p.g.Intn(2)] {
		savedBudget := p.budget
		p.budget = 6
		body := append([]pnode{pText{"(" + n[:4] + ":"}}, p.probe()...)
		body = append(body, p.seq(3)...)
		body = append(body, pText{")"})
		p.budget = savedBudget
		p.files[n] = body
		p.fileOrder = append(p.fileOrder, n)
	}
	p.inInclude = saved
}

// genProgram builds a whole program of the given flavour.
func genProgram(g *RNG, mode int) *pgen {
	p := &pgen{g: g, mode: mode, notes: map[string]bool{}}
	p.makeEnv()
	switch mode {
	case pgCond:
		p.maxDepth, p.maxLoop, p.budget = 4, 2, 14
		o := DefaultTmplOpts()
		o.MissingVarPct, o.IllTypedPct, o.ValidPct = 0, 2, 100
		sc := GenSchema(g, o)
		for k, v := range GenEnv(g, o, sc) {
			p.env[k] = v
		}
		p.opaque = newGctx(g, o, sc)
		p.opaque.mode = modeValid
	case pgLoops:
		p.maxDepth, p.maxLoop, p.budget = 4, 3, 14
	case pgScope:
		p.maxDepth, p.maxLoop, p.budget = 4, 2, 12
		if g.Chance(55) {
			p.genFiles()
		}
	}
	return p
}
