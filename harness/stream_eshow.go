package main

import (
	"fmt"
	"math/big"
	"strings"

	"github.com/osteele/liquid/expressions"
)

// Stream `eshow` (property C08): the canonical printing of an expression tree.
//
// The harness generates expression TREES, writes each as source text with random spelling (blanks of every
// kind between the lexemes, either quote, leading zeros / trailing fractional zeros on numbers, redundant
// parentheses) and prints the same tree with its own copy of the canonical printer (`lean/Liquid/ExprShow.lean`:
// minimal parentheses, one space between two lexemes except before `.name [ ] , )` and after `( [`, `"` unless
// the string contains one, exact decimal expansion of a float). Case line: `eshow <hex source>`; the expected
// answer is `ok <hex canonical text>` when the real front end accepts the source, `err` when it rejects it.
// The model answers by parsing the source and printing the tree it got (and checks on every case that the
// printed text parses back to the same tree) - so the comparison ties the model's TREE (precedence,
// associativity, which arguments belong to which filter) and its printer to the generator's tree.
// Oracles on the real engine only: the source, the canonical text and a respaced canonical text are accepted
// alike by expressions.Parse, and render to the same bytes (or fail alike) in `{{ e }}`, `{% if e %}`,
// `{% assign x = e %}`, `{% for i in e %}`, `{% case e %}`.

func init() {
	streams["eshow"] = eshowStream
	replayers["eshow"] = func(r *Run, f []string) string { return eshowImpl(unhexField(f[1]), unhexField(f[2])) }
}

type xnode struct {
	kind string // lit var prop index range rel and or filter
	text string // lit: canonical spelling; var/prop/filter: name; rel: operator
	alt  []string
	kids []*xnode // prop: [e]; index: [e,i]; range/rel/and/or: [a,b]; filter: [e, args...]
}

// exact decimal expansion with at least one fractional digit
func exactFloat(f float64) string {
	s := new(big.Float).SetFloat64(f).Text('f', 1100)
	s = strings.TrimRight(s, "0")
	if strings.HasSuffix(s, ".") {
		s += "0"
	}
	return s
}

func xlit(g *RNG) *xnode {
	switch g.Intn(9) {
	case 0:
		return &xnode{kind: "lit", text: "nil"}
	case 1:
		return &xnode{kind: "lit", text: g.Pick([]string{"true", "false"})}
	case 2, 3:
		n := []int64{0, 1, 2, 3, 10, -1, -7, 42, 9223372036854775807, -9223372036854775808}[g.Intn(10)]
		c := fmt.Sprint(n)
		alt := []string{c}
		if n >= 0 {
			alt = append(alt, "0"+c, "00"+c)
		} else {
			alt = append(alt, "-0"+c[1:])
		}
		return &xnode{kind: "lit", text: c, alt: alt}
	case 4:
		f := []float64{1.5, 0.5, 2.25, 3.0, 0.1, -0.125, 100.0, 1e-5, 12345.678, 0.0}[g.Intn(10)]
		c := exactFloat(f)
		alt := []string{c, c + "0", c + "000"}
		if f >= 0 {
			alt = append(alt, "0"+c)
		}
		if f == 0.1 {
			alt = append(alt, "0.1", "0.10")
		}
		if f == 12345.678 {
			alt = append(alt, "12345.678")
		}
		return &xnode{kind: "lit", text: c, alt: alt}
	default:
		s := g.Pick([]string{"", "a", "b", "x y", "it's", "say \"hi\"", "a|b", "1", " ", "and", "é", "a.b", "%}x", "(", "1..2"})
		if strings.Contains(s, "%}") || strings.Contains(s, "}}") {
			s = "a"
		}
		if strings.Contains(s, "\"") {
			return &xnode{kind: "lit", text: "'" + s + "'"}
		}
		alt := []string{"\"" + s + "\""}
		if !strings.Contains(s, "'") {
			alt = append(alt, "'"+s+"'")
		}
		return &xnode{kind: "lit", text: "\"" + s + "\"", alt: alt}
	}
}

var xVars = []string{"a", "b", "s", "n", "arr", "m", "x", "nil_var", "user-name", "ok?", "t", "andy", "_u", "true?", "in-x"}
var xProps = []string{"size", "first", "last", "a", "b", "k", "name", "x-y", "q?", "true", "in", "and"}
var xF0 = []string{"upcase", "downcase", "size", "first", "last", "reverse", "sort", "uniq", "compact", "abs", "ceil", "floor", "round", "strip", "capitalize", "nofilter", "join"}
var xF1 = []string{"append", "prepend", "plus", "minus", "times", "divided_by", "modulo", "join", "split", "default", "slice", "truncate", "remove", "map", "concat", "round", "nofilter", "in", "true"}
var xOps = []string{"==", "!=", "<", ">", "<=", ">=", "contains"}

func xgen(g *RNG, depth int) *xnode {
	k := g.Intn(20)
	if depth <= 0 {
		k = g.Intn(8)
	}
	switch {
	case k < 4:
		return &xnode{kind: "var", text: g.Pick(xVars)}
	case k < 8:
		return xlit(g)
	case k < 10:
		return &xnode{kind: "prop", text: g.Pick(xProps), kids: []*xnode{xgen(g, depth-1)}}
	case k < 12:
		return &xnode{kind: "index", kids: []*xnode{xgen(g, depth-1), xgen(g, depth-1)}}
	case k < 13:
		return &xnode{kind: "range", kids: []*xnode{xgen(g, depth-1), xgen(g, depth-1)}}
	case k < 15:
		return &xnode{kind: "rel", text: g.Pick(xOps), kids: []*xnode{xgen(g, depth-1), xgen(g, depth-1)}}
	case k < 16:
		return &xnode{kind: "and", kids: []*xnode{xgen(g, depth-1), xgen(g, depth-1)}}
	case k < 17:
		return &xnode{kind: "or", kids: []*xnode{xgen(g, depth-1), xgen(g, depth-1)}}
	default:
		if g.Chance(50) {
			return &xnode{kind: "filter", text: g.Pick(xF0), kids: []*xnode{xgen(g, depth-1)}}
		}
		n := &xnode{kind: "filter", text: g.Pick(xF1), kids: []*xnode{xgen(g, depth-1), xgen(g, depth-1)}}
		for g.Chance(30) {
			n.kids = append(n.kids, xgen(g, depth-1))
		}
		return n
	}
}

// the level at which a node is written without parentheses: 0 cond, 1 rel, 2 filtered, 3 expr
func (n *xnode) level() int {
	switch n.kind {
	case "and", "or":
		return 0
	case "rel":
		return 1
	case "filter":
		return 2
	}
	return 3
}

// lexemes of the tree at grammar level lvl; canon = canonical spelling, else a random alternative
// (other quote, other number spelling, redundant parentheses)
func (n *xnode) lex(lvl int, canon bool, g *RNG, out *[]string) {
	paren := n.level() < lvl
	extra := 0
	if !canon && n.kind != "range" {
		for g.Chance(8) {
			extra++
		}
	}
	if paren {
		extra++
	}
	for i := 0; i < extra; i++ {
		*out = append(*out, "(")
	}
	if extra > 0 {
		lvl = 0
	}
	_ = lvl
	switch n.kind {
	case "lit":
		t := n.text
		if !canon && len(n.alt) > 0 {
			t = g.Pick(n.alt)
		}
		*out = append(*out, t)
	case "var":
		*out = append(*out, n.text)
	case "prop":
		n.kids[0].lex(3, canon, g, out)
		*out = append(*out, "."+n.text)
	case "index":
		n.kids[0].lex(3, canon, g, out)
		*out = append(*out, "[")
		n.kids[1].lex(3, canon, g, out)
		*out = append(*out, "]")
	case "range":
		*out = append(*out, "(")
		n.kids[0].lex(3, canon, g, out)
		*out = append(*out, "..")
		n.kids[1].lex(3, canon, g, out)
		*out = append(*out, ")")
	case "rel":
		n.kids[0].lex(3, canon, g, out)
		*out = append(*out, n.text)
		n.kids[1].lex(3, canon, g, out)
	case "and", "or":
		n.kids[0].lex(0, canon, g, out)
		*out = append(*out, n.kind)
		n.kids[1].lex(1, canon, g, out)
	case "filter":
		n.kids[0].lex(2, canon, g, out)
		*out = append(*out, "|")
		if len(n.kids) == 1 {
			*out = append(*out, n.text)
		} else {
			*out = append(*out, n.text+":")
			for i, a := range n.kids[1:] {
				if i > 0 {
					*out = append(*out, ",")
				}
				a.lex(3, canon, g, out)
			}
		}
	}
	for i := 0; i < extra; i++ {
		*out = append(*out, ")")
	}
}

func tightBefore(l string) bool {
	return l == "[" || l == "]" || l == "," || l == ")" || (len(l) > 1 && l[0] == '.' && l != "..")
}
func tightAfter(l string) bool { return l == "(" || l == "[" }

// the canonical layout of ExprShow.lean
func joinCanon(ls []string) string {
	var b strings.Builder
	for i, l := range ls {
		if i > 0 && !tightAfter(ls[i-1]) && !tightBefore(l) {
			b.WriteByte(' ')
		}
		b.WriteString(l)
	}
	return b.String()
}

// a random layout: any blanks between two lexemes, none only where the canonical layout has none
func joinRandom(g *RNG, ls []string) string {
	var b strings.Builder
	b.WriteString(ows(g))
	for i, l := range ls {
		if i > 0 {
			if !tightAfter(ls[i-1]) && !tightBefore(l) {
				w := ws(g)
				if w == "" {
					w = " "
				}
				b.WriteString(w)
			} else if !(len(l) > 1 && l[0] == '.' && l != "..") || g.Chance(50) {
				b.WriteString(ows(g))
			}
		}
		b.WriteString(l)
	}
	b.WriteString(ows(g))
	return b.String()
}

var eshowEnv = map[string]*V{
	"a": VInt(0, 3), "b": VStr("bee"), "s": VStr("hello world"), "n": VInt(0, 5),
	"arr": VAnys(VInt(0, 1), VInt(0, 2), VStr("x"), VNil()),
	"m":   VStrMap([2]*V{VStr("a"), VInt(0, 1)}, [2]*V{VStr("k"), VStr("v")}, [2]*V{VStr("name"), VStr("nm")}, [2]*V{VStr("size"), VInt(0, 9)}),
	"x":   VBool(true), "user-name": VStr("u"), "ok?": VBool(false), "t": VAnys(VStr("p"), VStr("q")), "andy": VFlt(1, 2.5),
	"_u": VAnys(), "true?": VInt(0, 1), "in-x": VStr(""),
}

func eshowContexts(e string) []string {
	return []string{
		"[{{ " + e + " }}]",
		"{% if " + e + " %}T{% else %}F{% endif %}",
		"{% unless " + e + " %}T{% else %}F{% endunless %}",
		"{% assign zz = " + e + " %}<{{ zz }}>",
		"{% for i in " + e + " %}({{ i }}){% else %}E{% endfor %}",
		"{% case " + e + " %}{% when 1 %}one{% when \"a\", true %}a{% else %}other{% endcase %}",
		"{% case 1 %}{% when " + e + " %}hit{% else %}miss{% endcase %}",
	}
}

func eshowVerdict(src string) string {
	return guard(func() string {
		if _, err := expressions.Parse(src); err != nil {
			return "err"
		}
		return "ok"
	})
}

// the expected answer: the generator's canonical text when the real front end accepts the source
func eshowImpl(src, canon string) string {
	v := eshowVerdict(src)
	if v == "ok" {
		return "ok " + hexField(canon)
	}
	return v
}

func eshowStream(r *Run) {
	g := NewRNG(r.Seed, "eshow")
	n := 6000
	if r.Tier == "thorough" {
		n = 60000
	}
	env := RealiseEnv(eshowEnv)
	verdict := eshowVerdict
	// level: the grammar level of the tree (0 cond, 1 rel, 2 filtered, 3 expr), -1 unknown (corpus)
	one := func(src, canon string, kind string, level int) {
		cl := "eshow " + hexField(src) + " " + hexField(canon)
		v := verdict(src)
		res := eshowImpl(src, canon)
		if v == "ok" {
			r.Nontrivial(cl)
		}
		r.Count("kind=" + kind)
		r.Count("res=" + v)
		if v == "panic" {
			r.Violate("C01", "expression-parser-panics", cl, lastPanic)
		}
		if vc := verdict(canon); vc != v {
			r.Violate("C08", "canonical-text-verdict", cl, fmt.Sprintf("source %q: %s, canonical text %q: %s", src, v, canon, vc))
		}
		// a range up to MaxInt64 is a loop / an array the real engine cannot finish: such sources are compared as texts only
		if v == "ok" && !strings.Contains(src, "%}") && !strings.Contains(src, "}}") && !strings.Contains(src, "922337203685477580") {
			ca, cb := eshowContexts(src), eshowContexts(canon)
			for i := range ca {
				// `for` takes a `filtered`, `when` a list of `expr`: the text canonical at level 0 is theirs from level 2 / 3 on
				if (i == 4 && level < 2) || (i == 6 && level < 3) {
					continue
				}
				ra := renderImpl(engineCfg{}, "", 0, ca[i], env)
				rb := renderImpl(engineCfg{}, "", 0, cb[i], env)
				if ra != rb {
					r.Violate("C08", "canonical-text-renders-alike", cl, fmt.Sprintf("%q: %s but %q: %s", ca[i], ra, cb[i], rb))
				}
			}
		}
		r.Emit(cl, res)
	}
	for _, c := range corpusLines("eshow") {
		f := strings.Fields(c)
		if len(f) == 3 && r.Mine() {
			one(unhexField(f[1]), unhexField(f[2]), "corpus", -1)
		}
	}
	for i := 0; i < n; i++ {
		t := xgen(g, 1+g.Intn(4))
		var cl, al []string
		t.lex(0, true, g, &cl)
		t.lex(0, false, g, &al)
		canon := joinCanon(cl)
		variants := [][2]string{{canon, "canon"}, {joinRandom(g, cl), "respaced"}, {joinRandom(g, al), "respelled"}}
		for _, v := range variants {
			if !r.Mine() {
				continue
			}
			one(v[0], canon, v[1], t.level())
		}
	}
}
