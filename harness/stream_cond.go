package main

// Stream `cond` (C10): conditional tags render exactly the first branch whose condition is
// truthy. Every case is a `render` case line; the oracle is the reference of ref_prog.go
// (truthiness table, first-truthy-branch, case equality on simple values, laziness) and the
// if/unless duality between two renders of the real implementation.
//
// Specs:
//   x/if/<u>/<k>/<fb>/<after>   chain of 4 conditions + else; universe value u (bound to x) is the
//                               condition at position k (1 = if, 2..4 = elsif); the first truthy
//                               constant after it sits at position fb (k+1..5, 5 = else; 0 = none
//                               and no else; 9 = a poison condition directly after k, falsy constants
//                               behind it; 8 = every condition after k is poison);
//                               after = t|p: conditions after fb are truthy constants | poison
//   x/unless/<u>/<e>            unless x with e = 0..3 else clauses
//   x/case/<u>/<k>/<fb>/<after> case x with 4 when clauses + else; clause k lists y (bound to the
//                               same value as x); fb and after as above
//   m/<u>/<w>                   case matrix: subject u, when value w (simple values only)
//   d/x/<u>  d/p/<j>  d/g/<seed>/<i>   if/unless duality for x, a poison condition, a generated condition
//   p/<seed>/<i>                conditional program (1..6 branches, nesting <= 4, loops)

import (
	"fmt"

	"github.com/osteele/liquid"
)

var condStream = ctlStream{Name: "cond", Prop: "C10"}

func init() {
	condStream.Build = buildCond
	condStream.register(runCondStream)
}

var falsyConst = []pexpr{litNil(), litBool(false), pv("nilv"), pv("fv"), pv("undefined_zz")}
var truthyConst = []pexpr{litBool(true), litInt(0), litStr(""), pv("e0"), pv("tv"), litInt(7)}

func condBaseEnv() map[string]*V {
	return map[string]*V{"nilv": VNil(), "fv": VBool(false), "e0": VAnys(), "tv": VStr("yes"), "pz": VInt(0, 3)}
}

func marker(k int) []pnode { return []pnode{pText{fmt.Sprintf("[%d]", k)}} }

// different: a literal that is not equal to v (v simple).
func differentFrom(v *V, n int) pexpr {
	cands := []pexpr{litInt(98765), litStr("no-such"), litInt(-4321), litStr("zz9")}
	var out []pexpr
	for _, c := range cands {
		if eq, ok := refEqual(liquidV(v), c.(eLit).V); ok && !eq {
			out = append(out, c)
		}
	}
	if len(out) == 0 {
		return cands[n%len(cands)]
	}
	return out[n%len(out)]
}

func buildCond(spec string) *ctlCase {
	f := specFields(spec)
	u := condUniverse()
	switch {
	case f[0] == "x" && f[1] == "if" && len(f) == 6:
		ui, k, fb, after := atoi(f[2]), atoi(f[3]), atoi(f[4]), f[5]
		env := condBaseEnv()
		env["x"] = u[ui]
		var br []pBranch
		for pos := 1; pos <= 4; pos++ {
			var c *pcond
			switch {
			case pos == k:
				c = condTruth(pv("x"))
			case pos < k:
				c = condTruth(falsyConst[(pos+ui)%len(falsyConst)])
			case fb == 9 && pos == k+1, fb == 8:
				c = condPoison(poisonConds[(ui+pos)%len(poisonConds)])
			case pos < fb || fb == 0 || fb == 9:
				c = condTruth(falsyConst[(pos+ui+1)%len(falsyConst)])
			case pos == fb:
				c = condTruth(truthyConst[(pos+ui)%len(truthyConst)])
			case after == "p":
				c = condPoison(poisonConds[(ui+pos)%len(poisonConds)])
			default:
				c = condTruth(truthyConst[(pos+ui+2)%len(truthyConst)])
			}
			br = append(br, pBranch{c, marker(pos)})
		}
		if fb != 0 {
			br = append(br, pBranch{nil, marker(5)})
		}
		prog := []pnode{pText{"<"}, pIf{Br: br}, pText{">"}}
		exp, _ := refResult(prog, env, nil)
		return &ctlCase{Src: progSrc(prog), Env: env, Expect: exp, Clause: "first-truthy-branch", Kind: "exhaustive-if"}
	case f[0] == "x" && f[1] == "unless" && len(f) == 4:
		ui, e := atoi(f[2]), atoi(f[3])
		env := condBaseEnv()
		env["x"] = u[ui]
		br := []pBranch{{condTruth(pv("x")), marker(1)}}
		for i := 0; i < e; i++ {
			br = append(br, pBranch{nil, marker(2 + i)})
		}
		prog := []pnode{pText{"<"}, pIf{Unless: true, Br: br}, pText{">"}}
		exp, _ := refResult(prog, env, nil)
		return &ctlCase{Src: progSrc(prog), Env: env, Expect: exp, Clause: "unless-negates-condition", Kind: "exhaustive-unless"}
	case f[0] == "x" && f[1] == "case" && len(f) == 6:
		ui, k, fb, after := atoi(f[2]), atoi(f[3]), atoi(f[4]), f[5]
		env := condBaseEnv()
		env["x"], env["y"] = u[ui], u[ui]
		var whens []pWhen
		for pos := 1; pos <= 4; pos++ {
			var vals []pexpr
			switch {
			case pos == k:
				vals = []pexpr{differentFrom(u[ui], pos), pv("y")}
			case pos > k && (fb == 9 && pos == k+1 || fb == 8):
				vals = []pexpr{eRaw{poisonWhen}}
			case pos < k || pos < fb || fb == 0 || fb == 9:
				vals = []pexpr{differentFrom(u[ui], pos), differentFrom(u[ui], pos+1)}
			case pos == fb:
				vals = []pexpr{pv("y")}
			case after == "p":
				vals = []pexpr{eRaw{poisonWhen}}
			default:
				vals = []pexpr{pv("x")}
			}
			whens = append(whens, pWhen{vals, marker(pos)})
		}
		if fb != 0 {
			whens = append(whens, pWhen{nil, marker(5)})
		}
		prog := []pnode{pText{"<"}, pCase{pv("x"), whens}, pText{">"}}
		exp, _ := refResult(prog, env, nil)
		return &ctlCase{Src: progSrc(prog), Env: env, Expect: exp, Clause: "case-first-equal-when", Kind: "exhaustive-case"}
	case f[0] == "m" && len(f) == 3:
		a, b := u[atoi(f[1])], u[atoi(f[2])]
		env := map[string]*V{"x": a, "y": b}
		prog := []pnode{pCase{pv("x"), []pWhen{{[]pexpr{pv("y")}, marker(1)}, {nil, marker(2)}}}}
		exp, _ := refResult(prog, env, nil)
		return &ctlCase{Src: progSrc(prog), Env: env, Expect: exp, Clause: "case-equality", Kind: "case-matrix"}
	case f[0] == "d":
		return buildDuality(f)
	case f[0] == "p" && len(f) == 3:
		seed, i := atou(f[1]), atoi(f[2])
		g := NewRNG(seed, fmt.Sprint("cond/prog/", i))
		p := genProgram(g, pgCond)
		prog := p.seq(3)
		c := &ctlCase{Env: p.env, Clause: "conditional-program", Kind: "program"}
		measureConds(c, p.fixed)
		c.Src = progSrc(prog)
		exp, in := refResult(prog, p.env, nil)
		c.Expect = exp
		for n := range p.notes {
			c.Notes = append(c.Notes, n)
		}
		if in.unknown != "" {
			c.Notes = append(c.Notes, "no-claim="+in.unknown)
		}
		c.Notes = append(c.Notes, fmt.Sprintf("loop-depth=%d", in.maxLoopDepth))
		for k := range in.events {
			c.Notes = append(c.Notes, "event="+k)
		}
		return c
	}
	return nil
}

// measureConds measures every opaque condition with a probe render on the real implementation:
// `{% assign qq = <cond> %}{{ qq }}` prints true or false for a comparison, contains or and/or.
// (The evaluation path is assign + object output, not a conditional tag.)
func measureConds(c *ctlCase, conds []*pcond) {
	for _, pc := range conds {
		res := renderImpl(c.Cfg, c.Path, c.Line, "{% assign qq = "+pc.Src+" %}{{ qq }}", RealiseEnv(c.Env))
		switch {
		case res == canonOK([]byte("true")):
			pc.Val = 1
		case res == canonOK([]byte("false")):
			pc.Val = 0
		case len(res) > 4 && res[:4] == "err ":
			pc.Val = -1
		default:
			pc.Val = -2
		}
	}
}

func buildDuality(f []string) *ctlCase {
	mk := func(cond string) (string, string) {
		return "{% if " + cond + " %}[A]{% else %}[B]{% endif %}", "{% unless " + cond + " %}[B]{% else %}[A]{% endunless %}"
	}
	switch {
	case f[1] == "x" && len(f) == 3:
		v := condUniverse()[atoi(f[2])]
		a, b := mk("x")
		exp := canonOK([]byte("[B]"))
		if refTruthy(v) {
			exp = canonOK([]byte("[A]"))
		}
		return &ctlCase{Src: a, Partner: b, Env: map[string]*V{"x": v}, Expect: exp, Clause: "truthiness", PClause: "if-unless-duality", Kind: "duality-universe"}
	case f[1] == "p" && len(f) == 3:
		a, b := mk(poisonConds[atoi(f[2])])
		return &ctlCase{Src: a, Partner: b, Env: condBaseEnv(), Expect: "err", Clause: "erroring-condition", PClause: "if-unless-duality", Kind: "duality-poison"}
	case f[1] == "g" && len(f) == 4:
		g := NewRNG(atou(f[2]), "cond/dual/"+f[3])
		o := DefaultTmplOpts()
		o.MissingVarPct, o.IllTypedPct = 2, 4
		sc := GenSchema(g, o)
		env := GenEnv(g, o, sc)
		c := newGctx(g, o, sc)
		c.mode = modeValid
		if g.Chance(25) {
			c.mode = modeRenderErr
			c.o.ErrDensity = 300
		}
		cond := c.cond(0)
		a, b := mk(cond)
		return &ctlCase{Src: a, Partner: b, Env: env, PClause: "if-unless-duality", Kind: "duality-generated"}
	}
	return nil
}

type condFlag bool
type condCount int
type condLabel string

// condDefinedTypesFamily: bindings of DEFINED bool / int / string types (outside the value codec, so judged by the
// oracle alone): whatever truth value the engine gives them, `if c A else B` and `unless c B else A` agree, a case on
// them selects one clause, and `and` / `or` / the filter `default` agree with `if` about their truth.
func condDefinedTypesFamily(r *Run) {
	type rec struct{ Off condFlag }
	vals := map[string]any{"off": condFlag(false), "on": condFlag(true), "zero": condCount(0), "n": condCount(3), "empty": condLabel(""), "lab": condLabel("x"),
		"rec": rec{Off: false}, "m": map[string]any{"off": condFlag(false), "on": condFlag(true)}, "arr": []any{condFlag(false), condFlag(true)}, "parr": []condFlag{false, true}}
	conds := []string{"off", "on", "zero", "n", "empty", "lab", "rec.Off", "m.off", "m.on", "arr[0]", "arr[1]", "parr[0]", "parr.last", "off and on", "off or on", "on and off",
		"off == false", "on == true", "off != on", "nope"}
	render := func(src string) string {
		return guard(func() string {
			out, err := liquid.NewEngine().ParseAndRenderString(src, vals)
			if err != nil {
				return "err"
			}
			return "ok " + out
		})
	}
	for _, c := range conds {
		a := render("{% if " + c + " %}A{% else %}B{% endif %}")
		b := render("{% unless " + c + " %}B{% else %}A{% endunless %}")
		r.Count("defined-types-duality")
		if a != b {
			r.Violate("C10", "if-unless-duality", "cond-defined-types "+hexField(c), fmt.Sprintf("condition %q of a defined Go type: if/else renders %q, unless/else renders %q", c, a, b))
		}
		e := render("{% if " + c + " %}A{% elsif true %}B{% endif %}")
		if a != e {
			r.Violate("C10", "first-truthy-branch", "cond-defined-types-elsif "+hexField(c), fmt.Sprintf("condition %q: if/else renders %q but if/elsif true renders %q", c, a, e))
		}
	}
}

func runCondStream(r *Run) {
	s := condStream
	u := condUniverse()
	if r.Shard == 0 {
		condDefinedTypesFamily(r)
		condExtraFamily(r)
	}
	r.Stats.Notes["universe"] = fmt.Sprint(len(u))
	do := func(spec string) {
		if r.Mine() {
			s.exec(r, spec)
		}
	}
	// (1) exhaustive: every universe value x every position x every tag
	for ui := range u {
		for k := 1; k <= 4; k++ {
			for _, fb := range []int{0, 9, 8, 2, 3, 4, 5} {
				if fb != 0 && fb < 8 && fb <= k {
					continue
				}
				if fb >= 8 && k == 4 {
					continue
				}
				for _, after := range []string{"t", "p"} {
					if after == "p" && (fb == 0 || fb >= 8 || fb >= 4) {
						continue
					}
					do(fmt.Sprintf("x/if/%d/%d/%d/%s", ui, k, fb, after))
					do(fmt.Sprintf("x/case/%d/%d/%d/%s", ui, k, fb, after))
				}
			}
		}
		for e := 0; e <= 3; e++ {
			do(fmt.Sprintf("x/unless/%d/%d", ui, e))
		}
		do(fmt.Sprintf("d/x/%d", ui))
	}
	for j := range poisonConds {
		do(fmt.Sprintf("d/p/%d", j))
	}
	// (2) case matrix over the simple values
	var simple []int
	for i, v := range u {
		if simpleClass(v) >= 0 {
			simple = append(simple, i)
		}
	}
	r.Stats.Notes["simple-values"] = fmt.Sprint(len(simple))
	for _, a := range simple {
		for _, b := range simple {
			do(fmt.Sprintf("m/%d/%d", a, b))
		}
	}
	// (3) duality for generated conditions, (4) conditional programs
	nd, np := 8000, 20000
	if r.Tier == "thorough" {
		nd, np = 60000, 200000
	}
	for i := 0; i < nd; i++ {
		do(fmt.Sprintf("d/g/%d/%d", r.Seed, i))
	}
	for i := 0; i < np; i++ {
		do(fmt.Sprintf("p/%d/%d", r.Seed, i))
	}
}
