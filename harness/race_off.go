//go:build !race

package main

const concRaceEnabled = false
