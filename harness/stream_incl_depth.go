package main

// Deep and cyclic include layouts of the `incl` stream (C14, C01).
//
// rendererContext.RenderFile refuses to nest includes deeper than maxIncludeDepth (100): a file that
// includes itself, directly or through other files, ends the render with a SourceError instead of
// overflowing the goroutine stack (which ends the process and cannot be recovered). The family below
// is fixed (no randomness): self-includes, 2- and 3-cycles, cycles entered only on one branch of an
// `if`, cycles whose files write text and assign variables, recursion that a counter ends just below
// and just above the limit, cycles through the template cache, and chains of exactly 99, 100 and 101
// distinct nested files, which pin the boundary: a chain of N files below the template renders iff
// N <= 100 (file k is rendered at depth k; the include tag of file 100 is the first to be refused).
//
// Case line: `incld <want> <render line | incl line>`; the model driver answers the embedded line, so
// every case is compared with the model like the other cases of the stream. Oracle on the real engine
// (model-independent): no panic; the render returns within inclDepthTimeLimit; want=deep: it fails with
// a usable SourceError whose message contains "include nesting too deep"; want=ok:<hex>: it succeeds
// with that output; want=err:<kind>: it fails with a SourceError of that kind (and not the depth
// error); and the reference include (bounded by the same documented limit) agrees on success/failure
// and on the output. The first case of the family is first run in a killable worker process (the
// `robust` worker): when that process dies - the unrepaired code - the violation is reported and the
// family is skipped, so that the check itself survives.

import (
	"fmt"
	"os"
	"path/filepath"
	"strings"
	"sync"
	"time"

	"github.com/osteele/liquid"
)

// refMaxIncludeDepth is the documented nesting limit the reference include applies.
const refMaxIncludeDepth = 100

// inclDepthTimeLimit: 101 nested renders of files of a few bytes take well under a millisecond each.
const inclDepthTimeLimit = 5 * time.Second

type depthSpec struct {
	name  string
	c     *inclCase
	want  string // deep | ok:<outhex> | err:<kind>
	class string // histogram key
}

func diskFiles(kv ...string) []inclFile {
	var fs []inclFile
	for i := 0; i+1 < len(kv); i += 2 {
		fs = append(fs, inclFile{Name: kv[i], Disk: kv[i+1], HasDisk: true})
	}
	return fs
}

// chainFiles: f1 .. fN, file k writes `k,` and includes file k+1; the last one writes `end`.
func chainFiles(n int, last string) ([]inclFile, string) {
	var fs []inclFile
	var out strings.Builder
	for k := 1; k <= n; k++ {
		body := last
		if k < n {
			body = fmt.Sprintf("%d,{%% include \"f%d.html\" %%}", k, k+1)
			fmt.Fprintf(&out, "%d,", k)
		}
		fs = append(fs, inclFile{Name: fmt.Sprintf("f%d.html", k), Disk: body, HasDisk: true})
	}
	return fs, out.String()
}

func inclDepthSpecs() []depthSpec {
	var specs []depthSpec
	add := func(class, name, want string, c *inclCase) {
		if c.Env == nil {
			c.Env = map[string]*V{}
		}
		if c.MainPath == "" {
			c.MainPath = "main.liquid"
		}
		if c.Line == 0 {
			c.Line = 1
		} else if c.Line < 0 {
			c.Line = 0
		}
		specs = append(specs, depthSpec{name: name, c: c, want: want, class: class})
	}
	okWant := func(out string) string { return "ok:" + hexField(out) }
	incA := "{% include \"a.html\" %}"

	// the input of the defect first (it is the one probed in a killable process)
	add("self", "self", "deep", &inclCase{Files: diskFiles("a.html", "x"+incA), Src: incA})
	add("self", "self-newlines", "deep", &inclCase{Files: diskFiles("a.html", "x\n"+incA+"\ny"), Src: "top\n" + incA, Line: 3})
	add("self", "self-first-node", "deep", &inclCase{Files: diskFiles("a.html", incA+"tail{{ 1 | nofilter }}"), Src: incA})
	add("self", "self-hyphens", "deep", &inclCase{Files: diskFiles("a.html", " x {%- include 'a.html' -%} "), Src: "{%- include \"a.html\" -%}"})
	add("self", "self-in-subdir", "deep", &inclCase{Files: diskFiles("sub/a.html", "s{% include \"sub/a.html\" %}"), Src: "{% include \"sub/a.html\" %}"})
	add("self", "self-from-subdir-main", "deep", &inclCase{Files: diskFiles("a.html", "s{% include \"../a.html\" %}"), MainPath: "sub/main.liquid", Src: "{% include \"../a.html\" %}"})
	add("self", "self-by-variable", "deep", &inclCase{Files: diskFiles("a.html", "v{% include fn %}"), Src: "{% assign fn = \"a.html\" %}{% include fn %}"})
	add("self", "self-by-filter", "deep", &inclCase{Files: diskFiles("a.html", "v{% include base | append: \".html\" %}"), Src: incA, Env: map[string]*V{"base": VStr("a")}})
	add("self", "self-twice", "deep", &inclCase{Files: diskFiles("a.html", incA+incA), Src: incA})
	add("self", "self-in-loop", "deep", &inclCase{Files: diskFiles("a.html", "{% for i in (1..3) %}{{ i }}"+incA+"{% endfor %}"), Src: incA})
	add("self", "self-in-capture", "deep", &inclCase{Files: diskFiles("a.html", "{% capture c %}"+incA+"{% endcapture %}{{ c }}"), Src: incA})
	add("self", "self-after-text-in-main", "deep", &inclCase{Files: diskFiles("a.html", "x"+incA), Src: "before\n\n" + incA + "after"})
	add("self", "self-line-0", "deep", &inclCase{Files: diskFiles("a.html", "x"+incA), Src: incA, Line: -1})

	// cycles through two and three files
	add("cycle", "two-cycle", "deep", &inclCase{Files: diskFiles("a.html", "a{% include \"b.html\" %}", "b.html", "b\n"+incA), Src: incA})
	add("cycle", "two-cycle-enter-at-b", "deep", &inclCase{Files: diskFiles("a.html", "a{% include \"b.html\" %}", "b.html", "b\n"+incA), Src: "{% include \"b.html\" %}"})
	add("cycle", "three-cycle", "deep", &inclCase{Files: diskFiles("a.html", "a\n{% include \"b.html\" %}", "b.html", "b{% include \"sub/c.html\" %}", "sub/c.html", "c\n\n"+incA), Src: incA})
	add("cycle", "three-cycle-with-tail", "deep", &inclCase{Files: diskFiles("a.html", "{% include \"b.html\" %}A", "b.html", "{% include \"c.html\" %}B", "c.html", incA+"C"), Src: "<" + incA + ">"})
	add("cycle", "cycle-behind-a-chain", "deep", &inclCase{Files: diskFiles("p.html", "p{% include \"q.html\" %}", "q.html", "q"+incA, "a.html", "a{% include \"b.html\" %}", "b.html", "b"+incA), Src: "{% include \"p.html\" %}"})

	// cycles entered only on some branch
	ifMain := "{% if go %}" + incA + "{% else %}no{% endif %}"
	add("branch", "if-in-main-taken", "deep", &inclCase{Files: diskFiles("a.html", "x"+incA), Src: ifMain, Env: map[string]*V{"go": VBool(true)}})
	add("branch", "if-in-main-not-taken", okWant("no"), &inclCase{Files: diskFiles("a.html", "x"+incA), Src: ifMain, Env: map[string]*V{"go": VBool(false)}})
	ifFile := "x{% if go %}" + incA + "{% endif %}."
	add("branch", "if-in-file-taken", "deep", &inclCase{Files: diskFiles("a.html", ifFile), Src: incA, Env: map[string]*V{"go": VBool(true)}})
	add("branch", "if-in-file-not-taken", okWant("x."), &inclCase{Files: diskFiles("a.html", ifFile), Src: incA, Env: map[string]*V{}})
	add("branch", "unless-in-file", "deep", &inclCase{Files: diskFiles("a.html", "{% unless stop %}"+incA+"{% endunless %}"), Src: incA})
	add("branch", "case-in-file", "deep", &inclCase{Files: diskFiles("a.html", "{% case k %}{% when 1 %}one{% when 2 %}"+incA+"{% endcase %}"), Src: incA, Env: map[string]*V{"k": VInt(0, 2)}})
	add("branch", "case-in-file-other-branch", okWant("one"), &inclCase{Files: diskFiles("a.html", "{% case k %}{% when 1 %}one{% when 2 %}"+incA+"{% endcase %}"), Src: incA, Env: map[string]*V{"k": VInt(0, 1)}})
	add("branch", "two-cycle-branch-in-b", "deep", &inclCase{Files: diskFiles("a.html", "a{% include \"b.html\" %}", "b.html", "{% if go %}"+incA+"{% endif %}b"), Src: incA, Env: map[string]*V{"go": VStr("yes")}})
	add("branch", "two-cycle-branch-in-b-not-taken", okWant("ab"), &inclCase{Files: diskFiles("a.html", "a{% include \"b.html\" %}", "b.html", "{% if go %}"+incA+"{% endif %}b"), Src: incA, Env: map[string]*V{"go": VNil()}})

	// cycles whose files write text and assign variables (an included file works on a copy of the variables)
	add("vars", "cycle-assigning", "deep", &inclCase{Files: diskFiles("a.html", "[{{ n }}]{% assign n = n | plus: 1 %}{% include \"b.html\" %}", "b.html", "<{{ n }}>{% assign m = n %}{% capture who %}b{{ m }}{% endcapture %}"+incA),
		Src: "{% assign n = 1 %}" + incA + "{{ n }}", Env: map[string]*V{"n": VInt(0, 7)}})
	countdown := "{{ n }}{% assign n = n | minus: 1 %}{% if n > 0 %}" + incA + "{% endif %}"
	seq := func(from int) string {
		var sb strings.Builder
		for k := from; k >= 1; k-- {
			fmt.Fprint(&sb, k)
		}
		return sb.String()
	}
	for _, n := range []int{1, 5, 99, 100} {
		add("vars", fmt.Sprintf("countdown-%d", n), okWant(seq(n)+"|"+fmt.Sprint(n)), &inclCase{Files: diskFiles("a.html", countdown), Src: incA + "|{{ n }}", Env: map[string]*V{"n": VInt(0, int64(n))}})
	}
	for _, n := range []int{101, 102, 1000} {
		add("vars", fmt.Sprintf("countdown-%d", n), "deep", &inclCase{Files: diskFiles("a.html", countdown), Src: incA + "|{{ n }}", Env: map[string]*V{"n": VInt(0, int64(n))}})
	}

	// through the template cache: the cycle exists only in registered sources
	add("cache", "self-cache-only", "deep", &inclCase{Files: []inclFile{{Name: "a.html", Cache: "x" + incA, HasCache: true}}, Src: incA})
	add("cache", "two-cycle-disk-and-cache", "deep", &inclCase{Files: []inclFile{{Name: "a.html", Disk: "a{% include \"b.html\" %}", HasDisk: true}, {Name: "b.html", Cache: "b" + incA, HasCache: true}}, Src: incA})
	add("cache", "disk-breaks-the-cached-cycle", okWant("D"), &inclCase{Files: []inclFile{{Name: "a.html", Disk: "D", HasDisk: true, Cache: "x" + incA, HasCache: true}}, Src: incA})
	add("cache", "main-cached-includes-itself", "deep", &inclCase{Files: nil, Src: "m{% include \"main.liquid\" %}", CacheMain: true})

	// the boundary: chains of distinct files
	for _, n := range []int{1, 2, 50, 99, 100} {
		fs, out := chainFiles(n, "end")
		add("chain", fmt.Sprintf("chain-%d", n), okWant(out+"end"), &inclCase{Files: fs, Src: "{% include \"f1.html\" %}"})
	}
	for _, n := range []int{101, 102, 150} {
		fs, _ := chainFiles(n, "end")
		add("chain", fmt.Sprintf("chain-%d", n), "deep", &inclCase{Files: fs, Src: "{% include \"f1.html\" %}"})
	}
	{ // the depth test comes before the file is read, the argument is evaluated before the depth test
		fs, _ := chainFiles(100, "last{% include \"nosuch.html\" %}")
		add("chain", "chain-100-then-missing-file", "deep", &inclCase{Files: fs, Src: "{% include \"f1.html\" %}"})
		fs, _ = chainFiles(99, "last{% include \"nosuch.html\" %}")
		add("chain", "chain-99-then-missing-file", "err:includeIO", &inclCase{Files: fs, Src: "{% include \"f1.html\" %}"})
		fs, _ = chainFiles(100, "last{% include 12 %}")
		add("chain", "chain-100-then-non-string", "err:includeArg", &inclCase{Files: fs, Src: "{% include \"f1.html\" %}"})
		fs, _ = chainFiles(100, "last{% include 1 | nofilter %}")
		add("chain", "chain-100-then-failing-argument", "err:undefinedFilter", &inclCase{Files: fs, Src: "{% include \"f1.html\" %}"})
		fs, _ = chainFiles(100, "last{% include \"f100.html\" %}") // the last file of the chain includes itself
		add("chain", "chain-100-then-self", "deep", &inclCase{Files: fs, Src: "{% include \"f1.html\" %}"})
		fs, _ = chainFiles(100, "{% if x %}{% include \"f1.html\" %}{% endif %}end")
		_, pre := chainFiles(100, "")
		add("chain", "chain-100-if-not-taken", okWant(pre+"end"), &inclCase{Files: fs, Src: "{% include \"f1.html\" %}"})
	}
	return specs
}

func (c *inclCase) depthLine(want string) string {
	if c.usesCache() || c.CacheMain {
		return "incld " + want + " " + c.inclLine()
	}
	return "incld " + want + " " + c.renderLine()
}

// renderWithMessage: like renderOn, and the message of the error.
func (c *inclCase) renderWithMessage(e *liquid.Engine, d string) (res, msg string) {
	res, pmsg := protect(func() string {
		tpl, err := c.parseMain(e, d, c.Src)
		if err != nil {
			msg = err.Error()
			return inclCanonErr(d, err, true)
		}
		out, err := tpl.Render(RealiseEnv(c.Env))
		if err != nil {
			msg = err.Error()
			if out != nil {
				return "err output-with-error"
			}
			return inclCanonErr(d, err, false)
		}
		return canonOK(out)
	})
	if pmsg != "" {
		lastPanic = pmsg
	}
	return res, msg
}

// checkDepth runs the case on the real engine, applies the oracle of the family and returns the real result.
func (c *inclCase) checkDepth(r *Run, caseLine, want string) string {
	d := c.materialise()
	defer func() {
		os.RemoveAll(d)
		if os.Getenv("VERIF_WORK") == "" {
			os.Remove(workDir())
		}
	}()
	t0 := time.Now()
	real, msg := c.renderWithMessage(c.engine(d), d)
	took := time.Since(t0)
	what := fmt.Sprintf("%q at %s with files %s", c.Src, c.MainPath, short(fmt.Sprint(c.Files), 300))
	if real == "panic" {
		r.Violate("C14", "include-panics", caseLine, lastPanic+" ; "+what)
		return real
	}
	if took > inclDepthTimeLimit {
		r.Violate("C14", "include-depth-time", caseLine, fmt.Sprintf("%s took %v (limit %v)", what, took, inclDepthTimeLimit))
	}
	if strings.HasPrefix(real, "err bad-source-error") || real == "err output-with-error" {
		r.Violate("C14", "include-error-not-a-source-error", caseLine, real+" ; "+what)
	}
	realOut, realOK := okOutput(real)
	deepMsg := strings.Contains(msg, includeDepthMsg)
	switch {
	case want == "deep":
		if realOK || !deepMsg {
			r.Violate("C14", "include-depth-limit", caseLine, fmt.Sprintf("%s: %s (message %q); want a SourceError saying %q", what, resultSummary(real), short(msg, 200), includeDepthMsg))
		}
	case strings.HasPrefix(want, "ok:"):
		if !realOK || realOut != unhexField(want[3:]) {
			r.Violate("C14", "include-depth-limit", caseLine, fmt.Sprintf("%s: %s (message %q); want output %q", what, resultSummary(real), short(msg, 200), short(unhexField(want[3:]), 300)))
		}
	case strings.HasPrefix(want, "err:"):
		if realOK || deepMsg || inclResKind(real) != want[4:] {
			r.Violate("C14", "include-depth-limit", caseLine, fmt.Sprintf("%s: %s (message %q); want an error of kind %s", what, resultSummary(real), short(msg, 200), want[4:]))
		}
	}
	// the reference include, bounded by the same documented limit
	ref := c.renderOn(c.refEngine(d), d, c.Src, RealiseEnv(c.Env))
	refOut, refOK := okOutput(ref)
	if realOK != refOK || (realOK && realOut != refOut) {
		r.Violate("C14", "include-vs-reference", caseLine, fmt.Sprintf("%s: real %s ; reference include %s", what, resultSummary(real), resultSummary(ref)))
	}
	return real
}

// includeCycleSurvives runs the input of the defect (a.html = x{% include "a.html" %}, template {% include "a.html" %})
// in a killable process, once per harness process: alive is false when that process dies or does not return, which is
// what the unrepaired code does (the goroutine stack overflows). Streams that render cyclic layouts in-process ask
// first, report the violation under their own property and skip those cases, so that the check itself survives.
var cycleProbe struct {
	once              sync.Once
	alive             bool
	caseLine, details string
}

func includeCycleSurvives() (alive bool, caseLine, details string) {
	cycleProbe.once.Do(func() {
		w := startWorker()
		defer func() {
			w.kill()
			// the layout the worker materialised (engineCfg.dir names it after the worker's process id)
			if ds, _ := filepath.Glob(filepath.Join(workDir(), fmt.Sprintf("fs-*-%d", w.cmd.Process.Pid))); len(ds) > 0 {
				for _, d := range ds {
					os.RemoveAll(d)
				}
			}
		}()
		file, src := "x{% include \"a.html\" %}", "{% include \"a.html\" %}"
		cfg := engineCfg{FS: [][2]string{{"a.html", file}}}
		cycleProbe.caseLine = robustLine(cfg, src, map[string]*V{})
		_, status, info := w.call(cycleProbe.caseLine, 60*time.Second)
		cycleProbe.alive = status == ""
		if !cycleProbe.alive {
			cycleProbe.details = fmt.Sprintf("%q with a.html = %q in a separate process: %s %s (a file that includes itself must end the render with an error); the cyclic include cases of this stream are skipped", src, file, status, info)
		}
	})
	return cycleProbe.alive, cycleProbe.caseLine, cycleProbe.details
}

func inclDepthFamily(r *Run) {
	specs := inclDepthSpecs()
	probed, alive := false, true
	for _, s := range specs {
		if !r.Mine() {
			continue
		}
		if !probed {
			probed = true
			var details string
			if alive, _, details = includeCycleSurvives(); !alive {
				r.Violate("C14", "include-cycle-process-death", specs[0].c.depthLine(specs[0].want), details)
			}
		}
		if !alive {
			r.Count("depth-family-skipped")
			continue
		}
		cl := s.c.depthLine(s.want)
		res := s.c.checkDepth(r, cl, s.want)
		r.Count("depth-family=" + s.class)
		r.Count("depth-res=" + inclResKind(res))
		r.Nontrivial(cl)
		r.Emit(cl, res)
	}
}
