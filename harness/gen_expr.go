package main

import (
	"fmt"
	"strings"
)

// Expression source generator (used by the eparse / expr streams).

var exprVars = []string{"a", "b", "s", "n", "arr", "m", "x", "nil_var", "d", "user-name", "ok?", "forloop"}
var exprProps = []string{"size", "first", "last", "a", "b", "k", "name", "x-y", "q?"}
var exprFilters0 = []string{"upcase", "downcase", "size", "first", "last", "reverse", "sort", "uniq", "compact", "abs", "ceil", "floor", "round", "strip", "capitalize", "escape", "nofilter", "join", "url_encode"}
var exprFilters1 = []string{"append", "prepend", "plus", "minus", "times", "divided_by", "modulo", "join", "split", "default", "slice", "truncate", "remove", "map", "concat", "round", "sort", "nofilter"}
var exprLits = []string{"1", "0", "-1", "2", "10", "1.5", "-0.5", "3.0", "007", "\"a\"", "'b'", "\"\"", "\"x y\"", "'it''", "true", "false", "nil", "99999999999999999999", "1.", "12345678901234567890.5"}

func ws(g *RNG) string {
	switch g.Intn(10) {
	case 0:
		return ""
	case 1:
		return "  "
	case 2:
		return "\t"
	case 3:
		return "\n"
	case 4:
		return " \r\n "
	default:
		return " "
	}
}

// optional whitespace (may be empty where the grammar does not need a separator)
func ows(g *RNG) string {
	if g.Chance(50) {
		return ""
	}
	return ws(g)
}

func genPrimary(g *RNG, depth int) string {
	switch k := g.Intn(12); {
	case k < 4:
		return g.Pick(exprVars)
	case k < 8:
		return g.Pick(exprLits)
	case k < 9 && depth > 0:
		return "(" + ows(g) + genExprE(g, depth-1) + ows(g) + ".." + ows(g) + genExprE(g, depth-1) + ows(g) + ")"
	case k < 10 && depth > 0:
		return "(" + ows(g) + genCond(g, depth-1) + ows(g) + ")"
	default:
		return g.Pick(exprVars)
	}
}

func genExprE(g *RNG, depth int) string {
	e := genPrimary(g, depth)
	for g.Chance(35) {
		if g.Chance(60) {
			e += ows(g) + "." + g.Pick(exprProps)
		} else if depth > 0 {
			e += ows(g) + "[" + ows(g) + genExprE(g, depth-1) + ows(g) + "]"
		}
	}
	return e
}

func genFiltered(g *RNG, depth int) string {
	e := genExprE(g, depth)
	for g.Chance(40) {
		if g.Chance(50) {
			e += ows(g) + "|" + ows(g) + g.Pick(exprFilters0)
		} else {
			e += ows(g) + "|" + ows(g) + g.Pick(exprFilters1) + ":" + ows(g) + genExprE(g, depth-1)
			for g.Chance(25) {
				e += ows(g) + "," + ows(g) + genExprE(g, depth-1)
			}
		}
	}
	return e
}

var relOps = []string{"==", "!=", "<", ">", "<=", ">=", "contains"}

func genRel(g *RNG, depth int) string {
	if g.Chance(50) {
		return genFiltered(g, depth)
	}
	op := g.Pick(relOps)
	sep := ows
	if op == "contains" {
		sep = ws
	}
	return genExprE(g, depth) + sep(g) + op + sep(g) + genExprE(g, depth)
}

func genCond(g *RNG, depth int) string {
	c := genRel(g, depth)
	for g.Chance(25) {
		c += ws(g) + g.Pick([]string{"and", "or"}) + ws(g) + genRel(g, depth)
	}
	return c
}

func genLoopArgs(g *RNG, depth int) string {
	s := g.Pick([]string{"i", "item", "x", "forloop"}) + ws(g) + "in" + ws(g) + genFiltered(g, depth)
	for g.Chance(40) {
		switch g.Intn(5) {
		case 0:
			s += ws(g) + "reversed"
		case 1:
			s += ws(g) + "limit:" + ows(g) + genExprE(g, 0)
		case 2:
			s += ws(g) + "offset:" + ows(g) + genExprE(g, 0)
		case 3:
			s += ws(g) + "cols:" + ows(g) + genExprE(g, 0)
		default:
			s += ws(g) + g.Pick([]string{"sorted", "step:1", "limit: ", "reversed:"})
		}
	}
	return s
}

func genCycleArgs(g *RNG) string {
	q := func() string { return g.Pick([]string{"\"a\"", "'b'", "\"\"", "\"c d\"", "1", "x"}) }
	s := q()
	if g.Chance(30) {
		s += ows(g) + ":" + ows(g) + q()
	}
	for g.Chance(60) {
		s += ows(g) + "," + ows(g) + q()
	}
	return s
}

var soupToks = []string{"a", "b", "1", "1.5", "\"s\"", "'", "\"", "(", ")", "[", "]", "..", ".", ".x", "|", ":", ",", "==", "!=", "<", ">", "<=", ">=",
	"and", "or", "contains", "in", "=", "f:", "-", "-1", "%assign ", "{%cycle ", "%loop ", "{%when ", ";", " ", "\n", "true", "nil", "é", "\xff", "x?", "a-b", "%", "{"}

func genSoup(g *RNG) string {
	n := g.Intn(7)
	var sb strings.Builder
	for i := 0; i < n; i++ {
		sb.WriteString(g.Pick(soupToks))
		if g.Chance(40) {
			sb.WriteString(" ")
		}
	}
	return sb.String()
}

// genExprSource returns a (mostly valid) source for the given kind: e assign cycle loop when.
func genExprSource(g *RNG, kind string) string {
	var s string
	switch kind {
	case "e":
		s = genCond(g, 2)
	case "assign":
		s = g.Pick(exprVars) + ows(g) + "=" + ows(g) + genCond(g, 2)
	case "cycle":
		s = genCycleArgs(g)
	case "loop":
		s = genLoopArgs(g, 2)
	case "when":
		s = genExprE(g, 1)
		for g.Chance(40) {
			s += ows(g) + "," + ows(g) + genExprE(g, 1)
		}
	}
	switch g.Intn(10) {
	case 0:
		return mutate(g, s)
	case 1:
		return genSoup(g)
	}
	_ = fmt.Sprint
	return ows(g) + s + ows(g)
}
