package main

// Stream `rex` (C05, C19): the model's regular expressions against Go's regexp, at the level of the
// expression itself (DESIGN 5.4). It ties the two things translator T4's obligation leaves to trust:
// that the text `Re.toGoSyntax` prints is read by Go's regexp/syntax as the expression it was printed
// from, and that Go's leftmost-first matcher and the model's backtracking matcher find the same match
// with the same submatches.
//
//	rex  <re> <inputhex>      a generated expression (prefix code below), printed by the Go twin of
//	                          Re.toGoSyntax, compiled by regexp.Compile, run on the input
//	rexs <delims> <inputhex>  the REAL token matcher of parser.Scan for a delimiter list (through the
//	                          verif hook parser.VerifTokenMatcher) run on the input; model side:
//	                          tokenRe, printed and matched
//
// Result of both: `ok <patternhex> <m0,m1,…|->`: the pattern text and FindStringSubmatchIndex of the
// first match. For rexs the pattern is the source's text with its one spelling difference from the
// model's normal form removed ((?s:.+?) written as (?s:.)+?); the matcher run is the unnormalised,
// real one. The model answers the same line from its own printer and matcher, so a difference in the
// printed text (the twin printer here is only a means to get the text to regexp.Compile: its output is
// compared byte for byte with the Lean printer's) or in any index is a mismatch.
//
// Prefix code of expressions: E eps | e<hh> byte | n<hh> any byte but | s \s | w \w | d . | a (?s:.) |
// S<r><r> seq | A<r><r> alt | G<r> greedy star | L<r> lazy star | P<n>:<r> capture group n.
//
// Generated expressions respect the model's documented domain: the operand of a star consumes at
// least one byte (the model's loop requires progress), groups are numbered in the order of their
// opening parentheses, inputs are non-empty ASCII (bytes and runes coincide).

import (
	"fmt"
	"regexp"
	"strconv"
	"strings"

	"github.com/osteele/liquid/parser"
)

func init() {
	streams["rex"] = rexStream
	replayers["rex"] = func(r *Run, f []string) string {
		if len(f) != 3 {
			return "bad-case"
		}
		switch f[0] {
		case "rex":
			re, rest, ok := rexDecode(f[1])
			if !ok || rest != "" {
				return "bad-case"
			}
			return rexCase(re, unhexField(f[2]))
		case "rexs":
			return rexsCase(decodeDelims(f[1]), unhexField(f[2]))
		}
		return "bad-case"
	}
}

type rexNode struct {
	k    byte // E e n s w d a S A G L P
	b    byte
	n    int
	x, y *rexNode
}

func (r *rexNode) enc() string {
	switch r.k {
	case 'e', 'n':
		return fmt.Sprintf("%c%02x", r.k, r.b)
	case 'S', 'A':
		return string(r.k) + r.x.enc() + r.y.enc()
	case 'G', 'L':
		return string(r.k) + r.x.enc()
	case 'P':
		return fmt.Sprintf("P%d:%s", r.n, r.x.enc())
	}
	return string(r.k)
}

func rexDecode(s string) (*rexNode, string, bool) {
	if s == "" {
		return nil, "", false
	}
	k := s[0]
	switch k {
	case 'E', 's', 'w', 'd', 'a':
		return &rexNode{k: k}, s[1:], true
	case 'e', 'n':
		if len(s) < 3 {
			return nil, "", false
		}
		v, err := strconv.ParseUint(s[1:3], 16, 8)
		if err != nil {
			return nil, "", false
		}
		return &rexNode{k: k, b: byte(v)}, s[3:], true
	case 'S', 'A':
		x, rest, ok := rexDecode(s[1:])
		if !ok {
			return nil, "", false
		}
		y, rest, ok := rexDecode(rest)
		if !ok {
			return nil, "", false
		}
		return &rexNode{k: k, x: x, y: y}, rest, true
	case 'G', 'L':
		x, rest, ok := rexDecode(s[1:])
		if !ok {
			return nil, "", false
		}
		return &rexNode{k: k, x: x}, rest, true
	case 'P':
		i := strings.IndexByte(s, ':')
		if i < 2 {
			return nil, "", false
		}
		n, err := strconv.Atoi(s[1:i])
		if err != nil {
			return nil, "", false
		}
		x, rest, ok := rexDecode(s[i+1:])
		if !ok {
			return nil, "", false
		}
		return &rexNode{k: 'P', n: n, x: x}, rest, true
	}
	return nil, "", false
}

func rexEqual(a, b *rexNode) bool {
	if a == nil || b == nil {
		return a == b
	}
	return a.k == b.k && a.b == b.b && a.n == b.n && rexEqual(a.x, b.x) && rexEqual(a.y, b.y)
}

func rexQuoteByte(b byte) string {
	if strings.IndexByte(`\.+*?()|[]{}^$`, b) >= 0 {
		return "\\" + string([]byte{b})
	}
	return string([]byte{b})
}

func rexWrap(c bool, s string) string {
	if c {
		return "(?:" + s + ")"
	}
	return s
}

func rexLazy(greedy bool) string {
	if greedy {
		return ""
	}
	return "?"
}

// print is the twin of Re.toGoP (lean/Liquid/TokenReSrc.lean), clause by clause.
func (r *rexNode) print(ctx int) string {
	switch r.k {
	case 'e':
		return rexQuoteByte(r.b)
	case 'n':
		return "[^" + rexQuoteByte(r.b) + "]"
	case 's':
		return `\s`
	case 'w':
		return `\w`
	case 'd':
		return "."
	case 'a':
		return "(?s:.)"
	case 'E':
		return rexWrap(ctx >= 2, "")
	case 'P':
		return "(" + r.x.print(0) + ")"
	case 'G', 'L':
		return rexWrap(ctx >= 2, r.x.print(2)+"*"+rexLazy(r.k == 'G'))
	case 'A':
		if r.y.k == 'E' {
			return rexWrap(ctx >= 2, r.x.print(2)+"?")
		}
		if r.x.k == 'E' {
			return rexWrap(ctx >= 2, r.y.print(2)+"??")
		}
		return rexWrap(ctx >= 1, r.x.print(0)+"|"+r.y.print(0))
	case 'S':
		if r.y.k == 'G' || r.y.k == 'L' {
			if rexEqual(r.x, r.y.x) {
				return rexWrap(ctx >= 2, r.x.print(2)+"+"+rexLazy(r.y.k == 'G'))
			}
			return rexWrap(ctx >= 2, r.x.print(1)+(r.y.x.print(2)+"*"+rexLazy(r.y.k == 'G')))
		}
		return rexWrap(ctx >= 2, r.x.print(1)+r.y.print(1))
	}
	return "?"
}

func (r *rexNode) nullable() bool {
	switch r.k {
	case 'E', 'G', 'L':
		return true
	case 'S':
		return r.x.nullable() && r.y.nullable()
	case 'A':
		return r.x.nullable() || r.y.nullable()
	case 'P':
		return r.x.nullable()
	}
	return false
}

func showMatch(m []int) string {
	if m == nil {
		return "-"
	}
	parts := make([]string, len(m))
	for i, v := range m {
		parts[i] = strconv.Itoa(v)
	}
	return strings.Join(parts, ",")
}

func rexCase(re *rexNode, input string) string {
	p := re.print(0)
	return guard(func() string {
		c, err := regexp.Compile(p)
		if err != nil {
			return "badpattern " + hexField(p)
		}
		return "ok " + hexField(p) + " " + showMatch(c.FindStringSubmatchIndex(input))
	})
}

func rexsCase(delims []string, input string) string {
	d := defaultDelims
	if len(delims) == 4 {
		copy(d[:], delims)
		d = effDelims(d)
	}
	return guard(func() string {
		p := parser.VerifTokenMatcher(d[:])
		c, err := regexp.Compile(p)
		if err != nil {
			return "badpattern " + hexField(p)
		}
		norm := strings.ReplaceAll(p, "(?s:.+?)", "(?s:.)+?")
		return "ok " + hexField(norm) + " " + showMatch(c.FindStringSubmatchIndex(input))
	})
}

var rexBytes = []byte("ab-{%} \n|.*\\]^[x_1")

// genRex builds a random expression; budget bounds its size. Groups get the number 0 here and are
// numbered afterwards in print order.
func genRex(g *RNG, budget int) *rexNode {
	if budget <= 0 || g.Chance(30) {
		switch g.Intn(10) {
		case 0:
			return &rexNode{k: 's'}
		case 1:
			return &rexNode{k: 'w'}
		case 2:
			return &rexNode{k: 'd'}
		case 3:
			return &rexNode{k: 'a'}
		case 4:
			return &rexNode{k: 'n', b: rexBytes[g.Intn(len(rexBytes))]}
		case 5:
			if g.Chance(30) {
				return &rexNode{k: 'E'}
			}
		}
		return &rexNode{k: 'e', b: rexBytes[g.Intn(len(rexBytes))]}
	}
	switch g.Intn(12) {
	case 0, 1, 2, 3:
		return &rexNode{k: 'S', x: genRex(g, budget/2), y: genRex(g, budget/2)}
	case 4, 5:
		return &rexNode{k: 'A', x: genRex(g, budget/2), y: genRex(g, budget/2)}
	case 6: // optional, greedy or lazy
		x := genRex(g, budget-1)
		if g.Chance(70) {
			return &rexNode{k: 'A', x: x, y: &rexNode{k: 'E'}}
		}
		return &rexNode{k: 'A', x: &rexNode{k: 'E'}, y: x}
	case 7, 8: // star over an operand that consumes
		x := genRex(g, budget-1)
		for tries := 0; x.nullable() && tries < 5; tries++ {
			x = genRex(g, budget-1)
		}
		if x.nullable() {
			x = &rexNode{k: 'e', b: 'a'}
		}
		k := byte('G')
		if g.Chance(40) {
			k = 'L'
		}
		return &rexNode{k: k, x: x}
	case 9: // plus = seq x (star x)
		x := genRex(g, budget-1)
		for tries := 0; x.nullable() && tries < 5; tries++ {
			x = genRex(g, budget-1)
		}
		if x.nullable() {
			x = &rexNode{k: 's'}
		}
		k := byte('G')
		if g.Chance(40) {
			k = 'L'
		}
		return &rexNode{k: 'S', x: x, y: &rexNode{k: k, x: x}}
	default:
		return &rexNode{k: 'P', x: genRex(g, budget-1)}
	}
}

// number assigns group numbers in the order of the opening parentheses of the printed text; the two
// copies of a plus operand share their numbers (they are the same pointer).
func (r *rexNode) number(next *int, seen map[*rexNode]bool) {
	if r == nil || seen[r] {
		return
	}
	seen[r] = true
	if r.k == 'P' {
		*next++
		r.n = *next
	}
	r.x.number(next, seen)
	if r.k == 'S' && (r.y.k == 'G' || r.y.k == 'L') && r.y.x == r.x {
		return
	}
	r.y.number(next, seen)
}

func randRexInput(g *RNG) string {
	n := 1 + g.Intn(10)
	b := make([]byte, n)
	for i := range b {
		b[i] = rexBytes[g.Intn(len(rexBytes))]
	}
	return string(b)
}

var rexsFragments = []string{"{{", "}}", "{%", "%}", "-", " ", "\n", "\t", "x", "if", "a b", "%", "}", "{", "|", "<", ">", "[", "]", "!", "<<", "%>", "1"}

func rexStream(r *Run) {
	g := NewRNG(r.Seed, "rex")
	for _, c := range corpusLines("rex") {
		f := strings.Fields(c)
		if len(f) == 3 && r.Mine() {
			r.Emit(c, replayers["rex"](r, f))
		}
	}
	emitRex := func(re *rexNode, input string) {
		if !r.Mine() {
			return
		}
		cl := "rex " + re.enc() + " " + hexField(input)
		res := rexCase(re, input)
		r.Count("rex")
		if strings.HasSuffix(res, " -") {
			r.Count("rex:nomatch")
		} else {
			r.Count("rex:match")
			r.Nontrivial(cl)
		}
		r.Emit(cl, res)
	}
	// fixed small expressions: every constructor and every derived form once, on every input of length <= 3 over a b \n
	small := []string{"e61", "n61", "s", "w", "d", "a", "Se61e62", "Ae61e62", "Ae61E", "AEe61", "Ge61", "Le61", "Se61Ge61", "Se61Le61",
		"P1:e61", "SP1:e61P2:Ge62", "GP1:Ae61e62", "SAe61e62e63", "GAe61e62", "AAe61e62e63", "Se61SGe61e62", "ASe61e62E", "GSe61e62",
		"SP1:LaP2:e62", "SGsP1:Sw" + "Gw"}
	for _, s := range small {
		re, rest, ok := rexDecode(s)
		if !ok || rest != "" {
			panic("bad built-in expression " + s)
		}
		enumStrings([]string{"a", "b", "\n"}, 3, func(in string) {
			if in != "" {
				emitRex(re, in)
			}
		})
	}
	n := 4000
	if r.Tier == "thorough" {
		n = 100000
	}
	for i := 0; i < n; i++ {
		re := genRex(g, 2+g.Intn(14))
		next := 0
		re.number(&next, map[*rexNode]bool{})
		for j := 0; j < 4; j++ {
			emitRex(re, randRexInput(g))
		}
	}
	// the real token matcher
	emitRexs := func(d []string, input string) {
		if !r.Mine() {
			return
		}
		cl := "rexs " + encodeDelims(d) + " " + hexField(input)
		res := rexsCase(d, input)
		r.Count("rexs")
		if !strings.HasSuffix(res, " -") {
			r.Count("rexs:match")
			r.Nontrivial(cl)
		}
		r.Emit(cl, res)
	}
	alpha := []string{"<", ">", "[", "]", "|", "!", "$", "#", "(", ")", "{", "}", "%", ".", "*", "^", "\\", "?", "+", "a", "-"}
	randDelim := func() string {
		k := 1 + g.Intn(3)
		if g.Chance(10) {
			k = 4
		}
		var sb strings.Builder
		for i := 0; i < k; i++ {
			sb.WriteString(g.Pick(alpha))
		}
		return sb.String()
	}
	m := 1500
	if r.Tier == "thorough" {
		m = 40000
	}
	for i := 0; i < m; i++ {
		var d []string
		var eff [4]string
		switch {
		case i%5 == 0:
			d, eff = nil, defaultDelims
		default:
			q := [4]string{randDelim(), randDelim(), randDelim(), randDelim()}
			for j := range q {
				if g.Chance(8) {
					q[j] = ""
				}
			}
			if g.Chance(5) { // a non-ASCII delimiter anywhere but tag-right (the loop of the source ranges over runes)
				q[g.Intn(3)] = g.Pick([]string{"«", "é{", "😀"})
			}
			d, eff = q[:], effDelims(q)
		}
		frags := append([]string{eff[0], eff[1], eff[2], eff[3], eff[0] + "-", "-" + eff[1], eff[2] + "-", "-" + eff[3]}, rexsFragments...)
		ws := []string{"", " ", "  ", "\n", " \t"}
		hy := func() string {
			if g.Chance(30) {
				return "-"
			}
			return ""
		}
		for j := 0; j < 3; j++ {
			var sb strings.Builder
			for k := g.Intn(4); k > 0; k-- {
				sb.WriteString(g.Pick(frags))
			}
			switch g.Intn(5) {
			case 0, 1: // an object
				sb.WriteString(eff[0] + hy() + g.Pick(ws) + g.Pick([]string{"x", "a | b: 1", "x }", "\"%}\"", "é", "a\nb"}) + g.Pick(ws) + hy() + eff[1])
			case 2, 3: // a tag, with or without arguments; the arguments may contain proper prefixes of the closing delimiter
				args := ""
				if g.Chance(70) {
					args = g.Pick([]string{" ", "\n", "  "}) + g.Pick([]string{"x", "a b", "x == 1", eff[3][:len(eff[3])-1] + "z", "%", "-", "a" + eff[1]})
				}
				sb.WriteString(eff[2] + hy() + g.Pick(ws) + g.Pick([]string{"if", "assign", "x1", "_"}) + args + g.Pick(ws) + hy() + eff[3])
			}
			for k := g.Intn(4); k > 0; k-- {
				sb.WriteString(g.Pick(frags))
			}
			emitRexs(d, sb.String())
		}
	}
	r.Stats.Notes["rex"] = fmt.Sprintf("%d built-in expressions on all inputs of length 1..3 over a b \\n; %d random expressions x 4 inputs; %d delimiter lists x 3 inputs on the real token matcher", len(small), n, m)
}
