package main

// Stream `strf` (property C16): the string filters of filters/standard_filters.go, run through
// the expression evaluator exactly as a template would (`x | name: a0, a1`).
//
// Case lines
//
//	strf   <namehex> <recvhex>  <arg-enc>*     string receiver
//	strfv  <namehex> <recv-enc> <arg-enc>*     receiver of any kind (conversion clause)
//	strfsj <recvhex> <sephex>                  x | split: sep | join: sep
//
// Results: `ok <value-enc>` | `err filter:parity|filter:other|type|other` | `panic`.
//
// The oracle below is written against Go's unicode/utf8, unicode and strings packages and
// never consults the model.

import (
	"fmt"
	"math"
	"sort"
	"strings"
	"unicode"
	"unicode/utf8"

	"github.com/osteele/liquid"
	"github.com/osteele/liquid/expressions"
	"github.com/osteele/liquid/filters"
	"github.com/osteele/liquid/values"
)

func init() {
	streams["strf"] = strfStream
	replayers["strf"] = func(r *Run, f []string) string { return strfLine(r, strings.Join(f, " ")) }
}

// ---- running the real filters ---------------------------------------------------------------

var strfCfg = func() expressions.Config {
	cfg := expressions.NewConfig()
	filters.AddStandardFilters(&cfg)
	return cfg
}()

var strfExprs = map[string]expressions.Expression{}

// strfEval evaluates `x | name: a0, a1, ...` (or an explicit source) on the real implementation.
func strfEvalSrc(src string, recv any, args []any) (val any, res string) {
	res = guard(func() string {
		expr, ok := strfExprs[src]
		if !ok {
			var err error
			expr, err = expressions.Parse(src)
			if err != nil {
				return "err parse"
			}
			strfExprs[src] = expr
		}
		b := map[string]any{"x": recv}
		for i, a := range args {
			b[fmt.Sprintf("a%d", i)] = a
		}
		v, err := expr.Evaluate(expressions.NewContext(b, strfCfg))
		if err != nil {
			switch e := err.(type) {
			case expressions.FilterError:
				if _, ok := e.Err.(*values.CallParityError); ok {
					return "err filter:parity"
				}
				return "err filter:other"
			case values.TypeError:
				return "err type"
			}
			return "err other"
		}
		val = v
		return "ok " + Reify(v).Enc()
	})
	return
}

func strfSrc(name string, nargs int) string {
	src := "x | " + name
	for i := 0; i < nargs; i++ {
		if i == 0 {
			src += ": a0"
		} else {
			src += fmt.Sprintf(", a%d", i)
		}
	}
	return src
}

func strfEval(name string, recv any, args []any) (any, string) {
	return strfEvalSrc(strfSrc(name, len(args)), recv, args)
}

// evalStr runs a filter and returns its string result ("", false when it is not a string).
func evalStr(name string, recv any, args ...any) (string, bool) {
	v, _ := strfEval(name, recv, args)
	s, ok := v.(string)
	return s, ok
}

// ---- case lines -----------------------------------------------------------------------------

func encArg(a any) string {
	switch t := a.(type) {
	case int:
		return VInt(0, int64(t)).Enc()
	case string:
		return VStr(t).Enc()
	case nil:
		return VNil().Enc()
	}
	panic("bad arg")
}

func strfMkLine(name string, recv string, args []any) string {
	var sb strings.Builder
	sb.WriteString("strf ")
	sb.WriteString(hexField(name))
	sb.WriteByte(' ')
	sb.WriteString(hexField(recv))
	for _, a := range args {
		sb.WriteByte(' ')
		sb.WriteString(encArg(a))
	}
	return sb.String()
}

func strfvMkLine(name string, recv *V, args []any) string {
	s := "strfv " + hexField(name) + " " + recv.Enc()
	for _, a := range args {
		s += " " + encArg(a)
	}
	return s
}

func parseArgs(fs []string) []any {
	out := make([]any, len(fs))
	for i, f := range fs {
		out[i] = ParseV(f).Realise()
	}
	return out
}

// strfLine runs one case line (generated or replayed) and evaluates the oracle.
func strfLine(r *Run, line string) string {
	f := strings.Fields(line)
	switch {
	case f[0] == "strf" && len(f) >= 3:
		name, recv, args := unhexField(f[1]), unhexField(f[2]), parseArgs(f[3:])
		val, res := strfEval(name, recv, args)
		strfOracle(r, name, recv, args, val, res, line)
		if res != "ok "+VStr(recv).Enc() {
			r.Nontrivial(line)
		}
		return res
	case f[0] == "strfv" && len(f) >= 3:
		name, args := unhexField(f[1]), parseArgs(f[3:])
		recv := ParseV(f[2]).Realise()
		_, res := strfEval(name, recv, args)
		strfvOracle(r, name, recv, args, res, line)
		r.Nontrivial(line)
		return res
	case f[0] == "strfsj" && len(f) == 3:
		s, sep := unhexField(f[1]), unhexField(f[2])
		val, res := strfEvalSrc("x | split: a0 | join: a0", s, []any{sep})
		viol := func(clause, detail string) { r.Violate("C16", clause, line, detail) }
		if res == "panic" {
			viol("no-panic", firstLine(lastPanic))
		}
		got, _ := val.(string)
		// join inverts split when the text does not end in the separator (the filter drops
		// trailing empty pieces) and the separator is not the white-space-run special case
		if sep != " " && (sep == "" || !strings.HasSuffix(s, sep)) && got != s {
			viol("split-join", fmt.Sprintf("split|join gives %q", got))
		}
		return res
	}
	return "bad-case"
}

// ---- the oracle -----------------------------------------------------------------------------

func argS(args []any, i int, def string) (string, bool) {
	if i >= len(args) {
		return def, true
	}
	switch t := args[i].(type) {
	case string:
		return t, true
	case int:
		return fmt.Sprint(t), true
	}
	return "", false
}

func argI(args []any, i int, def int64) (int64, bool) {
	if i >= len(args) {
		return def, true
	}
	if n, ok := args[i].(int); ok {
		return int64(n), true
	}
	return 0, false
}

var strfParams = map[string]int{
	"append": 1, "prepend": 1, "capitalize": 1, "downcase": 1, "upcase": 1, "escape": 0, "escape_once": 1,
	"newline_to_br": 0, "remove": 1, "remove_first": 1, "replace": 2, "replace_first": 2, "slice": 2, "split": 1,
	"strip_html": 0, "strip_newlines": 0, "strip": 0, "lstrip": 0, "rstrip": 0, "truncate": 2, "truncatewords": 2,
	"url_encode": 0, "url_decode": 0, "size": 0,
}

func isWordSpaceB(c byte) bool  { return c == ' ' || c == '\t' || c == '\n' || c == '\f' || c == '\r' }
func isPosixSpaceB(c byte) bool { return c == ' ' || (c >= '\t' && c <= '\r') }

func wordsOf(s string) []string {
	return strings.FieldsFunc(s, func(r rune) bool { return r < 128 && isWordSpaceB(byte(r)) })
}

// leadSpace / trailSpace: byte length of the maximal prefix / suffix made of white-space runes.
func leadSpace(s string) int {
	i := 0
	for i < len(s) {
		c, w := utf8.DecodeRuneInString(s[i:])
		if !unicode.IsSpace(c) {
			break
		}
		i += w
	}
	return i
}

func trailSpace(s string) int {
	j := len(s)
	for j > 0 {
		c, w := utf8.DecodeLastRuneInString(s[:j])
		if !unicode.IsSpace(c) {
			break
		}
		j -= w
	}
	return len(s) - j
}

func refReplace(s, old, new string, limit int) string {
	var b strings.Builder
	n := 0
	if old == "" {
		b.WriteString(new)
		n++
		for i := 0; i < len(s); {
			if limit >= 0 && n >= limit {
				b.WriteString(s[i:])
				return b.String()
			}
			_, w := utf8.DecodeRuneInString(s[i:])
			b.WriteString(s[i : i+w])
			b.WriteString(new)
			n++
			i += w
		}
		return b.String()
	}
	for {
		i := strings.Index(s, old)
		if i < 0 || (limit >= 0 && n >= limit) {
			b.WriteString(s)
			return b.String()
		}
		b.WriteString(s[:i])
		b.WriteString(new)
		s = s[i+len(old):]
		n++
	}
}

func refSplit(s, sep string) []string {
	var ps []string
	switch sep {
	case " ":
		// pieces between maximal runs of [ \t\n\v\f\r]
		cur := 0
		i := 0
		for i < len(s) {
			if isPosixSpaceB(s[i]) {
				ps = append(ps, s[cur:i])
				for i < len(s) && isPosixSpaceB(s[i]) {
					i++
				}
				cur = i
			} else {
				i++
			}
		}
		ps = append(ps, s[cur:])
	case "":
		for i := 0; i < len(s); {
			_, w := utf8.DecodeRuneInString(s[i:])
			ps = append(ps, s[i:i+w])
			i += w
		}
	default:
		for {
			i := strings.Index(s, sep)
			if i < 0 {
				break
			}
			ps = append(ps, s[:i])
			s = s[i+len(sep):]
		}
		ps = append(ps, s)
	}
	for len(ps) > 0 && ps[len(ps)-1] == "" {
		ps = ps[:len(ps)-1]
	}
	return ps
}

func refURLDecode(s string) (string, bool) {
	unhex := func(c byte) (byte, bool) {
		switch {
		case '0' <= c && c <= '9':
			return c - '0', true
		case 'a' <= c && c <= 'f':
			return c - 'a' + 10, true
		case 'A' <= c && c <= 'F':
			return c - 'A' + 10, true
		}
		return 0, false
	}
	var b []byte
	for i := 0; i < len(s); i++ {
		switch s[i] {
		case '%':
			if i+2 >= len(s) {
				return "", false
			}
			h, ok1 := unhex(s[i+1])
			l, ok2 := unhex(s[i+2])
			if !ok1 || !ok2 {
				return "", false
			}
			b = append(b, h<<4|l)
			i += 2
		case '+':
			b = append(b, ' ')
		default:
			b = append(b, s[i])
		}
	}
	return string(b), true
}

func refStripHTML(s string) string {
	var b []byte
	for i := 0; i < len(s); {
		if s[i] == '<' {
			j := i + 1
			for j < len(s) && s[j] != '>' && s[j] != '\n' {
				j++
			}
			if j < len(s) && s[j] == '>' {
				i = j + 1
				continue
			}
		}
		b = append(b, s[i])
		i++
	}
	return string(b)
}

var escEntities = []string{"&amp;", "&lt;", "&gt;", "&#34;", "&#39;"}

// escapeClean: no raw < > ' " and every & starts one of the five entities escape produces.
func escapeClean(res string) string {
	for i := 0; i < len(res); i++ {
		switch res[i] {
		case '<', '>', '\'', '"':
			return fmt.Sprintf("raw %q at %d", res[i], i)
		case '&':
			ok := false
			for _, e := range escEntities {
				if strings.HasPrefix(res[i:], e) {
					ok = true
				}
			}
			if !ok {
				return fmt.Sprintf("bare & at %d", i)
			}
		}
	}
	return ""
}

var unescFive = strings.NewReplacer("&amp;", "&", "&lt;", "<", "&gt;", ">", "&#34;", "\"", "&#39;", "'")

func eqStrings(a, b []string) bool {
	if len(a) != len(b) {
		return false
	}
	for i := range a {
		if a[i] != b[i] {
			return false
		}
	}
	return true
}

func allValid(ss ...string) bool {
	for _, s := range ss {
		if !utf8.ValidString(s) {
			return false
		}
	}
	return true
}

// strfOracle checks the C16 clauses on the real result of `recv | name: args`.
func strfOracle(r *Run, name, s string, args []any, val any, res, line string) {
	viol := func(clause, detail string) { r.Violate("C16", clause, line, detail) }
	if res == "panic" {
		viol("no-panic", firstLine(lastPanic))
		return
	}
	np, known := strfParams[name]
	if !known {
		return
	}
	if len(args) > np {
		if res != "err filter:parity" {
			viol("parity", "too many arguments accepted: "+res)
		}
		return
	}
	// well-typed arguments only from here on
	strArgs := []string{}
	for i, a := range args {
		switch a.(type) {
		case string:
			strArgs = append(strArgs, a.(string))
		case int:
			if !((name == "slice") || (name == "truncate" && i == 0) || (name == "truncatewords" && i == 0)) {
				strArgs = append(strArgs, fmt.Sprint(a))
			}
		default:
			return
		}
	}
	inValid := allValid(s) && allValid(strArgs...)
	got, isStr := val.(string)
	checkValid := func() {
		if inValid && isStr && !utf8.ValidString(got) {
			viol("utf8-preserved", fmt.Sprintf("valid input, invalid output %q", got))
		}
	}
	wantStr := func() bool {
		if !isStr {
			viol("result-kind", "expected a string result, got "+res)
			return false
		}
		return true
	}
	expect := func(clause, want string) {
		if got != want {
			viol(clause, fmt.Sprintf("got %q want %q", got, want))
		}
	}
	switch name {
	case "append", "prepend":
		a, ok := argS(args, 0, "")
		if !ok || !wantStr() {
			return
		}
		if name == "append" {
			expect("concat", s+a)
		} else {
			expect("concat", a+s)
		}
	case "size":
		n, ok := val.(int)
		if !ok || n != utf8.RuneCountInString(s) {
			viol("size-runes", fmt.Sprintf("got %s want %d", res, utf8.RuneCountInString(s)))
		}
		return
	case "upcase", "downcase":
		if !wantStr() {
			return
		}
		if again, ok := evalStr(name, got); !ok || again != got {
			viol("case-idempotent", fmt.Sprintf("%q then %q", got, again))
		}
		if inValid && utf8.RuneCountInString(got) != utf8.RuneCountInString(s) {
			viol("case-length", fmt.Sprintf("rune count %d -> %d", utf8.RuneCountInString(s), utf8.RuneCountInString(got)))
		}
		// rune-wise against unicode.ToUpper / ToLower
		var b strings.Builder
		for _, c := range s {
			if name == "upcase" {
				b.WriteRune(unicode.ToUpper(c))
			} else {
				b.WriteRune(unicode.ToLower(c))
			}
		}
		expect("case-map", b.String())
	case "capitalize":
		if !wantStr() {
			return
		}
		if s == "" {
			expect("capitalize", "")
		} else {
			c, w := utf8.DecodeRuneInString(s)
			expect("capitalize", string(unicode.ToUpper(c))+s[w:])
		}
	case "strip", "lstrip", "rstrip":
		if !wantStr() {
			return
		}
		l, t := 0, 0
		if name != "rstrip" {
			l = leadSpace(s)
		}
		if name != "lstrip" {
			t = trailSpace(s[l:])
		}
		// s = (white space) ++ result ++ (white space): only space removed
		expect("strip-only-space", s[l:len(s)-t])
		if name != "rstrip" {
			if c, _ := utf8.DecodeRuneInString(got); got != "" && unicode.IsSpace(c) {
				viol("strip-leading", fmt.Sprintf("%q starts with white space", got))
			}
		}
		if name != "lstrip" {
			if c, _ := utf8.DecodeLastRuneInString(got); got != "" && unicode.IsSpace(c) {
				viol("strip-trailing", fmt.Sprintf("%q ends with white space", got))
			}
		}
	case "replace", "replace_first", "remove", "remove_first":
		if !wantStr() {
			return
		}
		old, ok1 := argS(args, 0, "")
		nw := ""
		ok2 := true
		if name == "replace" || name == "replace_first" {
			nw, ok2 = argS(args, 1, "")
		}
		if !ok1 || !ok2 {
			return
		}
		limit := -1
		if strings.HasSuffix(name, "_first") {
			limit = 1
		}
		if old == nw {
			expect("replace-self", s)
		}
		expect("replace", refReplace(s, old, nw, limit))
		if strings.HasPrefix(name, "remove") {
			if len(got) > len(s) {
				viol("remove-no-growth", fmt.Sprintf("%d -> %d bytes", len(s), len(got)))
			}
			other := "replace"
			if limit == 1 {
				other = "replace_first"
			}
			if viaReplace, ok := evalStr(other, s, old, ""); !ok || viaReplace != got {
				viol("remove-is-replace-empty", fmt.Sprintf("remove %q, replace with \"\" %q", got, viaReplace))
			}
		}
	case "split":
		sep, ok := argS(args, 0, "")
		if !ok {
			return
		}
		ps, isSl := val.([]string)
		if !isSl {
			viol("result-kind", "split did not return []string: "+res)
			return
		}
		if want := refSplit(s, sep); !eqStrings(ps, want) {
			viol("split", fmt.Sprintf("got %q want %q", ps, want))
		}
		if len(ps) > 0 && ps[len(ps)-1] == "" {
			viol("split-trailing-empty", fmt.Sprintf("%q", ps))
		}
		for _, p := range ps {
			if sep != "" && sep != " " && strings.Contains(p, sep) {
				viol("split-piece-has-sep", fmt.Sprintf("%q", ps))
			}
			if inValid && !utf8.ValidString(p) {
				viol("utf8-preserved", fmt.Sprintf("piece %q", p))
			}
		}
		// join . split = id on separator-free pieces
		if sep != " " && (sep == "" || !strings.HasSuffix(s, sep)) && strings.Join(ps, sep) != s {
			viol("split-join", fmt.Sprintf("pieces %q do not join back", ps))
		}
		return
	case "slice":
		if !wantStr() {
			return
		}
		start, ok1 := argI(args, 0, 0)
		n, ok2 := argI(args, 1, 1)
		if !ok1 || !ok2 {
			return
		}
		rs := []rune(s)
		L := int64(len(rs))
		st := start
		if st < 0 {
			st += L
		}
		want := ""
		if st >= 0 && st <= L && n >= 0 {
			end := L
			if n < L-st {
				end = st + n
			}
			want = string(rs[st:end])
		}
		expect("slice", want)
		if c := int64(utf8.RuneCountInString(got)); c > n && !(n < 0 && c == 0) {
			viol("slice-counts-runes", fmt.Sprintf("%d characters for length %d", c, n))
		}
		if utf8.RuneCountInString(got) > utf8.RuneCountInString(s) || (inValid && len(got) > len(s)) {
			viol("slice-no-growth", fmt.Sprintf("%q from %q", got, s))
		}
	case "truncate":
		if !wantStr() {
			return
		}
		n, ok1 := argI(args, 0, 50)
		el, ok2 := argS(args, 1, "...")
		if !ok1 || !ok2 {
			return
		}
		rs := []rune(s)
		if int64(len(rs)) <= n {
			expect("truncate-fits", s)
		} else {
			k := int64(utf8.RuneCountInString(el))
			keep := int64(0)
			if n > k {
				keep = n - k
			}
			if !strings.HasSuffix(got, el) {
				viol("truncate-ellipsis", fmt.Sprintf("%q does not end in %q", got, el))
			} else {
				kept := got[:len(got)-len(el)]
				if kept != string(rs[:keep]) {
					viol("truncate-counts-runes", fmt.Sprintf("kept %q want %q", kept, string(rs[:keep])))
				}
				if n >= k && int64(utf8.RuneCountInString(kept))+k != n {
					viol("truncate-length", fmt.Sprintf("%q has not %d characters", got, n))
				}
			}
		}
	case "truncatewords":
		if !wantStr() {
			return
		}
		n, ok1 := argI(args, 0, 15)
		el, ok2 := argS(args, 1, "...")
		if !ok1 || !ok2 {
			return
		}
		if n < 1 {
			n = 1
		}
		ws := wordsOf(s)
		if int64(len(ws)) <= n {
			expect("truncatewords-fits", s)
		} else if !strings.HasSuffix(got, el) {
			viol("truncatewords-ellipsis", fmt.Sprintf("%q does not end in %q", got, el))
		} else {
			kept := got[:len(got)-len(el)]
			if !strings.HasPrefix(s, kept) || !eqStrings(wordsOf(kept), ws[:n]) || (kept != "" && isWordSpaceB(kept[len(kept)-1])) {
				viol("truncatewords-first-n", fmt.Sprintf("kept %q of %q for n=%d", kept, s, n))
			}
		}
	case "escape":
		if !wantStr() {
			return
		}
		if d := escapeClean(got); d != "" {
			viol("escape-clean", d+" in "+fmt.Sprintf("%q", got))
		}
		if back := unescFive.Replace(got); back != s {
			viol("escape-invertible", fmt.Sprintf("%q reads back as %q", got, back))
		}
		if once, ok := evalStr("escape_once", got); !ok || once != got {
			viol("escape-once-after-escape", fmt.Sprintf("escape_once(%q) = %q", got, once))
		}
	case "escape_once":
		if !wantStr() {
			return
		}
		if d := escapeClean(got); d != "" {
			viol("escape-clean", d+" in "+fmt.Sprintf("%q", got))
		}
		if again, ok := evalStr("escape_once", got); !ok || again != got {
			viol("escape-once-idempotent", fmt.Sprintf("%q then %q", got, again))
		}
	case "url_encode":
		if !wantStr() {
			return
		}
		for i := 0; i < len(got); i++ {
			c := got[i]
			if !(c >= 'a' && c <= 'z' || c >= 'A' && c <= 'Z' || c >= '0' && c <= '9' || strings.IndexByte("-_.~+%", c) >= 0) {
				viol("url-encode-alphabet", fmt.Sprintf("%q in %q", c, got))
				break
			}
		}
		if back, ok := refURLDecode(got); !ok || back != s {
			viol("url-roundtrip", fmt.Sprintf("%q decodes (reference) to %q", got, back))
		}
		if back, ok := evalStr("url_decode", got); !ok || back != s {
			viol("url-roundtrip", fmt.Sprintf("url_decode(url_encode(s)) = %q", back))
		}
		return
	case "url_decode":
		want, ok := refURLDecode(s)
		if ok != isStr || (ok && got != want) {
			viol("url-decode", fmt.Sprintf("got %s, reference (%q, %v)", res, want, ok))
		}
		if !ok && res != "err filter:other" {
			viol("url-decode-error", "a bad escape must be an error, got "+res)
		}
		return
	case "newline_to_br":
		if !wantStr() {
			return
		}
		if strings.Contains(got, "\n") || len(got) != len(s)+5*strings.Count(s, "\n") ||
			strings.Join(strings.Split(s, "\n"), "<br />") != got {
			viol("newline-to-br", fmt.Sprintf("%q", got))
		}
	case "strip_newlines":
		if !wantStr() {
			return
		}
		var b []byte
		for i := 0; i < len(s); i++ {
			if s[i] != '\n' {
				b = append(b, s[i])
			}
		}
		expect("strip-newlines", string(b))
	case "strip_html":
		if !wantStr() {
			return
		}
		expect("strip-html", refStripHTML(s))
	}
	checkValid()
}

var strfvPrintEngine = liquid.NewEngine()

// strfvOracle: a non-string receiver behaves as the text it prints as (nil as "").
func strfvOracle(r *Run, name string, recv any, args []any, res, line string) {
	viol := func(clause, detail string) { r.Violate("C16", clause, line, detail) }
	if res == "panic" {
		viol("no-panic", firstLine(lastPanic))
		return
	}
	if name == "size" {
		want := 0
		switch t := recv.(type) {
		case string:
			want = utf8.RuneCountInString(t)
		case []any:
			want = len(t)
		case []string:
			want = len(t)
		case []int:
			want = len(t)
		}
		if res != "ok "+VInt(0, int64(want)).Enc() {
			viol("size-polymorphic", fmt.Sprintf("got %s want %d", res, want))
		}
		return
	}
	text := ""
	switch t := recv.(type) {
	case nil:
	case string:
		text = t
	case bool, int, int8, int16, int32, int64, uint, uint8, uint16, uint32, uint64, float32, float64:
		// "converted to the text they print as": the text is what the engine prints for {{ x }}
		// (a whole float is written in full: 1000000, not fmt's 1e+06)
		var err error
		text, err = strfvPrintEngine.ParseAndRenderString("{{ x }}", map[string]any{"x": t})
		if err != nil {
			return
		}
	default:
		return
	}
	if _, want := strfEval(name, text, args); want != res {
		viol("receiver-to-text", fmt.Sprintf("receiver %T(%v): %s, on its text %q: %s", recv, recv, res, text, want))
	}
}

// ---- generators -----------------------------------------------------------------------------

var strfAlphabet = []string{"a", "B", " ", "\n", "é", "😀", "<", "&", "\"", "%", "+", ","}

var strfNoArg = []string{"escape", "newline_to_br", "strip_html", "strip_newlines", "strip", "lstrip", "rstrip",
	"url_encode", "url_decode", "size", "capitalize", "downcase", "upcase", "escape_once"}
var strfOneStr = []string{"append", "prepend", "remove", "remove_first", "split"}
var strfAll = []string{"append", "prepend", "capitalize", "downcase", "upcase", "escape", "escape_once", "newline_to_br",
	"remove", "remove_first", "replace", "replace_first", "slice", "split", "strip_html", "strip_newlines", "strip",
	"lstrip", "rstrip", "truncate", "truncatewords", "url_encode", "url_decode", "size"}

var strfFragments = []string{
	"a", "B", "z", "Z", "0", "9", " ", "  ", "\n", "\t", "\v", "\f", "\r", "\r\n", "é", "É", "😀", "ß", "ÿ", "µ", "ǆ", "İ", "Σ", "ς",
	"\u00a0", "\u0085", "\u2003", "\u3000", "\u2028", "\u1680", "\ufffd", "\ufeff", "日本",
	"<", ">", "<b>", "</b>", "<a href=\"x\">", "<br />", "<\n>", "&", "&amp;", "&lt;", "&gt;", "&#34;", "&#39;", "&quot;", "&apos;",
	"&amp", "&lt", "&#x41;", "&#X41;", "&#65;", "&#65", "&#6", "&#x;", "&#;", "&#", "&#x", "&#0;", "&#128;", "&#x9f;", "&#55296;",
	"&#1114112;", "&#99999999999;", "&#xfffffffff;", "&a", "&a;", "&ab", "&ab;", "&abc;", "&eacute;", "&notit;", "&AMP;", "&LT", ";", "#",
	"\"", "'", "%", "%41", "%4", "%zz", "%C3%A9", "%c3%a9", "+", ",", ", ", ".", "..", "...", "-", "_", "~", "*", "/", "=", "$1", "${1}", "\\",
	"\xff", "\xc3", "\xa9", "\xe2\x82", "\xf0\x9f", "\xed\xa0\x80", "\xc0\x80", "\x00", "\x7f", "\x80",
	"word", "Ground control to Major Tom.", "one two three", "my",
}

func randomStrfString(g *RNG, maxLen int) (string, string) {
	n := 0
	switch k := g.Intn(100); {
	case k < 30:
		n = g.Intn(9)
	case k < 70:
		n = g.Intn(41)
	default:
		n = g.Intn(maxLen + 1)
	}
	var sb strings.Builder
	switch k := g.Intn(100); {
	case k < 20: // raw bytes (mostly invalid UTF-8)
		for sb.Len() < n {
			sb.WriteByte(byte(g.Intn(256)))
		}
		return clip(sb.String(), n), "bytes"
	case k < 40: // valid UTF-8 over all planes
		for sb.Len() < n {
			switch g.Intn(5) {
			case 0:
				sb.WriteRune(rune(0x80 + g.Intn(0x780)))
			case 1:
				c := rune(0x800 + g.Intn(0xF800))
				if c >= 0xD800 && c <= 0xDFFF {
					c = 0x20AC
				}
				sb.WriteRune(c)
			case 2:
				sb.WriteRune(rune(0x10000 + g.Intn(0x100000)))
			default:
				sb.WriteByte(byte(32 + g.Intn(95)))
			}
		}
		s := sb.String()
		for len(s) > n && len(s) > 0 { // drop whole runes
			_, w := utf8.DecodeLastRuneInString(s)
			s = s[:len(s)-w]
		}
		return s, "utf8"
	default: // fragment-dense
		for sb.Len() < n {
			sb.WriteString(g.Pick(strfFragments))
		}
		s := sb.String()
		if len(s) > maxLen {
			s = s[:maxLen]
		}
		return s, "dense"
	}
}

func clip(s string, n int) string {
	if len(s) > n {
		return s[:n]
	}
	return s
}

var strfInts = []int{-3, -2, -1, 0, 1, 2, 3, 4, 5, 6, 7, 8, 9, 10, 11, 12, 13, 15, 16, 49, 50, 51, 100, 199, 200, 201, 999, 1000, 1001, 2000,
	-1000, -2000, 1 << 31, -(1 << 31), 1 << 32, math.MaxInt64, math.MaxInt64 - 1, math.MinInt64, math.MinInt64 + 1}

// randomStrArg: an argument likely to interact with the receiver (a substring of it), or a fragment.
func randomStrArg(g *RNG, s string) string {
	switch k := g.Intn(100); {
	case k < 35 && len(s) > 0:
		i := g.Intn(len(s))
		j := i + 1 + g.Intn(minInt(4, len(s)-i))
		return s[i:j]
	case k < 45:
		return ""
	case k < 50:
		return " "
	case k < 60:
		t, _ := randomStrfString(g, 12)
		return t
	default:
		return g.Pick(strfFragments)
	}
}

func minInt(a, b int) int {
	if a < b {
		return a
	}
	return b
}

// caseAwkward: runes whose simple case mapping leaves the block, changes the UTF-8 length, has a title case of its own or
// does not come back (U+00B5 → U+039C, ß, ÿ → Ÿ, dotted/dotless i, the digraphs Ǆ ǅ ǆ …, ẞ, Ohm, Kelvin, Ångström, Ⱥ Ⱦ, ſ, final sigma …).
var caseAwkward = []rune{0xB5, 0xDF, 0xFF, 0x130, 0x131, 0x149, 0x178, 0x17F, 0x1C4, 0x1C5, 0x1C6, 0x1C7, 0x1C8, 0x1C9, 0x1CA, 0x1CB, 0x1CC,
	0x1F0, 0x1F1, 0x1F2, 0x1F3, 0x23A, 0x23E, 0x23F, 0x240, 0x250, 0x251, 0x252, 0x26B, 0x27D, 0x345, 0x390, 0x3B0, 0x3C2, 0x3C3, 0x3A3, 0x3D0, 0x3D1,
	0x3D5, 0x3D6, 0x3F0, 0x3F1, 0x3F4, 0x3F5, 0x587, 0x10D0, 0x1C90, 0x13A0, 0xAB70, 0x13F8, 0x1C80, 0x1C88, 0x1E9B, 0x1E9E, 0x1FBE, 0x1FB3, 0x1FBC,
	0x2126, 0x212A, 0x212B, 0x2132, 0x214E, 0x2160, 0x2170, 0x24B6, 0x24D0, 0x2C65, 0x2C66, 0xA64A, 0xA64B, 0xFB00, 0xFB06, 0xFF21, 0xFF41,
	0x10400, 0x10428, 0x1E900, 0x1E922, 0x6B, 0x4B, 0x69, 0x49, 0xE5, 0xC5, 0x3C9, 0x3A9, 0x3B8, 0x398, 0xFFFD}

// caseSampleRunes is the quick tier's stratified sample of the code space, computed from the functions themselves (never from the
// model's tables): every rune one of the case functions moves, the images, the neighbourhood of every point where the distance
// to the image changes (the borders of the ranges a table would have), the ends of the planes and of the surrogate gap, the
// awkward runes, and 2000 random others. Sorted, without duplicates, surrogates left out.
func caseSampleRunes(g *RNG) []rune {
	set := map[rune]bool{}
	add := func(c rune) {
		if c >= 0 && c <= unicode.MaxRune && !(0xD800 <= c && c <= 0xDFFF) {
			set[c] = true
		}
	}
	var pu, pl rune
	for c := rune(0); c <= unicode.MaxRune; c++ {
		u, l, t := unicode.ToUpper(c), unicode.ToLower(c), unicode.ToTitle(c)
		if u != c || l != c || t != c {
			add(c)
			add(u)
			add(l)
			add(t)
		}
		if du, dl := u-c, l-c; c > 0 && (du != pu || dl != pl) {
			for d := rune(-2); d <= 2; d++ {
				add(c + d)
			}
		}
		pu, pl = u-c, l-c
	}
	for _, c := range []rune{0, 0x7F, 0x80, 0x7FF, 0x800, 0xD7FF, 0xE000, 0xFFFC, 0xFFFD, 0xFFFE, 0xFFFF, 0x10000, 0x1FFFF, 0x20000, 0xE0000, 0x10FFFE, 0x10FFFF} {
		add(c)
	}
	for _, c := range caseAwkward {
		add(c)
	}
	for n := 0; n < 2000; {
		c := rune(g.Intn(unicode.MaxRune + 1))
		if !set[c] && !(0xD800 <= c && c <= 0xDFFF) {
			add(c)
			n++
		}
	}
	out := make([]rune, 0, len(set))
	for c := range set {
		out = append(out, c)
	}
	sort.Slice(out, func(i, j int) bool { return out[i] < out[j] })
	return out
}

func strfStream(r *Run) {
	thorough := r.Tier == "thorough"
	run := func(kind, line string) {
		if !r.Mine() {
			return
		}
		f := strings.Fields(line)
		r.Count("gen=" + kind)
		if f[0] == "strfsj" {
			r.Count("filter=split|join")
		} else {
			r.Count("filter=" + unhexField(f[1]))
		}
		r.Emit(line, strfLine(r, line))
	}
	strf := func(kind, name, recv string, args ...any) { run(kind, strfMkLine(name, recv, args)) }

	// 0. corpus (past disagreements and the defect inputs of DESIGN section 7)
	for _, c := range corpusLines("strf") {
		run("corpus", c)
	}
	for _, c := range [][]any{
		{"slice", "abc", 5}, {"slice", "abc", 1, -1}, {"slice", "abc", 1, math.MaxInt64}, {"slice", "abc", math.MinInt64},
		{"truncatewords", "a b", 2000}, {"truncatewords", "a b", -1}, {"truncatewords", "a b c", 3}, {"truncate", "a b", 2000},
		{"truncate", "abcdef", 4, "é"}, {"truncate", "abcdef", 1}, {"truncate", "abcdef\nghijkl", 5}, {"truncate", "abcdef", 4, "$1"},
		{"truncate", "abcdef", math.MinInt64}, {"truncate", "", -1},
		{"capitalize", "élan"},
	} {
		strf("defects", c[0].(string), c[1].(string), c[2:]...)
	}

	// 1. the case mapping, rune by rune (the model looks every rune up in the tables of translator T6). Thorough: every
	// rune U+0000..U+10FFFF; quick: the stratified sample of caseSampleRunes. Each rune alone and inside a string, next to
	// ASCII letters of both cases and next to invalid bytes; in the thorough tier also every block of 256 consecutive runes as one
	// string with ASCII and invalid bytes between the runes.
	caseCtx := func(kind string, c rune) {
		cs := string(c)
		for _, name := range []string{"upcase", "downcase", "capitalize"} {
			strf(kind, name, cs)
			strf(kind, name, "a"+cs+"B\xff"+cs+"\x80z")
		}
		strf(kind, "capitalize", cs+"a\xffB")
		strf(kind, "capitalize", "\xff"+cs)
	}
	if thorough {
		for c := rune(0); c <= unicode.MaxRune; c++ {
			if 0xD800 <= c && c <= 0xDFFF {
				continue
			}
			caseCtx("case-all-runes", c)
		}
		for base := rune(0); base <= unicode.MaxRune; base += 256 {
			if 0xD800 <= base && base <= 0xDFFF {
				continue
			}
			var sb strings.Builder
			for c := base; c < base+256; c++ {
				sb.WriteRune(c)
				switch c % 4 {
				case 1:
					sb.WriteString("q")
				case 2:
					sb.WriteString("\xc3")
				case 3:
					sb.WriteString("Q\xa9")
				}
			}
			for _, name := range []string{"upcase", "downcase", "capitalize"} {
				strf("case-blocks", name, sb.String())
			}
		}
	} else {
		sample := caseSampleRunes(NewRNG(r.Seed, "strf-case"))
		r.Stats.Notes["case-sample"] = fmt.Sprintf("%d runes: every rune unicode.ToUpper/ToLower/ToTitle moves and its images, 2 runes either side of "+
			"every point where a delta changes, the ends of the planes and of the surrogate gap, the awkward runes, 2000 random others", len(sample))
		for _, c := range sample {
			caseCtx("case-sample", c)
		}
	}

	// 2. exhaustive: every string over the alphabet x every filter x small arguments
	maxLen := 3
	if thorough {
		maxLen = 4
	}
	var recvs, args2, args1 []string
	enumStrings(strfAlphabet, maxLen, func(s string) { recvs = append(recvs, s) })
	enumStrings(strfAlphabet, 2, func(s string) { args2 = append(args2, s) })
	enumStrings(strfAlphabet, 1, func(s string) { args1 = append(args1, s) })
	r.Stats.Notes["exhaustive"] = fmt.Sprintf("all %d strings of length <= %d over %q; string arguments: all %d of length <= 2; integers -3..12",
		len(recvs), maxLen, strfAlphabet, len(args2))
	ints := []int{}
	for i := -3; i <= 12; i++ {
		ints = append(ints, i)
	}
	ellipses := []any{nil, "", "é", "+😀", "..."}
	news := []string{"", "é", "a&"}
	for _, s := range recvs {
		short := len([]rune(s)) <= 3
		for _, name := range strfNoArg {
			strf("exhaustive", name, s)
		}
		for _, name := range strfOneStr {
			for _, a := range args2 {
				strf("exhaustive", name, s, a)
			}
		}
		if short {
			for _, a := range args2 {
				run("exhaustive", "strfsj "+hexField(s)+" "+hexField(a))
			}
		}
		for _, name := range []string{"replace", "replace_first"} {
			olds := args2
			if !short {
				olds = args1
			}
			for _, old := range olds {
				for _, nw := range news {
					strf("exhaustive", name, s, old, nw)
				}
				strf("exhaustive", name, s, old, old)
			}
		}
		strf("exhaustive", "slice", s)
		for _, st := range ints {
			strf("exhaustive", "slice", s, st)
			for _, n := range ints {
				strf("exhaustive", "slice", s, st, n)
			}
		}
		for _, name := range []string{"truncate", "truncatewords"} {
			strf("exhaustive", name, s)
			for _, n := range ints {
				for _, el := range ellipses {
					if el == nil {
						strf("exhaustive", name, s, n)
					} else {
						strf("exhaustive", name, s, n, el)
					}
				}
			}
		}
	}
	// arity: the unused second parameter, one argument too many, integers for string parameters
	for _, s := range []string{"", "a b", "é<&"} {
		for _, name := range strfAll {
			np := strfParams[name]
			a := []any{}
			for len(a) <= np {
				a = append(a, "a")
				if name == "slice" || ((name == "truncate" || name == "truncatewords") && len(a) == 1) {
					a[len(a)-1] = 1
				}
				strf("arity", name, s, a...)
			}
			if np >= 1 && name != "slice" && name != "truncate" && name != "truncatewords" {
				strf("arity", name, s, 5)
			}
		}
	}

	// 3. receivers that are not strings
	univ := append(scalarUniverse(), VAnys(), VAnys(VInt(0, 1), VInt(0, 2)), VSlice(TStr, VStr("a")), VSlice(TInt(0), VInt(0, 1)))
	// float32 values with a fraction that float32 holds only approximately: the text they print as is the shortest
	// float32 spelling (0.1), not the spelling of the same value widened to float64 (0.10000000149011612)
	for _, f := range []float32{0.1, 1.1, 2.675, 3.3, -0.7, 1e-7, 123456.7} {
		univ = append(univ, VFlt(0, float64(f)))
	}
	for _, v := range univ {
		for _, name := range strfAll {
			if (v.Kind == 'L') != (name == "size") && v.Kind == 'L' {
				continue
			}
			var a []any
			switch name {
			case "append", "prepend", "remove", "remove_first", "split":
				a = []any{"1"}
			case "replace", "replace_first":
				a = []any{"1", "x"}
			case "slice":
				a = []any{1, 2}
			case "truncate", "truncatewords":
				a = []any{2}
			}
			run("receivers", strfvMkLine(name, v, a))
		}
	}

	// 4. random strings up to 200 bytes (invalid UTF-8 included), random filter and arguments
	g := NewRNG(r.Seed, "strf")
	n := 40000
	if thorough {
		n = 600000
	}
	for i := 0; i < n; i++ {
		s, kind := randomStrfString(g, 200)
		name := strfAll[g.Intn(len(strfAll))]
		var a []any
		switch name {
		case "append", "prepend", "remove", "remove_first", "split":
			a = []any{randomStrArg(g, s)}
		case "replace", "replace_first":
			old := randomStrArg(g, s)
			nw := randomStrArg(g, s)
			if g.Chance(10) {
				nw = old
			}
			a = []any{old, nw}
		case "slice":
			a = []any{strfInts[g.Intn(len(strfInts))]}
			if g.Chance(70) {
				a = append(a, strfInts[g.Intn(len(strfInts))])
			}
		case "truncate", "truncatewords":
			if g.Chance(90) {
				a = append(a, strfInts[g.Intn(len(strfInts))])
				if g.Chance(60) {
					a = append(a, randomStrArg(g, s))
				}
			}
		}
		if name == "split" && g.Chance(40) {
			// a text built from separator-free pieces
			sep := a[0].(string)
			if sep != "" {
				k := 1 + g.Intn(5)
				ps := make([]string, k)
				for j := range ps {
					p, _ := randomStrfString(g, 10)
					p = strings.Map(func(c rune) rune {
						if strings.ContainsRune(sep, c) || c == utf8.RuneError {
							return 'x'
						}
						return c
					}, p)
					ps[j] = p
				}
				s = strings.Join(ps, sep)
				kind = "pieces"
				run("random-"+kind, "strfsj "+hexField(s)+" "+hexField(sep))
			}
		}
		if name == "url_decode" && g.Chance(50) {
			s, _ = evalStr("url_encode", s)
			if g.Chance(30) && len(s) > 0 {
				k := g.Intn(len(s))
				s = s[:k] + g.Pick([]string{"%", "%4", "+", "%zz", "%41"}) + s[k:]
			}
		}
		if (name == "escape_once") && g.Chance(40) {
			s, _ = evalStr("escape", s)
		}
		r.Count(sizeBucket(len(s)))
		strf("random-"+kind, name, s, a...)
	}
}

