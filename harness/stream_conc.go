package main

// Stream `conc` (property C04): concurrent parse/render on one shared engine.
//
// A *round* shares ONE configured engine, ONE set of parsed templates and ONE set of binding
// values (drops included) among N goroutines that mix ParseTemplate / ParseAndRenderString /
// ParseTemplateLocation and Render / RenderString / FRender calls. Rounds range over
// N ∈ {2,4,8,16,32} × GOMAXPROCS ∈ {1,2,4,16}.
//
// ORACLE (does not involve the model): every concurrent result equals the result of the same
// (template, entry point) computed *alone* beforehand on a fresh engine with freshly realised
// bindings; and the race detector reports nothing. The harness binary is built with `-race`
// for this property (checklib/props/C04.py: "race": True). The concurrent part runs in a
// child process — this binary re-executed with `-concworker SPEC` — under
// GORACE="halt_on_error=1 exitcode=66 log_path=…"; exit code 66 or a race log is the
// violation and the report text goes into the replay file.
//
// This is SAMPLING of schedules (the race detector sees the schedules that happen). The
// claim for all schedules is carried by the theorems of lean/Proofs/C04.lean together with
// the obligation `no_shared_writes` over the table translator T3 regenerates on every run.
// The model side of a round is therefore just the expected verdict `ok`.
//
// Case line:  conc <round> <N> <GOMAXPROCS> <seed> <tier>     result: ok | race | diff | crash

import (
	"bytes"
	"encoding/json"
	"fmt"
	"os"
	"os/exec"
	"path/filepath"
	"regexp"
	"runtime"
	"sort"
	"strconv"
	"strings"
	"sync"
	"time"

	"github.com/osteele/liquid"
	"github.com/osteele/liquid/render"
)

func init() {
	// Worker mode: `harness -concworker SPEC.json`. Handled here, before main parses its own
	// flags, so that the stream is self-contained in this file.
	for i, a := range os.Args {
		if (a == "-concworker" || a == "--concworker") && i+1 < len(os.Args) {
			os.Exit(concWorkerMain(os.Args[i+1]))
		}
	}
	streams["conc"] = concStream
	replayers["conc"] = concReplay
}

const concReplayBudget = 150 * time.Second

var (
	concNs    = []int{2, 4, 8, 16, 32}
	concProcs = []int{1, 2, 4, 16}
)

// ---- templates ---------------------------------------------------------------------------

type concTemplate struct {
	Src  string `json:"src"`
	File bool   `json:"file,omitempty"` // parse with ParseTemplateLocation at <workdir>/main.liquid (file includes)
}

// concTemplates is the hook for the template set of one round; it can be replaced by the
// general grammar-directed generator (DESIGN 5.2 `tmpl`) when that lands. Whatever it returns,
// concCoverage insists that every standard tag occurs in the round.
var concTemplates = defaultConcTemplates

var concStandardTags = []string{"assign", "capture", "case", "when", "comment", "for", "if", "elsif", "else", "raw", "tablerow",
	"unless", "cycle", "break", "continue", "include"}

var concStandardFilters = []string{"default", "json", "compact", "concat", "join", "map", "reverse", "sort", "first", "last", "uniq",
	"date", "abs", "ceil", "floor", "modulo", "minus", "plus", "times", "divided_by", "round", "size", "append", "capitalize",
	"downcase", "escape", "escape_once", "newline_to_br", "prepend", "remove", "remove_first", "replace", "replace_first",
	"sort_natural", "slice", "split", "strip_html", "strip_newlines", "strip", "lstrip", "rstrip", "truncate", "truncatewords",
	"upcase", "url_encode", "url_decode", "inspect", "type"}

// The fixed rich list: every standard tag and every standard filter, nested loops with
// cycle groups, whitespace control, drops, typed slices, error paths.
var concFixed = []concTemplate{
	{Src: `{% assign x = n | plus: 1 %}{{ x }}|{% assign y = s | upcase %}{{ y }}|{{ x | times: f }}`},
	{Src: `{% capture c %}[{% for i in arr %}{{ i }}{% unless forloop.last %},{% endunless %}{% endfor %}]{% endcapture %}{{ c }}{{ c | size }}`},
	{Src: `{% case n %}{% when 1 %}one{% when 2, 3 %}two-three{% else %}other{% endcase %}{% case s %}{% when "x" %}x{% else %}E{% endcase %}`},
	{Src: `a{% comment %} hidden {{ s }} {% if %} {% endcomment %}b{% raw %}{{ not | evaluated }}{% if x %}{% endraw %}c`},
	{Src: `{% for p in people %}{{ forloop.index }}/{{ forloop.length }}:{{ p.name }}({{ p.age }}){% if forloop.first %}F{% elsif forloop.last %}L{% else %}M{% endif %} {% endfor %}`},
	{Src: `{% for i in arr %}{% cycle "a", "b", "c" %}{% cycle "g": "1", "2" %}{% endfor %}`},
	{Src: `{% for i in (1..6) %}{% cycle "odd", "even" %}{% for j in (1..2) %}{% cycle "x", "y", "z" %}{% endfor %};{% endfor %}`},
	{Src: `{% for i in (1..9) %}{% if i == 2 %}{% continue %}{% endif %}{% if i > 5 %}{% break %}{% endif %}{{ i }}{% endfor %}`},
	{Src: `{% for i in arr reversed limit:2 offset:1 %}{{ i }}{{ forloop.rindex0 }}{% else %}empty{% endfor %}{% for i in nilv %}x{% else %}E{% endfor %}`},
	{Src: `{% tablerow i in ints cols:2 %}{{ i }}{% endtablerow %}|{% tablerow q in strs %}{{ q }}{% cycle "p", "q" %}{% endtablerow %}`},
	{Src: `{% if n > 2 and t %}A{% elsif n == 2 %}B{% else %}C{% endif %}{% unless empty == "" %}U{% else %}V{% endunless %}{% if strs contains "a" %}has{% endif %}`},
	{Src: `{% include "inc/part.html" %}|{% for i in (1..2) %}{% include "inc/loop.html" %}{% endfor %}`},
	{Src: `{% include "part2.html" %}+{% include "sub/part3.html" %}`, File: true},
	{Src: `{{ nilv | default: "d" }}{{ empty | default: s }}{{ page | json }}{{ mixed | compact | join: "," }}{{ arr | concat: strs | join: "-" }}`},
	{Src: `{{ people | map: "name" | join: " " }}{{ arr | reverse | join }}{{ arr | sort | join }}{{ people | sort: "age" | map: "name" | join }}{{ arr | first }}{{ arr | last }}`},
	{Src: `{{ strs | uniq | join }}{{ strs | sort_natural | join }}{{ date | date: "%Y-%m-%d %H:%M" }}{{ -5 | abs }}{{ f | ceil }}{{ f | floor }}{{ 7 | modulo: 3 }}`},
	{Src: `{{ n | minus: 1 }}{{ n | plus: f }}{{ n | times: 4 }}{{ 10 | divided_by: n }}{{ 10.0 | divided_by: 4 }}{{ 2.567 | round: 2 }}{{ f | round }}{{ s | size }}{{ arr | size }}`},
	{Src: `{{ s | append: "!" }}{{ "hello" | capitalize }}{{ s | downcase }}{{ html | escape }}{{ "&lt;&" | escape_once }}{{ html | newline_to_br }}{{ s | prepend: ">" }}`},
	{Src: `{{ s | remove: "l" }}{{ s | remove_first: "l" }}{{ s | replace: "o", "0" }}{{ s | replace_first: "o", "0" }}{{ s | slice: 1, 3 }}{{ s | slice: -3 }}{{ "a,b,c" | split: "," | join: "+" }}`},
	{Src: `{{ html | strip_html }}{{ html | strip_newlines }}[{{ "  pad  " | strip }}][{{ "  pad  " | lstrip }}][{{ "  pad  " | rstrip }}]{{ s | truncate: 8 }}{{ s | truncate: 8, "~" }}{{ "one two three four" | truncatewords: 2 }}`},
	{Src: `{{ s | upcase }}{{ "a b&c/d" | url_encode }}{{ "a+b%26c" | url_decode }}{{ arr | inspect }}{{ s | type }}{{ n | type }}{{ st.a }}{{ st.b }}{{ st | json }}`},
	{Src: `{{ drop }}|{{ droparr | join: "," }}|{{ dropmap.k }}|{% for d in drops %}{{ d }}{% endfor %}|{{ droparr | first }}|{{ drop | size }}|{% if drop == "dropped" %}eq{% endif %}`},
	{Src: `{{ page.title }}{{ page.tags[1] }}{{ page.author.name }}{{ page.tags | size }}{{ page["title"] }}{{ nested[0][1] }}{{ nested | first | last }}{{ ms.b }}{{ rng | join }}{{ ptr }}{{ u8 | plus: 1 }}`},
	{Src: "  {{- s -}}  \n {%- if t -%}  yes  {%- endif -%} \n{%- for i in arr -%} {{ i }} {%- endfor -%}  end"},
	{Src: `{% assign total = 0 %}{% for p in people %}{% assign total = total | plus: p.age %}{% capture line %}{{ p.name | upcase }}={{ total }}{% endcapture %}{{ line }};{% endfor %}{{ total }}`},
	{Src: `{% for a in nested %}{% for b in a %}{{ forloop.index }}{{ b }}{% cycle "-", "=" %}{% endfor %}{% cycle "o": "1", "2" %}{% endfor %}`},
	{Src: `{{ s | concx }}{% conctag a b %}{% concblock %}inner {{ n }}{% endconcblock %}`},
	{Src: `{{ n | divided_by: 0 }}`},          // render error
	{Src: `{{ s | no_such_filter }}`},         // undefined filter
	{Src: `{% include "inc/missing.html" %}`}, // include error
	{Src: `{% cycle "a", "b" %}`},             // cycle outside a loop: error
	{Src: `{% if n %}unterminated`},           // parse error
	{Src: `{% unknown_tag %}`},                // parse error
	{Src: `{{ n | }}`},                        // syntax error
	{Src: `{% for i in arr %}{{ undefinedvar }}{{ i | plus: undefinedvar }}{% endfor %}`},
	{Src: `plain text only, no tags`},
}

// fragments for the random picks: closed pieces that can be concatenated and nested in a loop
var concFragments = []string{
	`{{ s }}`, `{{ n | plus: 2 }}`, `{{ arr | sort | join: "," }}`, `{{ strs | uniq | size }}`, `{{ r0 }}`, `{{ r1 | json }}`,
	`{{ r2 | inspect }}{{ r2 | size }}`, `{% if n > 1 %}gt{% else %}le{% endif %}`, `{% assign v = n | times: 2 %}{{ v }}`,
	`{% capture cc %}{{ s | downcase }}{% endcapture %}{{ cc | size }}`, `{% case n %}{% when 3 %}three{% else %}no{% endcase %}`,
	`{% unless t %}u{% else %}w{% endunless %}`, `{{ drop | append: "!" }}`, `{{ people | map: "age" | join: "/" }}`,
	`{% include "inc/part.html" %}`, `{% raw %}{{ r }}{% endraw %}`, `{% comment %}c{% endcomment %}`, `{{ page.tags | join }}`,
	`{{ html | escape | truncate: 12 }}`, `{{ droparr | reverse | join }}`, `{% tablerow z in rng cols:2 %}{{ z }}{% endtablerow %}`,
	`{{ mixed | compact | size }}`, `{{ f | times: 2 | round }}`, `{{ "x y z" | split: " " | last }}`, `{{ st.b | upcase }}`,
}

// fragments that are only valid inside a loop
var concLoopFragments = []string{`{% cycle "r", "s", "t" %}`, `{% cycle "grp": "1", "2" %}`, `{{ forloop.index }}`, `{{ e }}`}

func defaultConcTemplates(g *RNG) []concTemplate {
	out := append([]concTemplate{}, concFixed...)
	// random picks: loops over shared arrays whose bodies are random fragment sequences
	// (every one contains a cycle so that shared compiled cycle tags are hit from many goroutines)
	loops := []string{"arr", "strs", "people", "(1..4)", "nested", "droparr", "ints", "rng"}
	for k := 0; k < 12; k++ {
		var sb strings.Builder
		n := 1 + g.Intn(3)
		for i := 0; i < n; i++ {
			sb.WriteString(g.Pick(concFragments))
		}
		sb.WriteString("{% for e in " + g.Pick(loops))
		if g.Chance(30) {
			sb.WriteString(" reversed")
		}
		if g.Chance(30) {
			sb.WriteString(fmt.Sprintf(" limit:%d", 1+g.Intn(3)))
		}
		sb.WriteString(" %}")
		m := 1 + g.Intn(4)
		for i := 0; i < m; i++ {
			if g.Chance(35) {
				sb.WriteString(g.Pick(concLoopFragments))
			} else {
				sb.WriteString(g.Pick(concFragments))
			}
			if g.Chance(25) {
				sb.WriteString(`{% if forloop.index == 2 %}{% ` + g.Pick([]string{"break", "continue"}) + ` %}{% endif %}`)
			}
		}
		sb.WriteString(`{% cycle "k", "l" %}{% endfor %}`)
		out = append(out, concTemplate{Src: sb.String()})
	}
	return out
}

var (
	concTagRe    = regexp.MustCompile(`\{%-?\s*(\w+)`)
	concFilterRe = regexp.MustCompile(`\|\s*(\w+)`)
)

// concCoverage returns the tags and filters named in the sources, and the standard ones missing.
func concCoverage(ts []concTemplate) (tags, filters map[string]int, missing []string) {
	tags, filters = map[string]int{}, map[string]int{}
	for _, t := range ts {
		src := strings.NewReplacer("<<", "{{", ">>", "}}", "<%", "{%", "%>", "%}").Replace(t.Src) // a Custom round respells the sources
		for _, m := range concTagRe.FindAllStringSubmatch(src, -1) {
			tags[m[1]]++
		}
		for _, m := range concFilterRe.FindAllStringSubmatch(src, -1) {
			filters[m[1]]++
		}
	}
	for _, n := range concStandardTags {
		if tags[n] == 0 {
			missing = append(missing, "tag:"+n)
		}
	}
	for _, n := range concStandardFilters {
		if filters[n] == 0 {
			missing = append(missing, "filter:"+n)
		}
	}
	return
}

// ---- bindings ------------------------------------------------------------------------------

// concBindings: one shared set of binding values per round: scalars, caller-owned slices and
// maps, typed slices, MapSlice, range, pointer, struct, and drops (dropV of codec.go).
func concBindings(g *RNG) *V {
	i := func(n int64) *V { return VInt(0, n) }
	s := VStr
	person := func(name string, age int64) *V { return VStrMap(SKV("name", s(name)), SKV("age", i(age))) }
	kvs := [][2]*V{
		SKV("n", i(3)), SKV("f", VFlt(1, 2.5)), SKV("s", s("Hello World")), SKV("html", s("<p>a & b</p>\nline")),
		SKV("empty", s("")), SKV("nilv", VNil()), SKV("t", VBool(true)),
		SKV("arr", VAnys(i(3), i(1), i(2))), SKV("strs", VAnys(s("b"), s("a"), s("c"), s("a"))),
		SKV("mixed", VAnys(i(1), s("a"), VNil(), VFlt(1, 2.5))), SKV("nested", VAnys(VAnys(i(1), i(2)), VAnys(i(3)))),
		SKV("m", VStrMap(SKV("a", i(1)))),
		SKV("page", VStrMap(SKV("title", s("T")), SKV("tags", VAnys(s("x"), s("y"))), SKV("author", VStrMap(SKV("name", s("N")))))),
		SKV("people", VAnys(person("Al", 30), person("Bo", 25), person("Cy", 35))),
		SKV("ms", VMapSlice(SKV("a", i(1)), SKV("b", i(2)))), SKV("rng", VRange(1, 4)),
		SKV("drop", VDrop(s("dropped"))), SKV("droparr", VDrop(VAnys(i(1), i(2)))), SKV("dropmap", VDrop(VStrMap(SKV("k", s("v"))))),
		SKV("drops", VAnys(VDrop(i(1)), VDrop(s("a")))), SKV("ptr", VPtr(i(5))),
		SKV("st", VStruct(Field{"a", i(1)}, Field{"b", s("x")})), SKV("ints", VSlice(TInt(0), i(1), i(2), i(3))),
		SKV("date", s("2015-07-17T15:04:05Z")), SKV("u8", VInt(6, 7)), SKV("i64", VInt(4, 1<<40)),
	}
	// a few random values from the boundary universe, printed by the random templates' {{ r }}
	for k := 0; k < 3; k++ {
		kvs = append(kvs, SKV(fmt.Sprintf("r%d", k), randomVal(g, 2)))
	}
	return VStrMap(kvs...)
}

// ---- round specification -------------------------------------------------------------------

type concSpec struct {
	Round     int            `json:"round"`
	Seed      uint64         `json:"seed"`
	N         int            `json:"n"`
	Procs     int            `json:"procs"`
	Iters     int            `json:"iters"` // random-mix operations per goroutine (after the lock-step phase)
	Strict    bool           `json:"strict"`
	Custom    bool           `json:"custom"` // the engine is configured with Engine.Delims("<<", ">>", "<%", "%>") and every source is respelled
	Templates []concTemplate `json:"templates"`
	Bindings  string         `json:"bindings"`
	Dir       string         `json:"dir"` // work directory (spec, include files, race logs, result)
}

type concMismatch struct {
	Goroutine int    `json:"goroutine"`
	Op        string `json:"op"`
	Template  string `json:"template"`
	Got       string `json:"got"`
	Want      string `json:"want"`
}

type concResult struct {
	Ops        int            `json:"ops"`
	SeqOK      int            `json:"seq_ok"`
	SeqErr     int            `json:"seq_err"`
	Mismatches []concMismatch `json:"mismatches"`
	NMismatch  int            `json:"n_mismatch"`
	Want       []string       `json:"want,omitempty"` // sequential results (VERIF_CONC_DEBUG only)
}

func concMakeSpec(round, n, procs int, seed uint64, tier string) *concSpec {
	g := NewRNG(seed, fmt.Sprintf("conc/%d/%d/%d", round, n, procs))
	iters := 40
	if tier == "thorough" {
		iters = 120
	}
	spec := &concSpec{Round: round, Seed: seed, N: n, Procs: procs, Iters: iters, Strict: round%5 == 4, Custom: round%3 == 1,
		Templates: concTemplates(g), Bindings: concBindings(g).Enc()}
	if spec.Custom {
		for i := range spec.Templates {
			spec.Templates[i].Src = concRespell(spec.Templates[i].Src)
		}
	}
	return spec
}

// concRespell writes a default-delimiter source with the custom delimiters of a Custom round (the fixed
// templates contain no other occurrence of these character pairs than their delimiters, raw bodies aside,
// which are respelled alike on purpose: the result is what is compared, concurrent against sequential)
var concRespeller = strings.NewReplacer("{{", "<<", "}}", ">>", "{%", "<%", "%}", "%>")

func concRespell(src string) string { return concRespeller.Replace(src) }

// ---- the stream (parent side) --------------------------------------------------------------

func concStream(r *Run) {
	reps := 3
	if r.Tier == "thorough" {
		reps = 25
	}
	round := 0
	for rep := 0; rep < reps; rep++ {
		for _, n := range concNs {
			for _, p := range concProcs {
				id := round
				round++
				if !r.Mine() {
					continue
				}
				if len(r.Stats.Violations) > 0 {
					continue // this shard already has a failing round (with its report); stop sampling
				}
				line := fmt.Sprintf("conc %d %d %d %d %s", id, n, p, r.Seed, r.Tier)
				r.Emit(line, concRound(r, line, concMakeSpec(id, n, p, r.Seed, r.Tier), 1))
			}
		}
	}
	r.Stats.Notes["schedules"] = "sampled by the Go race detector over the schedules that occurred (N goroutines x GOMAXPROCS grid); " +
		"the all-schedules claim is the Lean theorems conc_race_free/conc_eq_sequential plus the T3 obligation no_shared_writes"
}

// concReplay re-runs one round up to 200 times under the race detector (stops at the first
// failure, or after concReplayBudget once at least 20 runs are done).
func concReplay(r *Run, f []string) string {
	if len(f) < 6 {
		return "bad-case"
	}
	id, _ := strconv.Atoi(f[1])
	n, _ := strconv.Atoi(f[2])
	p, _ := strconv.Atoi(f[3])
	seed, _ := strconv.ParseUint(f[4], 10, 64)
	line := strings.Join(f, " ")
	return concRound(r, line, concMakeSpec(id, n, p, seed, f[5]), 200)
}

func raceEnabledNote() string {
	if concRaceEnabled {
		return "on"
	}
	return "OFF"
}

// concRound runs one round `times` times in child processes and evaluates the oracle.
func concRound(r *Run, line string, spec *concSpec, times int) string {
	tags, filters, missing := concCoverage(spec.Templates)
	if len(missing) > 0 {
		panic(fmt.Sprintf("conc: the template set of round %d does not cover %v", spec.Round, missing))
	}
	for k, v := range tags {
		r.Stats.Hist["tag="+k] += v
	}
	for k, v := range filters {
		r.Stats.Hist["filter="+k] += v
	}
	r.Count(fmt.Sprintf("N=%d", spec.N))
	r.Count(fmt.Sprintf("GOMAXPROCS=%d", spec.Procs))
	r.Count("race-detector=" + raceEnabledNote())
	r.Nontrivial(fmt.Sprintf("round %d N=%d procs=%d", spec.Round, spec.N, spec.Procs))
	if !concRaceEnabled {
		panic("conc: the harness was built without -race; property C04 needs the race-enabled build (PROP[\"race\"] = True)")
	}
	t0 := time.Now()
	for t := 0; t < times; t++ {
		if t >= 20 && time.Since(t0) > concReplayBudget {
			break
		}
		r.Count("runs")
		verdict, detail, res := concRunChild(spec)
		if res != nil {
			r.Stats.Hist["concurrent-ops"] += res.Ops
			r.Stats.Hist["sequential=ok"] += res.SeqOK
			r.Stats.Hist["sequential=err"] += res.SeqErr
		}
		if verdict == "ok" {
			continue
		}
		if verdict == "race" {
			detail += concBlame(spec)
		}
		clause := map[string]string{"race": "data-race-reported", "diff": "concurrent-result-differs-from-sequential",
			"crash": "crash-during-concurrent-phase"}[verdict]
		r.Violate("C04", clause, line, detail)
		return verdict
	}
	return "ok"
}

// concRunChild executes one round in a child process and classifies the outcome.
func concRunChild(spec *concSpec) (verdict, detail string, res *concResult) {
	dir, err := os.MkdirTemp("", "conc-round-")
	if err != nil {
		panic(err)
	}
	if os.Getenv("VERIF_CONC_DEBUG") == "" {
		defer os.RemoveAll(dir)
	} else {
		fmt.Fprintln(os.Stderr, "conc: keeping", dir)
	}
	s := *spec
	s.Dir = dir
	b, _ := json.Marshal(&s)
	specPath := filepath.Join(dir, "spec.json")
	if err := os.WriteFile(specPath, b, 0o644); err != nil {
		panic(err)
	}
	exe, err := os.Executable()
	if err != nil {
		panic(err)
	}
	cmd := exec.Command(exe, "-concworker", specPath)
	cmd.Dir = dir // relative include paths resolve here: nothing named inc/… exists, so the engine cache is used
	cmd.Env = append(os.Environ(),
		fmt.Sprintf("GOMAXPROCS=%d", spec.Procs),
		"GORACE=halt_on_error=1 exitcode=66 log_path="+filepath.Join(dir, "race"))
	var stderr bytes.Buffer
	cmd.Stderr = &stderr
	done := make(chan error, 1)
	if err := cmd.Start(); err != nil {
		panic(err)
	}
	go func() { done <- cmd.Wait() }()
	select {
	case err = <-done:
	case <-time.After(5 * time.Minute):
		cmd.Process.Kill()
		panic(fmt.Sprintf("conc: worker of round %d did not finish in 5 minutes", spec.Round))
	}
	code := 0
	if err != nil {
		if ee, ok := err.(*exec.ExitError); ok {
			code = ee.ExitCode()
		} else {
			panic(err)
		}
	}
	// race report(s)
	report := ""
	logs, _ := filepath.Glob(filepath.Join(dir, "race.*"))
	for _, l := range logs {
		t, _ := os.ReadFile(l)
		report += string(t)
	}
	if rb, err := os.ReadFile(filepath.Join(dir, "result.json")); err == nil {
		res = &concResult{}
		if json.Unmarshal(rb, res) != nil {
			res = nil
		}
	}
	_, phaseErr := os.Stat(filepath.Join(dir, "phase-concurrent"))
	inConcurrent := phaseErr == nil
	head := fmt.Sprintf("round %d: N=%d goroutines, GOMAXPROCS=%d, %d templates, strict=%v, seed %d\n", spec.Round, spec.N, spec.Procs,
		len(spec.Templates), spec.Strict, spec.Seed)
	switch {
	case code == 66 || strings.Contains(report, "DATA RACE"):
		// keep the two conflicting accesses with their stacks; drop the goroutine-creation stacks
		if i := strings.Index(report, "\nGoroutine "); i > 0 {
			report = report[:i] + "\n==================\n"
		}
		if len(report) > 8000 {
			report = report[:8000] + "\n…"
		}
		return "race", head + "race detector report:\n" + report, res
	case code != 0 && inConcurrent:
		e := stderr.String()
		if len(e) > 4000 {
			e = e[:4000] + "\n…"
		}
		return "crash", head + fmt.Sprintf("worker exited %d during the concurrent phase:\n%s", code, e), res
	case code != 0:
		panic(fmt.Sprintf("conc: worker failed before the concurrent phase (exit %d): %s", code, stderr.String()))
	case res == nil:
		panic("conc: worker wrote no result")
	case res.NMismatch > 0:
		b, _ := json.MarshalIndent(res.Mismatches, "", " ")
		return "diff", head + fmt.Sprintf("%d concurrent results differ from the sequential result; first ones:\n%s", res.NMismatch, b), res
	}
	return "ok", "", res
}

// concBlame re-runs a racy round with one template at a time (2 goroutines) to name the
// templates that race on their own.
func concBlame(spec *concSpec) string {
	var names []string
	for _, t := range spec.Templates {
		s := *spec
		s.N, s.Iters, s.Templates = 2, 4, []concTemplate{t}
		if v, _, _ := concRunChild(&s); v == "race" {
			names = append(names, strconv.Quote(t.Src))
			if len(names) >= 3 {
				break
			}
		}
	}
	if len(names) == 0 {
		return "\n(no single template reproduces the race with 2 goroutines)"
	}
	return "\ntemplates that race on their own when two goroutines render one parsed copy:\n  " + strings.Join(names, "\n  ")
}

// ---- the worker (child side) ---------------------------------------------------------------

const (
	opRenderShared = iota // tpl.Render on the shared parsed template
	opRenderString        // tpl.RenderString on the shared parsed template
	opFRender             // tpl.FRender into a private buffer
	opParseRender         // engine.ParseTemplate(Location) + Render of the private copy
	opParseAndRenderString
	concNOps
)

var concOpNames = []string{"Render(shared)", "RenderString(shared)", "FRender(shared)", "ParseTemplate+Render", "ParseAndRenderString"}

func concEngine(spec *concSpec) *liquid.Engine { return concEngineWith(spec, true) }

// concEngineWith: withCache=false leaves out the ParseTemplateAndCache calls, so that the engine has been
// configured (delimiters, filters, tags) but has not parsed anything yet.
func concEngineWith(spec *concSpec, withCache bool) *liquid.Engine {
	e := liquid.NewEngine()
	if spec.Strict {
		e.StrictVariables()
	}
	if spec.Custom {
		e.Delims("<<", ">>", "<%", "%>")
	}
	e.RegisterFilter("concx", func(s string) string { return "<" + s + ">" })
	e.RegisterTag("conctag", func(c render.Context) (string, error) { return "[" + c.TagArgs() + "]", nil })
	e.RegisterBlock("concblock", func(c render.Context) (string, error) {
		s, err := c.InnerString()
		return "{" + s + "}", err
	})
	if !withCache {
		return e
	}
	// configuration step: sources the include tag finds through the engine's cache
	for path, src := range map[string]string{
		"inc/part.html": `part({{ s | downcase }}{% for i in arr %}{% cycle "p", "q" %}{% endfor %})`,
		"inc/loop.html": `loop{{ i }}{% if i == 1 %}first{% endif %}`,
	} {
		if spec.Custom {
			src = concRespell(src)
		}
		if _, err := e.ParseTemplateAndCache([]byte(src), path, 1); err != nil {
			panic(err)
		}
	}
	return e
}

func (spec *concSpec) mainPath() string { return filepath.Join(spec.Dir, "tmpl", "main.liquid") }

func concParse(e *liquid.Engine, spec *concSpec, t concTemplate) (*liquid.Template, error) {
	if t.File {
		tpl, err := e.ParseTemplateLocation([]byte(t.Src), spec.mainPath(), 1)
		if err != nil {
			return nil, err
		}
		return tpl, nil
	}
	tpl, err := e.ParseTemplate([]byte(t.Src))
	if err != nil {
		return nil, err
	}
	return tpl, nil
}

// Go prints a pointer nested in a struct as its address ({{ st }} with a pointer field):
// addresses are masked, they differ between the shared and the freshly realised bindings.
var concAddrRe = regexp.MustCompile(`0x[0-9a-f]{6,}`)

// concDo performs one operation and returns its canonical result text.
func concDo(e *liquid.Engine, spec *concSpec, t concTemplate, shared *liquid.Template, sharedErr string, op int, b liquid.Bindings) string {
	res := concDoRaw(e, spec, t, shared, sharedErr, op, b)
	if strings.Contains(res, "0x") {
		res = concAddrRe.ReplaceAllString(res, "0xADDR")
	}
	return res
}

func concDoRaw(e *liquid.Engine, spec *concSpec, t concTemplate, shared *liquid.Template, sharedErr string, op int, b liquid.Bindings) (res string) {
	defer func() {
		if r := recover(); r != nil {
			res = fmt.Sprint("panic: ", r)
		}
	}()
	out := func(s string, err error) string {
		if err != nil {
			return "error: " + err.Error()
		}
		return "out: " + s
	}
	switch op {
	case opRenderShared, opRenderString, opFRender:
		if shared == nil {
			return sharedErr
		}
		switch op {
		case opRenderShared:
			bs, err := shared.Render(b)
			if err != nil {
				return out("", err)
			}
			return out(string(bs), nil)
		case opRenderString:
			s, err := shared.RenderString(b)
			if err != nil {
				return out("", err)
			}
			return out(s, nil)
		default:
			var buf bytes.Buffer
			if err := shared.FRender(&buf, b); err != nil {
				return out("", err)
			}
			return out(buf.String(), nil)
		}
	case opParseRender:
		tpl, err := concParse(e, spec, t)
		if err != nil {
			return "parse error: " + err.Error()
		}
		bs, rerr := tpl.Render(b)
		if rerr != nil {
			return out("", rerr)
		}
		return out(string(bs), nil)
	default:
		if t.File {
			tpl, err := concParse(e, spec, t)
			if err != nil {
				return "parse error: " + err.Error()
			}
			s, rerr := tpl.RenderString(b)
			if rerr != nil {
				return out("", rerr)
			}
			return out(s, nil)
		}
		s, err := e.ParseAndRenderString(t.Src, b)
		if err != nil {
			// ParseAndRenderString does not tell parse errors from render errors: classify by re-parsing
			if _, perr := e.ParseTemplate([]byte(t.Src)); perr != nil {
				return "parse error: " + err.Error()
			}
			return out("", err)
		}
		return out(s, nil)
	}
}

func concWorkerMain(specPath string) int {
	raw, err := os.ReadFile(specPath)
	if err != nil {
		fmt.Fprintln(os.Stderr, "concworker:", err)
		return 3
	}
	spec := &concSpec{}
	if err := json.Unmarshal(raw, spec); err != nil {
		fmt.Fprintln(os.Stderr, "concworker:", err)
		return 3
	}
	runtime.GOMAXPROCS(spec.Procs)
	// files for the include tag of File templates
	for rel, src := range map[string]string{
		"tmpl/part2.html":     `file2({{ n }}{% for i in arr %}{% cycle "u", "v" %}{% endfor %})`,
		"tmpl/sub/part3.html": `file3({{ s | upcase }})`,
	} {
		p := filepath.Join(spec.Dir, rel)
		if err := os.MkdirAll(filepath.Dir(p), 0o755); err != nil {
			fmt.Fprintln(os.Stderr, "concworker:", err)
			return 3
		}
		if spec.Custom {
			src = concRespell(src)
		}
		if err := os.WriteFile(p, []byte(src), 0o644); err != nil {
			fmt.Fprintln(os.Stderr, "concworker:", err)
			return 3
		}
	}
	realise := func() liquid.Bindings {
		m, ok := ParseV(spec.Bindings).Realise().(map[string]any)
		if !ok {
			panic("bindings are not a map[string]any")
		}
		return liquid.Bindings(m)
	}
	T := len(spec.Templates)
	res := &concResult{}

	// Phase 0 — COLD START: the very first thing this process does with the library is to hand a configured engine,
	// which has not parsed anything yet, to all goroutines, which start by parsing (anything built lazily on the first
	// parse - per engine or per process - is built under contention). The results are compared with Phase 1's below.
	type coldRes struct {
		g, k int
		got  string
	}
	var cold []coldRes
	{
		e1 := concEngineWith(spec, false)
		b1 := realise()
		var wg1 sync.WaitGroup
		var mu1 sync.Mutex
		start1 := make(chan struct{})
		for g := 0; g < spec.N; g++ {
			wg1.Add(1)
			go func(g int) {
				defer wg1.Done()
				<-start1
				for i := 0; i < 4; i++ {
					k := (g*7 + i) % T
					t := spec.Templates[k]
					if strings.Contains(t.Src, "include") {
						continue // cached include sources are not registered on this engine
					}
					got := concDo(e1, spec, t, nil, "", opParseRender, b1)
					mu1.Lock()
					cold = append(cold, coldRes{g, k, got})
					mu1.Unlock()
				}
			}(g)
		}
		close(start1)
		wg1.Wait()
	}

	// Phase 1 — ALONE: every (template, entry point) on a fresh engine with fresh bindings.
	want := make([][]string, T)
	for k, t := range spec.Templates {
		want[k] = make([]string, concNOps)
		for op := 0; op < concNOps; op++ {
			e := concEngine(spec)
			tpl, perr := concParse(e, spec, t)
			sharedErr := ""
			if perr != nil {
				sharedErr = "parse error: " + perr.Error()
			}
			want[k][op] = concDo(e, spec, t, tpl, sharedErr, op, realise())
		}
		if strings.HasPrefix(want[k][opRenderShared], "out: ") {
			res.SeqOK++
		} else {
			res.SeqErr++
		}
	}

	for _, c := range cold {
		if c.got != want[c.k][opParseRender] {
			res.NMismatch++
			if len(res.Mismatches) < 10 {
				res.Mismatches = append(res.Mismatches, concMismatch{c.g, "first ParseTemplate+Render (cold start)", spec.Templates[c.k].Src, c.got, want[c.k][opParseRender]})
			}
		}
	}

	if os.Getenv("VERIF_CONC_DEBUG") != "" {
		for k := range want {
			res.Want = append(res.Want, spec.Templates[k].Src+"  =>  "+want[k][opRenderShared])
		}
	}

	// Phase 2 — CONCURRENT: one engine, one set of parsed templates, one set of bindings.
	engine := concEngine(spec)
	bindings := realise()
	shared := make([]*liquid.Template, T)
	sharedErr := make([]string, T)
	for k, t := range spec.Templates {
		tpl, perr := concParse(engine, spec, t)
		if perr != nil {
			sharedErr[k] = "parse error: " + perr.Error()
		} else {
			shared[k] = tpl
		}
	}
	if err := os.WriteFile(filepath.Join(spec.Dir, "phase-concurrent"), nil, 0o644); err != nil {
		fmt.Fprintln(os.Stderr, "concworker:", err)
		return 3
	}
	var (
		mu    sync.Mutex
		wg    sync.WaitGroup
		start = make(chan struct{})
		ops   = make([]int, spec.N)
	)
	record := func(g, op, k int, got string) {
		if got == want[k][op] {
			return
		}
		mu.Lock()
		res.NMismatch++
		if len(res.Mismatches) < 10 {
			res.Mismatches = append(res.Mismatches, concMismatch{g, concOpNames[op], spec.Templates[k].Src, got, want[k][op]})
		}
		mu.Unlock()
	}
	for g := 0; g < spec.N; g++ {
		wg.Add(1)
		go func(g int) {
			defer wg.Done()
			rng := NewRNG(spec.Seed, fmt.Sprintf("conc-goroutine/%d/%d", spec.Round, g))
			<-start
			// lock-step part: everybody renders every shared template, in the same order
			// (even goroutines) or the reverse order (odd ones), alternating entry points
			for i := 0; i < T; i++ {
				k := i
				if g%2 == 1 {
					k = T - 1 - i
				}
				op := (g/2 + i) % 3 // the three shared-template entry points
				record(g, op, k, concDo(engine, spec, spec.Templates[k], shared[k], sharedErr[k], op, bindings))
				ops[g]++
			}
			// random mix of parse and render
			for i := 0; i < spec.Iters; i++ {
				k, op := rng.Intn(T), rng.Intn(concNOps)
				record(g, op, k, concDo(engine, spec, spec.Templates[k], shared[k], sharedErr[k], op, bindings))
				ops[g]++
			}
		}(g)
	}
	close(start)
	wg.Wait()
	for _, n := range ops {
		res.Ops += n
	}
	sort.Slice(res.Mismatches, func(i, j int) bool { return res.Mismatches[i].Goroutine < res.Mismatches[j].Goroutine })
	b, _ := json.Marshal(res)
	if err := os.WriteFile(filepath.Join(spec.Dir, "result.json"), b, 0o644); err != nil {
		fmt.Fprintln(os.Stderr, "concworker:", err)
		return 3
	}
	return 0
}
