package main

import (
	"fmt"
	"strings"

	"github.com/osteele/liquid/parser"
)

func init() {
	streams["scan"] = scanStream
	replayers["scan"] = func(r *Run, f []string) string { return scanCase(r, f[1], f[2], unhexField(f[3]), f[0]+" "+f[1]+" "+f[2]+" "+f[3]) }
}

func tokCode(t parser.TokenType) string {
	switch t {
	case parser.TextTokenType:
		return "X"
	case parser.TagTokenType:
		return "T"
	case parser.ObjTokenType:
		return "O"
	case parser.TrimLeftTokenType:
		return "L"
	case parser.TrimRightTokenType:
		return "R"
	}
	return "?"
}

func decodeDelims(f string) []string {
	if f == "-" {
		return nil
	}
	parts := strings.Split(f, ",")
	out := make([]string, len(parts))
	for i, p := range parts {
		out[i] = unhexField(p)
	}
	return out
}

func encodeDelims(d []string) string {
	if d == nil {
		return "-"
	}
	parts := make([]string, len(d))
	for i, p := range d {
		parts[i] = hexField(p)
	}
	return strings.Join(parts, ",")
}

// scanCase runs parser.Scan and evaluates the C05 tokenizer oracle on the real result.
func scanCase(r *Run, delimsF, lineF, src, caseLine string) string {
	var line int
	fmt.Sscan(lineF, &line)
	delims := decodeDelims(delimsF)
	return guard(func() string {
		toks := parser.Scan(src, parser.SourceLoc{Pathname: "p", LineNo: line}, delims)
		var sb strings.Builder
		var cat strings.Builder
		nl := 0
		for i, t := range toks {
			if i > 0 {
				sb.WriteByte(' ')
			}
			fmt.Fprintf(&sb, "%s,%d,%s,%s,%s", tokCode(t.Type), t.SourceLoc.LineNo, hexField(t.Name), hexField(t.Args), hexField(t.Source))
			// oracle: each token's line = start + newlines before it (trim tokens carry no location)
			if t.Type != parser.TrimLeftTokenType && t.Type != parser.TrimRightTokenType {
				if t.SourceLoc.LineNo != line+nl {
					r.Violate("C05", "token-line", caseLine, fmt.Sprintf("token %d line %d want %d", i, t.SourceLoc.LineNo, line+nl))
				}
			}
			cat.WriteString(t.Source)
			nl += strings.Count(t.Source, "\n")
		}
		if cat.String() != src {
			r.Violate("C05", "token-partition", caseLine, "concatenated token sources differ from the input")
		}
		if len(toks) == 0 {
			return "-"
		}
		if len(toks) > 1 {
			r.Nontrivial(caseLine)
		}
		return sb.String()
	})
}

var scanAlphabet = []string{"{", "}", "%", "-", "\"", " ", "\n", "a"}

// enumStrings calls f for every string of length <= maxLen over alphabet, in a fixed order.
func enumStrings(alphabet []string, maxLen int, f func(string)) {
	var rec func(prefix string, n int)
	rec = func(prefix string, n int) {
		f(prefix)
		if n == 0 {
			return
		}
		for _, a := range alphabet {
			rec(prefix+a, n-1)
		}
	}
	rec("", maxLen)
}

var scanFragments = []string{
	"{{", "}}", "{%", "%}", "{{-", "-}}", "{%-", "-%}", " ", "\n", "\t", "x", "a.b", "if", "endif", "raw", "endraw",
	"comment", "endcomment", "|", "\"", "'", "%", "}", "{", "-", "é", "😀", "\r\n", "for i in (1..3)", "assign x = 1",
	"\xff", "\xc2", " ", "1", "else",
}

func randomScanSource(g *RNG) (string, string) {
	kind := g.Intn(100)
	size := 0
	switch s := g.Intn(100); {
	case s < 55:
		size = g.Intn(48)
	case s < 88:
		size = g.Intn(1024)
	case s < 98:
		size = g.Intn(8192)
	default:
		size = 8192 + g.Intn(65536-8192)
	}
	var sb strings.Builder
	switch {
	case kind < 25: // raw bytes
		for sb.Len() < size {
			sb.WriteByte(byte(g.Intn(256)))
		}
		return sb.String(), "bytes"
	case kind < 45: // valid UTF-8
		for sb.Len() < size {
			switch g.Intn(6) {
			case 0:
				sb.WriteRune(rune(0x80 + g.Intn(0x700)))
			case 1:
				sb.WriteRune(rune(0x10000 + g.Intn(0x1000)))
			case 2:
				sb.WriteString(g.Pick([]string{"{", "}", "%", "-", "\n", " "}))
			default:
				sb.WriteByte(byte(32 + g.Intn(95)))
			}
		}
		return sb.String(), "utf8"
	default: // delimiter-dense
		for sb.Len() < size {
			sb.WriteString(g.Pick(scanFragments))
		}
		return sb.String(), "dense"
	}
}

func sizeBucket(n int) string {
	switch {
	case n == 0:
		return "size=0"
	case n <= 8:
		return "size<=8"
	case n <= 64:
		return "size<=64"
	case n <= 1024:
		return "size<=1K"
	case n <= 8192:
		return "size<=8K"
	default:
		return "size<=64K"
	}
}

func scanStream(r *Run) {
	emit := func(delims []string, line int, src, kind string) {
		if !r.Mine() {
			return
		}
		cl := fmt.Sprintf("scan %s %d %s", encodeDelims(delims), line, hexField(src))
		res := scanCase(r, encodeDelims(delims), fmt.Sprint(line), src, cl)
		r.Count("gen=" + kind)
		r.Count(sizeBucket(len(src)))
		r.Emit(cl, res)
	}
	// corpus first
	for _, c := range corpusLines("scan") {
		f := strings.Fields(c)
		if len(f) == 4 && r.Mine() {
			r.Emit(c, replayers["scan"](r, f))
		}
	}
	maxLen := 5
	if r.Tier == "thorough" {
		maxLen = 6
	}
	enumStrings(scanAlphabet, maxLen, func(s string) { emit(nil, 1, s, "exhaustive") })
	r.Stats.Notes["exhaustive"] = fmt.Sprintf("all strings of length <= %d over %q", maxLen, scanAlphabet)
	// raw and comment are lexical (fix raw-comment-lexical): every body of up to k pieces between every kind of
	// opening tag and end tag, with the default and with custom delimiters
	scanLexFamily(r.Tier, emit)
	// harvested templates and mutations
	g := NewRNG(r.Seed, "scan")
	tpls := harvestTemplates()
	r.Stats.Notes["harvested_templates"] = fmt.Sprint(len(tpls))
	for _, t := range tpls {
		emit(nil, 1, t, "harvest")
		for k := 0; k < 3; k++ {
			emit(nil, g.Intn(3), mutate(g, t), "mutant")
		}
	}
	n := 6000
	if r.Tier == "thorough" {
		n = 80000
	}
	for i := 0; i < n; i++ {
		src, kind := randomScanSource(g)
		var delims []string
		line := g.Intn(4)
		emit(delims, line, src, kind)
	}
}

// scanLexFamily enumerates raw/comment blocks: opening tag x body x what follows the body. The bodies are all
// sequences of up to 3 (quick) / 4 (thorough) pieces, among them unclosed and unbalanced delimiters, hyphens,
// newlines and the end-tag names; what follows is an end tag in several spellings, a near miss, or nothing.
func scanLexFamily(tier string, emit func(delims []string, line int, src, kind string)) {
	k := 3
	if tier == "thorough" {
		k = 4
	}
	for _, d := range [][]string{nil, {"<<", ">>", "[", "]"}, {"{", "}", "{%", "%}"}} {
		ol, or, tl, tr := "{{", "}}", "{%", "%}"
		if d != nil {
			ol, or, tl, tr = d[0], d[1], d[2], d[3]
		}
		pieces := []string{tl, tr, ol, or, "-", " ", "\n", "a", "endraw", "endcomment"}
		if d != nil && tier != "thorough" {
			pieces = []string{tl, tr, ol, " ", "endraw", "-"}
		}
		for _, name := range []string{"raw", "comment"} {
			opens := []string{tl + " " + name + " " + tr, tl + "-" + name + "-" + tr, tl + name + " x" + tr}
			ends := []string{
				tl + " end" + name + " " + tr, tl + "-end" + name + "-" + tr + "z", tl + "\n end" + name + "\t" + tr + ol + " y " + or,
				tl + " end" + name + " x " + tr, tl + " end" + name + "x " + tr + tl + " end" + name + " " + tr, "",
			}
			enumStrings(pieces, k, func(body string) {
				for _, o := range opens {
					for _, e := range ends {
						emit(d, 1, "p"+o+body+e, "lex-"+name)
					}
				}
			})
		}
	}
}

// mutate applies one random edit to a template source.
func mutate(g *RNG, s string) string {
	if len(s) == 0 {
		return g.Pick(scanFragments)
	}
	i := g.Intn(len(s))
	switch g.Intn(6) {
	case 0: // delete a byte
		return s[:i] + s[i+1:]
	case 1: // duplicate a chunk
		j := i + g.Intn(len(s)-i)
		return s[:j] + s[i:j] + s[j:]
	case 2: // insert a fragment
		return s[:i] + g.Pick(scanFragments) + s[i:]
	case 3: // truncate
		return s[:i]
	case 4: // flip a byte
		b := []byte(s)
		b[i] ^= byte(1 << uint(g.Intn(8)))
		return string(b)
	default: // swap halves
		return s[i:] + s[:i]
	}
}
