package main

// Stream `robust` (property C01): parsing and rendering never panic; the result is output or a
// non-nil SourceError; the call returns in time proportional to what the template spells out.
//
// Case line:   robust <cfg> <srchex> <envenc>
//   <cfg>    engineCfg.Enc(): <strict 0|1>/<delims|->/<include layout|->
//   <srchex> template source (hex, `-` = empty)
//   <envenc> the environment as one value: a string-keyed map `Msa{...}` (EncEnv)
// Result line: ok <hex output> | err <kind> <line> <pathhex> <cause-kind> | panic | timeout
// (see engine_util.go). The model driver answers `unmodelled` until the render model lands.
//
// Parts: (0) corpus, (1) exhaustive boundary matrix: every registered standard filter x
// receiver in U x argument tuples in U^arity (+ one over-arity call), every comparison
// operator x U x U, every access/loop/tag form x U (x U); (2) every token sequence of length
// <= 3 (4) over the expression lexer's token alphabet inside each expression context;
// (3) generated templates x generated environments; (4) arbitrary byte strings; (5) mutations
// of the templates harvested from the repository's tests.

import (
	"bufio"
	"fmt"
	"go/ast"
	"go/parser"
	"go/token"
	"hash/fnv"
	"io"
	"math"
	"os"
	"os/exec"
	"path/filepath"
	"reflect"
	"runtime/metrics"
	"sort"
	"strconv"
	"strings"
	"sync"
	"syscall"
	"time"

	"github.com/osteele/liquid"
	"github.com/osteele/liquid/expressions"
	"github.com/osteele/liquid/values"
)

func init() {
	streams["robust"] = robustStream
	streams["robust-worker"] = robustWorker
	replayers["robust"] = func(r *Run, f []string) string {
		if len(f) != 4 {
			return "bad-case"
		}
		rb := newRobust(r)
		defer rb.done()
		return rb.exec(parseEngineCfg(f[1]), unhexField(f[2]), DecEnv(f[3]), strings.Join(f, " "), "replay")
	}
}

// registeredFilters lists the names passed to AddFilter in the library's filters package
// (read from the source at run time, so a newly added filter is included automatically).
func registeredFilters() []string {
	seen := map[string]bool{}
	files, _ := filepath.Glob(filepath.Join(repoRoot, "filters", "*.go"))
	for _, fn := range files {
		if strings.HasSuffix(fn, "_test.go") {
			continue
		}
		fset := token.NewFileSet()
		f, err := parser.ParseFile(fset, fn, nil, 0)
		if err != nil {
			continue
		}
		ast.Inspect(f, func(n ast.Node) bool {
			ce, ok := n.(*ast.CallExpr)
			if !ok || len(ce.Args) < 2 {
				return true
			}
			se, ok := ce.Fun.(*ast.SelectorExpr)
			if !ok || se.Sel.Name != "AddFilter" {
				return true
			}
			if bl, ok := ce.Args[0].(*ast.BasicLit); ok && bl.Kind == token.STRING {
				if s, err := strconv.Unquote(bl.Value); err == nil {
					seen[s] = true
				}
			}
			return true
		})
	}
	out := make([]string, 0, len(seen))
	for s := range seen {
		out = append(out, s)
	}
	sort.Strings(out)
	return out
}

// filterArity asks the engine how many parameters (beyond the receiver) a filter declares, by
// passing too many arguments and reading the CallParityError. -1 = not registered, 9 = variadic
// or unknown.
func filterArity(name string) int {
	e := liquid.NewEngine()
	_, err := e.ParseAndRender([]byte("{{ nil | "+name+": nil, nil, nil, nil, nil, nil, nil }}"), nil)
	if err == nil {
		return 9
	}
	switch c := err.Cause().(type) {
	case expressions.UndefinedFilter:
		return -1
	case expressions.FilterError:
		if pe, ok := c.Err.(*values.CallParityError); ok {
			return pe.NumParams
		}
	}
	return 9
}

// ---- the boundary universe ------------------------------------------------------------------

func robustUniverse(tier string) []*V {
	i := func(n int64) *V { return VInt(0, n) }
	s := VStr
	long := strings.TrimSpace(strings.Repeat("lorem ipsum dolor ", 20))
	u := []*V{
		VNil(), VBool(true), i(0), i(-1), i(5), i(2000), i(9223372036854775807), VFlt(1, 2.5),
		s(""), s("abc"), s("héllo wörld 😀 x"), s("10"), s("a\vb \f c\u0085d\u00a0e\u2028f"), // every kind of white space Go and Unicode know: two loops of one filter must agree on what a blank is
		VAnys(), VAnys(VNil(), i(1)), VAnys(s("b"), s("a"), i(3)),
		VStrMap(SKV("a", i(1)), SKV("b", i(2))), VMap(TInt(0), TAny, KV(i(1), s("x"))), VRange(3, 1),
		VAnys(VStrMap(SKV("name", s("b")), SKV("abc", i(1))), VStrMap(SKV("name", s("a")))), // objects, one lacking a key
		VInt(4, 0), VInt(5, 0), // zeros of other integer types (int64, uint): guards written as `b == 0` on an `any` miss them
		VAnys(VNilPtr(), VPtr(i(7))), // pointers as ELEMENTS (printing, joining, sorting them dereferences: a nil one must not panic)
	}
	if tier != "thorough" {
		return u
	}
	u = append(u,
		VBool(false), i(1), i(2), i(7), i(-12), i(1001), i(-9223372036854775808), VInt(4, (1<<53)+1), VInt(6, 255),
		VFlt(1, 0.5), VFlt(1, -2.5), VFlt(1, 1e15), VFlt(0, 1.5),
		s("a"), s(" padded "), s("a,b,c"), s("<b>&amp;</b>"), s("%zz"), s("1.5"), s(long), s("\xff\xfe"),
		VAnys(i(1), i(2), i(2)), VAnys(VAnys(i(1)), VAnys(i(2))), VSlice(TStr, s("b"), s("a")),
		VAnys(VMap(TInt(0), TAny, KV(i(1), s("x")))),
		VMapSlice(SKV("a", i(1)), SKV("b", i(2))), VDrop(i(3)), VDrop(VAnys(i(2), i(1))), VPtr(i(1)), VNilPtr(),
		VStruct(Field{"a", i(1)}, Field{"b", s("x")}), VBytes("ab"), VTime(1577934245), VRange(1, 3),
		VKeyed(Field{"k1", i(1)}, Field{"k2", i(2)}),
	)
	return u
}

// testLikeEnv: the names the repository's own tests bind, so that harvested templates and
// their mutants evaluate something.
func testLikeEnv() map[string]*V {
	i := func(n int64) *V { return VInt(0, n) }
	s := VStr
	strs := func(xs ...string) *V {
		vs := make([]*V, len(xs))
		for k, x := range xs {
			vs[k] = s(x)
		}
		return VSlice(TStr, vs...)
	}
	mapsT := TMap(TStr, TAny)
	return map[string]*V{
		"x": i(123), "obj": VStrMap(SKV("a", i(1))), "animals": strs("zebra", "octopus", "giraffe", "Sally Snake"),
		"pages":     VSlice(mapsT, VStrMap(SKV("category", s("business")), SKV("name", s("page 1"))), VStrMap(), VStrMap(SKV("category", s("sports")))),
		"sort_prop": VSlice(mapsT, VStrMap(SKV("weight", i(1))), VStrMap(SKV("weight", i(5))), VStrMap(SKV("weight", VNil()))),
		"page":      VStrMap(SKV("title", s("Introduction"))), "array": strs("first", "second", "third"), "map": VStrMap(SKV("a", i(1))),
		"keyed_map": VKeyed(Field{"a", i(1)}, Field{"b", i(2)}), "map_slice": VMapSlice(SKV("a", i(1)), SKV("b", i(2))),
		"products": strs("Cool Shirt", "Alien Poster", "Batman Poster"), "offset": i(1), "limit": i(2), "cols": i(2),
		"loopmods": VStrMap(SKV("limit", i(2)), SKV("offset", i(1)), SKV("cols", i(2))), "empty_array": VAnys(),
		"dup_ints": VSlice(TInt(0), i(1), i(2), i(1), i(3)), "dup_strings": strs("one", "two", "one", "three"),
		"fruits": strs("apples", "oranges", "peaches", "plums"), "string_with_newlines": s("\nHello\nthere\n"),
		"ar": strs("first", "second", "third"), "a": i(1), "b": i(2), "n": i(3), "s": s("hello world"), "nums": VAnys(i(3), i(1), i(2)),
		"article": VStrMap(SKV("published_at", VTime(1437145445))), "hash": VStrMap(SKV("a", i(1)), SKV("b", i(2))),
		"range": VStrMap(SKV("begin", i(1)), SKV("end", i(5))), "user": VStrMap(SKV("name", s("Al"))),
	}
}

// ---- execution and oracle -------------------------------------------------------------------
//
// Cases are executed in a child *worker* process (the same binary, stream `robust-worker`),
// one request line in, one response line out. A worker that does not answer within the limit
// is killed (Go cannot stop a goroutine; a runaway render would otherwise keep allocating), a
// worker that dies (fatal error, stack overflow, out of memory) is restarted; in both cases
// the case is run once more on a fresh worker before anything is reported, so every report
// names exactly one input.

type robust struct {
	r       *Run
	seenSig map[string]int
	w       *worker
	local   bool   // run in-process (debugging only: a case that hangs cannot be stopped)
	class   string // class of the case being executed (for the histograms)
}

func newRobust(r *Run) *robust {
	return &robust{r: r, seenSig: map[string]int{}, local: os.Getenv("VERIF_ROBUST_LOCAL") != ""}
}

func (rb *robust) done() {
	if rb.w != nil {
		rb.w.kill()
	}
}

// violate reports at most 3 cases per signature and counts all of them.
func (rb *robust) violate(clause, sig, caseLine, detail string) {
	rb.r.Count("violation:" + clause + ":" + rb.class + ":" + sig)
	rb.seenSig[clause+sig]++
	if rb.seenSig[clause+sig] <= 3 {
		rb.r.Violate("C01", clause, caseLine, detail)
	}
}

// runOnce executes the case on the worker (or in-process) and reports how it ended:
// "" (answered), "timeout", or "died".
func (rb *robust) runOnce(cfg engineCfg, src string, env map[string]*V, caseLine string, hard time.Duration) (caseOutcome, string, string) {
	if rb.local {
		var goenv map[string]any
		if res, _ := protect(func() string { goenv = RealiseEnv(env); return "" }); res == "panic" {
			return caseOutcome{Res: "unrealisable-env"}, "", ""
		}
		o := runCaseTimed(cfg, src, goenv, hard)
		if o.TimedOut {
			return o, "timeout", ""
		}
		return o, "", ""
	}
	if rb.w == nil {
		rb.w = startWorker()
		rb.w.call(calibrationLine, 20*time.Second) // warm-up: one-time initialisation is not timed
	}
	o, status, info := rb.w.call(caseLine, hard)
	if status != "" {
		rb.w.kill()
		rb.w = nil
	}
	return o, status, info
}

// The time clause is judged relative to the machine's speed at that moment: when a case
// overshoots, a fixed calibration render is timed next to it (same worker, same metric) and the
// limit is scaled by how much slower than nominal the calibration ran. On an idle machine the
// factor is 1; on a machine loaded by other checks a trivial case can take hundreds of
// milliseconds, and so does the calibration.
const (
	calibrationSrc     = "{% for i in (1..300) %}{{ i | plus: 1 }}{% endfor %}"
	calibrationNominal = 600 * time.Microsecond // CPU time of calibrationSrc on an idle machine
)

var calibrationLine = robustLine(engineCfg{}, calibrationSrc, map[string]*V{})

// slowdown times the calibration render (max of 2) and returns the factor by which the machine
// is currently slower than nominal (>= 1); a huge factor when the calibration itself fails.
func (rb *robust) slowdown() float64 {
	worst := time.Duration(0)
	for i := 0; i < 2; i++ {
		o, status, _ := rb.runOnce(engineCfg{}, calibrationSrc, map[string]*V{}, calibrationLine, 20*time.Second)
		if status != "" {
			return 1e9
		}
		if o.Elapsed > worst {
			worst = o.Elapsed
		}
	}
	f := float64(worst) / float64(calibrationNominal)
	if f < 1 {
		f = 1
	}
	return f
}

// exec runs one case on the real code, evaluates the C01 oracle, and returns the result line.
func (rb *robust) exec(cfg engineCfg, src string, env map[string]*V, caseLine, class string) string {
	r := rb.r
	rb.class = class
	budget := caseBudget(spelledCost(src, len(caseLine)-len(src)*2, maxCollection(env)))
	limit := 50 * budget
	if limit > caseHardLimit {
		limit = caseHardLimit // nothing the generators build legitimately runs this long
	}
	// The worker reports the CPU time of the case; the overshoot test uses that. The wall-clock
	// kill limit only ends cases that do not return: generous, so that a loaded machine does not kill.
	hard := 4*limit + 3*time.Second
	if hard > caseHardLimit+3*time.Second {
		hard = caseHardLimit + 3*time.Second
	}
	o, status, info := rb.runOnce(cfg, src, env, caseLine, hard)
	if status != "" || o.Elapsed > limit {
		// Measure twice more (fresh worker after a kill), with the calibration render in between,
		// before reporting: a scheduling hiccup does not repeat, a loaded machine shows in the calibration.
		took := func(o caseOutcome, status string) time.Duration {
			if status == "timeout" {
				return hard // a lower bound
			}
			return o.Elapsed
		}
		least, deaths, lastInfo := took(o, status), 0, info
		if status == "died" {
			deaths++
		}
		slow := rb.slowdown()
		retries := 2
		if status != "" {
			retries = 1 // a case that had to be killed (or killed its process) is retried once: each try costs seconds
		}
		for i := 0; i < retries; i++ {
			o2, status2, info2 := rb.runOnce(cfg, src, env, caseLine, hard)
			if status2 == "died" {
				deaths++
				lastInfo = info2
			} else if t := took(o2, status2); t < least {
				least = t
			}
			if status2 == "" {
				o = o2
			} else {
				o.Res = status2
			}
			if s := rb.slowdown(); s > slow {
				slow = s
			}
			if status2 == "" && o2.Elapsed <= limit {
				break
			}
		}
		switch {
		case deaths >= 2 && deaths == retries+1:
			rb.violate("process-death", firstLine(lastInfo), caseLine, "the process running the case died every time: "+lastInfo+"   source: "+short(fmt.Sprintf("%q", src), 300))
			o.Res = "died"
		case deaths > 0:
			r.Count("unjudged:died-not-repeatable")
		case float64(least) > float64(limit)*slow:
			rb.violate("time", class, caseLine, fmt.Sprintf("took at least %v of CPU time in each of %d runs (a case that does not return is killed after %v); nominal budget %v for %d source bytes, 50x = %v, machine slowdown factor %.1f   source: %s",
				least, retries+1, hard, budget, len(src), limit, slow, short(fmt.Sprintf("%q", src), 300)))
		case least > limit:
			r.Count("time-overshoot-explained-by-load")
		}
	}
	if o.Res == "panic" {
		rb.violate("panic", panicSignature(o.Panic), caseLine, "panic: "+o.Panic+"   source: "+short(fmt.Sprintf("%q", src), 300))
	}
	if o.BadErr != "" {
		rb.violate("not-a-source-error", o.BadErr, caseLine, o.BadErr)
	}
	// distribution
	switch {
	case o.Res == "timeout" || o.Res == "died" || o.Res == "unrealisable-env":
		r.Count(class + ":" + o.Res)
	case o.Res == "panic":
		r.Count(class + ":panic")
	case !o.ParseOK:
		r.Count(class + ":parse=err:" + strings.Fields(o.Res)[1])
	default:
		r.Count(class + ":parse=ok")
		if strings.HasPrefix(o.Res, "ok") {
			r.Count(class + ":render=ok")
			if o.OutLen > 0 {
				r.Nontrivial(caseLine)
			}
		} else {
			r.Count(class + ":render=err:" + strings.Fields(o.Res)[1])
		}
	}
	return o.Res
}

// ---- worker process ---------------------------------------------------------------------------

type worker struct {
	cmd    *exec.Cmd
	in     io.WriteCloser
	lines  chan string // response lines; closed when the worker's stdout ends
	stderr *tailBuffer
	timer  *time.Timer
}

// tailBuffer keeps the last bytes written to it.
type tailBuffer struct {
	mu  sync.Mutex
	buf []byte
}

func (t *tailBuffer) Write(p []byte) (int, error) {
	t.mu.Lock()
	defer t.mu.Unlock()
	t.buf = append(t.buf, p...)
	if len(t.buf) > 16384 {
		t.buf = append([]byte{}, t.buf[len(t.buf)-8192:]...)
	}
	return len(p), nil
}

func (t *tailBuffer) String() string {
	t.mu.Lock()
	defer t.mu.Unlock()
	return string(t.buf)
}

func startWorker() *worker {
	exe, err := os.Executable()
	if err != nil {
		panic(err)
	}
	cmd := exec.Command(exe, "-stream", "robust-worker")
	cmd.Env = append(os.Environ(), "GOMEMLIMIT=2GiB", "GOMAXPROCS=2")
	in, err := cmd.StdinPipe()
	if err != nil {
		panic(err)
	}
	out, err := cmd.StdoutPipe()
	if err != nil {
		panic(err)
	}
	w := &worker{cmd: cmd, in: in, lines: make(chan string, 1), stderr: &tailBuffer{}, timer: time.NewTimer(time.Hour)}
	cmd.Stderr = w.stderr
	if err := cmd.Start(); err != nil {
		panic(err)
	}
	rd := bufio.NewReaderSize(out, 1<<20)
	if line, err := rd.ReadString('\n'); err != nil || strings.TrimSpace(line) != "ready" { // start-up is not timed
		panic("robust worker did not start: " + w.stderr.String())
	}
	go func() {
		for {
			line, err := rd.ReadString('\n')
			if err != nil {
				close(w.lines)
				return
			}
			w.lines <- strings.TrimSuffix(line, "\n")
		}
	}()
	return w
}

func (w *worker) kill() {
	w.cmd.Process.Kill()
	w.in.Close()
	go func() {
		for range w.lines {
		}
	}()
	w.cmd.Wait()
}

// fatalSummary extracts the reason from a dead worker's stderr.
func fatalSummary(stderr string) string {
	for _, l := range strings.Split(stderr, "\n") {
		if strings.HasPrefix(l, "fatal error:") || strings.HasPrefix(l, "runtime:") || strings.HasPrefix(l, "panic:") || strings.HasPrefix(l, "worker:") {
			out := l
			// the first library frame, if any
			if fr := repoFrame([]byte(stderr)); fr != "" {
				out += " @ " + fr
			}
			return out
		}
	}
	return "no message (killed?) " + firstLine(stderr)
}

// call sends one case and waits for the answer.
func (w *worker) call(caseLine string, limit time.Duration) (caseOutcome, string, string) {
	if _, err := io.WriteString(w.in, caseLine+"\n"); err != nil {
		w.cmd.Wait()
		return caseOutcome{}, "died", fatalSummary(w.stderr.String())
	}
	if !w.timer.Stop() {
		select {
		case <-w.timer.C:
		default:
		}
	}
	w.timer.Reset(limit)
	select {
	case line, ok := <-w.lines:
		if !ok {
			w.cmd.Wait()
			return caseOutcome{}, "died", fatalSummary(w.stderr.String())
		}
		f := strings.Split(line, "\t")
		if len(f) != 6 {
			return caseOutcome{}, "died", "malformed worker response " + short(line, 200)
		}
		ns, _ := strconv.ParseInt(f[1], 10, 64)
		n, _ := strconv.Atoi(f[3])
		return caseOutcome{Res: f[0], Elapsed: time.Duration(ns), ParseOK: f[2] == "1", OutLen: n, Panic: unhexField(f[4]), BadErr: unhexField(f[5])}, "", ""
	case <-w.timer.C:
		return caseOutcome{Elapsed: limit, TimedOut: true}, "timeout", ""
	}
}

// threadCPU is the CPU time (user+system) consumed so far by this process (GOMAXPROCS=2: the
// case's goroutine and the collector); -1 if unknown.
func threadCPU() time.Duration {
	var ru syscall.Rusage
	if err := syscall.Getrusage(syscall.RUSAGE_SELF, &ru); err != nil {
		return -1
	}
	return time.Duration(ru.Utime.Nano() + ru.Stime.Nano())
}

// robustWorker: the child side. Reads `robust ...` case lines from stdin, answers on stdout:
// <result>\t<elapsed ns>\t<parsed 0|1>\t<output length>\t<panic hex>\t<bad-error hex>
func robustWorker(r *Run) {
	// a heap far beyond anything a bounded case needs means a runaway allocation: die loudly
	// (the parent reports the case) instead of taking the machine down
	go func() {
		sample := []metrics.Sample{{Name: "/memory/classes/heap/objects:bytes"}}
		for {
			time.Sleep(50 * time.Millisecond)
			metrics.Read(sample)
			if sample[0].Value.Kind() == metrics.KindUint64 && sample[0].Value.Uint64() > 3<<30 {
				fmt.Fprintln(os.Stderr, "worker: heap exceeds 3 GiB, giving up on this case")
				os.Exit(3)
			}
		}
	}()
	// The time oracle uses the CPU time consumed by this process while it runs the case, not the
	// wall clock: a loaded machine (16 shards, each with a worker) delays a process for long stretches.
	rd := bufio.NewReaderSize(os.Stdin, 1<<20)
	wr := bufio.NewWriter(os.Stdout)
	fmt.Fprintln(wr, "ready")
	wr.Flush()
	for {
		line, err := rd.ReadString('\n')
		if err != nil {
			return
		}
		f := strings.Fields(line)
		var o caseOutcome
		cpu0 := threadCPU()
		if len(f) != 4 {
			o.Res = "bad-case"
		} else {
			var goenv map[string]any
			var cfg engineCfg
			if res, _ := protect(func() string { cfg = parseEngineCfg(f[1]); goenv = RealiseEnv(DecEnv(f[3])); return "" }); res == "panic" {
				o.Res = "unrealisable-env"
			} else {
				o = runCase(cfg, unhexField(f[2]), goenv)
			}
		}
		po := "0"
		if o.ParseOK {
			po = "1"
		}
		if cpu := threadCPU() - cpu0; cpu0 >= 0 && cpu >= 0 {
			o.Elapsed = cpu
		}
		fmt.Fprintf(wr, "%s\t%d\t%s\t%d\t%s\t%s\n", o.Res, int64(o.Elapsed), po, len(o.Out), hexField(o.Panic), hexField(o.BadErr))
		wr.Flush()
	}
}

func robustLine(cfg engineCfg, src string, env map[string]*V) string {
	return "robust " + cfg.Enc() + " " + hexField(src) + " " + EncEnv(env)
}

// ---- the stream -------------------------------------------------------------------------------

var exprTokens = []string{"a", "1", "\"s\"", "nums", "|", ":", ",", ".b", "[", "]", "(", ")", "..", "==", "<", "contains", "and", "=", "in", "upcase",
	"%assign ", "%loop ", "{%cycle ", "{%when "}

var exprContexts = [][2]string{
	{"{{ ", " }}"}, {"{% if ", " %}x{% endif %}"}, {"{% assign ", " %}"},
	{"{% for ", " %}x{% endfor %}"}, {"{% case 1 %}{% when ", " %}x{% endcase %}"}, {"{% for i in (1..2) %}{% cycle ", " %}{% endfor %}"},
}

func robustStream(r *Run) {
	rb := newRobust(r)
	defer rb.done()
	thorough := r.Tier == "thorough"
	plain := engineCfg{}
	run := func(cfg engineCfg, src string, env map[string]*V, class string) {
		if !r.Mine() {
			return
		}
		cl := robustLine(cfg, src, env)
		r.Count("class=" + class)
		r.Emit(cl, rb.exec(cfg, src, env, cl, class))
	}

	// (0) corpus
	for _, c := range corpusLines("robust") {
		f := strings.Fields(c)
		if len(f) == 4 && r.Mine() {
			r.Emit(c, replayers["robust"](r, f))
		}
	}

	// (0b) Go values the codec cannot spell (implementation only)
	if r.Shard == 0 {
		robustGoShapesFamily(r)
	}

	// (1) boundary matrix
	U := robustUniverse(r.Tier)
	r.Stats.Notes["universe"] = fmt.Sprint(len(U))
	names := registeredFilters()
	known := map[string]bool{}
	for _, n := range generatorFilterNames() {
		known[n] = true
	}
	var unknownToGen []string
	argNames := []string{"a", "b", "c"}
	for _, name := range names {
		ar := filterArity(name)
		if ar < 0 {
			continue
		}
		if !known[name] {
			unknownToGen = append(unknownToGen, name)
		}
		if ar > 2 {
			ar = 2
		}
		// the filter with 0..ar arguments from U, plus one call with an argument too many
		for nargs := 0; nargs <= ar+1; nargs++ {
			src := "{{ r | " + name
			for k := 0; k < nargs; k++ {
				if k == 0 {
					src += ": " + argNames[k]
				} else {
					src += ", " + argNames[k]
				}
			}
			src += " }}"
			over := nargs == ar+1
			idx := make([]int, nargs)
			for _, recv := range U {
				if over && recv != U[4] && recv != U[9] {
					continue // over-arity: two receivers suffice (the call is rejected before conversion)
				}
				for {
					env := map[string]*V{"r": recv}
					for k := 0; k < nargs; k++ {
						env[argNames[k]] = U[idx[k]]
					}
					run(plain, src, env, "matrix-filter")
					r.Count("matrix:filter=" + name)
					// next tuple
					k := nargs - 1
					for ; k >= 0; k-- {
						idx[k]++
						if over && idx[k] >= 2 || idx[k] >= len(U) {
							idx[k] = 0
							continue
						}
						break
					}
					if k < 0 {
						break
					}
				}
			}
		}
	}
	r.Stats.Notes["registered_filters"] = fmt.Sprint(len(names))
	if len(unknownToGen) > 0 {
		r.Stats.Notes["filters_unknown_to_generator"] = strings.Join(unknownToGen, ",")
	}
	for _, op := range []string{"==", "!=", "<", ">", "<=", ">=", "contains", "and", "or"} {
		for _, a := range U {
			for _, b := range U {
				run(plain, "{% if a "+op+" b %}T{% else %}F{% endif %}", map[string]*V{"a": a, "b": b}, "matrix-op")
				r.Count("matrix:op=" + op)
			}
		}
	}
	forms1 := []string{
		"{{ a }}", "{{ a.foo }}", "{{ a.size }}", "{{ a.first }}", "{{ a.last }}", "{{ a.a.b }}",
		"{% for x in a limit: 3 %}{{ x }},{% else %}E{% endfor %}", "{% for x in a reversed offset: 1 %}{{ forloop.index }}{% endfor %}",
		"{% tablerow x in a cols: 2 limit: 3 %}{{ x }}{% endtablerow %}", "{% tablerow x in (1..3) cols: a %}{{ x }}{% endtablerow %}",
		"{% if a %}T{% else %}F{% endif %}", "{% unless a %}T{% else %}F{% endunless %}",
		"{% assign forloop = a %}{% cycle \"x\", \"y\" %}", "{% for i in (1..2) %}{% assign forloop = a %}{% cycle \"x\" %}{% endfor %}",
		"{% assign x = a %}{{ x }}{{ x.size }}", "{% capture x %}{{ a }}{% endcapture %}{{ x | size }}", "{% include a %}",
		"{% for i in (1..3) %}{% cycle a %}{% endfor %}", "{% for x in a %}{% for y in a limit: 2 %}{{ y }}{% endfor %}{% endfor %}",
		"{{- a -}}", "{% case a %}{% when 1, \"abc\", nil %}T{% else %}F{% endcase %}",
	}
	for _, f := range forms1 {
		for _, a := range U {
			run(plain, f, map[string]*V{"a": a}, "matrix-form")
		}
	}
	forms2 := []string{
		"{{ a[b] }}", "{% for x in (1..3) limit: a offset: b %}{{ x }}{% endfor %}", "{% for i in (a..b) limit: 2 %}{{ i }}{% endfor %}",
		"{{ (a..b) | join }}", "{% case a %}{% when b %}T{% else %}F{% endcase %}", "{% for x in a limit: b %}{{ x }}{% endfor %}",
		"{% for x in a offset: b %}{{ x }}{% endfor %}", "{% tablerow x in a cols: b %}{{ x }}{% endtablerow %}", "{{ a[b].size }}", "{{ a | map: \"a\" | sort: b }}",
	}
	for _, f := range forms2 {
		for _, a := range U {
			for _, b := range U {
				run(plain, f, map[string]*V{"a": a, "b": b}, "matrix-form")
			}
		}
	}
	// cyclic include layouts: a file that includes itself, directly or through a second file, always or under a
	// condition; the render must end (an error at the nesting limit of RenderFile), not overflow the stack
	{
		cyc := engineCfg{FS: [][2]string{{"a.html", "x{% include \"a.html\" %}"}, {"b.html", "b{% include \"c.html\" %}"},
			{"c.html", "c{% if a %}{% include \"b.html\" %}{% endif %}"}}}
		for _, src := range []string{"{% include \"a.html\" %}", "{% include \"b.html\" %}", "{% include a %}",
			"{% for i in (1..2) %}{{ i }}{% include \"a.html\" %}{% endfor %}"} {
			for _, a := range []*V{VStr("a.html"), VBool(true), VNil()} {
				run(cyc, src, map[string]*V{"a": a}, "matrix-include-cycle")
			}
		}
	}
	// strict-variables engine on the one-variable forms
	for _, f := range forms1[:6] {
		for _, a := range U {
			run(engineCfg{Strict: true}, f, map[string]*V{"a": a}, "matrix-form")
		}
	}

	// (1a) a caller may bind anything under the names the renderer uses itself: `forloop` records of every
	// shape (counters of the right Go type with negative, huge and ordinary values; wrong types), used by
	// cycle outside and inside loops, by tablerow, and printed
	{
		i := func(n int64) *V { return VInt(0, n) }
		cyc := func(kvs ...[2]*V) *V { return VMap(TStr, TInt(0), kvs...) }
		recs := []*V{
			VStrMap(SKV(".cycles", cyc(SKV("", i(-3))))), VStrMap(SKV(".cycles", cyc(SKV("", i(1)), SKV("g", i(5))))),
			VStrMap(SKV(".cycles", cyc())), VStrMap(SKV(".cycles", cyc(SKV("", i(9223372036854775807))))),
			VStrMap(SKV(".cycles", VStrMap(SKV("", i(-1))))), VStrMap(SKV(".cycles", i(3))), VStrMap(SKV(".cycles", VNil())),
			VStrMap(SKV("index", i(-1)), SKV("length", VStr("x")), SKV("first", VNil())), i(7), VStr("forloop"), VAnys(i(1)), VNil(),
			VMapSlice(SKV(".cycles", cyc(SKV("", i(-3))))), VPtr(VStrMap(SKV(".cycles", cyc(SKV("", i(-3)))))),
		}
		tmpls := []string{
			"{% cycle \"a\", \"b\" %}", "{% cycle \"g\": \"a\", \"b\" %}{% cycle \"a\" %}",
			"{% for i in (1..3) %}{% cycle \"a\", \"b\" %}{% endfor %}{% cycle \"a\", \"b\" %}",
			"{{ forloop.index }}|{{ forloop }}|{% for i in (1..2) %}{{ forloop.index }}{% endfor %}|{{ forloop.index }}",
			"{% tablerow i in (1..3) cols: 2 %}{% cycle 'x', 'y' %}{% endtablerow %}{% cycle 'x' %}",
			"{% if forloop %}{% cycle 1, 2 %}{% endif %}{% assign forloop = forloop %}{% cycle 1, 2 %}",
			"{% for i in (1..2) %}{% for j in (1..2) %}{% cycle 'a','b','c' %}{% endfor %}{% cycle 'p','q' %}{% endfor %}",
		}
		for _, t := range tmpls {
			for _, rec := range recs {
				run(plain, t, map[string]*V{"forloop": rec}, "reserved-names")
			}
		}
	}

	// (1a') loop modifiers that are numbers but not integers, written as literals: fractions below one, halves, huge and tiny floats
	for _, mod := range []string{"cols", "limit", "offset"} {
		for _, val := range []string{"0.5", "0.25", "0.999", "1.5", "-0.5", "1e-300", "0.0", "2.0", "1e300", "9223372036854775807.0", "-1e300"} {
			run(plain, "{% tablerow x in (1..3) "+mod+": "+val+" %}{{ x }}{% endtablerow %}|{% for x in (1..3) "+strings.Replace(mod, "cols", "limit", 1)+": "+val+" %}{{ x }}{% endfor %}", map[string]*V{}, "float-modifiers")
		}
	}

	// (1b) the range boundary family (pure templates): extreme endpoints, and lengths around the
	// array-conversion bound, converted to arrays by filters or iterated lazily by loops
	const maxI, minI = "9223372036854775807", "-9223372036854775808"
	bRanges := []string{"(" + maxI + ".." + maxI + ")", "(9223372036854775800.." + maxI + ")", "(1.." + maxI + ")", "(-1.." + maxI + ")",
		"(" + minI + ".." + maxI + ")", "(" + minI + ".." + minI + ")", "(" + minI + "..-9223372036854775805)", "(" + maxI + ".." + minI + ")",
		"(0..9999999)", "(1..10000000)", "(1..10000001)", "(0..10000000)", "(9999998..10000003)", "(5..1)", "(0..2000)", "(1..4294967296)"}
	bTails := []string{"{{ R | first }}", "{{ R | last }}", "{{ R | size }}", "{{ R | join | size }}", "{{ R | concat: R | size }}", "{{ R }}", "{{ R | reverse | first }}",
		"{% for i in R limit: 2 %}{{ i }},{% else %}E{% endfor %}", "{% for i in R reversed limit: 2 %}{{ i }},{% endfor %}",
		"{% for i in R offset: 9999999 limit: 2 %}{{ i }},{% endfor %}", "{% tablerow i in R limit: 2 cols: 2 %}{{ i }}{% endtablerow %}",
		"{% assign r = R %}{{ r.first }}{{ r[0] }}{{ r.size }}", "{% if R contains 3 %}T{% else %}F{% endif %}", "{% if R == R %}T{% else %}F{% endif %}"}
	for _, rg := range bRanges {
		for ti, tl := range bTails {
			// materialising ten million items costs about a second and a gigabyte: the quick tier
			// does it for two ranges and three filters only
			heavy := strings.Contains(rg, "999999") || strings.Contains(rg, "1000000")
			if heavy && !thorough && ti < 7 && !((rg == "(1..10000000)" || rg == "(1..10000001)") && (ti == 0 || ti == 2 || ti == 3)) {
				continue
			}
			run(plain, strings.ReplaceAll(tl, "R", rg), map[string]*V{}, "range-boundary")
		}
	}

	// (1b') Go method names as property names: a time.Time and a values.Range are structs to the evaluator, which
	// calls a method of no arguments as a property ({{ t.Year }}, {{ (1..3).Len }}). Every exported method
	// of both types, of every result shape (one result, value and error, two values, three values, none,
	// with parameters), on times whose methods fail (MarshalJSON outside the years 0..9999) and ranges too long to
	// become arrays, as a property, as an index, under a filter, as a loop collection and as a contains operand.
	{
		methodNames := exportedMethodNames(time.Time{}, values.NewRange(1, 2), &time.Time{})
		r.Stats.Notes["method_names"] = fmt.Sprint(len(methodNames))
		recvs := []*V{VTime(1577934245), VTime(0), VTime(253402300800), VTime(-62198755200), VPtr(VTime(1577934245)), VRange(1, 3), VRange(5, 1),
			VRange(1, 9223372036854775807), VRange(-9223372036854775808, 9223372036854775807), VRange(1, 20000000), VRange(1, 4294967296),
			VPtr(VRange(1, 3)), VDrop(VTime(1577934245)), VAnys(VTime(1577934245)), VStruct(Field{"Year", VInt(0, 1)}), VNilPtr()}
		mforms := []string{"{{ a.N }}", "{{ a[n] }}", "{{ a.N.size }}|{{ a.N | json }}", "{% for x in a.N limit: 2 %}{{ x }},{% endfor %}",
			"{% if a contains n %}T{% else %}F{% endif %}{% if a.N %}T{% else %}F{% endif %}", "{{ a | map: n | first }}", "{{ a.N.N }}{{ a.first.N }}"}
		for _, n := range methodNames {
			for _, f := range mforms {
				src := strings.ReplaceAll(f, "N", n)
				for _, a := range recvs {
					run(plain, src, map[string]*V{"a": a, "n": VStr(n)}, "method-names")
				}
			}
		}
		for _, rg := range bRanges {
			for _, tl := range []string{"{{ R.AsArray | size }}", "{{ R.Len }}|{{ R.AsArray.size }}", "{% for i in R.AsArray limit: 2 %}{{ i }}{% endfor %}"} {
				if strings.Contains(rg, "999999") || strings.Contains(rg, "1000000") {
					continue
				}
				run(plain, strings.ReplaceAll(tl, "R", rg), map[string]*V{}, "method-names")
			}
		}
	}

	// (1b'') maps whose keys are floats the lookup never finds (NaN != NaN): iterating, converting to an array, printing,
	// indexing and comparing them reads entries that reflect reports as absent
	{
		nan := VFlt(1, math.NaN())
		ms := []*V{VMap(TFlt(1), TAny, KV(nan, VInt(0, 1))), VMap(TFlt(1), TAny, KV(nan, VInt(0, 1)), KV(VFlt(1, 1.5), VStr("x"))),
			VMap(TFlt(1), TInt(0), KV(nan, VInt(0, 1))), VMap(TAny, TAny, KV(nan, VNil()), KV(VStr("a"), VInt(0, 2))),
			VMap(TFlt(1), TAny, KV(VFlt(1, math.Inf(1)), VInt(0, 1)), KV(VFlt(1, math.Copysign(0, -1)), VInt(0, 2))),
			VAnys(VMap(TFlt(1), TAny, KV(nan, VInt(0, 1))))}
		nforms := append([]string{"{% for p in a %}{{ p }}|{{ p[0] }}={{ p[1] }},{% endfor %}", "{{ a | first }}|{{ a | last }}|{{ a | size }}|{{ a.size }}",
			"{{ a | join }}|{{ a | sort | join }}|{{ a | reverse | join }}|{{ a | uniq | join }}|{{ a | compact | join }}",
			"{{ a | json }}|{{ a | inspect }}|{{ a }}", "{% if a == a %}T{% else %}F{% endif %}{% if a contains 1 %}T{% else %}F{% endif %}",
			"{% tablerow p in a cols: 2 %}{{ p }}{% endtablerow %}", "{{ a[1.5] }}|{{ a[0] }}|{{ a | map: 'x' | join }}|{{ a | where: 'x' | size }}",
			"{{ a | sort: 'x' | size }}|{{ a | sort_natural | size }}|{{ a | concat: a | size }}|{{ a | sum }}"}, forms1[:6]...)
		for _, f := range nforms {
			for _, a := range ms {
				run(plain, f, map[string]*V{"a": a}, "nan-keys")
			}
		}
	}

	// (1b3) nil pointers of every pointee type as ELEMENTS (a typed nil pointer inside an interface is not nil to Go: code
	// that looks through pointers to a type it knows, such as *time.Time, must check before it dereferences). The pointee
	// type of 'N' is derived from the environment's encoding (nilPtrFlavor); a filler binding steers it to each flavour.
	{
		arrs := []*V{VAnys(VNilPtr(), VPtr(VInt(0, 7))), VAnys(VNilPtr()), VAnys(VPtr(VTime(1577934245)), VNilPtr(), VTime(0)), VStrMap(SKV("k", VNilPtr())),
			VAnys(VStrMap(SKV("k", VNilPtr())), VStrMap(SKV("k", VTime(0))))}
		pforms := []string{"{% if a contains 1 %}T{% else %}F{% endif %}", "{% if a contains t %}T{% else %}F{% endif %}", "{% if a == b %}T{% else %}F{% endif %}{% if a != a %}T{% endif %}",
			"{{ a | sort | size }}|{{ a | sort_natural | size }}|{{ a | uniq | size }}|{{ a | compact | size }}", "{% case a %}{% when b %}T{% else %}F{% endcase %}{% case a[0] %}{% when t %}T{% endcase %}",
			"{{ a | join }}|{{ a | first }}|{{ a[0] }}|{{ a[0].Year }}|{{ a.k }}", "{% if a[0] < t %}T{% endif %}{% if a[0] == t %}T{% endif %}{% if a.k == t %}T{% endif %}{% if t > a.k %}T{% endif %}",
			"{{ a | map: 'k' | sort | size }}|{{ a | sort: 'k' | size }}|{{ a | where: 'k' | size }}", "{{ a | json }}|{{ a | inspect }}|{{ a[0] | date: '%Y' }}|{{ a.k | date: '%Y' }}"}
		for f := 0; f < nilPtrFlavors; f++ {
			for _, a := range arrs {
				for _, b := range arrs[:3] {
					for _, pf := range pforms {
						env := envWithNilFlavor(map[string]*V{"a": a, "b": b, "t": VTime(1577934245)}, f)
						run(plain, pf, env, "nil-pointer-elements")
					}
				}
			}
		}
	}

	// (1c) times: {{ t }}, the date filter on times and on date strings, times inside containers (stream_filter_date.go)
	for _, tc := range dateTemplateFamily() {
		run(plain, tc.src, tc.env, "date-family")
	}

	// (2) token sequences of the expression language in every expression context
	tokEnv := map[string]*V{"a": VInt(0, 1), "nums": VAnys(VInt(0, 1), VInt(0, 2)), "upcase": VStr("u")}
	maxLen := 3
	nctx := len(exprContexts)
	enum := func(maxLen, ctxFrom, ctxTo int, onlyLen int) {
		enumStrings2(exprTokens, maxLen, func(toks []string) {
			if onlyLen >= 0 && len(toks) != onlyLen {
				return
			}
			e := strings.Join(toks, " ")
			for _, cx := range exprContexts[ctxFrom:ctxTo] {
				run(plain, cx[0]+e+cx[1], tokEnv, "expr-tokens")
			}
		})
	}
	enum(maxLen, 0, nctx, -1)
	if thorough {
		enum(4, 0, 3, 4)
	}
	r.Stats.Notes["expr_tokens"] = fmt.Sprintf("all sequences of length <= %d over %d tokens in %d contexts", maxLen, len(exprTokens), nctx)

	// (3) generated templates x generated environments
	nGen := 7000
	if thorough {
		nGen = 120000
	}
	for i := 0; i < nGen; i++ {
		if !r.Mine() {
			continue
		}
		g := NewRNG(r.Seed, fmt.Sprint("robust/tmpl/", i))
		o := DefaultTmplOpts()
		o.MaxDepth = 1 + g.Intn(4)
		o.MaxLoopNest = 1 + g.Intn(3)
		o.MaxNodes = 3 + g.Intn(10)
		o.TrimPct = []int{0, 5, 12, 30, 60}[g.Intn(5)]
		cfg := engineCfg{Strict: g.Chance(o.StrictPct)}
		sc := GenSchema(g, o)
		if g.Chance(15) {
			cfg.FS = GenIncludes(g, o, sc)
			o.Includes = cfg.FS
		}
		env := GenEnv(g, o, sc)
		src, info := GenTemplateFor(g, o, sc)
		cl := robustLine(cfg, src, env)
		r.Count("class=gen")
		r.Count("gen-mode=" + info.Mode)
		for t := range info.Tags {
			r.Count("tag=" + t)
		}
		for f := range info.Filters {
			r.Count("filter=" + f)
		}
		for op := range info.Ops {
			r.Count("op=" + op)
		}
		for _, e := range info.Errs {
			r.Count("errc=" + e)
		}
		r.Count("gen-" + sizeBucket(len(src)))
		r.Emit(cl, rb.exec(cfg, src, env, cl, "gen"))
	}

	// (4) arbitrary byte strings, UTF-8 strings, delimiter-dense strings
	nBytes := 2500
	if thorough {
		nBytes = 40000
	}
	tlEnv := testLikeEnv()
	for i := 0; i < nBytes; i++ {
		if !r.Mine() {
			continue
		}
		g := NewRNG(r.Seed, fmt.Sprint("robust/bytes/", i))
		src, kind := randomScanSource(g)
		if len(src) > 4096 {
			src = src[:4096]
		}
		cl := robustLine(plain, src, tlEnv)
		r.Count("class=bytes-" + kind)
		r.Emit(cl, rb.exec(plain, src, tlEnv, cl, "bytes"))
	}

	// (5) harvested templates and their mutants
	tpls := harvestTemplates()
	r.Stats.Notes["harvested_templates"] = fmt.Sprint(len(tpls))
	nMut := 4
	if thorough {
		nMut = 40
	}
	for ti, t := range tpls {
		run(plain, t, tlEnv, "harvest")
		for k := 0; k < nMut; k++ {
			if !r.Mine() {
				continue
			}
			g := NewRNG(r.Seed, fmt.Sprint("robust/mut/", ti, "/", k))
			m := mutate(g, t)
			for g.Chance(35) {
				m = mutate(g, m)
			}
			if g.Chance(10) && len(tpls) > 1 { // splice two templates
				o := tpls[g.Intn(len(tpls))]
				m = m[:g.Intn(len(m)+1)] + o[g.Intn(len(o)+1):]
			}
			if len(m) > 8192 {
				m = m[:8192]
			}
			cfg := engineCfg{Strict: g.Chance(8)}
			cl := robustLine(cfg, m, tlEnv)
			r.Count("class=mutant")
			r.Emit(cl, rb.exec(cfg, m, tlEnv, cl, "mutant"))
		}
	}
	_ = time.Now
}

// envWithNilFlavor adds a filler binding so that RealiseEnv gives the environment's nil pointers the pointee type f.
func envWithNilFlavor(env map[string]*V, f int) map[string]*V {
	for k := int64(0); ; k++ {
		env["zfill"] = VInt(0, k)
		h := fnv.New32a()
		h.Write([]byte(EncEnv(env)))
		if int(h.Sum32()%nilPtrFlavors) == f {
			return env
		}
	}
}

// exportedMethodNames: the exported method names of the given values' types (what reflect's MethodByName finds), sorted.
func exportedMethodNames(xs ...any) []string {
	seen := map[string]bool{}
	for _, x := range xs {
		t := reflect.TypeOf(x)
		for i := 0; i < t.NumMethod(); i++ {
			seen[t.Method(i).Name] = true
		}
	}
	var out []string
	for n := range seen {
		out = append(out, n)
	}
	sort.Strings(out)
	return out
}

// enumStrings2 calls f for every token sequence of length <= maxLen, in a fixed order.
func enumStrings2(alphabet []string, maxLen int, f func([]string)) {
	var rec func(prefix []string)
	rec = func(prefix []string) {
		f(prefix)
		if len(prefix) == maxLen {
			return
		}
		for _, a := range alphabet {
			rec(append(prefix[:len(prefix):len(prefix)], a))
		}
	}
	rec(nil)
}
