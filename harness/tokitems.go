package main

// Abstract token-level templates (DESIGN 6 C19: `Items`, `spell`, `GoodDelims`, `Clean`).
//
// A template is a list of items: literal text, objects and tags. An object or tag records its
// arguments, its two whitespace-control hyphens and the white space written inside the
// delimiters, so that the same list can be *spelled* with any set of delimiters. `unspell` is
// the inverse for spelled sources that are Clean (used by the replayers, which only have the
// case line).

import (
	"strings"
)

type tItem struct {
	Kind          byte   // 'x' text, 'o' object, 't' tag
	Text          string // text
	Name          string // tag name (\w+)
	Args          string // object expression / tag arguments ("" = none)
	TrimL, TrimR  bool
	WsL, WsM, WsR string // white space after the left delimiter (and hyphen), between tag name and args, before the right delimiter (and hyphen)
}

var defaultDelims = [4]string{"{{", "}}", "{%", "%}"}

// effDelims applies Delims' defaulting: an empty string selects the default of its position.
func effDelims(d [4]string) [4]string {
	for i := range d {
		if d[i] == "" {
			d[i] = defaultDelims[i]
		}
	}
	return d
}

// GoodDelims: four distinct strings of length 1..4, none a prefix of another.
func GoodDelims(d [4]string) bool {
	for i := range d {
		if len(d[i]) < 1 || len(d[i]) > 4 {
			return false
		}
		for j := range d {
			if i != j && strings.HasPrefix(d[j], d[i]) { // covers equality
				return false
			}
		}
	}
	return true
}

type span struct{ a, b int }

// spellSpans spells items with the (effective) delimiters d and returns the source together
// with the positions of the delimiters it wrote.
func spellSpans(d [4]string, items []tItem) (string, []span) {
	var sb strings.Builder
	var spans []span
	delim := func(s string) {
		spans = append(spans, span{sb.Len(), sb.Len() + len(s)})
		sb.WriteString(s)
	}
	for _, it := range items {
		switch it.Kind {
		case 'x':
			sb.WriteString(it.Text)
		case 'o', 't':
			l, r := d[0], d[1]
			if it.Kind == 't' {
				l, r = d[2], d[3]
			}
			delim(l)
			if it.TrimL {
				sb.WriteByte('-')
			}
			sb.WriteString(it.WsL)
			if it.Kind == 't' {
				sb.WriteString(it.Name)
				if it.Args != "" {
					sb.WriteString(it.WsM)
					sb.WriteString(it.Args)
				}
			} else {
				sb.WriteString(it.Args)
			}
			sb.WriteString(it.WsR)
			if it.TrimR {
				sb.WriteByte('-')
			}
			delim(r)
		}
	}
	return sb.String(), spans
}

func spell(d [4]string, items []tItem) string {
	s, _ := spellSpans(effDelims(d), items)
	return s
}

func isWsByte(c byte) bool { return c == ' ' || c == '\t' || c == '\n' || c == '\f' || c == '\r' }

func allWs(s string) bool {
	for i := 0; i < len(s); i++ {
		if !isWsByte(s[i]) {
			return false
		}
	}
	return true
}

func isWord(s string) bool {
	if s == "" {
		return false
	}
	for i := 0; i < len(s); i++ {
		c := s[i]
		if !(c >= '0' && c <= '9' || c >= 'a' && c <= 'z' || c >= 'A' && c <= 'Z' || c == '_') {
			return false
		}
	}
	return true
}

// Clean(d, items): the items are well formed (names are words, arguments are non-empty for
// objects and neither begin nor end with white space or '-', a tag's name and arguments are
// separated by white space) and, in the source spelled with d, every occurrence of every
// delimiter of d lies inside a delimiter that spell wrote there: neither a text nor an argument
// contains a delimiter, and none is created across a boundary.
func Clean(d [4]string, items []tItem) bool {
	d = effDelims(d)
	for _, it := range items {
		if it.Kind == 'x' {
			continue
		}
		if !allWs(it.WsL) || !allWs(it.WsM) || !allWs(it.WsR) {
			return false
		}
		a := it.Args
		if a != "" && (isWsByte(a[0]) || isWsByte(a[len(a)-1]) || a[0] == '-' || a[len(a)-1] == '-') {
			return false
		}
		if it.Kind == 'o' && a == "" {
			return false
		}
		if it.Kind == 't' {
			if !isWord(it.Name) {
				return false
			}
			if a != "" && it.WsM == "" {
				return false
			}
			// The tag pattern admits arguments only as a sequence of "not the start of the right
			// delimiter" pieces (t0..t(i-1) followed by a byte other than t(i)), so arguments that
			// END in a proper prefix of the right delimiter cannot be followed by it (with the
			// defaults: `{% assign x = y %%}`). This is a boundary effect of the same kind as a
			// text ending in a prefix of a delimiter.
			for k := 1; k < len(d[3]); k++ {
				if strings.HasSuffix(a, d[3][:k]) {
					return false
				}
			}
		}
	}
	src, spans := spellSpans(d, items)
	inside := func(a, b int) bool {
		for _, s := range spans {
			if s.a <= a && b <= s.b {
				return true
			}
		}
		return false
	}
	for _, dl := range d {
		for from := 0; ; {
			i := strings.Index(src[from:], dl)
			if i < 0 {
				break
			}
			p := from + i
			if !inside(p, p+len(dl)) {
				return false
			}
			from = p + 1
		}
	}
	return true
}

// unspell recovers the items of a source that was spelled with d from Clean items; ok is false
// when the source does not have that form (the round trip spell(d, unspell(d, src)) == src and
// Clean are checked).
func unspell(d [4]string, src string) (items []tItem, ok bool) {
	d = effDelims(d)
	if !GoodDelims(d) {
		return nil, false
	}
	textStart := 0
	i := 0
	for i < len(src) {
		kind := byte(0)
		var l, r string
		switch {
		case strings.HasPrefix(src[i:], d[0]):
			kind, l, r = 'o', d[0], d[1]
		case strings.HasPrefix(src[i:], d[2]):
			kind, l, r = 't', d[2], d[3]
		}
		if kind == 0 {
			i++
			continue
		}
		j := strings.Index(src[i+len(l):], r)
		if j < 0 {
			return nil, false
		}
		inner := src[i+len(l) : i+len(l)+j]
		if textStart < i {
			items = append(items, tItem{Kind: 'x', Text: src[textStart:i]})
		}
		it := tItem{Kind: kind}
		if strings.HasPrefix(inner, "-") {
			it.TrimL, inner = true, inner[1:]
		}
		if strings.HasSuffix(inner, "-") {
			it.TrimR, inner = true, inner[:len(inner)-1]
		}
		a := 0
		for a < len(inner) && isWsByte(inner[a]) {
			a++
		}
		b := len(inner)
		for b > a && isWsByte(inner[b-1]) {
			b--
		}
		it.WsL, it.WsR = inner[:a], inner[b:]
		body := inner[a:b]
		if kind == 'o' {
			it.Args = body
		} else {
			k := 0
			for k < len(body) && isWord(body[k:k+1]) {
				k++
			}
			it.Name = body[:k]
			rest := body[k:]
			m := 0
			for m < len(rest) && isWsByte(rest[m]) {
				m++
			}
			it.WsM, it.Args = rest[:m], rest[m:]
			if it.Args == "" && it.WsM != "" { // cannot happen after the trimming above
				return nil, false
			}
		}
		items = append(items, it)
		i += len(l) + j + len(r)
		textStart = i
	}
	if textStart < len(src) {
		items = append(items, tItem{Kind: 'x', Text: src[textStart:]})
	}
	if !Clean(d, items) {
		return nil, false
	}
	if s, _ := spellSpans(d, items); s != src {
		return nil, false
	}
	return items, true
}

// mapTexts returns a copy of items with f applied to every text item.
func mapTexts(items []tItem, f func(string) string) []tItem {
	out := make([]tItem, len(items))
	copy(out, items)
	for i := range out {
		if out[i].Kind == 'x' {
			out[i].Text = f(out[i].Text)
		}
	}
	return out
}

// rawBodies returns, for every raw block of items (a tag named raw up to the next tag named
// endraw), the index range of its body.
func rawBodies(items []tItem) []span {
	var out []span
	for i := 0; i < len(items); i++ {
		if items[i].Kind == 't' && items[i].Name == "raw" {
			j := i + 1
			for j < len(items) && !(items[j].Kind == 't' && items[j].Name == "endraw") {
				j++
			}
			if j < len(items) {
				out = append(out, span{i + 1, j})
				i = j
			}
		} else if items[i].Kind == 't' && items[i].Name == "comment" {
			// a comment swallows everything up to endcomment, raw tags included
			j := i + 1
			for j < len(items) && !(items[j].Kind == 't' && items[j].Name == "endcomment") {
				j++
			}
			i = j
		}
	}
	return out
}
