package main

// Seeded, grammar-directed generator of Liquid templates and matching binding environments
// (DESIGN 5.2 `tmpl`). One RNG drives every choice. The generator is type-directed: a *schema*
// lists the variables of an environment with their kinds; expressions pick variables of a
// suitable kind (arrays where a loop iterates, numbers for arithmetic, strings for string
// filters) most of the time, and a missing or ill-typed one sometimes.
//
// Size discipline (so that every generated template renders in milliseconds and kilobytes):
//   * ranges have literal or small-int endpoints (|range| <= ~8), arrays <= 6 items, maps <= 12;
//     Go `int` values in an environment are always small, large numbers are int64/float64 (a
//     range endpoint of those kinds is a TypeError, not a long loop);
//   * loop nesting <= MaxLoopNest (<= 3);
//   * variables made by assign/capture are either *plain* (x0,x1,..: the right-hand side reads
//     only the environment, loop variables and lower-numbered plain variables, so a value's size
//     is bounded by the template text) or *accumulators* (acc0,..: `acc = acc | append: <env>`,
//     one self-reference, linear growth); nothing that is written reads an accumulator, and
//     loops never iterate an accumulator. This excludes the doubling patterns
//     (`assign s = s | append: s` in a loop) that would make output size exponential.

import (
	"fmt"
	"sort"
	"strings"
)

// TmplOpts are the generator's knobs.
type TmplOpts struct {
	MaxDepth      int         // nesting depth of block tags (default 3)
	MaxLoopNest   int         // nesting depth of for/tablerow (default 2, at most 3)
	MaxNodes      int         // nodes in the top-level sequence (default 9); inner sequences are shorter
	TrimPct       int         // % of delimiters that carry a whitespace-control hyphen ({{- -}} {%- -%})
	ValidPct      int         // "mostly valid" bias: % of templates with no injected error construct
	ParseErrPct   int         // of the remaining templates, % whose injected construct is a parse-phase one
	ErrDensity    int         // per-mille chance, at every construct of a non-valid template, of a further error construct
	MissingVarPct int         // % of variable references naming an undefined variable
	IllTypedPct   int         // % of variable references ignoring the wanted kind
	BoundaryPct   int         // % of integer filter arguments drawn from the boundary set (0, -1, 1000, 2000, huge)
	StrictPct     int         // % of cases whose engine has StrictVariables (only reported; the stream applies it)
	MapHeavy      bool        // C02: emphasise multi-entry maps consumed by loops and array filters
	ArrayHeavy    bool        // C03: emphasise array filters on environment-owned slices
	Includes      [][2]string // include layout (name, source); nil = never generate {% include %}
}

// DefaultTmplOpts: tuned so that about 85 % of the templates parse and about 70 % render without
// error on the repaired tree (measured by the robust stream on every run: parse=*/render=*).
func DefaultTmplOpts() TmplOpts {
	return TmplOpts{MaxDepth: 3, MaxLoopNest: 2, MaxNodes: 9, TrimPct: 12, ValidPct: 70, ParseErrPct: 45, ErrDensity: 25,
		MissingVarPct: 1, IllTypedPct: 1, BoundaryPct: 3, StrictPct: 6}
}

// ---- kinds and schemas ---------------------------------------------------------------------

type vkind int

const (
	kAny  vkind = iota
	kNil        // nil
	kBool       // bool
	kInt        // Go int, small: safe as range endpoint, limit, offset, cols, index
	kNum        // any number (float64/float32/int64/uint8..., possibly huge)
	kStr        // string
	kArr        // array of mixed scalars (may contain nil)
	kArrN       // array of small Go ints
	kArrS       // array of strings
	kArrO       // array of objects
	kMap        // string-keyed map of scalars
	kObj        // object: string-keyed map with fields name,title,n,price,tags,flag,author
	kPair       // [key, value] pair (iteration over a map)
	kTime       // time.Time
	kOdd        // drop, pointer, struct, MapSlice, int-keyed map, range, bytes, IterationKeyedMap, nested arrays
	nKinds
)

var kindNames = [...]string{"any", "nil", "bool", "int", "num", "str", "arr", "arrN", "arrS", "arrO", "map", "obj", "pair", "time", "odd"}

// A SchemaVar is one variable of an environment schema.
type SchemaVar struct {
	Name string
	Kind vkind
	Odd  int // which odd representation (kOdd only)
}

// Schema: the variables shared by a family of environments.
type Schema []SchemaVar

var schemaPool = []SchemaVar{
	{"n", kInt, 0}, {"k", kInt, 0}, {"count", kInt, 0},
	{"price", kNum, 0}, {"big", kNum, 0}, {"ratio", kNum, 0},
	{"s", kStr, 0}, {"title", kStr, 0}, {"csv", kStr, 0}, {"text", kStr, 0},
	{"nums", kArrN, 0}, {"ids", kArrN, 0}, {"words", kArrS, 0}, {"names", kArrS, 0}, {"items", kArr, 0},
	{"posts", kArrO, 0}, {"products", kArrO, 0},
	{"m", kMap, 0}, {"cfg", kMap, 0}, {"page", kObj, 0}, {"site", kObj, 0},
	{"flag", kBool, 0}, {"nilv", kNil, 0}, {"tm", kTime, 0},
}

const nOdd = 12

var oddNames = [nOdd]string{"drop", "mi", "ms", "keyed", "rng", "ptr", "st", "by", "nested", "dropa", "rrng", "mf"}

// GenSchema chooses the variables of an environment.
func GenSchema(g *RNG, o TmplOpts) Schema {
	var sc Schema
	have := map[vkind]bool{}
	for _, v := range schemaPool {
		p := 55
		if o.MapHeavy && (v.Kind == kMap || v.Kind == kObj) {
			p = 95
		}
		if o.ArrayHeavy && (v.Kind == kArrN || v.Kind == kArrS || v.Kind == kArr || v.Kind == kArrO) {
			p = 90
		}
		if g.Chance(p) {
			sc = append(sc, v)
			have[v.Kind] = true
		}
	}
	// at least one of each main kind, so that well-typed choices exist
	for _, must := range []string{"n", "price", "s", "nums", "words", "posts", "m", "page"} {
		for _, v := range schemaPool {
			if v.Name == must && !have[v.Kind] {
				sc = append(sc, v)
				have[v.Kind] = true
			}
		}
	}
	nodd := g.Intn(3)
	seen := map[int]bool{}
	for i := 0; i < nodd; i++ {
		k := g.Intn(nOdd)
		if !seen[k] {
			seen[k] = true
			sc = append(sc, SchemaVar{oddNames[k], kOdd, k})
		}
	}
	sort.SliceStable(sc, func(i, j int) bool { return sc[i].Name < sc[j].Name })
	return sc
}

var genStrings = []string{"", "a", "hello", "Hello World", "  padded  ", "a,b,c", "x y  z", "héllo wörld", "日本語", "😀 ok", "<b>bold</b> & \"q\"",
	"line1\nline2", "42", "3.5", "-7", "a%20b+c", "100%", "UPPER lower", "tab\there", "one two three four five six seven", "&amp;&lt;", "a-b_c", "é"}

var genWords = []string{"apple", "Banana", "cherry", "date", "Elder", "fig", "zebra", "apple", "b", "A", "10", "9", "é", ""}

var genKeys = []string{"a", "b", "c", "d", "e", "f", "g", "h", "k1", "k2", "k10", "name", "size", "first", "x y", "Z", "é"}

func smallInt(g *RNG) int64 {
	return []int64{0, 1, 2, 3, 4, 5, 6, 7, 8, 2, 3, 1, -1, -2, 10, 12}[g.Intn(16)]
}

func genScalar(g *RNG) *V {
	switch g.Intn(6) {
	case 0:
		return VInt(0, smallInt(g))
	case 1:
		return VStr(g.Pick(genStrings))
	case 2:
		return VFlt(1, float64(g.Intn(41)-20)/4)
	case 3:
		return VBool(g.Bool())
	case 4:
		return VStr(g.Pick(genWords))
	default:
		return VInt(0, smallInt(g))
	}
}

func genObj(g *RNG, depth int) *V {
	var kvs [][2]*V
	add := func(p int, k string, f func() *V) {
		if g.Chance(p) {
			kvs = append(kvs, SKV(k, f()))
		}
	}
	add(90, "name", func() *V { return VStr(g.Pick(genWords)) })
	add(75, "title", func() *V { return VStr(g.Pick(genStrings)) })
	add(85, "n", func() *V { return VInt(0, smallInt(g)) })
	add(60, "price", func() *V { return VFlt(1, float64(g.Intn(400))/4) })
	add(60, "tags", func() *V { return genValue(g, TmplOpts{}, SchemaVar{Kind: kArrS}) })
	add(50, "flag", func() *V { return VBool(g.Bool()) })
	if depth > 0 {
		add(50, "author", func() *V { return genObj(g, depth-1) })
	}
	add(10, "missing", VNil)
	return VStrMap(kvs...)
}

// genValue builds a value of the kind a schema variable asks for.
func genValue(g *RNG, o TmplOpts, sv SchemaVar) *V {
	n := g.Intn(7) // array length 0..6
	if g.Chance(60) {
		n = 2 + g.Intn(4)
	}
	switch sv.Kind {
	case kNil:
		return VNil()
	case kBool:
		return VBool(g.Bool())
	case kInt:
		return VInt(0, smallInt(g))
	case kNum:
		switch g.Intn(10) {
		case 0:
			return VInt(4, []int64{1 << 53, (1 << 53) + 1, -(1 << 53) - 1, 9223372036854775807, -9223372036854775808, 1000000}[g.Intn(6)])
		case 1:
			return VInt(6, int64(g.Intn(256)))
		case 2:
			return VFlt(0, float64(g.Intn(17)-8)/2)
		case 3:
			return VInt(3, int64(g.Intn(200000)-100000))
		case 4:
			return VFlt(1, []float64{0, 1e15, 0.1, 1e-7, 123456.789, -0.5}[g.Intn(6)])
		case 5:
			return VInt(0, smallInt(g))
		default:
			return VFlt(1, float64(g.Intn(801)-400)/4)
		}
	case kStr:
		return VStr(g.Pick(genStrings))
	case kArrN:
		xs := make([]*V, n)
		for i := range xs {
			xs[i] = VInt(0, smallInt(g))
		}
		switch g.Intn(5) {
		case 0:
			return VSlice(TInt(0), xs...)
		case 1:
			return VArr(TInt(0), xs...)
		}
		if n > 0 && g.Chance(6) {
			xs[g.Intn(n)] = VNil()
		}
		return VAnys(xs...)
	case kArrS:
		xs := make([]*V, n)
		for i := range xs {
			xs[i] = VStr(g.Pick(genWords))
		}
		if g.Chance(25) {
			return VSlice(TStr, xs...)
		}
		if n > 0 && g.Chance(5) {
			xs[g.Intn(n)] = VNil()
		}
		return VAnys(xs...)
	case kArr:
		xs := make([]*V, n)
		for i := range xs {
			xs[i] = genScalar(g)
			if g.Chance(8) {
				xs[i] = VNil()
			}
		}
		switch g.Intn(8) {
		case 0:
			fs := make([]*V, n)
			for i := range fs {
				fs[i] = VFlt(1, float64(g.Intn(41)-20)/4)
			}
			return VSlice(TFlt(1), fs...)
		case 1:
			is := make([]*V, n)
			for i := range is {
				is[i] = VInt(4, smallInt(g))
			}
			return VSlice(TInt(4), is...)
		}
		return VAnys(xs...)
	case kArrO:
		if n > 5 {
			n = 5
		}
		xs := make([]*V, n)
		for i := range xs {
			xs[i] = genObj(g, 1)
		}
		return VAnys(xs...)
	case kObj:
		return genObj(g, 1)
	case kMap:
		cnt := g.Intn(5)
		if o.MapHeavy {
			cnt = 2 + g.Intn(11) // 2..12
		}
		keys := append([]string{}, genKeys...)
		for i := len(keys) - 1; i > 0; i-- {
			j := g.Intn(i + 1)
			keys[i], keys[j] = keys[j], keys[i]
		}
		if cnt > len(keys) {
			cnt = len(keys)
		}
		rep := g.Intn(6)
		var kvs [][2]*V
		for _, k := range keys[:cnt] {
			switch rep {
			case 0:
				kvs = append(kvs, SKV(k, VInt(0, smallInt(g))))
			case 1:
				kvs = append(kvs, SKV(k, VStr(g.Pick(genWords))))
			default:
				kvs = append(kvs, SKV(k, genScalar(g)))
			}
		}
		switch rep {
		case 0:
			return VMap(TStr, TInt(0), kvs...)
		case 1:
			return VMap(TStr, TStr, kvs...)
		}
		return VStrMap(kvs...)
	case kTime:
		return VTime([]int64{0, 1577934245, 951782400, 1709210096, -86400}[g.Intn(5)])
	case kOdd:
		i := func(x int64) *V { return VInt(0, x) }
		switch sv.Odd {
		case 0:
			return VDrop(genScalar(g))
		case 1: // int-keyed map
			return VMap(TInt(0), TAny, KV(i(1), VStr("one")), KV(i(2), VStr("two")))
		case 2:
			return VMapSlice(SKV("a", i(1)), SKV("b", VStr("x")), SKV("c", i(3)))
		case 3:
			return VKeyed(Field{"k1", i(1)}, Field{"k2", VStr("v")}, Field{"k0", i(0)})
		case 4:
			a := smallInt(g)
			return VRange(a, a+int64(g.Intn(5)))
		case 5:
			return VPtr(genScalar(g))
		case 6:
			return VStruct(Field{"name", VStr(g.Pick(genWords))}, Field{"n", i(smallInt(g))})
		case 7:
			return VBytes(g.Pick(genStrings))
		case 8:
			return VAnys(VAnys(i(1), i(2)), VAnys(VStr("a")), VAnys())
		case 9:
			return VDrop(VAnys(i(3), i(1), i(2)))
		case 10: // reversed (empty) range
			a := smallInt(g)
			return VRange(a+1+int64(g.Intn(4)), a)
		default: // map with non-string keys of another sort
			return VMap(TFlt(1), TAny, KV(VFlt(1, 1.5), i(1)))
		}
	}
	return genScalar(g)
}

// GenEnv builds an environment for a schema.
func GenEnv(g *RNG, o TmplOpts, sc Schema) map[string]*V {
	env := make(map[string]*V, len(sc))
	for _, sv := range sc {
		env[sv.Name] = genValue(g, o, sv)
	}
	if len(o.Includes) > 0 {
		n := len(o.Includes)
		if n > 3 && !g.Chance(10) {
			n = 3
		}
		env["inc"] = VStr(o.Includes[g.Intn(n)][0])
	}
	return env
}

// ---- generation context -------------------------------------------------------------------

const (
	clsEnv = iota
	clsLoop
	clsPlain
	clsAcc
)

type tvar struct {
	name  string
	kind  vkind
	class int
	idx   int   // plain index
	elem  vkind // element kind of arrays (loop variable kind)
}

const (
	modeValid = iota
	modeParseErr
	modeRenderErr
)

// GenInfo reports what a generated template contains (for the input-distribution histograms).
type GenInfo struct {
	Mode    string
	Tags    map[string]int
	Filters map[string]int
	Errs    []string // injected error constructs
	Ops     map[string]int
}

type gctx struct {
	g         *RNG
	o         TmplOpts
	vars      []tvar
	loopDepth int
	depth     int
	mode      int
	readMax   int  // plain variables with idx < readMax may be read (all when restricted == false)
	restrict  bool // inside the right-hand side / body of a written variable
	nPlain    int
	nAcc      int
	nLoopVar  int
	info      GenInfo
	noEscape  bool // fragment: never emit break/continue outside a loop of its own
}

func newGctx(g *RNG, o TmplOpts, sc Schema) *gctx {
	if o.MaxDepth == 0 {
		o.MaxDepth = 3
	}
	if o.MaxLoopNest == 0 {
		o.MaxLoopNest = 2
	}
	if o.MaxLoopNest > 3 {
		o.MaxLoopNest = 3
	}
	if o.MaxNodes == 0 {
		o.MaxNodes = 9
	}
	c := &gctx{g: g, o: o, info: GenInfo{Tags: map[string]int{}, Filters: map[string]int{}, Ops: map[string]int{}}}
	for _, sv := range sc {
		c.vars = append(c.vars, tvar{name: sv.Name, kind: sv.Kind, class: clsEnv, elem: elemKind(sv.Kind)})
	}
	if len(o.Includes) > 0 {
		c.vars = append(c.vars, tvar{name: "inc", kind: kStr, class: clsEnv})
	}
	return c
}

func elemKind(k vkind) vkind {
	switch k {
	case kArrN:
		return kInt
	case kArrS:
		return kStr
	case kArrO:
		return kObj
	case kMap, kObj:
		return kPair
	}
	return kAny
}

func (c *gctx) tag(name string)    { c.info.Tags[name]++ }
func (c *gctx) filter(name string) { c.info.Filters[name]++ }
func (c *gctx) op(name string)     { c.info.Ops[name]++ }
func (c *gctx) errc(name string)   { c.info.Errs = append(c.info.Errs, name) }

// wantErr: should an error construct of the given phase be injected at this site?
func (c *gctx) wantErr(parsePhase bool) bool {
	if c.mode == modeValid {
		return false
	}
	if parsePhase != (c.mode == modeParseErr) && !c.g.Chance(15) {
		return false
	}
	return c.g.Intn(1000) < c.o.ErrDensity
}

// kindFits: may a variable of kind have stand where want is asked for?
func (c *gctx) kindFits(have, want vkind) bool {
	if want == kAny || have == want {
		return true
	}
	switch want {
	case kNum:
		return have == kInt
	case kArr:
		return have == kArrN || have == kArrS || have == kArrO || have == kPair
	case kMap:
		return have == kObj
	}
	return false
}

func (c *gctx) readable(v tvar) bool {
	if !c.restrict {
		return true
	}
	switch v.class {
	case clsEnv, clsLoop:
		return true
	case clsPlain:
		return v.idx < c.readMax
	}
	return false
}

var missingNames = []string{"undefined_var", "nope", "missing.field", "x_y", "zz", "forloop"}

// pickVar returns the name of a variable of the wanted kind ("" if there is none).
func (c *gctx) pickVar(want vkind) string {
	if c.g.Chance(c.o.MissingVarPct) {
		return c.g.Pick(missingNames)
	}
	var cands []string
	ill := c.g.Chance(c.o.IllTypedPct)
	for _, v := range c.vars {
		if !c.readable(v) {
			continue
		}
		if ill || c.kindFits(v.kind, want) {
			cands = append(cands, v.name)
			if v.class != clsEnv { // prefer local variables a little
				cands = append(cands, v.name)
			}
		}
	}
	if len(cands) == 0 {
		return ""
	}
	return cands[c.g.Intn(len(cands))]
}

func (c *gctx) varOfKindExists(want vkind) bool {
	for _, v := range c.vars {
		if c.readable(v) && c.kindFits(v.kind, want) {
			return true
		}
	}
	return false
}

// ---- literals ----------------------------------------------------------------------------

func (c *gctx) intLit() string {
	g := c.g
	switch g.Intn(12) {
	case 0:
		return fmt.Sprint(-1 - g.Intn(3))
	case 1:
		return "0"
	case 2:
		return "00" + fmt.Sprint(g.Intn(8)) // leading zeros are decimal
	case 3:
		return fmt.Sprint(9 + g.Intn(4))
	}
	return fmt.Sprint(1 + g.Intn(6))
}

func (c *gctx) floatLit() string {
	g := c.g
	return g.Pick([]string{"1.5", "0.25", "-2.5", "3.0", "10.75", "0.1", "-0.5", "2.0", "100.125", "7.0"})
}

var strLits = []string{"", "a", "b", "abc", "Hello", "x y", ",", " ", "-", "é", "😀", "a,b", "name", "title", "n", "1", "10", "<i>", "&", "50%", "...", "k1", "apple", "o", "l"}

func (c *gctx) strLit() string {
	s := c.g.Pick(strLits)
	return c.quote(s)
}

func (c *gctx) quote(s string) string {
	if strings.Contains(s, `"`) || (c.g.Chance(35) && !strings.Contains(s, "'")) {
		return "'" + s + "'"
	}
	return `"` + s + `"`
}

func (c *gctx) literal(k vkind) string {
	c.op("literal")
	switch k {
	case kInt:
		return c.intLit()
	case kNum:
		if c.g.Bool() {
			return c.floatLit()
		}
		return c.intLit()
	case kStr:
		return c.strLit()
	case kBool:
		return c.g.Pick([]string{"true", "false"})
	case kNil:
		return "nil"
	case kArr, kArrN:
		return c.rangeExpr()
	case kArrS, kArrO, kMap, kObj, kPair, kTime, kOdd:
		return "nil"
	}
	switch c.g.Intn(6) {
	case 0:
		return c.intLit()
	case 1:
		return c.floatLit()
	case 2, 3:
		return c.strLit()
	case 4:
		return c.g.Pick([]string{"true", "false"})
	}
	return "nil"
}

// rangeExpr: (a..b) with small endpoints; the range has at most ~9 items.
func (c *gctx) rangeExpr() string {
	c.op("range")
	g := c.g
	lo := g.Intn(4)
	hi := lo + g.Intn(6)
	a, b := fmt.Sprint(lo), fmt.Sprint(hi)
	switch g.Intn(10) {
	case 0: // variable upper bound (small Go int by the size discipline)
		if v := c.pickVar(kInt); v != "" {
			b = v
		}
	case 1:
		if v := c.pickVar(kInt); v != "" {
			a = v
		}
	case 2:
		if c.loopDepth > 0 {
			b = "forloop.index"
		}
	case 3:
		if v := c.pickVar(kArr); v != "" && c.varClass(v) != clsAcc {
			b = v + ".size"
		}
	case 4:
		if g.Chance(30) { // an empty (descending) range
			a, b = fmt.Sprint(hi+1), fmt.Sprint(lo)
		}
	}
	sp := ""
	if g.Chance(15) {
		sp = " "
	}
	return "(" + a + sp + ".." + sp + b + ")"
}

func (c *gctx) varClass(name string) int {
	for i := len(c.vars) - 1; i >= 0; i-- {
		if c.vars[i].name == name {
			return c.vars[i].class
		}
	}
	return clsEnv
}

func (c *gctx) varKind(name string) (vkind, vkind) {
	for i := len(c.vars) - 1; i >= 0; i-- {
		if c.vars[i].name == name {
			return c.vars[i].kind, c.vars[i].elem
		}
	}
	return kAny, kAny
}

// ---- primary expressions -------------------------------------------------------------------

var objFields = map[vkind][]string{
	kStr:  {"name", "title"},
	kInt:  {"n"},
	kNum:  {"price", "n"},
	kBool: {"flag"},
	kArrS: {"tags"},
	kArr:  {"tags"},
	kObj:  {"author"},
	kMap:  {"author"},
	kAny:  {"name", "title", "n", "price", "tags", "flag", "author", "missing", "size"},
}

func (c *gctx) access(base, field string) string {
	c.op("property")
	if c.g.Chance(20) {
		c.op("index")
		return base + "[" + c.quote(field) + "]"
	}
	return base + "." + field
}

// objectExpr: an expression denoting an object (map with the known fields), or "".
func (c *gctx) objectExpr() string {
	g := c.g
	if v := c.pickVar(kObj); v != "" && g.Chance(60) {
		return v
	}
	if v := c.pickVar(kArrO); v != "" {
		switch g.Intn(4) {
		case 0:
			c.op("property")
			return v + ".first"
		case 1:
			c.op("property")
			return v + ".last"
		case 2:
			c.op("index")
			return v + "[" + fmt.Sprint(g.Intn(3)-1) + "]"
		default:
			c.op("index")
			return v + "[" + c.primary(kInt, 0) + "]"
		}
	}
	return c.pickVar(kObj)
}

// primary: an `expr` of the grammar (no filters, usable as comparison operand / filter argument).
func (c *gctx) primary(k vkind, depth int) string {
	g := c.g
	wasAny := k == kAny
	if k == kAny {
		k = []vkind{kInt, kNum, kStr, kStr, kBool, kArr, kMap, kNil, kArrS, kObj, kInt}[g.Intn(11)]
	}
	// literal?
	litPct := 35
	switch k {
	case kArr, kArrN, kArrS, kArrO, kMap, kObj, kTime, kOdd, kPair:
		litPct = 6
	case kNil:
		litPct = 60
	}
	if depth > 2 || g.Chance(litPct) {
		if k == kArr || k == kArrN {
			if g.Chance(70) {
				return c.rangeExpr()
			}
		} else {
			return c.literal(k)
		}
	}
	// field of an object
	if fs, ok := objFields[k]; ok && g.Chance(25) {
		if o := c.objectExpr(); o != "" {
			return c.access(o, g.Pick(fs))
		}
	}
	switch k {
	case kInt:
		switch g.Intn(8) {
		case 0:
			if c.loopDepth > 0 {
				c.op("forloop")
				return "forloop." + g.Pick([]string{"index", "index0", "rindex", "rindex0", "length"})
			}
		case 1:
			if v := c.pickVar(kArr); v != "" {
				c.op("property")
				return v + ".size"
			}
		case 2:
			if v := c.pickVar(kArrN); v != "" {
				c.op("index")
				return v + "[" + fmt.Sprint(g.Intn(4)-1) + "]"
			}
		case 3:
			if v := c.pickVar(kArrN); v != "" {
				c.op("property")
				return v + "." + g.Pick([]string{"first", "last"})
			}
		case 4:
			if v := c.pickVar(kStr); v != "" {
				c.op("property")
				return v + ".size"
			}
		}
	case kBool:
		if c.loopDepth > 0 && g.Chance(30) {
			c.op("forloop")
			return "forloop." + g.Pick([]string{"first", "last"})
		}
		if depth < 2 && g.Chance(25) {
			c.op("paren")
			return "(" + c.cond(depth+1) + ")"
		}
	case kStr:
		switch g.Intn(8) {
		case 0:
			if v := c.pickVar(kArrS); v != "" {
				c.op("index")
				return v + "[" + fmt.Sprint(g.Intn(4)-1) + "]"
			}
		case 1:
			if v := c.pickVar(kArrS); v != "" {
				c.op("property")
				return v + "." + g.Pick([]string{"first", "last"})
			}
		case 2:
			if v := c.pickVar(kMap); v != "" {
				return c.access(v, g.Pick(genKeys[:10]))
			}
		case 3:
			if v := c.pickVar(kPair); v != "" {
				c.op("index")
				return v + "[0]"
			}
		}
	case kArr, kArrS, kArrN:
		switch g.Intn(10) {
		case 0:
			if o := c.objectExpr(); o != "" {
				return c.access(o, "tags")
			}
		case 1:
			if k != kArrS {
				return c.rangeExpr()
			}
		case 2:
			if (c.o.MapHeavy || g.Chance(10)) && k == kArr {
				if v := c.pickVar(kMap); v != "" {
					return v
				}
			}
		}
		if c.o.MapHeavy && k == kArr && g.Chance(45) {
			if v := c.pickVar(kMap); v != "" {
				return v
			}
		}
	case kMap, kObj:
		if g.Chance(30) {
			if o := c.objectExpr(); o != "" {
				return o
			}
		}
	case kNil:
		return c.g.Pick([]string{"nil", "undefined_var", "nilv"})
	}
	if v := c.pickVar(k); v != "" {
		c.op("var")
		// occasionally index / dereference further
		if wasAny && g.Chance(10) {
			c.op("index")
			return v + "[" + c.primary(kAny, depth+1) + "]"
		}
		return v
	}
	return c.literal(k)
}

// ---- filters -------------------------------------------------------------------------------

type fspec struct {
	name string
	recv vkind
	args []vkind // argument kinds (kAny = any literal)
	min  int     // required arguments
	res  vkind
}

var filterTable = []fspec{
	{"default", kAny, []vkind{kAny}, 1, kAny},
	{"json", kAny, nil, 0, kStr},
	{"inspect", kAny, nil, 0, kStr},
	{"type", kAny, nil, 0, kStr},
	{"compact", kArr, nil, 0, kArr},
	{"concat", kArr, []vkind{kArr}, 1, kArr},
	{"join", kArr, []vkind{kStr}, 0, kStr},
	{"map", kArrO, []vkind{kStr}, 1, kArr},
	{"reverse", kArr, nil, 0, kArr},
	{"sort", kArr, []vkind{kStr}, 0, kArr},
	{"first", kArr, nil, 0, kAny},
	{"last", kArr, nil, 0, kAny},
	{"uniq", kArr, nil, 0, kArr},
	{"sort_natural", kArrS, []vkind{kStr}, 0, kArrS},
	{"date", kTime, []vkind{kStr}, 0, kStr},
	{"abs", kNum, nil, 0, kNum},
	{"ceil", kNum, nil, 0, kNum},
	{"floor", kNum, nil, 0, kNum},
	{"modulo", kNum, []vkind{kNum}, 1, kNum},
	{"minus", kNum, []vkind{kNum}, 1, kNum},
	{"plus", kNum, []vkind{kNum}, 1, kNum},
	{"times", kNum, []vkind{kNum}, 1, kNum},
	{"divided_by", kNum, []vkind{kNum}, 1, kNum},
	{"round", kNum, []vkind{kInt}, 0, kNum},
	{"size", kAny, nil, 0, kInt},
	{"append", kStr, []vkind{kStr}, 1, kStr},
	{"capitalize", kStr, nil, 0, kStr},
	{"downcase", kStr, nil, 0, kStr},
	{"escape", kStr, nil, 0, kStr},
	{"escape_once", kStr, nil, 0, kStr},
	{"newline_to_br", kStr, nil, 0, kStr},
	{"prepend", kStr, []vkind{kStr}, 1, kStr},
	{"remove", kStr, []vkind{kStr}, 1, kStr},
	{"remove_first", kStr, []vkind{kStr}, 1, kStr},
	{"replace", kStr, []vkind{kStr, kStr}, 2, kStr},
	{"replace_first", kStr, []vkind{kStr, kStr}, 2, kStr},
	{"slice", kStr, []vkind{kInt, kInt}, 1, kStr},
	{"split", kStr, []vkind{kStr}, 1, kArrS},
	{"strip_html", kStr, nil, 0, kStr},
	{"strip_newlines", kStr, nil, 0, kStr},
	{"strip", kStr, nil, 0, kStr},
	{"lstrip", kStr, nil, 0, kStr},
	{"rstrip", kStr, nil, 0, kStr},
	{"truncate", kStr, []vkind{kInt, kStr}, 0, kStr},
	{"truncatewords", kStr, []vkind{kInt, kStr}, 0, kStr},
	{"upcase", kStr, nil, 0, kStr},
	{"url_encode", kStr, nil, 0, kStr},
	{"url_decode", kStr, nil, 0, kStr},
}

// generatorFilterNames lists the filters the generator knows (the robust stream reports a
// registered filter the generator does not know).
func generatorFilterNames() []string {
	out := make([]string, len(filterTable))
	for i, f := range filterTable {
		out[i] = f.name
	}
	return out
}

// filtersYielding: indices into filterTable whose result fits want.
func (c *gctx) filtersYielding(want vkind) []int {
	var out []int
	for i, f := range filterTable {
		if want == kAny || f.res == want || (want == kNum && f.res == kInt) || (want == kArr && (f.res == kArrS)) ||
			(f.name == "default" && want != kInt && want != kTime) ||
			((f.name == "first" || f.name == "last") && (want == kStr || want == kNum || want == kObj)) {
			out = append(out, i)
		}
	}
	return out
}

var boundaryInts = []string{"0", "-1", "-5", "50", "1000", "1001", "2000", "99999", "2147483648", "9223372036854775807", "-9223372036854775808"}

// filterArg: an argument expression of the wanted kind, safe with respect to the size discipline.
func (c *gctx) filterArg(f fspec, i int, depth int) string {
	g := c.g
	k := f.args[i]
	switch {
	case f.name == "map" || (f.name == "sort" || f.name == "sort_natural") && i == 0:
		return c.quote(g.Pick([]string{"name", "n", "title", "price", "missing", "tags"}))
	case f.name == "date":
		return c.quote(g.Pick([]string{"%Y-%m-%d", "%H:%M:%S", "%a, %b %d, %y", "%B %e, %Y", "%j", "%y%m%d", "%%", "%A %I %p", "%d/%m/%Y", "plain"}))
	case f.name == "divided_by" || f.name == "modulo":
		if v := c.pickVar(kNum); v != "" && g.Chance(15) {
			return v // may be zero: a genuine division by zero now and then
		}
		return g.Pick([]string{"2", "3", "4", "1.5", "0.25", "-2", "10", "7"})
	case f.name == "round":
		if v := c.pickVar(kInt); v != "" && g.Chance(20) {
			return v
		}
		return g.Pick([]string{"0", "1", "2", "3", "-1"})
	case (f.name == "truncate" || f.name == "truncatewords") && i == 0:
		if g.Chance(c.o.BoundaryPct) {
			c.op("boundary-arg")
			return g.Pick(boundaryInts)
		}
		return fmt.Sprint(g.Intn(14))
	case f.name == "slice":
		if g.Chance(c.o.BoundaryPct) {
			c.op("boundary-arg")
			return g.Pick(boundaryInts)
		}
		if i == 0 {
			return fmt.Sprint(g.Intn(6) - 2)
		}
		return fmt.Sprint(g.Intn(5))
	case f.name == "split":
		return c.quote(g.Pick([]string{",", " ", "", "a", "-", ", ", "\n"[:0] + "l", "é"}))
	case f.name == "default":
		return c.primary(k, depth+1)
	}
	if k == kInt && g.Chance(c.o.BoundaryPct) {
		c.op("boundary-arg")
		return g.Pick(boundaryInts)
	}
	return c.primary(k, depth+1)
}

// applyFilter appends `| name: args` to src.
func (c *gctx) applyFilter(src string, f fspec, depth int) string {
	g := c.g
	c.filter(f.name)
	nargs := f.min
	for nargs < len(f.args) && g.Chance(55) {
		nargs++
	}
	var args []string
	for i := 0; i < nargs; i++ {
		args = append(args, c.filterArg(f, i, depth))
	}
	if c.wantErr(false) { // render-phase error constructs at a filter site
		switch g.Intn(6) {
		case 0:
			c.errc("unknown-filter")
			return src + " | " + g.Pick([]string{"nofilter", "upcas", "Append", "size2", "money", "x"})
		case 1:
			c.errc("parity")
			args = append(args, c.literal(kAny), c.literal(kAny), c.literal(kAny))
		case 2:
			if f.name == "divided_by" || f.name == "modulo" {
				c.errc("div-zero")
				args = []string{g.Pick([]string{"0", "0.0", "nil", "\"x\""})}
			} else {
				c.errc("type-error-arg")
				args = []string{g.Pick([]string{"\"x\"", "nil", "true", "(1..2)"})}
				for len(args) < f.min {
					args = append(args, "nil")
				}
			}
		case 3:
			c.errc("div-zero")
			c.filter("divided_by")
			return src + " | divided_by: " + g.Pick([]string{"0", "0.0"})
		case 4:
			c.errc("type-error-recv")
			c.filter("plus")
			return "\"abc\" | plus: 1"
		default:
			c.errc("boundary-arg")
			for i := range args {
				if f.args[i] == kInt || f.args[i] == kNum {
					args[i] = g.Pick(boundaryInts)
				}
			}
		}
	}
	sp := " "
	if g.Chance(8) {
		sp = ""
	}
	out := src + sp + "|" + sp + f.name
	if len(args) > 0 {
		out += ":" + sp + strings.Join(args, ","+sp)
	}
	return out
}

// filtered: a `filtered` of the grammar yielding (mostly) the wanted kind.
func (c *gctx) filtered(want vkind, depth int) string {
	g := c.g
	if depth > 2 || g.Chance(45) {
		return c.primary(want, depth)
	}
	if want == kAny {
		want = []vkind{kStr, kStr, kNum, kArr, kInt, kAny}[g.Intn(6)]
	}
	cands := c.filtersYielding(want)
	if len(cands) == 0 {
		return c.primary(want, depth)
	}
	f := filterTable[cands[g.Intn(len(cands))]]
	if f.name == "date" && !c.varOfKindExists(kTime) {
		// date on a literal date string
		lits := []string{"2020-01-02", "2006-01-02T15:04:05Z", "March 14, 2016", "2019-12-31 23:59:59 +0000", "not a date"}
		if c.mode == modeValid {
			lits = lits[:4]
		}
		return c.applyFilter(c.quote(g.Pick(lits)), f, depth)
	}
	recvKind := f.recv
	if f.name == "default" {
		recvKind = want
		f.args = []vkind{want}
	}
	if f.name == "size" {
		recvKind = []vkind{kArr, kStr, kArrS, kMap}[g.Intn(4)]
	}
	if (f.name == "first" || f.name == "last") && want != kAny {
		switch want {
		case kStr:
			recvKind = kArrS
		case kNum:
			recvKind = kArrN
		case kMap, kObj:
			recvKind = kArrO
		}
	}
	var recv string
	if g.Chance(40) {
		recv = c.filtered(recvKind, depth+1)
	} else {
		recv = c.primary(recvKind, depth+1)
	}
	return c.applyFilter(recv, f, depth)
}

// ---- conditions ----------------------------------------------------------------------------

var cmpOps = []string{"==", "!=", "<", ">", "<=", ">="}

func (c *gctx) rel(depth int) string {
	g := c.g
	switch g.Intn(14) {
	case 0, 1, 2:
		k := []vkind{kNum, kInt, kNum}[g.Intn(3)]
		op := g.Pick(cmpOps)
		c.op(op)
		return c.primary(k, depth+1) + " " + op + " " + c.primary(k, depth+1)
	case 3, 4:
		op := g.Pick(cmpOps)
		c.op(op)
		return c.primary(kStr, depth+1) + " " + op + " " + c.primary(kStr, depth+1)
	case 5:
		c.op("contains")
		return c.primary(kStr, depth+1) + " contains " + c.primary(kStr, depth+1)
	case 6:
		c.op("contains")
		if g.Bool() {
			return c.primary(kArrS, depth+1) + " contains " + c.primary(kStr, depth+1)
		}
		return c.primary(kArrN, depth+1) + " contains " + c.primary(kInt, depth+1)
	case 7:
		c.op("contains")
		return c.primary(kMap, depth+1) + " contains " + c.quote(g.Pick(genKeys[:8]))
	case 8:
		op := g.Pick([]string{"==", "!="})
		c.op(op)
		return c.primary(kAny, depth+1) + " " + op + " " + g.Pick([]string{"nil", "empty", "blank", "false", "true"})
	case 9:
		op := g.Pick(cmpOps)
		c.op(op)
		return c.primary(kAny, depth+1) + " " + op + " " + c.primary(kAny, depth+1)
	case 10:
		op := g.Pick([]string{"==", "!="})
		c.op(op)
		k := []vkind{kArr, kArrN, kMap, kArrS}[g.Intn(4)]
		return c.primary(k, depth+1) + " " + op + " " + c.primary(k, depth+1)
	case 11:
		return c.filtered(kAny, depth+1) // truthiness of a filtered value
	default:
		return c.primary([]vkind{kBool, kAny, kBool, kStr, kNil}[g.Intn(5)], depth+1)
	}
}

// cond: rel ((and|or) rel)*
func (c *gctx) cond(depth int) string {
	out := c.rel(depth)
	for n := 0; n < 2 && c.g.Chance(22); n++ {
		op := c.g.Pick([]string{"and", "or"})
		c.op(op)
		out += " " + op + " " + c.rel(depth)
	}
	return out
}

// ---- text ----------------------------------------------------------------------------------

var textBits = []string{"Hello", "world", " ", " ", "\n", "  ", "\n\n", "\t", ", ", ".", "<p>", "</p>", "<br/>", "item", ":", "-", "é", "日本", "😀", "x", "=",
	"a b", " - ", "\r\n", "&amp;", "{ }", "}", "%", "}}", "1", "total", "(", ")", " \n ", "{x"}

func (c *gctx) text() string {
	g := c.g
	var sb strings.Builder
	n := 1 + g.Intn(4)
	for i := 0; i < n; i++ {
		sb.WriteString(g.Pick(textBits))
	}
	out := sb.String()
	// whitespace at the edges makes the trim markers observable
	if g.Chance(40) {
		out = g.Pick([]string{" ", "\n", "  \n", "\t"}) + out + g.Pick([]string{" ", "\n", " \n  ", ""})
	}
	if strings.HasSuffix(out, "{") && c.mode != modeParseErr {
		out += " " // "{" + "{{" would open an object early
	}
	return out
}

// delimiters with optional trim markers and variable inner spacing
func (c *gctx) obj(inner string) string {
	l, r := "{{", "}}"
	if c.g.Chance(c.o.TrimPct) {
		l = "{{-"
		c.op("trim")
	}
	if c.g.Chance(c.o.TrimPct) {
		r = "-}}"
		c.op("trim")
	}
	sp1, sp2 := " ", " "
	if c.g.Chance(6) {
		sp1 = ""
	}
	if c.g.Chance(6) {
		sp2 = ""
	}
	if c.g.Chance(3) {
		sp1 = "\n  "
	}
	return l + sp1 + inner + sp2 + r
}

func (c *gctx) tg(name, args string) string {
	l, r := "{%", "%}"
	if c.g.Chance(c.o.TrimPct) {
		l = "{%-"
		c.op("trim")
	}
	if c.g.Chance(c.o.TrimPct) {
		r = "-%}"
		c.op("trim")
	}
	sp1, sp2 := " ", " "
	if c.g.Chance(5) {
		sp1 = ""
	}
	if c.g.Chance(5) {
		sp2 = ""
	}
	if args != "" {
		args = " " + args
	}
	return l + sp1 + name + args + sp2 + r
}

// ---- nodes ---------------------------------------------------------------------------------

func (c *gctx) seq(maxNodes int) string {
	n := 1 + c.g.Intn(maxNodes)
	var sb strings.Builder
	for i := 0; i < n; i++ {
		sb.WriteString(c.node())
	}
	return sb.String()
}

func (c *gctx) innerSeq() string {
	c.depth++
	defer func() { c.depth-- }()
	m := c.o.MaxNodes / (c.depth + 1)
	if m < 2 {
		m = 2
	}
	return c.seq(m)
}

func (c *gctx) node() string {
	g := c.g
	if c.wantErr(true) {
		return c.parseErrNode()
	}
	if c.wantErr(false) {
		return c.renderErrNode()
	}
	canNest := c.depth < c.o.MaxDepth
	canLoop := canNest && c.loopDepth < c.o.MaxLoopNest
	r := g.Intn(100)
	if c.o.MapHeavy && g.Chance(30) {
		return c.mapConsumer()
	}
	if c.o.ArrayHeavy && g.Chance(30) {
		return c.arrayConsumer()
	}
	switch {
	case r < 26:
		return c.text()
	case r < 52:
		c.tag("object")
		return c.obj(c.filtered(kAny, 0))
	case r < 59:
		return c.assign()
	case r < 62:
		if canNest {
			return c.capture()
		}
	case r < 71:
		if canNest {
			return c.ifTag("if")
		}
	case r < 74:
		if canNest {
			return c.ifTag("unless")
		}
	case r < 78:
		if canNest {
			return c.caseTag()
		}
	case r < 86:
		if canLoop {
			return c.forTag("for")
		}
	case r < 88:
		if canLoop {
			return c.forTag("tablerow")
		}
	case r < 92:
		if c.loopDepth > 0 {
			return c.cycle()
		}
	case r < 94:
		if c.loopDepth > 0 {
			return c.breakContinue()
		}
	case r < 96:
		c.tag("comment")
		return c.tg("comment", "") + c.commentBody() + c.tg("endcomment", "")
	case r < 98:
		c.tag("raw")
		return c.tg("raw", "") + c.rawBody() + c.tg("endraw", "")
	default:
		if len(c.o.Includes) > 0 && !c.restrict {
			return c.include()
		}
	}
	c.tag("object")
	return c.obj(c.filtered(kAny, 0))
}

func (c *gctx) commentBody() string {
	return c.g.Pick([]string{"", " note ", "{{ x }}", "{% if %}", "text {% assign y = 1 %} more", "\n", "{% endfor %}", "{{ 'a' | nofilter }}"})
}

func (c *gctx) rawBody() string {
	return c.g.Pick([]string{"", " {{ x }} ", "{% if a %}", "{{- y -}}", "}} { ", " plain ", "{% endif %}\n", "{{ 1 | plus: 2 }}", "{%- comment -%}", "{% raw %}"})
}

func (c *gctx) include() string {
	c.tag("include")
	n := len(c.o.Includes)
	if c.mode == modeValid && n > 3 {
		n = 3 // the layout's deliberately broken files come after the first three
	}
	f := c.o.Includes[c.g.Intn(n)]
	if c.g.Chance(20) {
		return c.tg("include", "inc")
	}
	return c.tg("include", c.quote(f[0]))
}

// assign: plain variable or accumulator.
func (c *gctx) assign() string {
	g := c.g
	c.tag("assign")
	if c.restrict { // inside a capture body: only plain assigns reading lower variables
		return c.plainAssign()
	}
	if g.Chance(25) {
		return c.accAssign()
	}
	return c.plainAssign()
}

func (c *gctx) plainAssign() string {
	g := c.g
	// choose the target: a new plain variable, or an existing one
	idx := c.nPlain
	name := fmt.Sprintf("x%d", idx)
	isNew := true
	if c.nPlain > 0 && g.Chance(25) {
		idx = g.Intn(c.nPlain)
		name = fmt.Sprintf("x%d", idx)
		isNew = false
	}
	// right-hand side reads env, loop vars, and plain variables below idx
	savedR, savedM := c.restrict, c.readMax
	if !c.restrict || idx < c.readMax {
		c.readMax = idx
	}
	c.restrict = true
	kind := []vkind{kInt, kNum, kStr, kStr, kArr, kArrS, kBool, kAny, kMap}[g.Intn(9)]
	var rhs string
	switch {
	case kind == kBool && g.Chance(60):
		rhs = c.cond(1)
	case kind == kInt:
		if g.Chance(70) {
			rhs = c.primary(kInt, 1)
		} else {
			rhs = c.primary([]vkind{kArr, kStr}[g.Intn(2)], 1) + " | size"
			c.filter("size")
		}
	default:
		rhs = c.filtered(kind, 0)
	}
	c.restrict, c.readMax = savedR, savedM
	if isNew {
		c.nPlain++
		c.vars = append(c.vars, tvar{name: name, kind: kind, class: clsPlain, idx: idx, elem: elemKind(kind)})
	} else {
		for i := range c.vars {
			if c.vars[i].name == name {
				c.vars[i].kind, c.vars[i].elem = kAny, kAny // reassigned: kind unknown on some paths
				if c.loopDepth == 0 && c.depth == 0 {
					c.vars[i].kind, c.vars[i].elem = kind, elemKind(kind)
				}
			}
		}
	}
	sp := " "
	if g.Chance(6) {
		sp = ""
	}
	return c.tg("assign", name+sp+"="+sp+rhs)
}

// accAssign: acc = acc | <additive op>: <env-only argument>
func (c *gctx) accAssign() string {
	g := c.g
	var name string
	var kind vkind
	// reuse an accumulator or make one
	var accs []tvar
	for _, v := range c.vars {
		if v.class == clsAcc {
			accs = append(accs, v)
		}
	}
	if len(accs) > 0 && g.Chance(70) {
		v := accs[g.Intn(len(accs))]
		name, kind = v.name, v.kind
	} else {
		name = fmt.Sprintf("acc%d", c.nAcc)
		c.nAcc++
		kind = []vkind{kNum, kStr, kArr}[g.Intn(3)]
		c.vars = append(c.vars, tvar{name: name, kind: kind, class: clsAcc})
	}
	saved, savedM := c.restrict, c.readMax
	c.restrict, c.readMax = true, 0 // arguments: env and loop variables only
	var rhs string
	switch kind {
	case kNum:
		f := g.Pick([]string{"plus", "minus", "times"})
		c.filter(f)
		rhs = name + " | " + f + ": " + c.primary(kNum, 1)
	case kStr:
		f := g.Pick([]string{"append", "prepend"})
		c.filter(f)
		rhs = name + " | " + f + ": " + c.primary(kStr, 1)
	default:
		c.filter("concat")
		rhs = name + " | concat: " + c.primary(kArr, 1)
	}
	c.restrict, c.readMax = saved, savedM
	return c.tg("assign", name+" = "+rhs)
}

func (c *gctx) capture() string {
	c.tag("capture")
	idx := c.nPlain
	name := fmt.Sprintf("x%d", idx)
	c.nPlain++
	savedR, savedM := c.restrict, c.readMax
	if !c.restrict || idx < c.readMax {
		c.readMax = idx
	}
	c.restrict = true
	body := c.innerSeq()
	c.restrict, c.readMax = savedR, savedM
	c.vars = append(c.vars, tvar{name: name, kind: kStr, class: clsPlain, idx: idx})
	return c.tg("capture", name) + body + c.tg("endcapture", "")
}

func (c *gctx) block(open string, body func() string, end string) string {
	// parse-phase block damage
	if c.wantErr(true) {
		switch c.g.Intn(4) {
		case 0:
			c.errc("missing-end")
			return open + body()
		case 1:
			c.errc("wrong-end")
			return open + body() + c.tg(c.g.Pick([]string{"endfor", "endif", "endcase", "endunless", "endcapture", "endtablerow", "end"}), "")
		case 2:
			c.errc("extra-end")
			return open + body() + c.tg(end, "") + c.tg(end, "")
		default:
			c.errc("stray-clause")
			return open + body() + c.tg(end, "") + c.tg(c.g.Pick([]string{"else", "elsif x", "when 1", "endfor"}), "")
		}
	}
	return open + body() + c.tg(end, "")
}

func (c *gctx) ifTag(name string) string {
	g := c.g
	c.tag(name)
	open := c.tg(name, c.cond(0))
	return c.block(open, func() string {
		var sb strings.Builder
		sb.WriteString(c.innerSeq())
		if name == "if" {
			for n := 0; n < 2 && g.Chance(25); n++ {
				c.tag("elsif")
				sb.WriteString(c.tg("elsif", c.cond(0)))
				sb.WriteString(c.innerSeq())
			}
		}
		if g.Chance(45) {
			c.tag("else")
			sb.WriteString(c.tg("else", ""))
			sb.WriteString(c.innerSeq())
		}
		return sb.String()
	}, "end"+name)
}

func (c *gctx) caseTag() string {
	g := c.g
	c.tag("case")
	k := []vkind{kInt, kStr, kInt, kAny}[g.Intn(4)]
	open := c.tg("case", c.primary(k, 0))
	return c.block(open, func() string {
		var sb strings.Builder
		if g.Chance(30) {
			sb.WriteString(g.Pick([]string{" ", "\n", "ignored"}))
		}
		nw := 1 + g.Intn(3)
		for i := 0; i < nw; i++ {
			c.tag("when")
			vals := []string{c.literal(k)}
			for g.Chance(30) {
				vals = append(vals, c.primary(k, 1))
			}
			sb.WriteString(c.tg("when", strings.Join(vals, ", ")))
			sb.WriteString(c.innerSeq())
		}
		if g.Chance(50) {
			c.tag("else")
			sb.WriteString(c.tg("else", ""))
			sb.WriteString(c.innerSeq())
		}
		return sb.String()
	}, "endcase")
}

// collection: the iterated expression of a loop and the kind of its elements.
func (c *gctx) collection() (string, vkind) {
	g := c.g
	saved := c.restrict
	_ = saved
	pick := func(k vkind) string {
		// loops never iterate accumulators
		for try := 0; try < 4; try++ {
			v := c.pickVar(k)
			if v == "" || c.varClass(v) != clsAcc {
				return v
			}
		}
		return ""
	}
	r := g.Intn(100)
	if c.o.MapHeavy && g.Chance(50) {
		r = 70
	}
	switch {
	case r < 22:
		return c.rangeExpr(), kInt
	case r < 36:
		if v := pick(kArrN); v != "" {
			_, e := c.varKind(v)
			return v, e
		}
	case r < 50:
		if v := pick(kArrS); v != "" {
			_, e := c.varKind(v)
			return v, e
		}
	case r < 62:
		if v := pick(kArrO); v != "" {
			_, e := c.varKind(v)
			return v, e
		}
	case r < 68:
		if v := pick(kArr); v != "" {
			_, e := c.varKind(v)
			return v, e
		}
	case r < 78:
		if v := pick(kMap); v != "" {
			return v, kPair
		}
	case r < 82:
		if o := c.objectExpr(); o != "" {
			return c.access(o, "tags"), kStr
		}
	case r < 92:
		// a filtered array (never over an accumulator: restrict reads)
		savedR, savedM := c.restrict, c.readMax
		if !c.restrict {
			c.restrict, c.readMax = true, c.nPlain
		}
		k := []vkind{kArr, kArrS, kArr}[g.Intn(3)]
		e := c.filtered(k, 1)
		c.restrict, c.readMax = savedR, savedM
		ek := kAny
		if k == kArrS {
			ek = kStr
		}
		return e, ek
	case r < 95:
		return g.Pick([]string{"nil", "undefined_var", "\"abc\"", "5", "nilv"}), kAny
	}
	if v := pick(kOdd); v != "" && g.Chance(50) {
		return v, kAny
	}
	return c.rangeExpr(), kInt
}

func (c *gctx) forTag(name string) string {
	g := c.g
	c.tag(name)
	coll, ek := c.collection()
	lv := []string{"i", "item", "v", "e", "p"}[c.nLoopVar%5]
	if c.nLoopVar >= 5 {
		lv += fmt.Sprint(c.nLoopVar)
	}
	c.nLoopVar++
	args := lv + " in " + coll
	var mods []string
	if g.Chance(20) {
		mods = append(mods, "reversed")
		c.op("reversed")
	}
	if g.Chance(25) {
		mods = append(mods, "limit:"+g.Pick([]string{"", " "})+c.modArg())
		c.op("limit")
	}
	if g.Chance(20) {
		mods = append(mods, "offset:"+g.Pick([]string{"", " "})+c.modArg())
		c.op("offset")
	}
	if name == "tablerow" && g.Chance(70) {
		mods = append(mods, "cols:"+g.Pick([]string{"", " "})+c.modArg())
		c.op("cols")
	}
	for i := len(mods) - 1; i > 0; i-- {
		j := g.Intn(i + 1)
		mods[i], mods[j] = mods[j], mods[i]
	}
	if len(mods) > 0 {
		args += " " + strings.Join(mods, " ")
	}
	open := c.tg(name, args)
	return c.block(open, func() string {
		c.loopDepth++
		nv := len(c.vars)
		c.vars = append(c.vars, tvar{name: lv, kind: ek, class: clsLoop, elem: elemKind(ek)})
		var sb strings.Builder
		sb.WriteString(c.innerSeq())
		c.vars = append(c.vars[:nv], c.vars[nv+1:]...) // the loop variable goes out of scope; variables assigned inside stay
		c.loopDepth--
		if name == "for" && g.Chance(22) {
			c.tag("else")
			sb.WriteString(c.tg("else", ""))
			sb.WriteString(c.innerSeq())
		}
		return sb.String()
	}, "end"+name)
}

func (c *gctx) modArg() string {
	g := c.g
	if g.Chance(85) {
		return fmt.Sprint(g.Intn(5))
	}
	if g.Chance(c.o.BoundaryPct) {
		return g.Pick(boundaryInts)
	}
	if v := c.pickVar(kInt); v != "" && g.Chance(70) {
		return v
	}
	return c.primary(kInt, 2)
}

func (c *gctx) cycle() string {
	g := c.g
	c.tag("cycle")
	n := 1 + g.Intn(4)
	vals := make([]string, n)
	for i := range vals {
		vals[i] = c.quote(g.Pick([]string{"a", "b", "c", "odd", "even", "", "x y", "1"}))
	}
	args := strings.Join(vals, g.Pick([]string{", ", ","}))
	if g.Chance(35) {
		c.op("cycle-group")
		args = c.quote(g.Pick([]string{"g1", "g2", "", "row"})) + ": " + args
	}
	return c.tg("cycle", args)
}

func (c *gctx) breakContinue() string {
	g := c.g
	name := g.Pick([]string{"break", "continue"})
	c.tag(name)
	if g.Chance(75) && c.depth < c.o.MaxDepth {
		c.tag("if")
		return c.tg("if", c.cond(1)) + c.tg(name, "") + c.tg("endif", "")
	}
	return c.tg(name, "")
}

// mapConsumer: constructs whose result depends on the order in which a Go map is traversed.
func (c *gctx) mapConsumer() string {
	g := c.g
	m := c.pickVar(kMap)
	if m == "" {
		m = "m"
	}
	switch g.Intn(16) {
	case 0, 1:
		c.tag("for")
		mods := g.Pick([]string{"", "", " reversed", " limit:2", " offset:1", " limit: 1 offset: 1", " reversed limit:3"})
		return c.tg("for", "kv in "+m+mods) + c.obj("kv[0]") + "=" + c.obj("kv[1]") + g.Pick([]string{";", " ", "\n"}) + c.tg("endfor", "")
	case 2:
		c.tag("tablerow")
		return c.tg("tablerow", "kv in "+m+g.Pick([]string{"", " cols:2", " cols: 3 limit: 4"})) + c.obj("kv | first") + c.tg("endtablerow", "")
	case 3:
		c.filter("first")
		return c.obj(m + " | first")
	case 4:
		c.filter("last")
		return c.obj(m + " | last")
	case 5:
		c.filter("join")
		return c.obj(m + " | join: " + c.quote(g.Pick([]string{",", " ", "-"})))
	case 6:
		c.filter("map")
		return c.obj(m + " | map: " + c.quote(g.Pick([]string{"name", "a", "size"})) + " | join: ','")
	case 7:
		c.filter("sort")
		return c.obj(m + " | sort | join: ','")
	case 8:
		c.filter("size")
		return c.obj(m+" | size") + c.obj(m+".size")
	case 9:
		c.tag("object")
		return c.obj(m)
	case 10:
		f := g.Pick([]string{"reverse", "uniq", "compact", "sort_natural", "json", "inspect"})
		c.filter(f)
		return c.obj(m + " | " + f + g.Pick([]string{"", " | first", " | join: ';'"}))
	case 11:
		c.filter("concat")
		return c.obj(m + " | concat: " + m + " | join: ','")
	case 12:
		c.tag("assign")
		c.tag("for")
		return c.tg("assign", "srt = "+m+" | sort") + c.tg("for", "e in srt") + c.obj("e") + c.tg("endfor", "")
	case 13:
		c.tag("if")
		return c.tg("if", m+" contains "+c.quote(g.Pick(genKeys[:6]))) + "Y" + c.tg("else", "") + "N" + c.tg("endif", "")
	case 14:
		c.tag("for")
		c.tag("cycle")
		return c.tg("for", "kv in "+m) + c.tg("cycle", "'a','b','c'") + c.obj("forloop.index") + c.obj("kv | last") + c.tg("endfor", "")
	default:
		c.tag("for")
		o := c.pickVar(kObj)
		if o == "" {
			o = m
		}
		return c.tg("for", "kv in "+o) + c.obj("kv[0] | upcase") + c.tg("endfor", "")
	}
}

// arrayConsumer: array filters applied directly to environment-owned slices and maps.
func (c *gctx) arrayConsumer() string {
	g := c.g
	a := c.pickVar([]vkind{kArr, kArrN, kArrS, kArrO, kArr, kMap}[g.Intn(6)])
	if a == "" {
		a = "nums"
	}
	f := g.Pick([]string{"sort", "reverse", "uniq", "concat", "compact", "map", "first", "last", "join", "sort_natural", "sort", "reverse"})
	c.filter(f)
	arg := ""
	switch f {
	case "concat":
		b := c.pickVar(kArr)
		if b == "" {
			b = a
		}
		arg = ": " + b
	case "map":
		arg = ": " + c.quote(g.Pick([]string{"name", "n", "tags"}))
	case "sort", "sort_natural":
		if g.Chance(30) {
			arg = ": " + c.quote(g.Pick([]string{"name", "n", "price"}))
		}
	case "join":
		if g.Chance(60) {
			arg = ": " + c.quote(",")
		}
	}
	tail := g.Pick([]string{"", " | join: ','", " | first", " | size", " | reverse | join: ' '"})
	if g.Chance(30) {
		c.tag("assign")
		c.tag("for")
		return c.tg("assign", "tmp = "+a+" | "+f+arg) + c.tg("for", "q in tmp limit: 6") + c.obj("q") + c.tg("endfor", "") + c.obj(a+" | join: ','")
	}
	return c.obj(a + " | " + f + arg + tail)
}

// ---- error constructs ----------------------------------------------------------------------

var badExprs = []string{"", "a |", "| upcase", "a b", "1 + 2", "a..b", "(1..)", "a[", "a[1", "\"unterminated", "a | append:", "a == b == c",
	"a | upcase == \"A\"", "a.", ".a", "a | : 1", "(a", "a)", "1 2", "a, b", "a | append: 1 2", "!a", "a && b", "a = 1", "x | y | ", "[1]", "'x", "a ? b", "1..2", "..", "a | f: ,"}

// the expression lexer's internal statement selectors, typed by a user (D22)
var selectorExprs = []string{"%assign x = 1", "%loop x in nums", "{%cycle \"a\"", "{%when 1", "%assign y = s | upcase", "%loop i in (1..3) reversed"}

func hugeLiteral(g *RNG) string {
	switch g.Intn(5) {
	case 0:
		return "99999999999999999999"
	case 1:
		return "-99999999999999999999"
	case 2:
		return "9223372036854775808"
	case 3:
		return strings.Repeat("9", 400) + ".5"
	default:
		return "1" + strings.Repeat("0", 30)
	}
}

func (c *gctx) parseErrNode() string {
	g := c.g
	switch g.Intn(20) {
	case 0, 1, 2:
		c.errc("bad-object-expr")
		return c.obj(g.Pick(badExprs))
	case 3:
		c.errc("bad-if")
		return c.tg(g.Pick([]string{"if", "unless", "case"}), g.Pick(badExprs)) + "x" + c.tg(g.Pick([]string{"endif", "endunless", "endcase"}), "")
	case 4:
		c.errc("bad-for")
		return c.tg(g.Pick([]string{"for", "tablerow"}), g.Pick([]string{"", "x", "x in", "in nums", "x in nums foo", "x in nums limit", "x of nums", "x in nums limit: ", "x in nums cols", "1 in nums", "x in nums reversed: 1", "x in (1..3) step: 2"})) +
			"x" + c.tg(g.Pick([]string{"endfor", "endfor", "endtablerow"}), "")
	case 5:
		c.errc("bad-assign")
		return c.tg("assign", g.Pick([]string{"", "x", "x =", "1 = 2", "x = = 1", "= 1", "x 1", "x = 1 |", "x.y = 1", "x = a b", "x == 1"}))
	case 6:
		c.errc("bad-cycle")
		return c.tg("for", "i in (1..2)") + c.tg("cycle", g.Pick([]string{"", "1, 2", "x", "\"a\" \"b\"", "\"a\",", "\"g\": ", ": \"a\"", "\"a\", 2", "nil"})) + c.tg("endfor", "")
	case 7:
		c.errc("bad-when")
		return c.tg("case", "n") + c.tg("when", g.Pick([]string{"", "1 or 2", "1,", ", 1", "| x", "1 2"})) + "x" + c.tg("endcase", "")
	case 8:
		c.errc("unknown-tag")
		return c.tg(g.Pick([]string{"foo", "endfoo", "end", "iff", "increment x", "render 'a'", "echo 1", "liquid", "ifchanged", "endraw", "endcomment"}), "")
	case 9:
		c.errc("stray-clause")
		return c.tg(g.Pick([]string{"else", "elsif x", "when 1", "endif", "endfor", "endcase", "endunless", "endcapture", "endtablerow"}), "")
	case 10:
		c.errc("unclosed-block")
		return c.tg(g.Pick([]string{"if true", "unless n", "for i in nums", "case n", "capture z", "tablerow i in nums", "comment", "raw"}), "") + c.text()
	case 11:
		c.errc("huge-literal")
		h := hugeLiteral(g)
		switch g.Intn(4) {
		case 0:
			return c.obj(h)
		case 1:
			return c.obj("n | plus: " + h)
		case 2:
			return c.tg("if", "n < "+h) + "x" + c.tg("endif", "")
		default:
			return c.tg("assign", "z = "+h)
		}
	case 12:
		c.errc("selector")
		s := g.Pick(selectorExprs)
		switch g.Intn(4) {
		case 0, 1:
			return c.obj(s)
		case 2:
			return c.tg("if", s) + "x" + c.tg("endif", "")
		default:
			return c.tg("assign", "z = "+s)
		}
	case 13:
		c.errc("open-delimiter")
		return g.Pick([]string{"{{ n", "{% if n ", "{{", "{%", "{{ n }", "{% assign z = 1 }", "{{ n %}", "{% n }}"})
	case 14:
		c.errc("elsif-bad")
		return c.tg("if", "n") + "a" + c.tg("elsif", g.Pick(badExprs)) + "b" + c.tg("endif", "")
	case 15:
		c.errc("two-else-for")
		return c.tg("for", "i in nums") + "a" + c.tg("else", "") + "b" + c.tg("else", "") + "c" + c.tg("endfor", "")
	case 16:
		c.errc("filter-on-operand")
		return c.tg("if", "s | size > 2") + "x" + c.tg("endif", "")
	case 17:
		c.errc("bad-filter-arg-syntax")
		return c.obj("s | append: | upcase")
	case 18:
		c.errc("nested-comment")
		return c.tg("comment", "") + c.tg("comment", "") + "x" + c.tg("endcomment", "") + c.tg("endcomment", "")
	default:
		c.errc("string-with-delim")
		return c.obj("\"a }} b\"")
	}
}

func (c *gctx) renderErrNode() string {
	g := c.g
	switch g.Intn(22) {
	case 0, 1:
		c.errc("unknown-filter")
		return c.obj(c.primary(kAny, 1) + " | " + g.Pick([]string{"nofilter", "upcas", "money", "Append: 1", "t"}))
	case 2:
		c.errc("break-outside")
		if c.noEscape {
			return c.tg("for", "i in (1..2)") + c.tg("break", "") + c.tg("endfor", "") + c.obj("1 | nofilter")
		}
		c.tag("break")
		return c.tg(g.Pick([]string{"break", "continue"}), "")
	case 3:
		c.errc("cycle-outside")
		if c.loopDepth > 0 {
			return c.obj("s | nofilter")
		}
		return c.tg("cycle", "\"a\", \"b\"")
	case 4:
		c.errc("div-zero")
		c.filter("divided_by")
		return c.obj(c.primary(kNum, 1) + " | divided_by: " + g.Pick([]string{"0", "0.0", "nilv", "\"a\"", "s"}))
	case 5:
		c.errc("type-error-recv")
		f := g.Pick([]string{"plus: 1", "minus: 2", "times: 2", "abs", "ceil", "round", "first", "last", "join", "sort", "reverse", "date: \"%Y\"", "modulo: 2", "floor"})
		return c.obj(g.Pick([]string{"\"abc\"", "s", "true", "m", "words", "page"}) + " | " + f)
	case 6:
		c.errc("range-type")
		return c.tg("for", "i in "+g.Pick([]string{"(1..\"a\")", "(\"a\"..3)", "(1..2.5)", "(nil..2)", "(1..s)", "(price..3)", "(1..big)", "(true..3)", "(1..nums)"})) + "x" + c.tg("endfor", "")
	case 7:
		c.errc("parity")
		return c.obj(c.primary(kStr, 1) + " | " + g.Pick([]string{"upcase: 1, 2", "size: 1", "append: \"a\", \"b\"", "strip: 1", "first: 1", "join: \",\", 2", "abs: 1"}))
	case 8:
		c.errc("loop-mod-type")
		return c.tg(g.Pick([]string{"for", "tablerow"}), "i in (1..3) "+g.Pick([]string{"limit: \"a\"", "offset: 1.5", "limit: nil", "offset: s", "limit: price", "offset: \"1\"", "limit: true"})) + "x" + c.tg(g.Pick([]string{"endfor", "endtablerow"}), "")
	case 9:
		c.errc("cols-type")
		return c.tg("tablerow", "i in (1..3) cols: "+g.Pick([]string{"\"a\"", "1.5", "s", "nil", "price"})) + "x" + c.tg("endtablerow", "")
	case 10:
		c.errc("include-bad")
		return c.tg("include", g.Pick([]string{"5", "nil", "n", "\"nope.html\"", "\"../x\"", "nums", "undefined_var", "\"\"", "s | nofilter", "\"a\" \"b\""}))
	case 11:
		c.errc("url-decode")
		c.filter("url_decode")
		return c.obj("\"%zz\" | url_decode")
	case 12:
		c.errc("assign-forloop")
		if g.Bool() {
			return c.tg("assign", "forloop = "+c.primary(kAny, 1)) + c.tg("cycle", "\"a\", \"b\"")
		}
		return c.tg("for", "i in (1..2)") + c.tg("assign", "forloop = "+c.primary(kAny, 1)) + c.tg("cycle", "\"a\"") + c.tg("endfor", "")
	case 13:
		c.errc("boundary-slice")
		c.filter("slice")
		return c.obj(c.primary(kStr, 1) + " | slice: " + g.Pick([]string{"5", "10", "1, -1", "-10, 3", "0, 0", "2, 99999999999", "100", "0, -5", "3", "4"}))
	case 14:
		c.errc("boundary-truncate")
		f := g.Pick([]string{"truncate", "truncatewords"})
		c.filter(f)
		return c.obj(c.primary(kStr, 1) + " | " + f + ": " + g.Pick([]string{"2000", "1001", "-1", "0", "1", "99999", "2", "3, \"\"", "-5, \"..\"", "1000"}))
	case 15:
		c.errc("nil-element")
		f := g.Pick([]string{"uniq", "sort_natural", "sort", "compact | uniq", "join", "map: \"name\"", "reverse | uniq"})
		return c.obj(g.Pick([]string{"items", "nums", "words", "nested", "posts"}) + " | " + f + " | join: \",\"")
	case 16:
		c.errc("map-compare")
		return c.tg("if", g.Pick([]string{"m == m", "m == cfg", "page != m", "m == nil", "page == page", "posts == posts", "m == 1", "ms == ms", "mi == mi"})) + "E" + c.tg("else", "") + "N" + c.tg("endif", "")
	case 17:
		c.errc("reversed-range")
		return g.Pick([]string{c.obj("(5..1) | join"), c.tg("for", "i in (5..1)") + "x" + c.tg("else", "") + "E" + c.tg("endfor", ""), c.obj("(3..1) | size"), c.obj("(2..0) | first"), c.obj("rrng | join")})
	case 18:
		c.errc("odd-property")
		return c.obj(g.Pick([]string{"mi.foo", "mi.size", "mi[1]", "mi.first", "mf.a", "mf[1.5]", "ms.a", "ms.size", "keyed.k1", "st.name", "st.nope", "ptr.x", "drop.size", "by.size", "rng.first", "nested[0][1]", "nested.first.last", "page.author.name.size", "m[nil]", "m[m]", "nums[nums]", "nums[1.5]", "nums[\"a\"]", "s[0]", "n.size", "n[0]"}))
	case 19:
		c.errc("for-else-twice")
		return c.tg("for", "i in nums") + "a" + c.tg("else", "") + "b" + c.tg("else", "") + "c" + c.tg("endfor", "")
	case 20:
		c.errc("strict-undefined")
		return c.obj(g.Pick([]string{"undefined_var", "page.nope", "nums[99]", "m.zz", "nilv"}))
	default:
		c.errc("type-error-arg")
		return c.obj(c.primary(kNum, 1) + " | " + g.Pick([]string{"plus: \"x\"", "minus: s", "times: words", "round: \"a\"", "modulo: m", "plus: nil", "times: true"}))
	}
}

// ---- entry points --------------------------------------------------------------------------

// genBody generates the template text for a prepared context.
func (c *gctx) genBody() string {
	g := c.g
	r := g.Intn(100)
	switch {
	case r < c.o.ValidPct:
		c.mode = modeValid
	case g.Chance(c.o.ParseErrPct):
		c.mode = modeParseErr
	default:
		c.mode = modeRenderErr
	}
	c.info.Mode = []string{"valid", "parse-err", "render-err"}[c.mode]
	var parts []string
	n := 2 + g.Intn(c.o.MaxNodes)
	for i := 0; i < n; i++ {
		parts = append(parts, c.node())
	}
	if c.mode != modeValid && len(c.info.Errs) == 0 {
		// force one error construct at a random top-level position
		var e string
		if c.mode == modeParseErr {
			e = c.parseErrNode()
		} else {
			e = c.renderErrNode()
		}
		i := g.Intn(len(parts) + 1)
		parts = append(parts[:i], append([]string{e}, parts[i:]...)...)
	}
	src := strings.Join(parts, "")
	if c.mode == modeParseErr && g.Chance(12) && len(src) > 4 {
		c.errc("truncated")
		src = src[:1+g.Intn(len(src)-1)]
	}
	return src
}

// GenTemplateFor generates one template over the variables of a schema.
func GenTemplateFor(g *RNG, o TmplOpts, sc Schema) (string, GenInfo) {
	c := newGctx(g, o, sc)
	src := c.genBody()
	return src, c.info
}

// GenTemplateInfo generates a schema, an environment and a template, and reports the
// template's constructs.
func GenTemplateInfo(g *RNG, o TmplOpts) (src string, env map[string]*V, info GenInfo) {
	sc := GenSchema(g, o)
	env = GenEnv(g, o, sc)
	src, info = GenTemplateFor(g, o, sc)
	return
}

// GenTemplate: a template and a matching binding environment.
func GenTemplate(g *RNG, o TmplOpts) (src string, env map[string]*V) {
	src, env, _ = GenTemplateInfo(g, o)
	return
}

// GenFragment: a self-contained, error-free fragment over a schema: blocks are balanced and no
// break/continue escapes it (used for include files and as a building block).
func GenFragment(g *RNG, o TmplOpts, sc Schema) string {
	o.ValidPct = 100
	o.Includes = nil
	c := newGctx(g, o, sc)
	c.noEscape = true
	c.mode = modeValid
	return c.seq(c.o.MaxNodes)
}

// GenIncludes builds a small include layout over a schema. File i may include only files
// j < i (no cycles). One file has a syntax error.
func GenIncludes(g *RNG, o TmplOpts, sc Schema) [][2]string {
	names := []string{"head.html", "item.liquid", "sub/foot.html"}
	var out [][2]string
	o.MaxNodes, o.MaxDepth = 4, 2
	for i, n := range names {
		body := GenFragment(g, o, sc)
		if i > 0 && g.Chance(40) {
			body += "{% include \"" + names[g.Intn(i)] + "\" %}"
		}
		out = append(out, [2]string{n, body})
	}
	if g.Chance(30) {
		out = append(out, [2]string{"bad.html", "a\n{{ 1 | }}\n"})
	}
	if g.Chance(30) {
		out = append(out, [2]string{"fail.html", "line1\n{{ 1 | nofilter }}"})
	}
	return out
}
