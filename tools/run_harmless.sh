#!/bin/bash
# usage: run_ref.sh <set letters...> : apply each harmless patch to a scratch worktree and run all quick checks
cd /root/wt/eval
(cd lean && lake build Liquid Proofs liquid_model >/dev/null 2>&1; lake build Liquid Proofs liquid_model 2>&1 | tail -1)
for S in "$@"; do for k in 1 2 3 4; do
  P=/tmp/ref1/$S-out/$k/patch.diff
  [ -f $P ] || continue
  W=/tmp/mw/ref-$S$k
  git -C /repo worktree remove --force $W 2>/dev/null
  git -C /repo worktree add -q --detach $W || continue
  if ! (cd $W && git apply $P); then echo "REF $S$k: patch does not apply"; git -C /repo worktree remove --force $W; continue; fi
  for p in C01 C02 C03 C04 C05 C06 C07 C08 C09 C10 C11 C12 C13 C14 C15 C16 C17 C18 C19 C20; do
    out=$(VERIF_REPO=$W ./check $p --tier quick 2>&1 | grep -E 'VIOLATION|tier=')
    if echo "$out" | grep -q VIOLATION; then echo "REF $S$k $p: $(echo "$out" | tr '\n' ' ' | cut -c1-300)"; fi
  done
  echo "REF $S$k done"
  git -C /repo worktree remove --force $W
done; done
echo REF-BATCH-DONE
