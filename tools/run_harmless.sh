#!/bin/bash
# usage: tools/run_harmless.sh [names...]   (default: every directory of seeded_harmless/)
# Applies each behaviour-preserving change of seeded_harmless/<name>/patch.diff to a scratch worktree of /repo and runs
# all twenty quick checks against it (VERIF_REPO=<worktree>); prints one line per alarm and "<name> done".
# Run it from a copy / worktree of /verif if other checks are running in this one (the checks share .work/ and lean/.lake).
cd "$(dirname "$0")/.."
names="$@"; [ -z "$names" ] && names=$(ls seeded_harmless | grep -v RESULT)
for n in $names; do
  P=$PWD/seeded_harmless/$n/patch.diff
  [ -f "$P" ] || continue
  W=/tmp/mw/harmless-$n
  git -C /repo worktree remove --force $W 2>/dev/null
  git -C /repo worktree add -q --detach $W || continue
  if ! (cd $W && git apply "$P"); then echo "$n: patch does not apply"; git -C /repo worktree remove --force $W; continue; fi
  for p in C01 C02 C03 C04 C05 C06 C07 C08 C09 C10 C11 C12 C13 C14 C15 C16 C17 C18 C19 C20; do
    out=$(VERIF_REPO=$W ./check $p --tier quick 2>&1 | grep -E 'VIOLATION|tier=')
    if echo "$out" | grep -q VIOLATION; then echo "$n $p: $(echo "$out" | tr '\n' ' ' | cut -c1-300)"; fi
  done
  echo "$n done"
  git -C /repo worktree remove --force $W
done
echo HARMLESS-DONE
