#!/usr/bin/env python3
"""Evaluate a seeded change: tools/mut_eval.py <mutation-dir> <name> <prop> [more props...]
Confirms (in a scratch worktree of /repo) that the existing suite passes with the change, that the
demonstration fails with it and passes without it, runs the named checks against the changed copy,
and files the change under /verif/seeded/<name>/ with meta.json."""
import json, os, re, shutil, subprocess, sys, time

ENV = dict(os.environ, GOFLAGS="-mod=mod", GOPROXY="off", GOSUMDB="off", GOTOOLCHAIN="local")
ROOT = os.path.dirname(os.path.dirname(os.path.abspath(__file__)))

def sh(cmd, cwd=None, env=ENV, timeout=3600):
    r = subprocess.run(cmd, shell=True, cwd=cwd, env=env, capture_output=True, text=True, timeout=timeout)
    return r.returncode, (r.stdout + r.stderr)

def main():
    mdir, name, props = sys.argv[1], sys.argv[2], sys.argv[3:]
    wt = f"/tmp/mw/{name}"
    sh(f"git -C /repo worktree remove --force {wt}")
    os.makedirs("/tmp/mw", exist_ok=True)
    rc, out = sh(f"git -C /repo worktree add --detach {wt}")
    assert rc == 0, out
    res = {"name": name, "source": mdir, "properties": props}
    try:
        demos = [f for f in os.listdir(mdir) if f.endswith("_test.go")]
        demo_cmd = None
        if demos:
            src = open(os.path.join(mdir, demos[0])).read()
            pkg = re.search(r"^package (\w+)", src, re.M).group(1)
            tests = re.findall(r"^func (Test\w+)\(", src, re.M)
            # place next to the package it declares: root package liquid / liquid_test, else search
            dest_dir = wt
            if not pkg.startswith("liquid"):
                base = pkg[:-5] if pkg.endswith("_test") else pkg
                if os.path.isdir(os.path.join(wt, base)):
                    dest_dir = os.path.join(wt, base)
            dest = os.path.join(dest_dir, "zz_seeded_demo_test.go")
            meta_txt = open(os.path.join(mdir, "meta.txt")).read() if os.path.exists(os.path.join(mdir, "meta.txt")) else ""
            race = "-race " if re.search(r"go test[^\n]*-race", meta_txt) else ""   # the demonstration says it needs the race detector
            demo_cmd = (dest, src, f"GORACE=halt_on_error=1 go test {race}-count=1 -run '^({'|'.join(tests)})$' .", dest_dir)
        elif os.path.isdir(os.path.join(mdir, "demo")):
            demo_cmd = None
        def run_demo():
            if not demo_cmd:
                return None, "no go test demo"
            dest, src, cmd, d = demo_cmd
            open(dest, "w").write(src)
            rc, out = sh(cmd, cwd=d)
            os.remove(dest)
            return rc, out[-1500:]
        rc0, out0 = run_demo()
        res["demo_without_change"] = {"rc": rc0, "tail": out0[-600:]}
        rc, out = sh(f"git apply {os.path.join(mdir, 'patch.diff')}", cwd=wt)
        res["patch_applies"] = rc == 0
        if rc != 0:
            res["error"] = out[-800:]
            return res
        rc, out = sh("go build ./... && go test -count=1 ./...", cwd=wt)
        res["suite_passes_with_change"] = rc == 0
        if rc != 0:
            res["suite_output"] = out[-1500:]
        rc1, out1 = run_demo()
        res["demo_with_change"] = {"rc": rc1, "tail": out1[-600:]}
        res["confirmed"] = bool(res["suite_passes_with_change"] and rc0 == 0 and rc1 not in (0, None))
        res["checks"] = {}
        for p in props:
            for tier in ("quick", "thorough"):
                t0 = time.time()
                rc, out = sh(f"VERIF_REPO={wt} ./check {p} --tier {tier}", cwd=ROOT)
                lines = [l for l in out.split("\n") if l.startswith("VIOLATION") or l.startswith(p + " tier")]
                res["checks"].setdefault(p, {})[tier] = {"rc": rc, "lines": lines[:3], "wall_s": round(time.time() - t0, 1)}
                if rc != 0:
                    m = re.search(r"replay=(\S+)", out)
                    if m and os.path.exists(m.group(1)):
                        try:
                            rj = json.load(open(m.group(1)))
                            res["checks"][p][tier]["replay"] = {k: rj.get(k) for k in ("kind", "clause", "stream", "case", "detail") if k in rj}
                            if "no_longer_checks" in rj:
                                res["checks"][p][tier]["replay"]["no_longer_checks"] = rj["no_longer_checks"][:2]
                        except Exception:
                            pass
                    break
        res["caught_by"] = [p for p in props if any(t["rc"] != 0 and any(l.startswith("VIOLATION") for l in t["lines"]) for t in res["checks"][p].values())]
        res["caught_with_failing_input"] = [p for p in props if any(t["rc"] != 0 and any(l.startswith("VIOLATION") for l in t["lines"]) and not any("no-failing-input-found" in l for l in t["lines"]) for t in res["checks"][p].values())]
    finally:
        sh(f"git -C /repo worktree remove --force {wt}")
    return res

if __name__ == "__main__":
    r = main()
    name = r["name"]
    if r.get("confirmed"):
        d = os.path.join(ROOT, "seeded", name)
        os.makedirs(d, exist_ok=True)
        for f in os.listdir(r["source"]):
            if os.path.isfile(os.path.join(r["source"], f)) and os.path.realpath(r["source"]) != os.path.realpath(d):
                shutil.copy2(os.path.join(r["source"], f), os.path.join(d, f))
        json.dump(r, open(os.path.join(d, "meta.json"), "w"), indent=1)
    print(json.dumps(r, indent=1)[:4000])
