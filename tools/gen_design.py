#!/usr/bin/env python3
"""Regenerate the generated blocks of DESIGN.md (between <!-- BEGIN GENERATED:x --> and <!-- END GENERATED:x -->)
from the sources of truth: checklib/props (claims, streams, rules, assumptions), lean/ (theorems, sizes),
known_findings.json (defects), seeded/*/meta.json (seeded changes and the checks that catch them).
Usage: tools/gen_design.py            (rewrites DESIGN.md in place; also refreshes THEOREMS.md)"""
import glob, json, os, re, subprocess, sys
ROOT = os.path.dirname(os.path.dirname(os.path.abspath(__file__)))
sys.path.insert(0, ROOT)
from checklib.props import PROPS, LEVEL_TEXT, NOTE
sys.path.insert(0, os.path.join(ROOT, "tools"))
import theorem_index

PROPS_TXT = {json.loads(l)["id"]: json.loads(l) for l in open(os.path.join(ROOT, "properties.jsonl"))}
KNOWN = json.load(open(os.path.join(ROOT, "known_findings.json")))["findings"]


def seeded():
    out = []
    for p in sorted(glob.glob(os.path.join(ROOT, "seeded", "*", "meta.json"))):
        d = json.load(open(p))
        name = d["name"]
        what = ""
        mt = os.path.join(os.path.dirname(p), "meta.txt")
        if os.path.exists(mt):
            for line in open(mt):
                line = line.strip()
                if line and not line.lower().startswith(("change", "mutation", "mutant", "c0", "c1", "c2", "=", "#", "-")):
                    what = line
                    break
            if not what:
                what = open(mt).readline().strip()
        rows = []
        for prop, tiers in d.get("checks", {}).items():
            for tier in ("quick", "thorough"):
                if tier in tiers:
                    r = tiers[tier]
                    rp = r.get("replay") or {}
                    if r["rc"] == 1 and any(l.startswith("VIOLATION") for l in r["lines"]):
                        kind = "failing input" if rp.get("kind", "").startswith("oracle") else "no-failing-input-found"
                        rows.append((prop, tier, kind, rp.get("stream", ""), rp.get("clause", "")))
                        break
                    elif tier == "thorough" or "thorough" not in tiers:
                        if not any(x[0] == prop for x in rows):
                            rows.append((prop, tier, "missed", "", ""))
        out.append((name, d.get("confirmed"), rows, what))
    return out


def gen_seeded():
    lines = ["| seeded change (`seeded/<name>/`) | check | tier that catches it | how | stream / clause |", "|---|---|---|---|---|"]
    for name, confirmed, rows, what in seeded():
        if not rows:
            lines.append(f"| {name} | – | not evaluated | | |")
        for prop, tier, kind, stream, clause in rows:
            lines.append(f"| {name} | {prop} | {tier if kind != 'missed' else '—'} | {kind} | {stream} {('/ ' + clause) if clause else ''} |")
    return "\n".join(lines)


def gen_defects():
    lines = ["| fix commit | property | what failed at the pinned commit |", "|---|---|---|"]
    for k in KNOWN:
        if k.get("status") == "fixed":
            lines.append(f"| `{k['commit']}` | {k['property']} | {k['what'].replace('|', chr(92) + '|')} |")
    known = [k for k in KNOWN if k.get("status") == "known"]
    if known:
        lines += ["", "Recorded, not repaired (printed as `KNOWN-FINDING:`):", ""]
        for k in known:
            lines.append(f"* {k['property']}: {k['what']}")
    return "\n".join(lines)


def gen_props():
    out = []
    sd = seeded()
    for pid in sorted(PROPS):
        P, T, S = PROPS[pid], LEVEL_TEXT[pid], PROPS_TXT[pid]
        out.append(f"### {pid} — {S['title']}")
        out.append("")
        out.append(f"*Claimed level:* `{P.get('level', 'proof')}`. *Deciding technique:* {T['technique']}.")
        out.append("")
        out.append(T["text"])
        note = T.get("note", "").replace(NOTE, "").strip()
        if note:
            out.append("")
            out.append("*Limits / partial:* " + note)
        out.append("")
        nth = 0
        mods = []
        for m in P["modules"]:
            _, ths = theorem_index.theorems(os.path.join(ROOT, "lean", m.replace(".", "/") + ".lean"))
            nth += len(ths)
            mods.append(f"`{m}` ({len(ths)})")
        out.append(f"*Theorem modules (audited with `#print axioms` on every run):* {', '.join(mods)} — {nth} theorems; statements in `THEOREMS.md`.")
        if P.get("obligations"):
            out.append("")
            out.append("*Obligations over tables regenerated from the source on every run (5.4):* " + ", ".join(f"`{o}`" for o in P["obligations"]) + ".")
        out.append("")
        out.append("*Correspondence streams:* " + ", ".join(f"`{s['name']}`" for s in P["streams"]) + ". " + P["rule"])
        if P.get("assumptions"):
            out.append("")
            out.append("*Assumptions / interpretations:*")
            for a in P["assumptions"]:
                out.append(f"* {a}")
        fx = [k for k in KNOWN if k["property"] == pid and k.get("status") == "fixed"]
        if fx:
            out.append("")
            out.append("*Defects found and repaired under this property:* " + "; ".join(f"`{k['commit']}` {k['what']}" for k in fx) + ".")
        mine = [(n, rows) for n, c, rows, w in sd if any(r[0] == pid for r in rows)]
        if mine:
            out.append("")
            out.append("*Seeded changes evaluated against this check:* " + "; ".join(
                f"{n} ({', '.join(r[1] + ': ' + r[2] for r in rows if r[0] == pid)})" for n, rows in mine) + ".")
        out.append("")
    return "\n".join(out)


DESCR = {
    "Basic": "`Bytes`, the `Cause` enum, the panic-aware result `Res` (ok / err / panic / unmodelled), hex codec of the line protocol",
    "Regex": "regular expressions with captures, leftmost-first backtracking matcher in CPS with absolute positions, `search`",
    "Scan": "`parser/scanner.go`: delimiters (`Delims.ofList` defaulting), the token regexp, the match loop with the lexical skip of raw/comment bodies (`endTagRe`, `lexSkip`), hyphen detection, line counting",
    "Parse": "`parser/parser.go` + the block grammar of `tags/standard_tags.go`: zipper stack machine, comment/raw modes, errors",
    "Nest": "declarative nesting grammar (the specification the parser is proved against), printer",
    "Value": "`GoVal`: a Go value *with its representation* (int widths, typed slices, arrays, maps, MapSlice, pointers, drops, structs, time); `ToLiquid`; text codec",
    "Time": "`time.Time` in UTC with whole seconds: the proleptic Gregorian calendar from unix seconds for every integer (`civilOfDays` / `daysOfCivil` over 400-year eras with March-based years, weekday, day of the year, `ISOWeek`, `Broken`), weekday and month names, `values.ParseDate` on the five all-digit layouts and the strings no layout can start on (`parseDate`)",
    "Utf8": "`utf8.DecodeRune`/`DecodeLastRune`/`EncodeRune`, `unicode.IsSpace`, `bytes.TrimLeftFunc/TrimRightFunc`",
    "Unicode": "`unicode.ToUpper` / `unicode.ToLower` on every rune, by lookup in the generated range tables (used by upcase/downcase/capitalize and the keys of sort_natural)",
    "CaseRange": "vocabulary of the case tables: a range `⟨lo, hi, alt, img⟩` moves every (or every second) rune of an interval by the same distance; `caseLookup` (T6)",
    "F64": "floats as exact rationals with IEEE-754 round-to-nearest-even (`roundF64`, `roundF32`)",
    "ExprLex": "`expressions/scanner.rl`: the expression lexer (longest match, keywords, literals, ranges)",
    "ExprParse": "`expressions/expressions.y`: expressions, filters, `%assign`/`%loop`/`%cycle`/`%when` statements (recursive descent with fuel)",
    "ExprShow": "the printer of expression trees: canonical tokens `Expr.toks` with parentheses where a lower grammar level stands in a higher position, canonical lexemes, exact decimal expansion of floats (`showFloat`), `Expr.show`, `Expr.printable` (C08 round trip)",
    "Lookup": "`values`: `IndexValue`, `PropertyValue`, `Test`, int conversion for indices, MapSlice search",
    "Eval": "`expressions` evaluator over `Prims` (comparison, contains, filters)",
    "Compare": "`values/compare.go`, `values/predicates.go`: `Equal`, `Less`, `joinKind`, `contains`, operators",
    "Convert": "`values/convert.go`: conversion to parameter types (a string to a time through `ParseDate`, a time to a string through `Time.String()`), array conversion with `ToLiquid` per element",
    "Call": "`values/call.go` + `expressions/filters.go`: filter registry signatures, arity/parity errors, default-function parameters (lazy)",
    "Sprint": "`fmt.Sprint`/`%v` for the admitted kinds, `strconv` shortest float formatting, `time.Format` of a UTC time for the layouts of `writeObject` and `String()` (`appendInt`: every year), `values.ResolveDrops` (`GoVal.resolveDrops`; `sprintR` = `fmt.Sprint(values.ResolveDrops(·))`, how the library prints a container in Go syntax), `writeObject`",
    "Render": "`render/*.go` + `tags/*.go`: compile to `Node`, interaction tree `Prog` of writer calls, render monad `M`, statuses (break/continue), `wrapError`, if/unless/case, for/tablerow/cycle, assign/capture, include with fuel",
    "TrimWriter": "`render/trimwriter.go` on bytes: `TW.step` with the underlying `Write` calls it issues",
    "TrimGeneric": "the same machine over an arbitrary alphabet (proof vehicle of C13)",
    "Std": "the standard configuration: `stdPrims`, `stdOut`, filter table Num ++ Str ++ Arr ++ Json ++ Date (all 48 registered filters), file-system model, canonical result printing",
    "Conc": "interleaving machine over a store with ownership regions (C04)",
    "ConcFacts": "the store facts (`WriteFact.offending`: the statically checked necessary condition of C04's ownership premise) and the call facts (`auditedGlobalCalls`: the five audited read-only package-level variables) over the generated write table",
    "MapIterFacts": "the ten audited map-iteration sites of the library with the reason why the order cannot reach the output (sorted before use / copied into a fresh map / conjunction over all entries); read from the source, not proved (T5, C02)",
    "MapOrder": "`values/sort.go`: `keyClass`, `valueLess`, `numberLess`, `keyTypeName`, `keyLess` clause by clause and `sortedEntries` (stable insertion sort by key) = the order of `values.SortedMapKeys`, called by every place of the model that iterates a map (a map value holds its entries in no particular order); `sortedFields` for `IterationKeyedMap`; the codec's canonical order (`canonOrder`, `canonEnc`) for result lines and for `uniq`",
    "Driver": "line-protocol dispatcher (one op per line → one canonical result line)",
    "Filters/Num": "numeric filter bodies (plus minus times divided_by modulo abs ceil floor round, default, size)",
    "Filters/Str": "string filter bodies (23 filters)",
    "Filters/StrGlue": "string filters plugged into the call layer (lazy arguments)",
    "InsertionSort": "Go's `sort.insertionSort` (`sort/zsortinterface.go`) — all of `sort.Sort` on at most 12 elements — loop by loop, for a total and for a partial (panicking / unmodelled) comparator",
    "Filters/Arr": "array filter bodies (compact concat join map reverse sort sort_natural first last uniq): the sorts exact up to 12 elements (insertion sort), a sorted permutation beyond; canonical sort form for results of more than 12 elements; `uniq` by `uniqKey` (scalars by dynamic type and contents, arrays and maps by what they hold: `uniqForm`)",
    "Filters/Json": "`json`, `inspect`, `type`: `encoding/json` marshalling of the value universe (float format switch, HTML-safe string escaping, base64, sorted map keys, structs, pointers, `time.Time`) and `%T`",
    "Filters/Date": "`date` = `tuesday.Strftime` on a UTC time: the directive regexp as a deterministic scanner (`matchDirective`: flag, width, `E`/`O`, conversion), all of `convert` (46 conversions, `%x` for the other letters), the padding table, flags `- _ 0 ^ #` and colons, `fmt`'s `%d` with blank and zero padding (`fmtNum`), `applyFlags`; widths up to 1024",
    "Heap": "slice memory (C15/C03 no-write clause): `Store` of backing arrays, `SliceRef` arr/off/len/cap, programs `Prog` (read / write / alloc) with the interpreter `run` returning store and WRITE LOG; Go's `index`, element assignment, `reslice`, `make`, `append` (in place into spare capacity, else allocate), `copy`; `values.Convert(·, []any)` (a `[]any` without drops is passed through uncopied) and the bodies of compact concat join map reverse sort sort_natural first last uniq size default at that level; one filter application `stageF`, pipelines `runChain`; driver op `alias`",
    "TokenReSrc": "`parser.formTokenMatcher` as data (`StrExpr`, `TokenReSrc.pattern`: Sprintf/QuoteMeta/Join/range), `regexp.QuoteMeta`, the printer `Re.toGoSyntax` of the model's expressions in Go syntax (T4)",
    "Rex": "driver ops `rex`/`rexs`: decode an expression, print it, match it, answer like `FindStringSubmatchIndex`",
    "Generated/Writes": "written by translator T3 on every run: every store to a captured or package-level variable (store facts) and every call that hands a package-level variable to a callee outside the trusted read-only packages (call facts)",
    "Generated/Grammar": "written by translator T1 on every run: the block grammar table of `AddStandardTags`",
    "Generated/Filters": "written by translator T2 on every run: name, parameter types and result shape of every `AddFilter` of `AddStandardFilters`",
    "Generated/TokenRe": "written by translator T4 on every run: the format string, arguments and exclusion loop of `formTokenMatcher`",
    "Generated/CaseTables": "written by translator T6 on every run: the simple case mapping of the toolchain's `unicode` package (`unicode.ToUpper` / `ToLower` called on every rune, run-length encoded: 200 + 182 ranges for Unicode 15.0.0), `unicode.Version`, and the six runes on which `ToUpper ∘ ToLower ∘ ToUpper = ToUpper` fails",
    "Generated/MapIter": "written by translator T5 on every run: every place where the library iterates a Go map (`range`, `MapKeys`, `MapRange`) and whether its function calls into package `sort`",
}


def gen_model_files():
    lines = ["| file (`lean/Liquid/`) | lines | models |", "|---|---|---|"]
    total = 0
    for name, d in DESCR.items():
        p = os.path.join(ROOT, "lean", "Liquid", name + ".lean")
        n = sum(1 for _ in open(p)) if os.path.exists(p) else 0
        total += n
        lines.append(f"| `{name}.lean` | {n} | {d} |")
    lines.append(f"| **total** | {total} | |")
    pl = sum(sum(1 for _ in open(p)) for p in glob.glob(os.path.join(ROOT, "lean", "Proofs", "*.lean")))
    nt = sum(len(theorem_index.theorems(p)[1]) for p in glob.glob(os.path.join(ROOT, "lean", "Proofs", "*.lean")))
    lines.append("")
    lines.append(f"Proof files (`lean/Proofs/`): {len(glob.glob(os.path.join(ROOT, 'lean', 'Proofs', '*.lean')))} files, {pl} lines, {nt} theorems "
                 f"(property theorems in `Proofs/Cxx.lean`, helper lemmas in the other files).")
    return "\n".join(lines)


def gen_streams():
    by = {}
    for pid, P in PROPS.items():
        for s in P["streams"]:
            by.setdefault(s["name"], []).append(pid)
    lines = ["| stream (`harness/stream_<name>.go`) | properties |", "|---|---|"]
    for s in sorted(by):
        lines.append(f"| `{s}` | {', '.join(sorted(by[s]))} |")
    return "\n".join(lines)


GEN = {"per-property": gen_props, "defects": gen_defects, "seeded": gen_seeded, "model-files": gen_model_files, "streams": gen_streams}


def main():
    p = os.path.join(ROOT, "DESIGN.md")
    s = open(p).read()
    for name, fn in GEN.items():
        pat = re.compile(r"(<!-- BEGIN GENERATED:%s -->\n).*?(<!-- END GENERATED:%s -->)" % (name, name), re.S)
        if not pat.search(s):
            print("marker missing:", name)
            continue
        s = pat.sub(lambda m: m.group(1) + fn() + "\n" + m.group(2), s)
    open(p, "w").write(s)
    subprocess.run([sys.executable, os.path.join(ROOT, "tools", "theorem_index.py"), "--md"], check=True)


if __name__ == "__main__":
    main()
