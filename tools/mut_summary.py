#!/usr/bin/env python3
"""Summarise seeded/<name>/meta.json files: tools/mut_summary.py [name-prefix…]"""
import json, glob, os, sys
ROOT = os.path.dirname(os.path.dirname(os.path.abspath(__file__)))
pre = sys.argv[1:]
for p in sorted(glob.glob(os.path.join(ROOT, "seeded", "*", "meta.json"))):
    n = os.path.basename(os.path.dirname(p))
    if pre and not any(n.startswith(x) for x in pre):
        continue
    d = json.load(open(p))
    print(n, "confirmed=%s" % d.get("confirmed"), "caught_by=%s" % d.get("caught_by"))
    for k, v in d.get("checks", {}).items():
        for tier, r in v.items():
            rp = r.get("replay") or {}
            summ = [l for l in r["lines"] if not l.startswith("VIOLATION")][-1:]
            print("    %s %-8s rc=%s %s %s/%s" % (k, tier, r["rc"], (summ[0][:110] if summ else ""), rp.get("stream", ""), rp.get("clause", "")))
