#!/usr/bin/env python3
"""Resolve merge conflicts inside generated regions (DESIGN.md, THEOREMS.md, MANIFEST.json): keep 'ours' for every
conflict hunk of the named files, then regenerate them from the sources of truth."""
import re, subprocess, sys
for p in sys.argv[1:]:
    s = open(p).read()
    s = re.sub(r"<<<<<<< [^\n]*\n(.*?)=======\n.*?>>>>>>> [^\n]*\n", lambda m: m.group(1), s, flags=re.S)
    open(p, "w").write(s)
subprocess.run(["python3", "mkmanifest.py"], check=True)
subprocess.run(["python3", "tools/gen_design.py"], check=True)
