#!/bin/bash
# Re-evaluate the seeded changes whose meta.json lists a property as missed (run from /verif or a snapshot of it).
cd "$(dirname "$0")/.."
python3 - <<'PY' > /tmp/reeval_list.$$
import json,os
for n in sorted(os.listdir('seeded')):
    m=json.load(open(f'seeded/{n}/meta.json'))
    missed=[p for p in m['properties'] if p not in m.get('caught_by',[])]
    if missed: print(n, ' '.join(m['properties']))
PY
while read n props; do
  echo "=== $n $props"
  python3 tools/mut_eval.py "$PWD/seeded/$n" $n $props | grep -E '"caught_by"|"caught_with_failing_input"|VIOLATION|tier=' 
done < /tmp/reeval_list.$$
rm -f /tmp/reeval_list.$$
