from . import COMMON_TB, NOTE

PROP = {
    "modules": ["Proofs.C09"],
    "streams": [{"name": "cmp"}],
    "rule": "cmp: every unordered pair of a 168-value universe (nil, booleans, all ten integer widths at 0, +-1, min, max, "
            "2^53+-1, floats incl. 2^53, 2^63, 2^64, strings, generic and typed arrays, maps of several key types, ordered "
            "maps, drops, pointers, ranges, structs), each pair evaluated by the real parser and grammar actions for ==, !=, "
            "<, >, <=, >=, contains in both orders, as variables and as array elements (dropWrapper path); truthiness of "
            "every value through `and`, `or` and a rendered {% if %}; random value trees against independent trees and "
            "against representation variants of themselves; random and/or/parenthesised conditions over three values. "
            "A pair is non-trivial when ==, < or > holds; distinct by case line",
    "trusted_base": COMMON_TB,
    "assumptions": ["the model's Equal/Less/ValueOf/Contains/Test and grammar actions describe values/*.go and "
                    "expressions.y after fixes C09-1..3: checked by the cmp stream on every run",
                    "int-vs-float comparison is specified as conversion to the join type float64 (README); it coincides "
                    "with comparison by numeric value for |n| <= 2^53 (theorem equal_num / less_num)"],
}

TEXT = {
    "text": "Theorems for all Go values of the model (structural induction over the nested value type): != is the negation "
            "of ==, > is swapped <, <= is < or ==, >= is > or == (ne_not_eq, gt_swap, le_def, ge_def); == is reflexive on "
            "well-formed values and symmetric (equal_refl, equal_symm); nil equals only nil (equal_nil); values of different "
            "kinds are never equal and never ordered (equal_kind, less_unlike, less_nil); arrays are equal iff same length "
            "and element-wise equal (equal_array); integers of all ten widths compare exactly, an integer and a float "
            "after float64 conversion which is the numeric value for |n| <= 2^53 (equal_num, equal_num_join, less_num); "
            "strings compare lexicographically on bytes (less_str); contains is substring / membership by == / key "
            "(contains_str, contains_arr, contains_map); and/or treat exactly nil and false as false (truthy_iff); no "
            "operator ever panics (rel_no_panic). The model is compared with the real parser+evaluator on all pairs of a "
            "168-value universe and on random trees and conditions each run; the coherence laws and the kind table are "
            "evaluated on the real results.",
    "design_ref": "DESIGN.md 6 C09",
    "note": NOTE + "Outside the model (skipped, counted): pointer identity, == between two harness structs, fmt.Sprint of a "
                   "float/container needle of a string contains, contains on a struct.",
    "technique": "Lean 4 proof (mutual structural induction on the value tree) + model/implementation correspondence",
}
