from . import COMMON_TB, NOTE

PROP = {
    "modules": ["Proofs.C09"],
    "streams": [{"name": "cmp"}],
    "rule": "cmp: every unordered pair of a 170-value universe (its size is recorded on every run in the evidence note "
            "cmp:universe; nil, booleans, all ten integer widths of the codec at 0, 1, -1 (signed), min, max, "
            "2^53, +-(2^53+1), finite floats incl. 2^53, 2^53+2, +-2^63, 2^64, strings, generic and typed arrays, maps of several key types, ordered "
            "maps, drops incl. a drop yielding a drop, pointers, ranges, times, structs, []byte and IterationKeyedMap), bound to variables, each pair evaluated by the real parser and grammar "
            "actions for ==, !=, <, >, <=, >=, contains in both orders; every value against itself and against two fixed "
            "partners also as array elements (dropWrapper path: forms ee, ev, ve); truthiness of "
            "every value, as variable and as array element, through `and`, `or` and a rendered {% if %}; random value trees "
            "against independent trees and against representation variants of themselves (variable and element forms at "
            "random); random and/or/parenthesised conditions over three values; an implementation-only family (shard 0; the codec has no "
            "uintptr, so there is no model side): a uintptr operand must give in ==, !=, <, >, <=, >=, case/when, contains, sort and uniq "
            "what the uint64 of the same value gives (clause uintptr-compares-as-uint64, /repo a51d517). No NaN, +-Inf or -0 operand is generated. "
            "A pair is non-trivial when ==, < or > holds; distinct by case line",
    "trusted_base": COMMON_TB,
    "assumptions": ["the model's Equal/Less/ValueOf/Contains/Test and grammar actions describe values/*.go and "
                    "expressions.y after fixes C09-1..3 (0fd7bf4, 2a48d77, 17eb697), map-contains-like-lookup (0f52a45: "
                    "a map contains a key exactly when looking it up finds an entry) and nested-drops-resolved (e3953ba: ToLiquid, and "
                    "with it Equal and Less, follows a drop that yields a drop to the end): checked by the cmp stream on every run; "
                    "uintptr (an integer kind for ==, < and sort since a51d517) is not a kind of the model: tested on the real engine only",
                    "int-vs-float comparison is specified as conversion to the join type float64 (README); it coincides "
                    "with comparison by numeric value for |n| <= 2^53 (theorem equal_num / less_num)",
                    "floats are finite and not -0 (exact rationals in the model): NaN, +-Inf and -0 operands are neither "
                    "modelled nor generated, so reflexivity of == and numeric ordering are not claimed for them"],
}

TEXT = {
    "text": "Theorems for all Go values of the model unless a hypothesis is named (structural induction over the nested "
            "value type; an operand is what the operator sees of it: drops and top-level pointers resolved): != is the negation "
            "of ==, > is swapped <, <= is < or ==, >= is > or == (ne_not_eq, gt_swap, le_def, ge_def); on well-formed operands "
            "(WF: no pointer below the top level, no harness struct, no drop yielding a drop, no []byte / IterationKeyedMap, "
            "every map with pairwise distinct scalar keys) == yields a Boolean, is reflexive and is symmetric (equal_total, "
            "equal_refl, equal_symm); nil equals only nil and an ordering with nil is false (equal_nil, less_nil); between the "
            "kinds nil / bool / number / string / array / map, values of different kinds are never equal and never ordered "
            "(equal_kind, less_unlike; kind `other` - ordered maps, ranges, time, structs - is excluded by hypothesis); "
            "slices and arrays are equal iff same length "
            "and element-wise equal (equal_array); integers of all ten widths of the model (Go's eleventh integer kind, uintptr, is not "
            "a value of the model: no theorem, see the stream) compare exactly, an integer and a float "
            "after float64 conversion which is the numeric value for |n| <= 2^53 (equal_num, equal_num_join, less_num, "
            "less_num_join; hypothesis numOK: a value of an unsigned kind is not negative); "
            "strings compare lexicographically on bytes (less_str); contains is substring for a string needle / membership by "
            "== (the iff of contains_arr when every element comparison is answered by the model) / the key lookup of m[k] with the needle converted to the key type (contains_str, contains_arr, contains_map, "
            "contains_map_agrees_with_lookup); and/or treat exactly nil and false as false (truthy_iff, and_or_truthy); no "
            "operator ever panics (rel_no_panic, ops_no_panic, cond_no_panic). The model is compared with the real "
            "parser+evaluator on all pairs of a 170-value universe and on random trees and conditions each run; the coherence "
            "laws (symmetry on every pair; reflexivity on every tree without structs, pointers below the top level and "
            "drops yielding drops below the top level) and the kind table are "
            "evaluated on the real results; a uintptr operand is compared, on the real engine only, with the uint64 of the "
            "same value (repair a51d517).",
    "design_ref": "DESIGN.md 6 C09",
    "note": NOTE + "Floats are finite and not -0 (exact rationals): NaN, +-Inf and -0 operands are neither modelled nor "
                   "generated (Go's NaN == NaN is false, so reflexivity is not claimed there). Reflexivity, symmetry and "
                   "totality of == are proved for well-formed operands only; the kind theorems only between the six documented "
                   "kinds. Outside the model (answered `unmodelled`; skipped, counted): pointer identity, == between two "
                   "harness structs, fmt.Sprint of a float/container needle of a string contains, contains on a struct, map "
                   "contains with a numeric needle that does not convert into an integer key type without wrap-around, "
                   "maps with non-scalar keys, []byte and IterationKeyedMap (the driver rewrites these two to []uint8 / "
                   "map[string]any). A uintptr is outside the model and the codec altogether (no case line can carry one): that it "
                   "compares as the uint64 of the same value is an implementation-only family of `cmp`, not a theorem. Since e3953ba "
                   "ToLiquid follows a drop that yields a drop to the end in the real code and in the model (toLiq); WF still excludes "
                   "such a drop below the top level, so reflexivity / symmetry / totality are not claimed for it.",
    "technique": "Lean 4 proof (mutual structural induction on the value tree) + model/implementation correspondence",
}
