from . import COMMON_TB, NOTE

PROP = {
    "level": "proof",
    "modules": [],
    "streams": [{"name": "robust"}],
    "rule": "robust: (1) exhaustive boundary matrix: every filter registered in filters/*.go (read from the source at run "
            "time) x receiver in U x argument tuples in U^arity plus one over-arity call, every comparison/boolean "
            "operator x U x U, 31 access/loop/tag forms x U (x U), 12 cases on a cyclic include layout (a file that includes itself, a 2-cycle behind a condition), U = 23 (quick) / 58 (thorough) boundary values (the size is recorded on every run in the evidence note robust:universe) (typed zeros "
            "int64(0), uint(0) and an array holding a nil and a non-nil pointer included); a "
            "family of pure templates over ranges with extreme endpoints and lengths around the array-conversion bound; fixed families on "
            "`forloop` bindings of every shape under cycle/tablerow (reserved names), every exported method name of time.Time and values.Range used as "
            "a property, maps with NaN keys, typed nil pointers as elements, and Go values the codec cannot spell (implementation only); 299 whole templates "
            "about times ({{ t }}, t | date with and without a format, date on date strings of every modelled layout and on strings no layout "
            "accepts, times inside arrays, maps and behind pointers, date results fed to other filters) on 12 instants from the year -32873 to 36812; "
            "(2) every sequence of <= 3 items of a fixed 24-item alphabet of expression tokens (not every token the lexer knows) "
            "in 6 expression contexts; thorough adds every sequence of exactly 4 items in the first 3 contexts (output, if, assign); "
            "(3) grammar-generated templates x generated environments (all tags, filters, operators; measured "
            "parse/render success rates in input_distribution gen:*); (4) random bytes / UTF-8 / delimiter-dense sources; "
            "(5) the repository's own test templates and 4 (thorough: 40) mutants of each; (0) corpus/robust/*.case (the "
            "inputs of every defect known so far) first. Every case runs in a killable worker process under recover, "
            "GOMEMLIMIT and a heap watchdog; the time clause compares the CPU time of the case with 50x a budget "
            "proportional to source size and spelled-out loop/range sizes; a case that overshoots is measured up to 3 times "
            "(2 times when a run had to be killed or killed its worker) and the limit is scaled by a calibration "
            "render timed alongside (so machine load does not raise alarms); a worker that dies is restarted and the "
            "case run once more (the worker dying in both runs = process-death; a death that does not repeat is counted, not "
            "reported). A case is non-trivial when it renders non-empty output; distinct "
            "by case line.",
    "trusted_base": COMMON_TB,
    "assumptions": ["the time clause is checked as a 50-fold overshoot of a generous budget in each of up to three measurements "
                    "(two when a run had to be killed), relative to a calibration render"],
}

TEXT = {
    "text": ('Theorem run_std_noPanic (no hypotheses): for every configuration, source, start line, environment, file layout and '
              'include fuel, the model of ParseTemplateLocation+Render under the standard filters, operators and printing never '
              'ends in `panic`; run_result (the case split on the result type that follows): it ends in output, a value of the '
              'located-error type (that its line and path are meaningful is not part of the statement), or an explicit '
              '`unmodelled` marker (run_result is stated for every value layer that satisfies PrimsNoPanic, the hypothesis of run_noPanic; '
              'std_noPanic discharges it for the standard layer, and the first clause of run_terminates_all_layouts is that instance). Every file layout is covered, cyclic ones included, with no acyclicity hypothesis '
              '(run_terminates_all_layouts, Proofs.C01Depth): the only unbounded recursion of the renderer, through {% include %}, is a structural '
              'recursion on the fuel, the fuel is the number of include levels RenderFile still grants (maxIncludeDepth - depth, 100 for the '
              'template itself: runStd), with none left the handler IS the error of the repaired code (include nesting too deep), not a gap of '
              'the model, and an `unmodelled` answer of the handler never stands for depth: it is the `unmodelled` of compiling or rendering a '
              'file that was found (third clause of the theorem). The input of the repaired defect (ab284eb) in closed form: {% include "a" %} (either quote, a name without that quote) with '
              'a = T{% include "a" %}, T literal text, under delimiters satisfying GoodDelims and with both sources free of further delimiter text (Clean), on the standard engine is the located depth error raised by the 100th nested copy of the file '
              '(self_include_fails_at_100, Proofs.C01Depth, line = start line + 100 x the newlines of T). The same for every fuel n (self_include_depth_error) and, for a file that compiles to literal text followed by an '
              'include tag of its own name as a literal (whatever follows the tag), an error at every fuel (include_cycle_fails) are theorems of '
              'Proofs.C14Depth, audited under C14, not under this property. Proved layer by layer: the scanner is a total function (Lean\'s termination check; scan_total '
              'adds nothing to it), block parser (parseStep_noPanic/parseTokens_noPanic: the block-stack pop is guarded), expression '
              'parser, compile, render tree (renderRoot_noPanic, include recursion bounded by fuel), and the value layer the '
              'renderer calls (PrimsNoPanic stdPrims stdOut: ==, <, contains, values.Equal, writeObject, and ApplyFilter + '
              'values.Call with all modelled numeric/string/array filter bodies and the '
              'value filters json, inspect, type, i.e. the model of json.Marshal and of %T: StdNoPanic, ArrNoPanic, '
              'json_inspect_type_noPanic, and the date filter, i.e. the model of tuesday.Strftime, of the calendar and of ParseDate: '
              'dateImpls_noPanic, date_noPanic, time_values_noPanic; all 48 registered filters have a modelled body: '
              'every_registered_filter_modelled; a body has to be panic-free only on '
              'arguments typed as its registered signature says, which is what values.Call hands it). The Res.panic sites of the '
              'model of parsing and rendering (what `run` reaches; the separate heap model Liquid/Heap.lean of C03/C15 has its own), all of them shown unreachable: the reflect accessors on a value of the wrong kind (Bool, Int, Uint, Len, map '
              'Key, Convert to float64), Go == on uncomparable types, the string assertion of stringValue.Contains (Compare.lean), '
              'the pop of an empty block stack (Parse.lean), and a filter body applied to arguments of the wrong Go type (badArgs). '
              "(Since 0fd7bf4 the code asks reflect's Comparable() before == (safeEqual); the model's goEq keeps the panic site behind the same guard.) "
              'Index and slice bounds, a write to a nil map, integer division by zero and nil-pointer dereference are NOT panic '
              'sites of the model: lookup, conversion, the string filter bodies and the tags are written there as total functions '
              '(division by zero is the returned error), so the theorem says nothing about them; that the code has no such panic '
              'rests on the `robust` oracle (boundary matrix) and on the correspondence. '
              "Termination is Lean's own check (no `partial`). Tie: every `robust` case line is answered by the model and by the "
              'real engine in a killable worker; results must agree and the real result must be output or a usable SourceError '
              'within the time budget.'),
    "design_ref": 'DESIGN.md 6 C01',
    "note": NOTE + ('Parts of the code answered `unmodelled` (counted in evidence) are covered by the oracle on the real code only: '
              'date on a string receiver that is not one of the five all-digit layouts (nor rejected by every layout at its first field) or that is `now` (the clock), '
              'strftime widths above 1024, instants beyond +-2^62 s, fmt of a time below an unexported struct field; in the model binary (not in the model\'s semantics) a loop over a range of more than 100000 '
              'items and the array conversion of a range of more than 10^6 items: the two numbers are the defaults of the budget parameters of the executable model (Cfg.budget, `convert`), which have no counterpart in the code; run_std_noPanic and the other theorems about `run` are stated for every value of the loop budget (it is a field of cfg), and run_noPanic / run_result for every value layer that satisfies PrimsNoPanic, while stdPrims (run_std_noPanic) fixes the conversion budget at its default 10^6 (stdPrims = stdPrimsB 1000000) - a render that gives an answer under some budgets gives the same answer under all larger ones (budget_monotone, budget_monotone_std, theorems of Proofs.C11 resting on Proofs.Budget, through every node and included file; both modules are audited under C11, not under this property), so an answer of the model is never an artefact of the budgets; only inputs beyond them are answered `unmodelled`, by the driver, which runs with the defaults; sort of more than 12 elements when the order '
              'is not a strict weak order or when tied elements are distinguishable (unstable sort); a custom block; pointer '
              'identity (== of two non-nil pointers, uniq over pointers); == on struct and array values; conversion of an index '
              'to a map\'s key type outside the modelled cases; fmt of a pointer (an address), of a pointer to a pointer and of '
              'a map with keys of mixed dynamic type; a loop over (or array conversion of) a map with several keys that are neither booleans, numbers nor strings (they are ordered by how they print: Liquid/MapOrder.lean); '
              'a method of time.Time / values.Range invoked as a property; `contains` with a string needle on a struct value (method and field lookup); in json / inspect / type: an empty []any (nil and empty are not told apart), a map key that is neither a string nor an integer, '
              '%T of a nil pointer, inspect of a value json.Marshal rejects; a negative-zero literal; '
              'some float edge cases (negative zero, overflow to Inf, float to int out '
              'of range, math.Pow10). Time/space is measured on the implementation, not proved (the model has no cost semantics).'),
    "technique": ('Lean 4 proof (no-panic invariant by structural induction over the render tree and the value layer, about the '
              'panic sites the model spells out) + '
              'model/implementation correspondence + exhaustive boundary-matrix enumeration with a crash/timeout oracle on the '
              'implementation'),
}
