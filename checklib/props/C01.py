from . import COMMON_TB, NOTE

PROP = {
    "level": "proof",
    "modules": [],
    "streams": [{"name": "robust"}],
    "rule": "robust: (1) exhaustive boundary matrix: every filter registered in filters/*.go (read from the source at run "
            "time) x receiver in U x argument tuples in U^arity plus one over-arity call, every comparison/boolean "
            "operator x U x U, 31 access/loop/tag forms x U (x U), U = 21 (quick) / 56 (thorough) boundary values (typed zeros int64(0), uint(0) included); a "
            "family of pure templates over ranges with extreme endpoints and lengths around the array-conversion bound; 299 whole templates "
            "about times ({{ t }}, t | date with and without a format, date on date strings of every modelled layout and on strings no layout "
            "accepts, times inside arrays, maps and behind pointers, date results fed to other filters) on 12 instants from the year -32873 to 36812; "
            "(2) every sequence of <= 3 (thorough: 4) tokens of the expression lexer in 6 expression contexts; "
            "(3) grammar-generated templates x generated environments (all tags, filters, operators; measured "
            "parse/render success rates in input_distribution gen:*); (4) random bytes / UTF-8 / delimiter-dense sources; "
            "(5) the repository's own test templates and 4 (thorough: 40) mutants of each; (0) corpus/robust/*.case (the "
            "inputs of every defect known so far) first. Every case runs in a killable worker process under recover, "
            "GOMEMLIMIT and a heap watchdog; the time clause compares the CPU time of the case with 50x a budget "
            "proportional to source size and spelled-out loop/range sizes, measured 3 times and scaled by a calibration "
            "render timed alongside (so machine load does not raise alarms); a worker that dies is restarted and the "
            "case retried (3 deaths = process-death). A case is non-trivial when it renders non-empty output; distinct "
            "by case line.",
    "trusted_base": COMMON_TB,
    "assumptions": ["the time clause is checked as a 50-fold overshoot of a generous budget in each of three measurements, relative to a calibration render"],
}

TEXT = {
    "text": ('Theorem run_std_noPanic (no hypotheses): for every configuration, source, start line, environment, file layout and '
              'include fuel, the model of ParseTemplateLocation+Render under the standard filters, operators and printing never '
              'ends in `panic`; run_result: it ends in output, a located error, or an explicit `unmodelled` marker. Proved layer '
              'by layer: scanner total, block parser (parseStep/parseTokens_noPanic: the block-stack pop is guarded), expression '
              'parser, compile, render tree (renderRoot_noPanic, include recursion bounded by fuel), and the whole value layer '
              '(stdPrims: comparison, contains, lookup, conversion, call, all modelled numeric/string/array filter bodies and the '
              'value filters json, inspect, type, i.e. the model of json.Marshal and of %T: StdNoPanic, ArrNoPanic, '
              'json_inspect_type_noPanic, and the date filter, i.e. the model of tuesday.Strftime, of the calendar and of ParseDate: '
              'dateImpls_noPanic, date_filter_noPanic, time_values_noPanic; all 48 registered filters). Go panics are explicit in the model (Res.panic: nil map write, slice bounds, reflect kind '
              'errors, divide by zero, nil pointer dereference), so the theorem says none of those sites is reachable; '
              "termination is Lean's own check (no `partial`). Tie: every `robust` case line is answered by the model and by the "
              'real engine in a killable worker; results must agree and the real result must be output or a usable SourceError '
              'within the time budget.'),
    "design_ref": 'DESIGN.md 6 C01',
    "note": NOTE + ('Parts of the code answered `unmodelled` (date on strings other than the five all-digit layouts and with widths above 1024, times beyond +-2^62 s, sort of more than 12 elements with an order that is not a strict weak order, '
              'case mapping outside the modelled table, some float edge cases; counted in evidence) are covered by the oracle on '
              'the real code only. Time/space is measured on the implementation, not proved (the model has no cost semantics).'),
    "technique": ('Lean 4 proof (no-panic invariant by structural induction over the render tree and the value layer) + '
              'model/implementation correspondence + exhaustive boundary-matrix enumeration with a crash/timeout oracle on the '
              'implementation'),
}
